#!/bin/sh
# usage: tools_revert_test.sh <commit> <Cnn>...   — temporarily reverts a fix commit in /repo and runs the checks
c=$1; shift
cd /repo && git revert --no-commit $c >/dev/null 2>&1 || { echo "revert of $c conflicts"; git reset -q --hard HEAD; exit 1; }
for p in "$@"; do (cd /verif && ./check $p | tail -1); done
cd /repo && git reset -q --hard HEAD
