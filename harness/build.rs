//! Compiles the C hook driver against the header shipped with dnssector. If it does not compile
//! (header/library drift), the harness is still built and the `cabic` operation reports the error.
use std::process::Command;

fn main() {
    let out_dir = std::env::var("OUT_DIR").unwrap();
    let hdr_dir = "/repo/src/bin/c_hook";
    println!("cargo:rerun-if-changed=cdriver.c");
    println!("cargo:rerun-if-changed={}/c_hook.h", hdr_dir);
    println!("cargo:rustc-check-cfg=cfg(cdriver_ok)");
    let obj = format!("{}/cdriver.o", out_dir);
    let lib = format!("{}/libcdriver.a", out_dir);
    let r = Command::new("cc")
        .args(["-std=gnu11", "-O1", "-Wall", "-Werror", "-fPIC", "-I", hdr_dir, "-c", "cdriver.c", "-o", &obj])
        .output();
    let ok = match r {
        Ok(o) if o.status.success() => {
            let a = Command::new("ar").args(["crs", &lib, &obj]).output();
            matches!(a, Ok(x) if x.status.success())
        }
        Ok(o) => {
            std::fs::write(format!("{}/cdriver.err", out_dir), [o.stdout, o.stderr].concat()).ok();
            false
        }
        Err(e) => {
            std::fs::write(format!("{}/cdriver.err", out_dir), format!("cc not runnable: {}", e)).ok();
            false
        }
    };
    if ok {
        println!("cargo:rustc-cfg=cdriver_ok");
        println!("cargo:rustc-link-search=native={}", out_dir);
        println!("cargo:rustc-link-lib=static=cdriver");
    } else if !std::path::Path::new(&format!("{}/cdriver.err", out_dir)).exists() {
        std::fs::write(format!("{}/cdriver.err", out_dir), "ar failed").ok();
    }
}
