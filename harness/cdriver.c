/* C hook driver compiled against the header shipped with dnssector (src/bin/c_hook/c_hook.h), with
 * -Wall -Werror: interprets the same script language as the Rust-side table driver and writes the
 * same transcript. A signature drift between header and library shows up as a compile error or as a
 * transcript difference. */
#include <stdio.h>
#include <stdlib.h>
#include <string.h>
#include "c_hook.h"

#define PAD 32
#define CANARY 0xAA

typedef struct Out { char *p; size_t cap; size_t len; } Out;

static void put(Out *o, const char *s) {
    size_t n = strlen(s);
    if (o->len + n + 1 < o->cap) { memcpy(o->p + o->len, s, n); o->len += n; o->p[o->len] = 0; }
}
static void put_hex(Out *o, const uint8_t *b, size_t n) {
    char t[3];
    size_t i;
    if (n == 0) { put(o, "-"); return; }
    for (i = 0; i < n; i++) { snprintf(t, sizeof t, "%02x", b[i]); put(o, t); }
}
static int hexval(int c) {
    if (c >= '0' && c <= '9') return c - '0';
    if (c >= 'a' && c <= 'f') return c - 'a' + 10;
    if (c >= 'A' && c <= 'F') return c - 'A' + 10;
    return -1;
}
/* "-" is the empty string */
static size_t unhex(const char *s, uint8_t *out, size_t cap) {
    size_t n = 0;
    if (strcmp(s, "-") == 0) return 0;
    while (s[0] && s[1] && n < cap) { out[n++] = (uint8_t) (hexval(s[0]) * 16 + hexval(s[1])); s += 2; }
    return n;
}
static const char *kind_of(const char *d) {
    if (!strncmp(d, "Packet too small", 16)) return "PacketTooSmall";
    if (!strncmp(d, "Packet too large", 16)) return "PacketTooLarge";
    if (!strncmp(d, "Unsupported class:", 18)) return "UnsupportedClass";
    if (!strncmp(d, "Internal error:", 15)) return "InternalError";
    if (!strncmp(d, "Invalid name in a DNS record:", 29)) return "InvalidName";
    if (!strncmp(d, "Invalid DNS packet:", 19)) return "InvalidPacket";
    if (!strncmp(d, "Unsupported RR type:", 20)) return "UnsupportedRRType";
    if (!strncmp(d, "Void record", 11)) return "VoidRecord";
    if (!strncmp(d, "Property not found", 18)) return "PropertyNotFound";
    if (!strncmp(d, "Wrong address family", 20)) return "WrongAddressFamily";
    if (!strncmp(d, "Parse error", 11)) return "ParseError";
    return "?";
}
static void put_ret(Out *o, const FnTable *t, int ret, const CErr *err) {
    char b[64];
    if (ret == 0) { put(o, "ret=0"); return; }
    snprintf(b, sizeof b, "ret=%d err=", ret);
    put(o, b);
    put(o, err ? kind_of(t->error_description(err)) : "null");
}
static int intact(const uint8_t *g, size_t cap) {
    size_t i;
    for (i = 0; i < PAD; i++) if (g[i] != CANARY || g[PAD + cap + i] != CANARY) return 0;
    return 1;
}

typedef struct Ctx { const FnTable *t; size_t k, n; char **act; int nact; Out *o; char res[1200]; } Ctx;

static void act(Ctx *cx, void *it) {
    const FnTable *t = cx->t;
    const CErr *err = NULL;
    Out r = { cx->res, sizeof cx->res, 0 };
    char b[64];
    cx->res[0] = 0;
    if (!strcmp(cx->act[0], "name")) {
        uint8_t g[256 + 2 * PAD];
        memset(g, CANARY, sizeof g);
        t->name(it, (char *) g + PAD);
        if (!intact(g, 256)) { put(&r, "CANARY-BROKEN"); return; }
        if (!memchr(g + PAD, 0, 256)) { put(&r, "name-not-terminated"); return; }
        put(&r, "name="); put_hex(&r, g + PAD, strlen((char *) g + PAD));
    } else if (!strcmp(cx->act[0], "type")) { snprintf(b, sizeof b, "type=%u", (unsigned) t->rr_type(it)); put(&r, b);
    } else if (!strcmp(cx->act[0], "class")) { snprintf(b, sizeof b, "class=%u", (unsigned) t->rr_class(it)); put(&r, b);
    } else if (!strcmp(cx->act[0], "ttl")) { snprintf(b, sizeof b, "ttl=%lu", (unsigned long) t->rr_ttl(it)); put(&r, b);
    } else if (!strcmp(cx->act[0], "setttl")) { t->set_rr_ttl(it, (uint32_t) strtoull(cx->act[1], NULL, 10)); put(&r, "ok");
    } else if (!strcmp(cx->act[0], "ip") || !strcmp(cx->act[0], "ipcap")) {
        uint8_t g[256 + 2 * PAD];
        size_t cap = !strcmp(cx->act[0], "ipcap") ? (size_t) strtoull(cx->act[1], NULL, 10) : 16;
        size_t len = cap;
        if (cap > 256) cap = len = 256;
        memset(g, CANARY, sizeof g);
        t->rr_ip(it, g + PAD, &len);
        if (!intact(g, cap)) { put(&r, "CANARY-BROKEN"); return; }
        { size_t i; for (i = len; i < cap; i++) if (g[PAD + i] != CANARY) { put(&r, "WROTE-PAST-ADDRESS"); return; } }
        put(&r, "ip="); put_hex(&r, g + PAD, len > cap ? cap : len);
        snprintf(b, sizeof b, "/%zu", len); put(&r, b);
    } else if (!strcmp(cx->act[0], "setip")) {
        uint8_t a[16]; size_t n = unhex(cx->act[1], a, sizeof a);
        t->set_rr_ip(it, a, n); put(&r, "ok");
    } else if (!strcmp(cx->act[0], "setrawname")) {
        uint8_t a[600]; size_t n = unhex(cx->act[1], a, sizeof a);
        { int r_ = t->set_raw_name(it, &err, a, n); put_ret(&r, t, r_, err); }
    } else if (!strcmp(cx->act[0], "setname")) {
        uint8_t a[600], z[300]; size_t n = unhex(cx->act[1], a, sizeof a), zn = 0;
        int has_zone = strcmp(cx->act[2], ".") != 0;
        if (has_zone) zn = unhex(cx->act[2], z, sizeof z);
        { int r_ = t->set_name(it, &err, (const char *) a, n, has_zone ? z : NULL, zn); put_ret(&r, t, r_, err); }
    } else if (!strcmp(cx->act[0], "delete")) {
        { int r_ = t->delete_rr(it, &err); put_ret(&r, t, r_, err); }
    } else if (!strcmp(cx->act[0], "delete2")) {
        { int r_ = t->delete_rr(it, &err); put_ret(&r, t, r_, err); } put(&r, "+");
        { int r_ = t->delete_rr(it, &err); put_ret(&r, t, r_, err); }
    } else put(&r, "none");
}
static bool cb(void *ctx, void *it) {
    Ctx *cx = ctx;
    if (cx->n == cx->k) act(cx, it);
    cx->n++;
    return false;
}
static bool cb_count(void *ctx, void *it) {
    Ctx *cx = ctx;
    (void) it;
    cx->n++;
    return false;
}

/* runs `nops` operations (each an array of words) and appends the transcript to out */
size_t c_run_script(const FnTable *t, ParsedPacket *pp, char ***ops, const int *nwords, int nops, char *out, size_t cap) {
    Out o = { out, cap, 0 };
    char b[96];
    int i;
    out[0] = 0;
    for (i = 0; i < nops; i++) {
        char **w = ops[i];
        const CErr *err = NULL;
        if (i) put(&o, " ; ");
        if (!strcmp(w[0], "flags")) { snprintf(b, sizeof b, "flags=%lu", (unsigned long) t->flags(pp)); put(&o, b);
        } else if (!strcmp(w[0], "setflags")) { t->set_flags(pp, (uint32_t) strtoull(w[1], NULL, 10)); put(&o, "ok");
        } else if (!strcmp(w[0], "rcode")) { snprintf(b, sizeof b, "rcode=%u", (unsigned) t->rcode(pp)); put(&o, b);
        } else if (!strcmp(w[0], "setrcode")) { t->set_rcode(pp, (uint8_t) strtoull(w[1], NULL, 10)); put(&o, "ok");
        } else if (!strcmp(w[0], "opcode")) { snprintf(b, sizeof b, "opcode=%u", (unsigned) t->opcode(pp)); put(&o, b);
        } else if (!strcmp(w[0], "setopcode")) { t->set_opcode(pp, (uint8_t) strtoull(w[1], NULL, 10)); put(&o, "ok");
        } else if (!strcmp(w[0], "iter")) {
            Ctx cx;
            memset(&cx, 0, sizeof cx);
            cx.t = t; cx.k = (size_t) strtoull(w[2], NULL, 10); cx.act = w + 3; cx.nact = nwords[i] - 3; cx.o = &o;
            strcpy(cx.res, "-");
            if (!strcmp(w[1], "A")) t->iter_answer(pp, cb, &cx);
            else if (!strcmp(w[1], "N")) t->iter_nameservers(pp, cb, &cx);
            else if (!strcmp(w[1], "R")) t->iter_additional(pp, cb, &cx);
            else t->iter_edns(pp, cb_count, &cx);
            snprintf(b, sizeof b, "n=%zu act=", cx.n); put(&o, b); put(&o, cx.res);
        } else if (!strcmp(w[0], "addq") || !strcmp(w[0], "adda") || !strcmp(w[0], "addn") || !strcmp(w[0], "addr")) {
            static uint8_t txt[20000];
            size_t n = unhex(w[1], txt, sizeof txt - 1);
            int r;
            if (memchr(txt, 0, n)) { put(&o, "skip-nul"); continue; }
            txt[n] = 0;
            if (w[0][3] == 'q') r = t->add_to_question(pp, &err, (const char *) txt);
            else if (w[0][3] == 'a') r = t->add_to_answer(pp, &err, (const char *) txt);
            else if (w[0][3] == 'n') r = t->add_to_nameservers(pp, &err, (const char *) txt);
            else r = t->add_to_additional(pp, &err, (const char *) txt);
            put_ret(&o, t, r, err);
        } else if (!strcmp(w[0], "rawpacket")) {
            static uint8_t g[DNS_MAX_PACKET_SIZE + 2 * PAD];
            size_t len = (size_t) -1;
            int r;
            memset(g, CANARY, sizeof g);
            r = t->raw_packet(pp, g + PAD, &len, (size_t) strtoull(w[1], NULL, 10));
            if (!intact(g, DNS_MAX_PACKET_SIZE)) { put(&o, "CANARY-BROKEN"); continue; }
            if (r == 0) { snprintf(b, sizeof b, "ret=0 len=%zu bytes=", len); put(&o, b); put_hex(&o, g + PAD, len > DNS_MAX_PACKET_SIZE ? DNS_MAX_PACKET_SIZE : len); }
            else { snprintf(b, sizeof b, "ret=%d", r); put(&o, b); }
        } else if (!strcmp(w[0], "question")) {
            uint8_t g[256 + 2 * PAD];
            uint16_t ty = 0xffff;
            int r;
            memset(g, CANARY, sizeof g);
            r = t->question(pp, (char *) g + PAD, &ty);
            if (!intact(g, 256)) { put(&o, "CANARY-BROKEN"); continue; }
            snprintf(b, sizeof b, "ret=%d name=", r); put(&o, b);
            put_hex(&o, g + PAD, strnlen((char *) g + PAD, 256));
            snprintf(b, sizeof b, " type=%u", (unsigned) ty); put(&o, b);
        } else if (!strcmp(w[0], "rename")) {
            uint8_t a[600], s[600];
            size_t an = unhex(w[1], a, sizeof a), sn = unhex(w[2], s, sizeof s);
            { int r_ = t->rename_with_raw_names(pp, &err, a, an, s, sn, !strcmp(w[3], "1")); put_ret(&o, t, r_, err); }
        } else if (!strcmp(w[0], "name2raw")) {
            uint8_t g[256 + 2 * PAD], n[600];
            size_t nn = unhex(w[1], n, sizeof n), len = (size_t) -1;
            int r;
            memset(g, CANARY, sizeof g);
            r = t->raw_name_from_str(g + PAD, &len, &err, (const char *) n, nn);
            if (!intact(g, 256)) { put(&o, "CANARY-BROKEN"); continue; }
            if (r == 0) { put(&o, "ret=0 raw="); put_hex(&o, g + PAD, len > 256 ? 256 : len); }
            else put_ret(&o, t, r, err);
        } else if (!strcmp(w[0], "abi")) { snprintf(b, sizeof b, "abi=%lu", (unsigned long) t->abi_version); put(&o, b);
        } else put(&o, "bad-op");
    }
    return o.len;
}
