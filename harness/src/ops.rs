//! Executes one case line against the real dnssector and prints the canonical result.
use crate::msg::{hex, unhex};
use dnssector::*;
use std::panic::{catch_unwind, AssertUnwindSafe};

pub fn err_kind(e: &anyhow::Error) -> &'static str {
    match e.downcast_ref::<DSError>() {
        Some(DSError::PacketTooSmall) => "PacketTooSmall",
        Some(DSError::PacketTooLarge) => "PacketTooLarge",
        Some(DSError::UnsupportedClass(_)) => "UnsupportedClass",
        Some(DSError::InternalError(_)) => "InternalError",
        Some(DSError::InvalidName(_)) => "InvalidName",
        Some(DSError::InvalidPacket(_)) => "InvalidPacket",
        Some(DSError::UnsupportedRRType(_)) => "UnsupportedRRType",
        Some(DSError::UnsupportedRRClass(_)) => "UnsupportedRRClass",
        Some(DSError::VoidRecord) => "VoidRecord",
        Some(DSError::PropertyNotFound) => "PropertyNotFound",
        Some(DSError::WrongAddressFamily) => "WrongAddressFamily",
        Some(DSError::ParseError) => "ParseError",
        None => "OtherError",
    }
}

pub fn guard<T, F: FnOnce() -> T>(f: F) -> Result<T, ()> {
    catch_unwind(AssertUnwindSafe(f)).map_err(|_| ())
}

fn opt<T: std::fmt::Display>(o: Option<T>) -> String {
    match o {
        None => "-".into(),
        Some(x) => format!("{}", x),
    }
}

pub fn fmt_view(pp: &ParsedPacket) -> String {
    format!(
        "q={} an={} ns={} ar={} edns={} cnt={} rc={} ver={} fl={} mp={}",
        opt(pp.offset_question),
        opt(pp.offset_answers),
        opt(pp.offset_nameservers),
        opt(pp.offset_additional),
        opt(pp.offset_edns),
        pp.edns_count,
        opt(pp.ext_rcode),
        opt(pp.edns_version),
        opt(pp.ext_flags),
        pp.max_payload
    )
}

fn res_usize(r: Result<Result<usize, anyhow::Error>, ()>) -> String {
    match r {
        Ok(Ok(n)) => format!("ok {}", n),
        Ok(Err(e)) => format!("err {}", err_kind(&e)),
        Err(()) => "panic".into(),
    }
}

fn op_parse(h: &str) -> String {
    let p = match unhex(h) { Some(p) => p, None => return "bad-hex".into() };
    let orig = p.clone();
    match guard(|| DNSSector::new(p).and_then(|s| s.parse())) {
        Ok(Ok(pp)) => {
            if pp.packet.as_deref() != Some(&orig[..]) {
                return format!("ok-but-bytes-changed {}", hex(pp.packet()));
            }
            format!("ok {}", fmt_view(&pp))
        }
        Ok(Err(e)) => format!("err {}", err_kind(&e)),
        Err(()) => "panic".into(),
    }
}

fn op_cursor(h: &str, steps: &[&str]) -> String {
    let p = match unhex(h) { Some(p) => p, None => return "bad-hex".into() };
    let mut s = DNSSector::new(p).unwrap();
    let mut out: Vec<String> = vec![];
    let mut i = 0;
    while i < steps.len() {
        match steps[i] {
            "set" => {
                let n: usize = steps[i + 1].parse().unwrap();
                i += 2;
                out.push(match guard(|| s.set_offset(n)) { Ok(Ok(o)) => format!("ok:{}", o), Ok(Err(e)) => format!("err:{}", err_kind(&e)), Err(()) => "panic".into() });
            }
            "inc" => {
                let n: usize = steps[i + 1].parse().unwrap();
                i += 2;
                out.push(match guard(|| s.increment_offset(n)) { Ok(Ok(o)) => format!("ok:{}", o), Ok(Err(e)) => format!("err:{}", err_kind(&e)), Err(()) => "panic".into() });
            }
            "rdlen" => {
                i += 1;
                out.push(res_usize(guard(|| s.rr_rdlen())).replace(' ', ":"));
            }
            "ednsrdlen" => {
                i += 1;
                out.push(res_usize(guard(|| s.edns_rr_rdlen())).replace(' ', ":"));
            }
            _ => return "bad-op".into(),
        }
    }
    out.push(format!("off={}", s.offset));
    out.join(" ")
}

pub fn run_line(line: &str) -> String {
    let w: Vec<&str> = line.split(' ').filter(|x| !x.is_empty() && !x.starts_with('#')).collect();
    if w.is_empty() {
        return "bad-op".into();
    }
    match (w[0], w.len()) {
        ("parse", 2) => op_parse(w[1]),
        ("checkc", 3) => {
            let p = match unhex(w[1]) { Some(p) => p, None => return "bad-hex".into() };
            let off: usize = w[2].parse().unwrap();
            res_usize(guard(|| Compress::check_compressed_name(&p, off)))
        }
        ("checku", 3) => {
            let p = match unhex(w[1]) { Some(p) => p, None => return "bad-hex".into() };
            let off: usize = w[2].parse().unwrap();
            res_usize(guard(|| DNSSector::check_uncompressed_name(&p, off)))
        }
        ("cursor", _) if w.len() >= 2 => op_cursor(w[1], &w[2..]),
        _ => "bad-op".into(),
    }
}
