//! Executes one case line against the real dnssector and prints the canonical result.
use crate::msg::{hex, unhex};
use dnssector::*;
use std::panic::{catch_unwind, AssertUnwindSafe};

pub fn err_kind(e: &anyhow::Error) -> &'static str {
    match e.downcast_ref::<DSError>() {
        Some(DSError::PacketTooSmall) => "PacketTooSmall",
        Some(DSError::PacketTooLarge) => "PacketTooLarge",
        Some(DSError::UnsupportedClass(_)) => "UnsupportedClass",
        Some(DSError::InternalError(_)) => "InternalError",
        Some(DSError::InvalidName(_)) => "InvalidName",
        Some(DSError::InvalidPacket(_)) => "InvalidPacket",
        Some(DSError::UnsupportedRRType(_)) => "UnsupportedRRType",
        Some(DSError::UnsupportedRRClass(_)) => "UnsupportedRRClass",
        Some(DSError::VoidRecord) => "VoidRecord",
        Some(DSError::PropertyNotFound) => "PropertyNotFound",
        Some(DSError::WrongAddressFamily) => "WrongAddressFamily",
        Some(DSError::ParseError) => "ParseError",
        None => "OtherError",
    }
}

pub fn guard<T, F: FnOnce() -> T>(f: F) -> Result<T, ()> {
    catch_unwind(AssertUnwindSafe(f)).map_err(|_| ())
}

fn opt<T: std::fmt::Display>(o: Option<T>) -> String {
    match o {
        None => "-".into(),
        Some(x) => format!("{}", x),
    }
}

pub fn fmt_view(pp: &ParsedPacket) -> String {
    format!(
        "q={} an={} ns={} ar={} edns={} cnt={} rc={} ver={} fl={} mp={}",
        opt(pp.offset_question),
        opt(pp.offset_answers),
        opt(pp.offset_nameservers),
        opt(pp.offset_additional),
        opt(pp.offset_edns),
        pp.edns_count,
        opt(pp.ext_rcode),
        opt(pp.edns_version),
        opt(pp.ext_flags),
        pp.max_payload
    )
}

fn res_usize(r: Result<Result<usize, anyhow::Error>, ()>) -> String {
    match r {
        Ok(Ok(n)) => format!("ok {}", n),
        Ok(Err(e)) => format!("err {}", err_kind(&e)),
        Err(()) => "panic".into(),
    }
}

fn op_parse(h: &str) -> String {
    let p = match unhex(h) { Some(p) => p, None => return "bad-hex".into() };
    let orig = p.clone();
    match guard(|| DNSSector::new(p).and_then(|s| s.parse())) {
        Ok(Ok(pp)) => {
            if pp.packet.as_deref() != Some(&orig[..]) {
                return format!("ok-but-bytes-changed {}", hex(pp.packet()));
            }
            format!("ok {}", fmt_view(&pp))
        }
        Ok(Err(e)) => format!("err {}", err_kind(&e)),
        Err(()) => "panic".into(),
    }
}

fn op_cursor(h: &str, steps: &[&str]) -> String {
    let p = match unhex(h) { Some(p) => p, None => return "bad-hex".into() };
    let mut s = DNSSector::new(p).unwrap();
    let mut out: Vec<String> = vec![];
    let mut i = 0;
    while i < steps.len() {
        match steps[i] {
            "set" => {
                let n: usize = steps[i + 1].parse().unwrap();
                i += 2;
                out.push(match guard(|| s.set_offset(n)) { Ok(Ok(o)) => format!("ok:{}", o), Ok(Err(e)) => format!("err:{}", err_kind(&e)), Err(()) => "panic".into() });
            }
            "inc" => {
                let n: usize = steps[i + 1].parse().unwrap();
                i += 2;
                out.push(match guard(|| s.increment_offset(n)) { Ok(Ok(o)) => format!("ok:{}", o), Ok(Err(e)) => format!("err:{}", err_kind(&e)), Err(()) => "panic".into() });
            }
            "rdlen" => {
                i += 1;
                out.push(res_usize(guard(|| s.rr_rdlen())).replace(' ', ":"));
            }
            "ednsrdlen" => {
                i += 1;
                out.push(res_usize(guard(|| s.edns_rr_rdlen())).replace(' ', ":"));
            }
            "parse" if i + 1 == steps.len() => {
                // the sector the cursor calls were made on is parsed (and consumed)
                out.push(format!("off={}", s.offset));
                let orig = s.packet.clone();
                let r = match guard(move || s.parse()) {
                    Ok(Ok(pp)) => if pp.packet.as_deref() != Some(&orig[..]) { "ok-but-bytes-changed".to_string() } else { format!("ok {}", fmt_view(&pp)) },
                    Ok(Err(e)) => format!("err {}", err_kind(&e)),
                    Err(()) => "panic".into(),
                };
                out.push(format!("parse={}", r.replace(' ', ":")));
                return out.join(" ");
            }
            _ => return "bad-op".into(),
        }
    }
    out.push(format!("off={}", s.offset));
    out.join(" ")
}

fn fld<T, F: FnOnce() -> T, G: FnOnce(T) -> String>(f: F, g: G) -> String {
    match guard(f) {
        Ok(v) => g(v),
        Err(()) => "panic".into(),
    }
}

fn fld_res<T, F: FnOnce() -> Result<T, anyhow::Error>, G: FnOnce(T) -> String>(f: F, g: G) -> String {
    match guard(f) {
        Ok(Ok(v)) => g(v),
        Ok(Err(e)) => format!("err:{}", err_kind(&e)),
        Err(()) => "panic".into(),
    }
}

fn sec_tag(s: Section) -> &'static str {
    match s {
        Section::Question => "Q",
        Section::Answer => "A",
        Section::NameServers => "N",
        Section::Additional => "R",
        Section::Edns => "E",
    }
}

/// `copy_raw_name` appends to the caller's vector and returns the length of the name: called on a vector that already
/// holds bytes; what was there must stay and the returned length must be the number of bytes appended
fn raw_name_appended<F: FnOnce(&mut Vec<u8>) -> usize>(f: F) -> String {
    let prefix = [0xa5u8, 0x5a, 0xc0, 0x0c, 0x00];
    let mut v = prefix.to_vec();
    let ret = f(&mut v);
    if v.len() < prefix.len() || v[..prefix.len()] != prefix || ret != v.len() - prefix.len() {
        return format!("RAWNAME-CONTRACT-BROKEN(ret={}/appended={})", ret, v.len() as i64 - prefix.len() as i64);
    }
    hex(&v[prefix.len()..])
}

fn dump_q(i: &QuestionIterator) -> String {
    format!(
        "{},{},{},{},{},{}",
        opt(i.offset()),
        fld(|| i.name(), |v| hex(&v)),
        fld(|| raw_name_appended(|v| i.copy_raw_name(v)), |v| v),
        fld(|| i.rr_type(), |v| v.to_string()),
        fld(|| i.rr_class(), |v| v.to_string()),
        fld_res(|| i.current_section(), |v| sec_tag(v).to_string())
    )
}

fn ip_bytes(ip: std::net::IpAddr) -> Vec<u8> {
    match ip {
        std::net::IpAddr::V4(a) => a.octets().to_vec(),
        std::net::IpAddr::V6(a) => a.octets().to_vec(),
    }
}

pub fn dump_r(i: &ResponseIterator) -> String {
    format!(
        "{},{},{},{},{},{},{},{},{},{}",
        opt(i.offset()),
        fld(|| i.name(), |v| hex(&v)),
        fld(|| raw_name_appended(|v| i.copy_raw_name(v)), |v| v),
        fld(|| i.rr_type(), |v| v.to_string()),
        fld(|| i.rr_class(), |v| v.to_string()),
        fld(|| i.rr_ttl(), |v| v.to_string()),
        fld(|| i.rr_rdlen(), |v| v.to_string()),
        fld_res(|| i.rr_rd().map(|x| match x { RawRRData::IpAddr(ip) => format!("ip:{}", hex(&ip_bytes(ip))), RawRRData::Data(d) => format!("d:{}", hex(d)) }), |v| v),
        fld_res(|| i.rr_ip(), |v| hex(&ip_bytes(v))),
        fld_res(|| i.current_section(), |v| sec_tag(v).to_string())
    )
}

fn dump_e(i: &EdnsIterator) -> String {
    match i.offset() {
        None => "-".into(),
        Some(o) => {
            let p = i.packet();
            let code = fld(|| ((p[o] as u16) << 8) | p[o + 1] as u16, |v| v.to_string());
            let len = guard(|| (((p[o + 2] as usize) << 8) | p[o + 3] as usize));
            let data = match len { Ok(l) => fld(|| p[o + 4..o + 4 + l].to_vec(), |v| hex(&v)), Err(()) => "panic".into() };
            format!("{},{},{},{}", o, code, match len { Ok(l) => l.to_string(), Err(()) => "panic".into() }, data)
        }
    }
}

macro_rules! walk {
    ($tag:expr, $first:expr, $next:ident, $dump:ident) => {{
        let mut recs: Vec<String> = vec![];
        let r = guard(|| {
            let mut it = $first;
            let mut n = 0;
            while let Some(item) = it {
                recs.push($dump(&item));
                n += 1;
                if n >= 70000 { recs.push("!fuel".into()); break; }
                it = item.$next();
            }
        });
        if r.is_err() { recs.push("!panic".into()); }
        format!("{}[{}]", $tag, recs.join(";"))
    }};
}

pub fn iter_dump(pp: &mut ParsedPacket) -> String {
    let q = walk!("Q", pp.into_iter_question(), next, dump_q);
    let a = walk!("A", pp.into_iter_answer(), next, dump_r);
    let n = walk!("N", pp.into_iter_nameservers(), next, dump_r);
    let r = walk!("R", pp.into_iter_additional(), next, dump_r);
    let o = walk!("O", pp.into_iter_additional_including_opt(), next_including_opt, dump_r);
    let e = walk!("E", pp.into_iter_edns(), next, dump_e);
    [q, a, n, r, o, e].join(" ")
}

fn fmt_q(r: Option<(Vec<u8>, u16, u16)>) -> String {
    match r {
        None => "-".into(),
        Some((n, t, c)) => format!("{}/{}/{}", hex(&n), t, c),
    }
}

fn b01(b: bool) -> String {
    if b { "1".into() } else { "0".into() }
}

fn hdr_getters(pp: &ParsedPacket) -> String {
    format!(
        "tid={} op={} rc={} qr={} fl={} sec={}",
        fld(|| pp.tid(), |v| v.to_string()),
        fld(|| pp.opcode(), |v| v.to_string()),
        fld(|| pp.rcode(), |v| v.to_string()),
        fld(|| pp.is_response(), b01),
        fld(|| pp.flags(), |v| v.to_string()),
        fld(|| pp.dnssec(), b01)
    )
}

pub fn summary_dump(pp: &mut ParsedPacket) -> String {
    let hdr = hdr_getters(pp);
    let qtc = |pp: &ParsedPacket| fld(|| pp.qtype_qclass(), |o| match o { None => "-".into(), Some((t, c)) => format!("{}/{}", t, c) });
    let qt0 = fld(|| pp.question(), fmt_q);
    let qq0 = qtc(pp);
    let r0 = fld(|| pp.question_raw0().map(|(n, t, c)| (n.to_vec(), t, c)), fmt_q);
    let r1 = fld(|| pp.question_raw().map(|(n, t, c)| (n.to_vec(), t, c)), fmt_q);
    let qt1 = fld(|| pp.question(), fmt_q);
    let qq1 = qtc(pp);
    let r2 = fld(|| pp.question_raw0().map(|(n, t, c)| (n.to_vec(), t, c)), fmt_q);
    format!(
        "{} qtext={} qtc={} raw0={} raw={} qtext2={} qtc2={} raw0b={} ver={} xrc={} cnt={} mp={}",
        hdr, qt0, qq0, r0, r1, qt1, qq1, r2, opt(pp.edns_version), opt(pp.ext_rcode), pp.edns_count, pp.max_payload()
    )
}

pub fn bare_pp(p: Vec<u8>, ext: Option<u16>) -> ParsedPacket {
    ParsedPacket {
        packet: Some(p),
        offset_question: None,
        offset_answers: None,
        offset_nameservers: None,
        offset_additional: None,
        offset_edns: None,
        edns_count: 0,
        // with EDNS flags present the rest of the summary is what a parse of a packet with an OPT record leaves:
        // a non-zero extended rcode, version 0, a large payload size (no header getter may depend on them)
        ext_rcode: ext.map(|x| ((x >> 4) as u8) | 1),
        edns_version: ext.map(|_| 0),
        ext_flags: ext,
        maybe_compressed: false,
        max_payload: if ext.is_some() { 4096 } else { 512 },
        cached: None,
    }
}

fn op_hdr(h: &str, ext: &str, setter: &str, arg: &str) -> String {
    let p = match unhex(h) { Some(p) => p, None => return "bad-hex".into() };
    let ext: Option<u16> = ext.parse::<u64>().ok().map(|x| x as u16);
    let arg: u64 = arg.parse().unwrap();
    let mut pp = bare_pp(p, ext);
    let r = guard(|| match setter {
        "settid" => pp.set_tid(arg as u16),
        "setflags" => pp.set_flags(arg as u32),
        "setopcode" => pp.set_opcode(arg as u8),
        "setrcode" => pp.set_rcode(arg as u8),
        "setresponse" => pp.set_response(arg != 0),
        _ => {}
    });
    if r.is_err() {
        return "panic".into();
    }
    let q = pp.packet().to_vec();
    format!("ok {} {}", hex(&q[..q.len().min(12)]), hdr_getters(&pp))
}

fn with_parsed<F: FnOnce(&mut ParsedPacket) -> String>(h: &str, f: F) -> String {
    let p = match unhex(h) { Some(p) => p, None => return "bad-hex".into() };
    match guard(|| DNSSector::new(p).and_then(|s| s.parse())) {
        Ok(Ok(mut pp)) => f(&mut pp),
        Ok(Err(e)) => format!("noparse err {}", err_kind(&e)),
        Err(()) => "noparse panic".into(),
    }
}

fn res_bytes(r: Result<Result<Vec<u8>, anyhow::Error>, ()>) -> String {
    match r {
        Ok(Ok(v)) => format!("ok {}", hex(&v)),
        Ok(Err(e)) => format!("err {}", err_kind(&e)),
        Err(()) => "panic".into(),
    }
}

fn op_uncompress(h: &str, r: &str) -> String {
    let p = match unhex(h) { Some(p) => p, None => return "bad-hex".into() };
    if r == "-" {
        let first = guard(|| Compress::uncompress(&p));
        let idem = match &first {
            Ok(Ok(u)) => match guard(|| Compress::uncompress(u)) { Ok(Ok(u2)) => if &u2 == u { " idem=1" } else { " idem=0" }, _ => " idem=fail" },
            _ => "",
        };
        return format!("{}{}", res_bytes(first), idem);
    }
    let ro: usize = r.parse().unwrap();
    match guard(|| Compress::uncompress_with_previous_offset(&p, ro)) {
        Ok(Ok((v, o))) => format!("ok {} {}", hex(&v), o),
        Ok(Err(e)) => format!("err {}", err_kind(&e)),
        Err(()) => "panic".into(),
    }
}

fn op_rename(h: &str, t: &str, s: &str, sfx: &str) -> String {
    let p = match unhex(h) { Some(p) => p, None => return "bad-hex".into() };
    let (t, s) = (unhex(t).unwrap(), unhex(s).unwrap());
    let sfx = sfx == "1";
    match guard(|| DNSSector::new(p).and_then(|x| x.parse())) {
        Ok(Ok(mut pp)) => res_bytes(guard(|| Renamer::rename_with_raw_names(&mut pp, &t, &s, sfx))),
        Ok(Err(e)) => format!("noparse err {}", err_kind(&e)),
        Err(()) => "noparse panic".into(),
    }
}

pub fn run_line(line: &str) -> String {
    let w: Vec<&str> = line.split(' ').filter(|x| !x.is_empty() && !x.starts_with('#')).collect();
    if w.is_empty() {
        return "bad-op".into();
    }
    match (w[0], w.len()) {
        ("parse", 2) => op_parse(w[1]),
        ("checkc", 3) => {
            let p = match unhex(w[1]) { Some(p) => p, None => return "bad-hex".into() };
            let off: usize = w[2].parse().unwrap();
            res_usize(guard(|| Compress::check_compressed_name(&p, off)))
        }
        ("checku", 3) => {
            let p = match unhex(w[1]) { Some(p) => p, None => return "bad-hex".into() };
            let off: usize = w[2].parse().unwrap();
            res_usize(guard(|| DNSSector::check_uncompressed_name(&p, off)))
        }
        ("cursor", _) if w.len() >= 2 => op_cursor(w[1], &w[2..]),
        ("uncompress", 3) => op_uncompress(w[1], w[2]),
        ("compress", 2) => {
            let p = match unhex(w[1]) { Some(p) => p, None => return "bad-hex".into() };
            res_bytes(guard(|| Compress::compress(&p)))
        }
        ("rename", 5) => op_rename(w[1], w[2], w[3], w[4]),
        ("errslots", _) if w.len() >= 2 => crate::threads::run_errslots(&w[1..]),
        ("session", _) if w.len() >= 2 => crate::threads::run_session(&w[1..]),
        ("cabic", _) if w.len() >= 2 => format!("{} @@ {}", crate::cabi::run_cabi_c(w[1], &w[2..]), crate::cabi::run_cabi(w[1], &w[2..])),
        ("cabi", _) if w.len() >= 2 => crate::cabi::run_cabi(w[1], &w[2..]),
        ("script", _) if w.len() >= 2 => crate::script::run_script(w[1], &w[2..]),
        ("synth", 2) => {
            let t = match unhex(w[1]) { Some(p) => p, None => return "bad-hex".into() };
            match std::str::from_utf8(&t) {
                Ok(t) => match guard(|| gen::RR::from_string(t)) {
                    Ok(Ok(rr)) => format!("ok {}", hex(&rr.packet)),
                    Ok(Err(e)) => format!("err {}", err_kind(&e)),
                    Err(()) => "panic".into(),
                },
                Err(_) => "not-utf8".into(),
            }
        }
        ("name2raw", 3) => {
            let n = match unhex(w[1]) { Some(p) => p, None => return "bad-hex".into() };
            let z = if w[2] == "." { None } else { unhex(w[2]) };
            let first = guard(|| gen::raw_name_from_str(&n, z.as_deref()));
            let rt = match &first {
                Ok(Ok(raw)) => {
                    // give a record that name and read it back
                    let pk = unhex("12348180000100010000000001710000010001036f6c64076578616d706c650000010001000000050004c0000201").unwrap();
                    match guard(|| {
                        let mut pp = DNSSector::new(pk).unwrap().parse().unwrap();
                        let mut it = pp.into_iter_answer().unwrap();
                        match it.set_raw_name(raw) {
                            Ok(()) => format!("{}", hex(&it.name())),
                            Err(e) => format!("err:{}", err_kind(&e)),
                        }
                    }) { Ok(s) => format!(" rt={}", s), Err(()) => " rt=panic".to_string() }
                }
                _ => String::new(),
            };
            format!("{}{}", res_bytes(first), rt)
        }
        ("steps", 2) => {
            let p = match unhex(w[1]) { Some(p) => p, None => return "bad-hex".into() };
            dnssector::verif_hooks::reset();
            let r = guard(|| DNSSector::new(p).and_then(|s| s.parse()).map(|_| ()));
            let n = dnssector::verif_hooks::get();
            match r {
                Ok(Ok(())) => format!("ok steps={}", n),
                Ok(Err(e)) => format!("err {} steps={}", err_kind(&e), n),
                Err(()) => format!("panic steps={}", n),
            }
        }
        ("iter", 2) => with_parsed(w[1], |pp| iter_dump(pp)),
        ("summary", 2) => with_parsed(w[1], |pp| summary_dump(pp)),
        ("hdr", 5) => op_hdr(w[1], w[2], w[3], w[4]),
        _ => "bad-op".into(),
    }
}
