//! Abstract DNS messages, the harness's own encoders (five layouts) and single-point damage.
//! Nothing here calls dnssector.

use crate::rng::Rng;

pub type Name = Vec<Vec<u8>>;

#[derive(Clone, Debug, PartialEq)]
pub enum Rd {
    Raw(Vec<u8>),
    Name(Name),
    Mx(u16, Name),
    Soa(Name, Name, Vec<u8>),
    Dname(Name),
}

#[derive(Clone, Debug, PartialEq)]
pub struct Rec {
    pub name: Name,
    pub typ: u16,
    pub class: u16,
    pub ttl: u32,
    pub rd: Rd,
}

#[derive(Clone, Debug, PartialEq)]
pub struct Msg {
    pub tid: u16,
    pub flags: u16,
    pub q: (Name, u16, u16),
    pub secs: [Vec<Rec>; 3],
}

/// positions of interesting fields in an encoded packet
#[derive(Clone, Debug, Default)]
pub struct Marks {
    pub labels: Vec<usize>,  // offsets of label length bytes (non-zero)
    pub roots: Vec<usize>,   // offsets of root bytes
    pub ptrs: Vec<usize>,    // offsets of pointer first bytes
    pub rdlens: Vec<usize>,  // offsets of rdlen fields
    pub rec_starts: Vec<usize>,
    pub optlens: Vec<usize>, // offsets of option length fields
    pub name_starts: Vec<usize>,
}

#[derive(Clone, Copy, Debug, PartialEq)]
pub enum Layout {
    Plain,
    Greedy,
    Chained,
    Upper, // greedy, but pointers may go to differently-cased suffixes
}

struct Entry {
    labels: Name,
    off: usize,
    depth: usize,
}

pub struct Encoder {
    pub out: Vec<u8>,
    pub marks: Marks,
    dict: Vec<Entry>,
    layout: Layout,
    pub max_depth: usize,
    pub deepest: usize,
}

fn eq_ci(a: &Name, b: &[Vec<u8>]) -> bool {
    a.len() == b.len() && a.iter().zip(b.iter()).all(|(x, y)| x.eq_ignore_ascii_case(y))
}

impl Encoder {
    pub fn new(layout: Layout) -> Self {
        Encoder { out: vec![], marks: Marks::default(), dict: vec![], layout, max_depth: 16, deepest: 0 }
    }

    pub fn name(&mut self, n: &Name, compress: bool) {
        let start = self.out.len();
        self.marks.name_starts.push(start);
        let mut pending: Vec<(Name, usize)> = vec![];
        let mut i = 0;
        let mut depth_used = 0;
        loop {
            if i == n.len() {
                self.marks.roots.push(self.out.len());
                self.out.push(0);
                break;
            }
            let suffix = &n[i..];
            if compress && self.layout != Layout::Plain {
                // candidates: entries written before this name started
                let mut best: Option<usize> = None;
                for (k, e) in self.dict.iter().enumerate() {
                    if e.off >= start || e.off >= 0x4000 || e.depth + 1 > self.max_depth {
                        continue;
                    }
                    let m = if self.layout == Layout::Upper { eq_ci(&e.labels, suffix) } else { e.labels.as_slice() == suffix };
                    if !m {
                        continue;
                    }
                    best = match best {
                        None => Some(k),
                        Some(b) => {
                            if self.layout == Layout::Chained {
                                if e.depth > self.dict[b].depth { Some(k) } else { Some(b) }
                            } else {
                                Some(b)
                            }
                        }
                    };
                }
                if let Some(k) = best {
                    let (off, d) = (self.dict[k].off, self.dict[k].depth);
                    self.marks.ptrs.push(self.out.len());
                    self.out.push(0xc0 | (off >> 8) as u8);
                    self.out.push(off as u8);
                    depth_used = d + 1;
                    break;
                }
            }
            pending.push((suffix.to_vec(), self.out.len()));
            self.marks.labels.push(self.out.len());
            self.out.push(n[i].len() as u8);
            self.out.extend_from_slice(&n[i]);
            i += 1;
        }
        if depth_used > self.deepest {
            self.deepest = depth_used;
        }
        if compress {
            for (labels, off) in pending {
                self.dict.push(Entry { labels, off, depth: depth_used });
            }
        }
    }

    pub fn u16(&mut self, v: u16) {
        self.out.extend_from_slice(&v.to_be_bytes());
    }
    pub fn u32(&mut self, v: u32) {
        self.out.extend_from_slice(&v.to_be_bytes());
    }

    pub fn rec(&mut self, r: &Rec) {
        self.marks.rec_starts.push(self.out.len());
        self.name(&r.name, true);
        self.u16(r.typ);
        self.u16(r.class);
        self.u32(r.ttl);
        let rdlen_pos = self.out.len();
        self.marks.rdlens.push(rdlen_pos);
        self.u16(0);
        let rs = self.out.len();
        match &r.rd {
            Rd::Raw(x) => {
                if r.typ == 41 {
                    // record option length positions
                    let mut o = 0;
                    while o + 4 <= x.len() {
                        self.marks.optlens.push(rs + o + 2);
                        let l = ((x[o + 2] as usize) << 8) | x[o + 3] as usize;
                        o += 4 + l;
                    }
                }
                self.out.extend_from_slice(x)
            }
            Rd::Name(n) => self.name(n, true),
            Rd::Mx(p, n) => {
                self.u16(*p);
                self.name(n, true)
            }
            Rd::Soa(a, b, c) => {
                self.name(a, true);
                self.name(b, true);
                self.out.extend_from_slice(c)
            }
            Rd::Dname(n) => {
                let save = self.layout;
                self.layout = Layout::Plain;
                self.name(n, false);
                self.layout = save;
            }
        }
        let rdlen = (self.out.len() - rs) as u16;
        self.out[rdlen_pos] = (rdlen >> 8) as u8;
        self.out[rdlen_pos + 1] = rdlen as u8;
    }

    pub fn msg(&mut self, m: &Msg) {
        self.u16(m.tid);
        self.u16(m.flags);
        self.u16(1);
        for s in &m.secs {
            self.u16(s.len() as u16);
        }
        self.marks.rec_starts.push(self.out.len());
        self.name(&m.q.0, true);
        self.u16(m.q.1);
        self.u16(m.q.2);
        for s in &m.secs {
            for r in s {
                self.rec(r);
            }
        }
    }
}

pub fn encode(m: &Msg, layout: Layout) -> (Vec<u8>, Marks) {
    let mut e = Encoder::new(layout);
    e.msg(m);
    (e.out, e.marks)
}

pub fn encode_depth(m: &Msg, layout: Layout, max_depth: usize) -> (Vec<u8>, Marks, usize) {
    let mut e = Encoder::new(layout);
    e.max_depth = max_depth;
    e.msg(m);
    (e.out, e.marks, e.deepest)
}

pub fn enc_name(n: &Name) -> Vec<u8> {
    let mut v = vec![];
    for l in n {
        v.push(l.len() as u8);
        v.extend(l);
    }
    v.push(0);
    v
}

// ---------------------------------------------------------------------------------------------
// generation of abstract messages

pub const LABELS: [&[u8]; 10] = [b"a", b"B", b"example", b"COM", b"net", b"x1", b"Mail", b"ns", b"_tcp", b"w-w"];

pub fn gen_label(r: &mut Rng) -> Vec<u8> {
    match r.below(40) {
        0 => vec![b'x'; 63],
        1 => vec![b'Y'; 62],
        2 => (0..r.range(1, 20)).map(|_| [b'a', b'Z', b'0', b'-', b'_', 0x80, 0xff, b' ', b'~'][r.below(9)]).collect(),
        3 | 4 => [&b"a@b"[..], b"a`b", b"[x]", b"{x}", b"n^", b"n~", b"\xc3\x89", b"\xc3\xa9"][r.below(8)].to_vec(),
        _ => LABELS[r.below(LABELS.len())].to_vec(),
    }
}

pub fn wire_len(n: &Name) -> usize {
    n.iter().map(|l| l.len() + 1).sum::<usize>() + 1
}

pub fn gen_name(r: &mut Rng, pool: &mut Vec<Name>) -> Name {
    let n = if !pool.is_empty() && r.below(3) > 0 {
        let base = pool[r.below(pool.len())].clone();
        let k = r.below(base.len() + 1);
        let mut n: Name = vec![];
        for _ in 0..r.below(3) {
            n.push(gen_label(r));
        }
        n.extend(base[k..].iter().cloned());
        if r.below(5) == 0 {
            for l in n.iter_mut() {
                if r.below(2) == 0 {
                    *l = l.to_ascii_uppercase();
                } else if r.below(2) == 0 {
                    *l = l.to_ascii_lowercase();
                }
            }
        }
        n
    } else {
        let mut n = vec![];
        for _ in 0..r.below(5) {
            n.push(gen_label(r));
        }
        n
    };
    let mut n = n;
    while wire_len(&n) > 255 {
        n.remove(0);
    }
    pool.push(n.clone());
    n
}

pub fn gen_opt_rdata(r: &mut Rng) -> Vec<u8> {
    let mut o = vec![];
    for _ in 0..r.below(4) {
        let l = r.below(6);
        o.extend([0, [3u8, 8, 10, 12][r.below(4)], 0, l as u8]);
        o.extend((0..l).map(|_| r.next() as u8));
    }
    o
}

pub fn gen_rec(r: &mut Rng, pool: &mut Vec<Name>, allow_opt: bool) -> Rec {
    let name = gen_name(r, pool);
    let k = r.below(if allow_opt { 14 } else { 13 });
    let (typ, rd) = match k {
        0 => (1, Rd::Raw(if r.below(4) == 0 { [[0u8, 0, 0, 0], [255, 255, 255, 255], [127, 0, 0, 1], [192, 0, 2, 1]][r.below(4)].to_vec() } else { (0..4).map(|_| r.next() as u8).collect() })),
        // addresses with structure a library routine may treat specially (unspecified, loopback, IPv4-mapped,
        // IPv4-compatible, NAT64, 6to4, link-local, multicast, all ones) next to arbitrary ones
        1 => (28, Rd::Raw(if r.below(3) == 0 {
            let v4 = [192u8, 0, 2, 1];
            let mut a = [0u8; 16];
            match r.below(10) {
                0 => {}
                1 => a[15] = 1,
                2 => { a[10] = 0xff; a[11] = 0xff; a[12..].copy_from_slice(&v4); }
                3 => a[12..].copy_from_slice(&v4),
                4 => { a[1] = 0x64; a[2] = 0xff; a[3] = 0x9b; a[12..].copy_from_slice(&v4); }
                5 => { a[0] = 0x20; a[1] = 0x02; a[2..6].copy_from_slice(&v4); }
                6 => { a[0] = 0xfe; a[1] = 0x80; a[15] = 1; }
                7 => { a[0] = 0xff; a[1] = 0x02; a[15] = 1; }
                8 => { a[10] = 0xff; a[11] = 0xff; }
                _ => a = [0xff; 16],
            }
            a.to_vec()
        } else { (0..16).map(|_| r.next() as u8).collect() })),
        2 => (2, Rd::Name(gen_name(r, pool))),
        3 => (5, Rd::Name(gen_name(r, pool))),
        4 => (12, Rd::Name(gen_name(r, pool))),
        5 => (15, Rd::Mx(r.next() as u16, gen_name(r, pool))),
        6 => (6, Rd::Soa(gen_name(r, pool), gen_name(r, pool), (0..20).map(|_| r.next() as u8).collect())),
        7 => (16, Rd::Raw({
            let l = r.below(20);
            let mut v = vec![l as u8];
            v.extend((0..l).map(|_| r.next() as u8));
            v
        })),
        8 => (39, Rd::Dname({
            let mut n = gen_name(r, pool);
            pool.pop();
            if r.below(3) == 0 {
                n.push(vec![0x00, b'.', b'\\', 0xc0]);
            }
            while wire_len(&n) > 255 { n.remove(0); }
            n
        })),
        9 => (43, Rd::Raw((0..r.range(4, 40)).map(|_| r.next() as u8).collect())),
        // types the library treats as opaque, among them the ones whose RFC data holds names (MD MF MB MG MR MINFO RP
        // AFSDB RT SIG PX SRV NAPTR KX NSEC TKEY TSIG): arbitrary bytes, or bytes that look like a name / a pointer
        10 => ([99u16, 257, 65, 46, 0, 65535, 3, 4, 7, 8, 9, 14, 17, 18, 21, 24, 26, 33, 35, 36, 47, 249, 250, 13, 11, 10, 38, 40, 42, 27][r.below(30)],
               Rd::Raw(match r.below(8) {
                   0 => vec![3, b'a', b'b', b'c'],
                   1 => vec![0xc0, 0x0c],
                   2 => vec![0x3f],
                   3 => vec![3, b'a', b'b', b'c', 0],
                   4 => vec![1, b'x', 0xc0, 0x0c],
                   5 => vec![0, 10, 0, 5, 0x01, 0xbb, 2, b'n', b's', 0xc0, 0x0c],
                   _ => (0..r.below(12)).map(|_| r.next() as u8).collect(),
               })),
        11 => (99, Rd::Raw(vec![])),
        12 => (16, Rd::Raw(vec![0xc0, 0x0c, 0xc0, 0xff])),
        _ => (41, Rd::Raw(gen_opt_rdata(r))),
    };
    let mut rec = Rec { name, typ, class: if typ == 41 { [512u16, 1232, 4096, 65535][r.below(4)] } else { 1 }, ttl: r.next() as u32, rd };
    if r.below(12) == 0 && typ != 41 {
        rec.class = [3u16, 255, 254][r.below(3)];
    }
    if typ == 41 {
        rec.name = vec![];
        pool.pop();
        if r.below(2) == 0 {
            rec.ttl &= 0x00ff_8000; // version 0
        }
    }
    rec
}

#[derive(Clone, Copy)]
pub struct MsgOpts {
    pub max_per_sec: usize,
    pub opt: u8, // 0 = never, 1 = maybe, 2 = always
}

pub fn gen_msg(r: &mut Rng, o: MsgOpts) -> Msg {
    let mut pool = vec![];
    let resp = r.below(4) > 0;
    let flags = (r.next() as u16 & 0x7fff) | if resp { 0x8000 } else { 0 };
    let q = (gen_name(r, &mut pool), [1u16, 2, 15, 6, 28, 255, 41][r.below(7)], 1u16);
    let mut secs: [Vec<Rec>; 3] = [vec![], vec![], vec![]];
    for s in 0..3 {
        if !resp && s < 2 {
            continue;
        }
        let n = r.below(o.max_per_sec + 1);
        for _ in 0..n {
            secs[s].push(gen_rec(r, &mut pool, false));
        }
    }
    let want_opt = match o.opt { 0 => false, 2 => true, _ => r.below(2) == 0 };
    if want_opt {
        let mut rec = gen_rec(r, &mut pool, false);
        rec.typ = 41;
        rec.name = vec![];
        rec.class = [512u16, 1232, 4096, 65535][r.below(4)];
        rec.rd = Rd::Raw(gen_opt_rdata(r));
        if r.below(2) == 0 { rec.ttl &= 0x00ff_8000; }
        let pos = r.below(secs[2].len() + 1);
        secs[2].insert(pos, rec);
    }
    Msg { tid: r.next() as u16, flags, q, secs }
}

// ---------------------------------------------------------------------------------------------
// reference decoder (independent of dnssector): used to know what a packet means

pub fn dec_name(p: &[u8], mut off: usize) -> Option<(Name, usize)> {
    let mut labels = vec![];
    let mut end = None;
    let mut hops = 0;
    loop {
        let b = *p.get(off)? as usize;
        if b & 0xc0 == 0xc0 {
            let t = ((b & 0x3f) << 8) | *p.get(off + 1)? as usize;
            if end.is_none() {
                end = Some(off + 2);
            }
            hops += 1;
            if hops > 200 {
                return None;
            }
            off = t;
            continue;
        }
        if b == 0 {
            return Some((labels, end.unwrap_or(off + 1)));
        }
        labels.push(p.get(off + 1..off + 1 + b)?.to_vec());
        off += 1 + b;
    }
}

pub fn be16(p: &[u8], o: usize) -> Option<usize> {
    Some(((*p.get(o)? as usize) << 8) | *p.get(o + 1)? as usize)
}

/// decodes the framing of a packet: returns the message and the record boundaries
pub fn decode(p: &[u8]) -> Option<(Msg, Vec<usize>)> {
    if p.len() < 12 {
        return None;
    }
    let mut bounds = vec![];
    let mut off = 12;
    let qd = be16(p, 4)?;
    if qd != 1 {
        return None;
    }
    bounds.push(off);
    let (n, e) = dec_name(p, off)?;
    let q = (n, be16(p, e)? as u16, be16(p, e + 2)? as u16);
    off = e + 4;
    let mut secs: [Vec<Rec>; 3] = [vec![], vec![], vec![]];
    for s in 0..3 {
        for _ in 0..be16(p, 6 + 2 * s)? {
            bounds.push(off);
            let (n, e) = dec_name(p, off)?;
            let typ = be16(p, e)? as u16;
            let class = be16(p, e + 2)? as u16;
            let ttl = ((be16(p, e + 4)? as u32) << 16) | be16(p, e + 6)? as u32;
            let rdlen = be16(p, e + 8)?;
            let rs = e + 10;
            let re = rs + rdlen;
            if re > p.len() {
                return None;
            }
            let rd = match typ {
                2 | 5 | 12 => {
                    let (n, e2) = dec_name(p, rs)?;
                    if e2 != re {
                        return None;
                    }
                    Rd::Name(n)
                }
                15 => {
                    let (n, e2) = dec_name(p, rs + 2)?;
                    if e2 != re {
                        return None;
                    }
                    Rd::Mx(be16(p, rs)? as u16, n)
                }
                6 => {
                    let (a, e1) = dec_name(p, rs)?;
                    let (b, e2) = dec_name(p, e1)?;
                    if e2 + 20 != re {
                        return None;
                    }
                    Rd::Soa(a, b, p[e2..re].to_vec())
                }
                _ => Rd::Raw(p[rs..re].to_vec()),
            };
            secs[s].push(Rec { name: n, typ, class, ttl, rd });
            off = re;
        }
    }
    if off != p.len() {
        return None;
    }
    bounds.push(off);
    Some((Msg { tid: be16(p, 0)? as u16, flags: be16(p, 2)? as u16, q, secs }, bounds))
}

// ---------------------------------------------------------------------------------------------
// single-point damage

pub fn damage(r: &mut Rng, p: &[u8], m: &Marks) -> (Vec<u8>, &'static str) {
    let mut v = p.to_vec();
    let pick = |r: &mut Rng, xs: &Vec<usize>| -> Option<usize> { if xs.is_empty() { None } else { Some(xs[r.below(xs.len())]) } };
    for _ in 0..8 {
        match r.below(18) {
            0 => {
                let k = r.below(p.len() + 1);
                v.truncate(k);
                return (v, "truncate");
            }
            1 => {
                let i = 4 + 2 * r.below(4) + 1;
                v[i] = if r.below(2) == 0 { v[i].wrapping_add(1) } else { v[i].wrapping_sub(1) };
                return (v, "count");
            }
            2 => {
                if let Some(i) = pick(r, &m.rdlens) {
                    if r.below(2) == 0 { v[i + 1] = v[i + 1].wrapping_add(1) } else { v[i + 1] = v[i + 1].wrapping_sub(1) };
                    return (v, "rdlen");
                }
            }
            3 => {
                if let Some(i) = pick(r, &m.labels) {
                    v[i] = if r.below(2) == 0 { v[i].wrapping_add(1) } else { v[i].wrapping_sub(1) };
                    return (v, "labellen");
                }
            }
            4 => {
                if let Some(i) = pick(r, &m.ptrs) {
                    match r.below(5) {
                        0 => { v[i] = 0xc0 | (i >> 8) as u8; v[i + 1] = i as u8; }
                        1 => { let t = (i + 2 + r.below(8)).min(0x3fff); v[i] = 0xc0 | (t >> 8) as u8; v[i + 1] = t as u8; }
                        2 => { if let Some(t) = pick(r, &m.roots) { if t < 0x4000 { v[i] = 0xc0 | (t >> 8) as u8; v[i + 1] = t as u8; } } }
                        3 => { let t = r.below(i.max(1)).min(0x3fff); v[i] = 0xc0 | (t >> 8) as u8; v[i + 1] = t as u8; }
                        _ => { v[i + 1] = v[i + 1].wrapping_add(1); }
                    }
                    return (v, "ptr");
                }
            }
            5 => {
                if let Some(i) = pick(r, &m.labels) {
                    let l = v[i] as usize;
                    if l > 0 && i + l < v.len() {
                        let c = [0u8, 0x1f, 0x20, b'.', b'\\', b'-', b'/', b'[', b']', 0x7e, 0x7f, 0x80, 0xff, 0x09][r.below(14)];
                        v[i + 1 + r.below(l)] = c;
                        return (v, "char");
                    }
                }
            }
            6 => {
                v[2] &= 0x7f;
                return (v, "qr-clear");
            }
            7 => {
                v.push(r.next() as u8);
                return (v, "trailing");
            }
            8 => {
                // append a second OPT
                v.extend_from_slice(&[0, 0, 41, 4, 0xd0, 0, 0, 0, 0, 0, 0]);
                let c = (((v[10] as u16) << 8) | v[11] as u16).wrapping_add(1);
                v[10] = (c >> 8) as u8;
                v[11] = c as u8;
                return (v, "append-opt");
            }
            9 => {
                if let Some(i) = pick(r, &m.optlens) {
                    v[i + 1] = v[i + 1].wrapping_add(1 + r.below(3) as u8);
                    return (v, "optlen");
                }
            }
            10 => {
                // change the type of a record (keeps framing): find type position after a record's name
                if m.rec_starts.len() > 1 {
                    let i = m.rdlens[r.below(m.rdlens.len())];
                    let t = [1u16, 2, 5, 6, 12, 15, 28, 39, 41, 16][r.below(10)];
                    v[i - 8] = (t >> 8) as u8;
                    v[i - 7] = t as u8;
                    return (v, "type");
                }
            }
            11 => {
                if let Some(i) = pick(r, &m.roots) {
                    v[i] = [1u8, 0xc0, 0x40, 0x80, 63][r.below(5)];
                    return (v, "root");
                }
            }
            12 => {
                // question class
                if let Some(&i) = m.rdlens.first() {
                    let _ = i;
                }
                let (_, e) = match dec_name(p, 12) { Some(x) => x, None => continue };
                if e + 4 <= v.len() {
                    v[e + 3] = v[e + 3].wrapping_add(1 + r.below(3) as u8);
                    return (v, "qclass");
                }
            }
            13 => {
                let i = r.below(v.len());
                v[i] ^= 1 << r.below(8);
                return (v, "bitflip");
            }
            14 => {
                let i = r.below(v.len());
                v[i] = r.next() as u8;
                return (v, "byte");
            }
            15 => {
                if let Some(i) = pick(r, &m.labels) {
                    v[i] = 0xc0 | (r.below(0x40)) as u8;
                    return (v, "label-to-ptr");
                }
            }
            16 => {
                let i = r.below(v.len() + 1);
                v.insert(i, r.next() as u8);
                return (v, "insert");
            }
            _ => {
                if v.len() > 12 {
                    let i = 12 + r.below(v.len() - 12);
                    v.remove(i);
                    return (v, "remove");
                }
            }
        }
    }
    v.push(0);
    (v, "trailing")
}

pub fn hex(b: &[u8]) -> String {
    if b.is_empty() {
        return "-".into();
    }
    let mut s = String::with_capacity(b.len() * 2);
    for x in b {
        s.push_str(&format!("{:02x}", x));
    }
    s
}

pub fn unhex(s: &str) -> Option<Vec<u8>> {
    if s == "-" {
        return Some(vec![]);
    }
    if s.len() % 2 != 0 {
        return None;
    }
    (0..s.len() / 2).map(|i| u8::from_str_radix(&s[2 * i..2 * i + 2], 16).ok()).collect()
}
