//! C16 (per-thread error slot) and C17 (independence of calls) executors: real threads, scripted order.
use crate::ops::run_line;
use dnssector::c_abi::*;
use libc::c_char;
use std::ffi::CStr;
use std::sync::atomic::{AtomicUsize, Ordering};
use std::sync::mpsc::{channel, Receiver, Sender};

static LAST_HANDED: AtomicUsize = AtomicUsize::new(0);

enum Cmd {
    /// message id; whether the caller's error variable holds a stale pointer (the one most recently handed to
    /// any thread) when the call is made: the argument is output-only, so what it held before must not matter
    Fail(usize, bool),
    Read,
    /// a table call that succeeds, made with the same error variable (kind: which entry point)
    Succeed(usize),
    Quit,
}

fn failing_input(id: usize) -> Vec<u8> {
    match id {
        0 => b"a..b".to_vec(),
        1 => vec![b'l'; 70],
        2 => vec![b'n'; 300],
        _ => vec![b'a', 200, b'b'],
    }
}

/// the description each failure kind produces, learnt on a fresh thread (kind k fails, its description is read at once):
/// the schedules identify descriptions by kind, so rewording a message changes nothing
fn calibrate() -> Vec<Vec<u8>> {
    std::thread::spawn(|| {
        let t = fn_table();
        let mut table = vec![];
        for id in 0..9usize {
            let mut err: *const CErr = std::ptr::null();
            if id >= 4 {
                fail_other(&t, id, &mut err);
            } else {
                let n = failing_input(id);
                let mut raw = [0u8; 256];
                let mut len: libc::size_t = 0;
                unsafe { (t.raw_name_from_str)(&mut raw, &mut len, &mut err, n.as_ptr() as *const c_char, n.len()) };
            }
            table.push(if err.is_null() { vec![] } else { unsafe { CStr::from_ptr((t.error_description)(err)) }.to_bytes().to_vec() });
        }
        table
    }).join().unwrap_or_default()
}

fn msg_id(table: &[Vec<u8>], d: &[u8]) -> String {
    match table.iter().position(|x| !x.is_empty() && x.as_slice() == d) {
        Some(k) => format!("{}", k),
        None => format!("?{}", crate::msg::hex(d)),
    }
}

/// failure kinds 4.. : failures other table entries report (record text, size limit, rename arguments, second question)
fn fail_other(t: &FnTable, id: usize, err: &mut *const CErr) -> i32 {
    let small = crate::msg::unhex("12348180000100010000000003777777076578616d706c6503636f6d0000010001c00c000100010000003c00040a000001").unwrap();
    let mut pp = dnssector::DNSSector::new(small).unwrap().parse().unwrap();
    unsafe {
        match id {
            4 => { let txt = std::ffi::CString::new("this is not a record").unwrap(); (t.add_to_answer)(&mut pp, err, txt.as_ptr()) }
            5 => {
                // fill the packet up to the 8192-byte limit with TXT records, then one more
                let txt = std::ffi::CString::new(format!("t.example. 60 IN TXT \"{}\"", "x".repeat(1000))).unwrap();
                let mut r = 0;
                for _ in 0..12 { r = (t.add_to_answer)(&mut pp, err, txt.as_ptr()); if r != 0 { break; } }
                r
            }
            6 => { let (tg, src) = ([0u8], b"\x07example\x03com\x00"); (t.rename_with_raw_names)(&mut pp, err, tg.as_ptr(), tg.len(), src.as_ptr(), src.len(), true) }
            7 => { let (tg, src) = ([0u8; 0], b"\x03www\x07example\x03com\x00"); (t.rename_with_raw_names)(&mut pp, err, tg.as_ptr(), 0, src.as_ptr(), src.len(), false) }
            _ => { let txt = std::ffi::CString::new("second.example. 60 IN A 192.0.2.1").unwrap(); (t.add_to_question)(&mut pp, err, txt.as_ptr()) }
        }
    }
}

fn worker(rx: Receiver<Cmd>, tx: Sender<String>, table: std::sync::Arc<Vec<Vec<u8>>>) {
    let t = fn_table();
    let mut err: *const CErr = std::ptr::null();
    loop {
        match rx.recv() {
            Ok(Cmd::Fail(id, stale)) if id >= 4 => {
                let last = LAST_HANDED.load(Ordering::SeqCst);
                if stale && last != 0 { err = last as *const CErr; }
                let r = fail_other(&t, id, &mut err);
                LAST_HANDED.store(err as usize, Ordering::SeqCst);
                tx.send(format!("{}", r)).unwrap();
            }
            Ok(Cmd::Fail(id, stale)) => {
                let n = failing_input(id);
                let last = LAST_HANDED.load(Ordering::SeqCst);
                if stale && last != 0 { err = last as *const CErr; }
                let mut raw = [0u8; 256];
                let mut len: libc::size_t = 0;
                let r = unsafe { (t.raw_name_from_str)(&mut raw, &mut len, &mut err, n.as_ptr() as *const c_char, n.len()) };
                LAST_HANDED.store(err as usize, Ordering::SeqCst);
                tx.send(format!("{}", r)).unwrap();
            }
            Ok(Cmd::Succeed(kind)) => {
                let r = match kind % 4 {
                    0 => {
                        let n = b"ok.example".to_vec();
                        let mut raw = [0u8; 256];
                        let mut len: libc::size_t = 0;
                        unsafe { (t.raw_name_from_str)(&mut raw, &mut len, &mut err, n.as_ptr() as *const c_char, n.len()) }
                    }
                    k => {
                        // an insertion into a small packet owned by this call
                        let p = crate::msg::unhex("123481800001000000000000017100000100 01".replace(' ', "").as_str()).unwrap();
                        let mut pp = dnssector::DNSSector::new(p).unwrap().parse().unwrap();
                        let txt = std::ffi::CString::new("a.example. 60 IN A 192.0.2.1").unwrap();
                        unsafe {
                            match k {
                                1 => (t.add_to_answer)(&mut pp, &mut err, txt.as_ptr()),
                                2 => (t.add_to_nameservers)(&mut pp, &mut err, txt.as_ptr()),
                                _ => (t.add_to_additional)(&mut pp, &mut err, txt.as_ptr()),
                            }
                        }
                    }
                };
                tx.send(format!("{}", r)).unwrap();
            }
            Ok(Cmd::Read) => {
                if err.is_null() {
                    tx.send("none".into()).unwrap();
                } else {
                    let d = unsafe { CStr::from_ptr((t.error_description)(err)) }.to_bytes().to_vec();
                    tx.send(msg_id(&table, &d)).unwrap();
                }
            }
            Ok(Cmd::Quit) | Err(_) => break,
        }
    }
}

/// `errslots <nthreads> <step>…` with steps `<tid>f<msgid>` and `<tid>r`
pub fn run_errslots(words: &[&str]) -> String {
    let n: usize = words[0].parse().unwrap();
    let table = std::sync::Arc::new(calibrate());
    let mut txs = vec![];
    let mut rxs = vec![];
    let mut handles = vec![];
    for _ in 0..n {
        let (ctx, crx) = channel::<Cmd>();
        let (rtx, rrx) = channel::<String>();
        // small stacks: schedules with a few hundred threads must fit the address-space cap the checks run under
        handles.push(std::thread::Builder::new().stack_size(256 * 1024).spawn({ let tb = table.clone(); move || worker(crx, rtx, tb) }).expect("spawn"));
        txs.push(ctx);
        rxs.push(rrx);
    }
    let mut out = vec![];
    LAST_HANDED.store(0, Ordering::SeqCst);
    for (k, st) in words[1..].iter().enumerate() {
        let (tid, rest) = st.split_at(st.find(|c: char| !c.is_ascii_digit()).unwrap());
        let tid: usize = tid.parse().unwrap();
        if let Some(id) = rest.strip_prefix('f') {
            txs[tid].send(Cmd::Fail(id.parse().unwrap(), k % 2 == 1)).unwrap();
            let r = rxs[tid].recv().unwrap_or("dead".into());
            out.push(format!("t{}f={}", tid, r));
        } else if let Some(k) = rest.strip_prefix('s') {
            txs[tid].send(Cmd::Succeed(k.parse().unwrap())).unwrap();
            let r = rxs[tid].recv().unwrap_or("dead".into());
            out.push(format!("t{}s={}", tid, r));
        } else {
            txs[tid].send(Cmd::Read).unwrap();
            let r = rxs[tid].recv().unwrap_or("dead".into());
            out.push(format!("t{}={}", tid, r));
        }
    }
    for tx in &txs {
        let _ = tx.send(Cmd::Quit);
    }
    for h in handles {
        let _ = h.join();
    }
    out.join(" ")
}

/// `session <case> | <case> | …`: each case alone on a fresh thread, all of them back to back on one
/// thread, and all of them concurrently on four threads (rotated orders); outputs must not differ.
pub fn run_session(words: &[&str]) -> String {
    let cases: Vec<String> = words.split(|w| *w == "|").filter(|c| !c.is_empty()).map(|c| c.join(" ")).collect();
    let alone: Vec<String> = cases.iter().map(|c| { let c = c.clone(); std::thread::spawn(move || run_line(&c)).join().unwrap_or("thread-died".into()) }).collect();
    let seq: Vec<String> = { let cs = cases.clone(); std::thread::spawn(move || { let mut v = vec![]; for _ in 0..2 { v = cs.iter().map(|c| run_line(c)).collect::<Vec<_>>(); } v }).join().unwrap_or_default() };
    let seq_res = match alone.iter().zip(seq.iter()).position(|(a, b)| a != b) { None if seq.len() == alone.len() => "ok".to_string(), Some(i) => format!("DIFF:{}", i), None => "DIFF:len".to_string() };
    let mut handles = vec![];
    for k in 0..4usize {
        let cs = cases.clone();
        handles.push(std::thread::spawn(move || {
            let n = cs.len();
            let mut res = vec![String::new(); n];
            for round in 0..3 {
                for j in 0..n {
                    let i = (j + k + round) % n;
                    res[i] = run_line(&cs[i]);
                }
            }
            res
        }));
    }
    let mut conc_res = "ok".to_string();
    for h in handles {
        match h.join() {
            Ok(res) => { if let Some(i) = alone.iter().zip(res.iter()).position(|(a, b)| a != b) { conc_res = format!("DIFF:{}", i); } }
            Err(_) => conc_res = "thread-died".into(),
        }
    }
    format!("seq={} conc={} || {}", seq_res, conc_res, alone.join(" || "))
}
