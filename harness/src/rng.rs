//! SplitMix64; every case is derived from (seed, stream, index) so it can be regenerated alone.
#[derive(Clone)]
pub struct Rng(pub u64);
impl Rng {
    pub fn new(seed: u64, stream: u64, index: u64) -> Self {
        let mut r = Rng(seed ^ stream.wrapping_mul(0x9E3779B97F4A7C15) ^ index.wrapping_mul(0xBF58476D1CE4E5B9));
        r.next();
        r.next();
        r
    }
    pub fn next(&mut self) -> u64 {
        self.0 = self.0.wrapping_add(0x9E3779B97F4A7C15);
        let mut z = self.0;
        z = (z ^ (z >> 30)).wrapping_mul(0xBF58476D1CE4E5B9);
        z = (z ^ (z >> 27)).wrapping_mul(0x94D049BB133111EB);
        z ^ (z >> 31)
    }
    pub fn below(&mut self, n: usize) -> usize {
        if n == 0 { 0 } else { (self.next() % n as u64) as usize }
    }
    pub fn range(&mut self, lo: usize, hi: usize) -> usize {
        lo + self.below(hi - lo + 1)
    }
    pub fn chance(&mut self, num: usize, den: usize) -> bool {
        self.below(den) < num
    }
}
