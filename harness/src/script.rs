//! Script executor: a `ParsedPacket` and at most one live cursor, driven op by op.
use crate::msg::{hex, unhex};
use crate::ops::{err_kind, fmt_view, guard};
use dnssector::*;
use std::net::{IpAddr, Ipv4Addr, Ipv6Addr};

enum Cur<'a> {
    None,
    Q(QuestionIterator<'a>),
    R(ResponseIterator<'a>),
    E(EdnsIterator<'a>),
}

fn opt<T: std::fmt::Display>(o: Option<T>) -> String {
    match o {
        None => "-".into(),
        Some(x) => format!("{}", x),
    }
}

fn fmt_cursor(c: &Cur) -> String {
    fn f<T: DNSIterable>(i: &T) -> String {
        let ne = if i.offset().is_some() { i.raw().name_end.to_string() } else { "-".to_string() };
        format!("{}/{}/{}", opt(i.offset()), i.offset_next(), ne)
    }
    match c {
        Cur::None => "-".into(),
        Cur::Q(i) => f(i),
        Cur::R(i) => f(i),
        Cur::E(i) => f(i),
    }
}

fn fmt_state(pp: &ParsedPacket, c: &Cur) -> String {
    let cache = match &pp.cached {
        None => "-".to_string(),
        Some((n, t, cl)) => format!("{}/{}/{}", hex(n), t, cl),
    };
    format!(
        "b={} v={} mc={} c={} k={}",
        hex(pp.packet()),
        fmt_view(pp).replace(' ', ","),
        if pp.maybe_compressed { 1 } else { 0 },
        cache,
        fmt_cursor(c)
    )
}

fn ok_or_err(r: Result<(), anyhow::Error>) -> String {
    match r {
        Ok(()) => "ok".into(),
        Err(e) => format!("err:{}", err_kind(&e)),
    }
}

fn type_of(n: u16) -> Option<Type> {
    Some(match n {
        1 => Type::A,
        2 => Type::NS,
        5 => Type::CNAME,
        6 => Type::SOA,
        12 => Type::PTR,
        15 => Type::MX,
        16 => Type::TXT,
        28 => Type::AAAA,
        255 => Type::ANY,
        39 => Type::DNAME,
        41 => Type::OPT,
        43 => Type::DS,
        99 => Type::SPF,
        _ => return None,
    })
}

pub fn run_script(init: &str, words: &[&str]) -> String {
    let mut pp: ParsedPacket = if let Some(t) = init.strip_prefix("empty:") {
        let tid: u64 = t.parse().unwrap();
        let mut pp = ParsedPacket::empty();
        pp.set_tid(tid as u16);
        pp
    } else {
        let p = match unhex(init) { Some(p) => p, None => return "bad-init".into() };
        match guard(|| DNSSector::new(p).and_then(|x| x.parse())) {
            Ok(Ok(pp)) => pp,
            Ok(Err(e)) => return format!("noparse err {}", err_kind(&e)),
            Err(()) => return "noparse panic".into(),
        }
    };
    // The cursor borrows the packet object mutably; while it is alive the object is reached through
    // the cursor (`parsed_packet_mut()`), exactly as safe client code has to do it.
    let ppp: *mut ParsedPacket = &mut pp;
    let mut cur: Cur = Cur::None;
    let mut out: Vec<String> = vec![];
    let ops: Vec<&[&str]> = words.split(|w| *w == ";").filter(|o| !o.is_empty()).collect();
    for op in ops {
        let r: Result<String, ()> = guard(|| {
            let pp: &mut ParsedPacket = unsafe { &mut *ppp };
            match (op[0], op.len()) {
                ("settid", 2) => { pp.set_tid(op[1].parse::<u64>().unwrap() as u16); "ok".into() }
                ("setflags", 2) => { pp.set_flags(op[1].parse::<u64>().unwrap() as u32); "ok".into() }
                ("setopcode", 2) => { pp.set_opcode(op[1].parse::<u64>().unwrap() as u8); "ok".into() }
                ("setrcode", 2) => { pp.set_rcode(op[1].parse::<u64>().unwrap() as u8); "ok".into() }
                ("setresponse", 2) => { pp.set_response(op[1] != "0"); "ok".into() }
                ("open", 2) => {
                    cur = Cur::None;
                    let pp2: &mut ParsedPacket = unsafe { &mut *ppp };
                    cur = match op[1] {
                        "Q" => pp2.into_iter_question().map(Cur::Q).unwrap_or(Cur::None),
                        "A" => pp2.into_iter_answer().map(Cur::R).unwrap_or(Cur::None),
                        "N" => pp2.into_iter_nameservers().map(Cur::R).unwrap_or(Cur::None),
                        "R" => pp2.into_iter_additional().map(Cur::R).unwrap_or(Cur::None),
                        "O" => pp2.into_iter_additional_including_opt().map(Cur::R).unwrap_or(Cur::None),
                        "E" => pp2.into_iter_edns().map(Cur::E).unwrap_or(Cur::None),
                        _ => panic!("bad section"),
                    };
                    if matches!(cur, Cur::None) { "none".into() } else { "some".into() }
                }
                ("next", 1) | ("nextopt", 1) => {
                    let c = std::mem::replace(&mut cur, Cur::None);
                    let (nc, r) = match c {
                        Cur::None => (Cur::None, "nocursor"),
                        Cur::Q(i) => match i.next() { Some(i) => (Cur::Q(i), "some"), None => (Cur::None, "none") },
                        Cur::E(i) => match i.next() { Some(i) => (Cur::E(i), "some"), None => (Cur::None, "none") },
                        Cur::R(i) => {
                            let n = if op[0] == "next" { i.next() } else { i.next_including_opt() };
                            match n { Some(i) => (Cur::R(i), "some"), None => (Cur::None, "none") }
                        }
                    };
                    cur = nc;
                    r.into()
                }
                ("close", 1) => { cur = Cur::None; "ok".into() }
                ("setname", 2) => {
                    let n = unhex(op[1]).unwrap();
                    match &mut cur {
                        Cur::None | Cur::E(_) => "nocursor".into(),
                        Cur::Q(i) => ok_or_err(i.set_raw_name(&n)),
                        Cur::R(i) => ok_or_err(i.set_raw_name(&n)),
                    }
                }
                ("delete", 1) => match &mut cur {
                    Cur::None | Cur::E(_) => "nocursor".into(),
                    Cur::Q(i) => ok_or_err(i.delete()),
                    Cur::R(i) => ok_or_err(i.delete()),
                },
                ("ituncompress", 1) => match &mut cur {
                    Cur::None | Cur::E(_) => "nocursor".into(),
                    Cur::Q(i) => ok_or_err(i.uncompress()),
                    Cur::R(i) => ok_or_err(i.uncompress()),
                },
                ("ttl", 2) => match &mut cur {
                    Cur::R(i) => { i.set_rr_ttl(op[1].parse::<u64>().unwrap() as u32); "ok".into() }
                    _ => "nocursor".into(),
                },
                ("ip", 2) => {
                    let b = unhex(op[1]).unwrap();
                    let ip = if b.len() == 4 { IpAddr::V4(Ipv4Addr::new(b[0], b[1], b[2], b[3])) } else { let mut a = [0u8; 16]; a.copy_from_slice(&b); IpAddr::V6(Ipv6Addr::from(a)) };
                    match &mut cur {
                        Cur::R(i) => ok_or_err(i.set_rr_ip(&ip)),
                        _ => "nocursor".into(),
                    }
                }
                ("name", 1) => match &cur {
                    Cur::None | Cur::E(_) => "nocursor".into(),
                    Cur::Q(i) => format!("name:{}", hex(&i.name())),
                    Cur::R(i) => format!("name:{}", hex(&i.name())),
                },
                ("insert", 3) => {
                    cur = Cur::None;
                    let sec = match op[1] { "Q" => Section::Question, "A" => Section::Answer, "N" => Section::NameServers, _ => Section::Additional };
                    let txt = unhex(op[2]).unwrap();
                    match std::str::from_utf8(&txt) {
                        Ok(t) => ok_or_err(pp.insert_rr_from_string(sec, t)),
                        Err(_) => "err:ParseError".into(),
                    }
                }
                ("insertq", 4) => {
                    cur = Cur::None;
                    let n = unhex(op[1]).unwrap();
                    let t = type_of(op[2].parse().unwrap()).unwrap();
                    match gen::RR::new_question(&n, t, Class::IN) {
                        Ok(rr) => ok_or_err(pp.insert_rr(Section::Question, rr)),
                        Err(e) => format!("err:{}", err_kind(&e)),
                    }
                }
                ("insertrr", 7) => {
                    // a record built with the public constructor RR::new (any type, class, data) and handed to insert_rr
                    cur = Cur::None;
                    let sec = match op[1] { "Q" => Section::Question, "A" => Section::Answer, "N" => Section::NameServers, _ => Section::Additional };
                    let n = unhex(op[2]).unwrap();
                    let t = type_of(op[3].parse().unwrap()).unwrap();
                    let c = match op[4] { "1" => Class::IN, "3" => Class::CH, "4" => Class::HS, "254" => Class::NONE, _ => Class::ANY };
                    let ttl: u32 = op[5].parse().unwrap();
                    let rd = if op[6] == "-" { vec![] } else { unhex(op[6]).unwrap() };
                    match gen::RR::new(gen::RRHeader { name: n, ttl, class: c, rr_type: t }, &rd) {
                        Ok(rr) => ok_or_err(pp.insert_rr(sec, rr)),
                        Err(e) => format!("err:{}", err_kind(&e)),
                    }
                }
                ("rename", 4) => {
                    cur = Cur::None;
                    let (t, s) = (unhex(op[1]).unwrap(), unhex(op[2]).unwrap());
                    ok_or_err(pp.rename_with_raw_names(&t, &s, op[3] == "1"))
                }
                ("recompute", 1) => { cur = Cur::None; ok_or_err(pp.recompute()) }
                ("qcache", 1) => {
                    let r = pp.question_raw0().map(|(n, t, c)| (n.to_vec(), t, c));
                    match r { None => "raw0:-".into(), Some((n, t, c)) => format!("raw0:{}/{}/{}", hex(&n), t, c) }
                }
                _ => panic!("bad op"),
            }
        });
        match r {
            Ok(s) => {
                let st = guard(|| fmt_state(unsafe { &*ppp }, &cur));
                match st {
                    Ok(st) => out.push(format!("{} {}", s, st)),
                    Err(()) => { out.push("panic".into()); break; }
                }
            }
            Err(()) => { out.push("panic".into()); break; }
        }
    }
    drop(cur);
    out.join(" ; ")
}
