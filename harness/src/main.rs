mod cabi;
mod gen;
mod msg;
mod ops;
mod rng;
mod script;
mod threads;

use std::io::{BufRead, Write};

fn main() {
    let args: Vec<String> = std::env::args().collect();
    if args.len() < 2 {
        eprintln!("usage: harness dump-constants | gen <family> <seed> <n> | run");
        std::process::exit(2);
    }
    match args[1].as_str() {
        "dump-constants" => print!("{}", gen::dump_constants()),
        "gen" => {
            let family = &args[2];
            let seed: u64 = args[3].parse().unwrap();
            let n: usize = args[4].parse().unwrap();
            let out = std::io::stdout();
            let mut out = std::io::BufWriter::new(out.lock());
            for line in gen::generate(family, seed, n) {
                writeln!(out, "{}", line).unwrap();
            }
        }
        "run" => {
            std::panic::set_hook(Box::new(|_| {}));
            let stdin = std::io::stdin();
            let out = std::io::stdout();
            let mut out = out.lock();
            for line in stdin.lock().lines() {
                let line = line.unwrap();
                let res = ops::run_line(&line);
                writeln!(out, "{}", res).unwrap();
                out.flush().unwrap();
            }
        }
        _ => {
            eprintln!("unknown command");
            std::process::exit(2);
        }
    }
}
