//! Drives the exported C function table (`fn_table()`) the way a C hook does: section callbacks,
//! accessors, setters, add, delete, rename, copy-out — with canaries around every caller buffer.
use crate::msg::{hex, unhex};
use crate::ops::{err_kind, fmt_view, guard};
use dnssector::c_abi::*;
use dnssector::*;
use libc::{c_char, c_void};
use std::ffi::CStr;

const CANARY: u8 = 0xAA;
const PAD: usize = 32;

struct Guarded {
    buf: Vec<u8>,
    cap: usize,
}
impl Guarded {
    fn new(cap: usize) -> Self {
        Guarded { buf: vec![CANARY; cap + 2 * PAD], cap }
    }
    fn ptr(&mut self) -> *mut u8 {
        unsafe { self.buf.as_mut_ptr().add(PAD) }
    }
    fn data(&self) -> &[u8] {
        &self.buf[PAD..PAD + self.cap]
    }
    fn intact(&self) -> bool {
        self.buf[..PAD].iter().all(|&b| b == CANARY) && self.buf[PAD + self.cap..].iter().all(|&b| b == CANARY)
    }
}

fn err_of(t: &FnTable, err: *const CErr) -> String {
    if err.is_null() {
        return "err=null".into();
    }
    let d = unsafe { CStr::from_ptr((t.error_description)(err)) }.to_bytes().to_vec();
    let s = String::from_utf8_lossy(&d).to_string();
    let kind = if s.starts_with("Packet too small") { "PacketTooSmall" }
        else if s.starts_with("Packet too large") { "PacketTooLarge" }
        else if s.starts_with("Unsupported class:") { "UnsupportedClass" }
        else if s.starts_with("Internal error:") { "InternalError" }
        else if s.starts_with("Invalid name in a DNS record:") { "InvalidName" }
        else if s.starts_with("Invalid DNS packet:") { "InvalidPacket" }
        else if s.starts_with("Unsupported RR type:") { "UnsupportedRRType" }
        else if s.starts_with("Void record") { "VoidRecord" }
        else if s.starts_with("Property not found") { "PropertyNotFound" }
        else if s.starts_with("Wrong address family") { "WrongAddressFamily" }
        else if s.starts_with("Parse error") { "ParseError" }
        else { return format!("err=?{}", hex(&d)) };
    format!("err={}", kind)
}

fn ret_err(t: &FnTable, ret: i32, err: *const CErr) -> String {
    if ret == 0 { "ret=0".into() } else { format!("ret={} {}", ret, err_of(t, err)) }
}

struct Ctx<'a> {
    t: &'a FnTable,
    k: usize,
    n: usize,
    action: Vec<String>,
    out: String,
}

fn cstr_prefix(b: &[u8]) -> &[u8] {
    match b.iter().position(|&c| c == 0) {
        Some(i) => &b[..i],
        None => b,
    }
}

unsafe fn act(cx: &mut Ctx, it: &mut SectionIterator) -> String {
    let t = cx.t;
    let a: Vec<&str> = cx.action.iter().map(|s| s.as_str()).collect();
    let mut err: *const CErr = std::ptr::null();
    match a[0] {
        "name" => {
            let mut g = Guarded::new(256);
            (t.name)(it, &mut *(g.ptr() as *mut [u8; 256]));
            if !g.intact() { return "CANARY-BROKEN".into(); }
            if !g.data().contains(&0) { return "name-not-terminated".into(); }
            format!("name={}", hex(cstr_prefix(g.data())))
        }
        "type" => format!("type={}", (t.rr_type)(it)),
        "class" => format!("class={}", (t.rr_class)(it)),
        "ttl" => format!("ttl={}", (t.rr_ttl)(it)),
        "setttl" => { (t.set_rr_ttl)(it, a[1].parse::<u64>().unwrap() as u32); "ok".into() }
        "ip" | "ipcap" => {
            // the announced capacity (16 unless given): the length written back must be the address length
            let cap: usize = if a[0] == "ipcap" { a[1].parse().unwrap() } else { 16 };
            let mut g = Guarded::new(cap);
            let mut len: libc::size_t = cap;
            (t.rr_ip)(it, g.ptr(), &mut len);
            if !g.intact() { return "CANARY-BROKEN".into(); }
            if len < cap && !g.data()[len..].iter().all(|&x| x == CANARY) { return "WROTE-PAST-ADDRESS".into(); }
            format!("ip={}/{}", hex(&g.data()[..len.min(cap)]), len)
        }
        "setip" => { let b = unhex(a[1]).unwrap(); (t.set_rr_ip)(it, b.as_ptr(), b.len()); "ok".into() }
        "setrawname" => { let b = unhex(a[1]).unwrap(); let r = (t.set_raw_name)(it, &mut err, b.as_ptr(), b.len()); ret_err(t, r, err) }
        "setname" => {
            let b = unhex(a[1]).unwrap();
            let z = if a[2] == "." { None } else { unhex(a[2]) };
            let (zp, zl) = match &z { Some(z) => (z.as_ptr(), z.len()), None => (std::ptr::null(), 0) };
            let r = (t.set_name)(it, &mut err, b.as_ptr() as *const c_char, b.len(), zp, zl);
            ret_err(t, r, err)
        }
        "delete" => { let r = (t.delete)(it, &mut err); ret_err(t, r, err) }
        "delete2" => {
            let r1 = (t.delete)(it, &mut err);
            let s1 = ret_err(t, r1, err);
            let r2 = (t.delete)(it, &mut err);
            format!("{}+{}", s1, ret_err(t, r2, err))
        }
        _ => "none".into(),
    }
}

unsafe extern "C" fn cb(ctx: *mut c_void, it: *const SectionIterator) -> bool {
    let cx = &mut *(ctx as *mut Ctx);
    if cx.n == cx.k {
        let it = &mut *(it as *mut SectionIterator);
        cx.out = act(cx, it);
    }
    cx.n += 1;
    false
}

unsafe extern "C" fn cb_edns(ctx: *mut c_void, _it: *const EdnsIterator<'_>) -> bool {
    let cx = &mut *(ctx as *mut Ctx);
    cx.n += 1;
    false
}

pub fn run_cabi(init: &str, words: &[&str]) -> String {
    let p = match unhex(init) { Some(p) => p, None => return "bad-init".into() };
    let mut pp = match guard(|| DNSSector::new(p).and_then(|x| x.parse())) {
        Ok(Ok(pp)) => pp,
        Ok(Err(e)) => return format!("noparse err {}", err_kind(&e)),
        Err(()) => return "noparse panic".into(),
    };
    let t = fn_table();
    let ppp: *mut ParsedPacket = &mut pp;
    let mut out: Vec<String> = vec![];
    let ops: Vec<&[&str]> = words.split(|w| *w == ";").filter(|o| !o.is_empty()).collect();
    for op in ops {
        let r = guard(|| unsafe {
            let mut err: *const CErr = std::ptr::null();
            match op[0] {
                "flags" => format!("flags={}", (t.flags)(ppp)),
                "setflags" => { (t.set_flags)(ppp, op[1].parse::<u64>().unwrap() as u32); "ok".into() }
                "rcode" => format!("rcode={}", (t.rcode)(ppp)),
                "setrcode" => { (t.set_rcode)(ppp, op[1].parse::<u64>().unwrap() as u8); "ok".into() }
                "opcode" => format!("opcode={}", (t.opcode)(ppp)),
                "setopcode" => { (t.set_opcode)(ppp, op[1].parse::<u64>().unwrap() as u8); "ok".into() }
                "iter" => {
                    let mut cx = Ctx { t: &t, k: op[2].parse().unwrap(), n: 0, action: op[3..].iter().map(|s| s.to_string()).collect(), out: "-".into() };
                    let cxp = &mut cx as *mut Ctx as *mut c_void;
                    match op[1] {
                        "A" => (t.iter_answer)(ppp, cb, cxp),
                        "N" => (t.iter_nameservers)(ppp, cb, cxp),
                        "R" => (t.iter_additional)(ppp, cb, cxp),
                        _ => (t.iter_edns)(ppp, cb_edns, cxp),
                    }
                    format!("n={} act={}", cx.n, cx.out)
                }
                "addq" | "adda" | "addn" | "addr" => {
                    let mut txt = unhex(op[1]).unwrap();
                    if txt.contains(&0) { return "skip-nul".to_string(); }
                    txt.push(0);
                    let f = match op[0] { "addq" => t.add_to_question, "adda" => t.add_to_answer, "addn" => t.add_to_nameservers, _ => t.add_to_additional };
                    let r = f(ppp, &mut err, txt.as_ptr() as *const c_char);
                    ret_err(&t, r, err)
                }
                "rawpacket" => {
                    let cap: usize = op[1].parse().unwrap();
                    let mut g = Guarded::new(8192);
                    let mut len: libc::size_t = usize::MAX;
                    let r = (t.raw_packet)(ppp, &mut *(g.ptr() as *mut [u8; 8192]), &mut len, cap);
                    if !g.intact() { return "CANARY-BROKEN".to_string(); }
                    if r == 0 { format!("ret=0 len={} bytes={}", len, hex(&g.data()[..len.min(8192)])) } else { format!("ret={}", r) }
                }
                "question" => {
                    let mut g = Guarded::new(256);
                    let mut ty: u16 = 0xffff;
                    let r = (t.question)(ppp, &mut *(g.ptr() as *mut [u8; 256]), &mut ty);
                    if !g.intact() { return "CANARY-BROKEN".to_string(); }
                    format!("ret={} name={} type={}", r, hex(cstr_prefix(g.data())), ty)
                }
                "rename" => {
                    let (a, b) = (unhex(op[1]).unwrap(), unhex(op[2]).unwrap());
                    let r = (t.rename_with_raw_names)(ppp, &mut err, a.as_ptr(), a.len(), b.as_ptr(), b.len(), op[3] == "1");
                    ret_err(&t, r, err)
                }
                "name2raw" => {
                    let n = unhex(op[1]).unwrap();
                    let mut g = Guarded::new(256);
                    let mut len: libc::size_t = usize::MAX;
                    let r = (t.raw_name_from_str)(&mut *(g.ptr() as *mut [u8; 256]), &mut len, &mut err, n.as_ptr() as *const c_char, n.len());
                    if !g.intact() { return "CANARY-BROKEN".to_string(); }
                    if r == 0 { format!("ret=0 raw={}", hex(&g.data()[..len.min(256)])) } else { ret_err(&t, r, err) }
                }
                "abi" => format!("abi={}", t.abi_version),
                _ => "bad-op".into(),
            }
        });
        match r {
            Ok(s) => out.push(s),
            Err(()) => { out.push("panic".into()); break; }
        }
    }
    let fin = guard(|| format!("b={} v={}", hex(pp.packet()), fmt_view(&pp).replace(' ', ",")));
    out.push(fin.unwrap_or("state-panic".into()));
    out.join(" ; ")
}

// ---------------------------------------------------------------------------------------------
// the same script through the C driver compiled against c_hook.h

#[cfg(cdriver_ok)]
extern "C" {
    fn c_run_script(
        t: *const FnTable,
        pp: *mut ParsedPacket,
        ops: *const *const *const c_char,
        nwords: *const libc::c_int,
        nops: libc::c_int,
        out: *mut c_char,
        cap: libc::size_t,
    ) -> libc::size_t;
}

#[cfg(not(cdriver_ok))]
pub fn run_cabi_c(_init: &str, _words: &[&str]) -> String {
    let e = include_str!(concat!(env!("OUT_DIR"), "/cdriver.err"));
    format!("cdriver-does-not-compile-against-c_hook.h {}", e.replace('\n', " | ").chars().take(600).collect::<String>())
}

#[cfg(cdriver_ok)]
pub fn run_cabi_c(init: &str, words: &[&str]) -> String {
    use std::ffi::CString;
    let p = match unhex(init) { Some(p) => p, None => return "bad-init".into() };
    let mut pp = match guard(|| DNSSector::new(p).and_then(|x| x.parse())) {
        Ok(Ok(pp)) => pp,
        Ok(Err(e)) => return format!("noparse err {}", err_kind(&e)),
        Err(()) => return "noparse panic".into(),
    };
    let t = fn_table();
    let ops: Vec<&[&str]> = words.split(|w| *w == ";").filter(|o| !o.is_empty()).collect();
    let cstrs: Vec<Vec<CString>> = ops.iter().map(|o| o.iter().map(|w| CString::new(*w).unwrap()).collect()).collect();
    let ptrs: Vec<Vec<*const c_char>> = cstrs.iter().map(|o| o.iter().map(|c| c.as_ptr()).collect()).collect();
    let opptrs: Vec<*const *const c_char> = ptrs.iter().map(|o| o.as_ptr()).collect();
    let nwords: Vec<libc::c_int> = ops.iter().map(|o| o.len() as libc::c_int).collect();
    let mut out = vec![0u8; 400_000];
    let n = unsafe { c_run_script(&t, &mut pp, opptrs.as_ptr(), nwords.as_ptr(), ops.len() as libc::c_int, out.as_mut_ptr() as *mut c_char, out.len()) };
    let mut s = String::from_utf8_lossy(&out[..n]).to_string();
    let fin = guard(|| format!("b={} v={}", hex(pp.packet()), fmt_view(&pp).replace(' ', ",")));
    if !s.is_empty() { s.push_str(" ; "); }
    s.push_str(&fin.unwrap_or("state-panic".into()));
    s
}
