#!/usr/bin/env python3
"""Orchestration of one property check (DESIGN.md §2.4, §5.1).

  obligation 1 (M |= S): `lake build` of the property's theorem module + axiom audit
  obligation 2 (I ~ M):  harness `run` (real dnssector, hooks on) vs Lean `driver` on the same case lines
  oracle:                per-property predicate evaluated on I's observed behaviour
  verdict:               §2.4
"""
import fcntl
import json
import os
import re
import shutil
import subprocess
import sys
import time

ROOT = os.path.dirname(os.path.abspath(__file__))
LEAN = os.path.join(ROOT, "lean")
HARNESS = os.path.join(ROOT, "harness")
HBIN = os.path.join(HARNESS, "target", "release", "harness")
DBIN = os.path.join(LEAN, ".lake", "build", "bin", "driver")
WORK = os.path.join(ROOT, ".work")
REPLAYS = os.path.join(ROOT, "replays")
EVIDENCE = os.path.join(ROOT, "evidence")
ALLOWED_AXIOMS = {"propext", "Classical.choice", "Quot.sound"}
ENV = dict(os.environ, CARGO_NET_OFFLINE="true", MALLOC_ARENA_MAX="2")  # glibc: no 64 MiB arena per thread under the address-space cap

TRUSTED_BASE = [
    "Lean 4.33.0 kernel (thorough tier: leanchecker re-check of the theorem modules)",
    "axioms allowed: propext, Classical.choice, Quot.sound (audited with #print axioms on every listed theorem)",
    "Lean compiler, for running the model in the driver (correspondence only)",
    "hand-written model DnsModel/*.lean tied to /repo by differential execution on generated cases (checked, not proved)",
    "Generated/Constants.lean and Generated/FnTable.lean regenerated from /repo on every run",
    "rs2lean.py (Rust-subset -> Lean translator, syntax-directed): Generated/Tr{Header,Name,Sector,Reader,Text,Rename,Counts}.lean are rewritten from /repo's source text on every run; Tie/*.lean prove each translated function equal to the model function the theorems are about (66 functions: header getters/setters, the whole validator DNSSector::new/parse/parse_question/parse_rr/parse_opt with cursor primitives and loaders, both name validators, the trusted name readers of compress.rs incl. raw_name_to_str, the dictionary's case-insensitive comparison, copy_raw_name_from_str, Renamer::replace_raw, rrcount_inc/rrcount_dec/insertion_offset with the set_*count writers, ParsedPacket::recompute and ParsedPacket::insert_rr - whose call to Compress::uncompress goes to the model's uncompress)",
    "harness (Rust), generators, checklib.py",
    "safe-Rust memory safety; usize modelled as Nat; debug overflow/underflow semantics = panic",
]


def sh(cmd, cwd=None, timeout=None, input=None):
    p = subprocess.run(cmd, cwd=cwd, env=ENV, input=input, capture_output=True, text=True, timeout=timeout)
    return p.returncode, p.stdout, p.stderr


class Lock:
    def __enter__(self):
        self.f = open(os.path.join(ROOT, ".lock"), "w")
        fcntl.flock(self.f, fcntl.LOCK_EX)
        return self

    def __exit__(self, *a):
        fcntl.flock(self.f, fcntl.LOCK_UN)
        self.f.close()


def build_harness():
    """cargo rebuilds dnssector from /repo's working tree whenever a file changed."""
    try:
        shutil.copyfile("/repo/Cargo.lock", os.path.join(HARNESS, "Cargo.lock"))
    except OSError:
        pass
    rc, out, err = sh(["cargo", "build", "--release", "--offline"], cwd=HARNESS, timeout=1200)
    return rc == 0, (out + err)[-6000:]


def write_if_changed(path, content):
    try:
        if open(path).read() == content:
            return False
    except OSError:
        pass
    with open(path, "w") as f:
        f.write(content)
    return True


def regenerate():
    """the two translated parts of the model"""
    notes = []
    rc, out, err = sh([HBIN, "dump-constants"])
    if rc != 0:
        return False, "dump-constants failed: " + err
    if write_if_changed(os.path.join(LEAN, "DnsModel", "Generated", "Constants.lean"), out):
        notes.append("Generated/Constants.lean changed")
    gen = os.path.join(ROOT, "gen_fntable.py")
    if os.path.exists(gen):
        rc, out, err = sh([sys.executable, gen, "/repo/src/c_abi.rs", "/repo/src/bin/c_hook/c_hook.h"])
        if rc != 0:
            return False, "gen_fntable failed: " + err
        if write_if_changed(os.path.join(LEAN, "DnsModel", "Generated", "FnTable.lean"), out):
            notes.append("Generated/FnTable.lean changed")
    # the Rust -> Lean translation of the functions listed in rs2lean.py (header API, cursor primitives, name validators)
    tr = os.path.join(ROOT, "rs2lean.py")
    gdir = os.path.join(LEAN, "DnsModel", "Generated")
    before = {f: open(os.path.join(gdir, f)).read() for f in os.listdir(gdir) if f.startswith("Tr")}
    rc, out, err = sh([sys.executable, tr, gdir])
    for f in sorted(os.listdir(gdir)):
        if f.startswith("Tr") and before.get(f) != open(os.path.join(gdir, f)).read():
            notes.append("Generated/%s changed" % f)
    if rc != 0:
        # the group's file now holds only a marker: the Tie module of that group, and with it the theorem modules
        # of the properties that rest on it, no longer build - reported by those properties' checks
        notes.append("rs2lean: " + err.strip().replace("\n", " | ")[-600:])
    return True, "; ".join(notes)


def lake_build(targets, timeout):
    try:
        rc, out, err = sh(["lake", "build"] + targets, cwd=LEAN, timeout=timeout)
    except subprocess.TimeoutExpired:
        return False, "lake build exceeded its time cap (%ds)" % timeout
    lines = [l for l in (out + err).splitlines() if not l.startswith("trace:")]
    if rc == 0:
        return True, ""
    # errors first (with what follows them up to the next diagnostic), then which modules failed; warnings dropped
    keep, on = [], False
    for l in lines:
        if l.startswith("error:") or l.startswith("\u2716") or l.startswith("- ") or l.startswith("Some required"):
            on = l.startswith("error:")
            keep.append(l)
        elif l.startswith("warning:") or l.startswith("\u2714") or l.startswith("\u26a0") or l.startswith("Note:") or l.startswith("Hint:"):
            on = False
        elif on:
            keep.append(l)
    text = "\n".join(keep)
    return False, text[:8000]


def audit(prop, theorems, module):
    """#print axioms on every obligation; returns (ok, per-theorem axioms, message)"""
    os.makedirs(WORK, exist_ok=True)
    path = os.path.join(WORK, "Audit_%s_%d.lean" % (prop, os.getpid()))
    with open(path, "w") as f:
        f.write("import %s\n" % module)
        for t in theorems:
            f.write("#print axioms %s\n" % t)
    try:
        rc, out, err = sh(["lake", "env", "lean", path], cwd=LEAN, timeout=600)
    finally:
        try:
            os.remove(path)
        except OSError:
            pass
    if rc != 0:
        return False, {}, (out + err)[-4000:]
    axioms = {}
    text = out.replace("\n  ", " ")
    for m in re.finditer(r"'([^']+)' depends on axioms: \[([^\]]*)\]", text):
        axioms[m.group(1)] = [a.strip() for a in m.group(2).replace("\n", " ").split(",") if a.strip()]
    for m in re.finditer(r"'([^']+)' does not depend on any axioms", text):
        axioms[m.group(1)] = []
    bad = []
    for t in theorems:
        if t not in axioms:
            bad.append("%s: no axiom report" % t)
        else:
            extra = [a for a in axioms[t] if a not in ALLOWED_AXIOMS]
            if extra:
                bad.append("%s uses %s" % (t, extra))
    return not bad, axioms, "; ".join(bad)


SRC_FORBIDDEN = re.compile(r"\b(sorry|admit|native_decide|bv_decide|implemented_by)\b|^\s*axiom\s|maxHeartbeats\s+0|^\s*unsafe\s", re.M)


def source_audit():
    """grep the model/proof sources for escape hatches (comments stripped)"""
    hits = []
    for dp, _, fns in os.walk(os.path.join(LEAN, "DnsModel")):
        for fn in fns:
            if not fn.endswith(".lean"):
                continue
            s = open(os.path.join(dp, fn)).read()
            s = re.sub(r"/-.*?-/", "", s, flags=re.S)
            s = re.sub(r"--.*", "", s)
            for m in SRC_FORBIDDEN.finditer(s):
                hits.append("%s: %s" % (fn, m.group(0).strip()))
    return hits


def _limit_child():
    # a runaway case (e.g. a walker that appends forever) must not exhaust the machine: 6 GiB address space
    import resource
    resource.setrlimit(resource.RLIMIT_AS, (6 << 30, 6 << 30))


def run_impl(lines, per_case_timeout=10.0):
    """Runs the harness on the case lines, one answer per line. A case that kills the process (abort inside
    extern "C", allocation failure under the memory cap) is recorded as `abort`, one that produces no answer
    within the watchdog as `hang`; the remaining cases are run in a fresh process."""
    import selectors
    import threading
    results = []
    n = len(lines)
    while len(results) < n:
        chunk = lines[len(results):]
        p = subprocess.Popen([HBIN, "run"], stdin=subprocess.PIPE, stdout=subprocess.PIPE, stderr=subprocess.DEVNULL,
                             env=ENV, preexec_fn=_limit_child)

        def feed(proc=p, data=("\n".join(chunk) + "\n").encode()):
            try:
                proc.stdin.write(data)
                proc.stdin.close()
            except (BrokenPipeError, OSError):
                pass
        t = threading.Thread(target=feed, daemon=True)
        t.start()
        sel = selectors.DefaultSelector()
        sel.register(p.stdout, selectors.EVENT_READ)
        buf = b""
        got = []
        status = "exit"
        last_progress = time.time()
        while True:
            ev = sel.select(timeout=1.0)
            if ev:
                data = os.read(p.stdout.fileno(), 1 << 20)
                if not data:
                    break
                buf += data
                while b"\n" in buf:
                    line, buf = buf.split(b"\n", 1)
                    got.append(line.decode("utf-8", "replace"))
                    last_progress = time.time()
            elif time.time() - last_progress > per_case_timeout:
                status = "hang"
                p.kill()
                break
        sel.close()
        try:
            p.wait(timeout=10)
        except subprocess.TimeoutExpired:
            p.kill()
        results.extend(got[: len(chunk)])
        if len(got) >= len(chunk):
            break
        # the case after the last answered one killed or hung the process
        results.append("hang" if status == "hang" else "abort")
    return results[:n]


def run_model(lines):
    p = subprocess.run([DBIN], input="\n".join(lines) + "\n", capture_output=True, text=True, env=ENV)
    out = p.stdout.splitlines()
    if len(out) < len(lines):
        out.extend(["driver-died"] * (len(lines) - len(out)))
    return out


def gen_cases(family, seed, n):
    rc, out, err = sh([HBIN, "gen", family, str(seed), str(n)])
    if rc != 0:
        raise RuntimeError("generator %s failed: %s" % (family, err[-2000:]))
    return [l for l in out.splitlines() if l.strip()]


def tag_of(line):
    m = re.search(r"#(\S+)\s*$", line)
    return m.group(1) if m else "-"


def strip_tag(line):
    return re.sub(r"\s+#\S+\s*$", "", line)


def load_corpus(prop):
    d = os.path.join(ROOT, "corpus", prop)
    lines = []
    if os.path.isdir(d):
        for fn in sorted(os.listdir(d)):
            if fn.endswith(".case"):
                for l in open(os.path.join(d, fn)):
                    l = l.rstrip("\n")
                    if l.strip() and not l.startswith("//"):
                        lines.append(l)
    return lines


def load_known_findings():
    known, fixed = [], []
    path = os.path.join(ROOT, "KNOWN_FINDINGS")
    if os.path.exists(path):
        for l in open(path):
            l = l.strip()
            if l.startswith("known:"):
                m = re.match(r"known:\s+property=(\S+)\s+id=(\S+)\s+selector=(\S+)\s+::\s*(.*)", l)
                if m:
                    known.append({"props": m.group(1).split(","), "id": m.group(2), "selector": m.group(3), "text": m.group(4)})
            elif l.startswith("fixed:"):
                fixed.append(l)
    return known, fixed


def shrink_hex_case(line, still_fails, budget=150):
    """delta-debugging on the hex argument of a one-packet case: drop byte ranges while it still fails"""
    w = strip_tag(line).split(" ")
    if len(w) < 2 or not re.fullmatch(r"[0-9a-f]+", w[1] or ""):
        return line
    b = bytes.fromhex(w[1])
    tries = 0
    step = max(1, len(b) // 2)
    while step >= 1 and tries < budget:
        i = 0
        progressed = False
        while i < len(b) and tries < budget:
            cand = b[:i] + b[i + step:]
            tries += 1
            cl = " ".join([w[0], cand.hex() if cand else "-"] + w[2:])
            if still_fails(cl):
                b = cand
                progressed = True
            else:
                i += step
        if not progressed:
            step //= 2
    return " ".join([w[0], b.hex() if b else "-"] + w[2:])


class Check:
    """One property check. `spec` is the per-property configuration from properties_cfg.py."""

    def __init__(self, prop, spec, tier, seed):
        self.prop, self.spec, self.tier, self.seed = prop, spec, tier, seed
        self.t0 = time.time()
        self.notes = []
        self.violations = []  # (kind, replay dict)
        self.known_hits = []

    # -- obligation 1 -------------------------------------------------------------------------
    def proofs(self):
        spec = self.spec
        module = spec["module"]
        theorems = spec["theorems"]
        cap = 600 if self.tier == "quick" else 2400
        ok, log = lake_build([module, "driver"], cap)
        res = {"module": module, "obligations": len(theorems), "discharged": 0, "axioms": {}, "build_ok": ok, "log": "" if ok else log}
        if not ok:
            res["failed"] = self._failed_theorems(log, theorems)
            return res
        hits = source_audit()
        if hits:
            res["build_ok"] = False
            res["log"] = "forbidden constructs in sources: " + ", ".join(hits[:10])
            res["failed"] = theorems
            return res
        aok, axioms, msg = audit(self.prop, theorems, module)
        res["axioms"] = axioms
        if not aok:
            res["build_ok"] = False
            res["log"] = "axiom audit: " + msg
            res["failed"] = [t for t in theorems if t not in axioms or any(a not in ALLOWED_AXIOMS for a in axioms[t])]
            return res
        res["discharged"] = len(theorems)
        if self.tier == "thorough":
            # independent re-check of the compiled theorem module
            try:
                rc, out, err = sh(["lake", "env", "leanchecker", module], cwd=LEAN, timeout=1800)
                res["leanchecker"] = "ok" if rc == 0 else (out + err)[-2000:]
                if rc != 0:
                    res["build_ok"] = False
                    res["discharged"] = 0
                    res["log"] = "leanchecker rejected %s" % module
                    res["failed"] = theorems
            except subprocess.TimeoutExpired:
                res["leanchecker"] = "timeout (not counted)"
        return res

    @staticmethod
    def _failed_theorems(log, theorems):
        failed = []
        for t in theorems:
            short = t.split(".")[-1]
            if re.search(r"\b%s\b" % re.escape(short), log):
                failed.append(t)
        # a tie module that no longer builds: the equalities between the translated source and the model
        for m in re.finditer(r"DnsModel/(Tie/\w+)\.lean:(\d+)", log):
            name = "%s.lean:%s (translated source = model no longer proved)" % (m.group(1), m.group(2))
            if name not in failed:
                failed.append(name)
        if any(f.startswith("Tie/") for f in failed):
            failed += [t for t in theorems if ".source_" in t and t not in failed]
        return failed or ["(build failed before the property theorems: see log)"]

    # -- obligation 2 + oracle ----------------------------------------------------------------
    def correspondence(self):
        spec = self.spec
        fams = spec["families"]
        all_lines = []
        origin = []
        for l in load_corpus(self.prop):
            all_lines.append(l)
            origin.append("corpus")
        for fam in fams:
            name = fam["name"]
            n = fam[self.tier]
            lines = gen_cases(name, self.seed, n)
            all_lines.extend(lines)
            origin.extend([name] * len(lines))
        stripped = [strip_tag(l) for l in all_lines]
        impl = run_impl(stripped)
        model = run_model(stripped)
        return all_lines, origin, impl, model


def fmt_sample(line, impl, model):
    return {"case": line if len(line) < 600 else line[:600] + "…", "impl": impl[:300], "model": model[:300]}
