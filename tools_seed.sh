#!/bin/bash
# usage: tools_seed.sh <worktree> <seed-id> <Cnn> [more checks…]
# 1. validates a seeded change in its scratch worktree (tests pass with it; demo fails with it, passes without)
# 2. stores it under /verif/seeded/<seed-id>/
# 3. applies it to /repo, runs the given checks, undoes it
wt=$1; id=$2; shift 2
prop=$1
mkdir -p /verif/seeded/$id
cp $wt/patch.diff /verif/seeded/$id/patch.diff
demo=$(ls $wt/tests/demo_*.rs | head -1)
cp $demo /verif/seeded/$id/
cp $wt/notes.txt /verif/seeded/$id/notes.txt 2>/dev/null
cd $wt
git checkout -q -- src 2>/dev/null; git stash list >/dev/null
# state: clean src + demo present
export CARGO_NET_OFFLINE=true
without=$(cargo test --offline --test $(basename $demo .rs) 2>&1 | grep -E "^test result" | tail -1)
git apply /verif/seeded/$id/patch.diff || { echo "patch does not apply"; exit 1; }
suite=$(cargo test --offline --lib --test test_dnssector --test test_synth 2>&1 | grep -E "^test result" | tr '\n' ' ')
with=$(cargo test --offline --test $(basename $demo .rs) 2>&1 | grep -E "^test result" | tail -1)
git checkout -q -- src
echo "suite-with-change: $suite"
echo "demo-without: $without"
echo "demo-with:    $with"
rm -rf $wt/target
cd /repo && git apply /verif/seeded/$id/patch.diff || { echo "patch does not apply to /repo"; exit 1; }
res=""
for c in "$@"; do r=$(cd /verif && ./check $c | grep -v KNOWN | tail -1); echo "  $r"; res="$res | $c: $r"; done
git -C /repo checkout -- .
cat > /verif/seeded/$id/meta.json <<EOM
{"seed_id": "$id", "property": "$prop", "needs": $(python3 -c "import json,sys; print(json.dumps(open('/verif/seeded/$id/notes.txt').read()[:1500]))" 2>/dev/null || echo '""'),
 "validated": {"suite_with_change": "$suite", "demo_without_change": "$without", "demo_with_change": "$with"},
 "checks_run": "$(echo $res | sed 's/"/\\"/g')"}
EOM
