#!/usr/bin/env python3
"""show the first differing token of impl/model outputs for a case file"""
import sys
c, i, m = [open(x).read().splitlines() for x in sys.argv[1:4]]
n = 0
for a, b, cc in zip(i, m, c):
    if a != b:
        ta, tb = a.replace(";", " ").replace(",", " ").split(" "), b.replace(";", " ").replace(",", " ").split(" ")
        for k, (x, y) in enumerate(zip(ta, tb)):
            if x != y:
                print("CASE", cc[:200]); print("  tok", k, "impl:", x[:160], "| model:", y[:160], "| prev:", ta[max(0,k-3):k]); break
        else:
            print("CASE", cc[:200], "length differs", len(ta), len(tb), ta[-2:], tb[-2:])
        n += 1
        if n >= int(sys.argv[4]) if len(sys.argv) > 4 else 5: break
