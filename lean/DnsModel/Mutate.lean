/-
  DnsModel.Mutate — the in-place mutators (rr_iterator.rs: resize_rr, set_raw_name, delete,
  DNSIterable::uncompress, set_rr_ttl, set_rr_ip; parsed_packet.rs: rrcount_inc/dec,
  insertion_offset, insert_rr, recompute, rename_with_raw_names).
  `&mut self` becomes state passing: a function returns the new `PP` (and cursor).
  A Rust `Err` may leave the object modified (e.g. decompressed); such functions return
  `Res (PP × Cursor × Res' Unit)`-like pairs: here `MRes`.
-/
import DnsModel.Renamer
namespace Dns

/-- outcome of a fallible mutator: the state after the call and `Ok(())`/`Err(e)`;
`panic`/`diverge` abort the whole script -/
structure MOut where
  pp : PP
  cur : Cursor
  result : Option Err   -- none = Ok(())

abbrev MRes := Res MOut

def mOk (pp : PP) (c : Cursor) : MRes := .ok { pp := pp, cur := c, result := none }
def mErr (pp : PP) (c : Cursor) (e : Err) : MRes := .ok { pp := pp, cur := c, result := some e }

/-- `ParsedPacket::recompute` (decompresses first, so that clearing `maybe_compressed` is justified) -/
def PP.recompute (pp : PP) : Res (PP × Option Err) :=
  if !pp.maybeCompressed then pure (pp, none) else
  match uncompress pp.packet with
  | .err e => pure (pp, some e)
  | .panic => .panic
  | .diverge => .diverge
  | .ok u =>
    match parse u with
    | .ok v =>
      -- assert_eq! on the EDNS summary
      if v.ednsCount != pp.ednsCount || v.extRcode != pp.extRcode || v.ednsVersion != pp.ednsVersion
          || v.extFlags != pp.extFlags then .panic
      else pure ({ pp with packet := u, offsetQuestion := v.offsetQuestion, offsetAnswers := v.offsetAnswers,
                           offsetNameservers := v.offsetNameservers, offsetAdditional := v.offsetAdditional,
                           offsetEdns := v.offsetEdns, maybeCompressed := false, cached := none }, none)
    | .err e => pure (pp, some e)
    | .panic => .panic
    | .diverge => .diverge

/-- `RRIterator::recompute` (with the D4 repair for the question) -/
def Cursor.recompute (p : Bytes) (c : Cursor) : Res Cursor := do
  let off ← unwrap c.offset
  let ne ← skipName p off
  let nx ← if c.sec == .question then pure (ne + DNS_RR_QUESTION_HEADER_SIZE) else skipRdata p ne
  pure { c with nameEnd := ne, offsetNext := nx }

/-- `recompute_sections`: `self.rr_iterator.parsed_packet.recompute().unwrap()` -/
def recomputeSections (pp : PP) : Res PP := do
  let (pp, e) ← pp.recompute
  match e with
  | none => pure pp
  | some _ => .panic

def shiftNat (x : Nat) (shift : Int) : Nat := (Int.ofNat x + shift).toNat

/-- `TypedIterable::resize_rr` -/
def resizeRR (pp : PP) (c : Cursor) (shift : Int) : MRes := do
  if shift == 0 then return { pp := pp, cur := c, result := none }
  match c.offset with
  | none => mErr pp c .voidRecord
  | some offset =>
    let packetLen := pp.packet.length
    let r : Res (Option Bytes) :=
      if shift > 0 then
        let sh := shift.toNat
        if packetLen + sh > 0xffff then pure none
        else if offset ≤ packetLen then
          -- resize(new_len, 0); copy_within(offset..packet_len, offset + shift): the gap keeps the
          -- bytes that were there (old bytes, then the zeros of `resize`)
          pure (some (pp.packet.take offset ++ (pp.packet.drop offset).take sh
                  ++ List.replicate (sh - (packetLen - offset)) 0 ++ pp.packet.drop offset))
        else .panic
      else
        let sh := (-shift).toNat
        if packetLen < sh then .panic
        else if offset + sh > packetLen then .panic
        else pure (some (pp.packet.take offset ++ pp.packet.drop (offset + sh)))
    match ← r with
    | none => mErr pp c .packetTooLarge
    | some newPacket =>
      let pp := { pp with packet := newPacket }
      let n : Int := Int.ofNat c.offsetNext + shift
      -- `set_offset_next`: debug_assert!(offset <= packet.len())
      if n < 0 || n.toNat > newPacket.length then .panic else
      let c := { c with offsetNext := n.toNat }
      match c.currentSection pp with
      | .err e => mErr pp c e
      | .panic => .panic
      | .diverge => .diverge
      | .ok sect =>
        let sh (o : Option Nat) : Option Nat := o.map (fun x => shiftNat x shift)
        let pp := if optLt c.offset pp.offsetEdns then { pp with offsetEdns := sh pp.offsetEdns } else pp
        let pp := if sect == .nameServers || sect == .answer || sect == .question
                  then { pp with offsetAdditional := sh pp.offsetAdditional } else pp
        let pp := if sect == .answer || sect == .question
                  then { pp with offsetNameservers := sh pp.offsetNameservers } else pp
        let pp := if sect == .question then { pp with offsetAnswers := sh pp.offsetAnswers } else pp
        mOk pp c

/-- the decompress-first step shared by set_raw_name and delete -/
def uncompressAt (pp : PP) (c : Cursor) : MRes := do
  match c.offset with
  | none => mErr pp c .voidRecord
  | some refOffset =>
    match uncompressWithPreviousOffset pp.packet refOffset with
    | .err e => mErr pp c e
    | .panic => .panic
    | .diverge => .diverge
    | .ok (u, newOffset) =>
      let pp := { pp with packet := u }
      assert (newOffset ≤ u.length)
      let c := { c with offset := some newOffset }
      let c ← c.recompute pp.packet
      let pp ← recomputeSections pp
      mOk pp c

/-- `TypedIterable::set_raw_name` -/
def setRawName (pp : PP) (c : Cursor) (name : Bytes) : MRes := do
  match checkCompressedName name 0 with
  | .err e => mErr pp c e
  | .panic => .panic
  | .diverge => .diverge
  | .ok newNameLen =>
    let name := name.take newNameLen
    let st ← (if pp.maybeCompressed then uncompressAt pp c else mOk pp c)
    if st.result.isSome then return st
    let (pp, c) := (st.pp, st.cur)
    match c.offset with
    | none => mErr pp c .voidRecord
    | some offset =>
      let pp := { pp with cached := none }
      let ns ← slice pp.packet offset c.nameEnd
      let cur ← rawNameLen ns
      let shift : Int := Int.ofNat newNameLen - Int.ofNat cur
      let st ← resizeRR pp c shift
      if st.result.isSome then return st
      let (pp, c) := (st.pp, st.cur)
      let packet ← writeAt pp.packet offset name
      let pp := { pp with packet := packet }
      let c ← c.recompute pp.packet
      mOk pp c

def sectionCount (p : Bytes) : Section → Res Nat
  | .question => qdcount p
  | .answer => ancount p
  | .nameServers => nscount p
  | .additional => arcount p
  | .edns => .panic

def sectionCountOffset : Section → Nat
  | .question => 4 | .answer => 6 | .nameServers => 8 | .additional => 10 | .edns => 0

/-- `rrcount_dec` -/
def rrcountDec (pp : PP) (s : Section) : Res (PP × Nat) := do
  let n ← sectionCount pp.packet s
  if n ≤ 0 then .panic
  else
    let p ← writeAt pp.packet (sectionCountOffset s) (put16 (n - 1))
    pure ({ pp with packet := p }, n - 1)

/-- `rrcount_inc` -/
def rrcountInc (pp : PP) (s : Section) : Res (PP × Option Err) := do
  let n ← sectionCount pp.packet s
  if s == .question && n ≥ 1 then return (pp, some .invalidPacket)
  if n ≥ 0xffff then return (pp, some .invalidPacket)
  let p ← writeAt pp.packet (sectionCountOffset s) (put16 (n + 1))
  pure ({ pp with packet := p }, none)

/-- `TypedIterable::delete` -/
def deleteRR (pp : PP) (c : Cursor) : MRes := do
  if c.offset.isNone then return { pp := pp, cur := c, result := some .voidRecord }
  match c.currentSection pp with
  | .err e => mErr pp c e
  | .panic => .panic
  | .diverge => .diverge
  | .ok sect =>
    let st ← (if pp.maybeCompressed then uncompressAt pp c else mOk pp c)
    if st.result.isSome then return st
    let (pp, c) := (st.pp, st.cur)
    let isOpt ← (if sect == .additional then do let t ← c.rrType pp.packet; pure (t == TYPE_OPT) else pure false)
    let offset ← unwrap c.offset
    let rrLen ← sub c.offsetNext offset
    assert (rrLen > 0)
    let st ← resizeRR pp c (-(Int.ofNat rrLen))
    if st.result.isSome then return st
    let (pp, c) := (st.pp, st.cur)
    let offset ← unwrap c.offset
    let c := { c with offsetNext := offset, offset := none }
    let pp := { pp with cached := none }
    let pp := if isOpt then { pp with offsetEdns := none, ednsCount := 0, extRcode := none, ednsVersion := none,
                                      extFlags := none, maxPayload := 512 } else pp
    let (pp, rrcount) ← rrcountDec pp sect
    let pp := if rrcount ≤ 0 then
        match sect with
        | .question => { pp with offsetQuestion := none }
        | .answer => { pp with offsetAnswers := none }
        | .nameServers => { pp with offsetNameservers := none }
        | .additional => { pp with offsetAdditional := none }
        | .edns => pp
      else pp
    mOk pp c

/-- `DNSIterable::uncompress` (with the D18 repair) -/
def iterUncompress (pp : PP) (c : Cursor) : MRes := do
  if !pp.maybeCompressed then return { pp := pp, cur := c, result := none }
  match c.offset with
  | none => mErr pp c .voidRecord
  | some refOffset =>
    match uncompressWithPreviousOffset pp.packet refOffset with
    | .err e => mErr pp c e
    | .panic => .panic
    | .diverge => .diverge
    | .ok (u, newOffset) =>
      let pp := { pp with packet := u }
      assert (newOffset ≤ u.length)
      let c := { c with offset := some newOffset }
      let pp ← recomputeSections pp
      let c ← c.recompute pp.packet
      mOk pp c

/-- `set_rr_ttl` -/
def setRrTtl (pp : PP) (c : Cursor) (ttl : Nat) : Res PP := do
  let _ ← unwrap c.offset
  let _ ← sliceFrom pp.packet c.nameEnd
  let p ← writeAt pp.packet (c.nameEnd + DNS_RR_TTL_OFFSET) (put32 ttl)
  pure { pp with packet := p }

/-- `set_rr_ip`; `ip` is 4 or 16 bytes -/
def setRrIp (pp : PP) (c : Cursor) (ip : Bytes) : Res (PP × Option Err) := do
  let t ← c.rrType pp.packet
  if t == TYPE_A then
    if ip.length == 4 then
      let rd ← sliceFrom pp.packet c.nameEnd
      assert (rd.length ≥ DNS_RR_HEADER_SIZE + 4)
      let p ← writeAt pp.packet (c.nameEnd + DNS_RR_HEADER_SIZE) ip
      pure ({ pp with packet := p }, none)
    else pure (pp, some .wrongAddressFamily)
  else if t == TYPE_AAAA then
    if ip.length == 16 then
      let rd ← sliceFrom pp.packet c.nameEnd
      assert (rd.length ≥ DNS_RR_HEADER_SIZE + 16)
      let p ← writeAt pp.packet (c.nameEnd + DNS_RR_HEADER_SIZE) ip
      pure ({ pp with packet := p }, none)
    else pure (pp, some .wrongAddressFamily)
  else pure (pp, some .propertyNotFound)

/-- `insertion_offset` -/
def insertionOffset (pp : PP) : Section → Res Nat
  | .question => pure ((pp.offsetAnswers.or pp.offsetNameservers).or pp.offsetAdditional |>.getD pp.packet.length)
  | .answer => pure (pp.offsetNameservers.or pp.offsetAdditional |>.getD pp.packet.length)
  | .nameServers => pure (pp.offsetAdditional.getD pp.packet.length)
  | .additional => pure pp.packet.length
  | .edns => .panic

/-- `insert_rr(sect, rr)`; `rr` is the record's wire form -/
def insertRR (pp : PP) (sect : Section) (rr : Bytes) : Res (PP × Option Err) := do
  let r ← (if pp.maybeCompressed then
      match uncompress pp.packet with
      | .err e => pure (pp, some e)
      | .panic => .panic
      | .diverge => .diverge
      | .ok u => do
        let (pp, e) ← ({ pp with packet := u } : PP).recompute
        pure (pp, e)
    else pure (pp, none) : Res (PP × Option Err))
  let (pp, e) := r
  if e.isSome then return (pp, e)
  let rrLen := rr.length
  if pp.packet.length + rrLen > DNS_MAX_UNCOMPRESSED_SIZE then return (pp, some .packetTooLarge)
  let (pp, e) ← rrcountInc pp sect
  if e.isSome then return (pp, e)
  let io ← insertionOffset pp sect
  let packetLen := pp.packet.length
  if io > packetLen then .panic else
  let pp := { pp with packet := pp.packet.take io ++ rr ++ pp.packet.drop io }
  let add (o : Option Nat) : Option Nat := o.map (· + rrLen)
  match sect with
  | .question =>
    pure ({ pp with offsetQuestion := pp.offsetQuestion.or (some io), offsetAnswers := add pp.offsetAnswers,
                    offsetNameservers := add pp.offsetNameservers, offsetAdditional := add pp.offsetAdditional,
                    offsetEdns := add pp.offsetEdns }, none)
  | .answer =>
    pure ({ pp with offsetAnswers := pp.offsetAnswers.or (some io), offsetNameservers := add pp.offsetNameservers,
                    offsetAdditional := add pp.offsetAdditional, offsetEdns := add pp.offsetEdns }, none)
  | .nameServers =>
    pure ({ pp with offsetNameservers := pp.offsetNameservers.or (some io),
                    offsetAdditional := add pp.offsetAdditional, offsetEdns := add pp.offsetEdns }, none)
  | .additional =>
    pure ({ pp with offsetAdditional := pp.offsetAdditional.or (some io) }, none)
  | .edns => .panic

/-- `ParsedPacket::rename_with_raw_names` (with the D21 repair: re-parse before storing) -/
def PP.renameWithRawNames (pp : PP) (target source : Bytes) (sfx : Bool) : Res (PP × Option Err) := do
  match Dns.renameWithRawNames pp target source sfx with
  | .err e => pure (pp, some e)
  | .panic => .panic
  | .diverge => .diverge
  | .ok packet =>
    match parse packet with
    | .err e => pure (pp, some e)
    | .panic => .panic
    | .diverge => .diverge
    | .ok v =>
      if v.ednsCount != pp.ednsCount || v.extRcode != pp.extRcode || v.ednsVersion != pp.ednsVersion
          || v.extFlags != pp.extFlags then .panic
      else pure ({ pp with packet := packet, offsetQuestion := v.offsetQuestion, offsetAnswers := v.offsetAnswers,
                           offsetNameservers := v.offsetNameservers, offsetAdditional := v.offsetAdditional,
                           offsetEdns := v.offsetEdns, maybeCompressed := true, cached := none }, none)

/-- `ParsedPacket::empty()` with the random id as a parameter -/
def PP.empty (tid : Nat) : Res PP := do
  let p : Bytes := List.replicate 12 0
  let p ← hSetTid p tid
  let p ← hSetFlags p DNS_FLAG_RD
  let p ← hSetResponse p false
  pure { packet := p, offsetQuestion := none, offsetAnswers := none, offsetNameservers := none,
         offsetAdditional := none, offsetEdns := none, ednsCount := 0, extRcode := none,
         ednsVersion := none, extFlags := none, maybeCompressed := false,
         maxPayload := DNS_MAX_UNCOMPRESSED_SIZE, cached := none }

end Dns
