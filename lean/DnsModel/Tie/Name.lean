/-
  DnsModel.Tie.Name — the two untrusted-name validators as translated from the current source
  (`Generated/TrName.lean`: `Compress::check_compressed_name`, `DNSSector::check_uncompressed_name`)
  are the functions `checkCompressedName` / `checkUncompressedName` of the hand-written model, about
  which C01, C02 and C18 are proved.

  The proofs are written to survive behaviour-preserving rewrites of the Rust text: both sides are
  unfolded one loop iteration, the reads are named, every bind is pushed through the conditionals
  (`bind_ite`), and `grind` decides the resulting trees of arithmetic conditions — so `a ≥ n - b`
  against `b + a ≥ n`, `x as usize` against `usize::from(x)`, renamed locals or reordered independent
  statements do not matter; a changed comparison, limit, mask or update does.
-/
import DnsModel.Name
import DnsModel.Generated.TrName
namespace Dns.Tie
open Dns

theorem sub_ok {a b : Nat} (h : b ≤ a) : sub a b = .ok (a - b) := by simp [sub, h]

theorem idx_lt {p : Bytes} {i b : Nat} (h : idx p i = .ok b) : i < p.length ∧ b < 256 := by
  have := idx_ok_iff.1 h
  exact ⟨byteAt_lt_length this, byteAt_lt this⟩

theorem bind_ite {α β} (c : Prop) [Decidable c] (x y : Res α) (f : α → Res β) :
    ((if c then x else y) >>= f) = if c then (x >>= f) else (y >>= f) := by split <;> rfl

theorem ptr_mod (len : Nat) : ((len &&& 0x3f) <<< 8) % 65536 = (len &&& 0x3f) <<< 8 := by
  apply Nat.mod_eq_of_lt
  have : len &&& 0x3f ≤ 0x3f := Nat.and_le_right
  rw [Nat.shiftLeft_eq]; omega

/-- the closure of `.iter().any(..)` in `check_compressed_name` is the model's `badChar` -/
theorem bad_char_eq (c : Nat) :
    ((((decide (c < 32) || c == 127) || (c == 0x2e)) || (c == 0x5c)) || (c == 0)) = badChar c := by
  unfold badChar; grind

theorem cun_loop_eq (p : Bytes) (fuel off nl : Nat) :
    Tr.Name.check_uncompressed_name_loop p p.length fuel nl off = cunLoop p fuel off nl := by
  induction fuel generalizing off nl with
  | zero => rfl
  | succ n ih =>
    unfold Tr.Name.check_uncompressed_name_loop cunLoop
    cases hi : idx p off with
    | ok len =>
      obtain ⟨hlt, hb⟩ := idx_lt hi
      simp only [sub, isPtr, bind_ite, Res.bind_ok, Res.bind_panic, Res.pure_eq]
      grind
    | err e => simp
    | panic => simp
    | diverge => simp

theorem check_uncompressed_name_eq (p : Bytes) (off : Nat) :
    Tr.Name.check_uncompressed_name p off = checkUncompressedName p off := by
  unfold Tr.Name.check_uncompressed_name checkUncompressedName
  have h := cun_loop_eq p nameFuel off 0
  simp only [sub, nameFuel, bind_ite, Res.bind_ok, Res.bind_panic, Res.pure_eq] at h ⊢
  grind

theorem ccn_loop_eq (p : Bytes) (fuel : Nat) (s : NW) :
    Tr.Name.check_compressed_name_loop p p.length fuel s.refs s.final s.offset s.barrier s.lowest s.nameLen
      = ccnLoop p fuel s := by
  induction fuel generalizing s with
  | zero => rfl
  | succ n ih =>
    unfold Tr.Name.check_compressed_name_loop ccnLoop
    cases hi : idx p s.offset with
    | ok len =>
      obtain ⟨hlt, hb⟩ := idx_lt hi
      simp only [Res.bind_ok, isPtr, ptr_mod]
      by_cases hptr : (len &&& 0xc0 == 0xc0) = true
      · -- a pointer: the second byte, then the byte it designates
        rcases idx_cases p (s.offset + 1) with ⟨lo, hlo, -, hlolt⟩ | hlo
        · rcases idx_cases p ((len &&& 0x3f) <<< 8 ||| lo) with ⟨t, ht, -, htlt⟩ | ht
          · have ih' := ih ⟨(len &&& 0x3f) <<< 8 ||| lo, s.nameLen, s.lowest, (len &&& 0x3f) <<< 8 ||| lo,
              s.final.or (some (s.offset + 2)), s.refs - 1⟩
            simp only [hptr, hlo, ht, sub, bind_ite, Res.bind_ok, Res.bind_panic, Res.pure_eq, if_true]
            grind
          · simp only [hptr, hlo, ht, sub, bind_ite, Res.bind_ok, Res.bind_panic, Res.pure_eq, if_true]
            grind
        · simp only [hptr, hlo, sub, bind_ite, Res.bind_ok, Res.bind_panic, Res.pure_eq, if_true]
          grind
      · -- a label
        have e : s.offset + len + 1 - (s.offset + 1) = len := by omega
        have ih' := ih ⟨s.offset + len + 1, s.nameLen + len + 1, s.barrier, s.lowest, s.final, s.refs⟩
        simp only [hptr, sub, slice, labelHasBadChar, bind_ite, Res.bind_ok, Res.bind_panic, Res.pure_eq, bad_char_eq]
        grind
    | err e => simp
    | panic => simp
    | diverge => simp

theorem check_compressed_name_eq (p : Bytes) (off : Nat) :
    Tr.Name.check_compressed_name p off = checkCompressedName p off := by
  unfold Tr.Name.check_compressed_name checkCompressedName
  have h := ccn_loop_eq p nameFuel ⟨off, 0, p.length, off, none, DNS_MAX_HOSTNAME_INDIRECTIONS⟩
  simp only [sub, nameFuel, bind_ite, Res.bind_ok, Res.bind_panic, Res.pure_eq] at h ⊢
  grind

end Dns.Tie
