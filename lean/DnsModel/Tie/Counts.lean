/-
  DnsModel.Tie.Counts — the record-count bookkeeping of `ParsedPacket` (`rrcount_inc`, `rrcount_dec`,
  `insertion_offset`, with the `DNSSector::set_*count` writers they call), as translated from the current source
  (`Generated/TrCounts.lean`), computes what the model functions of Mutate.lean compute — the functions every
  insert/delete theorem of C08–C11 goes through.
-/
import DnsModel.Mutate
import DnsModel.Generated.TrCounts
import DnsModel.Tie.Header
namespace Dns.Tie
open Dns

theorem dec_core (p : Bytes) (k : Nat) (F : Bytes → PP) (hF : ∀ q, (F q).packet = q) :
    (be16 p k >>= fun r => if r = 0 then Res.panic else
        sub r 1 >>= fun d => writeAt p k (put16 d) >>= fun q => Res.ok (d, q))
    = ((be16 p k >>= fun n => if n = 0 then Res.panic else
        writeAt p k (put16 (n - 1)) >>= fun q => Res.ok (F q, n - 1)) >>= fun r => Res.ok (r.2, r.1.packet)) := by
  cases be16 p k <;> simp
  rename_i r
  by_cases h : r = 0
  · simp [h]
  · have : sub r 1 = .ok (r - 1) := by simp [sub]; omega
    simp only [h, if_false, this, Res.bind_ok]
    cases writeAt p k (put16 (r - 1)) <;> simp [hF]

theorem rrcount_dec_eq (pp : PP) (s : Section) :
    Tr.Counts.rrcount_dec pp.packet s = (rrcountDec pp s >>= fun r => Res.ok (r.2, r.1.packet)) := by
  cases s <;>
    simp [Tr.Counts.rrcount_dec, rrcountDec, sectionCount, sectionCountOffset, Tr.Counts.qdcount, Tr.Counts.ancount,
      Tr.Counts.nscount, Tr.Counts.arcount, Tr.Counts.set_qdcount, Tr.Counts.set_ancount, Tr.Counts.set_nscount,
      Tr.Counts.set_arcount, qdcount, ancount, nscount, arcount, res_bind_pure]
  · simpa using dec_core pp.packet 4 (fun q => { pp with packet := q }) (fun _ => rfl)
  · simpa using dec_core pp.packet 6 (fun q => { pp with packet := q }) (fun _ => rfl)
  · simpa using dec_core pp.packet 8 (fun q => { pp with packet := q }) (fun _ => rfl)
  · simpa using dec_core pp.packet 10 (fun q => { pp with packet := q }) (fun _ => rfl)

/-- `rrcount_inc`: the model returns the error as a value together with the untouched object -/
def incResult (r : PP × Option Err) : Res Bytes :=
  match r.2 with | none => .ok r.1.packet | some e => .err e

theorem inc_core (p : Bytes) (k : Nat) (isQ : Bool) (F : Bytes → PP) (pp : PP) (hF : ∀ q, (F q).packet = q) :
    ((be16 p k >>= fun r => if (isQ = true ∧ 1 ≤ r) then Res.err .invalidPacket else
        if 65535 ≤ r then Res.err .invalidPacket else
          Tr.checked 65536 (r + 1) >>= fun a => writeAt p k (put16 a) >>= fun q => Res.ok (a, q)) >>= fun r => Res.ok r.2)
    = ((be16 p k >>= fun n => if (isQ = true ∧ 1 ≤ n) then Res.ok (pp, some Err.invalidPacket) else
        if 65535 ≤ n then Res.ok (pp, some Err.invalidPacket) else
          writeAt p k (put16 (n + 1)) >>= fun q => Res.ok (F q, none)) >>= incResult) := by
  cases be16 p k <;> simp
  rename_i r
  by_cases h1 : isQ = true ∧ 1 ≤ r
  · simp [h1, incResult]
  · simp only [h1, if_false]
    by_cases h2 : 65535 ≤ r
    · simp [h2, incResult]
    · have : Tr.checked 65536 (r + 1) = .ok (r + 1) := by simp [Tr.checked]; omega
      simp only [h2, if_false, this, Res.bind_ok]
      cases writeAt p k (put16 (r + 1)) <;> simp [incResult, hF]

theorem rrcount_inc_eq (pp : PP) (s : Section) :
    (Tr.Counts.rrcount_inc pp.packet s >>= fun r => Res.ok r.2) = (rrcountInc pp s >>= incResult) := by
  cases s <;>
    simp [Tr.Counts.rrcount_inc, rrcountInc, sectionCount, sectionCountOffset, Tr.Counts.qdcount, Tr.Counts.ancount,
      Tr.Counts.nscount, Tr.Counts.arcount, Tr.Counts.set_qdcount, Tr.Counts.set_ancount, Tr.Counts.set_nscount,
      Tr.Counts.set_arcount, qdcount, ancount, nscount, arcount, res_bind_pure]
  · simpa using inc_core pp.packet 4 true (fun q => { pp with packet := q }) pp (fun _ => rfl)
  · simpa using inc_core pp.packet 6 false (fun q => { pp with packet := q }) pp (fun _ => rfl)
  · simpa using inc_core pp.packet 8 false (fun q => { pp with packet := q }) pp (fun _ => rfl)
  · simpa using inc_core pp.packet 10 false (fun q => { pp with packet := q }) pp (fun _ => rfl)

theorem insertion_offset_eq (pp : PP) (s : Section) :
    Tr.Counts.insertion_offset pp.packet pp.offsetAnswers pp.offsetNameservers pp.offsetAdditional s
      = insertionOffset pp s := by
  cases s <;> cases h1 : pp.offsetAnswers <;> cases h2 : pp.offsetNameservers <;> cases h3 : pp.offsetAdditional <;>
    simp [Tr.Counts.insertion_offset, insertionOffset, h1, h2, h3]

end Dns.Tie
