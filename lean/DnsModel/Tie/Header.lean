/-
  DnsModel.Tie.Header — the header getters and setters of `parsed_packet.rs`, as translated from the
  current source by rs2lean.py (`Generated/TrHeader.lean`), are the functions of the hand-written model
  (`Packet.lean`) about which C04 and C12 are proved.  A change of the Rust source changes the
  translation; these equalities then stop checking.
-/
import DnsModel.Packet
import DnsModel.Generated.TrHeader
namespace Dns.Tie
open Dns

theorem res_bind_pure {α} (x : Res α) : (x >>= fun a => Res.ok a) = x := by cases x <;> rfl

theorem shl16_mod (e : Nat) (h : e < 65536) : e <<< 16 % 4294967296 = e <<< 16 := by
  rw [Nat.shiftLeft_eq]; omega

theorem tid_eq (p : Bytes) : Tr.Header.tid p = hTid p := by
  simp [Tr.Header.tid, hTid, res_bind_pure]

theorem set_tid_eq (p : Bytes) (tid : Nat) : Tr.Header.set_tid p tid = hSetTid p tid := by
  simp [Tr.Header.set_tid, hSetTid, res_bind_pure]

/-- `ext_flags` is an `Option<u16>` in Rust: the model's `Nat` is below 65536 -/
def ExtOK (ext : Option Nat) : Prop := ∀ e, ext = some e → e < 65536

theorem flags_eq (p : Bytes) (ext : Option Nat) (hext : ExtOK ext) :
    Tr.Header.flags p ext = hFlags p ext := by
  unfold Tr.Header.flags hFlags
  have hm : ext.getD 0 <<< 16 % 4294967296 = ext.getD 0 <<< 16 := by
    apply shl16_mod
    cases ext with
    | none => simp
    | some e => simpa using hext e rfl
  cases h : be16 p DNS_FLAGS_OFFSET <;> simp [hm]

theorem and_ffff_mod (x : Nat) : (x &&& 0xffff) % 65536 = x &&& 0xffff := by
  apply Nat.mod_eq_of_lt
  have : x &&& 0xffff ≤ 0xffff := Nat.and_le_right
  omega

theorem set_flags_eq (p : Bytes) (flags : Nat) : Tr.Header.set_flags p flags = hSetFlags p flags := by
  unfold Tr.Header.set_flags hSetFlags
  simp only [and_ffff_mod]
  cases h : be16 p DNS_FLAGS_OFFSET <;> simp [res_bind_pure]

theorem is_response_eq (p : Bytes) (ext : Option Nat) (hext : ExtOK ext) :
    Tr.Header.is_response p ext = hIsResponse p ext := by
  unfold Tr.Header.is_response hIsResponse
  rw [flags_eq p ext hext]
  cases hFlags p ext <;> simp

theorem dnssec_eq (p : Bytes) (ext : Option Nat) (hext : ExtOK ext) :
    Tr.Header.dnssec p ext = hDnssec p ext := by
  unfold Tr.Header.dnssec hDnssec
  rw [flags_eq p ext hext]
  cases hFlags p ext <;> simp

theorem set_response_eq (p : Bytes) (r : Bool) : Tr.Header.set_response p r = hSetResponse p r := by
  unfold Tr.Header.set_response hSetResponse
  cases h : be16 p DNS_FLAGS_OFFSET <;> simp [res_bind_pure]
  cases r <;> simp [DNS_FLAG_QR]

theorem rcode_eq (p : Bytes) : Tr.Header.rcode p = hRcode p := by
  unfold Tr.Header.rcode hRcode
  cases h : idx p (DNS_FLAGS_OFFSET + 1) <;> simp

theorem opcode_eq (p : Bytes) : Tr.Header.opcode p = hOpcode p := by
  unfold Tr.Header.opcode hOpcode
  cases h : idx p DNS_FLAGS_OFFSET <;> simp


/-! the byte setters: Rust writes the byte twice through `*p &= ..; *p |= ..` -/

theorem idx_after_write (p : Bytes) (i : Nat) (x : UInt8) (h : i < p.length) :
    ∃ p', writeAt p i [x] = .ok p' ∧ idx p' i = .ok x.toNat ∧ p'.length = p.length ∧
      ∀ y, writeAt p' i [y] = writeAt p i [y] := by
  have hlen : (p.take i).length = i := by simp [List.length_take]; omega
  refine ⟨p.take i ++ x :: p.drop (i + 1), ?_, ?_, ?_, ?_⟩
  · simp [writeAt]; omega
  · have : (p.take i ++ x :: p.drop (i + 1))[i]? = some x := by
      rw [List.getElem?_append_right (by omega)]
      simp [hlen]
    simp only [idx, byteAt, this]; rfl
  · simp [List.length_take, List.length_drop]; omega
  · intro y
    have hl : (p.take i ++ x :: p.drop (i + 1)).length = p.length := by
      simp [List.length_take, List.length_drop]; omega
    have ht : (p.take i ++ x :: p.drop (i + 1)).take i = p.take i := by
      rw [List.take_append_of_le_length (by omega)]
      simp [List.take_take]
    have hd : (p.take i ++ x :: p.drop (i + 1)).drop (i + 1) = p.drop (i + 1) := by
      rw [List.drop_append]
      simp [hlen, List.drop_eq_nil_of_le]
    simp only [writeAt, hl, ht, hd, List.length_singleton]

theorem write_panics (p : Bytes) (i : Nat) (x : UInt8) (h : ¬ i < p.length) : writeAt p i [x] = .panic := by
  simp [writeAt]; omega

theorem idx_panics (p : Bytes) (i : Nat) (h : ¬ i < p.length) : idx p i = .panic := by
  have : byteAt p i = none := by
    unfold byteAt; simp [List.getElem?_eq_none (Nat.le_of_not_lt h)]
  simp [idx, this]

theorem rmw_twice (p : Bytes) (i : Nat) (f g : Nat → Nat) (hf : ∀ b, b < 256 → f b < 256) :
    (idx p i >>= fun b1 => writeAt p i [UInt8.ofNat (f b1)] >>= fun p1 =>
      idx p1 i >>= fun b2 => writeAt p1 i [UInt8.ofNat (g b2)] >>= fun p2 => Res.ok p2)
    = (idx p i >>= fun b => writeAt p i [UInt8.ofNat (g (f b))]) := by
  by_cases h : i < p.length
  · obtain ⟨b, hb, hlt⟩ := idx_ok_of_lt h
    obtain ⟨p', hw, hi, _, hy⟩ := idx_after_write p i (UInt8.ofNat (f b)) h
    have hto : (UInt8.ofNat (f b)).toNat = f b := by
      simp [UInt8.toNat_ofNat']; exact hf b hlt
    simp [hb, hw, hi, hto, hy, res_bind_pure]
  · simp [idx_panics p i h]

theorem set_rcode_eq (p : Bytes) (rcode : Nat) : Tr.Header.set_rcode p rcode = hSetRcode p rcode := by
  unfold Tr.Header.set_rcode hSetRcode
  have := rmw_twice p (DNS_FLAGS_OFFSET + 1) (fun b => b &&& 0xf0) (fun b => b ||| (rcode &&& 0xf))
    (fun b hb => Nat.lt_of_le_of_lt Nat.and_le_left hb)
  simpa using this

theorem set_opcode_eq (p : Bytes) (opcode : Nat) : Tr.Header.set_opcode p opcode = hSetOpcode p opcode := by
  unfold Tr.Header.set_opcode hSetOpcode
  have := rmw_twice p DNS_FLAGS_OFFSET (fun b => b &&& 0x87) (fun b => b ||| (((opcode <<< 3) % 256) &&& 0x78))
    (fun b hb => Nat.lt_of_le_of_lt Nat.and_le_left hb)
  simpa using this

end Dns.Tie
