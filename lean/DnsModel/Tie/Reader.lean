/-
  DnsModel.Tie.Reader — the trusted name readers of compress.rs (`raw_name_len`,
  `raw_name_len_after_decompression`, `copy_uncompressed_name`) and the case-insensitive comparison of the
  suffix dictionary (`SuffixDict::raw_names_eq_ignore_case`), as translated from the current source
  (`Generated/TrReader.lean`), are the functions of the hand-written model (Iter.lean, Compress.lean) that
  C03, C05, C06 and C07 are proved about.
-/
import DnsModel.Compress
import DnsModel.Generated.TrReader
import DnsModel.Tie.Name
namespace Dns.Tie
open Dns

theorem raw_name_len_loop_eq (name : Bytes) (fuel i : Nat) :
    Tr.Reader.raw_name_len_loop name fuel i = rawNameLenLoop name fuel i := by
  induction fuel generalizing i with
  | zero => rfl
  | succ n ih =>
    unfold Tr.Reader.raw_name_len_loop rawNameLenLoop
    cases hi : idx name i with
    | ok b =>
      simp only [Res.bind_ok, isPtr, Res.pure_eq]
      have := ih (i + b + 1)
      grind
    | err e => simp
    | panic => simp
    | diverge => simp

theorem raw_name_len_eq (name : Bytes) : Tr.Reader.raw_name_len name = rawNameLen name := by
  simp [Tr.Reader.raw_name_len, rawNameLen, raw_name_len_loop_eq]

theorem raw_name_len_after_loop_eq (p : Bytes) (fuel off nl : Nat) :
    Tr.Reader.raw_name_len_after_decompression_loop p fuel off nl = rawNameLenAfterLoop p fuel off nl := by
  induction fuel generalizing off nl with
  | zero => rfl
  | succ n ih =>
    unfold Tr.Reader.raw_name_len_after_decompression_loop rawNameLenAfterLoop
    cases hi : idx p off with
    | ok b =>
      simp only [Res.bind_ok, isPtr, Res.pure_eq]
      by_cases hp : (b &&& 0xc0 == 0xc0) = true
      · simp only [hp, if_true]
        cases hw : be16 p off with
        | ok w =>
          simp only [Res.bind_ok, assert, bind_ite, Res.bind_panic]
          have := ih (w &&& 0x3fff) nl
          grind
        | err e => simp
        | panic => simp
        | diverge => simp
      · have := ih (off + 1 + b) (nl + 1 + b)
        simp only [hp]
        grind
    | err e => simp
    | panic => simp
    | diverge => simp

theorem raw_name_len_after_decompression_eq (p : Bytes) (off : Nat) :
    Tr.Reader.raw_name_len_after_decompression p off = rawNameLenAfterDecompression p off := by
  simp [Tr.Reader.raw_name_len_after_decompression, rawNameLenAfterDecompression, raw_name_len_after_loop_eq, nameFuel]

theorem slice_length {p s : Bytes} {a b : Nat} (h : slice p a b = .ok s) : s.length = b - a := by
  unfold slice at h
  split at h
  · simp at h; subst h; simp [List.length_take, List.length_drop]; omega
  · simp at h

/-- the source appends to the caller's vector and counts; the model returns the appended bytes -/
theorem copy_uncompressed_name_loop_eq (p : Bytes) (fuel : Nat) (pre acc : Bytes) (off : Nat) (fin : Option Nat) :
    Tr.Reader.copy_uncompressed_name_loop p fuel fin off (pre ++ acc) acc.length
      = (copyUncompressedNameLoop p fuel off acc fin >>= fun r => Res.ok ((r.1.length, r.2), pre ++ r.1)) := by
  induction fuel generalizing acc off fin with
  | zero => rfl
  | succ n ih =>
    unfold Tr.Reader.copy_uncompressed_name_loop copyUncompressedNameLoop
    cases hi : idx p off with
    | ok b =>
      simp only [Res.bind_ok, isPtr, Res.pure_eq]
      by_cases hp : (b &&& 0xc0 == 0xc0) = true
      · simp only [hp, if_true]
        cases hw : be16 p off with
        | ok w =>
          simp only [Res.bind_ok, assert, bind_ite, Res.bind_panic]
          have := ih acc (w &&& 0x3fff) (fin.or (some (off + 2)))
          grind
        | err e => simp
        | panic => simp
        | diverge => simp
      · simp only [hp, Bool.false_eq_true, if_false]
        have e1 : off + (1 + b) = off + 1 + b := by omega
        rw [e1]
        cases hs : slice p off (off + 1 + b) with
        | ok lab =>
          have hl := slice_length hs
          have hlen : (acc ++ lab).length = acc.length + (1 + b) := by simp [hl]; omega
          have := ih (acc ++ lab) (off + 1 + b) fin
          rw [hlen, ← List.append_assoc] at this
          simp only [Res.bind_ok]
          by_cases hb : b = 0
          · subst hb; simp [hl]
          · simp only [hb, beq_iff_eq, if_false]
            simpa using this
        | err e => simp
        | panic => simp
        | diverge => simp
    | err e => simp
    | panic => simp
    | diverge => simp

theorem copy_uncompressed_name_eq (p : Bytes) (pre : Bytes) (off : Nat) :
    Tr.Reader.copy_uncompressed_name pre p off
      = (copyUncompressedName p off >>= fun r => Res.ok ((r.1.length, r.2), pre ++ r.1)) := by
  have := copy_uncompressed_name_loop_eq p nameFuel pre [] off none
  simpa [Tr.Reader.copy_uncompressed_name, copyUncompressedName, nameFuel] using this

/-! the dictionary's comparison -/

theorem toLowerB_toNat (c : UInt8) : (toLowerB c).toNat = Tr.asciiLower c.toNat := by
  unfold toLowerB Tr.asciiLower
  split
  · rename_i h
    have : c.toNat + 32 < 256 := by omega
    simp [Nat.mod_eq_of_lt this]
  · rfl

theorem u8_beq (x y : UInt8) : (x == y) = (x.toNat == y.toNat) := by
  by_cases h : x = y
  · subst h; simp
  · have h2 : x.toNat ≠ y.toNat := fun e => h (UInt8.toNat_inj.1 e)
    have a : (x == y) = false := by simpa using h
    have b : (x.toNat == y.toNat) = false := by simpa using h2
    rw [a, b]

theorem eqIgnoreCase_eq (a b : UInt8) :
    eqIgnoreCase a b = (Tr.asciiLower a.toNat == Tr.asciiLower b.toNat) := by
  unfold eqIgnoreCase
  rw [u8_beq, toLowerB_toNat, toLowerB_toNat]

theorem raw_names_eq_loop_eq (l1 l2 : Bytes) (n : Nat) :
    Tr.Reader.raw_names_eq_ignore_case_zip1 l1 l2 n = .ok (rawNamesEqLoop l1 l2 n) := by
  induction l1 generalizing l2 n with
  | nil => cases l2 <;> simp [Tr.Reader.raw_names_eq_ignore_case_zip1, rawNamesEqLoop]
  | cons c1 r1 ih =>
    cases l2 with
    | nil => simp [Tr.Reader.raw_names_eq_ignore_case_zip1, rawNamesEqLoop]
    | cons c2 r2 =>
      unfold Tr.Reader.raw_names_eq_ignore_case_zip1 rawNamesEqLoop
      have h0 : (c1 == 0) = (c1.toNat == 0) := u8_beq c1 0
      simp only [eqIgnoreCase_eq, h0, sub, bind_ite, Res.bind_ok, Res.bind_panic]
      have i1 := ih r2 c1.toNat
      have i2 := ih r2 (n - 1)
      grind

theorem raw_names_eq_ignore_case_eq (n1 n2 : Bytes) :
    Tr.Reader.raw_names_eq_ignore_case n1 n2 = .ok (rawNamesEqIgnoreCase n1 n2) := by
  simp [Tr.Reader.raw_names_eq_ignore_case, rawNamesEqIgnoreCase, raw_names_eq_loop_eq]

/-! `raw_name_to_str` (the lowercase-free text form the `name()` accessors are built on) -/

theorem each_eq2 (l res : Bytes) : Tr.Reader.raw_name_to_str_each2 l res = .ok (res ++ escapeLabel l) := by
  induction l generalizing res with
  | nil => simp [Tr.Reader.raw_name_to_str_each2, escapeLabel]
  | cons c r ih =>
    unfold Tr.Reader.raw_name_to_str_each2
    have hc : (c.toNat == 0x2e) = (c == 46) := (u8_beq c 46).symm
    simp only [hc, UInt8.ofNat_toNat]
    by_cases h : (c == 46) = true
    · have h' : c = 46 := by simpa using h
      simp only [h, if_true, ih]
      simp [escapeLabel, List.flatMap_cons, h']
    · have h' : ¬ c = 46 := by simpa using h
      simp only [h, Bool.false_eq_true, if_false, ih]
      simp [escapeLabel, List.flatMap_cons, h']

theorem each_eq3 (l res : Bytes) : Tr.Reader.raw_name_to_str_each3 l res = .ok (res ++ escapeLabel l) := by
  induction l generalizing res with
  | nil => simp [Tr.Reader.raw_name_to_str_each3, escapeLabel]
  | cons c r ih =>
    unfold Tr.Reader.raw_name_to_str_each3
    have hc : (c.toNat == 0x2e) = (c == 46) := (u8_beq c 46).symm
    simp only [hc, UInt8.ofNat_toNat]
    by_cases h : (c == 46) = true
    · have h' : c = 46 := by simpa using h
      simp only [h, if_true, ih]
      simp [escapeLabel, List.flatMap_cons, h']
    · have h' : ¬ c = 46 := by simpa using h
      simp only [h, Bool.false_eq_true, if_false, ih]
      simp [escapeLabel, List.flatMap_cons, h']

theorem raw_name_to_str_loop_eq (p : Bytes) (fuel off ind : Nat) (res : Bytes) :
    Tr.Reader.raw_name_to_str_loop p fuel ind off res = rawNameToStrLoop p fuel off ind res := by
  induction fuel generalizing off ind res with
  | zero => rfl
  | succ n ih =>
    unfold Tr.Reader.raw_name_to_str_loop rawNameToStrLoop
    cases hi : idx p off with
    | ok b =>
      simp only [Res.bind_ok, isPtr, Res.pure_eq]
      by_cases h0 : b = 0
      · subst h0; rfl
      · have h0' : (b == 0) = false := by simpa using h0
        simp only [h0', Bool.false_eq_true, if_false]
        by_cases hp : (b &&& 0xc0 == 0xc0) = true
        · simp only [hp, if_true]
          cases hw : be16 p off with
          | ok w =>
            simp only [Res.bind_ok]
            have := ih (w &&& 0x3fff) (ind + 1) res
            grind
          | err e => simp
          | panic => simp
          | diverge => simp
        · simp only [hp, Bool.false_eq_true, if_false]
          have e1 : off + 1 + b = off + 1 + b := rfl
          cases hs : slice p (off + 1) (off + 1 + b) with
          | ok lab =>
            simp only [Res.bind_ok, each_eq2, each_eq3]
            by_cases he : res.isEmpty = true
            · have := ih (off + 1 + b) ind (res ++ escapeLabel lab)
              simp [he, this]
            · have := ih (off + 1 + b) ind (res ++ 46 :: escapeLabel lab)
              simp [he, this]
          | err e => simp
          | panic => simp
          | diverge => simp
    | err e => simp
    | panic => simp
    | diverge => simp

theorem raw_name_to_str_eq (p : Bytes) (off : Nat) : Tr.Reader.raw_name_to_str p off = rawNameToStr p off := by
  simp [Tr.Reader.raw_name_to_str, rawNameToStr, raw_name_to_str_loop_eq, nameFuel]

/-- all four equalities at once (restated in the theorem modules of C03, C05, C06, C07) -/
theorem reader_tie (p pre n1 n2 : Bytes) (off : Nat) :
    Tr.Reader.raw_name_len p = rawNameLen p ∧
    Tr.Reader.raw_name_len_after_decompression p off = rawNameLenAfterDecompression p off ∧
    Tr.Reader.copy_uncompressed_name pre p off
      = (copyUncompressedName p off >>= fun r => Res.ok ((r.1.length, r.2), pre ++ r.1)) ∧
    Tr.Reader.raw_names_eq_ignore_case n1 n2 = .ok (rawNamesEqIgnoreCase n1 n2) :=
  ⟨raw_name_len_eq p, raw_name_len_after_decompression_eq p off, copy_uncompressed_name_eq p pre off,
   raw_names_eq_ignore_case_eq n1 n2⟩

end Dns.Tie
