/-
  DnsModel.Tie.Sector — the cursor primitives and field loaders of `DNSSector` (dns_sector.rs), as
  translated from the current source (`Generated/TrSector.lean`), are the functions of the hand-written
  model (`Sector.lean`).  The translation passes the fields a method reads as parameters and returns the
  fields it writes; the model keeps them in the record `Sector`.
-/
import DnsModel.Sector
import DnsModel.Generated.TrSector
import DnsModel.Tie.Header
namespace Dns.Tie
open Dns Dns.Sector

theorem s_qdcount_eq (p : Bytes) : Tr.Sector.qdcount p = be16 p 4 := by simp [Tr.Sector.qdcount, res_bind_pure]
theorem s_ancount_eq (p : Bytes) : Tr.Sector.ancount p = be16 p 6 := by simp [Tr.Sector.ancount, res_bind_pure]
theorem s_nscount_eq (p : Bytes) : Tr.Sector.nscount p = be16 p 8 := by simp [Tr.Sector.nscount, res_bind_pure]
theorem s_arcount_eq (p : Bytes) : Tr.Sector.arcount p = be16 p 10 := by simp [Tr.Sector.arcount, res_bind_pure]

/-- `parse()` computes `is_response` as `flags &&& DNS_FLAG_QR == DNS_FLAG_QR` on the 16-bit word -/
theorem s_is_response_eq (p : Bytes) :
    Tr.Sector.is_response p = (be16 p DNS_FLAGS_OFFSET >>= fun f => Res.ok (f &&& DNS_FLAG_QR == DNS_FLAG_QR)) := by
  simp [Tr.Sector.is_response, DNS_FLAG_QR]

theorem remaining_len_eq (p : Bytes) (s : Sector) : Tr.Sector.remaining_len p s.offset = remainingLen p s := by
  simp [Tr.Sector.remaining_len, remainingLen, res_bind_pure]

theorem ensure_remaining_len_eq (p : Bytes) (s : Sector) (len : Nat) :
    Tr.Sector.ensure_remaining_len p s.offset len = ensureRemainingLen p s len := by
  unfold Tr.Sector.ensure_remaining_len ensureRemainingLen
  rw [remaining_len_eq]
  cases remainingLen p s <;> simp [failIf]

theorem set_offset_eq (p : Bytes) (s : Sector) (o : Nat) :
    Tr.Sector.set_offset p s.offset o = (setOffset p s o >>= fun r => Res.ok (r.2, r.1.offset)) := by
  unfold Tr.Sector.set_offset setOffset
  by_cases h : o ≥ p.length <;> simp [h]

theorem set_offset_frame (p : Bytes) (s s' : Sector) (o old : Nat) (h : setOffset p s o = .ok (s', old)) :
    s' = { s with offset := s'.offset } := by
  unfold setOffset at h
  split at h <;> simp at h
  obtain ⟨h1, _⟩ := h
  subst h1; rfl

theorem increment_offset_eq (p : Bytes) (s : Sector) (n : Nat) :
    Tr.Sector.increment_offset p s.offset n = (incrementOffset p s n >>= fun r => Res.ok (r.2, r.1.offset)) := by
  unfold Tr.Sector.increment_offset incrementOffset
  rw [ensure_remaining_len_eq]
  cases ensureRemainingLen p s n <;> simp

theorem u8_load_eq (p : Bytes) (s : Sector) (r : Nat) : Tr.Sector.u8_load p s.offset r = u8Load p s r := by
  unfold Tr.Sector.u8_load u8Load
  rw [ensure_remaining_len_eq]
  cases ensureRemainingLen p s (r + 1) <;> simp [res_bind_pure]

theorem be16_load_eq (p : Bytes) (s : Sector) (r : Nat) : Tr.Sector.be16_load p s.offset r = be16Load p s r := by
  unfold Tr.Sector.be16_load be16Load
  rw [ensure_remaining_len_eq]
  cases ensureRemainingLen p s (r + 2) <;> simp [res_bind_pure]

theorem rr_type_eq (p : Bytes) (s : Sector) : Tr.Sector.rr_type p s.offset = rrType p s := by
  simp [Tr.Sector.rr_type, rrType, be16_load_eq, res_bind_pure]

theorem rr_class_eq (p : Bytes) (s : Sector) : Tr.Sector.rr_class p s.offset = rrClass p s := by
  simp [Tr.Sector.rr_class, rrClass, be16_load_eq, res_bind_pure]

theorem rr_rdlen_eq (p : Bytes) (s : Sector) : Tr.Sector.rr_rdlen p s.offset = rrRdlen p s := by
  simp [Tr.Sector.rr_rdlen, rrRdlen, be16_load_eq, res_bind_pure]

theorem edns_remaining_len_eq (s : Sector) : Tr.Sector.edns_remaining_len s.offset s.ednsEnd = ednsRemainingLen s := by
  unfold Tr.Sector.edns_remaining_len ednsRemainingLen
  cases s.ednsEnd <;> simp [res_bind_pure]

theorem edns_ensure_remaining_len_eq (s : Sector) (len : Nat) :
    Tr.Sector.edns_ensure_remaining_len s.offset s.ednsEnd len = ednsEnsureRemainingLen s len := by
  unfold Tr.Sector.edns_ensure_remaining_len ednsEnsureRemainingLen
  rw [edns_remaining_len_eq]
  cases ednsRemainingLen s <;> simp [failIf]

theorem edns_increment_offset_eq (s : Sector) (n : Nat) :
    Tr.Sector.edns_increment_offset s.offset s.ednsEnd n
      = (ednsIncrementOffset s n >>= fun s' => Res.ok (s.offset, s'.offset)) := by
  unfold Tr.Sector.edns_increment_offset ednsIncrementOffset
  rw [edns_ensure_remaining_len_eq]
  cases ednsEnsureRemainingLen s n <;> simp

theorem shl8_or (hi lo : Nat) (h1 : hi < 256) (h2 : lo < 256) : ((hi <<< 8) % 65536) ||| lo = hi * 256 + lo := by
  have e : hi <<< 8 = hi * 2 ^ 8 := Nat.shiftLeft_eq hi 8
  have hm : hi <<< 8 % 65536 = hi * 2 ^ 8 := by rw [e]; omega
  rw [hm, Nat.mul_comm, ← Nat.two_pow_add_eq_or_of_lt (by simpa using h2)]

theorem edns_be16_load_eq (p : Bytes) (s : Sector) (r : Nat) :
    Tr.Sector.edns_be16_load p s.offset s.ednsEnd r = ednsBe16Load p s r := by
  unfold Tr.Sector.edns_be16_load ednsBe16Load
  rw [edns_ensure_remaining_len_eq]
  cases ednsEnsureRemainingLen s (r + 2) <;> simp
  cases h1 : idx p (s.offset + r) <;> simp
  rename_i hi
  cases h2 : idx p (s.offset + r + 1) <;> simp
  rename_i lo
  exact shl8_or hi lo (byteAt_lt (idx_ok_iff.1 h1)) (byteAt_lt (idx_ok_iff.1 h2))

theorem edns_rr_rdlen_eq (p : Bytes) (s : Sector) :
    Tr.Sector.edns_rr_rdlen p s.offset s.ednsEnd = ednsRrRdlen p s := by
  simp [Tr.Sector.edns_rr_rdlen, ednsRrRdlen, edns_be16_load_eq, res_bind_pure]

end Dns.Tie
