/-
  DnsModel.Tie.Insert — `ParsedPacket::insert_rr` (parsed_packet.rs), the function most seeded changes of C08–C10 touched, as
  translated from the current source (`Generated/TrCounts.lean`), computes what the model function `insertRR` (Mutate.lean)
  computes: on an object that needs no decompression (`insert_rr_plain`) and through decompression (`insert_rr_compressed`).

  The source moves bytes with `Vec::resize`, `copy_within` and `copy_from_slice` (TrSupport.lean gives each its meaning, with
  its panics); `splice_eq` shows that the three together are the model's `take io ++ rr ++ drop io`.  `ParsedPacket::recompute` is translated too (it
  calls the translated `DNSSector::new` and `parse`: `recompute_eq`); `Compress::uncompress` is *not*: the translated code calls the
  model's `uncompress`, which stays tied by correspondence.  Hypothesis `OffOK`: the section starts lie inside the packet — with a start beyond the end the source appends
  where the model panics; no consistent object is in that state.
-/
import DnsModel.Tie.Counts
import DnsModel.Tie.Parse
namespace Dns.Tie
open Dns

/-- resize, move the tail, copy the record in = splice -/
theorem splice_eq (p rr : Bytes) (io : Nat) (h : io ≤ p.length) :
    (Tr.copyWithin (Tr.vecResize p (p.length + rr.length) 0) io p.length (io + rr.length) >>= fun q =>
      Tr.copyFromSlice q io (io + rr.length) rr) = .ok (p.take io ++ rr ++ p.drop io) := by
  generalize hz : List.replicate rr.length (UInt8.ofNat 0) = z
  have hzl : z.length = rr.length := by rw [← hz]; simp
  have hr : Tr.vecResize p (p.length + rr.length) 0 = p ++ z := by
    unfold Tr.vecResize
    by_cases h0 : rr.length = 0
    · have : z = [] := by rw [← hz, h0]; rfl
      simp [h0, this]
    · have : ¬ p.length + rr.length ≤ p.length := by omega
      simp only [this, if_false, Nat.add_sub_cancel_left, hz]
  rw [hr]
  have hvl : (p ++ z).length = p.length + rr.length := by simp [hzl]
  -- the three pieces of copy_within
  have h1 : ((p ++ z).drop io).take (p.length - io) = p.drop io := by
    rw [List.drop_append_of_le_length h]
    rw [List.take_append_of_le_length (by simp)]
    exact List.take_of_length_le (by simp)
  have h2 : (p ++ z).drop (io + rr.length + (p.length - io)) = [] := by
    apply List.drop_eq_nil_of_le; rw [hvl]; omega
  have hcw : Tr.copyWithin (p ++ z) io p.length (io + rr.length) = .ok ((p ++ z).take (io + rr.length) ++ p.drop io) := by
    unfold Tr.copyWithin
    have hc : io ≤ p.length ∧ p.length ≤ (p ++ z).length ∧ io + rr.length + (p.length - io) ≤ (p ++ z).length := by
      rw [hvl]; omega
    simp only [hc, and_self, if_true, h1, h2, List.append_nil]
  rw [hcw]
  simp only [Res.bind_ok]
  have hql : ((p ++ z).take (io + rr.length) ++ p.drop io).length = p.length + rr.length := by
    simp [List.length_take, hvl]; omega
  have htl : ((p ++ z).take (io + rr.length)).length = io + rr.length := by
    simp [List.length_take, hvl]; omega
  have h3 : ((p ++ z).take (io + rr.length) ++ p.drop io).take io = p.take io := by
    rw [List.take_append_of_le_length (by omega), List.take_take]
    rw [Nat.min_eq_left (by omega), List.take_append_of_le_length h]
  have h4 : ((p ++ z).take (io + rr.length) ++ p.drop io).drop (io + rr.length) = p.drop io := by
    generalize hT : (p ++ z).take (io + rr.length) = T at htl ⊢
    rw [← htl, List.drop_left]
  unfold Tr.copyFromSlice
  have hc2 : io ≤ io + rr.length ∧ io + rr.length ≤ ((p ++ z).take (io + rr.length) ++ p.drop io).length ∧
      rr.length = io + rr.length - io := by
    rw [hql]; omega
  rw [if_pos hc2, h3, h4]

/-- the fields of `ParsedPacket` that `insert_rr` returns -/
def ppTup (pp : PP) := (pp.packet, pp.offsetQuestion, pp.offsetAnswers, pp.offsetNameservers, pp.offsetAdditional,
  pp.offsetEdns, pp.maybeCompressed, pp.cached)

/-- the model returns a refusal as a value next to the untouched object; the source as an error -/
def insFinish (r : PP × Option Err) : Res (Bytes × Option Nat × Option Nat × Option Nat × Option Nat × Option Nat × Bool ×
    Option (Bytes × Nat × Nat)) :=
  match r.2 with | some e => Res.err e | none => Res.ok (ppTup r.1)

/-- section starts lie inside the packet (true of every object the theorems of C08 call consistent) -/
def OffOK (pp : PP) : Prop :=
  (∀ o, pp.offsetAnswers = some o → o ≤ pp.packet.length) ∧ (∀ o, pp.offsetNameservers = some o → o ≤ pp.packet.length) ∧
  (∀ o, pp.offsetAdditional = some o → o ≤ pp.packet.length)

theorem writeAt_length {p q v : Bytes} {i : Nat} (h : writeAt p i v = .ok q) : q.length = p.length := by
  unfold writeAt at h
  split at h
  · simp at h; subst h; simp [List.length_take, List.length_drop]; omega
  · simp at h

theorem rrcountInc_ok {pp pp1 : PP} {s : Section} (h : rrcountInc pp s = .ok (pp1, none)) :
    pp1 = { pp with packet := pp1.packet } ∧ pp1.packet.length = pp.packet.length := by
  unfold rrcountInc at h
  cases hn : sectionCount pp.packet s <;> simp [hn] at h
  rename_i n
  split at h
  · simp at h
  · split at h
    · simp at h
    · cases hw : writeAt pp.packet (sectionCountOffset s) (put16 (n + 1)) <;> simp [hw] at h
      subst h
      exact ⟨rfl, writeAt_length hw⟩

theorem insertionOffset_le {pp : PP} {s : Section} {io : Nat} (hoff : OffOK pp) (h : insertionOffset pp s = .ok io) :
    io ≤ pp.packet.length := by
  obtain ⟨h1, h2, h3⟩ := hoff
  cases s <;> simp [insertionOffset] at h <;> subst h
  · cases ha : pp.offsetAnswers <;> cases hn : pp.offsetNameservers <;> cases hd : pp.offsetAdditional <;>
      simp_all
  · cases hn : pp.offsetNameservers <;> cases hd : pp.offsetAdditional <;> simp_all
  · cases hd : pp.offsetAdditional <;> simp_all
  · exact Nat.le_refl _

theorem snd_ok {α β} {x : Res (α × β)} {b : β} (h : (x >>= fun r => Res.ok r.2) = .ok b) : ∃ a, x = .ok (a, b) := by
  cases x <;> simp at h
  rename_i r; obtain ⟨a, b'⟩ := r; simp at h; subst h; exact ⟨a, rfl⟩
theorem snd_err {α β} {x : Res (α × β)} {e : Err} (h : (x >>= fun r => Res.ok r.2) = .err e) : x = .err e := by
  cases x <;> simp at h; subst h; rfl
theorem snd_panic {α β} {x : Res (α × β)} (h : (x >>= fun r => Res.ok r.2) = .panic) : x = .panic := by
  cases x <;> simp at h; rfl
theorem snd_diverge {α β} {x : Res (α × β)} (h : (x >>= fun r => Res.ok r.2) = .diverge) : x = .diverge := by
  cases x <;> simp at h; rfl

/-- **insert_rr on an object that needs no decompression** (the path every insertion takes after the first mutation) -/
theorem insert_rr_plain (pp : PP) (s : Section) (rr : Bytes) (hmc : pp.maybeCompressed = false) (hoff : OffOK pp) :
    Tr.Counts.insert_rr pp.packet pp.offsetQuestion pp.offsetAnswers pp.offsetNameservers pp.offsetAdditional pp.offsetEdns
        pp.ednsCount pp.extRcode pp.ednsVersion pp.extFlags pp.maybeCompressed pp.cached s rr
      = (insertRR pp s rr >>= insFinish) := by
  unfold Tr.Counts.insert_rr insertRR
  simp only [hmc, Bool.false_eq_true, if_false, Res.pure_eq, Res.bind_ok, Option.isSome_none]
  by_cases hsz : pp.packet.length + rr.length > DNS_MAX_UNCOMPRESSED_SIZE
  · simp [hsz, insFinish]
  · simp only [hsz, decide_false, Bool.false_eq_true, if_false]
    have hinc := rrcount_inc_eq pp s
    cases hm : rrcountInc pp s with
    | ok r =>
      obtain ⟨pp1, e⟩ := r
      cases e with
      | some e =>
        simp only [hm, Res.bind_ok, incResult] at hinc
        simp [snd_err hinc, insFinish]
      | none =>
        simp only [hm, Res.bind_ok, incResult] at hinc
        obtain ⟨c, hc⟩ := snd_ok hinc
        obtain ⟨hfr, hlen⟩ := rrcountInc_ok hm
        have hio := insertion_offset_eq pp1 s
        rw [hfr] at hio
        simp only at hio
        simp only [hc, Res.bind_ok, Option.isSome_none, Bool.false_eq_true, if_false, hio]
        cases hI : insertionOffset pp1 s with
        | ok io =>
          have hle : io ≤ pp1.packet.length := insertionOffset_le (by
            rw [hfr]; obtain ⟨a1, a2, a3⟩ := hoff
            exact ⟨by simpa [hlen] using a1, by simpa [hlen] using a2, by simpa [hlen] using a3⟩) hI
          have hI' : insertionOffset { pp with packet := pp1.packet } s = .ok io := by rw [← hfr]; exact hI
          simp only [hI', Res.bind_ok]
          have hgt : ¬ io > pp1.packet.length := by omega
          have q1 : pp1.offsetQuestion = pp.offsetQuestion := by rw [hfr]
          have q2 : pp1.offsetAnswers = pp.offsetAnswers := by rw [hfr]
          have q3 : pp1.offsetNameservers = pp.offsetNameservers := by rw [hfr]
          have q4 : pp1.offsetAdditional = pp.offsetAdditional := by rw [hfr]
          have q5 : pp1.offsetEdns = pp.offsetEdns := by rw [hfr]
          have q6 : pp1.maybeCompressed = false := by rw [hfr]; exact hmc
          have q7 : pp1.cached = pp.cached := by rw [hfr]
          have hsp := splice_eq pp1.packet rr io hle
          by_cases heq : io = pp1.packet.length + rr.length
          · have hr0 : rr = [] := List.length_eq_zero_iff.1 (by omega)
            have hio0 : io = pp1.packet.length := by omega
            have hpk : pp1.packet ++ rr = List.take io pp1.packet ++ rr ++ List.drop io pp1.packet := by
              subst hr0; subst hio0; simp
            simp only [heq, beq_self_eq_true, if_true]
            rw [← heq, hpk]
            cases s <;> simp [hgt, insFinish, ppTup, q1, q2, q3, q4, q5, q6, q7, hmc]
          · have heq' : (io == pp1.packet.length + rr.length) = false := by simpa using heq
            simp only [heq', Bool.false_eq_true, if_false]
            cases hcw : Tr.copyWithin (Tr.vecResize pp1.packet (pp1.packet.length + rr.length) 0) io pp1.packet.length
                (io + rr.length) with
            | ok q =>
              simp only [hcw, Res.bind_ok] at hsp
              simp only [Res.bind_ok, hsp]
              cases s <;> simp [hgt, insFinish, ppTup, q1, q2, q3, q4, q5, q6, q7, hmc]
            | err e => simp [hcw] at hsp
            | panic => simp [hcw] at hsp
            | diverge => simp [hcw] at hsp
        | err e =>
          have hI' : insertionOffset { pp with packet := pp1.packet } s = .err e := by rw [← hfr]; exact hI
          simp [hI']
        | panic =>
          have hI' : insertionOffset { pp with packet := pp1.packet } s = .panic := by rw [← hfr]; exact hI
          simp [hI']
        | diverge =>
          have hI' : insertionOffset { pp with packet := pp1.packet } s = .diverge := by rw [← hfr]; exact hI
          simp [hI']
    | err e =>
      simp only [hm, Res.bind_err] at hinc
      simp [snd_err hinc]
    | panic =>
      simp only [hm, Res.bind_panic] at hinc
      simp [snd_panic hinc]
    | diverge =>
      simp only [hm, Res.bind_diverge] at hinc
      simp [snd_diverge hinc]

/-! the path through decompression: `uncompress`, `recompute`, then the plain path on the re-encoded object -/

/-- `ParsedPacket::recompute` of the current source (it calls the translated `DNSSector::new` and `parse`) is the model's -/
theorem recompute_eq (q : PP) :
    Tr.Counts.recompute q.packet q.offsetQuestion q.offsetAnswers q.offsetNameservers q.offsetAdditional q.offsetEdns
        q.ednsCount q.extRcode q.ednsVersion q.extFlags q.maybeCompressed q.cached
      = (q.recompute >>= fun r => match r.2 with | some e => Res.err e | none => Res.ok (ppTup r.1)) := by
  unfold Tr.Counts.recompute PP.recompute
  cases hmc : q.maybeCompressed
  · simp [ppTup, hmc]
  · simp only [Bool.not_true, Bool.false_eq_true, if_false]
    cases hu : uncompress q.packet with
    | ok u =>
      have hn : Tr.Sector.new u = .ok (u, 0, none, none, 0, none, none, none, 512) := by
        simpa [tup, Sector.new] using new_eq u
      simp only [Res.bind_ok, hn, parse_eq]
      cases hp : parse u with
      | ok v =>
        simp only [Res.bind_ok, viewTup, assert, Tr.unwrapOpt]
        by_cases h1 : q.ednsCount = v.ednsCount
        · by_cases h2 : q.extRcode = v.extRcode
          · by_cases h3 : q.ednsVersion = v.ednsVersion
            · by_cases h4 : q.extFlags = v.extFlags
              · simp [h1, h2, h3, h4, ppTup]
              · have h4' : ¬ v.extFlags = q.extFlags := fun h => h4 h.symm
                simp [h1, h2, h3, h4, h4']
            · have h3' : ¬ v.ednsVersion = q.ednsVersion := fun h => h3 h.symm
              simp [h1, h2, h3, h3']
          · have h2' : ¬ v.extRcode = q.extRcode := fun h => h2 h.symm
            simp [h1, h2, h2']
        · have h1' : ¬ v.ednsCount = q.ednsCount := fun h => h1 h.symm
          simp [h1, h1']
      | err e => simp
      | panic => simp
      | diverge => simp
    | err e => simp
    | panic => simp
    | diverge => simp

theorem recompute_ok {q q' : PP} (hmc : q.maybeCompressed = true) (h : q.recompute = .ok (q', none)) :
    q'.maybeCompressed = false ∧ q'.ednsCount = q.ednsCount ∧ q'.extRcode = q.extRcode ∧ q'.ednsVersion = q.ednsVersion ∧
      q'.extFlags = q.extFlags ∧ q'.maxPayload = q.maxPayload := by
  unfold PP.recompute at h
  simp only [hmc, Bool.not_true, Bool.false_eq_true, if_false] at h
  cases hu : uncompress q.packet <;> simp [hu] at h
  rename_i u
  cases hp : parse u <;> simp [hp] at h
  split at h
  · simp at h
  · simp at h; subst h; simp

theorem insert_rr_compressed (pp : PP) (s : Section) (rr : Bytes) (hmc : pp.maybeCompressed = true)
    (hoff : ∀ u q, uncompress pp.packet = .ok u → ({ pp with packet := u } : PP).recompute = .ok (q, none) → OffOK q) :
    Tr.Counts.insert_rr pp.packet pp.offsetQuestion pp.offsetAnswers pp.offsetNameservers pp.offsetAdditional pp.offsetEdns
        pp.ednsCount pp.extRcode pp.ednsVersion pp.extFlags pp.maybeCompressed pp.cached s rr
      = (insertRR pp s rr >>= insFinish) := by
  unfold Tr.Counts.insert_rr insertRR
  simp only [hmc, if_true]
  cases hu : uncompress pp.packet with
  | ok u =>
    simp only [Res.bind_ok]
    have hrf := recompute_eq ({ pp with packet := u } : PP)
    cases hr0 : ({ pp with packet := u } : PP).recompute with
    | ok r =>
      obtain ⟨q, e⟩ := r
      have hr := hr0
      simp only [hmc] at hrf hr
      rw [hrf, hr]
      cases e with
      | some e => simp [insFinish]
      | none =>
        obtain ⟨q1, q2, q3, q4, q5, q6⟩ := recompute_ok (q := ({ pp with packet := u } : PP)) hmc hr0
        have hplain := insert_rr_plain q s rr q1 (hoff u q hu hr0)
        unfold Tr.Counts.insert_rr insertRR at hplain
        simp only [q1, Bool.false_eq_true, if_false, Res.pure_eq, Res.bind_ok, Option.isSome_none] at hplain
        simp only [Res.bind_ok, ppTup, assert, q1, Bool.not_false, if_true, Res.pure_eq, Option.isSome_none,
          Bool.false_eq_true, if_false]
        exact hplain
    | err e => simp only [hmc] at hrf hr0; rw [hrf, hr0]; simp
    | panic => simp only [hmc] at hrf hr0; rw [hrf, hr0]; simp
    | diverge => simp only [hmc] at hrf hr0; rw [hrf, hr0]; simp
  | err e => simp [insFinish]
  | panic => simp
  | diverge => simp

end Dns.Tie
