/-
  DnsModel.Tie.Parse — the whole validator: `DNSSector::new`, `parse`, `parse_question`, `parse_rr`, `parse_opt`
  and their helpers, as translated from the current text of dns_sector.rs (`Generated/TrSector.lean`), compute
  what the hand-written model `parse` (Sector.lean) computes — the function C01, C02 and C18 are proved about.

  The translated methods take the `DNSSector` fields they read as parameters and return those they write; the
  model keeps them in the record `Sector`; `tup` is the correspondence.  `edns_count += 1` is an
  overflow-checked u16 addition in the source and unbounded in the model: `parse_opt_loop_eq` shows the check
  can never fire (an option takes at least four bytes of a data length below 65536).
-/
import DnsModel.Tie.Sector
import DnsModel.Tie.Name
namespace Dns.Tie
open Dns Dns.Sector

/-- the fields of `DNSSector` other than the packet, as the translated methods return them -/
def tup (s : Sector) : Nat × Option Nat × Option Nat × Nat × Option Nat × Option Nat × Option Nat × Nat :=
  (s.offset, s.ednsStart, s.ednsEnd, s.ednsCount, s.extRcode, s.ednsVersion, s.extFlags, s.maxPayload)

theorem check_compressed_name_at_eq (p : Bytes) (off : Nat) :
    Tr.Sector.check_compressed_name_at p off = checkCompressedName p off := by
  simp [Tr.Sector.check_compressed_name_at, check_compressed_name_eq, res_bind_pure]

theorem skip_name_eq (p : Bytes) (s : Sector) :
    Tr.Sector.skip_name p s.offset = (skipName p s >>= fun s' => Res.ok s'.offset) := by
  unfold Tr.Sector.skip_name skipName
  rw [check_compressed_name_at_eq]
  cases checkCompressedName p s.offset <;> simp
  rename_i o
  rw [set_offset_eq]
  cases h : setOffset p s o <;> simp

theorem skip_name_frame (p : Bytes) (s s' : Sector) (h : skipName p s = .ok s') : s' = { s with offset := s'.offset } := by
  unfold skipName at h
  cases h1 : checkCompressedName p s.offset <;> simp [h1] at h
  rename_i o
  cases h2 : setOffset p s o <;> simp [h2] at h
  rename_i r
  obtain ⟨s2, old⟩ := r
  simp at h
  subst h
  exact set_offset_frame p s s2 o old h2

theorem ensure_in_class_eq (p : Bytes) (s : Sector) : Tr.Sector.ensure_in_class p s.offset = ensureInClass p s := by
  unfold Tr.Sector.ensure_in_class ensureInClass
  rw [rr_class_eq]
  cases rrClass p s <;> simp [failIf]

theorem parse_question_eq (p : Bytes) (s : Sector) :
    Tr.Sector.parse_question p s.offset = (parseQuestion p s >>= fun s' => Res.ok s'.offset) := by
  unfold Tr.Sector.parse_question parseQuestion
  rw [skip_name_eq]
  cases h1 : skipName p s <;> simp
  rename_i s1
  rw [ensure_in_class_eq, rr_class_eq]
  cases ensureInClass p s1 <;> simp
  cases rrClass p s1 <;> simp [failIf]
  rename_i c
  by_cases hc : c = CLASS_IN <;> simp [hc]
  rw [increment_offset_eq]
  cases incrementOffset p s1 DNS_RR_QUESTION_HEADER_SIZE <;> simp

theorem increment_offset_frame (p : Bytes) (s s' : Sector) (n old : Nat) (h : incrementOffset p s n = .ok (s', old)) :
    s' = { s with offset := s'.offset } := by
  unfold incrementOffset at h
  cases h1 : ensureRemainingLen p s n <;> simp [h1] at h
  obtain ⟨h2, _⟩ := h
  subst h2; rfl

theorem parse_question_frame (p : Bytes) (s s' : Sector) (h : parseQuestion p s = .ok s') :
    s' = { s with offset := s'.offset } := by
  unfold parseQuestion at h
  cases h1 : skipName p s <;> simp [h1] at h
  rename_i s1
  have f1 := skip_name_frame p s s1 h1
  cases h2 : ensureInClass p s1 <;> simp [h2] at h
  cases h3 : rrClass p s1 <;> simp [h3] at h
  rename_i c
  cases h4 : failIf (c != CLASS_IN) .unsupportedClass <;> simp [h4] at h
  cases h5 : incrementOffset p s1 DNS_RR_QUESTION_HEADER_SIZE <;> simp [h5] at h
  rename_i r
  obtain ⟨s2, old⟩ := r
  simp at h; subst h
  have f2 := increment_offset_frame p s1 s2 _ old h5
  rw [f2, f1]

theorem opt_loaders_eq (p : Bytes) (s : Sector) :
    Tr.Sector.opt_rr_max_payload p s.offset = be16Load p s DNS_OPT_RR_MAX_PAYLOAD_OFFSET ∧
    Tr.Sector.opt_rr_ext_rcode p s.offset = u8Load p s DNS_OPT_RR_EXT_RCODE_OFFSET ∧
    Tr.Sector.opt_rr_edns_version p s.offset = u8Load p s DNS_OPT_RR_EDNS_VERSION_OFFSET ∧
    Tr.Sector.opt_rr_edns_ext_flags p s.offset = be16Load p s DNS_OPT_RR_EDNS_EXT_FLAGS_OFFSET ∧
    Tr.Sector.opt_rr_rdlen p s.offset = be16Load p s DNS_OPT_RR_RDLEN_OFFSET := by
  simp [Tr.Sector.opt_rr_max_payload, Tr.Sector.opt_rr_ext_rcode, Tr.Sector.opt_rr_edns_version,
    Tr.Sector.opt_rr_edns_ext_flags, Tr.Sector.opt_rr_rdlen, be16_load_eq, u8_load_eq, res_bind_pure]

theorem edns_skip_rr_eq (p : Bytes) (s : Sector) :
    Tr.Sector.edns_skip_rr p s.offset s.ednsEnd = (ednsSkipRr p s >>= fun s' => Res.ok s'.offset) := by
  unfold Tr.Sector.edns_skip_rr ednsSkipRr
  rw [edns_rr_rdlen_eq]
  cases ednsRrRdlen p s <;> simp
  rename_i l
  rw [edns_increment_offset_eq]
  cases ednsIncrementOffset s (DNS_EDNS_RR_HEADER_SIZE + l) <;> simp

theorem ednsSkipRr_ok {p : Bytes} {s s1 : Sector} (h : ednsSkipRr p s = .ok s1) :
    s1 = { s with offset := s1.offset } ∧ ∃ e, s.ednsEnd = some e ∧ s.offset + 4 ≤ s1.offset ∧ s1.offset ≤ e := by
  unfold ednsSkipRr ednsRrRdlen ednsBe16Load ednsIncrementOffset ednsEnsureRemainingLen ednsRemainingLen at h
  cases he : s.ednsEnd with
  | none => simp [he, failIf, DNS_EDNS_RR_RDLEN_OFFSET] at h
  | some e =>
    simp only [he, sub, failIf] at h
    by_cases h1 : s.offset ≤ e
    · simp only [h1, if_true, Res.bind_ok] at h
      consts
      split at h
      · simp at h
      · rename_i hlt
        simp only [Res.bind_ok] at h
        cases ha : idx p (s.offset + 2) <;> simp [ha] at h
        cases hb : idx p (s.offset + 2 + 1) <;> simp [hb] at h
        split at h
        · simp at h
        · rename_i h3
          simp at h
          subst h
          simp at h3 hlt ⊢
          omega
    · simp [h1] at h

theorem parse_opt_loop_eq (p : Bytes) (fuel : Nat) (s : Sector)
    (hb : s.ednsCount + (match s.ednsEnd with | some e => e - s.offset | none => 0) / 4 < 65536) :
    Tr.Sector.parse_opt_loop p s.ednsStart s.ednsEnd s.extRcode s.ednsVersion s.extFlags s.maxPayload fuel
        s.offset s.ednsCount
      = (optLoop p fuel s >>= fun s' => Res.ok (tup s')) := by
  induction fuel generalizing s with
  | zero => rfl
  | succ n ih =>
    unfold Tr.Sector.parse_opt_loop optLoop
    rw [edns_remaining_len_eq]
    cases hr : ednsRemainingLen s <;> simp
    rename_i r
    by_cases hpos : r > 0
    · simp only [hpos, if_true, decide_true]
      rw [edns_skip_rr_eq]
      cases hs : ednsSkipRr p s <;> simp
      rename_i s1
      obtain ⟨hfr, e, he, hlo, hhi⟩ := ednsSkipRr_ok hs
      have hc : s.ednsCount + 1 < 65536 := by
        simp only [he] at hb; omega
      simp only [Tr.checked, hc, if_true, Res.bind_ok]
      have := ih { s1 with ednsCount := s1.ednsCount + 1 } (by
        rw [hfr]; simp only [he] at hb ⊢; omega)
      rw [hfr] at this ⊢
      simpa using this
    · have h0 : r = 0 := by omega
      subst h0
      simp [assert, tup]

theorem be16Load_lt {p : Bytes} {s : Sector} {r v : Nat} (h : be16Load p s r = .ok v) : v < 65536 := by
  unfold be16Load at h
  cases h1 : ensureRemainingLen p s (r + 2) <;> simp [h1] at h
  rcases be16_cases p (s.offset + r) with ⟨_, h2⟩ | ⟨_, h2⟩
  · rw [h2] at h; simp at h; subst h; exact get16_lt p _
  · rw [h2] at h; simp at h

theorem parse_opt_eq (p : Bytes) (s : Sector) :
    Tr.Sector.parse_opt p s.offset s.ednsStart s.ednsEnd s.ednsCount s.extRcode s.ednsVersion s.extFlags s.maxPayload
      = (parseOpt p s >>= fun s' => Res.ok (tup s')) := by
  unfold Tr.Sector.parse_opt parseOpt
  obtain ⟨l1, l2, l3, l4, l5⟩ := opt_loaders_eq p s
  by_cases h0 : s.ednsEnd.isSome = true
  · simp [h0, failIf]
  · simp only [h0, failIf, Bool.false_eq_true, if_false, Res.bind_ok, l1, l2, l3, l4, l5]
    cases u8Load p s DNS_OPT_RR_EXT_RCODE_OFFSET <;> simp
    rename_i rc
    cases u8Load p s DNS_OPT_RR_EDNS_VERSION_OFFSET <;> simp
    rename_i ver
    cases be16Load p s DNS_OPT_RR_MAX_PAYLOAD_OFFSET <;> simp
    rename_i mp
    cases be16Load p s DNS_OPT_RR_EDNS_EXT_FLAGS_OFFSET <;> simp
    rename_i fl
    cases hl : be16Load p s DNS_OPT_RR_RDLEN_OFFSET <;> simp
    rename_i len
    have hlen := be16Load_lt hl
    rw [increment_offset_eq]
    cases hi : incrementOffset p s DNS_OPT_RR_HEADER_SIZE <;> simp
    rename_i r1
    obtain ⟨s1, old⟩ := r1
    have f1 := increment_offset_frame p s s1 _ old hi
    simp only
    rw [ensure_remaining_len_eq]
    cases ensureRemainingLen p s1 len <;> simp
    have := parse_opt_loop_eq p (len / DNS_EDNS_RR_HEADER_SIZE + 2)
      { s1 with extRcode := some rc, ednsVersion := some ver, maxPayload := mp, extFlags := some fl,
                ednsStart := some s1.offset, ednsEnd := some (s1.offset + len), ednsCount := 0 }
      (by simp; omega)
    simpa using this

/-! reverse direction: the model's calls expressed through the translated ones (struct updates then reduce by `simp`) -/

theorem skipName_rev (p : Bytes) (s : Sector) :
    skipName p s = (Tr.Sector.skip_name p s.offset >>= fun o => Res.ok { s with offset := o }) := by
  rw [skip_name_eq]
  cases h : skipName p s <;> simp
  rename_i s1
  exact skip_name_frame p s s1 h

theorem incrementOffset_rev (p : Bytes) (s : Sector) (n : Nat) :
    incrementOffset p s n = (Tr.Sector.increment_offset p s.offset n >>= fun r => Res.ok ({ s with offset := r.2 }, r.1)) := by
  rw [increment_offset_eq]
  cases h : incrementOffset p s n <;> simp
  rename_i r
  obtain ⟨s1, old⟩ := r
  simp
  exact increment_offset_frame p s s1 n old h

theorem parseOpt_rev (p : Bytes) (s : Sector) :
    parseOpt p s = (Tr.Sector.parse_opt p s.offset s.ednsStart s.ednsEnd s.ednsCount s.extRcode s.ednsVersion s.extFlags s.maxPayload
      >>= fun r => Res.ok { offset := r.1, ednsStart := r.2.1, ednsEnd := r.2.2.1, ednsCount := r.2.2.2.1, extRcode := r.2.2.2.2.1,
                            ednsVersion := r.2.2.2.2.2.1, extFlags := r.2.2.2.2.2.2.1, maxPayload := r.2.2.2.2.2.2.2 }) := by
  rw [parse_opt_eq]
  cases parseOpt p s <;> simp [tup]

theorem res_bind_assoc {α β γ} (x : Res α) (f : α → Res β) (g : β → Res γ) :
    ((x >>= f) >>= g) = (x >>= fun a => f a >>= g) := by cases x <;> rfl

theorem failIf_bind {β} (c : Bool) (e : Err) (k : Unit → Res β) :
    (failIf c e >>= k) = if c then Res.err e else k () := by cases c <;> rfl

theorem parse_rr_eq (p : Bytes) (s : Sector) (sec : Section) :
    Tr.Sector.parse_rr p s.offset s.ednsStart s.ednsEnd s.ednsCount s.extRcode s.ednsVersion s.extFlags s.maxPayload sec
      = (parseRR p s sec >>= fun s' => Res.ok (tup s')) := by
  unfold Tr.Sector.parse_rr parseRR
  simp only [skipName_rev, incrementOffset_rev, parseOpt_rev, ← rr_type_eq, ← rr_rdlen_eq,
    ← check_compressed_name_eq, ← check_uncompressed_name_eq, res_bind_assoc, failIf_bind, Res.bind_ok, Res.pure_eq, tup]
  cases Tr.Sector.skip_name p s.offset <;> simp
  rename_i o1
  cases Tr.Sector.rr_type p o1 <;> simp
  rename_i ty
  cases Tr.Sector.rr_rdlen p o1 <;> simp
  rename_i len
  simp only [bind_ite, res_bind_assoc, Res.bind_ok, Res.bind_err]
  -- robust to rewrites of the arithmetic conditions (`len ≤ 21` / `len < 22`, `a - 20 ≠ b` / `a ≠ b + 20` …)
  try (
    cases hi : Tr.Sector.increment_offset p o1 DNS_RR_HEADER_SIZE with
    | ok x =>
      simp only [Res.bind_ok]
      cases Tr.Name.check_compressed_name p x.2 with
      | ok f1 =>
        simp only [Res.bind_ok]
        cases Tr.Name.check_compressed_name p f1 <;>
          simp only [sub, bind_ite, res_bind_assoc, Res.bind_ok, Res.bind_err, Res.bind_panic, Res.bind_diverge] <;> grind
      | _ => simp only [sub, bind_ite, res_bind_assoc, Res.bind_ok, Res.bind_err, Res.bind_panic, Res.bind_diverge] <;> grind
    | _ => simp only [sub, bind_ite, res_bind_assoc, Res.bind_ok, Res.bind_err, Res.bind_panic, Res.bind_diverge] <;> grind)

theorem setOffset_rev (p : Bytes) (s : Sector) (o : Nat) :
    setOffset p s o = (Tr.Sector.set_offset p s.offset o >>= fun r => Res.ok ({ s with offset := r.2 }, r.1)) := by
  rw [set_offset_eq]
  cases h : setOffset p s o <;> simp
  rename_i r
  obtain ⟨s1, old⟩ := r
  simp
  exact set_offset_frame p s s1 o old h

theorem parseQuestion_rev (p : Bytes) (s : Sector) :
    parseQuestion p s = (Tr.Sector.parse_question p s.offset >>= fun o => Res.ok { s with offset := o }) := by
  rw [parse_question_eq]
  cases h : parseQuestion p s <;> simp
  rename_i s1
  exact parse_question_frame p s s1 h

/-- a section loop of the source is the model's `parseRRs` followed by the code after the loop -/
theorem parse_for3_eq (p : Bytes) (oq oa ons oad : Option Nat) (n : Nat) (s : Sector) :
    Tr.Sector.parse_for3 p oq oa ons oad n s.offset s.ednsStart s.ednsEnd s.ednsCount s.extRcode s.ednsVersion s.extFlags s.maxPayload
      = (parseRRs p .additional n s >>= fun s' =>
          Tr.Sector.parse_for3 p oq oa ons oad 0 s'.offset s'.ednsStart s'.ednsEnd s'.ednsCount s'.extRcode s'.ednsVersion s'.extFlags s'.maxPayload) := by
  induction n generalizing s with
  | zero => simp [parseRRs]
  | succ n ih =>
    rw [Tr.Sector.parse_for3, parseRRs, parse_rr_eq]
    cases parseRR p s .additional <;> simp [tup]
    rename_i s1
    exact ih s1

theorem parse_for2_eq (p : Bytes) (oq oa ons : Option Nat) (n : Nat) (s : Sector) :
    Tr.Sector.parse_for2 p oq oa ons n s.offset s.ednsStart s.ednsEnd s.ednsCount s.extRcode s.ednsVersion s.extFlags s.maxPayload
      = (parseRRs p .nameServers n s >>= fun s' =>
          Tr.Sector.parse_for2 p oq oa ons 0 s'.offset s'.ednsStart s'.ednsEnd s'.ednsCount s'.extRcode s'.ednsVersion s'.extFlags s'.maxPayload) := by
  induction n generalizing s with
  | zero => simp [parseRRs]
  | succ n ih =>
    rw [Tr.Sector.parse_for2, parseRRs, parse_rr_eq]
    cases parseRR p s .nameServers <;> simp [tup]
    rename_i s1
    exact ih s1

theorem parse_for1_eq (p : Bytes) (isr : Bool) (oq oa : Option Nat) (n : Nat) (s : Sector) :
    Tr.Sector.parse_for1 p isr oq oa n s.offset s.ednsStart s.ednsEnd s.ednsCount s.extRcode s.ednsVersion s.extFlags s.maxPayload
      = (parseRRs p .answer n s >>= fun s' =>
          Tr.Sector.parse_for1 p isr oq oa 0 s'.offset s'.ednsStart s'.ednsEnd s'.ednsCount s'.extRcode s'.ednsVersion s'.extFlags s'.maxPayload) := by
  induction n generalizing s with
  | zero => simp [parseRRs]
  | succ n ih =>
    rw [Tr.Sector.parse_for1, parseRRs, parse_rr_eq]
    cases parseRR p s .answer <;> simp [tup]
    rename_i s1
    exact ih s1

/-- what `ParsedPacket { .. }` holds, in the order the source writes the fields -/
def viewTup (p : Bytes) (v : View) :=
  (some p, v.offsetQuestion, v.offsetAnswers, v.offsetNameservers, v.offsetAdditional, v.offsetEdns, v.extRcode,
    v.ednsVersion, v.extFlags, v.ednsCount, true, v.maxPayload, (none : Option Unit))

theorem new_eq (p : Bytes) : Tr.Sector.new p = .ok (p, tup Sector.new) := by
  simp [Tr.Sector.new, tup, Sector.new]

theorem parse_eq (p : Bytes) :
    Tr.Sector.parse p 0 none none 0 none none none 512 = (parse p >>= fun v => Res.ok (viewTup p v)) := by
  unfold Tr.Sector.parse parse
  simp only [s_is_response_eq, s_qdcount_eq, s_ancount_eq, setOffset_rev, parseQuestion_rev, res_bind_assoc,
    failIf_bind, Res.bind_ok, Res.pure_eq, Sector.new]
  by_cases hlen : p.length < DNS_HEADER_SIZE
  · simp [hlen]
  · simp only [hlen, decide_false, Bool.false_eq_true, if_false]
    cases be16 p DNS_FLAGS_OFFSET <;> simp
    rename_i fl
    cases be16 p 4 <;> simp
    rename_i qd
    by_cases hq0 : qd = 0
    · simp [hq0]
    · by_cases hq1 : qd > 1
      · simp [hq0, hq1]
      · have hq : qd = 1 := by omega
        subst hq
        simp only [Nat.lt_irrefl, decide_false, Bool.false_eq_true, if_false, Nat.one_ne_zero]
        cases Tr.Sector.set_offset p 0 DNS_QUESTION_OFFSET <;> simp [assert]
        rename_i r0
        cases Tr.Sector.parse_question p r0.2 <;> simp
        rename_i o1
        cases be16 p 6 <;> simp
        rename_i an
        by_cases hqr : ¬fl &&& DNS_FLAG_QR = DNS_FLAG_QR ∧ 0 < an
        · simp [hqr]
        · simp only [hqr, if_false]
          have h1 := parse_for1_eq p (fl &&& DNS_FLAG_QR == DNS_FLAG_QR) (some r0.2) (if 0 < an then some o1 else none) an { offset := o1 }
          simp only at h1
          rw [h1]
          simp only [res_bind_assoc]
          cases parseRRs p Section.answer an { offset := o1 } <;> simp
          rename_i s1
          rw [Tr.Sector.parse_for1]
          simp only [s_nscount_eq]
          cases be16 p 8 <;> simp
          rename_i ns
          by_cases hqr2 : ¬fl &&& DNS_FLAG_QR = DNS_FLAG_QR ∧ 0 < ns
          · simp [hqr2]
          · simp only [hqr2, if_false]
            rw [parse_for2_eq]
            simp only [res_bind_assoc]
            cases parseRRs p Section.nameServers ns s1 <;> simp
            rename_i s2
            rw [Tr.Sector.parse_for2]
            simp only [s_arcount_eq]
            cases be16 p 10 <;> simp
            rename_i ar
            rw [parse_for3_eq]
            cases parseRRs p Section.additional ar s2 <;> simp
            rename_i s3
            rw [Tr.Sector.parse_for3, remaining_len_eq]
            cases remainingLen p s3 <;> simp
            rename_i r
            by_cases hr : 0 < r <;> simp [hr, viewTup]

end Dns.Tie
