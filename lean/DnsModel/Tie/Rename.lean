/-
  DnsModel.Tie.Rename — `Renamer::replace_raw` (renamer.rs), the function that decides whether a name matches the
  source and builds the replacement — the core of C07 — as translated from the current source
  (`Generated/TrRename.lean`) is the model function `replaceRaw` (Renamer.lean) that `replaceRaw_spec`,
  `rename_record` and `rename_spec` are proved about.

  The translation copies the code after the first loop to both of its exits (`break` and the loop condition), so
  the comparison loop and the `(0..n).all(..)` helper exist twice; both copies are shown equal to the model's.
-/
import DnsModel.Renamer
import DnsModel.Generated.TrRename
import DnsModel.Tie.Reader
namespace Dns.Tie
open Dns

theorem eqIgnoreCase_ofNat (a b : Nat) (ha : a < 256) (hb : b < 256) :
    eqIgnoreCase (UInt8.ofNat a) (UInt8.ofNat b) = (Tr.asciiLower a == Tr.asciiLower b) := by
  rw [eqIgnoreCase_eq]
  simp [UInt8.toNat_ofNat', Nat.mod_eq_of_lt ha, Nat.mod_eq_of_lt hb]

theorem all3_eq (name source : Bytes) (offset i n j : Nat) :
    Tr.Rename.replace_raw_all3 name source offset i n j = labelEqLoop name source i offset n j := by
  induction n generalizing j with
  | zero => rfl
  | succ n ih =>
    unfold Tr.Rename.replace_raw_all3 labelEqLoop
    cases ha : idx name (i + j) <;> simp
    rename_i a
    cases hk : sub (i + j) offset <;> simp
    rename_i k
    cases hb : idx source k <;> simp
    rename_i b
    rw [eqIgnoreCase_ofNat a b (idx_lt ha).2 (idx_lt hb).2, ih]
    simp

theorem all5_eq (name source : Bytes) (offset i n j : Nat) :
    Tr.Rename.replace_raw_all5 name source offset i n j = labelEqLoop name source i offset n j := by
  induction n generalizing j with
  | zero => rfl
  | succ n ih =>
    unfold Tr.Rename.replace_raw_all5 labelEqLoop
    cases ha : idx name (i + j) <;> simp
    rename_i a
    cases hk : sub (i + j) offset <;> simp
    rename_i k
    cases hb : idx source k <;> simp
    rename_i b
    rw [eqIgnoreCase_ofNat a b (idx_lt ha).2 (idx_lt hb).2, ih]
    simp

/-- what `replace_raw` does once the comparison loop has run -/
def afterCmp (name target : Bytes) (offset : Nat) (all : Bool) : Res (Option Bytes) :=
  if !all then .ok none
  else if offset + target.length > DNS_MAX_HOSTNAME_LEN then .err .invalidName
  else .ok (some (name.take offset ++ target))

theorem cmp2_eq (name target source : Bytes) (offset fuel i : Nat) (ho : offset ≤ name.length) :
    Tr.Rename.replace_raw_loop2 name target source target.length offset fuel i
      = (replaceCmpLoop name source offset fuel i >>= afterCmp name target offset) := by
  induction fuel generalizing i with
  | zero => rfl
  | succ n ih =>
    unfold Tr.Rename.replace_raw_loop2 replaceCmpLoop
    cases hb : idx name i <;> simp
    rename_i b
    by_cases h0 : b = 0
    · subst h0
      have hs : slice name 0 offset = .ok (name.take offset) := by simp [slice, ho]
      simp [afterCmp, hs]
    · have h0' : (b == 0) = false := by simpa using h0
      simp only [h0, h0', bne_iff_ne, ne_eq, not_false_eq_true, if_true, Bool.false_eq_true, if_false]
      cases hk : sub i offset <;> simp
      rename_i k
      cases hsrc : idx source k <;> simp
      rename_i s
      by_cases hne : b = s
      · subst hne
        simp only [bne_self_eq_false, Bool.false_eq_true, if_false, all3_eq, ne_eq, not_true_eq_false]
        cases hall : labelEqLoop name source (i + 1) offset b 0 <;> simp
        rename_i ok
        cases ok
        · simp [afterCmp]
        · simpa using ih (i + 1 + b)
      · have : (b != s) = true := by simpa using hne
        simp [hne, this, afterCmp]

theorem cmp4_eq (name target source : Bytes) (offset fuel i : Nat) (ho : offset ≤ name.length) :
    Tr.Rename.replace_raw_loop4 name target source target.length offset fuel i
      = (replaceCmpLoop name source offset fuel i >>= afterCmp name target offset) := by
  induction fuel generalizing i with
  | zero => rfl
  | succ n ih =>
    unfold Tr.Rename.replace_raw_loop4 replaceCmpLoop
    cases hb : idx name i <;> simp
    rename_i b
    by_cases h0 : b = 0
    · subst h0
      have hs : slice name 0 offset = .ok (name.take offset) := by simp [slice, ho]
      simp [afterCmp, hs]
    · have h0' : (b == 0) = false := by simpa using h0
      simp only [h0, h0', bne_iff_ne, ne_eq, not_false_eq_true, if_true, Bool.false_eq_true, if_false]
      cases hk : sub i offset <;> simp
      rename_i k
      cases hsrc : idx source k <;> simp
      rename_i s
      by_cases hne : b = s
      · subst hne
        simp only [bne_self_eq_false, Bool.false_eq_true, if_false, all5_eq, ne_eq, not_true_eq_false]
        cases hall : labelEqLoop name source (i + 1) offset b 0 <;> simp
        rename_i ok
        cases ok
        · simp [afterCmp]
        · simpa using ih (i + 1 + b)
      · have : (b != s) = true := by simpa using hne
        simp [hne, this, afterCmp]

/-- what `replace_raw` does once the first loop has stopped at `i` -/
def afterFind (name target source : Bytes) (offset : Nat) (i : Nat) : Res (Option Bytes) := do
  if i ≥ name.length then return none
  let b ← idx name i
  if b == 0 && name.length > 0 then return none
  failIf (i != offset) .invalidName
  let all ← replaceCmpLoop name source offset (name.length + 1) i
  afterCmp name target offset all

theorem find_eq (name target source : Bytes) (offset fuel i : Nat) (ho : offset ≤ name.length) :
    Tr.Rename.replace_raw_loop name target source name.length target.length offset fuel i
      = (replaceFindLoop name offset fuel i >>= afterFind name target source offset) := by
  induction fuel generalizing i with
  | zero => rfl
  | succ n ih =>
    unfold Tr.Rename.replace_raw_loop replaceFindLoop
    cases hb : idx name i <;> simp
    rename_i b
    obtain ⟨hlt, _⟩ := idx_lt hb
    have hge : ¬ i ≥ name.length := by omega
    by_cases h0 : b = 0
    · subst h0
      have hpos : name.length > 0 := by omega
      simp [afterFind, hge, hb, hpos, assert, failIf, cmp4_eq _ _ _ _ _ _ ho]
    · have h0' : (b == 0) = false := by simpa using h0
      simp only [h0, h0', bne_iff_ne, ne_eq, not_false_eq_true, if_true, Bool.false_eq_true, if_false]
      by_cases hio : i = offset
      · subst hio
        simp [afterFind, hge, hb, h0', h0, hlt, assert, failIf, cmp2_eq _ _ _ _ _ _ ho]
      · have hio' : (i == offset) = false := by simpa using hio
        simp only [hio', Bool.false_eq_true, if_false, hio]
        have := ih (i + b + 1)
        simpa [Nat.add_assoc] using this

theorem replace_raw_eq (name target source : Bytes) (sfx : Bool) :
    Tr.Rename.replace_raw name target source sfx = replaceRaw name target source sfx := by
  unfold Tr.Rename.replace_raw
  by_cases hle : source.length ≤ name.length
  · -- the tail of both sides: the first loop, then `afterFind`
    have hfind := find_eq name target source (name.length - source.length) (name.length + 1) 0 (by omega)
    have htail : ∀ (i : Nat), afterFind name target source (name.length - source.length) i =
        (if i ≥ name.length then Res.ok none else
          idx name i >>= fun b => if (b == 0 && decide (name.length > 0)) = true then Res.ok none else
            failIf (i != name.length - source.length) .invalidName >>= fun _ =>
              replaceCmpLoop name source (name.length - source.length) (name.length + 1) i >>= fun all =>
                if (!all) = true then Res.ok none else
                  failIf (decide (name.length - source.length + target.length > DNS_MAX_HOSTNAME_LEN)) .invalidName >>= fun _ =>
                    Res.ok (some (name.take (name.length - source.length) ++ target))) := by
      intro i
      unfold afterFind afterCmp
      by_cases h : i ≥ name.length
      · simp [h]
      · simp only [h, if_false, Res.pure_eq]
        cases idx name i <;> simp
        split <;> try simp
        cases failIf (i != name.length - source.length) Err.invalidName <;> simp
        cases replaceCmpLoop name source (name.length - source.length) (name.length + 1) i <;> simp
        rename_i all
        cases all <;> simp [failIf]
        split <;> simp
    simp only [sub_ok hle, Res.bind_ok, hfind]
    have hmodel : (replaceFindLoop name (name.length - source.length) (name.length + 1) 0 >>= fun i =>
        (if i ≥ name.length then Res.ok none else
          idx name i >>= fun b => if (b == 0 && decide (name.length > 0)) = true then Res.ok none else
            failIf (i != name.length - source.length) .invalidName >>= fun _ =>
              replaceCmpLoop name source (name.length - source.length) (name.length + 1) i >>= fun all =>
                if (!all) = true then Res.ok none else
                  failIf (decide (name.length - source.length + target.length > DNS_MAX_HOSTNAME_LEN)) .invalidName >>= fun _ =>
                    Res.ok (some (name.take (name.length - source.length) ++ target))))
        = (replaceFindLoop name (name.length - source.length) (name.length + 1) 0 >>=
            afterFind name target source (name.length - source.length)) := by
      congr 1; funext i; exact (htail i).symm
    generalize (replaceFindLoop name (name.length - source.length) (name.length + 1) 0 >>=
            afterFind name target source (name.length - source.length)) = X at hmodel ⊢
    have hm2 : replaceRaw name target source sfx =
        (if (decide (name.length < source.length) || (sfx == false && name.length != source.length)) = true then Res.ok none else
          failIf (decide (source.length ≤ 0) || decide (target.length ≤ 0)) .invalidName >>= fun _ =>
            idx source 0 >>= fun s0 => idx target 0 >>= fun t0 =>
              failIf (s0 == 0 || t0 == 0) .invalidName >>= fun _ => X) := by
      rw [← hmodel]; rfl
    rw [hm2]
    cases h1 : (decide (name.length < source.length) || (sfx == false && name.length != source.length)) <;> simp only [Bool.false_eq_true, if_false, if_true]
    cases h2 : (decide (source.length ≤ 0) || decide (target.length ≤ 0)) <;> simp only [failIf, Bool.false_eq_true, if_false, if_true, Res.bind_ok, Res.bind_err]
    cases hs0 : idx source 0 <;> simp only [Res.bind_ok, Res.bind_err, Res.bind_panic, Res.bind_diverge]
    rename_i s0
    by_cases hz : s0 = 0
    · subst hz
      have hpos : 0 < target.length := by
        simp only [Bool.or_eq_false_iff, decide_eq_false_iff_not] at h2
        omega
      obtain ⟨t0, ht0, _⟩ := idx_ok_of_lt (p := target) (i := 0) hpos
      simp [ht0]
    · have hz' : (s0 == 0) = false := by simpa using hz
      simp only [hz', Bool.not_false, if_true, Bool.false_or]
      cases ht0 : idx target 0 <;> simp only [Res.bind_ok, Res.bind_err, Res.bind_panic, Res.bind_diverge, Res.pure_eq]
      rename_i t0
      cases (t0 == 0) <;> simp
  · have h1 : (decide (name.length < source.length) || (sfx == false && name.length != source.length)) = true := by
      have : name.length < source.length := by omega
      simp [this]
    unfold replaceRaw
    simp only [h1, if_true]
    rfl

end Dns.Tie
