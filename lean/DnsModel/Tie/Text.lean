/-
  DnsModel.Tie.Text — `copy_raw_name_from_str` (synth/gen.rs), the host-name text → wire conversion C14 is about
  (and every record builder of C13 goes through), as translated from the current source
  (`Generated/TrText.lean`) is the model function `copyRawNameFromStr` (Synth.lean).

  The source slices `name[label_start..i]` / `name[label_start..]` (panicking out of range) and increments a
  `u8` counter (panicking on overflow); the model uses `drop`/`take` and `Nat`.  The loop lemma carries the
  invariant that makes them agree: a label in progress started at or before the current index, and is at most
  62 bytes long.
-/
import DnsModel.Synth
import DnsModel.Generated.TrText
import DnsModel.Tie.Reader
namespace Dns.Tie
open Dns

theorem slice_ok {p : Bytes} {a b : Nat} (h1 : a ≤ b) (h2 : b ≤ p.length) :
    slice p a b = .ok ((p.drop a).take (b - a)) := by simp [slice, h1, h2]

theorem sliceFrom_ok {p : Bytes} {a : Nat} (h : a ≤ p.length) : sliceFrom p a = .ok (p.drop a) := by
  simp [sliceFrom, h]

def NameInv (_name : Bytes) (i : Nat) (st : NameSt) : Prop :=
  st.labelLen ≤ 62 ∧ (st.labelLen > 0 → st.labelStart ≤ i)

theorem name_loop_eq (name : Bytes) (rest : Bytes) (i : Nat) (st : NameSt)
    (hi : i + rest.length = name.length) (inv : NameInv name i st) :
    Tr.Text.copy_raw_name_from_str_each1 name rest i st.out st.labelLen st.labelStart
        = (rawNameLoop name rest i st >>= fun st' => Res.ok (st'.out, st'.labelLen, st'.labelStart)) ∧
      ∀ st', rawNameLoop name rest i st = .ok st' → NameInv name name.length st' ∧ st.out.length ≤ st'.out.length := by
  induction rest generalizing i st with
  | nil =>
    simp only [List.length_nil, Nat.add_zero] at hi
    subst hi
    exact ⟨by simp [Tr.Text.copy_raw_name_from_str_each1, rawNameLoop], by
      intro st' h; simp [rawNameLoop] at h; subst h; exact ⟨inv, Nat.le_refl _⟩⟩
  | cons c rest ih =>
    obtain ⟨hl, hs⟩ := inv
    simp only [List.length_cons] at hi
    unfold Tr.Text.copy_raw_name_from_str_each1 rawNameLoop
    have hc : (c.toNat == 0x2e) = (c == 46) := (u8_beq c 46).symm
    simp only [hc]
    by_cases hdot : (c == 46) = true
    · by_cases h0 : st.labelLen = 0
      · -- a dot with no label in progress
        simp only [hdot, h0, beq_self_eq_true, Bool.and_self, if_true]
        by_cases h1 : name.length = 1
        · have := ih (i + 1) st (by omega) ⟨hl, by omega⟩
          simp only [h0] at this
          simpa [h1] using this
        · simp [h1]
      · -- a dot closing a label
        have h0' : (st.labelLen == 0) = false := by simpa using h0
        simp only [hdot, h0', Bool.and_false, Bool.false_eq_true, if_false, if_true]
        rw [slice_ok (hs (by omega)) (by omega)]
        have := ih (i + 1) ⟨st.out ++ [UInt8.ofNat st.labelLen] ++ (name.drop st.labelStart).take (i - st.labelStart), 0,
          st.labelStart⟩ (by omega) ⟨by simp, by simp⟩
        refine ⟨by simpa using this.1, ?_⟩
        intro st' h
        obtain ⟨g1, g2⟩ := this.2 st' (by simpa using h)
        refine ⟨g1, ?_⟩
        simp only [List.length_append] at g2
        omega
    · simp only [hdot, Bool.false_and, Bool.false_eq_true, if_false]
      by_cases h62 : st.labelLen ≥ 63 - 1
      · have : st.labelLen ≥ 0x3e := h62
        simp [this, h62]
      · have h62' : ¬ st.labelLen ≥ 0x3e := h62
        simp only [h62, h62', decide_false, Bool.false_eq_true, if_false]
        by_cases h128 : c.toNat > 128
        · have : c.toNat > 0x80 := h128
          simp [h128, this]
        · have h128' : ¬ c.toNat > 0x80 := h128
          simp only [h128, h128', decide_false, Bool.false_eq_true, if_false]
          have hck : Tr.checked 256 (st.labelLen + 1) = .ok (st.labelLen + 1) := by
            simp [Tr.checked]; omega
          by_cases h0 : st.labelLen = 0
          · have := ih (i + 1) { st with labelStart := i, labelLen := 1 } (by omega) ⟨by simp, by simp⟩
            simp only [h0] at hck
            simpa [h0, hck] using this
          · have h0' : (st.labelLen == 0) = false := by simpa using h0
            have := ih (i + 1) { st with labelLen := st.labelLen + 1 } (by omega) ⟨by simp; omega, by intro _; simp; omega⟩
            simpa [h0', hck] using this

theorem copy_raw_name_from_str_eq (raw name : Bytes) (zone : Option Bytes) :
    Tr.Text.copy_raw_name_from_str raw name zone = copyRawNameFromStr raw name zone := by
  unfold Tr.Text.copy_raw_name_from_str copyRawNameFromStr
  by_cases hlen : name.length > 253
  · have : name.length > 0xfd := hlen
    simp [failIf, hlen, this]
  · have hlen' : ¬ name.length > 0xfd := hlen
    simp only [failIf, hlen, hlen', decide_false, Bool.false_eq_true, if_false, Res.bind_ok]
    obtain ⟨heq, hinv⟩ := name_loop_eq name name 0 { out := raw } (by simp) ⟨by simp, by simp⟩
    simp only at heq
    rw [heq]
    cases hl : rawNameLoop name name 0 { out := raw } with
    | ok st =>
      obtain ⟨⟨_, hs⟩, hgrow⟩ := hinv st hl
      simp only at hgrow
      simp only [Res.bind_ok, assert, DNS_MAX_HOSTNAME_LEN]
      by_cases h0 : st.labelLen = 0
      · simp only [h0, beq_self_eq_true, if_true, sub, bind_ite, Res.bind_ok, Res.bind_err, Res.bind_panic, Res.pure_eq]
        grind
      · have h0' : (st.labelLen == 0) = false := by simpa using h0
        simp only [h0', Bool.false_eq_true, if_false]
        rw [sliceFrom_ok (hs (by omega))]
        cases zone <;> simp only [Res.bind_ok, sub, bind_ite, Res.bind_err, Res.bind_panic, Res.pure_eq] <;> grind
    | err e => simp
    | panic => simp
    | diverge => simp

end Dns.Tie
