/-
  DnsModel.Sector — `DNSSector`: cursor primitives and `parse()` (dns_sector.rs),
  check by check in source order.  The packet is immutable during validation and is passed as
  a parameter; the mutable part of `DNSSector` is the record `Sector`.
-/
import DnsModel.Name
namespace Dns

structure Sector where
  offset : Nat
  ednsStart : Option Nat := none
  ednsEnd : Option Nat := none
  ednsCount : Nat := 0
  extRcode : Option Nat := none
  ednsVersion : Option Nat := none
  extFlags : Option Nat := none
  maxPayload : Nat := 512
  deriving Repr, DecidableEq

inductive Section | question | answer | nameServers | additional | edns
  deriving Repr, DecidableEq, Inhabited

/-- what `parse()` hands back besides the bytes: the public fields of `ParsedPacket` -/
structure View where
  offsetQuestion : Option Nat
  offsetAnswers : Option Nat
  offsetNameservers : Option Nat
  offsetAdditional : Option Nat
  offsetEdns : Option Nat
  ednsCount : Nat
  extRcode : Option Nat
  ednsVersion : Option Nat
  extFlags : Option Nat
  maxPayload : Nat
  deriving Repr, DecidableEq

namespace Sector

def new : Sector := { offset := 0 }

/-- `remaining_len`: `self.packet.len() - self.offset` -/
def remainingLen (p : Bytes) (s : Sector) : Res Nat := sub p.length s.offset

def ensureRemainingLen (p : Bytes) (s : Sector) (len : Nat) : Res Unit := do
  let r ← remainingLen p s
  failIf (r < len) .packetTooSmall

/-- returns the new state and the previous offset -/
def setOffset (p : Bytes) (s : Sector) (offset : Nat) : Res (Sector × Nat) :=
  if offset ≥ p.length then .err .internalError
  else .ok ({ s with offset := offset }, s.offset)

def incrementOffset (p : Bytes) (s : Sector) (n : Nat) : Res (Sector × Nat) := do
  ensureRemainingLen p s n
  pure ({ s with offset := s.offset + n }, s.offset)

def u8Load (p : Bytes) (s : Sector) (rrOffset : Nat) : Res Nat := do
  ensureRemainingLen p s (rrOffset + 1)
  idx p (s.offset + rrOffset)

def be16Load (p : Bytes) (s : Sector) (rrOffset : Nat) : Res Nat := do
  ensureRemainingLen p s (rrOffset + 2)
  be16 p (s.offset + rrOffset)

def skipName (p : Bytes) (s : Sector) : Res Sector := do
  let off ← checkCompressedName p s.offset
  let (s', _) ← setOffset p s off
  pure s'

def rrType (p : Bytes) (s : Sector) : Res Nat := be16Load p s DNS_RR_TYPE_OFFSET
def rrClass (p : Bytes) (s : Sector) : Res Nat := be16Load p s DNS_RR_CLASS_OFFSET
def rrRdlen (p : Bytes) (s : Sector) : Res Nat := be16Load p s DNS_RR_RDLEN_OFFSET

def ensureInClass (p : Bytes) (s : Sector) : Res Unit := do
  let c ← rrClass p s
  failIf (c != CLASS_IN) .unsupportedClass

def parseQuestion (p : Bytes) (s : Sector) : Res Sector := do
  let s ← skipName p s
  ensureInClass p s
  let c ← rrClass p s
  failIf (c != CLASS_IN) .unsupportedClass
  let (s, _) ← incrementOffset p s DNS_RR_QUESTION_HEADER_SIZE
  pure s

def ednsRemainingLen (s : Sector) : Res Nat :=
  match s.ednsEnd with
  | none => .ok 0
  | some e => sub e s.offset

def ednsEnsureRemainingLen (s : Sector) (len : Nat) : Res Unit := do
  let r ← ednsRemainingLen s
  failIf (r < len) .packetTooSmall

def ednsIncrementOffset (s : Sector) (n : Nat) : Res Sector := do
  ednsEnsureRemainingLen s n
  pure { s with offset := s.offset + n }

def ednsBe16Load (p : Bytes) (s : Sector) (rrOffset : Nat) : Res Nat := do
  ednsEnsureRemainingLen s (rrOffset + 2)
  let hi ← idx p (s.offset + rrOffset)
  let lo ← idx p (s.offset + rrOffset + 1)
  pure (hi * 256 + lo)

/-- public: `edns_rr_rdlen` -/
def ednsRrRdlen (p : Bytes) (s : Sector) : Res Nat := ednsBe16Load p s DNS_EDNS_RR_RDLEN_OFFSET

def ednsSkipRr (p : Bytes) (s : Sector) : Res Sector := do
  let l ← ednsRrRdlen p s
  ednsIncrementOffset s (DNS_EDNS_RR_HEADER_SIZE + l)

/-- `while self.edns_remaining_len() > 0 { self.edns_skip_rr()?; self.edns_count += 1 }` -/
def optLoop (p : Bytes) : Nat → Sector → Res Sector
  | 0, _ => .diverge
  | fuel+1, s => do
    let r ← ednsRemainingLen s
    if r > 0 then
      let s ← ednsSkipRr p s
      optLoop p fuel { s with ednsCount := s.ednsCount + 1 }
    else pure s

/-- `parse_opt`. The five loads happen in source order; the fields they set are not read again
before the end, so the record update is done once (an early error discards the state anyway). -/
def parseOpt (p : Bytes) (s : Sector) : Res Sector := do
  failIf s.ednsEnd.isSome .invalidPacket
  let extRcode ← u8Load p s DNS_OPT_RR_EXT_RCODE_OFFSET
  let ver ← u8Load p s DNS_OPT_RR_EDNS_VERSION_OFFSET
  let mp ← be16Load p s DNS_OPT_RR_MAX_PAYLOAD_OFFSET
  let fl ← be16Load p s DNS_OPT_RR_EDNS_EXT_FLAGS_OFFSET
  let ednsLen ← be16Load p s DNS_OPT_RR_RDLEN_OFFSET
  let (s1, _) ← incrementOffset p s DNS_OPT_RR_HEADER_SIZE
  ensureRemainingLen p s1 ednsLen
  optLoop p (ednsLen / DNS_EDNS_RR_HEADER_SIZE + 2)
    { s1 with extRcode := some extRcode, ednsVersion := some ver, maxPayload := mp, extFlags := some fl,
              ednsStart := some s1.offset, ednsEnd := some (s1.offset + ednsLen), ednsCount := 0 }

/-- `parse_rr` -/
def parseRR (p : Bytes) (s : Sector) (sec : Section) : Res Sector := do
  let rrStart := s.offset
  let s ← skipName p s
  let rrType ← rrType p s
  let rrRdlen ← rrRdlen p s
  if rrType == TYPE_OPT then
    failIf (sec != .additional) .invalidPacket
    let d ← sub s.offset rrStart
    failIf (d != 1) .invalidPacket
    parseOpt p s
  else if rrType == TYPE_NS || rrType == TYPE_CNAME || rrType == TYPE_PTR then
    failIf (rrRdlen == 0) .packetTooSmall
    let (s, _) ← incrementOffset p s DNS_RR_HEADER_SIZE
    let fin ← checkCompressedName p s.offset
    let d ← sub fin s.offset
    failIf (d != rrRdlen) .invalidPacket
    let (s, _) ← incrementOffset p s rrRdlen
    pure s
  else if rrType == TYPE_MX then
    failIf (rrRdlen ≤ 2) .packetTooSmall
    let (s, _) ← incrementOffset p s DNS_RR_HEADER_SIZE
    let fin ← checkCompressedName p (s.offset + 2)
    let d ← sub fin s.offset
    failIf (d != rrRdlen) .invalidPacket
    let (s, _) ← incrementOffset p s rrRdlen
    pure s
  else if rrType == TYPE_SOA then
    failIf (rrRdlen ≤ 1 + 20) .packetTooSmall
    let (s, _) ← incrementOffset p s DNS_RR_HEADER_SIZE
    let fin1 ← checkCompressedName p s.offset
    let fin2 ← checkCompressedName p fin1
    let d ← sub fin2 s.offset
    let e ← sub rrRdlen 20
    failIf (d != e) .invalidPacket
    let (s, _) ← incrementOffset p s rrRdlen
    pure s
  else if rrType == TYPE_DNAME then
    failIf (rrRdlen == 0) .packetTooSmall
    let (s, _) ← incrementOffset p s DNS_RR_HEADER_SIZE
    let fin ← checkUncompressedName p s.offset
    let d ← sub fin s.offset
    failIf (d != rrRdlen) .invalidPacket
    let (s, _) ← incrementOffset p s rrRdlen
    pure s
  else if rrType == TYPE_A then
    failIf (rrRdlen != 4) .invalidPacket
    let (s, _) ← incrementOffset p s (DNS_RR_HEADER_SIZE + rrRdlen)
    pure s
  else if rrType == TYPE_AAAA then
    failIf (rrRdlen != 16) .invalidPacket
    let (s, _) ← incrementOffset p s (DNS_RR_HEADER_SIZE + rrRdlen)
    pure s
  else
    let (s, _) ← incrementOffset p s (DNS_RR_HEADER_SIZE + rrRdlen)
    pure s

/-- `for _ in 0..count { self.parse_rr(section)? }` -/
def parseRRs (p : Bytes) (sec : Section) : Nat → Sector → Res Sector
  | 0, s => .ok s
  | n+1, s => do
    let s ← parseRR p s sec
    parseRRs p sec n s

end Sector

open Sector in
/-- `DNSSector::new(packet)?.parse()` ; on success the packet is handed back unchanged -/
def parse (p : Bytes) : Res View := do
  let s := Sector.new
  failIf (p.length < DNS_HEADER_SIZE) .packetTooSmall
  let flags ← be16 p DNS_FLAGS_OFFSET
  let isResponse := flags &&& DNS_FLAG_QR == DNS_FLAG_QR
  let qdcount ← be16 p 4
  failIf (qdcount == 0) .invalidPacket
  failIf (qdcount > 1) .invalidPacket
  let (s, _) ← setOffset p s DNS_QUESTION_OFFSET
  let offsetQuestion := some s.offset
  let s ← parseQuestion p s
  let ancount ← be16 p 6
  failIf (!isResponse && ancount > 0) .invalidPacket
  let offsetAnswers := if ancount > 0 then some s.offset else none
  let s ← parseRRs p .answer ancount s
  let nscount ← be16 p 8
  failIf (!isResponse && nscount > 0) .invalidPacket
  let offsetNameservers := if nscount > 0 then some s.offset else none
  let s ← parseRRs p .nameServers nscount s
  let arcount ← be16 p 10
  let offsetAdditional := if arcount > 0 then some s.offset else none
  let s ← parseRRs p .additional arcount s
  let r ← remainingLen p s
  failIf (r > 0) .invalidPacket
  pure { offsetQuestion, offsetAnswers, offsetNameservers, offsetAdditional,
         offsetEdns := s.ednsStart, ednsCount := s.ednsCount, extRcode := s.extRcode,
         ednsVersion := s.ednsVersion, extFlags := s.extFlags, maxPayload := s.maxPayload }

end Dns
