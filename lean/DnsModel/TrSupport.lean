/-
  DnsModel.TrSupport — the few definitions the output of rs2lean.py refers to besides those of Basic.lean.
-/
import DnsModel.Basic
namespace Dns.Tr

/-- overflow-checked `+` / `*` on a fixed-width unsigned integer (debug build) -/
def checked (bound v : Nat) : Res Nat := if v < bound then .ok v else .panic

/-- `u8::to_ascii_lowercase` -/
def asciiLower (c : Nat) : Nat := if 65 ≤ c ∧ c ≤ 90 then c + 32 else c

end Dns.Tr
