/-
  DnsModel.TrSupport — the few definitions the output of rs2lean.py refers to besides those of Basic.lean.
-/
import DnsModel.Basic
namespace Dns.Tr

/-- overflow-checked `+` / `*` on a fixed-width unsigned integer (debug build) -/
def checked (bound v : Nat) : Res Nat := if v < bound then .ok v else .panic

/-- `u8::to_ascii_lowercase` -/
def asciiLower (c : Nat) : Nat := if 65 ≤ c ∧ c ≤ 90 then c + 32 else c

/-- `Vec::resize(n, x)` -/
def vecResize (v : Bytes) (n x : Nat) : Bytes :=
  if n ≤ v.length then v.take n else v ++ List.replicate (n - v.length) (UInt8.ofNat x)

/-- `v.copy_within(a..b, dest)` (memmove inside the vector; panics when a range is out of bounds) -/
def copyWithin (v : Bytes) (a b dest : Nat) : Res Bytes :=
  if a ≤ b ∧ b ≤ v.length ∧ dest + (b - a) ≤ v.length then
    .ok (v.take dest ++ (v.drop a).take (b - a) ++ v.drop (dest + (b - a)))
  else .panic

/-- `v[a..b].copy_from_slice(src)` (panics when the range is out of bounds or the lengths differ) -/
def copyFromSlice (v : Bytes) (a b : Nat) (src : Bytes) : Res Bytes :=
  if a ≤ b ∧ b ≤ v.length ∧ src.length = b - a then .ok (v.take a ++ src ++ v.drop b) else .panic

/-- `Option::unwrap` -/
def unwrapOpt {α : Type} : Option α → Res α
  | some a => .ok a
  | none => .panic

end Dns.Tr
