/-
  DnsModel.Synth — the text front end: `copy_raw_name_from_str` and the record builders
  (synth/gen.rs) and a deterministic recogniser for the record grammar of synth/parser.rs
  (the chomp combinators it is built from are described in DESIGN.md, Appendix A).
-/
import DnsModel.Name
namespace Dns

/-! ### host name text → wire -/

structure NameSt where
  out : Bytes
  labelLen : Nat := 0
  labelStart : Nat := 0

/-- the `for (i, &c) in name.iter().enumerate()` loop of `copy_raw_name_from_str` -/
def rawNameLoop (name : Bytes) : List UInt8 → Nat → NameSt → Res NameSt
  | [], _, st => .ok st
  | c :: rest, i, st =>
    if c == 46 && st.labelLen == 0 then
      if name.length != 1 then .err .invalidName else rawNameLoop name rest (i + 1) st
    else if c == 46 then
      rawNameLoop name rest (i + 1)
        { st with out := st.out ++ [UInt8.ofNat st.labelLen] ++ (name.drop st.labelStart).take (i - st.labelStart),
                  labelLen := 0 }
    else if st.labelLen ≥ 63 - 1 then .err .invalidName
    else if c.toNat > 128 then .err .invalidName
    else if st.labelLen == 0 then rawNameLoop name rest (i + 1) { st with labelStart := i, labelLen := 1 }
    else rawNameLoop name rest (i + 1) { st with labelLen := st.labelLen + 1 }

/-- `copy_raw_name_from_str(raw_name, name, raw_zone)`: returns the extended `raw_name` -/
def copyRawNameFromStr (rawName name : Bytes) (zone : Option Bytes) : Res Bytes := do
  let initialLen := rawName.length
  failIf (name.length > 253) .invalidName
  let st ← rawNameLoop name name 0 { out := rawName }
  let out :=
    if st.labelLen == 0 then st.out ++ [0]
    else
      let o := st.out ++ [UInt8.ofNat st.labelLen] ++ name.drop st.labelStart
      match zone with
      | none => o ++ [0]
      | some z => o ++ z
  failIf (out.length - initialLen > 253) .invalidName
  pure out

def rawNameFromStr (name : Bytes) (zone : Option Bytes) : Res Bytes := copyRawNameFromStr [] name zone

/-! ### builders -/

structure RRHeader where
  name : Bytes
  ttl : Nat
  rrType : Nat

/-- `RR::new` -/
def rrNew (h : RRHeader) (rdata : Bytes) : Res Bytes := do
  failIf (rdata.length > 0xffff) .invalidPacket
  let p ← copyRawNameFromStr [] h.name none
  pure (p ++ put16 h.rrType ++ put16 CLASS_IN ++ put32 h.ttl ++ put16 rdata.length ++ rdata)

/-- `RR::new_question` -/
def rrNewQuestion (name : Bytes) (rrType cls : Nat) : Res Bytes := do
  let p ← copyRawNameFromStr [] name none
  pure (p ++ put16 rrType ++ put16 cls)

def chunks255 : Nat → Bytes → Bytes
  | 0, _ => []
  | _, [] => []
  | fuel+1, b => UInt8.ofNat (min 255 b.length) :: (b.take 255 ++ chunks255 fuel (b.drop 255))

def buildTxt (h : RRHeader) (txt : Bytes) : Res Bytes := do
  failIf (txt.length > (4096 - DNS_HEADER_SIZE - 1 - DNS_RR_HEADER_SIZE) / 256 * 255) .invalidPacket
  rrNew h (chunks255 (txt.length + 1) txt)

def buildName (h : RRHeader) (name : Bytes) : Res Bytes := do
  let rd ← rawNameFromStr name none
  rrNew h rd

def buildMx (h : RRHeader) (pref : Nat) (host : Bytes) : Res Bytes := do
  let rd ← copyRawNameFromStr (put16 pref) host none
  rrNew h rd

def buildSoa (h : RRHeader) (ns contact : Bytes) (nums : List Nat) : Res Bytes := do
  let rd ← copyRawNameFromStr [] ns none
  let rd ← copyRawNameFromStr rd contact none
  rrNew h (rd ++ (nums.map put32).flatten)

def buildDs (h : RRHeader) (tag alg dt : Nat) (digest : Bytes) : Res Bytes :=
  rrNew h (put16 tag ++ [UInt8.ofNat alg, UInt8.ofNat dt] ++ digest)

/-! ### recogniser of the record text -/

abbrev P (α : Type) := Bytes → Option (α × Bytes)

def isHws (c : UInt8) : Bool := c == 32 || c == 9
def isWs (c : UInt8) : Bool := (9 ≤ c.toNat && c.toNat ≤ 13) || c == 32
def isDigit (c : UInt8) : Bool := 48 ≤ c.toNat && c.toNat ≤ 57
def isAlpha (c : UInt8) : Bool := (97 ≤ c.toNat && c.toNat ≤ 122) || (65 ≤ c.toNat && c.toNat ≤ 90)
def isHexDigit (c : UInt8) : Bool := isDigit c || (97 ≤ c.toNat && c.toNat ≤ 102) || (65 ≤ c.toNat && c.toNat ≤ 70)

def skipWhile (f : UInt8 → Bool) (i : Bytes) : Bytes := i.dropWhile f
def takeWhile1 (f : UInt8 → Bool) : P Bytes := fun i =>
  let t := i.takeWhile f
  if t.isEmpty then none else some (t, i.drop t.length)

/-- `skip_horizontal_whitespaces`: one or more -/
def skipHws1 (i : Bytes) : Option Bytes :=
  match i with
  | c :: r => if isHws c then some (skipWhile isHws r) else none
  | [] => none

def tokenP (c : UInt8) (i : Bytes) : Option Bytes :=
  match i with
  | x :: r => if x == c then some r else none
  | [] => none

/-- checked decimal accumulation bounded by `max` -/
def decimalMax (max : Nat) : P Nat := fun i =>
  match takeWhile1 isDigit i with
  | none => none
  | some (ds, rest) =>
    let v := ds.foldl (fun (acc : Option Nat) d =>
      match acc with
      | none => none
      | some a =>
        let m := a * 10
        if m > max then none else
        let s := m + (d.toNat - 48)
        if s > max then none else some s) (some 0)
    v.map (fun n => (n, rest))

/-- state of the `hostname_parser` predicate -/
structure HostSt where
  labelLen : Nat := 0
  nameLen : Nat := 0
  onlyNumeric : Bool := true
  formatErr : Bool := false

/-- one call of the stateful `take_while1` predicate: new state and verdict -/
def hostPred (st : HostSt) (c : UInt8) : HostSt × Bool :=
  let st := { st with nameLen := st.nameLen + 1 }
  if c == 46 && st.labelLen == 0 then
    if st.nameLen != 1 then ({ st with formatErr := true }, false)
    else ({ st with onlyNumeric := false }, true)
  else if c == 46 then ({ st with labelLen := 0 }, true)
  else if st.labelLen ≥ 63 - 1 && (c == 45 || isAlpha c || isDigit c) then ({ st with formatErr := true }, false)
  else if (c == 95 && st.labelLen == 0) || (c == 45 && st.labelLen > 0) || isAlpha c then
    ({ st with onlyNumeric := false, labelLen := st.labelLen + 1 }, true)
  else if isDigit c then ({ st with labelLen := st.labelLen + 1 }, true)
  else (st, false)

def hostLoop : Bytes → HostSt → Bytes → HostSt × Bytes × Bytes
  | [], st, acc => (st, acc.reverse, [])
  | c :: r, st, acc =>
    let (st', ok) := hostPred st c
    if ok then hostLoop r st' (c :: acc) else (st', acc.reverse, c :: r)

def hostnameP : P Bytes := fun i =>
  let (st, name, rest) := hostLoop i {} []
  if name.isEmpty then none
  else if st.formatErr || (st.onlyNumeric && st.labelLen == 0) then none
  else some (name, rest)

def eofP (i : Bytes) : Option Unit := if i.isEmpty then some () else none

/-- `… maybe_skip_horizontal_whitespaces(); eof()` -/
def endP (i : Bytes) : Option Unit := eofP (skipWhile isHws i)

def ipv4P : P Bytes := fun i => do
  let (a, i) ← decimalMax 255 i
  let i ← tokenP 46 i
  let (b, i) ← decimalMax 255 i
  let i ← tokenP 46 i
  let (c, i) ← decimalMax 255 i
  let i ← tokenP 46 i
  let (d, i) ← decimalMax 255 i
  pure ([UInt8.ofNat a, UInt8.ofNat b, UInt8.ofNat c, UInt8.ofNat d], i)

def hexDigitVal (c : UInt8) : Nat :=
  if isDigit c then c.toNat - 48 else if c.toNat ≥ 97 then c.toNat - 87 else c.toNat - 55

/-- std `read_number(16, Some(4), true)`: 1–4 hex digits; a fifth digit makes the group fail -/
def v6Number (i : Bytes) : Option (Nat × Bytes) :=
  let ds := i.takeWhile isHexDigit
  if ds.isEmpty || ds.length > 4 then none
  else some (ds.foldl (fun a d => a * 16 + hexDigitVal d) 0, i.drop ds.length)

/-- std `read_groups`: up to `limit` groups, each after the first preceded by ':' -/
def v6Groups : Nat → Nat → Bytes → List Nat → List Nat × Bytes
  | 0, _, i, acc => (acc.reverse, i)
  | limit+1, idx, i, acc =>
    let r : Option (Nat × Bytes) :=
      if idx > 0 then (match tokenP 58 i with | some i' => v6Number i' | none => none) else v6Number i
    match r with
    | some (g, i') => v6Groups limit (idx + 1) i' (g :: acc)
    | none => (acc.reverse, i)

/-- `Ipv6Addr::from_str` on a string of hex digits and colons -/
def ipv6FromStr (s : Bytes) : Option Bytes :=
  let (head, i) := v6Groups 8 0 s []
  let groups : Option (List Nat) :=
    if head.length == 8 then (if i.isEmpty then some head else none)
    else
      match tokenP 58 i with
      | none => none
      | some i =>
        match tokenP 58 i with
        | none => none
        | some i =>
          let limit := 8 - (head.length + 1)
          let (tail, i) := v6Groups limit 0 i []
          if i.isEmpty then some (head ++ List.replicate (8 - head.length - tail.length) 0 ++ tail) else none
  groups.map (fun gs => (gs.map put16).flatten)

def ipv6P : P Bytes := fun i =>
  match takeWhile1 (fun c => isHexDigit c || c == 58) i with
  | none => none
  | some (s, rest) => (ipv6FromStr s).map (fun a => (a, rest))

/-- `maybe_escaped_char` -/
def escCharP : P UInt8 := fun i =>
  match i with
  | 92 :: a :: b :: c :: r =>
    if isDigit a && isDigit b && isDigit c then
      let v := (a.toNat - 48) * 100 + (b.toNat - 48) * 10 + (c.toNat - 48)
      if v ≤ 255 then some (UInt8.ofNat v, r) else none
    else none
  | c :: r => if c.toNat > 31 && c.toNat < 128 && c != 92 then some (c, r) else none
  | [] => none

/-- `many1(look_ahead(not_token '"') then maybe_escaped_char)` -/
def quotedBody : Nat → Bytes → Bytes → Bytes × Bytes
  | 0, i, acc => (acc.reverse, i)
  | fuel+1, i, acc =>
    match i with
    | [] => (acc.reverse, i)
    | c :: _ =>
      if c == 34 then (acc.reverse, i)
      else match escCharP i with
        | some (v, r) => quotedBody fuel r (v :: acc)
        | none => (acc.reverse, i)

def quotedP : P Bytes := fun i => do
  let i ← tokenP 34 i
  let (body, i) := quotedBody (i.length + 1) i []
  if body.isEmpty then none
  let i ← tokenP 34 i
  pure (body, i)

def hexPairs : Bytes → Option Bytes
  | [] => some []
  | [_] => none
  | a :: b :: r => (hexPairs r).map (fun t => UInt8.ofNat (hexDigitVal a * 16 + hexDigitVal b) :: t)

/-- `hexstring_parser` (after the D13 repair: an odd number of digits is a parse error) -/
def hexStringP : P Bytes := fun i =>
  match takeWhile1 isHexDigit i with
  | none => none
  | some (s, rest) => (hexPairs s).map (fun v => (v, rest))

def eqNoCase (a b : Bytes) : Bool := lowerBytes a == lowerBytes b

def rrTypeOfStr (s : Bytes) : Option Nat :=
  if eqNoCase s [65] then some TYPE_A
  else if eqNoCase s [65, 65, 65, 65] then some TYPE_AAAA
  else if eqNoCase s [78, 83] then some TYPE_NS
  else if eqNoCase s [67, 78, 65, 77, 69] then some TYPE_CNAME
  else if eqNoCase s [80, 84, 82] then some TYPE_PTR
  else if eqNoCase s [84, 88, 84] then some TYPE_TXT
  else if eqNoCase s [77, 88] then some TYPE_MX
  else if eqNoCase s [83, 79, 65] then some TYPE_SOA
  else if eqNoCase s [68, 83] then some TYPE_DS
  else none

/-- `rr_common_parser` followed by the separating blanks -/
def commonP : P RRHeader := fun i => do
  let i := skipWhile isHws i
  let (name, i) ← hostnameP i
  let i := skipWhile isHws i
  let (ttl, i) ← decimalMax 4294967295 i
  -- `<* horizontal_whitespace()`: exactly one blank is required here
  let i ← (match i with | c :: r => if isHws c then some r else none | [] => none)
  let i := skipWhile isHws i
  let i ← (match i with | c :: r => if c == 73 || c == 105 then some r else none | [] => none)
  let i ← (match i with | c :: r => if c == 78 || c == 110 then some r else none | [] => none)
  let i ← skipHws1 i
  let (ts, i) ← takeWhile1 (fun c => isAlpha c || isDigit c) i
  let t ← rrTypeOfStr ts
  let i ← skipHws1 i
  pure ({ name := name, ttl := ttl, rrType := t }, i)

/-- the rdata parsers with their builders; `none` = parse error -/
def rdataP (h : RRHeader) (i : Bytes) : Option (Res Bytes) :=
  if h.rrType == TYPE_A then do
    let (ip, i) ← ipv4P i
    endP i
    pure (rrNew h ip)
  else if h.rrType == TYPE_AAAA then do
    let (ip, i) ← ipv6P i
    endP i
    pure (rrNew h ip)
  else if h.rrType == TYPE_NS || h.rrType == TYPE_CNAME || h.rrType == TYPE_PTR then do
    let (n, i) ← hostnameP i
    endP i
    pure (buildName h n)
  else if h.rrType == TYPE_TXT then do
    let (t, i) ← quotedP i
    endP i
    pure (buildTxt h t)
  else if h.rrType == TYPE_MX then do
    let (pref, i) ← decimalMax 65535 i
    let i ← skipHws1 i
    let (n, i) ← hostnameP i
    endP i
    pure (buildMx h pref n)
  else if h.rrType == TYPE_SOA then do
    let (ns, i) ← hostnameP i
    let i ← skipHws1 i
    let (contact, i) ← hostnameP i
    let i := skipWhile isHws i
    let i ← tokenP 40 i
    let i := skipWhile isWs i
    let (a, i) ← decimalMax 4294967295 i
    let i := skipWhile isWs i
    let (b, i) ← decimalMax 4294967295 i
    let i := skipWhile isWs i
    let (c, i) ← decimalMax 4294967295 i
    let i := skipWhile isWs i
    let (d, i) ← decimalMax 4294967295 i
    let i := skipWhile isWs i
    let (e, i) ← decimalMax 4294967295 i
    let i := skipWhile isWs i
    let i ← tokenP 41 i
    endP i
    pure (buildSoa h ns contact [a, b, c, d, e])
  else if h.rrType == TYPE_DS then do
    let (tag, i) ← decimalMax 65535 i
    let i ← skipHws1 i
    let (alg, i) ← decimalMax 255 i
    let i ← skipHws1 i
    let (dt, i) ← decimalMax 255 i
    let i ← skipHws1 i
    let (dg, i) ← hexStringP i
    endP i
    pure (buildDs h tag alg dt dg)
  else none

/-- `RR::from_string`: the wire record, `ParseError`, or the builder's error -/
def synth (s : Bytes) : Res Bytes :=
  match commonP s with
  | none => .err .parseError
  | some (h, i) =>
    match rdataP h i with
    | none => .err .parseError
    | some r => r

end Dns
