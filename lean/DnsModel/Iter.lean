/-
  DnsModel.Iter — the trusted readers: `RRIterator` and the four section iterators
  (rr_iterator.rs, response_iterator.rs, question_iterator.rs, edns_iterator.rs) and the
  name readers of compress.rs.  No validation: an out-of-range read is a `panic`.
-/
import DnsModel.Packet
namespace Dns

/-! ### name readers (compress.rs) -/

/-- `RRIterator::skip_name` -/
def skipNameFast (p : Bytes) : Nat → Nat → Res Nat
  | 0, _ => .diverge
  | fuel+1, offset => do
    let b ← idx p offset
    if isPtr b then
      let d ← sub p.length offset
      assert (d > 2)
      pure (offset + 2)
    else
      let d ← sub p.length offset
      let d ← sub d 1
      assert (b < d)
      if b == 0 then pure (offset + b + 1) else skipNameFast p fuel (offset + b + 1)

def skipName (p : Bytes) (offset : Nat) : Res Nat := skipNameFast p (p.length + 1) offset

/-- `RRIterator::skip_rdata` -/
def skipRdata (p : Bytes) (offset : Nat) : Res Nat := do
  let l ← be16 p (offset + DNS_RR_RDLEN_OFFSET)
  pure (offset + DNS_RR_HEADER_SIZE + l)

/-- `RRIterator::edns_skip_rr` -/
def ednsSkipRrFast (p : Bytes) (offset : Nat) : Res Nat := do
  let l ← be16 p (offset + DNS_EDNS_RR_RDLEN_OFFSET)
  pure (offset + DNS_EDNS_RR_HEADER_SIZE + l)

/-- `Compress::copy_uncompressed_name`: returns (appended bytes, name_len, final_offset) -/
def copyUncompressedNameLoop (p : Bytes) : Nat → Nat → Bytes → Option Nat → Res (Bytes × Nat)
  | 0, _, _, _ => .diverge
  | fuel+1, offset, acc, final => do
    let b ← idx p offset
    if isPtr b then
      let w ← be16 p offset
      let new := w &&& 0x3fff
      assert (new < offset)
      copyUncompressedNameLoop p fuel new acc (final.or (some (offset + 2)))
    else
      let lab ← slice p offset (offset + 1 + b)
      if b == 0 then pure (acc ++ lab, final.getD (offset + 1 + b))
      else copyUncompressedNameLoop p fuel (offset + 1 + b) (acc ++ lab) final

def copyUncompressedName (p : Bytes) (offset : Nat) : Res (Bytes × Nat) :=
  copyUncompressedNameLoop p nameFuel offset [] none

/-- `Compress::raw_name_len` (no decompression; stops at the first pointer) -/
def rawNameLenLoop (name : Bytes) : Nat → Nat → Res Nat
  | 0, _ => .diverge
  | fuel+1, i => do
    let b ← idx name i
    if b == 0 then pure (i + 1)
    else if isPtr b then pure (i + 1 + 1)
    else rawNameLenLoop name fuel (i + b + 1)

def rawNameLen (name : Bytes) : Res Nat := rawNameLenLoop name (name.length + 1) 0

/-- `Compress::raw_name_len_after_decompression` -/
def rawNameLenAfterLoop (p : Bytes) : Nat → Nat → Nat → Res Nat
  | 0, _, _ => .diverge
  | fuel+1, offset, nameLen => do
    let b ← idx p offset
    if isPtr b then
      let w ← be16 p offset
      let new := w &&& 0x3fff
      assert (new < offset)
      rawNameLenAfterLoop p fuel new nameLen
    else
      if b == 0 then pure (nameLen + 1 + b)
      else rawNameLenAfterLoop p fuel (offset + 1 + b) (nameLen + 1 + b)

def rawNameLenAfterDecompression (p : Bytes) (offset : Nat) : Res Nat :=
  rawNameLenAfterLoop p nameFuel offset 0

/-- label bytes to text: a literal dot becomes `\046` -/
def escapeLabel (l : Bytes) : Bytes :=
  l.flatMap (fun c => if c == 46 then [92, 48, 52, 54] else [c])

/-- `Compress::raw_name_to_str` -/
def rawNameToStrLoop (p : Bytes) : Nat → Nat → Nat → Bytes → Res Bytes
  | 0, _, _, _ => .diverge
  | fuel+1, offset, indirections, res => do
    let b ← idx p offset
    if b == 0 then pure res
    else if isPtr b then
      let w ← be16 p offset
      let new := w &&& 0x3fff
      if new == offset || indirections > DNS_MAX_HOSTNAME_INDIRECTIONS then pure res
      else rawNameToStrLoop p fuel new (indirections + 1) res
    else
      let lab ← slice p (offset + 1) (offset + 1 + b)
      let res := if res.isEmpty then res else res ++ [46]
      rawNameToStrLoop p fuel (offset + 1 + b) indirections (res ++ escapeLabel lab)

def rawNameToStr (p : Bytes) (offset : Nat) : Res Bytes :=
  rawNameToStrLoop p (nameFuel + 20) offset 0 []

/-! ### cursors -/

structure Cursor where
  sec : Section
  offset : Option Nat := none
  offsetNext : Nat := 0
  nameEnd : Nat := 0
  rrsLeft : Nat := 0
  deriving Repr, DecidableEq

def Cursor.new (sec : Section) : Cursor := { sec := sec }

/-- `Option::unwrap` -/
def unwrap {α} : Option α → Res α
  | some a => .ok a
  | none => .panic

/-- position the cursor on the record starting at `offsetNext` (response sections) -/
def Cursor.land (p : Bytes) (c : Cursor) : Res Cursor := do
  let off := c.offsetNext
  let ne ← skipName p off
  let nx ← skipRdata p ne
  pure { c with offset := some off, nameEnd := ne, offsetNext := nx }

/-- `ResponseIterator::next_including_opt`; `none` = end of section -/
def nextIncludingOpt (pp : PP) (c : Cursor) : Res (Option Cursor) := do
  let c ← (match c.offset with
    | some _ => pure (some c)
    | none => do
      let (count, offset) ← (match c.sec with
        | .answer => do let n ← ancount pp.packet; pure (n, pp.offsetAnswers)
        | .nameServers => do let n ← nscount pp.packet; pure (n, pp.offsetNameservers)
        | .additional => do let n ← arcount pp.packet; pure (n, pp.offsetAdditional)
        | _ => (.panic : Res (Nat × Option Nat)))
      if count == 0 then pure none
      else
        let off ← unwrap offset
        pure (some { c with rrsLeft := count, offsetNext := off }) : Res (Option Cursor))
  match c with
  | none => pure none
  | some c =>
    if c.rrsLeft == 0 then pure none
    else
      let c ← Cursor.land pp.packet { c with rrsLeft := c.rrsLeft - 1 }
      pure (some c)

def Cursor.rrType (p : Bytes) (c : Cursor) : Res Nat := do
  let _ ← unwrap c.offset
  let _ ← sliceFrom p c.nameEnd
  be16 p (c.nameEnd + DNS_RR_TYPE_OFFSET)

def Cursor.rrClass (p : Bytes) (c : Cursor) : Res Nat := do
  let _ ← unwrap c.offset
  let _ ← sliceFrom p c.nameEnd
  be16 p (c.nameEnd + DNS_RR_CLASS_OFFSET)

def Cursor.rrTtl (p : Bytes) (c : Cursor) : Res Nat := do
  let _ ← unwrap c.offset
  let _ ← sliceFrom p c.nameEnd
  be32 p (c.nameEnd + DNS_RR_TTL_OFFSET)

def Cursor.rrRdlen (p : Bytes) (c : Cursor) : Res Nat := do
  let _ ← unwrap c.offset
  let _ ← sliceFrom p c.nameEnd
  be16 p (c.nameEnd + DNS_RR_RDLEN_OFFSET)

/-- `maybe_skip_opt_section` (with the D1 repair: the skipped OPT is counted) -/
def maybeSkipOpt (pp : PP) (c : Cursor) : Res (Option Cursor) := do
  let t ← c.rrType pp.packet
  if t == TYPE_OPT then
    if c.rrsLeft == 0 then pure none
    else
      let c ← Cursor.land pp.packet { c with rrsLeft := c.rrsLeft - 1 }
      let t ← c.rrType pp.packet
      assert (t != TYPE_OPT)
      pure (some c)
  else pure (some c)

/-- `ResponseIterator::next` -/
def nextSkippingOpt (pp : PP) (c : Cursor) : Res (Option Cursor) := do
  match ← nextIncludingOpt pp c with
  | none => pure none
  | some c => maybeSkipOpt pp c

/-- `QuestionIterator::next` -/
def nextQuestion (pp : PP) (c : Cursor) : Res (Option Cursor) := do
  let c ← (match c.offset with
    | some _ => pure (some c)
    | none => do
      let count ← qdcount pp.packet
      if count == 0 then pure none
      else
        assert (count == 1)
        let off ← unwrap pp.offsetQuestion
        pure (some { c with rrsLeft := count, offsetNext := off }) : Res (Option Cursor))
  match c with
  | none => pure none
  | some c =>
    if c.rrsLeft == 0 then pure none
    else
      let off := c.offsetNext
      let ne ← skipName pp.packet off
      pure (some { c with rrsLeft := c.rrsLeft - 1, offset := some off, nameEnd := ne,
                          offsetNext := ne + DNS_RR_QUESTION_HEADER_SIZE })

/-- `EdnsIterator::next` -/
def nextEdns (pp : PP) (c : Cursor) : Res (Option Cursor) := do
  let c ← (match c.offset with
    | some _ => pure (some c)
    | none => do
      if pp.ednsCount == 0 then pure none
      else
        let off ← unwrap pp.offsetEdns
        pure (some { c with rrsLeft := pp.ednsCount, offsetNext := off }) : Res (Option Cursor))
  match c with
  | none => pure none
  | some c =>
    if c.rrsLeft == 0 then pure none
    else
      let off := c.offsetNext
      let nx ← ednsSkipRrFast pp.packet off
      pure (some { c with rrsLeft := c.rrsLeft - 1, offset := some off, nameEnd := off, offsetNext := nx })

/-! ### accessors -/

/-- `TypedIterable::name` -/
def Cursor.name (p : Bytes) (c : Cursor) : Res Bytes := do
  let off ← unwrap c.offset
  if c.nameEnd ≤ off then pure []
  else
    let s ← rawNameToStr p off
    pure (lowerBytes s)

/-- `TypedIterable::copy_raw_name` (appended bytes) -/
def Cursor.rawName (p : Bytes) (c : Cursor) : Res Bytes := do
  let off ← unwrap c.offset
  if c.nameEnd ≤ off then pure []
  else
    let (n, _) ← copyUncompressedName p off
    pure n

inductive IpOrData | ip (b : Bytes) | data (b : Bytes)

/-- `rr_ip`: the address bytes (4 or 16) -/
def Cursor.rrIp (p : Bytes) (c : Cursor) : Res Bytes := do
  let t ← c.rrType p
  if t == TYPE_A then
    let rd ← sliceFrom p c.nameEnd
    assert (rd.length ≥ DNS_RR_HEADER_SIZE + 4)
    slice p (c.nameEnd + DNS_RR_HEADER_SIZE) (c.nameEnd + DNS_RR_HEADER_SIZE + 4)
  else if t == TYPE_AAAA then
    let rd ← sliceFrom p c.nameEnd
    assert (rd.length ≥ DNS_RR_HEADER_SIZE + 16)
    slice p (c.nameEnd + DNS_RR_HEADER_SIZE) (c.nameEnd + DNS_RR_HEADER_SIZE + 16)
  else .err .propertyNotFound

/-- `rr_rd` -/
def Cursor.rrRd (p : Bytes) (c : Cursor) : Res IpOrData :=
  match c.rrIp p with
  | .ok b => .ok (.ip b)
  | .panic => .panic
  | .diverge => .diverge
  | .err _ => do
    let l ← c.rrRdlen p
    let d ← slice p (c.nameEnd + DNS_RR_HEADER_SIZE) (c.nameEnd + DNS_RR_HEADER_SIZE + l)
    pure (.data d)

/-- `Option<usize>` ordering used by `current_section`: `None < Some _` -/
def optLt (a b : Option Nat) : Bool :=
  match a, b with
  | none, some _ => true
  | some x, some y => x < y
  | _, none => false
def optGe (a b : Option Nat) : Bool := !(optLt a b)

/-- `TypedIterable::current_section` -/
def Cursor.currentSection (pp : PP) (c : Cursor) : Res Section := do
  let offset := c.offset
  if optLt offset pp.offsetQuestion then .err .internalError
  else
    let s := Section.question
    let s := if pp.offsetAnswers.isSome && optGe offset pp.offsetAnswers then Section.answer else s
    let s := if pp.offsetNameservers.isSome && optGe offset pp.offsetNameservers then Section.nameServers else s
    let s := if pp.offsetAdditional.isSome && optGe offset pp.offsetAdditional then Section.additional else s
    pure s

/-! ### question accessors of `ParsedPacket` (with the cache) -/

/-- `question_raw0`: (name with trailing 0, type, class) and the updated cache -/
def questionRaw0 (pp : PP) : Res (Option (Bytes × Nat × Nat) × PP) :=
  match pp.cached with
  | some c => pure (some c, pp)
  | none =>
    match pp.offsetQuestion with
    | none => pure (none, pp)
    | some offset => do
      let (name, fin) ← copyUncompressedName pp.packet offset
      let _ ← sliceFrom pp.packet fin
      let t ← be16 pp.packet (fin + DNS_RR_TYPE_OFFSET)
      let cl ← be16 pp.packet (fin + DNS_RR_CLASS_OFFSET)
      pure (some (name, t, cl), { pp with cached := some (name, t, cl) })

/-- `question_raw`: name without the trailing 0 -/
def questionRaw (pp : PP) : Res (Option (Bytes × Nat × Nat) × PP) := do
  let (r, pp) ← questionRaw0 pp
  match r with
  | none => pure (none, pp)
  | some (n, t, c) =>
    let l ← sub n.length 1
    pure (some (n.take l, t, c), pp)

/-- `question()`: lowercase dotted text -/
def questionText (pp : PP) : Res (Option (Bytes × Nat × Nat)) :=
  match pp.cached with
  | some (n, t, c) => do
    let s ← rawNameToStr n 0
    pure (some (lowerBytes s, t, c))
  | none =>
    match pp.offsetQuestion with
    | none => pure none
    | some offset => do
      let s ← rawNameToStr pp.packet offset
      let rest ← sliceFrom pp.packet offset
      let l ← rawNameLen rest
      let o := offset + l
      let _ ← sliceFrom pp.packet o
      let t ← be16 pp.packet (o + DNS_RR_TYPE_OFFSET)
      let cl ← be16 pp.packet (o + DNS_RR_CLASS_OFFSET)
      pure (some (lowerBytes s, t, cl))

/-- `qtype_qclass` -/
def qtypeQclass (pp : PP) : Res (Option (Nat × Nat)) :=
  match pp.cached with
  | some (_, t, c) => pure (some (t, c))
  | none =>
    match pp.offsetQuestion with
    | none => pure none
    | some offset => do
      let rest ← sliceFrom pp.packet offset
      let l ← rawNameLen rest
      let o := offset + l
      let _ ← sliceFrom pp.packet o
      let t ← be16 pp.packet (o + DNS_RR_TYPE_OFFSET)
      let cl ← be16 pp.packet (o + DNS_RR_CLASS_OFFSET)
      pure (some (t, cl))

end Dns
