/-
  Spec.Wire — declarative well-formedness of names (and, below, records and packets).
  Written independently of the model's control flow.
-/
import DnsModel.Sector
namespace Dns


def goodChars (l : List UInt8) : Bool := !(l.any (fun c => badChar c.toNat))

def lab (p : Bytes) (off len : Nat) : List UInt8 := (p.drop (off+1)).take len

inductive Labels (p : Bytes) (bar : Nat) : Nat → List (List UInt8) → Nat → Prop
  | nil (off : Nat) : Labels p bar off [] off
  | cons {off len : Nat} {rest : List (List UInt8)} {stop : Nat} :
      off < bar → byteAt p off = some len → 1 ≤ len → len ≤ 63 → off + len + 1 ≤ p.length →
      Labels p bar (off + len + 1) rest stop →
      Labels p bar off (lab p off len :: rest) stop

def ptrTarget (hi lo : Nat) : Nat := (hi % 64) * 256 + lo

inductive NameAt (p : Bytes) : Nat → Nat → Nat → Nat → List (List UInt8) → Nat → Prop
  | root {bar low off refs : Nat} {ls : List (List UInt8)} {stop : Nat} :
      Labels p bar off ls stop → stop < bar → byteAt p stop = some 0 →
      NameAt p bar low off refs ls (stop + 1)
  | ptr {bar low off refs : Nat} {ls ls' : List (List UInt8)} {stop hi lo e' : Nat} :
      Labels p bar off ls stop → stop < bar →
      byteAt p stop = some hi → 192 ≤ hi → byteAt p (stop + 1) = some lo →
      ptrTarget hi lo < low → byteAt p (ptrTarget hi lo) ≠ some 0 → 0 < refs →
      NameAt p low (ptrTarget hi lo) (ptrTarget hi lo) (refs - 1) ls' e' →
      NameAt p bar low off refs (ls ++ ls') (stop + 2)

def wireLen (ls : List (List UInt8)) : Nat := (ls.map (fun l => l.length + 1)).sum + 1

def ValidName (p : Bytes) (off : Nat) (ls : List (List UInt8)) (e : Nat) : Prop :=
  off < p.length ∧ NameAt p p.length off off 16 ls e ∧ wireLen ls ≤ 255 ∧ ∀ l ∈ ls, goodChars l = true

theorem ptrTarget_eq (hi lo : Nat) (_h1 : hi < 256) (h2 : lo < 256) :
    (((hi &&& 0x3f) <<< 8) ||| lo) = ptrTarget hi lo := by
  unfold ptrTarget
  have e1 : hi &&& 0x3f = hi % 64 := Nat.and_two_pow_sub_one_eq_mod hi 6
  rw [e1, ← Nat.shiftLeft_add_eq_or_of_lt (by omega : lo < 2 ^ 8), Nat.shiftLeft_eq]

/-! ### records, sections, packets -/

/-- a pointer-free name with arbitrary label bytes (DNAME targets): labels of 1–63 bytes inside the
packet, a root byte, at most 255 bytes in all; `e` is the position after the root -/
def PlainName (p : Bytes) (off e : Nat) : Prop :=
  ∃ ls stop, Labels p p.length off ls stop ∧ stop < p.length ∧ byteAt p stop = some 0 ∧ e = stop + 1 ∧
    wireLen ls ≤ 255

/-- EDNS options tile `[a, b)` exactly: each is a 4-byte header (code, length) followed by `length` bytes -/
inductive OptionsTile (p : Bytes) : Nat → Nat → Nat → Prop
  | done (a : Nat) : OptionsTile p a a 0
  | opt {a b n : Nat} : a + 4 + get16 p (a + 2) ≤ b → OptionsTile p (a + 4 + get16 p (a + 2)) b n →
      OptionsTile p a b (n + 1)

/-- a name of the policy at `off` that ends at `e` -/
def NameEnds (p : Bytes) (off e : Nat) : Prop := ∃ ls, ValidName p off ls e

/-- the type-specific shape of the data `[rs, rs + l)` of a record of type `t ≠ OPT` -/
def RDataOK (p : Bytes) (t l rs : Nat) : Prop :=
  if t = 2 ∨ t = 5 ∨ t = 12 then l ≠ 0 ∧ NameEnds p rs (rs + l)
  else if t = 15 then 2 < l ∧ NameEnds p (rs + 2) (rs + l)
  else if t = 6 then 21 < l ∧ ∃ e1 e2, NameEnds p rs e1 ∧ NameEnds p e1 e2 ∧ e2 + 20 = rs + l
  else if t = 39 then l ≠ 0 ∧ PlainName p rs (rs + l)
  else if t = 1 then l = 4
  else if t = 28 then l = 16
  else True

/-- one record of section `sec` at `off`, ending at `next`; `ob`/`oa`: an OPT record was seen before / after -/
def RRAt (p : Bytes) (sec : Section) (off : Nat) (ob : Bool) (next : Nat) (oa : Bool) : Prop :=
  ∃ ne, NameEnds p off ne ∧ ne + 10 ≤ p.length ∧
    let t := get16 p ne
    let l := get16 p (ne + 8)
    next = ne + 10 + l ∧ next ≤ p.length ∧
    if t = 41 then
      sec = .additional ∧ ne = off + 1 ∧ ob = false ∧ oa = true ∧ ∃ n, OptionsTile p (ne + 10) next n
    else RDataOK p t l (ne + 10) ∧ oa = ob

/-- `n` consecutive records -/
inductive RRs (p : Bytes) (sec : Section) : Nat → Nat → Bool → Nat → Bool → Prop
  | nil (off : Nat) (o : Bool) : RRs p sec 0 off o off o
  | cons {n off mid e : Nat} {ob om oe : Bool} : RRAt p sec off ob mid om → RRs p sec n mid om e oe →
      RRs p sec (n + 1) off ob e oe

/-- **the acceptance policy of the parser**, stated on the bytes: a 12-byte header, exactly one
question of class IN, answer/authority records only in responses, every announced record well-formed
and inside the packet, at most one OPT (root-named, in the additional section, options tiling its
data), nothing left over. -/
def WF (p : Bytes) : Prop :=
  12 ≤ p.length ∧ get16 p 4 = 1 ∧
  ∃ qe, NameEnds p 12 qe ∧ qe + 4 ≤ p.length ∧ get16 p (qe + 2) = 1 ∧
    ((get16 p 2) / 32768 % 2 = 0 → get16 p 6 = 0 ∧ get16 p 8 = 0) ∧
    ∃ e2 o2 e3 o3 o4, RRs p .answer (get16 p 6) (qe + 4) false e2 o2 ∧
      RRs p .nameServers (get16 p 8) e2 o2 e3 o3 ∧ RRs p .additional (get16 p 10) e3 o3 p.length o4

end Dns
