/-
  Spec.Wire — declarative well-formedness of names (and, below, records and packets).
  Written independently of the model's control flow.
-/
import DnsModel.Name
namespace Dns


def goodChars (l : List UInt8) : Bool := !(l.any (fun c => badChar c.toNat))

def lab (p : Bytes) (off len : Nat) : List UInt8 := (p.drop (off+1)).take len

inductive Labels (p : Bytes) (bar : Nat) : Nat → List (List UInt8) → Nat → Prop
  | nil (off : Nat) : Labels p bar off [] off
  | cons {off len : Nat} {rest : List (List UInt8)} {stop : Nat} :
      off < bar → byteAt p off = some len → 1 ≤ len → len ≤ 63 → off + len + 1 ≤ p.length →
      Labels p bar (off + len + 1) rest stop →
      Labels p bar off (lab p off len :: rest) stop

def ptrTarget (hi lo : Nat) : Nat := (hi % 64) * 256 + lo

inductive NameAt (p : Bytes) : Nat → Nat → Nat → Nat → List (List UInt8) → Nat → Prop
  | root {bar low off refs : Nat} {ls : List (List UInt8)} {stop : Nat} :
      Labels p bar off ls stop → stop < bar → byteAt p stop = some 0 →
      NameAt p bar low off refs ls (stop + 1)
  | ptr {bar low off refs : Nat} {ls ls' : List (List UInt8)} {stop hi lo e' : Nat} :
      Labels p bar off ls stop → stop < bar →
      byteAt p stop = some hi → 192 ≤ hi → byteAt p (stop + 1) = some lo →
      ptrTarget hi lo < low → byteAt p (ptrTarget hi lo) ≠ some 0 → 0 < refs →
      NameAt p low (ptrTarget hi lo) (ptrTarget hi lo) (refs - 1) ls' e' →
      NameAt p bar low off refs (ls ++ ls') (stop + 2)

def wireLen (ls : List (List UInt8)) : Nat := (ls.map (fun l => l.length + 1)).sum + 1

def ValidName (p : Bytes) (off : Nat) (ls : List (List UInt8)) (e : Nat) : Prop :=
  off < p.length ∧ NameAt p p.length off off 16 ls e ∧ wireLen ls ≤ 255 ∧ ∀ l ∈ ls, goodChars l = true

theorem ptrTarget_eq (hi lo : Nat) (_h1 : hi < 256) (h2 : lo < 256) :
    (((hi &&& 0x3f) <<< 8) ||| lo) = ptrTarget hi lo := by
  unfold ptrTarget
  have e1 : hi &&& 0x3f = hi % 64 := Nat.and_two_pow_sub_one_eq_mod hi 6
  rw [e1, ← Nat.shiftLeft_add_eq_or_of_lt (by omega : lo < 2 ^ 8), Nat.shiftLeft_eq]

end Dns
