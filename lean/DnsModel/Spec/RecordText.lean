/-
  Spec.RecordText — the record-text grammar of `RR::from_string`, stated on the text, and the
  RFC 1035 wire form each text stands for.
  text  ::=  B* owner B+ ttl B+ "IN" B+ TYPE B+ rdata B*          (B = space or tab; keywords any case)
  owner ::=  "."  |  label ("." label)* ["."]                       (see `HostText`)
  rdata ::=  per type, see `RDataText`
-/
import DnsModel.Lemmas.Tokens
namespace Dns
open Res

def Blanks (b : Bytes) : Prop := ∀ c ∈ b, isHws c = true
def Blanks1 (b : Bytes) : Prop := b ≠ [] ∧ ∀ c ∈ b, isHws c = true
def Spaces (b : Bytes) : Prop := ∀ c ∈ b, isWs c = true
def Spaces1 (b : Bytes) : Prop := b ≠ [] ∧ ∀ c ∈ b, isWs c = true

/-- a host name of the grammar and the labels it stands for -/
def HostName (n : Bytes) (ls : List (List UInt8)) : Prop :=
  (n = [46] ∧ ls = []) ∨
  ∃ done cur, n = dotted done ++ cur ∧ (∀ l ∈ done, HostLabel l) ∧ (cur = [] ∨ HostLabel cur) ∧ n ≠ [] ∧
    ¬ (cur = [] ∧ ∀ l ∈ done, l.all isDigit = true) ∧ ls = C14.labelsOf done cur ∧ labSum ls + 1 ≤ 253

/-- the type keywords (any case) -/
def TypeWord (w : Bytes) (t : Nat) : Prop :=
  (lowerBytes w = [97] ∧ t = 1) ∨ (lowerBytes w = [97, 97, 97, 97] ∧ t = 28) ∨ (lowerBytes w = [110, 115] ∧ t = 2) ∨
  (lowerBytes w = [99, 110, 97, 109, 101] ∧ t = 5) ∨ (lowerBytes w = [112, 116, 114] ∧ t = 12) ∨
  (lowerBytes w = [116, 120, 116] ∧ t = 16) ∨ (lowerBytes w = [109, 120] ∧ t = 15) ∨ (lowerBytes w = [115, 111, 97] ∧ t = 6) ∨
  (lowerBytes w = [100, 115] ∧ t = 43)

/-- character-string chunks of a TXT record: the bytes cut into pieces of 255 (the last 1..255) -/
def txtWire : Nat → Bytes → Bytes
  | 0, _ => []
  | _, [] => []
  | fuel+1, b => UInt8.ofNat (min 255 b.length) :: (b.take 255 ++ txtWire fuel (b.drop 255))

/-- the data part: text and wire form, per type -/
inductive RDataText : Nat → Bytes → Bytes → Prop
  | a (d0 d1 d2 d3 : Bytes) : Numeral d0 → Numeral d1 → Numeral d2 → Numeral d3 →
      decVal d0 ≤ 255 → decVal d1 ≤ 255 → decVal d2 ≤ 255 → decVal d3 ≤ 255 →
      RDataText 1 (d0 ++ 46 :: (d1 ++ 46 :: (d2 ++ 46 :: d3)))
        [UInt8.ofNat (decVal d0), UInt8.ofNat (decVal d1), UInt8.ofNat (decVal d2), UInt8.ofNat (decVal d3)]
  | aaaa (s : Bytes) (gs : List Nat) : V6Text s gs → RDataText 28 s ((gs.map put16).flatten)
  | name (t : Nat) (n : Bytes) (ls : List (List UInt8)) : (t = 2 ∨ t = 5 ∨ t = 12) → HostName n ls →
      RDataText t n (encLabels ls ++ [0])
  | txt (body vs : Bytes) : QuotedText body vs → vs ≠ [] → vs.length ≤ 3825 →
      RDataText 16 (34 :: (body ++ [34])) (txtWire (vs.length + 1) vs)
  | mx (p b n : Bytes) (ls : List (List UInt8)) : Numeral p → decVal p ≤ 65535 → Blanks1 b → HostName n ls →
      RDataText 15 (p ++ (b ++ n)) (put16 (decVal p) ++ (encLabels ls ++ [0]))
  | soa (ns b1 ct b2 w0 n1 w1 n2 w2 n3 w3 n4 w4 n5 w5 : Bytes) (l1 l2 : List (List UInt8)) :
      HostName ns l1 → Blanks1 b1 → HostName ct l2 → Blanks b2 → Spaces w0 →
      Numeral n1 → Spaces1 w1 → Numeral n2 → Spaces1 w2 → Numeral n3 → Spaces1 w3 → Numeral n4 → Spaces1 w4 → Numeral n5 →
      Spaces w5 → decVal n1 ≤ 4294967295 → decVal n2 ≤ 4294967295 → decVal n3 ≤ 4294967295 → decVal n4 ≤ 4294967295 →
      decVal n5 ≤ 4294967295 →
      RDataText 6 (ns ++ (b1 ++ (ct ++ (b2 ++ 40 :: (w0 ++ (n1 ++ (w1 ++ (n2 ++ (w2 ++ (n3 ++ (w3 ++ (n4 ++ (w4 ++ (n5 ++ (w5 ++ [41])))))))))))))))
        ((encLabels l1 ++ [0]) ++ (encLabels l2 ++ [0]) ++
          (put32 (decVal n1) ++ put32 (decVal n2) ++ put32 (decVal n3) ++ put32 (decVal n4) ++ put32 (decVal n5)))
  | ds (tag b1 alg b2 dt b3 hex dg : Bytes) : Numeral tag → decVal tag ≤ 65535 → Blanks1 b1 → Numeral alg → decVal alg ≤ 255 →
      Blanks1 b2 → Numeral dt → decVal dt ≤ 255 → Blanks1 b3 → HexText hex dg → hex ≠ [] →
      RDataText 43 (tag ++ (b1 ++ (alg ++ (b2 ++ (dt ++ (b3 ++ hex))))))
        (put16 (decVal tag) ++ [UInt8.ofNat (decVal alg), UInt8.ofNat (decVal dt)] ++ dg)

/-- **the grammar**: a record text and the wire record it stands for -/
def RecordText (t rr : Bytes) : Prop :=
  ∃ (b0 owner b1 ttl b2 : Bytes) (cI cN : UInt8) (b3 tw b4 rdt b5 rd : Bytes) (ols : List (List UInt8)) (ty : Nat),
    t = b0 ++ (owner ++ (b1 ++ (ttl ++ (b2 ++ (cI :: cN :: (b3 ++ (tw ++ (b4 ++ (rdt ++ b5))))))))) ∧
    Blanks b0 ∧ HostName owner ols ∧ Blanks1 b1 ∧ Numeral ttl ∧ decVal ttl ≤ 4294967295 ∧ Blanks1 b2 ∧
    (cI = 73 ∨ cI = 105) ∧ (cN = 78 ∨ cN = 110) ∧ Blanks1 b3 ∧ TypeWord tw ty ∧ Blanks1 b4 ∧ RDataText ty rdt rd ∧ Blanks b5 ∧
    rd.length ≤ 65535 ∧
    rr = (encLabels ols ++ [0]) ++ (put16 ty ++ put16 1 ++ put32 (decVal ttl)) ++ put16 rd.length ++ rd

end Dns
