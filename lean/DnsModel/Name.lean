/-
  DnsModel.Name — the two untrusted-name validators:
  `Compress::check_compressed_name` (compress.rs) and `DNSSector::check_uncompressed_name`
  (dns_sector.rs), transliterated check by check, in the order the Rust code performs them.
-/
import DnsModel.Basic
import DnsModel.Generated.Constants
namespace Dns

/-- `c.is_ascii_control() || c == b'.' || c == b'\\' || c == 0` -/
def badChar (c : Nat) : Bool := c < 32 || c == 127 || c == 46 || c == 92

/-- `any` over packet[off+1 .. off+len+1] (slice indexing panics if out of range) -/
def labelHasBadChar (p : Bytes) (off len : Nat) : Res Bool :=
  if off + len + 1 > p.length then .panic
  else .ok (((p.drop (off+1)).take len).any (fun c => badChar c.toNat))

/-- loop state of `check_compressed_name` -/
structure NW where
  offset : Nat
  nameLen : Nat
  barrier : Nat
  lowest : Nat
  final : Option Nat
  refs : Nat

def ccnLoop (p : Bytes) : Nat → NW → Res Nat
  | 0, _ => .diverge
  | fuel+1, s =>
    if s.offset ≥ s.barrier then .err .invalidName else
    match idx p s.offset with
    | .ok len =>
      if isPtr len then
        if s.refs = 0 then .err .invalidName else
        if 2 > p.length - s.offset then .err .invalidName else
        match idx p (s.offset + 1) with
        | .ok lo =>
          let ref := ((len &&& 0x3f) <<< 8) ||| lo
          if ref = s.offset ∨ ref ≥ s.lowest then .err .invalidName else
          match idx p ref with
          | .ok t =>
            if !(isPtr t) && t < 1 then .err .invalidName else
            ccnLoop p fuel { s with final := s.final.or (some (s.offset + 2)), offset := ref,
                                    barrier := s.lowest, lowest := ref, refs := s.refs - 1 }
          | .err e => .err e | .panic => .panic | .diverge => .diverge
        | .err e => .err e | .panic => .panic | .diverge => .diverge
      else if len > 0x3f then .err .invalidName
      else if len ≥ p.length - s.offset then .err .invalidName
      else
        let nameLen := s.nameLen + len + 1
        if nameLen > DNS_MAX_HOSTNAME_LEN then .err .invalidName else
        match labelHasBadChar p s.offset len with
        | .ok true => .err .invalidName
        | .ok false =>
          if len = 0 then .ok (s.final.getD (s.offset + 1))
          else ccnLoop p fuel { s with offset := s.offset + len + 1, nameLen := nameLen }
        | .err e => .err e | .panic => .panic | .diverge => .diverge
    | .err e => .err e | .panic => .panic | .diverge => .diverge

/-- fuel for one name walk: at most 16 pointers and at most 255 label bytes, plus slack -/
def nameFuel : Nat := DNS_MAX_HOSTNAME_INDIRECTIONS + DNS_MAX_HOSTNAME_LEN + 2

def checkCompressedName (p : Bytes) (off : Nat) : Res Nat :=
  if off ≥ p.length then .err .internalError else
  ccnLoop p nameFuel { offset := off, nameLen := 0, barrier := p.length, lowest := off, final := none,
                       refs := DNS_MAX_HOSTNAME_INDIRECTIONS }

/-- loop of `check_uncompressed_name`; state = (offset, name_len) -/
def cunLoop (p : Bytes) : Nat → Nat → Nat → Res Nat
  | 0, _, _ => .diverge
  | fuel+1, offset, nameLen =>
    if offset ≥ p.length then .err .invalidName else
    match idx p offset with
    | .ok len =>
      if isPtr len then .err .invalidName
      else if len > 0x3f then .err .invalidName
      else if len ≥ p.length - offset then .err .invalidName
      else
        let nameLen := nameLen + len + 1
        if nameLen > DNS_MAX_HOSTNAME_LEN then .err .invalidName else
        if len = 0 then .ok (offset + len + 1)
        else cunLoop p fuel (offset + len + 1) nameLen
    | .err e => .err e | .panic => .panic | .diverge => .diverge

def checkUncompressedName (p : Bytes) (off : Nat) : Res Nat :=
  if off ≥ p.length then .err .internalError else
  cunLoop p nameFuel off 0

/-- unfold the generated numeric constants so that `omega` can see their values -/
macro "consts" : tactic =>
  `(tactic| try simp only [DNS_MAX_HOSTNAME_LEN, DNS_MAX_HOSTNAME_INDIRECTIONS, nameFuel, DNS_HEADER_SIZE,
      DNS_QUESTION_OFFSET, DNS_RR_QUESTION_HEADER_SIZE, DNS_RR_HEADER_SIZE, DNS_RR_TYPE_OFFSET,
      DNS_RR_CLASS_OFFSET, DNS_RR_TTL_OFFSET, DNS_RR_RDLEN_OFFSET, DNS_OPT_RR_MAX_PAYLOAD_OFFSET,
      DNS_OPT_RR_EXT_RCODE_OFFSET, DNS_OPT_RR_EDNS_VERSION_OFFSET, DNS_OPT_RR_EDNS_EXT_FLAGS_OFFSET,
      DNS_OPT_RR_RDLEN_OFFSET, DNS_OPT_RR_HEADER_SIZE, DNS_EDNS_RR_CODE_OFFSET, DNS_EDNS_RR_RDLEN_OFFSET,
      DNS_EDNS_RR_HEADER_SIZE, DNS_FLAGS_OFFSET, DNS_FLAG_QR, DNS_MAX_UNCOMPRESSED_SIZE, CLASS_IN,
      TYPE_A, TYPE_NS, TYPE_CNAME, TYPE_SOA, TYPE_PTR, TYPE_MX, TYPE_TXT, TYPE_AAAA, TYPE_DNAME, TYPE_OPT] at *)

example : checkCompressedName [3, 119, 119, 119, 0, 0xc0, 0] 5 = .ok 7 := by decide
example : checkCompressedName [0xc0, 0] 0 = .err .invalidName := by decide
example : checkUncompressedName [3, 119, 119, 119, 0, 0xc0, 0] 0 = .ok 5 := by decide
example : checkUncompressedName [3, 119, 119, 119, 0, 0xc0, 0] 5 = .err .invalidName := by decide
end Dns
