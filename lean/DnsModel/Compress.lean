/-
  DnsModel.Compress — `Compress::uncompress*`, `Compress::compress`, the 32-entry `SuffixDict`
  (compress.rs).  Trusted code: it runs on the result of `parse()`.
-/
import DnsModel.Iter
namespace Dns

/-- write a big-endian u16 at `i` of the output being built -/
def patch16 (out : Bytes) (i v : Nat) : Res Bytes := writeAt out i (put16 (v % 65536))

/-! ### decompression -/

/-- `Compress::uncompress_rdata`; `rrType = none` is the question -/
def uncompressRdata (out p : Bytes) (nameEnd : Nat) (rrType : Option Nat) (rrRdlen : Option Nat) : Res Bytes := do
  let _ ← sliceFrom p nameEnd
  match rrType with
  | none =>
    let h ← slice p nameEnd (nameEnd + DNS_RR_QUESTION_HEADER_SIZE)
    pure (out ++ h)
  | some t =>
    if t == TYPE_NS || t == TYPE_CNAME || t == TYPE_PTR then
      let offset := out.length
      let h ← slice p nameEnd (nameEnd + DNS_RR_HEADER_SIZE)
      let (n, _) ← copyUncompressedName p (nameEnd + DNS_RR_HEADER_SIZE)
      patch16 (out ++ h ++ n) (offset + DNS_RR_RDLEN_OFFSET) n.length
    else if t == TYPE_MX then
      let offset := out.length
      let h ← slice p nameEnd (nameEnd + DNS_RR_HEADER_SIZE + 2)
      let (n, _) ← copyUncompressedName p (nameEnd + DNS_RR_HEADER_SIZE + 2)
      patch16 (out ++ h ++ n) (offset + DNS_RR_RDLEN_OFFSET) (2 + n.length)
    else if t == TYPE_SOA then
      let offset := out.length
      let h ← slice p nameEnd (nameEnd + DNS_RR_HEADER_SIZE)
      let (n1, f1) ← copyUncompressedName p (nameEnd + DNS_RR_HEADER_SIZE)
      let (n2, f2) ← copyUncompressedName p f1
      let soaMeta ← slice p f2 (f2 + 20)
      patch16 (out ++ h ++ n1 ++ n2 ++ soaMeta) (offset + DNS_RR_RDLEN_OFFSET) (n1.length + n2.length + 20)
    else
      let l ← unwrap rrRdlen
      let h ← slice p nameEnd (nameEnd + DNS_RR_HEADER_SIZE + l)
      pure (out ++ h)

/-- state threaded through the four section walks of `uncompress_with_previous_offset` -/
structure UState where
  out : Bytes
  newOffset : Option Nat

/-- body of the `while let Some(item) = it` loops -/
def uncompressItem (pp : PP) (refOffset : Nat) (typed : Bool) (st : UState) (c : Cursor) : Res UState := do
  let p := pp.packet
  let st := if some refOffset == c.offset then { st with newOffset := some st.out.length } else st
  let n ← c.rawName p
  let out := st.out ++ n
  let _ ← unwrap c.offset
  if typed then
    let t ← c.rrType p
    let l ← c.rrRdlen p
    let out ← uncompressRdata out p c.nameEnd (some t) (some l)
    pure { st with out := out }
  else
    let out ← uncompressRdata out p c.nameEnd none none
    pure { st with out := out }

/-- generic `let mut it = first; while let Some(item) = it { body; it = item.next() }` -/
def walkFold {σ} (pp : PP) (step : PP → Cursor → Res (Option Cursor)) (body : σ → Cursor → Res σ) :
    Nat → Cursor → σ → Res σ
  | 0, _, _ => .diverge
  | fuel+1, c, st => do
    match ← step pp c with
    | none => pure st
    | some c' =>
      let st ← body st c'
      walkFold pp step body fuel c' st

def sectionFuel : Nat := 65537

/-- `Compress::uncompress_with_previous_offset` -/
def uncompressWithPreviousOffset (p : Bytes) (refOffset : Nat) : Res (Bytes × Nat) := do
  failIf (p.length < DNS_HEADER_SIZE) .packetTooSmall
  let hdr ← slice p 0 DNS_HEADER_SIZE
  let pp ← parsePP p
  let st : UState := { out := hdr, newOffset := none }
  let st ← walkFold pp nextQuestion (uncompressItem pp refOffset false) sectionFuel (Cursor.new .question) st
  let st ← walkFold pp nextSkippingOpt (uncompressItem pp refOffset true) sectionFuel (Cursor.new .answer) st
  let st ← walkFold pp nextSkippingOpt (uncompressItem pp refOffset true) sectionFuel (Cursor.new .nameServers) st
  let st ← walkFold pp nextIncludingOpt (uncompressItem pp refOffset true) sectionFuel (Cursor.new .additional) st
  let st := if refOffset == p.length then { st with newOffset := some st.out.length } else st
  let n ← unwrap st.newOffset
  pure (st.out, n)

def uncompress (p : Bytes) : Res Bytes := do
  let (u, _) ← uncompressWithPreviousOffset p DNS_HEADER_SIZE
  pure u

/-! ### the suffix dictionary -/

def MAX_SUFFIX_LEN : Nat := 127
def MAX_SUFFIXES : Nat := 32
/-- marker of an entry whose pointer depth is not known yet (`u16::MAX`) -/
def DEPTH_PENDING : Nat := 65535

structure Suffix where
  offset : Nat := 0
  len : Nat := 0
  depth : Nat := 0
  suffix : Bytes := []
  deriving Repr, DecidableEq

structure SuffixDict where
  count : Nat := 0
  index : Nat := 0
  suffixes : List Suffix := List.replicate 32 {}
  deriving Repr

def eqIgnoreCase (a b : UInt8) : Bool := toLowerB a == toLowerB b

/-- `SuffixDict::raw_names_eq_ignore_case` over the zipped bytes -/
def rawNamesEqLoop : Bytes → Bytes → Nat → Bool
  | c1 :: r1, c2 :: r2, labelLen =>
    if !(eqIgnoreCase c1 c2) then false
    else if labelLen == 0 then
      if c1 == 0 then true else rawNamesEqLoop r1 r2 c1.toNat
    else rawNamesEqLoop r1 r2 (labelLen - 1)
  | _, _, _ => false

def rawNamesEqIgnoreCase (n1 n2 : Bytes) : Bool := rawNamesEqLoop n1 n2 0

/-- `commit(depth)`: give every pending entry its depth -/
def SuffixDict.commit (d : SuffixDict) (depth : Nat) : SuffixDict :=
  { d with suffixes := d.suffixes.mapIdx (fun i s =>
      if i < d.count && s.depth == DEPTH_PENDING then { s with depth := depth } else s) }

/-- the `for i in 0..self.count` search of `insert` -/
def SuffixDict.find (d : SuffixDict) (suffix : Bytes) : Option Suffix :=
  (d.suffixes.take d.count).find? (fun cand =>
    cand.depth < DNS_MAX_HOSTNAME_INDIRECTIONS && cand.len ≤ suffix.length &&
      rawNamesEqIgnoreCase suffix (cand.suffix.take cand.len))

/-- `SuffixDict::insert` : returns the offset of an existing equal suffix, or stores this one -/
def SuffixDict.insert (d : SuffixDict) (suffix : Bytes) (offset : Nat) : Res (SuffixDict × Option Nat) := do
  if offset ≥ 16384 then return (d, none)
  let suffixLen := suffix.length
  if suffixLen ≤ 2 || suffixLen > MAX_SUFFIX_LEN then return (d, none)
  match d.find suffix with
  | some cand =>
    pure (d.commit (cand.depth + 1), some cand.offset)
  | none =>
    -- raw_name_copy: copies raw_name_len(name) bytes
    let len ← rawNameLen suffix
    assert (len == suffixLen)
    let copied ← slice suffix 0 len
    assert (d.index < d.suffixes.length)
    let entry : Suffix := { offset := offset, len := suffixLen, depth := DEPTH_PENDING, suffix := copied }
    let suffixes := d.suffixes.set d.index entry
    let index := d.index + 1
    let count := max index d.count
    let index := if index == MAX_SUFFIXES then 1 else index
    pure ({ count := count, index := index, suffixes := suffixes }, none)

/-- `copy_compressed_name_with_base_offset`: returns (dict, output, name_len, final_offset) -/
def copyCompressedLoop (p : Bytes) (finalOffset baseOffset : Nat) :
    Nat → SuffixDict → Bytes → Nat → Res (SuffixDict × Bytes)
  | 0, _, _, _ => .diverge
  | fuel+1, dict, out, offset => do
    let labelLen ← idx p offset
    if isPtr labelLen then .panic else
    let suffix ← slice p offset finalOffset
    let (dict, hit) ← dict.insert suffix (baseOffset + offset)
    match hit with
    | some refOffset =>
      assert (offset < 16384)
      pure (dict, out ++ [UInt8.ofNat ((refOffset >>> 8) % 256 ||| 0xc0), UInt8.ofNat (refOffset &&& 0xff)])
    | none =>
      let lab ← slice p offset (offset + 1 + labelLen)
      let out := out ++ lab
      if labelLen == 0 then pure (dict.commit 0, out)
      else copyCompressedLoop p finalOffset baseOffset fuel dict out (offset + 1 + labelLen)

def copyCompressedNameWithBaseOffset (dict : SuffixDict) (out p : Bytes) (offset baseOffset : Nat) :
    Res (SuffixDict × Bytes × Nat × Nat) := do
  let l ← rawNameLenAfterDecompression p offset
  let finalOffset := offset + l
  let (dict, out') ← copyCompressedLoop p finalOffset baseOffset nameFuel dict out offset
  pure (dict, out', out'.length - out.length, finalOffset)

/-- `copy_compressed_name`: the dictionary holds offsets into the *output* -/
def copyCompressedName (dict : SuffixDict) (out p : Bytes) (offset : Nat) :
    Res (SuffixDict × Bytes × Nat × Nat) := do
  let l ← rawNameLenAfterDecompression p offset
  let name ← slice p offset (offset + l)
  let (dict, out', n, _) ← copyCompressedNameWithBaseOffset dict out name 0 out.length
  pure (dict, out', n, offset + l)

/-- `Compress::compress_rdata` -/
def compressRdata (dict : SuffixDict) (out p : Bytes) (nameEnd : Nat) (rrType : Option Nat) (rrRdlen : Option Nat) :
    Res (SuffixDict × Bytes) := do
  let _ ← sliceFrom p nameEnd
  match rrType with
  | none =>
    let h ← slice p nameEnd (nameEnd + DNS_RR_QUESTION_HEADER_SIZE)
    pure (dict, out ++ h)
  | some t =>
    if t == TYPE_NS || t == TYPE_CNAME || t == TYPE_PTR then
      let offset := out.length
      let h ← slice p nameEnd (nameEnd + DNS_RR_HEADER_SIZE)
      let (dict, out, n, _) ← copyCompressedName dict (out ++ h) p (nameEnd + DNS_RR_HEADER_SIZE)
      let out ← patch16 out (offset + DNS_RR_RDLEN_OFFSET) n
      pure (dict, out)
    else if t == TYPE_MX then
      let offset := out.length
      let h ← slice p nameEnd (nameEnd + DNS_RR_HEADER_SIZE + 2)
      let (dict, out, n, _) ← copyCompressedName dict (out ++ h) p (nameEnd + DNS_RR_HEADER_SIZE + 2)
      let out ← patch16 out (offset + DNS_RR_RDLEN_OFFSET) (2 + n)
      pure (dict, out)
    else if t == TYPE_SOA then
      let offset := out.length
      let h ← slice p nameEnd (nameEnd + DNS_RR_HEADER_SIZE)
      let (dict, out, n1, f1) ← copyCompressedName dict (out ++ h) p (nameEnd + DNS_RR_HEADER_SIZE)
      let (dict, out, n2, f2) ← copyCompressedName dict out p f1
      let soaMeta ← slice p f2 (f2 + 20)
      let out ← patch16 (out ++ soaMeta) (offset + DNS_RR_RDLEN_OFFSET) (n1 + n2 + 20)
      pure (dict, out)
    else
      let l ← unwrap rrRdlen
      let h ← slice p nameEnd (nameEnd + DNS_RR_HEADER_SIZE + l)
      pure (dict, out ++ h)

def compressItem (pp : PP) (typed : Bool) (st : SuffixDict × Bytes) (c : Cursor) : Res (SuffixDict × Bytes) := do
  let p := pp.packet
  let (dict, out) := st
  let off ← unwrap c.offset
  let (dict, out, _, _) ← copyCompressedName dict out p off
  if typed then
    let t ← c.rrType p
    let l ← c.rrRdlen p
    compressRdata dict out p c.nameEnd (some t) (some l)
  else
    compressRdata dict out p c.nameEnd none none

/-- `Compress::compress` -/
def compress (p : Bytes) : Res Bytes := do
  failIf (p.length < DNS_HEADER_SIZE) .packetTooSmall
  let hdr ← slice p 0 DNS_HEADER_SIZE
  let pp ← parsePP p
  let st : SuffixDict × Bytes := ({}, hdr)
  let st ← walkFold pp nextQuestion (compressItem pp false) sectionFuel (Cursor.new .question) st
  let st ← walkFold pp nextSkippingOpt (compressItem pp true) sectionFuel (Cursor.new .answer) st
  let st ← walkFold pp nextSkippingOpt (compressItem pp true) sectionFuel (Cursor.new .nameServers) st
  let st ← walkFold pp nextIncludingOpt (compressItem pp true) sectionFuel (Cursor.new .additional) st
  pure st.2

end Dns
