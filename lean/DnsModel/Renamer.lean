/-
  DnsModel.Renamer — `Renamer::replace_raw`, `copy_with_replaced_name`, the section walkers and
  `rename_with_raw_names` (renamer.rs).
-/
import DnsModel.Compress
namespace Dns

/-- first loop of `replace_raw`: walk labels until `i == offset` or the root -/
def replaceFindLoop (name : Bytes) (offset : Nat) : Nat → Nat → Res Nat
  | 0, _ => .diverge
  | fuel+1, i => do
    let b ← idx name i
    if b == 0 then pure i
    else if i == offset then pure i
    else replaceFindLoop name offset fuel (i + b + 1)

/-- `(0..label_len).all(|j| name[i + j].eq_ignore_ascii_case(&source_name[i + j - offset]))` -/
def labelEqLoop (name source : Bytes) (i offset : Nat) : Nat → Nat → Res Bool
  | 0, _ => pure true
  | n+1, j => do
    let a ← idx name (i + j)
    let k ← sub (i + j) offset
    let b ← idx source k
    if eqIgnoreCase (UInt8.ofNat a) (UInt8.ofNat b) then labelEqLoop name source i offset n (j + 1)
    else pure false

/-- second loop of `replace_raw`: label-by-label comparison; `true` = all labels matched -/
def replaceCmpLoop (name source : Bytes) (offset : Nat) : Nat → Nat → Res Bool
  | 0, _ => .diverge
  | fuel+1, i => do
    let b ← idx name i
    if b == 0 then pure true
    else
      let k ← sub i offset
      let s ← idx source k
      if b != s then pure false
      else
        let ok ← labelEqLoop name source (i + 1) offset b 0
        if !ok then pure false
        else replaceCmpLoop name source offset fuel (i + 1 + b)

/-- `Renamer::replace_raw` -/
def replaceRaw (name target source : Bytes) (matchSuffix : Bool) : Res (Option Bytes) := do
  let (nl, sl, tl) := (name.length, source.length, target.length)
  if nl < sl || (matchSuffix == false && nl != sl) then return none
  failIf (sl ≤ 0 || tl ≤ 0) .invalidName
  let s0 ← idx source 0
  let t0 ← idx target 0
  failIf (s0 == 0 || t0 == 0) .invalidName
  let offset := nl - sl
  let i ← replaceFindLoop name offset (nl + 1) 0
  if i ≥ nl then return none
  let b ← idx name i
  if b == 0 && nl > 0 then return none
  failIf (i != offset) .invalidName
  let all ← replaceCmpLoop name source offset (nl + 1) i
  if !all then return none
  failIf (offset + tl > DNS_MAX_HOSTNAME_LEN) .invalidName
  pure (some (name.take offset ++ target))

/-- `copy_with_replaced_name` -/
def copyWithReplacedName (out p : Bytes) (offset : Nat) (dict : SuffixDict) (target source : Bytes)
    (matchSuffix : Bool) : Res (SuffixDict × Bytes) := do
  let (name, _) ← copyUncompressedName p offset
  let replaced ← replaceRaw name target source matchSuffix
  let n := replaced.getD name
  let (dict, out, _, _) ← copyCompressedNameWithBaseOffset dict out n 0 out.length
  pure (dict, out)

def renameQuestionItem (pp : PP) (target source : Bytes) (sfx : Bool) (st : SuffixDict × Bytes) (c : Cursor) :
    Res (SuffixDict × Bytes) := do
  let p := pp.packet
  let (dict, out) := st
  let off ← unwrap c.offset
  let (dict, out) ← copyWithReplacedName out p off dict target source sfx
  failIf (p.length < c.nameEnd + DNS_RR_QUESTION_HEADER_SIZE) .packetTooSmall
  let h ← slice p c.nameEnd (c.nameEnd + DNS_RR_QUESTION_HEADER_SIZE)
  pure (dict, out ++ h)

def renameResponseItem (pp : PP) (target source : Bytes) (sfx : Bool) (st : SuffixDict × Bytes) (c : Cursor) :
    Res (SuffixDict × Bytes) := do
  let p := pp.packet
  let (dict, out) := st
  let off ← unwrap c.offset
  let ne := c.nameEnd
  let (dict, out) ← copyWithReplacedName out p off dict target source sfx
  failIf (p.length < ne + DNS_RR_HEADER_SIZE) .packetTooSmall
  let dataOff := out.length
  let h ← slice p ne (ne + DNS_RR_HEADER_SIZE)
  let out := out ++ h
  let t ← c.rrType p
  if t == TYPE_NS || t == TYPE_CNAME || t == TYPE_PTR then
    let (dict, out) ← copyWithReplacedName out p (ne + DNS_RR_HEADER_SIZE) dict target source sfx
    let d ← sub out.length dataOff
    let newRdlen ← sub d DNS_RR_HEADER_SIZE
    let out ← patch16 out (dataOff + DNS_RR_RDLEN_OFFSET) newRdlen
    pure (dict, out)
  else if t == TYPE_MX then
    let pref ← slice p (ne + DNS_RR_HEADER_SIZE) (ne + DNS_RR_HEADER_SIZE + 2)
    let out := out ++ pref
    let nameOff := out.length
    let (dict, out) ← copyWithReplacedName out p (ne + DNS_RR_HEADER_SIZE + 2) dict target source sfx
    let newRdlen ← sub (2 + out.length) nameOff
    let out ← patch16 out (dataOff + DNS_RR_RDLEN_OFFSET) newRdlen
    pure (dict, out)
  else if t == TYPE_SOA then
    let name1Out := out.length
    let name1Off := ne + DNS_RR_HEADER_SIZE
    let r1 ← sliceFrom p name1Off
    let name1Len ← rawNameLen r1
    let (dict, out) ← copyWithReplacedName out p name1Off dict target source sfx
    let name2Off := name1Off + name1Len
    let r2 ← sliceFrom p name2Off
    let name2Len ← rawNameLen r2
    let (dict, out) ← copyWithReplacedName out p name2Off dict target source sfx
    let metaOff := name2Off + name2Len
    let soaMeta ← slice p metaOff (metaOff + 20)
    let out := out ++ soaMeta
    let newRdlen ← sub out.length name1Out
    let out ← patch16 out (dataOff + DNS_RR_RDLEN_OFFSET) newRdlen
    pure (dict, out)
  else
    let l ← c.rrRdlen p
    let rdata ← slice p ne (ne + DNS_RR_HEADER_SIZE + l)
    pure (dict, out ++ rdata.drop DNS_RR_HEADER_SIZE)

/-- `Renamer::rename_with_raw_names` -/
def renameWithRawNames (pp : PP) (target source : Bytes) (sfx : Bool) : Res Bytes := do
  failIf (target.length ≤ 0 || source.length ≤ 0) .invalidName
  failIf (target.length > DNS_MAX_HOSTNAME_LEN || source.length > DNS_MAX_HOSTNAME_LEN) .invalidName
  let hdr ← slice pp.packet 0 DNS_HEADER_SIZE
  let st : SuffixDict × Bytes := ({}, hdr)
  let st ← walkFold pp nextQuestion (renameQuestionItem pp target source sfx) sectionFuel (Cursor.new .question) st
  let st ← walkFold pp nextIncludingOpt (renameResponseItem pp target source sfx) sectionFuel (Cursor.new .answer) st
  let st ← walkFold pp nextIncludingOpt (renameResponseItem pp target source sfx) sectionFuel (Cursor.new .nameServers) st
  let st ← walkFold pp nextIncludingOpt (renameResponseItem pp target source sfx) sectionFuel (Cursor.new .additional) st
  pure st.2

end Dns
