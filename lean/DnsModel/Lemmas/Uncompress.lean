/-
  Lemmas.Uncompress — decompression of an accepted packet: the output is the header followed by the
  canonical (pointer-free) form of the question and of every record, in order.
-/
import DnsModel.Compress
import DnsModel.Theorems.C03
import DnsModel.Lemmas.Header
namespace Dns
open Res

/-! ### walks as folds -/

/-- running a loop body over the cursors a walk yields -/
def foldRes {σ} (body : σ → Cursor → Res σ) : σ → List Cursor → Res σ
  | st, [] => .ok st
  | st, c :: cs => (body st c).bind (fun st' => foldRes body st' cs)

theorem collectWalk_mono {pp : PP} {step : PP → Cursor → Res (Option Cursor)} :
    ∀ (fuel : Nat) (c : Cursor) (cs : List Cursor), collectWalk pp step fuel c = .ok cs →
      ∀ k, collectWalk pp step (fuel + k) c = .ok cs := by
  intro fuel
  induction fuel with
  | zero => intro c cs h; simp [collectWalk] at h
  | succ n ih =>
    intro c cs h k
    have e : n + 1 + k = (n + k) + 1 := by omega
    rw [e]
    unfold collectWalk at h ⊢
    cases hs : step pp c with
    | ok o =>
      rw [hs] at h
      cases o with
      | none => simpa using h
      | some c' =>
        simp only at h ⊢
        cases hr : collectWalk pp step n c' with
        | ok l =>
          rw [hr] at h
          rw [ih c' l hr k]
          exact h
        | err e => rw [hr] at h; simp [Res.bind] at h
        | panic => rw [hr] at h; simp [Res.bind] at h
        | diverge => rw [hr] at h; simp [Res.bind] at h
    | err e => rw [hs] at h; simp at h
    | panic => rw [hs] at h; simp at h
    | diverge => rw [hs] at h; simp at h

theorem walkFold_collect {σ} {pp : PP} {step : PP → Cursor → Res (Option Cursor)} (body : σ → Cursor → Res σ) :
    ∀ (fuel : Nat) (c : Cursor) (cs : List Cursor), collectWalk pp step fuel c = .ok cs →
      ∀ st, walkFold pp step body fuel c st = foldRes body st cs := by
  intro fuel
  induction fuel with
  | zero => intro c cs h; simp [collectWalk] at h
  | succ n ih =>
    intro c cs h st
    unfold collectWalk at h
    unfold walkFold
    cases hs : step pp c with
    | ok o =>
      rw [hs] at h
      cases o with
      | none =>
        simp at h; subst h
        simp [foldRes]
      | some c' =>
        simp only at h
        cases hr : collectWalk pp step n c' with
        | ok l =>
          rw [hr] at h
          simp [Res.bind] at h
          subst h
          simp only [bind_ok, foldRes]
          cases hb : body st c' with
          | ok st' => simp only [bind_ok, Res.bind]; exact ih c' l hr st'
          | err e => rfl
          | panic => rfl
          | diverge => rfl
        | err e => rw [hr] at h; simp [Res.bind] at h
        | panic => rw [hr] at h; simp [Res.bind] at h
        | diverge => rw [hr] at h; simp [Res.bind] at h
    | err e => rw [hs] at h; simp at h
    | panic => rw [hs] at h; simp at h
    | diverge => rw [hs] at h; simp at h

/-! ### the canonical form of a record -/

/-- canonical data of a record of type `t` whose data is `[rs, rs + l)`: names expanded, the rest verbatim -/
def RdCanon (p : Bytes) (t l rs : Nat) (rd : Bytes) : Prop :=
  if t = 2 ∨ t = 5 ∨ t = 12 then ∃ ls, ValidName p rs ls (rs + l) ∧ rd = encLabels ls ++ [0]
  else if t = 15 then ∃ ls, ValidName p (rs + 2) ls (rs + l) ∧ rd = (p.drop rs).take 2 ++ (encLabels ls ++ [0])
  else if t = 6 then ∃ l1 l2 e1, ValidName p rs l1 e1 ∧ ValidName p e1 l2 (rs + l - 20) ∧
      rd = (encLabels l1 ++ [0]) ++ (encLabels l2 ++ [0]) ++ (p.drop (rs + l - 20)).take 20
  else rd = (p.drop rs).take l

/-- canonical form of the record at `r`: expanded owner, the eight fixed bytes, the length of the
canonical data, the canonical data -/
def RecCanon (p : Bytes) (r : RecPos) (out : Bytes) : Prop :=
  ∃ owner rd, ValidName p r.off owner r.ne ∧ RdCanon p (get16 p r.ne) (get16 p (r.ne + 8)) (r.ne + 10) rd ∧
    out = (encLabels owner ++ [0]) ++ (p.drop r.ne).take 8 ++ put16 rd.length ++ rd

theorem patch16_mid (out h n : Bytes) (v : Nat) (hh : 10 ≤ h.length) (hv : v < 65536) :
    patch16 (out ++ h ++ n) (out.length + 8) v = .ok (out ++ (h.take 8 ++ put16 v ++ h.drop 10) ++ n) := by
  unfold patch16
  have hm : v % 65536 = v := Nat.mod_eq_of_lt hv
  rw [hm, writeAt_ok (by simp [put16]; omega)]
  congr 1
  have hl : (put16 v).length = 2 := rfl
  rw [hl]
  have e1 : (out ++ h ++ n).take (out.length + 8) = out ++ h.take 8 := by
    rw [List.append_assoc, List.take_length_add_append, List.take_append_of_le_length (by omega)]
  have e2 : (out ++ h ++ n).drop (out.length + 8 + 2) = h.drop 10 ++ n := by
    rw [List.append_assoc, Nat.add_assoc, List.drop_length_add_append, List.drop_append_of_le_length (by omega)]
  rw [e1, e2]
  simp

theorem put16_get16 {p : Bytes} {i : Nat} (h : i + 2 ≤ p.length) : (p.drop i).take 2 = put16 (get16 p i) := by
  obtain ⟨a, ha, hal⟩ := byteAt_of_lt (p := p) (i := i) (by omega)
  obtain ⟨b, hb, hbl⟩ := byteAt_of_lt (p := p) (i := i + 1) (by omega)
  rw [get16_eq_of_bytes ha hb]
  unfold byteAt at ha hb
  simp at ha hb
  obtain ⟨x, hx, hxa⟩ := ha
  obtain ⟨y, hy, hyb⟩ := hb
  have h1 : p.drop i = x :: p.drop (i + 1) := by
    have := List.getElem?_eq_some_iff.1 hx
    obtain ⟨hlt, hget⟩ := this
    rw [← hget]; exact List.drop_eq_getElem_cons hlt
  have h2 : p.drop (i + 1) = y :: p.drop (i + 2) := by
    have := List.getElem?_eq_some_iff.1 hy
    obtain ⟨hlt, hget⟩ := this
    rw [← hget]; exact List.drop_eq_getElem_cons hlt
  rw [h1, h2]
  simp only [put16, List.take_succ_cons, List.take_zero]
  subst hxa; subst hyb
  have e1 : (x.toNat * 256 + y.toNat) / 256 % 256 = x.toNat := by have := x.toNat_lt; have := y.toNat_lt; omega
  have e2 : (x.toNat * 256 + y.toNat) % 256 = y.toNat := by have := y.toNat_lt; omega
  rw [e1, e2]
  simp

end Dns

namespace Dns
open Res

theorem take_split (p : Bytes) (a b : Nat) : p.take (a + b) = p.take a ++ (p.drop a).take b := by
  rw [List.take_add]

theorem length_take_drop {p : Bytes} {a n : Nat} (h : a + n ≤ p.length) : ((p.drop a).take n).length = n := by
  simp; omega

theorem encLen_le {p : Bytes} {off e : Nat} {ls : List (List UInt8)} (h : ValidName p off ls e) :
    (encLabels ls ++ [0]).length ≤ 255 := by
  have := h.2.2.1
  rw [wireLen_eq] at this
  simp [encLabels_length]
  omega

theorem encLen_lt {p : Bytes} {off e : Nat} {ls : List (List UInt8)} (h : ValidName p off ls e) :
    (encLabels ls ++ [0]).length < 65536 := by
  have := h.2.2.1
  rw [wireLen_eq] at this
  simp [encLabels_length]
  omega

/-- **data of one record**: `uncompress_rdata` appends the eight fixed bytes, the new data length and the canonical data -/
theorem uncompressRdata_canon {p : Bytes} {sec : Section} {r : RecPos} {ob oa : Bool} (hr : RRAtPos p sec r ob oa)
    (out : Bytes) :
    ∃ rd, RdCanon p (get16 p r.ne) (get16 p (r.ne + 8)) (r.ne + 10) rd ∧
      uncompressRdata out p r.ne (some (get16 p r.ne)) (some (get16 p (r.ne + 8))) =
        .ok (out ++ ((p.drop r.ne).take 8 ++ put16 rd.length ++ rd)) := by
  obtain ⟨_, h10, hnext, hfit, hbody⟩ := hr
  have hsl : sliceFrom p r.ne = .ok (p.drop r.ne) := by simp [sliceFrom]; omega
  have hfit' : r.ne + 10 + get16 p (r.ne + 8) ≤ p.length := by omega
  have hh10 : ((p.drop r.ne).take 10).length = 10 := length_take_drop (by omega)
  have htt : ((p.drop r.ne).take 10).take 8 = (p.drop r.ne).take 8 := by rw [List.take_take]; simp
  have hd10 : ((p.drop r.ne).take 10).drop 10 = [] := by
    apply List.drop_of_length_le; simp; omega
  -- the verbatim branch, shared by OPT and by the types without names
  have verbatim : ∀ out : Bytes, (do
      let l ← unwrap (some (get16 p (r.ne + 8)))
      let h ← slice p r.ne (r.ne + DNS_RR_HEADER_SIZE + l)
      pure (out ++ h) : Res Bytes) =
      .ok (out ++ ((p.drop r.ne).take 8 ++ put16 ((p.drop (r.ne + 10)).take (get16 p (r.ne + 8))).length ++
        (p.drop (r.ne + 10)).take (get16 p (r.ne + 8)))) := by
    intro out
    simp only [unwrap, bind_ok]
    consts
    rw [slice_ok ⟨by omega, by omega⟩]
    simp only [bind_ok, pure_eq]
    congr 2
    have e : r.ne + 10 + get16 p (r.ne + 8) - r.ne = 8 + (2 + get16 p (r.ne + 8)) := by omega
    rw [e, take_split, take_split, List.drop_drop, List.drop_drop, length_take_drop hfit']
    have : (p.drop (r.ne + 8)).take 2 = put16 (get16 p (r.ne + 8)) := put16_get16 (by omega)
    rw [this]
    have e2 : r.ne + 8 + 2 = r.ne + 10 := by omega
    rw [e2]
    simp
  unfold uncompressRdata
  simp only [hsl, bind_ok]
  consts
  by_cases h41 : get16 p r.ne = 41
  · refine ⟨(p.drop (r.ne + 10)).take (get16 p (r.ne + 8)), by simp [RdCanon, h41], ?_⟩
    simp only [h41]
    have := verbatim out
    simpa using this
  simp only [h41, if_false] at hbody
  obtain ⟨hrd, _⟩ := hbody
  unfold RDataOK at hrd
  by_cases hns : get16 p r.ne = 2 ∨ get16 p r.ne = 5 ∨ get16 p r.ne = 12
  · simp only [hns, if_true] at hrd
    obtain ⟨_, ls, hv⟩ := hrd
    have hcond : (get16 p r.ne == 2 || get16 p r.ne == 5 || get16 p r.ne == 12) = true := by
      rcases hns with h | h | h <;> simp [h]
    refine ⟨encLabels ls ++ [0], by simp only [RdCanon, hns, if_true]; exact ⟨ls, hv, rfl⟩, ?_⟩
    simp only [hcond, if_true]
    rw [slice_ok ⟨by omega, by omega⟩]
    simp only [bind_ok, copyUncompressedName_valid hv]
    have e : r.ne + 10 - r.ne = 10 := by omega
    rw [e, patch16_mid out ((p.drop r.ne).take 10) (encLabels ls ++ [0]) _ (by omega) (encLen_lt hv)]
    rw [htt, hd10]
    simp
  simp only [hns, if_false] at hrd
  have hcond1 : (get16 p r.ne == 2 || get16 p r.ne == 5 || get16 p r.ne == 12) = false := by
    simp at hns ⊢; exact ⟨⟨hns.1, hns.2.1⟩, hns.2.2⟩
  by_cases hmx : get16 p r.ne = 15
  · simp only [hmx, if_true] at hrd
    obtain ⟨hl2, ls, hv⟩ := hrd
    refine ⟨(p.drop (r.ne + 10)).take 2 ++ (encLabels ls ++ [0]), by
      simp only [RdCanon, hns, hmx, if_true, if_false]; exact ⟨ls, hv, rfl⟩, ?_⟩
    have hc1 : ((15 : Nat) == 2 || (15 : Nat) == 5 || (15 : Nat) == 12) = false := by decide
    simp only [hmx, hc1, Bool.false_eq_true, if_false, beq_self_eq_true, if_true]
    rw [slice_ok ⟨by omega, by omega⟩]
    simp only [bind_ok, copyUncompressedName_valid hv]
    have e : r.ne + 10 + 2 - r.ne = 10 + 2 := by omega
    have hlen12 : ((p.drop r.ne).take (10 + 2)).length = 12 := length_take_drop (by omega)
    have e2 : 2 + (encLabels ls ++ [0]).length < 65536 := by have := encLen_le hv; omega
    rw [e, patch16_mid out ((p.drop r.ne).take (10 + 2)) (encLabels ls ++ [0]) _ (by omega) e2]
    have t8 : ((p.drop r.ne).take (10 + 2)).take 8 = (p.drop r.ne).take 8 := by rw [List.take_take]; simp
    have d10 : ((p.drop r.ne).take (10 + 2)).drop 10 = (p.drop (r.ne + 10)).take 2 := by
      rw [List.drop_take, List.drop_drop]
    rw [t8, d10]
    have hl : ((p.drop (r.ne + 10)).take 2).length = 2 := length_take_drop (by omega)
    simp [hl]
  simp only [hmx, if_false] at hrd
  have hcond2 : (get16 p r.ne == 15) = false := by simp [hmx]
  by_cases hsoa : get16 p r.ne = 6
  · simp only [hsoa, if_true] at hrd
    obtain ⟨hl21, e1, e2, ⟨l1, hv1⟩, ⟨l2, hv2⟩, he2⟩ := hrd
    have he2' : e2 = r.ne + 10 + get16 p (r.ne + 8) - 20 := by omega
    subst he2'
    refine ⟨(encLabels l1 ++ [0]) ++ (encLabels l2 ++ [0]) ++ (p.drop (r.ne + 10 + get16 p (r.ne + 8) - 20)).take 20, by
      simp only [RdCanon, hns, hmx, hsoa, if_true, if_false]; exact ⟨l1, l2, e1, hv1, hv2, rfl⟩, ?_⟩
    have hc1 : ((6 : Nat) == 2 || (6 : Nat) == 5 || (6 : Nat) == 12) = false := by decide
    have hc2 : ((6 : Nat) == 15) = false := by decide
    simp only [hsoa, hc1, hc2, Bool.false_eq_true, if_false, beq_self_eq_true, if_true]
    rw [slice_ok ⟨by omega, by omega⟩]
    simp only [bind_ok, copyUncompressedName_valid hv1, copyUncompressedName_valid hv2]
    rw [slice_ok ⟨by omega, by omega⟩]
    simp only [bind_ok]
    have e : r.ne + 10 - r.ne = 10 := by omega
    have e20 : r.ne + 10 + get16 p (r.ne + 8) - 20 + 20 - (r.ne + 10 + get16 p (r.ne + 8) - 20) = 20 := by omega
    rw [e, e20]
    have hm : ((p.drop (r.ne + 10 + get16 p (r.ne + 8) - 20)).take 20).length = 20 := length_take_drop (by omega)
    have assoc : out ++ (p.drop r.ne).take 10 ++ (encLabels l1 ++ [0]) ++ (encLabels l2 ++ [0]) ++
        (p.drop (r.ne + 10 + get16 p (r.ne + 8) - 20)).take 20 =
        out ++ (p.drop r.ne).take 10 ++ ((encLabels l1 ++ [0]) ++ (encLabels l2 ++ [0]) ++
        (p.drop (r.ne + 10 + get16 p (r.ne + 8) - 20)).take 20) := by simp
    have hlt : (encLabels l1 ++ [0]).length + (encLabels l2 ++ [0]).length + 20 < 65536 := by
      have := encLen_le hv1; have := encLen_le hv2
      omega
    rw [assoc, patch16_mid out ((p.drop r.ne).take 10) _ _ (by omega) hlt, htt, hd10]
    simp [hm]
    congr 1; omega
  simp only [hsoa, if_false] at hrd
  have hcond3 : (get16 p r.ne == 6) = false := by simp [hsoa]
  refine ⟨(p.drop (r.ne + 10)).take (get16 p (r.ne + 8)), by simp [RdCanon, hns, hmx, hsoa], ?_⟩
  simp only [hcond1, hcond2, hcond3, Bool.false_eq_true, if_false]
  have := verbatim out
  simpa using this

end Dns

namespace Dns
open Res

/-- **one record**: the loop body appends the canonical form and notes the new position of `refOffset` -/
theorem uncompressItem_rec {pp : PP} {sec : Section} {r : RecPos} {ob oa : Bool}
    (hr : RRAtPos pp.packet sec r ob oa) (c : Cursor) (hc : posOf c = some r) (ref : Nat) (st : UState) :
    ∃ rc, RecCanon pp.packet r rc ∧
      uncompressItem pp ref true st c =
        .ok { out := st.out ++ rc, newOffset := if ref = r.off then some st.out.length else st.newOffset } := by
  obtain ⟨owner, hv, hraw, _, hty, _, _, hlen⟩ := C03.accessors hr c hc
  have hoff : c.offset = some r.off ∧ c.nameEnd = r.ne := by
    unfold posOf at hc
    cases ho : c.offset with
    | none => simp [ho] at hc
    | some o =>
      simp [ho] at hc
      have e1 : o = r.off := by have := congrArg RecPos.off hc; simpa using this
      have e2 : c.nameEnd = r.ne := by have := congrArg RecPos.ne hc; simpa using this
      exact ⟨by rw [e1], e2⟩
  obtain ⟨rd, hrd, hun⟩ := uncompressRdata_canon hr (st.out ++ (encLabels owner ++ [0]))
  refine ⟨(encLabels owner ++ [0]) ++ (pp.packet.drop r.ne).take 8 ++ put16 rd.length ++ rd, ⟨owner, rd, hv, hrd, rfl⟩, ?_⟩
  unfold uncompressItem
  by_cases href : ref = r.off
  · subst href
    simp only [hraw, hoff.1, hoff.2, bind_ok, unwrap, if_true, hty, hlen, pure_eq, beq_self_eq_true, hun]
    simp
  · have : (some ref == some r.off) = false := by simp [href]
    simp only [hraw, hoff.1, hoff.2, bind_ok, unwrap, if_true, hty, hlen, pure_eq, this, Bool.false_eq_true, if_false,
      hun, href]
    simp

/-- the question's canonical form: expanded name, type and class -/
def QCanon (p : Bytes) (qe : Nat) (out : Bytes) : Prop :=
  ∃ ls, ValidName p 12 ls qe ∧ out = (encLabels ls ++ [0]) ++ (p.drop qe).take 4

theorem uncompressItem_question {pp : PP} {qe : Nat} {ls : List (List UInt8)} (hv : ValidName pp.packet 12 ls qe)
    (hq4 : qe + 4 ≤ pp.packet.length) (ref : Nat) (st : UState) :
    uncompressItem pp ref false st ⟨.question, some 12, qe + 4, qe, 0⟩ =
      .ok { out := st.out ++ ((encLabels ls ++ [0]) ++ (pp.packet.drop qe).take 4),
            newOffset := if ref = 12 then some st.out.length else st.newOffset } := by
  have hgt : 12 < qe := hv.2.1.lt
  have hnle : ¬ (qe ≤ 12) := by omega
  have hsl : sliceFrom pp.packet qe = .ok (pp.packet.drop qe) := by simp [sliceFrom]; omega
  have hun : ∀ out : Bytes, uncompressRdata out pp.packet qe none none = .ok (out ++ (pp.packet.drop qe).take 4) := by
    intro out
    unfold uncompressRdata
    simp only [hsl, bind_ok]
    consts
    rw [slice_ok ⟨by omega, by omega⟩]
    have e : qe + 4 - qe = 4 := by omega
    rw [e]
    rfl
  have hraw : Cursor.rawName pp.packet ⟨.question, some 12, qe + 4, qe, 0⟩ = .ok (encLabels ls ++ [0]) := by
    unfold Cursor.rawName
    simp [unwrap, hnle, copyUncompressedName_valid hv]
  unfold uncompressItem
  by_cases href : ref = 12
  · subst href
    simp only [hraw, bind_ok, unwrap, Bool.false_eq_true, if_false, hun, pure_eq, beq_self_eq_true, if_true]
    simp
  · have : (some ref == some 12) = false := by simp [href]
    simp only [hraw, bind_ok, unwrap, Bool.false_eq_true, if_false, hun, pure_eq, this, href]
    simp

/-- canonical forms of a run of records, one piece per record -/
inductive CanonRun (p : Bytes) : List RecPos → List Bytes → Prop
  | nil : CanonRun p [] []
  | cons {r : RecPos} {l : List RecPos} {rc : Bytes} {ps : List Bytes} :
      RecCanon p r rc → CanonRun p l ps → CanonRun p (r :: l) (rc :: ps)

/-- where `ref` lands: the output position of the record that starts at `ref`, if any -/
def carry (ref : Nat) : List RecPos → List Bytes → Nat → Option Nat → Option Nat
  | r :: l, pc :: ps, base, prev => carry ref l ps (base + pc.length) (if ref = r.off then some base else prev)
  | _, _, _, prev => prev

/-- **one section**: the loop over the cursors of a run appends the canonical forms in order -/
theorem fold_section {pp : PP} {sec : Section} {l : List RecPos} {off e : Nat} {ob oe : Bool}
    (hl : RRsL pp.packet sec l off ob e oe) (ref : Nat) :
    ∀ (cs : List Cursor), cs.map posOf = l.map some → ∀ st : UState,
      ∃ ps, CanonRun pp.packet l ps ∧
        foldRes (uncompressItem pp ref true) st cs =
          .ok { out := st.out ++ ps.flatten, newOffset := carry ref l ps st.out.length st.newOffset } := by
  induction hl with
  | nil off o =>
    intro cs hcs st
    simp at hcs
    subst hcs
    exact ⟨[], CanonRun.nil, by simp [foldRes, carry]⟩
  | @cons r l e ob om oe hr _ ih =>
    intro cs hcs st
    cases cs with
    | nil => simp at hcs
    | cons c cs =>
      simp at hcs
      obtain ⟨hc, hcs⟩ := hcs
      obtain ⟨rc, hrc, hitem⟩ := uncompressItem_rec hr c hc ref st
      obtain ⟨ps, hps, hfold⟩ := ih cs (by simpa using hcs)
        { out := st.out ++ rc, newOffset := if ref = r.off then some st.out.length else st.newOffset }
      refine ⟨rc :: ps, CanonRun.cons hrc hps, ?_⟩
      simp only [foldRes, hitem, Res.bind, hfold]
      simp [carry, List.append_assoc]

end Dns
