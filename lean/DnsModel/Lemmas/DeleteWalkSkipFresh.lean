/-
  Lemmas.DeleteWalkSkipFresh — the public `next()` walk (which skips the OPT record) over the additional
  section of an object that still has its parse-time flag (compressed or not) and may hold an OPT
  record: until the first deletion the object is untouched and the walker sees the records other than
  OPT; the first deletion decompresses (FirstTouch) and the run continues on the plain object
  (DeleteWalkSkip).
-/
import DnsModel.Lemmas.DeleteWalkFresh
import DnsModel.Lemmas.DeleteWalkSkip
namespace Dns
open Res

/-- a canonical piece is the OPT piece iff the record it is the canonical form of has type 41 -/
theorem recCanon_isOpt {p : Bytes} {sec : Section} {r : RecPos} {ob oa : Bool} {rc : Bytes}
    (hr : RRAtPos p sec r ob oa) (hc : RecCanon p r rc) : isOptPiece rc = true ↔ get16 p r.ne = 41 := by
  obtain ⟨owner, rd, hvo, hrd, hrc⟩ := hc
  obtain ⟨hne, h10, hnext, hfit, hbody⟩ := hr
  have hf8 : ((p.drop r.ne).take 8).length = 8 := length_take_drop (by omega)
  have hty : get16 ((p.drop r.ne).take 8) 0 = get16 p r.ne := by
    have hag : Agree p ((p.drop r.ne).take 8) r.ne 0 8 := by
      intro i hi
      simp [List.getElem?_take, List.getElem?_drop, hi]
    have := hag.get16 (i := 0) (by omega)
    simpa using this
  have hshape := isOptPiece_shape owner ((p.drop r.ne).take 8) (put16 rd.length ++ rd) (validName_ok hvo) hf8
  have e : (encLabels owner ++ [0]) ++ (p.drop r.ne).take 8 ++ (put16 rd.length ++ rd) = rc := by rw [hrc]; simp
  rw [e] at hshape
  constructor
  · intro h
    have := (hshape.1 h).2
    rwa [hty] at this
  · intro h41
    apply hshape.2
    refine ⟨?_, by rw [hty]; exact h41⟩
    simp only [h41, if_true] at hbody
    have hne1 : r.ne = r.off + 1 := hbody.2.1
    rw [hne1] at hvo
    exact owner_nil hvo

/-- the pieces of a run are the canonical forms of its records, index by index -/
theorem CanonRun.at_idx {p : Bytes} {l : List RecPos} {ps : List Bytes} (h : CanonRun p l ps) :
    ∀ j (hj : j < l.length) (hj' : j < ps.length), RecCanon p l[j] ps[j] := by
  induction h with
  | nil => intro j hj; simp at hj
  | @cons r l rc ps hc _ ih =>
    intro j hj hj'
    cases j with
    | zero => simpa using hc
    | succ j => simpa using ih j (by simpa using hj) (by simpa using hj')

/-- the cursor designating record `j` of the additional run of the parsed packet -/
def curOn (l : List RecPos) (j : Nat) (hj : j < l.length) : Cursor :=
  ⟨.additional, some l[j].off, l[j].next, l[j].ne, l.length - j - 1⟩

/-- the skipping step on the parsed object from a cursor standing before record `j` of the additional section -/
theorem fresh_nextSkip_at {pp : PP} {p : Bytes} {v : View} (F : Fresh pp p v) (L : C03.Layout p) (o : C05.Output p L)
    (hone : ∀ j (hj : j < (o.pieces .additional).length), isOptPiece (o.pieces .additional)[j] = true →
      ∀ (hj1 : j + 1 < (o.pieces .additional).length), isOptPiece (o.pieces .additional)[j + 1] = false)
    (j : Nat) (c : Cursor) (h : CurAtFresh (L.recs .additional) (L.endOf .additional) .additional j c) :
    ((¬ j < (L.recs .additional).length) → nextSkippingOpt pp c = .ok none) ∧
    (∀ (hj : j < (L.recs .additional).length) (hj' : j < (o.pieces .additional).length), isOptPiece (o.pieces .additional)[j] = false →
      nextSkippingOpt pp c = .ok (some (curOn (L.recs .additional) j hj))) ∧
    (∀ (hj : j < (L.recs .additional).length) (hj' : j < (o.pieces .additional).length), isOptPiece (o.pieces .additional)[j] = true →
      ¬ j + 1 < (L.recs .additional).length → nextSkippingOpt pp c = .ok none) ∧
    (∀ (hj : j < (L.recs .additional).length) (hj' : j < (o.pieces .additional).length), isOptPiece (o.pieces .additional)[j] = true →
      ∀ (hj1 : j + 1 < (L.recs .additional).length),
        nextSkippingOpt pp c = .ok (some (curOn (L.recs .additional) (j + 1) hj1))) := by
  have hs : Section.additional.isRec = true := rfl
  have hcan := o.canon .additional hs
  have hlen : (o.pieces .additional).length = (L.recs .additional).length := hcan.length
  refine ⟨?_, ?_, ?_, ?_⟩
  · intro hj
    unfold nextSkippingOpt
    rw [fresh_next_none F L .additional hs j c h hj]
    rfl
  · intro hj hj' hvis
    obtain ⟨hnx, _, ob, oa, hr⟩ := fresh_next_some F L .additional hs j c h hj
    have h41 : get16 p (L.recs .additional)[j].ne ≠ 41 := by
      intro h41
      have := (recCanon_isOpt hr (hcan.at_idx j hj hj')).2 h41
      rw [hvis] at this; cases this
    have h10 : (L.recs .additional)[j].ne + 10 ≤ p.length := hr.2.1
    unfold nextSkippingOpt
    rw [hnx]
    simp only [bind_ok]
    unfold maybeSkipOpt
    rw [rrType_at (o := (L.recs .additional)[j].off) rfl (by rw [F.pk]; simpa using h10)]
    have c41 : (get16 pp.packet (L.recs .additional)[j].ne == TYPE_OPT) = false := by rw [F.pk]; simp [TYPE_OPT, h41]
    simp only [bind_ok, c41, Bool.false_eq_true, if_false, pure_eq, curOn]
  · intro hj hj' hopt hlast
    obtain ⟨hnx, _, ob, oa, hr⟩ := fresh_next_some F L .additional hs j c h hj
    have h41 : get16 p (L.recs .additional)[j].ne = 41 := (recCanon_isOpt hr (hcan.at_idx j hj hj')).1 hopt
    have h10 : (L.recs .additional)[j].ne + 10 ≤ p.length := hr.2.1
    unfold nextSkippingOpt
    rw [hnx]
    simp only [bind_ok]
    unfold maybeSkipOpt
    rw [rrType_at (o := (L.recs .additional)[j].off) rfl (by rw [F.pk]; simpa using h10)]
    have c41 : (get16 pp.packet (L.recs .additional)[j].ne == TYPE_OPT) = true := by rw [F.pk]; simp [TYPE_OPT, h41]
    have hz : (L.recs .additional).length - j - 1 = 0 := by omega
    simp only [bind_ok, c41, if_true, hz, beq_self_eq_true, pure_eq]
  · intro hj hj' hopt hj1
    obtain ⟨hnx, hcur1, ob, oa, hr⟩ := fresh_next_some F L .additional hs j c h hj
    have h41 : get16 p (L.recs .additional)[j].ne = 41 := (recCanon_isOpt hr (hcan.at_idx j hj hj')).1 hopt
    have h10 : (L.recs .additional)[j].ne + 10 ≤ p.length := hr.2.1
    -- the record after OPT: a record of the policy, not another OPT
    obtain ⟨ob0, oe0, hrun⟩ := L.run .additional hs
    obtain ⟨_, hall⟩ := hrun.at_idx
    obtain ⟨ob2, oa2, hr2, _⟩ := hall (j + 1) hj1
    obtain ⟨_, _, _, hnxj⟩ := hall j hj
    have hvis2 := hone j hj' hopt (by omega)
    have h41' : get16 p (L.recs .additional)[j + 1].ne ≠ 41 := by
      intro h
      have := (recCanon_isOpt hr2 (hcan.at_idx (j + 1) hj1 (by omega))).2 h
      rw [hvis2] at this; cases this
    have h10' : (L.recs .additional)[j + 1].ne + 10 ≤ p.length := hr2.2.1
    have hr2' : RRAtPos pp.packet .additional (L.recs .additional)[j + 1] ob2 oa2 := by rw [F.pk]; exact hr2
    unfold nextSkippingOpt
    rw [hnx]
    simp only [bind_ok]
    unfold maybeSkipOpt
    rw [rrType_at (o := (L.recs .additional)[j].off) rfl (by rw [F.pk]; simpa using h10)]
    have c41 : (get16 pp.packet (L.recs .additional)[j].ne == TYPE_OPT) = true := by rw [F.pk]; simp [TYPE_OPT, h41]
    have hnz : ((L.recs .additional).length - j - 1 == 0) = false := by
      have : (L.recs .additional).length - j - 1 ≠ 0 := by omega
      simpa using this
    simp only [bind_ok, c41, if_true, hnz, Bool.false_eq_true, if_false]
    have hadj : (L.recs .additional)[j].next = (L.recs .additional)[j + 1].off := by
      rw [hnxj]; simp [posOfIdx, hj1]
    have hl2 := land_spec hr2' ⟨.additional, some (L.recs .additional)[j].off, (L.recs .additional)[j].next,
      (L.recs .additional)[j].ne, (L.recs .additional).length - j - 1 - 1⟩ hadj
    simp only at hl2
    rw [hl2]
    simp only [bind_ok]
    rw [rrType_at (o := (L.recs .additional)[j + 1].off) rfl (by rw [F.pk]; simpa using h10')]
    have c41' : (get16 pp.packet (L.recs .additional)[j + 1].ne != TYPE_OPT) = true := by rw [F.pk]; simp [TYPE_OPT, h41']
    simp only [bind_ok, assert, c41', if_true, pure_eq, curOn]
    congr 3

theorem vis_take_succ_visible (R : List Bytes) (m : Nat) (hm : m < R.length) (h : isOptPiece R[m] = false) :
    (vis (R.take (m + 1))).length = (vis (R.take m)).length + 1 := by
  rw [List.take_succ_eq_append_getElem hm, vis_append]
  simp [vis, h]

theorem vis_take_succ_opt (R : List Bytes) (m : Nat) (hm : m < R.length) (h : isOptPiece R[m] = true) :
    (vis (R.take (m + 1))).length = (vis (R.take m)).length := by
  rw [List.take_succ_eq_append_getElem hm, vis_append]
  simp [vis, h]

/-- **refinement for the OPT-skipping walk started on a parsed object**: until the first deletion
nothing changes and the walker sees the records other than OPT; the first deletion decompresses and
removes exactly the record under the cursor; from there the plain refinement (`delWalkSkip_refines`)
applies.  The visible records left are what the abstract machine leaves of the visible canonical
pieces; the OPT piece stays. -/
theorem delWalkSkip_fresh_refines {pp : PP} {p : Bytes} {v : View} (F : Fresh pp p v) (L : C03.Layout p) (o : C05.Output p L)
    (hone : ∀ j (hj : j < (o.pieces .additional).length), isOptPiece (o.pieces .additional)[j] = true →
      ∀ (hj1 : j + 1 < (o.pieces .additional).length), isOptPiece (o.pieces .additional)[j + 1] = false)
    (choose : Nat → Bool) :
    ∀ (fuel k : Nat) (c : Cursor) (j : Nat), CurAtFresh (L.recs .additional) (L.endOf .additional) .additional j c →
      ∀ r, absWalk choose fuel k (vis (o.pieces .additional)) (vis ((o.pieces .additional).take j)).length = some r →
        ∃ (pp' : PP) (log : List (Bytes × Bool)), delWalk nextSkippingOpt choose fuel k pp c = .ok (pp', log) ∧
          log.map (·.2) = r.2.map (·.2) ∧
          ((pp' = pp ∧ r.1 = vis (o.pieces .additional) ∧ ∀ e ∈ r.2, e.2 = false) ∨
           (∃ P' : PlainObj pp', vis (P'.lst .additional) = r.1 ∧
              (P'.lst .additional).filter isOptPiece = (o.pieces .additional).filter isOptPiece ∧
              (∀ s, s ≠ .additional → P'.lst s = o.pieces s) ∧
              o.qc = (encLabels P'.qls ++ [0]) ++ P'.q4 ∧
              (∀ i, (i + 1 < 10 ∨ 11 < i) → get16 P'.hdr i = get16 (p.take 12) i))) := by
  have hs : Section.additional.isRec = true := rfl
  have hlen : (o.pieces .additional).length = (L.recs .additional).length := (o.canon .additional hs).length
  intro fuel
  induction fuel with
  | zero => intro k c j _ r h; simp [absWalk] at h
  | succ f ih =>
    intro k c j hc r h
    obtain ⟨hend, hvisible, hoptlast, hoptthen⟩ := fresh_nextSkip_at F L o hone j c hc
    -- the shared continuation once the walker has landed on the visible record `m`
    have tail : ∀ (m : Nat) (hm : m < (L.recs .additional).length) (hm' : m < (o.pieces .additional).length),
        isOptPiece (o.pieces .additional)[m] = false →
        (vis ((o.pieces .additional).take m)).length = (vis ((o.pieces .additional).take j)).length →
        nextSkippingOpt pp c = .ok (some (curOn (L.recs .additional) m hm)) →
        CurAtFresh (L.recs .additional) (L.endOf .additional) .additional (m + 1) (curOn (L.recs .additional) m hm) →
        ∃ (pp' : PP) (log : List (Bytes × Bool)), delWalk nextSkippingOpt choose (f + 1) k pp c = .ok (pp', log) ∧
          log.map (·.2) = r.2.map (·.2) ∧
          ((pp' = pp ∧ r.1 = vis (o.pieces .additional) ∧ ∀ e ∈ r.2, e.2 = false) ∨
           (∃ P' : PlainObj pp', vis (P'.lst .additional) = r.1 ∧
              (P'.lst .additional).filter isOptPiece = (o.pieces .additional).filter isOptPiece ∧
              (∀ s, s ≠ .additional → P'.lst s = o.pieces s) ∧
              o.qc = (encLabels P'.qls ++ [0]) ++ P'.q4 ∧
              (∀ i, (i + 1 < 10 ∨ 11 < i) → get16 P'.hdr i = get16 (p.take 12) i))) := by
      intro m hm hm' hvm hidx hnx hcnext
      have hsplit := split_at (o.pieces .additional) m hm'
      have hv : vis (o.pieces .additional) = vis ((o.pieces .additional).take m) ++ (o.pieces .additional)[m] :: vis ((o.pieces .additional).drop (m + 1)) := by
        conv => lhs; rw [hsplit]
        exact vis_mid_visible _ _ _ hvm
      unfold absWalk at h
      rw [← hidx, hv] at h
      have hlt : (vis ((o.pieces .additional).take m)).length <
          (vis ((o.pieces .additional).take m) ++ (o.pieces .additional)[m] :: vis ((o.pieces .additional).drop (m + 1))).length := by simp
      simp only [hlt, dite_true, getElem_mid, eraseIdx_mid] at h
      unfold delWalk
      rw [hnx]
      simp only
      by_cases hch : choose k = true
      · simp only [hch, if_true] at h ⊢
        obtain ⟨r', hr', rfl⟩ := Option.map_eq_some_iff.1 h
        obtain ⟨pp1, P1, c1, hdel, hvoid, hsec1, e1, e2, e3, e4⟩ := delete_fresh F L o .additional hs
          (split_at (L.recs .additional) m hm) hsplit (by simp; omega)
          (curOn (L.recs .additional) m hm) rfl rfl
        rw [hdel]
        simp only [Option.isSome_none, Bool.false_eq_true, if_false]
        have hc1 : CurAt P1 .additional 0 c1 := ⟨hsec1, Or.inl ⟨hvoid, rfl⟩⟩
        have hv1 : vis (P1.lst .additional) = vis ((o.pieces .additional).take m) ++ vis ((o.pieces .additional).drop (m + 1)) := by
          rw [e1]; exact vis_append _ _
        rw [← hv1] at hr'
        have h0 : (vis ((P1.lst .additional).take 0)).length = 0 := by simp [vis]
        rw [← h0] at hr'
        obtain ⟨pp', P', hw, f1, f2, f3, f4, f5, f6⟩ := delWalkSkip_refines choose f (k + 1) pp1 P1 c1 0 hc1 r' hr'
        refine ⟨pp', _, by rw [hw]; rfl, by simp, Or.inr ⟨P', f1, ?_, ?_, by rw [f4, f5]; exact e3, ?_⟩⟩
        · rw [f2, e1]
          conv => rhs; rw [hsplit]
          exact filter_opt_remove _ _ _ hvm
        · intro s hs'; rw [f3 s hs', e2 s hs']
        · intro i hi; rw [f6 i hi]; exact e4 i (by simpa [sectionCountOffset] using hi)
      · have hch' : choose k = false := by simpa using hch
        simp only [hch', Bool.false_eq_true, if_false] at h ⊢
        obtain ⟨r', hr', rfl⟩ := Option.map_eq_some_iff.1 h
        have hidx' := vis_take_succ_visible (o.pieces .additional) m hm' hvm
        rw [← hv, ← hidx'] at hr'
        obtain ⟨pp', log, hw, hl, hres⟩ := ih (k + 1) _ (m + 1) hcnext r' hr'
        refine ⟨pp', _, by rw [hw]; rfl, by simp [hl], ?_⟩
        rcases hres with ⟨h1, h2, h3⟩ | h
        · exact Or.inl ⟨h1, h2, fun e he => by
            simp only [List.mem_cons] at he
            rcases he with rfl | he
            · rfl
            · exact h3 e he⟩
        · exact Or.inr h
    by_cases hj : j < (L.recs .additional).length
    · have hj' : j < (o.pieces .additional).length := by omega
      obtain ⟨_, hcur1, _, _, _⟩ := fresh_next_some F L .additional hs j c hc hj
      by_cases hopt : isOptPiece (o.pieces .additional)[j] = true
      · by_cases hj1 : j + 1 < (L.recs .additional).length
        · have hvis2 := hone j hj' hopt (by omega)
          have hnx := hoptthen hj hj' hopt hj1
          -- the cursor after the skipped OPT stands before record j + 2
          obtain ⟨ob0, oe0, hrun⟩ := L.run .additional hs
          obtain ⟨_, hall⟩ := hrun.at_idx
          obtain ⟨_, _, _, hnx2⟩ := hall (j + 1) hj1
          have hc2 : CurAtFresh (L.recs .additional) (L.endOf .additional) .additional (j + 1 + 1) (curOn (L.recs .additional) (j + 1) hj1) :=
            ⟨rfl, Or.inr ⟨_, rfl, hnx2, by simp only [curOn]; omega, by omega⟩⟩
          refine tail (j + 1) hj1 (by omega) hvis2 ?_ hnx hc2
          exact vis_take_succ_opt _ j hj' hopt
        · have hv : vis (o.pieces .additional) = vis ((o.pieces .additional).take j) := by
            conv => lhs; rw [split_at (o.pieces .additional) j hj']
            rw [vis_mid_opt _ _ _ hopt]
            have : (o.pieces .additional).drop (j + 1) = [] := List.drop_eq_nil_of_le (by omega)
            rw [this]; simp [vis]
          unfold absWalk at h
          rw [hv] at h
          simp only [Nat.lt_irrefl, dite_false, Option.some.injEq] at h
          unfold delWalk
          rw [hoptlast hj hj' hopt hj1]
          subst h
          exact ⟨pp, [], rfl, rfl, Or.inl ⟨rfl, hv.symm, by simp⟩⟩
      · have hvm : isOptPiece (o.pieces .additional)[j] = false := by simpa using hopt
        exact tail j hj hj' hvm rfl (hvisible hj hj' hvm) hcur1
    · have hv : (o.pieces .additional).take j = o.pieces .additional := List.take_of_length_le (by omega)
      unfold absWalk at h
      rw [hv] at h
      simp only [Nat.lt_irrefl, dite_false, Option.some.injEq] at h
      unfold delWalk
      rw [hend hj]
      subst h
      exact ⟨pp, [], rfl, rfl, Or.inl ⟨rfl, rfl, by simp⟩⟩

end Dns
