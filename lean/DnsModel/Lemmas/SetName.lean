/-
  Lemmas.SetName — `set_raw_name` through a cursor on a record of a plain object: the owner name of that
  record is replaced (the record grows or shrinks, later sections move), nothing else changes.
-/
import DnsModel.Lemmas.SetField
import DnsModel.Lemmas.FirstTouch
namespace Dns
open Res

/-- `resize_rr` with a positive shift: a gap of `sh` bytes opens at the cursor -/
theorem resizeRR_grow (pp : PP) (c : Cursor) (off sh : Nat) (sect : Section) (hoff : c.offset = some off) (hsh : 0 < sh)
    (hsize : pp.packet.length + sh ≤ 65535) (hle : off ≤ pp.packet.length) (hnx : c.offsetNext ≤ pp.packet.length)
    (hcs : c.currentSection pp = .ok sect) :
    resizeRR pp c (Int.ofNat sh) =
      .ok { pp := pp.afterResize c sect (Int.ofNat sh)
              (pp.packet.take off ++ (pp.packet.drop off).take sh ++ List.replicate (sh - (pp.packet.length - off)) 0 ++ pp.packet.drop off),
            cur := { c with offsetNext := c.offsetNext + sh }, result := none } := by
  unfold resizeRR
  have hz : (Int.ofNat sh == 0) = false := by
    simp only [beq_eq_false_iff_ne, ne_eq]
    intro h
    have : (sh : Int) = 0 := h
    omega
  have hpos : Int.ofNat sh > 0 := by
    have : (0 : Int) < (sh : Int) := by omega
    exact this
  have htn : (Int.ofNat sh).toNat = sh := by simp
  simp only [hz, Bool.false_eq_true, if_false, hoff, hpos, if_true, htn]
  have c1 : ¬ (pp.packet.length + sh > 0xffff) := by omega
  simp only [c1, if_false, hle, if_true, pure_eq, bind_ok]
  have hn : (Int.ofNat c.offsetNext + Int.ofNat sh) = Int.ofNat (c.offsetNext + sh) := by
    simp only [Int.ofNat_eq_natCast]; omega
  rw [hn]
  have hnl : (pp.packet.take off ++ (pp.packet.drop off).take sh ++ List.replicate (sh - (pp.packet.length - off)) 0 ++ pp.packet.drop off).length =
      pp.packet.length + sh := by
    simp only [List.length_append, List.length_take, List.length_drop, List.length_replicate]; omega
  have c3 : (decide (Int.ofNat (c.offsetNext + sh) < 0) || decide ((Int.ofNat (c.offsetNext + sh)).toNat >
      (pp.packet.take off ++ (pp.packet.drop off).take sh ++ List.replicate (sh - (pp.packet.length - off)) 0 ++ pp.packet.drop off).length)) = false := by
    rw [hnl]
    simp only [Int.ofNat_eq_natCast, Int.toNat_natCast, Bool.or_eq_false_iff, decide_eq_false_iff_not]
    constructor <;> omega
  simp only [c3, Bool.false_eq_true, if_false]
  have key : ∀ (x : Bytes) (cc : Cursor), cc.offset = some off → Cursor.currentSection { pp with packet := x } cc = .ok sect := by
    intro x cc h
    unfold Cursor.currentSection at hcs ⊢
    rw [hoff] at hcs
    simp only [h]
    exact hcs
  rw [key _ _ rfl]
  simp only [mOk, PP.afterResize, Int.ofNat_eq_natCast, Int.toNat_natCast, hoff]

/-- the fields of the object `resize_rr` leaves -/
theorem afterResize_fields (pp : PP) (c : Cursor) (sect : Section) (shift : Int) (x : Bytes) :
    (pp.afterResize c sect shift x).packet = x ∧
    (pp.afterResize c sect shift x).maybeCompressed = pp.maybeCompressed ∧
    (pp.afterResize c sect shift x).cached = pp.cached ∧
    (pp.afterResize c sect shift x).offsetQuestion = pp.offsetQuestion ∧
    (pp.afterResize c sect shift x).offsetAnswers =
      (if sect = .question then pp.offsetAnswers.map (fun x => shiftNat x shift) else pp.offsetAnswers) ∧
    (pp.afterResize c sect shift x).offsetNameservers =
      (if sect = .question ∨ sect = .answer then pp.offsetNameservers.map (fun x => shiftNat x shift) else pp.offsetNameservers) ∧
    (pp.afterResize c sect shift x).offsetAdditional =
      (if sect = .question ∨ sect = .answer ∨ sect = .nameServers then pp.offsetAdditional.map (fun x => shiftNat x shift) else pp.offsetAdditional) ∧
    (pp.afterResize c sect shift x).offsetEdns =
      (if optLt c.offset pp.offsetEdns then pp.offsetEdns.map (fun x => shiftNat x shift) else pp.offsetEdns) ∧
    (pp.afterResize c sect shift x).ednsCount = pp.ednsCount ∧ (pp.afterResize c sect shift x).extRcode = pp.extRcode ∧
    (pp.afterResize c sect shift x).ednsVersion = pp.ednsVersion ∧ (pp.afterResize c sect shift x).extFlags = pp.extFlags ∧
    (pp.afterResize c sect shift x).maxPayload = pp.maxPayload := by
  cases h : optLt c.offset pp.offsetEdns <;> cases sect <;> simp [PP.afterResize, h]

theorem shiftNat_zero (x : Nat) : shiftNat x 0 = x := by simp [shiftNat]

theorem afterResize_zero (pp : PP) (c : Cursor) (sect : Section) : pp.afterResize c sect 0 pp.packet = pp := by
  have hm : ∀ o : Option Nat, o.map (fun x => shiftNat x 0) = o := by
    intro o; cases o <;> simp [shiftNat_zero]
  cases h : optLt c.offset pp.offsetEdns <;> cases sect <;> simp [PP.afterResize, h, hm]

/-- resize by the difference of the name lengths, then write the new name over the old one -/
theorem resize_write (pp : PP) (c : Cursor) (sect : Section) (pre old rest post name : Bytes)
    (hpk : pp.packet = pre ++ (old ++ rest) ++ post) (hoff : c.offset = some pre.length)
    (hcs : c.currentSection pp = .ok sect) (hnx : c.offsetNext ≤ pp.packet.length) (hcur : old.length ≤ c.offsetNext)
    (hsize : old.length < name.length → pp.packet.length + name.length - old.length ≤ 65535) :
    ∃ x, resizeRR pp c (Int.ofNat name.length - Int.ofNat old.length) =
        .ok { pp := pp.afterResize c sect (Int.ofNat name.length - Int.ofNat old.length) x,
              cur := { c with offsetNext := c.offsetNext + name.length - old.length }, result := none } ∧
      writeAt x pre.length name = .ok (pre ++ (name ++ rest) ++ post) := by
  have hlen : pp.packet.length = pre.length + old.length + rest.length + post.length := by rw [hpk]; simp; omega
  have htk : pp.packet.take pre.length = pre := by rw [hpk]; simp
  have hdr : pp.packet.drop pre.length = old ++ rest ++ post := by rw [hpk]; simp
  rcases Nat.lt_trichotomy name.length old.length with hlt | heq | hgt
  · -- shrink
    have e : Int.ofNat name.length - Int.ofNat old.length = -(Int.ofNat (old.length - name.length)) := by
      simp only [Int.ofNat_eq_natCast]; omega
    rw [e]
    refine ⟨pp.packet.take pre.length ++ pp.packet.drop (pre.length + (old.length - name.length)), ?_, ?_⟩
    · have := resizeRR_shrink pp c pre.length (old.length - name.length) sect hoff (by omega) (by omega) (by omega) hnx hcs
      rw [this]
      congr 3
      omega
    · have hd : pp.packet.drop (pre.length + (old.length - name.length)) = old.drop (old.length - name.length) ++ rest ++ post := by
        rw [← List.drop_drop, hdr, List.append_assoc, List.drop_append_of_le_length (by omega)]
        simp
      rw [htk, hd]
      have := writeAt_inside pre post [] (old.drop (old.length - name.length)) rest name (by simp; omega)
      simpa using this
  · -- same length
    have e : Int.ofNat name.length - Int.ofNat old.length = 0 := by simp only [Int.ofNat_eq_natCast]; omega
    rw [e]
    refine ⟨pp.packet, ?_, ?_⟩
    · unfold resizeRR
      simp only [beq_self_eq_true, if_true, pure_eq, afterResize_zero]
      congr 2
      have : c.offsetNext + name.length - old.length = c.offsetNext := by omega
      rw [this]
    · rw [hpk]
      have := writeAt_inside pre post [] old rest name heq
      simpa using this
  · -- grow
    have e : Int.ofNat name.length - Int.ofNat old.length = Int.ofNat (name.length - old.length) := by
      simp only [Int.ofNat_eq_natCast]; omega
    rw [e]
    refine ⟨pp.packet.take pre.length ++ (pp.packet.drop pre.length).take (name.length - old.length) ++
      List.replicate (name.length - old.length - (pp.packet.length - pre.length)) 0 ++ pp.packet.drop pre.length, ?_, ?_⟩
    · have hsz := hsize hgt
      have := resizeRR_grow pp c pre.length (name.length - old.length) sect hoff (by omega) (by omega) (by omega) hnx hcs
      rw [this]
      congr 3
      omega
    · rw [htk, hdr]
      have hg : ((old ++ rest ++ post).take (name.length - old.length) ++
          List.replicate (name.length - old.length - (pp.packet.length - pre.length)) 0 ++ old).length = name.length := by
        simp only [List.length_append, List.length_take, List.length_replicate]; omega
      have := writeAt_inside pre post [] ((old ++ rest ++ post).take (name.length - old.length) ++
          List.replicate (name.length - old.length - (pp.packet.length - pre.length)) 0 ++ old) rest name hg.symm
      simp only [List.nil_append, List.length_nil, Nat.add_zero] at this
      rw [← this]
      congr 1
      simp

theorem shiftNat_diff' (x nw cur : Nat) : shiftNat x (Int.ofNat nw - Int.ofNat cur) = x + nw - cur := by
  unfold shiftNat
  simp only [Int.ofNat_eq_natCast]
  omega

theorem shiftNat_diff {x nw cur : Nat} (_h : cur ≤ x) : shiftNat x (Int.ofNat nw - Int.ofNat cur) = x + nw - cur := by
  unfold shiftNat
  simp only [Int.ofNat_eq_natCast]
  omega

/-- the later section starts after a record of section `sec` changed its length from `cur + R` to `nw + R` -/
theorem offsets_after_resize {pp : PP} (P : PlainObj pp) (sec : Section) (hs : sec.isRec = true) {ps1 ps2 : List Bytes} {rc : Bytes}
    (hsplit : P.lst sec = ps1 ++ rc :: ps2) (nw cur l' : Nat) (hcur : cur ≤ rc.length) (hl' : l' + cur = rc.length + nw) :
    (if sec = .question then pp.offsetAnswers.map (fun x => shiftNat x (Int.ofNat nw - Int.ofNat cur)) else pp.offsetAnswers) = pp.offsetAnswers ∧
    (if sec = .question ∨ sec = .answer then pp.offsetNameservers.map (fun x => shiftNat x (Int.ofNat nw - Int.ofNat cur)) else pp.offsetNameservers) =
      (if sec = .answer then pp.offsetNameservers.map (fun x => x + l' - rc.length) else pp.offsetNameservers) ∧
    (if sec = .question ∨ sec = .answer ∨ sec = .nameServers then pp.offsetAdditional.map (fun x => shiftNat x (Int.ofNat nw - Int.ofNat cur)) else pp.offsetAdditional) =
      (if sec = .additional then pp.offsetAdditional else pp.offsetAdditional.map (fun x => x + l' - rc.length)) := by
  have hfl := mid_flatten ps1 ps2 rc
  rw [← hsplit] at hfl
  cases sec with
  | answer =>
    simp only [PlainObj.lst] at hfl
    refine ⟨by simp, ?_, ?_⟩
    · simp only [reduceCtorEq, false_or, if_true, P.on]
      by_cases hN : P.N.length > 0
      · simp only [hN, if_true, Option.map_some]
        rw [shiftNat_diff (by omega)]; congr 1; omega
      · simp [hN]
    · simp only [reduceCtorEq, false_or, true_or, or_true, if_true, if_false, P.oR]
      by_cases hR : P.R.length > 0
      · simp only [hR, if_true, Option.map_some]
        rw [shiftNat_diff (by omega)]; congr 1; omega
      · simp [hR]
  | nameServers =>
    simp only [PlainObj.lst] at hfl
    refine ⟨by simp, by simp, ?_⟩
    simp only [reduceCtorEq, false_or, or_true, if_true, if_false, P.oR]
    by_cases hR : P.R.length > 0
    · simp only [hR, if_true, Option.map_some]
      rw [shiftNat_diff (by omega)]; congr 1; omega
    · simp [hR]
  | additional => exact ⟨by simp, by simp, by simp⟩
  | question => simp [Section.isRec] at hs
  | edns => simp [Section.isRec] at hs

/-- a well-formed pointer-free name passes the argument check with its own length -/
theorem checkArg_ok (ls : List (List UInt8)) (h : GoodLabels ls) :
    checkCompressedName (encLabels ls ++ [0]) 0 = .ok (labSum ls + 1) := by
  have hv := validName_at (u := encLabels ls ++ [0]) (A := []) (B := []) (by simp) h.1 h.2.1 h.2.2
  simp only [List.length_nil, Nat.zero_add] at hv
  exact checkCompressedName_complete _ _ _ _ hv

/-- **`set_raw_name`** through a cursor on a non-OPT record of a plain object, with a well-formed
pointer-free name: that record's owner name is replaced by it and nothing else changes; the later
section starts move by the difference; the cursor still designates the record (same start, new name
end, new end) -/
theorem PlainObj.set_name {pp : PP} (P : PlainObj pp) (sec : Section) (hs : sec.isRec = true) {ps1 ps2 : List Bytes} {rc : Bytes}
    (hsplit : P.lst sec = ps1 ++ rc :: ps2) (c : Cursor) {ne : Nat} {ob oa : Bool}
    (hr : RRAtPos pp.packet sec ⟨P.start sec + ps1.flatten.length, ne, P.start sec + ps1.flatten.length + rc.length⟩ ob oa)
    (hoff : c.offset = some (P.start sec + ps1.flatten.length))
    (hnext : c.offsetNext = P.start sec + ps1.flatten.length + rc.length) (hne : c.nameEnd = ne) (hsec : c.sec = sec)
    (h41 : get16 pp.packet ne ≠ 41) (owner' : List (List UInt8)) (hgo' : GoodLabels owner')
    (hsize : ne - (P.start sec + ps1.flatten.length) < labSum owner' + 1 →
      pp.packet.length + (labSum owner' + 1) - (ne - (P.start sec + ps1.flatten.length)) ≤ 65535) :
    ∃ (owner : List (List UInt8)) (f8 rd : Bytes) (pp' : PP) (P' : PlainObj pp'),
      rc = (encLabels owner ++ [0]) ++ f8 ++ put16 rd.length ++ rd ∧
      setRawName pp c (encLabels owner' ++ [0]) =
        mOk pp' (c.movedTo (P.start sec + ps1.flatten.length) (P.start sec + ps1.flatten.length + labSum owner' + 1)
          (P.start sec + ps1.flatten.length + ((encLabels owner' ++ [0]) ++ f8 ++ put16 rd.length ++ rd).length)) ∧
      P'.lst sec = ps1 ++ ((encLabels owner' ++ [0]) ++ f8 ++ put16 rd.length ++ rd) :: ps2 ∧
      (∀ s, s ≠ sec → P'.lst s = P.lst s) ∧ P'.qls = P.qls ∧ P'.q4 = P.q4 ∧ P'.hdr = P.hdr ∧
      pp'.cached = none ∧ pp'.ednsCount = pp.ednsCount ∧ pp'.extRcode = pp.extRcode ∧ pp'.ednsVersion = pp.ednsVersion ∧
      pp'.extFlags = pp.extFlags ∧ pp'.maxPayload = pp.maxPayload ∧
      pp'.offsetEdns = (if optLt c.offset pp.offsetEdns then
          pp.offsetEdns.map (fun x => x + ((encLabels owner' ++ [0]) ++ f8 ++ put16 rd.length ++ rd).length - rc.length)
        else pp.offsetEdns) ∧ GoodLabels owner ∧ f8.length = 8 ∧ rd.length < 65536 ∧ get16 f8 0 ≠ 41 := by
  obtain ⟨owner, f8, rd, pre, post, ob', oa', hpk, hprel, hrc, hgo, hf8, hlt, hnon, hr', hty⟩ := P.shape_at sec hs hsplit
  have hne' : ne = pre.length + labSum owner + 1 := by
    rw [← hprel] at hr
    exact nameEnds_functional hr.1 hr'.1
  rw [hne', hty] at h41
  obtain ⟨hpl, hrep⟩ := hnon h41
  have hok : ∀ b, PieceOK sec ((encLabels owner' ++ [0]) ++ f8 ++ put16 rd.length ++ rd) b b :=
    fun b => piece_of_shape sec owner' f8 rd hgo' hf8 hlt h41 hpl b
  have hps := hrep _ hok
  let pp1 : PP := { pp with cached := none }
  have hpk1 : pp1.packet = pre ++ ((encLabels owner ++ [0]) ++ (f8 ++ put16 rd.length ++ rd)) ++ post := by
    show pp.packet = _
    rw [hpk, hrc]; simp
  obtain ⟨h1, h2, h3⟩ := hr.pos_len
  simp only at h1 h2 h3
  have hcs : c.currentSection pp1 = .ok sec := by
    have : c.currentSection pp1 = c.currentSection pp := rfl
    rw [this]
    exact P.currentSection_at sec hs hsplit (by omega) c hoff
  have holdl : (encLabels owner ++ [0]).length = labSum owner + 1 := encLen_eq owner
  have hnewl : (encLabels owner' ++ [0]).length = labSum owner' + 1 := encLen_eq owner'
  have hrcl : rc.length = labSum owner + 1 + (f8 ++ put16 rd.length ++ rd).length := by
    rw [hrc]; simp only [List.length_append, List.length_cons, List.length_nil, encLabels_length]; omega
  obtain ⟨x, hres, hwr⟩ := resize_write pp1 c sec pre (encLabels owner ++ [0]) (f8 ++ put16 rd.length ++ rd) post (encLabels owner' ++ [0])
    hpk1 (by rw [hprel]; exact hoff) hcs (by show c.offsetNext ≤ pp.packet.length; omega) (by rw [holdl]; omega)
    (by rw [holdl, hnewl]; intro hg; show pp.packet.length + _ - _ ≤ 65535; have := hsize (by omega); omega)
  rw [holdl, hnewl] at hres
  -- the object after the write
  let pp2 : PP := { pp1.afterResize c sec (Int.ofNat (labSum owner' + 1) - Int.ofNat (labSum owner + 1)) x with
    packet := pre ++ ((encLabels owner' ++ [0]) ++ (f8 ++ put16 rd.length ++ rd)) ++ post }
  obtain ⟨g1, g2, g3, g4, g5, g6, g7, g8, g9, g10, g11, g12, g13⟩ :=
    afterResize_fields pp1 c sec (Int.ofNat (labSum owner' + 1) - Int.ofNat (labSum owner + 1)) x
  have hl' : ((encLabels owner' ++ [0]) ++ f8 ++ put16 rd.length ++ rd).length + (labSum owner + 1) = rc.length + (labSum owner' + 1) := by
    rw [hrc]; simp only [List.length_append, List.length_cons, List.length_nil, encLabels_length]; omega
  obtain ⟨o1, o2, o3⟩ := offsets_after_resize P sec hs hsplit (labSum owner' + 1) (labSum owner + 1)
    ((encLabels owner' ++ [0]) ++ f8 ++ put16 rd.length ++ rd).length (by omega) hl'
  obtain ⟨P', f1, f2, f3, f4, f5⟩ := P.replace_at sec hs hsplit ((encLabels owner' ++ [0]) ++ f8 ++ put16 rd.length ++ rd)
    hps hpk hprel pp2 (by simp [pp2]) (by show (pp1.afterResize _ _ _ _).offsetQuestion = _; rw [g4])
    (by show (pp1.afterResize _ _ _ _).offsetAnswers = _; rw [g5]; exact o1)
    (by show (pp1.afterResize _ _ _ _).offsetNameservers = _; rw [g6]; exact o2)
    (by show (pp1.afterResize _ _ _ _).offsetAdditional = _; rw [g7]; exact o3)
    (by show (pp1.afterResize _ _ _ _).maybeCompressed = _; rw [g2]; exact P.mc)
  -- where the record now lies
  obtain ⟨ne2, ob2, oa2, hr2⟩ := P'.rec_at sec hs f1
  have hst : P'.start sec = P.start sec := P.start_congr P' sec f3 f2
  rw [hst] at hr2
  have hv2 : ValidName pp2.packet pre.length owner' (pre.length + labSum owner' + 1) :=
    validName_at (u := pp2.packet) (A := pre) (B := f8 ++ put16 rd.length ++ rd ++ post) (by simp [pp2]) hgo'.1 hgo'.2.1 hgo'.2.2
  have hne2 : ne2 = P.start sec + ps1.flatten.length + labSum owner' + 1 := by
    rw [← hprel] at hr2 ⊢
    exact nameEnds_functional hr2.1 ⟨owner', hv2⟩
  have hq : c.sec ≠ .question := by
    rw [hsec]; intro h; rw [h] at hs; simp [Section.isRec] at hs
  have hrc2 := recompute_spec hr2 ⟨c.sec, some (P.start sec + ps1.flatten.length), c.offsetNext + (labSum owner' + 1) - (labSum owner + 1), c.nameEnd, c.rrsLeft⟩ rfl hq
  refine ⟨owner, f8, rd, pp2, P', hrc, ?_, f1, f2, f3, f4, f5, ?_, ?_, ?_, ?_, ?_, ?_, ?_, hgo, hf8, hlt, h41⟩
  · unfold setRawName
    rw [checkArg_ok owner' hgo']
    have htk : (encLabels owner' ++ [0]).take (labSum owner' + 1) = encLabels owner' ++ [0] := by
      rw [List.take_of_length_le (by rw [hnewl]; omega)]
    have hmc : (if pp.maybeCompressed = true then uncompressAt pp c else mOk pp c) = mOk pp c := by
      rw [P.mc]; rfl
    simp only [htk, hmc]
    simp only [mOk, bind_ok, Option.isSome_none, Bool.false_eq_true, if_false, hoff]
    have hsl : slice pp.packet (P.start sec + ps1.flatten.length) c.nameEnd = .ok (encLabels owner ++ [0]) := by
      unfold slice
      rw [hne, hne', ← hprel]
      have hw : (pp.packet.drop pre.length).take (labSum owner + 1) = encLabels owner ++ [0] := by
        have e : pp.packet = pre ++ (encLabels owner ++ [0]) ++ (f8 ++ put16 rd.length ++ rd ++ post) := by rw [hpk, hrc]; simp
        have := window_eq e
        rw [holdl] at this; exact this
      have hcond : pre.length ≤ pre.length + labSum owner + 1 ∧ pre.length + labSum owner + 1 ≤ pp.packet.length := by
        constructor <;> omega
      simp only [hcond, and_self, if_true]
      have : pre.length + labSum owner + 1 - pre.length = labSum owner + 1 := by omega
      rw [this, hw]
    simp only [hsl, bind_ok, rawNameLen_enc owner hgo.1, holdl]
    show (do let st ← resizeRR pp1 c _; _) = _
    rw [hres]
    simp only [bind_ok, Option.isSome_none, Bool.false_eq_true, if_false, g1, hoff]
    rw [← hprel, hwr]
    simp only [bind_ok]
    show (do let c ← Cursor.recompute pp2.packet _; _) = _
    rw [hprel, hrc2]
    simp only [bind_ok, Cursor.movedTo, hoff, hne2]
    rfl
  · show (pp1.afterResize _ _ _ _).cached = none; rw [g3]
  · show (pp1.afterResize _ _ _ _).ednsCount = _; rw [g9]
  · show (pp1.afterResize _ _ _ _).extRcode = _; rw [g10]
  · show (pp1.afterResize _ _ _ _).ednsVersion = _; rw [g11]
  · show (pp1.afterResize _ _ _ _).extFlags = _; rw [g12]
  · show (pp1.afterResize _ _ _ _).maxPayload = _; rw [g13]
  · show (pp1.afterResize _ _ _ _).offsetEdns = _
    rw [g8]
    show (if optLt c.offset pp.offsetEdns then _ else pp.offsetEdns) = _
    by_cases hlt' : optLt c.offset pp.offsetEdns = true
    · rw [if_pos hlt', if_pos hlt']
      cases hoe : pp.offsetEdns with
      | none => rfl
      | some x =>
        rw [hoe, hoff] at hlt'
        simp only [optLt, decide_eq_true_eq] at hlt'
        simp only [Option.map_some]
        rw [shiftNat_diff']
        congr 1
        omega
    · rw [if_neg hlt', if_neg hlt']

/-- `resize_rr` refuses to grow a packet beyond 65535 bytes, touching nothing -/
theorem resizeRR_too_large (pp : PP) (c : Cursor) (off sh : Nat) (hoff : c.offset = some off) (hsh : 0 < sh)
    (hbig : pp.packet.length + sh > 65535) :
    resizeRR pp c (Int.ofNat sh) = .ok { pp := pp, cur := c, result := some .packetTooLarge } := by
  unfold resizeRR
  have hz : (Int.ofNat sh == 0) = false := by
    simp only [beq_eq_false_iff_ne, ne_eq]
    intro h
    have : (sh : Int) = 0 := h
    omega
  have hpos : Int.ofNat sh > 0 := by
    have : (0 : Int) < (sh : Int) := by omega
    exact this
  have htn : (Int.ofNat sh).toNat = sh := by simp
  simp only [hz, Bool.false_eq_true, if_false, hoff, hpos, if_true, htn]
  have c1 : pp.packet.length + sh > 0xffff := hbig
  simp only [c1, if_true, pure_eq, bind_ok, mErr]

/-- **`set_raw_name` refused for size**: a name that would make the packet exceed 65535 bytes is refused;
bytes, section starts, EDNS summary and cursor are untouched (the question cache is emptied) -/
theorem PlainObj.set_name_too_large {pp : PP} (P : PlainObj pp) (sec : Section) (hs : sec.isRec = true) {ps1 ps2 : List Bytes} {rc : Bytes}
    (hsplit : P.lst sec = ps1 ++ rc :: ps2) (c : Cursor) {ne : Nat} {ob oa : Bool}
    (hr : RRAtPos pp.packet sec ⟨P.start sec + ps1.flatten.length, ne, P.start sec + ps1.flatten.length + rc.length⟩ ob oa)
    (hoff : c.offset = some (P.start sec + ps1.flatten.length)) (hne : c.nameEnd = ne)
    (owner' : List (List UInt8)) (hgo' : GoodLabels owner')
    (hgrow : ne - (P.start sec + ps1.flatten.length) < labSum owner' + 1)
    (hbig : pp.packet.length + (labSum owner' + 1) - (ne - (P.start sec + ps1.flatten.length)) > 65535) :
    setRawName pp c (encLabels owner' ++ [0]) = .ok { pp := { pp with cached := none }, cur := c, result := some .packetTooLarge } := by
  obtain ⟨owner, f8, rd, pre, post, ob', oa', hpk, hprel, hrc, hgo, hf8, hlt, hnon, hr', hty⟩ := P.shape_at sec hs hsplit
  have hne' : ne = pre.length + labSum owner + 1 := by
    rw [← hprel] at hr
    exact nameEnds_functional hr.1 hr'.1
  obtain ⟨h1, h2, h3⟩ := hr.pos_len
  simp only at h1 h2 h3
  have holdl : (encLabels owner ++ [0]).length = labSum owner + 1 := encLen_eq owner
  have hnewl : (encLabels owner' ++ [0]).length = labSum owner' + 1 := encLen_eq owner'
  unfold setRawName
  rw [checkArg_ok owner' hgo']
  have htk : (encLabels owner' ++ [0]).take (labSum owner' + 1) = encLabels owner' ++ [0] := by
    rw [List.take_of_length_le (by rw [hnewl]; omega)]
  have hmc : (if pp.maybeCompressed = true then uncompressAt pp c else mOk pp c) = mOk pp c := by
    rw [P.mc]; rfl
  simp only [htk, hmc]
  simp only [mOk, bind_ok, Option.isSome_none, Bool.false_eq_true, if_false, hoff]
  have hsl : slice pp.packet (P.start sec + ps1.flatten.length) c.nameEnd = .ok (encLabels owner ++ [0]) := by
    unfold slice
    rw [hne, hne', ← hprel]
    have hw : (pp.packet.drop pre.length).take (labSum owner + 1) = encLabels owner ++ [0] := by
      have e : pp.packet = pre ++ (encLabels owner ++ [0]) ++ (f8 ++ put16 rd.length ++ rd ++ post) := by rw [hpk, hrc]; simp
      have := window_eq e
      rw [holdl] at this; exact this
    have hcond : pre.length ≤ pre.length + labSum owner + 1 ∧ pre.length + labSum owner + 1 ≤ pp.packet.length := by
      constructor <;> omega
    simp only [hcond, and_self, if_true]
    have : pre.length + labSum owner + 1 - pre.length = labSum owner + 1 := by omega
    rw [this, hw]
  simp only [hsl, bind_ok, rawNameLen_enc owner hgo.1, holdl]
  have e : Int.ofNat (labSum owner' + 1) - Int.ofNat (labSum owner + 1) = Int.ofNat (labSum owner' + 1 - (labSum owner + 1)) := by
    simp only [Int.ofNat_eq_natCast]; omega
  rw [e]
  have := resizeRR_too_large { pp with cached := none } c (P.start sec + ps1.flatten.length) (labSum owner' + 1 - (labSum owner + 1)) hoff
    (by omega) (by show pp.packet.length + _ > 65535; omega)
  rw [this]
  rfl

end Dns
