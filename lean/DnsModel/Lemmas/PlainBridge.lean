/-
  Lemmas.PlainBridge — a record that is its own canonical form (what decompression produces) is
  written without pointers in the sense of `PlainRec`.
-/
import DnsModel.Lemmas.CompressRec
import DnsModel.Lemmas.CanonRun
namespace Dns
open Res

theorem plainAt_of_window {u : Bytes} {off : Nat} {ls : List (List UInt8)} {rest : Bytes} {n : Nat}
    (h : (u.drop off).take n = (encLabels ls ++ [0]) ++ rest) (hv : ValidName u off ls (off + (labSum ls + 1)) ∨
      ((∀ l ∈ ls, okLabel l) ∧ wireLen ls ≤ 255 ∧ (∀ l ∈ ls, goodChars l = true))) : PlainAt u off ls := by
  have hfacts : (∀ l ∈ ls, okLabel l) ∧ wireLen ls ≤ 255 ∧ (∀ l ∈ ls, goodChars l = true) := by
    rcases hv with hv | hv
    · exact validName_ok hv
    · exact hv
  refine ⟨?_, hfacts⟩
  have hlen : labSum ls + 1 ≤ n := by
    have := congrArg List.length h
    simp only [List.length_take, List.length_append, encLabels_length, List.length_cons, List.length_nil] at this
    omega
  have := congrArg (List.take (labSum ls + 1)) h
  rw [List.take_take, Nat.min_eq_left hlen] at this
  rw [this, ← encLen_eq, List.take_append_length]

theorem window_shift {u w1 w2 : Bytes} {off n : Nat} (h : (u.drop off).take n = w1 ++ w2) :
    (u.drop (off + w1.length)).take (n - w1.length) = w2 := by
  have := congrArg (List.drop w1.length) h
  rw [List.drop_append_length, List.drop_take, List.drop_drop] at this
  exact this

/-- a self-canonical record of the policy is pointer-free -/
theorem plainRec_of_selfCanon {u : Bytes} {sec : Section} {r : RecPos} {ob oa : Bool} (hr : RRAtPos u sec r ob oa)
    (hs : SelfCanon u r) : PlainRec u r := by
  obtain ⟨owner, rd, hvo, hrd, hbytes⟩ := hs
  obtain ⟨_, h10, hnext, hfit, _⟩ := hr
  have hf8 : ((u.drop r.ne).take 8).length = 8 := length_take_drop (by omega)
  -- the owner name
  have hb1 : (u.drop r.off).take (r.next - r.off) = (encLabels owner ++ [0]) ++ ((u.drop r.ne).take 8 ++ put16 rd.length ++ rd) := by
    rw [hbytes]; simp
  have hpo : PlainAt u r.off owner := plainAt_of_window hb1 (Or.inr (validName_ok hvo))
  have hne : r.ne = r.off + (labSum owner + 1) := by
    have := (validName_functional hvo hpo.valid).2
    omega
  refine ⟨owner, hpo, hne, ?_⟩
  -- the data window
  have hb2 := window_shift hb1
  rw [encLen_eq] at hb2
  have hb2' : (u.drop r.ne).take (r.next - r.off - (labSum owner + 1)) = ((u.drop r.ne).take 8 ++ put16 rd.length) ++ rd := by
    rw [← hne] at hb2; simpa [List.append_assoc] using hb2
  have hb3 := window_shift hb2'
  have hl10 : ((u.drop r.ne).take 8 ++ put16 rd.length).length = 10 := by simp [hf8, put16]
  rw [hl10] at hb3
  have hspan : r.next - r.off - (labSum owner + 1) - 10 = get16 u (r.ne + 8) := by omega
  rw [hspan] at hb3
  have hrdlen : rd.length = get16 u (r.ne + 8) := by
    have := congrArg List.length hb3
    rw [length_take_drop (by omega)] at this
    exact this.symm
  unfold PlainRd
  unfold RdCanon at hrd
  by_cases hns : get16 u r.ne = 2 ∨ get16 u r.ne = 5 ∨ get16 u r.ne = 12
  · simp only [hns, if_true] at hrd ⊢
    obtain ⟨ls, hv, hrdeq⟩ := hrd
    refine ⟨ls, plainAt_of_window (rest := []) (by rw [hb3, hrdeq]; simp) (Or.inr (validName_ok hv)), ?_⟩
    rw [← hrdlen, hrdeq, encLen_eq]
  simp only [hns, if_false] at hrd ⊢
  by_cases hmx : get16 u r.ne = 15
  · simp only [hmx, if_true] at hrd ⊢
    obtain ⟨ls, hv, hrdeq⟩ := hrd
    have hp2 : ((u.drop (r.ne + 10)).take 2).length = 2 := by
      have := hv.1; exact length_take_drop (by omega)
    have hb4 : (u.drop (r.ne + 10)).take (get16 u (r.ne + 8)) = (u.drop (r.ne + 10)).take 2 ++ (encLabels ls ++ [0]) := by
      rw [hb3, hrdeq]
    have hb5 := window_shift hb4
    rw [hp2] at hb5
    refine ⟨ls, plainAt_of_window (rest := []) (by rw [hb5]; simp) (Or.inr (validName_ok hv)), ?_⟩
    rw [← hrdlen, hrdeq, List.length_append, hp2, encLen_eq]
  simp only [hmx, if_false] at hrd ⊢
  by_cases hsoa : get16 u r.ne = 6
  · simp only [hsoa, if_true] at hrd ⊢
    obtain ⟨l1, l2, e1, hv1, hv2, hrdeq⟩ := hrd
    have hm : ((u.drop (r.ne + 10 + get16 u (r.ne + 8) - 20)).take 20).length = 20 := by
      have := hv2.1
      have hgt := hv2.2.1.lt
      have : r.ne + 10 + get16 u (r.ne + 8) - 20 + 20 ≤ u.length := by
        have h1 := hv1.2.1.lt
        omega
      exact length_take_drop this
    have hb4 : (u.drop (r.ne + 10)).take (get16 u (r.ne + 8)) =
        (encLabels l1 ++ [0]) ++ ((encLabels l2 ++ [0]) ++ (u.drop (r.ne + 10 + get16 u (r.ne + 8) - 20)).take 20) := by
      rw [hb3, hrdeq]; simp
    have hp1 : PlainAt u (r.ne + 10) l1 := plainAt_of_window hb4 (Or.inr (validName_ok hv1))
    have hb5 := window_shift hb4
    rw [encLen_eq] at hb5
    have hp2 : PlainAt u (r.ne + 10 + (labSum l1 + 1)) l2 := plainAt_of_window hb5 (Or.inr (validName_ok hv2))
    refine ⟨l1, l2, hp1, hp2, ?_⟩
    rw [← hrdlen, hrdeq]
    simp only [List.length_append, hm, encLabels_length, List.length_cons, List.length_nil]
  · simp [hsoa]

end Dns
