/-
  Lemmas.Plain — pointer-free names and records inside a packet, as windows of bytes.
-/
import DnsModel.Lemmas.CompressParam
namespace Dns
open Res

/-- at `off` the packet holds, written out in full, the name with labels `ls` (within all limits) -/
def PlainAt (p : Bytes) (off : Nat) (ls : List (List UInt8)) : Prop :=
  (p.drop off).take (labSum ls + 1) = encLabels ls ++ [0] ∧ (∀ l ∈ ls, okLabel l) ∧ wireLen ls ≤ 255 ∧
    (∀ l ∈ ls, goodChars l = true)

theorem PlainAt.fits {p : Bytes} {off : Nat} {ls : List (List UInt8)} (h : PlainAt p off ls) :
    off + labSum ls + 1 ≤ p.length := by
  have := congrArg List.length h.1
  rw [encLen_eq] at this
  simp at this
  omega

theorem PlainAt.split {p : Bytes} {off : Nat} {ls : List (List UInt8)} (h : PlainAt p off ls) :
    p = p.take off ++ (encLabels ls ++ [0]) ++ p.drop (off + labSum ls + 1) := by
  have hf := h.fits
  rw [← h.1, List.append_assoc]
  have e : p.drop (off + labSum ls + 1) = (p.drop off).drop (labSum ls + 1) := by rw [List.drop_drop, Nat.add_assoc]
  rw [e, List.take_append_drop, List.take_append_drop]

theorem PlainAt.valid {p : Bytes} {off : Nat} {ls : List (List UInt8)} (h : PlainAt p off ls) :
    ValidName p off ls (off + labSum ls + 1) := by
  have hf := h.fits
  have := validName_at (u := p) (A := p.take off) (B := p.drop (off + labSum ls + 1)) h.split h.2.1 h.2.2.1 h.2.2.2
  have hl : (p.take off).length = off := by simp; omega
  rw [hl] at this; exact this

theorem plainAt_of_eq {u A B : Bytes} {ls : List (List UInt8)} (h : u = A ++ (encLabels ls ++ [0]) ++ B)
    (hok : ∀ l ∈ ls, okLabel l) (hw : wireLen ls ≤ 255) (hg : ∀ l ∈ ls, goodChars l = true) : PlainAt u A.length ls := by
  refine ⟨?_, hok, hw, hg⟩
  have := window_eq h
  rw [encLen_eq] at this; exact this

theorem window_byteAt {p w : Bytes} {off n : Nat} (h : (p.drop off).take n = w) {i : Nat} (hi : i < n) :
    byteAt p (off + i) = byteAt w i := by
  subst h
  unfold byteAt
  simp [List.getElem?_take, List.getElem?_drop, hi]

theorem PlainAt.idx {p : Bytes} {off : Nat} {pre suf : List (List UInt8)} (h : PlainAt p off (pre ++ suf)) :
    idx p (off + labSum pre) = idx (encLabels (pre ++ suf) ++ [0]) (labSum pre) := by
  unfold Dns.idx
  rw [window_byteAt h.1 (by rw [labSum_append]; omega)]

theorem PlainAt.slice {p : Bytes} {off : Nat} {ls : List (List UInt8)} (h : PlainAt p off ls) :
    slice p off (off + (labSum ls + 1)) = .ok (encLabels ls ++ [0]) := by
  have hf := h.fits
  rw [slice_ok ⟨by omega, by omega⟩]
  have : off + (labSum ls + 1) - off = labSum ls + 1 := by omega
  rw [this, h.1]

theorem rawLenAfter_window (p : Bytes) (off : Nat) (suf : List (List UInt8)) :
    ∀ (pre : List (List UInt8)) (fuel acc : Nat), PlainAt p off (pre ++ suf) → fuel > suf.length →
      rawNameLenAfterLoop p fuel (off + labSum pre) acc = .ok (acc + labSum suf + 1) := by
  induction suf with
  | nil =>
    intro pre fuel acc h hf
    cases fuel with
    | zero => omega
    | succ n =>
      unfold rawNameLenAfterLoop
      have hnp : isPtr 0 = false := by decide
      simp only [h.idx, nm_idx_nil, bind_ok, hnp, Bool.false_eq_true, if_false, beq_self_eq_true, if_true, pure_eq]
      simp [labSum]
  | cons x suf ih =>
    intro pre fuel acc h hf
    cases fuel with
    | zero => omega
    | succ n =>
      have hx : okLabel x := h.2.1 x (by simp)
      unfold rawNameLenAfterLoop
      have hnp : isPtr x.length = false := isPtr_false_of_le hx.2
      have hnz : (x.length == 0) = false := by rw [beq_eq_false_iff_ne]; unfold okLabel at hx; omega
      simp only [h.idx, nm_idx_cons pre x suf hx, bind_ok, hnp, Bool.false_eq_true, if_false, hnz]
      have e1 : pre ++ x :: suf = (pre ++ [x]) ++ suf := by simp
      have e2 : off + labSum pre + 1 + x.length = off + labSum (pre ++ [x]) := by
        rw [labSum_append, labSum_cons]; simp [labSum]; omega
      rw [e2, ih (pre ++ [x]) n _ (by rw [← e1]; exact h) (by simp at hf; omega), labSum_cons]
      congr 1; omega

theorem PlainAt.rawLenAfter {p : Bytes} {off : Nat} {ls : List (List UInt8)} (h : PlainAt p off ls) :
    rawNameLenAfterDecompression p off = .ok (labSum ls + 1) := by
  unfold rawNameLenAfterDecompression
  have hlen := length_lt_wireLen ls
  have hw := h.2.2.1
  have := rawLenAfter_window p off ls [] nameFuel 0 (by simpa using h) (by
    have : nameFuel = 273 := rfl
    omega)
  simp only [labSum, List.map_nil, List.sum_nil, Nat.add_zero, Nat.zero_add] at this
  rw [this]
  simp [labSum]

/-- **a pointer-free name read out of the packet and compressed**: as `compress_name` -/
theorem copyName_packet {p : Bytes} {off : Nat} {ls : List (List UInt8)} (h : PlainAt p off ls)
    (out0 : Bytes) (dict : SuffixDict) (hinv : DictInv dict out0) :
    ∃ (dict' : SuffixDict) (emitted : Bytes) (ls' : List (List UInt8)),
      copyCompressedName dict out0 p off = .ok (dict', out0 ++ emitted, emitted.length, off + (labSum ls + 1)) ∧
      (∀ out2 : Bytes, out2.length = out0.length →
        copyCompressedName dict out2 p off = .ok (dict', out2 ++ emitted, emitted.length, off + (labSum ls + 1))) ∧
      emitted.length ≤ labSum ls + 1 ∧ 0 < emitted.length ∧ lsCi ls' ls ∧
      (∀ t : Bytes, ValidName (out0 ++ emitted ++ t) out0.length ls' (out0.length + emitted.length)) ∧
      DictInv dict' (out0 ++ emitted) := by
  obtain ⟨dict', em, ls', hrun, hle, hpos, hci, hval, hd⟩ := compress_name out0 ls h.2.1 h.2.2.1 h.2.2.2 dict hinv
  rw [encLen_eq] at hle
  have hgen : ∀ out2 : Bytes, out2.length = out0.length →
      copyCompressedName dict out2 p off = .ok (dict', out2 ++ em, em.length, off + (labSum ls + 1)) := by
    intro out2 hl
    unfold copyCompressedName
    rw [h.rawLenAfter]
    simp only [bind_ok, h.slice]
    rw [copyName_param hrun out2 hl]
    rfl
  exact ⟨dict', em, ls', hgen out0 rfl, hgen, hle, hpos, hci, hval, hd⟩

end Dns
