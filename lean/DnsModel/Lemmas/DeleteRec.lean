/-
  Lemmas.DeleteRec — `delete` through a cursor on a record of a plain object: the record's bytes go,
  the section's count drops by one, the later sections move up; nothing else changes.
-/
import DnsModel.Lemmas.InsertRec
namespace Dns
open Res

/-- a piece either is the OPT record (additional section, first of its kind) or fits under any flag -/
theorem pieceOK_flags {sec : Section} {rc : Bytes} {ob oa : Bool} (h : PieceOK sec rc ob oa) :
    (ob = false ∧ oa = true ∧ sec = .additional) ∨ (oa = ob ∧ ∀ b, PieceOK sec rc b b) := by
  obtain ⟨p0, r0, hr, hc⟩ := h
  obtain ⟨h1, h2, h3, h4, h5⟩ := hr
  by_cases h41 : get16 p0 r0.ne = 41
  · simp only [h41, if_true] at h5
    exact Or.inl ⟨h5.2.2.1, h5.2.2.2.1, h5.1⟩
  · simp only [h41, if_false] at h5
    refine Or.inr ⟨h5.2, fun b => ⟨p0, r0, ⟨h1, h2, h3, h4, ?_⟩, hc⟩⟩
    simp only [h41, if_false]
    exact ⟨h5.1, trivial⟩

theorem Pieces.split {sec : Section} {ps qs : List Bytes} {ob oe : Bool} (h : Pieces sec (ps ++ qs) ob oe) :
    ∃ om, Pieces sec ps ob om ∧ Pieces sec qs om oe := by
  induction ps generalizing ob with
  | nil => exact ⟨ob, Pieces.nil _, h⟩
  | cons x ps ih =>
    cases h with
    | cons hp hrest =>
      obtain ⟨om, h1, h2⟩ := ih hrest
      exact ⟨om, Pieces.cons hp h1, h2⟩

/-- once OPT has been seen (or where it cannot occur) the flag no longer matters -/
theorem pieces_any_flag {sec : Section} {ps : List Bytes} {ob oe : Bool} (h : Pieces sec ps ob oe)
    (hs : sec ≠ .additional ∨ ob = true) : oe = ob ∧ ∀ b, Pieces sec ps b b := by
  induction h with
  | nil o => exact ⟨rfl, fun b => Pieces.nil b⟩
  | cons hp _ ih =>
    rcases pieceOK_flags hp with ⟨hf, _, hsec⟩ | ⟨e, hall⟩
    · rcases hs with hs | hs
      · exact absurd hsec hs
      · rw [hs] at hf; cases hf
    · subst e
      obtain ⟨e2, h2⟩ := ih hs
      exact ⟨e2, fun b => Pieces.cons (hall b) (h2 b)⟩

/-- removing one piece keeps a run of pieces -/
theorem pieces_remove {sec : Section} {ps1 ps2 : List Bytes} {rc : Bytes} {ob oe : Bool}
    (h : Pieces sec (ps1 ++ rc :: ps2) ob oe) : ∃ oe', Pieces sec (ps1 ++ ps2) ob oe' ∧ (sec ≠ .additional → oe' = oe) := by
  obtain ⟨om, h1, h2⟩ := Pieces.split h
  cases h2 with
  | cons hp hrest =>
    rename_i om'
    rcases pieceOK_flags hp with ⟨hf, ht, hsec⟩ | ⟨e, _⟩
    · subst hf; subst ht
      obtain ⟨e2, hall⟩ := pieces_any_flag hrest (Or.inr rfl)
      exact ⟨false, h1.append (hall false), fun hne => absurd hsec hne⟩
    · subst e
      exact ⟨oe, h1.append hrest, fun _ => rfl⟩

end Dns

namespace Dns
open Res

theorem PlainObj.o2_false {pp : PP} (P : PlainObj pp) : P.o2 = false := (pieces_any_flag P.hA (Or.inl (by decide))).1
theorem PlainObj.o3_false {pp : PP} (P : PlainObj pp) : P.o3 = false := by
  have := (pieces_any_flag P.hN (Or.inl (by decide))).1
  rw [this, P.o2_false]

theorem flatten_mid (A1 A2 : List Bytes) (rc : Bytes) : (A1 ++ rc :: A2).flatten = A1.flatten ++ rc ++ A2.flatten := by simp

/-- cutting `rc` out of `pre ++ rc ++ post` -/
theorem cut_mid (pre rc post : Bytes) :
    (pre ++ rc ++ post).take pre.length ++ (pre ++ rc ++ post).drop (pre.length + rc.length) = pre ++ post := by
  have e : pre ++ rc ++ post = pre ++ (rc ++ post) := by simp
  have e2 : pre ++ rc ++ post = (pre ++ rc) ++ post := rfl
  have hl : pre.length + rc.length = (pre ++ rc).length := by simp
  conv => lhs; arg 1; rw [e, List.take_append_length]
  rw [hl, List.drop_append_length]

/-- `current_section` reads only the section starts and the cursor's position -/
theorem currentSection_frame (pp : PP) (c : Cursor) (x : Bytes) (n : Nat) :
    Cursor.currentSection { pp with packet := x } { c with offsetNext := n } = Cursor.currentSection pp c := rfl

theorem shiftNat_neg {x len : Nat} (h : len ≤ x) : shiftNat x (-(Int.ofNat len)) = x - len := by
  unfold shiftNat
  simp only [Int.ofNat_eq_natCast]
  omega

theorem sub_ok {a b : Nat} (h : b ≤ a) : sub a b = .ok (a - b) := by simp [sub, h]

/-- the object `resize_rr` leaves: new bytes, later starts shifted -/
def PP.afterResize (pp : PP) (c : Cursor) (sect : Section) (shift : Int) (newPacket : Bytes) : PP :=
  let sh (o : Option Nat) : Option Nat := o.map (fun x => shiftNat x shift)
  let pp := { pp with packet := newPacket }
  let pp := if optLt c.offset pp.offsetEdns then { pp with offsetEdns := sh pp.offsetEdns } else pp
  let pp := if sect == .nameServers || sect == .answer || sect == .question
            then { pp with offsetAdditional := sh pp.offsetAdditional } else pp
  let pp := if sect == .answer || sect == .question
            then { pp with offsetNameservers := sh pp.offsetNameservers } else pp
  if sect == .question then { pp with offsetAnswers := sh pp.offsetAnswers } else pp

/-- `resize_rr` with a negative shift: the `len` bytes at the cursor go -/
theorem resizeRR_shrink (pp : PP) (c : Cursor) (off len : Nat) (sect : Section) (hoff : c.offset = some off) (hlen : 0 < len)
    (hle : off + len ≤ pp.packet.length) (hnx : len ≤ c.offsetNext) (hnx2 : c.offsetNext ≤ pp.packet.length)
    (hcs : c.currentSection pp = .ok sect) :
    resizeRR pp c (-(Int.ofNat len)) =
      .ok { pp := pp.afterResize c sect (-(Int.ofNat len)) (pp.packet.take off ++ pp.packet.drop (off + len)),
            cur := { c with offsetNext := c.offsetNext - len }, result := none } := by
  unfold resizeRR
  have hz : (-(Int.ofNat len) == 0) = false := by
    simp only [beq_eq_false_iff_ne, ne_eq, Int.neg_eq_zero]
    intro h
    have : (len : Int) = 0 := h
    omega
  have hpos : ¬ (-(Int.ofNat len) > 0) := by
    have : (0 : Int) ≤ Int.ofNat len := Int.natCast_nonneg _
    omega
  have hneg : (- -(Int.ofNat len)).toNat = len := by simp
  simp only [hz, Bool.false_eq_true, if_false, hoff, hpos, hneg]
  have c1 : ¬ (pp.packet.length < len) := by omega
  have c2 : ¬ (off + len > pp.packet.length) := by omega
  simp only [c1, c2, if_false, pure_eq, bind_ok]
  have hn : (Int.ofNat c.offsetNext + -(Int.ofNat len)) = Int.ofNat (c.offsetNext - len) := by
    simp only [Int.ofNat_eq_natCast]
    omega
  rw [hn]
  have hnl : (pp.packet.take off ++ pp.packet.drop (off + len)).length = pp.packet.length - len := by
    simp only [List.length_append, List.length_take, List.length_drop]; omega
  have c3 : (decide (Int.ofNat (c.offsetNext - len) < 0) || decide ((Int.ofNat (c.offsetNext - len)).toNat >
      (pp.packet.take off ++ pp.packet.drop (off + len)).length)) = false := by
    rw [hnl]
    simp only [Int.ofNat_eq_natCast, Int.toNat_natCast, Bool.or_eq_false_iff, decide_eq_false_iff_not]
    constructor <;> omega
  simp only [c3, Bool.false_eq_true, if_false]
  have key : ∀ (x : Bytes) (cc : Cursor), cc.offset = some off → Cursor.currentSection { pp with packet := x } cc = .ok sect := by
    intro x cc h
    unfold Cursor.currentSection at hcs ⊢
    rw [hoff] at hcs
    simp only [h]
    exact hcs
  rw [key _ _ rfl]
  simp only [mOk, PP.afterResize, Int.ofNat_eq_natCast, Int.toNat_natCast, hoff]

theorem sectionCount_hdr {hdr rest : Bytes} (hh : hdr.length = 12) (s : Section) (hs : s ≠ .edns) :
    sectionCount (hdr ++ rest) s = .ok (get16 hdr (sectionCountOffset s)) := by
  cases s <;> first | exact absurd rfl hs | skip
  all_goals
    simp only [sectionCount, qdcount, ancount, nscount, arcount, sectionCountOffset]
    rw [be16_of_le' (by simp [hh] <;> omega), get16_append_left (by rw [hh]; omega)]

/-- `rrcount_dec` on a packet whose header says `n > 0` -/
theorem rrcountDec_ok (pp : PP) (s : Section) (hs : s ≠ .edns) {hdr rest : Bytes} (hpk : pp.packet = hdr ++ rest)
    (hh : hdr.length = 12) (hpos : 0 < get16 hdr (sectionCountOffset s)) :
    ∃ hdr', rrcountDec pp s = .ok ({ pp with packet := hdr' ++ rest }, get16 hdr (sectionCountOffset s) - 1) ∧
      hdr'.length = 12 ∧ get16 hdr' (sectionCountOffset s) = get16 hdr (sectionCountOffset s) - 1 ∧
      ∀ k, (k + 1 < sectionCountOffset s ∨ sectionCountOffset s + 1 < k) → get16 hdr' k = get16 hdr k := by
  have hlt : get16 hdr (sectionCountOffset s) < 65536 := get16_lt _ _
  have hso : sectionCountOffset s + 2 ≤ 12 := by cases s <;> simp [sectionCountOffset]
  obtain ⟨hdr', hw, hh', hg, hgo⟩ := patch_header (rest := rest) hh (sectionCountOffset s) (get16 hdr (sectionCountOffset s) - 1) hso (by omega)
  refine ⟨hdr', ?_, hh', hg, hgo⟩
  unfold rrcountDec
  rw [hpk, sectionCount_hdr hh s hs]
  have : ¬ (get16 hdr (sectionCountOffset s) ≤ 0) := by omega
  simp only [bind_ok, this, if_false, hw, pure_eq]

def PP.clearEdns (pp : PP) : PP :=
  { pp with offsetEdns := none, ednsCount := 0, extRcode := none, ednsVersion := none, extFlags := none, maxPayload := 512 }

def PP.clearSection (pp : PP) : Section → PP
  | .question => { pp with offsetQuestion := none }
  | .answer => { pp with offsetAnswers := none }
  | .nameServers => { pp with offsetNameservers := none }
  | .additional => { pp with offsetAdditional := none }
  | .edns => pp

/-- the object `delete` leaves -/
def PP.afterDelete (pp : PP) (c : Cursor) (sect : Section) (len : Nat) (isOpt : Bool) (newPacket : Bytes) (left : Nat) : PP :=
  let pp := pp.afterResize c sect (-(Int.ofNat len)) newPacket
  let pp := { pp with cached := none }
  let pp := if isOpt then pp.clearEdns else pp
  if left ≤ 0 then pp.clearSection sect else pp

theorem afterResize_packet (pp : PP) (c : Cursor) (sect : Section) (shift : Int) (x : Bytes) :
    (pp.afterResize c sect shift x).packet = x := by
  simp only [PP.afterResize]
  repeat' split
  all_goals rfl

theorem afterResize_setPacket (pp : PP) (c : Cursor) (sect : Section) (shift : Int) (x y : Bytes) :
    { pp.afterResize c sect shift x with packet := y } = pp.afterResize c sect shift y := by
  cases h : optLt c.offset pp.offsetEdns <;> cases sect <;> simp [PP.afterResize, h]

/-- the fields of the object `delete` leaves -/
theorem afterDelete_fields (pp : PP) (c : Cursor) (sect : Section) (len : Nat) (isOpt : Bool) (x : Bytes) (left : Nat) :
    (pp.afterDelete c sect len isOpt x left).packet = x ∧
    (pp.afterDelete c sect len isOpt x left).maybeCompressed = pp.maybeCompressed ∧
    (pp.afterDelete c sect len isOpt x left).cached = none ∧
    (pp.afterDelete c sect len isOpt x left).offsetQuestion =
      (if sect = .question ∧ left = 0 then none else pp.offsetQuestion) ∧
    (pp.afterDelete c sect len isOpt x left).offsetAnswers =
      (if sect = .answer ∧ left = 0 then none
       else if sect = .question then pp.offsetAnswers.map (fun x => shiftNat x (-(Int.ofNat len))) else pp.offsetAnswers) ∧
    (pp.afterDelete c sect len isOpt x left).offsetNameservers =
      (if sect = .nameServers ∧ left = 0 then none
       else if sect = .question ∨ sect = .answer then pp.offsetNameservers.map (fun x => shiftNat x (-(Int.ofNat len))) else pp.offsetNameservers) ∧
    (pp.afterDelete c sect len isOpt x left).offsetAdditional =
      (if sect = .additional ∧ left = 0 then none
       else if sect = .question ∨ sect = .answer ∨ sect = .nameServers then pp.offsetAdditional.map (fun x => shiftNat x (-(Int.ofNat len))) else pp.offsetAdditional) ∧
    (pp.afterDelete c sect len isOpt x left).offsetEdns =
      (if isOpt then none else if optLt c.offset pp.offsetEdns then pp.offsetEdns.map (fun x => shiftNat x (-(Int.ofNat len))) else pp.offsetEdns) ∧
    (pp.afterDelete c sect len isOpt x left).ednsCount = (if isOpt then 0 else pp.ednsCount) ∧
    (pp.afterDelete c sect len isOpt x left).extRcode = (if isOpt then none else pp.extRcode) ∧
    (pp.afterDelete c sect len isOpt x left).ednsVersion = (if isOpt then none else pp.ednsVersion) ∧
    (pp.afterDelete c sect len isOpt x left).extFlags = (if isOpt then none else pp.extFlags) ∧
    (pp.afterDelete c sect len isOpt x left).maxPayload = (if isOpt then 512 else pp.maxPayload) := by
  cases h : optLt c.offset pp.offsetEdns <;> cases sect <;> cases isOpt <;> cases left <;>
    simp [PP.afterDelete, PP.afterResize, PP.clearEdns, PP.clearSection, h]

/-- `delete` on a pointer-free object, step by step -/
theorem deleteRR_run (pp : PP) (c : Cursor) (off : Nat) (sect : Section) (isOpt : Bool) {hdr rest : Bytes}
    (hoff : c.offset = some off) (hcs : c.currentSection pp = .ok sect) (hs : sect ≠ .edns) (hmc : pp.maybeCompressed = false)
    (hopt : (if sect == .additional then do let t ← c.rrType pp.packet; pure (t == TYPE_OPT) else pure false) = Res.ok isOpt)
    (hlt : off < c.offsetNext) (hle : c.offsetNext ≤ pp.packet.length)
    (hcut : pp.packet.take off ++ pp.packet.drop c.offsetNext = hdr ++ rest) (hh : hdr.length = 12)
    (hpos : 0 < get16 hdr (sectionCountOffset sect)) :
    ∃ hdr', deleteRR pp c = .ok { pp := pp.afterDelete c sect (c.offsetNext - off) isOpt (hdr' ++ rest) (get16 hdr (sectionCountOffset sect) - 1),
                                  cur := { c with offsetNext := off, offset := none }, result := none } ∧
      hdr'.length = 12 ∧ get16 hdr' (sectionCountOffset sect) = get16 hdr (sectionCountOffset sect) - 1 ∧
      ∀ k, (k + 1 < sectionCountOffset sect ∨ sectionCountOffset sect + 1 < k) → get16 hdr' k = get16 hdr k := by
  have hrs := resizeRR_shrink pp c off (c.offsetNext - off) sect hoff (by omega) (by omega) (by omega) hle hcs
  have e1 : off + (c.offsetNext - off) = c.offsetNext := by omega
  have e2 : c.offsetNext - (c.offsetNext - off) = off := by omega
  rw [e1, e2, hcut] at hrs
  let ppr : PP := pp.afterResize c sect (-(Int.ofNat (c.offsetNext - off))) (hdr ++ rest)
  let pp2 : PP := { ppr with cached := none }
  let pp3 : PP := if isOpt then pp2.clearEdns else pp2
  have hp3 : pp3.packet = hdr ++ rest := by
    have : ppr.packet = hdr ++ rest := afterResize_packet _ _ _ _ _
    simp only [pp3, pp2, PP.clearEdns]
    split <;> exact this
  obtain ⟨hdr', hdec, hh', hg, hgo⟩ := rrcountDec_ok pp3 sect hs hp3 hh hpos
  refine ⟨hdr', ?_, hh', hg, hgo⟩
  unfold deleteRR
  simp only [hoff, Option.isNone_some, Bool.false_eq_true, if_false, hcs, hmc, mOk, bind_ok, Option.isSome_none, pure_eq, unwrap]
  simp only [pure_eq] at hopt
  rw [hopt]
  simp only [bind_ok, sub_ok (Nat.le_of_lt hlt), assert]
  have hgt : decide (c.offsetNext - off > 0) = true := by simp; omega
  simp only [hgt, if_true, bind_ok, hrs, Option.isSome_none, Bool.false_eq_true, if_false, hoff]
  have hdec' : rrcountDec (if isOpt = true then PP.clearEdns { ppr with cached := none } else { ppr with cached := none }) sect = _ := hdec
  simp only [PP.clearEdns, ppr] at hdec'
  rw [hdec']
  simp only [bind_ok, PP.afterDelete]
  rw [← afterResize_setPacket pp c sect _ (hdr ++ rest) (hdr' ++ rest)]
  cases isOpt <;> cases sect <;> simp only [PP.clearEdns, PP.clearSection, pp3, pp2, ppr, Bool.false_eq_true, if_false, if_true] <;>
    split <;> rfl

/-- **deleting a record of the answer section of a plain object** -/
theorem delete_answer {pp : PP} (P : PlainObj pp) (A1 A2 : List Bytes) (rc : Bytes) (hsplit : P.A = A1 ++ rc :: A2)
    (hrc : 0 < rc.length) (c : Cursor)
    (hoff : c.offset = some (12 + labSum P.qls + 1 + 4 + A1.flatten.length))
    (hnext : c.offsetNext = 12 + labSum P.qls + 1 + 4 + A1.flatten.length + rc.length) :
    ∃ (pp' : PP) (P' : PlainObj pp'),
      deleteRR pp c = .ok { pp := pp', cur := { c with offsetNext := 12 + labSum P.qls + 1 + 4 + A1.flatten.length, offset := none }, result := none } ∧
      P'.A = A1 ++ A2 ∧ P'.N = P.N ∧ P'.R = P.R ∧ P'.qls = P.qls ∧ P'.q4 = P.q4 ∧
      (∀ k, (k + 1 < 6 ∨ 7 < k) → get16 P'.hdr k = get16 P.hdr k) ∧
      pp'.ednsCount = pp.ednsCount ∧ pp'.extRcode = pp.extRcode ∧ pp'.ednsVersion = pp.ednsVersion ∧
      pp'.extFlags = pp.extFlags ∧ pp'.maxPayload = pp.maxPayload ∧
      pp'.offsetEdns = (if optLt c.offset pp.offsetEdns then pp.offsetEdns.map (fun x => shiftNat x (-(Int.ofNat rc.length))) else pp.offsetEdns) ∧
      pp'.cached = none := by
  have hlen := P.len
  have hAl : P.A.length = A1.length + A2.length + 1 := by rw [hsplit]; simp; omega
  have hAf : P.A.flatten.length = A1.flatten.length + rc.length + A2.flatten.length := by rw [hsplit]; simp; omega
  have hA' : (A1 ++ A2).flatten.length = A1.flatten.length + A2.flatten.length := by simp
  generalize hQ : (encLabels P.qls ++ [0]) ++ P.q4 = Q at *
  have hQl : Q.length = labSum P.qls + 1 + 4 := by
    rw [← hQ]; simp only [List.length_append, P.hq4, encLabels_length, List.length_cons, List.length_nil]
  have hpk : pp.packet = (P.hdr ++ Q ++ A1.flatten) ++ rc ++ (A2.flatten ++ P.N.flatten ++ P.R.flatten) := by
    rw [P.bytes, hsplit, hQ]; simp
  have hprel : (P.hdr ++ Q ++ A1.flatten).length = 12 + labSum P.qls + 1 + 4 + A1.flatten.length := by
    simp only [List.length_append, P.hh, hQl]; omega
  have hcut := cut_mid (P.hdr ++ Q ++ A1.flatten) rc (A2.flatten ++ P.N.flatten ++ P.R.flatten)
  rw [← hpk, hprel] at hcut
  have hcut' : pp.packet.take (12 + labSum P.qls + 1 + 4 + A1.flatten.length) ++
      pp.packet.drop (12 + labSum P.qls + 1 + 4 + A1.flatten.length + rc.length) =
      P.hdr ++ (Q ++ (A1 ++ A2).flatten ++ P.N.flatten ++ P.R.flatten) := by rw [hcut]; simp
  have hcs : c.currentSection pp = .ok .answer := by
    unfold Cursor.currentSection
    simp only [hoff, P.oq, P.oa, P.on, P.oR, optLt, optGe, hAf]
    have ha : P.A.length > 0 := by omega
    simp only [ha, if_true]
    generalize A1.flatten.length = a1
    generalize A2.flatten.length = a2
    generalize P.N.flatten.length = nf
    generalize rc.length = rl at hrc
    have h1 : ¬ (12 + labSum P.qls + 1 + 4 + a1 < 12) := by omega
    have h2 : ¬ (12 + labSum P.qls + 1 + 4 + (a1 + rl + a2) + nf ≤ 12 + labSum P.qls + 1 + 4 + a1) := by omega
    have h3 : ¬ (a1 + rl + a2 ≤ a1) := by omega
    by_cases hn : P.N.length > 0 <;> by_cases hr : P.R.length > 0 <;> simp [hn, hr, h1, h2, h3]
  have hopt : (if Section.answer == Section.additional then do let t ← c.rrType pp.packet; pure (t == TYPE_OPT) else pure false) = Res.ok false := rfl
  rw [← hnext] at hcut'
  obtain ⟨hdr', hrun, hh', hg6, hgo⟩ := deleteRR_run pp c _ .answer false hoff hcs (by decide) P.mc hopt (by omega) (by omega) hcut' P.hh
    (by simp only [sectionCountOffset]; rw [P.hca]; omega)
  simp only [sectionCountOffset] at hg6 hgo hrun
  have e1 : c.offsetNext - (12 + labSum P.qls + 1 + 4 + A1.flatten.length) = rc.length := by omega
  rw [e1, P.hca] at hrun
  rw [P.hca] at hg6
  refine ⟨_, ⟨hdr', P.q4, P.qls, A1 ++ A2, P.N, P.R, P.o2, P.o3, P.o4, hh', ?_, P.hgq, P.hq4, P.hcl,
    ?_, P.hN, P.hR, by rw [hg6]; simp; omega, ?_, ?_, ?_, ?_, ?_, ?_, ?_, ?_, ?_⟩,
    hrun, rfl, rfl, rfl, rfl, rfl, hgo, ?_, ?_, ?_, ?_, ?_, ?_, ?_⟩
  · rw [hgo 4 (by omega)]; exact P.hqd
  · have := P.hA
    rw [hsplit] at this
    obtain ⟨oe', h1, h2⟩ := pieces_remove this
    rw [h2 (by decide)] at h1
    exact h1
  · rw [hgo 8 (by omega)]; exact P.hcn
  · rw [hgo 10 (by omega)]; exact P.hcr
  · intro hq; rw [hgo 2 (by omega)] at hq
    have := P.hqr hq
    rw [hsplit] at this
    simp at this
  all_goals obtain ⟨f1, f2, f3, f4, f5, f6, f7, f8, f9, f10, f11, f12, f13⟩ :=
    afterDelete_fields pp c .answer rc.length false (hdr' ++ (Q ++ (A1 ++ A2).flatten ++ P.N.flatten ++ P.R.flatten)) (P.A.length - 1)
  · rw [f1, hQ]; simp
  · rw [f4]; simp [P.oq]
  · rw [f5, P.oa]
    have e : (A1 ++ A2).length = P.A.length - 1 := by simp; omega
    rw [e]
    by_cases h0 : P.A.length - 1 = 0
    · rw [if_pos ⟨rfl, h0⟩, if_neg (by omega)]
    · rw [if_neg (by simp [h0]), if_neg (by decide), if_pos (by omega), if_pos (by omega)]
  · rw [f6, P.on, if_neg (by simp), if_pos (Or.inr rfl)]
    by_cases hn : P.N.length > 0
    · rw [if_pos hn, if_pos hn, Option.map_some, shiftNat_neg (by omega)]; congr 1; omega
    · rw [if_neg hn, if_neg hn]; rfl
  · rw [f7, P.oR, if_neg (by simp), if_pos (Or.inr (Or.inl rfl))]
    by_cases hr : P.R.length > 0
    · rw [if_pos hr, if_pos hr, Option.map_some, shiftNat_neg (by omega)]; congr 1; omega
    · rw [if_neg hr, if_neg hr]; rfl
  · rw [f2]; exact P.mc
  · rw [f9]; rfl
  · rw [f10]; rfl
  · rw [f11]; rfl
  · rw [f12]; rfl
  · rw [f13]; rfl
  · rw [f8]; rfl
  · rw [f3]

end Dns

namespace Dns
open Res

/-- **deleting a record of the authority section of a plain object** -/
theorem delete_authority {pp : PP} (P : PlainObj pp) (N1 N2 : List Bytes) (rc : Bytes) (hsplit : P.N = N1 ++ rc :: N2)
    (hrc : 0 < rc.length) (c : Cursor)
    (hoff : c.offset = some (12 + labSum P.qls + 1 + 4 + P.A.flatten.length + N1.flatten.length))
    (hnext : c.offsetNext = 12 + labSum P.qls + 1 + 4 + P.A.flatten.length + N1.flatten.length + rc.length) :
    ∃ (pp' : PP) (P' : PlainObj pp'),
      deleteRR pp c = .ok { pp := pp', cur := { c with offsetNext := 12 + labSum P.qls + 1 + 4 + P.A.flatten.length + N1.flatten.length, offset := none }, result := none } ∧
      P'.A = P.A ∧ P'.N = N1 ++ N2 ∧ P'.R = P.R ∧ P'.qls = P.qls ∧ P'.q4 = P.q4 ∧
      (∀ k, (k + 1 < 8 ∨ 9 < k) → get16 P'.hdr k = get16 P.hdr k) ∧
      pp'.ednsCount = pp.ednsCount ∧ pp'.extRcode = pp.extRcode ∧ pp'.ednsVersion = pp.ednsVersion ∧
      pp'.extFlags = pp.extFlags ∧ pp'.maxPayload = pp.maxPayload ∧
      pp'.offsetEdns = (if optLt c.offset pp.offsetEdns then pp.offsetEdns.map (fun x => shiftNat x (-(Int.ofNat rc.length))) else pp.offsetEdns) ∧
      pp'.cached = none := by
  have hlen := P.len
  have hNl : P.N.length = N1.length + N2.length + 1 := by rw [hsplit]; simp; omega
  have hNf : P.N.flatten.length = N1.flatten.length + rc.length + N2.flatten.length := by rw [hsplit]; simp; omega
  have hN' : (N1 ++ N2).flatten.length = N1.flatten.length + N2.flatten.length := by simp
  generalize hQ : (encLabels P.qls ++ [0]) ++ P.q4 = Q at *
  have hQl : Q.length = labSum P.qls + 1 + 4 := by
    rw [← hQ]; simp only [List.length_append, P.hq4, encLabels_length, List.length_cons, List.length_nil]
  have hpk : pp.packet = (P.hdr ++ Q ++ P.A.flatten ++ N1.flatten) ++ rc ++ (N2.flatten ++ P.R.flatten) := by
    rw [P.bytes, hsplit, hQ]; simp
  have hprel : (P.hdr ++ Q ++ P.A.flatten ++ N1.flatten).length = 12 + labSum P.qls + 1 + 4 + P.A.flatten.length + N1.flatten.length := by
    simp only [List.length_append, P.hh, hQl]; omega
  have hcut := cut_mid (P.hdr ++ Q ++ P.A.flatten ++ N1.flatten) rc (N2.flatten ++ P.R.flatten)
  rw [← hpk, hprel] at hcut
  have hcut' : pp.packet.take (12 + labSum P.qls + 1 + 4 + P.A.flatten.length + N1.flatten.length) ++
      pp.packet.drop (12 + labSum P.qls + 1 + 4 + P.A.flatten.length + N1.flatten.length + rc.length) =
      P.hdr ++ (Q ++ P.A.flatten ++ (N1 ++ N2).flatten ++ P.R.flatten) := by rw [hcut]; simp
  have hcs : c.currentSection pp = .ok .nameServers := by
    unfold Cursor.currentSection
    simp only [hoff, P.oq, P.oa, P.on, P.oR, optLt, optGe, hNf]
    have hn : P.N.length > 0 := by omega
    simp only [hn, if_true]
    generalize N1.flatten.length = n1
    generalize N2.flatten.length = n2
    generalize P.A.flatten.length = af
    generalize rc.length = rl at hrc
    have h1 : ¬ (12 + labSum P.qls + 1 + 4 + af + n1 < 12) := by omega
    have h2 : ¬ (12 + labSum P.qls + 1 + 4 + af + (n1 + rl + n2) ≤ 12 + labSum P.qls + 1 + 4 + af + n1) := by omega
    have h3 : ¬ (12 + labSum P.qls + 1 + 4 + af + n1 < 12 + labSum P.qls + 1 + 4 + af) := by omega
    have h4 : ¬ (n1 + rl + n2 ≤ n1) := by omega
    by_cases ha : P.A.length > 0 <;> by_cases hr : P.R.length > 0 <;> simp [ha, hr, h1, h2, h3, h4]
  have hopt : (if Section.nameServers == Section.additional then do let t ← c.rrType pp.packet; pure (t == TYPE_OPT) else pure false) = Res.ok false := rfl
  rw [← hnext] at hcut'
  obtain ⟨hdr', hrun, hh', hg6, hgo⟩ := deleteRR_run pp c _ .nameServers false hoff hcs (by decide) P.mc hopt (by omega) (by omega) hcut' P.hh
    (by simp only [sectionCountOffset]; rw [P.hcn]; omega)
  simp only [sectionCountOffset] at hg6 hgo hrun
  have e1 : c.offsetNext - (12 + labSum P.qls + 1 + 4 + P.A.flatten.length + N1.flatten.length) = rc.length := by omega
  rw [e1, P.hcn] at hrun
  rw [P.hcn] at hg6
  refine ⟨_, ⟨hdr', P.q4, P.qls, P.A, N1 ++ N2, P.R, P.o2, P.o3, P.o4, hh', ?_, P.hgq, P.hq4, P.hcl,
    P.hA, ?_, P.hR, ?_, by rw [hg6]; simp; omega, ?_, ?_, ?_, ?_, ?_, ?_, ?_, ?_⟩,
    hrun, rfl, rfl, rfl, rfl, rfl, hgo, ?_, ?_, ?_, ?_, ?_, ?_, ?_⟩
  · rw [hgo 4 (by omega)]; exact P.hqd
  · have := P.hN
    rw [hsplit] at this
    obtain ⟨oe', h1, h2⟩ := pieces_remove this
    rw [h2 (by decide)] at h1
    exact h1
  · rw [hgo 6 (by omega)]; exact P.hca
  · rw [hgo 10 (by omega)]; exact P.hcr
  · intro hq; rw [hgo 2 (by omega)] at hq
    have := P.hqr hq
    rw [hsplit] at this
    simp at this
  all_goals obtain ⟨f1, f2, f3, f4, f5, f6, f7, f8, f9, f10, f11, f12, f13⟩ :=
    afterDelete_fields pp c .nameServers rc.length false (hdr' ++ (Q ++ P.A.flatten ++ (N1 ++ N2).flatten ++ P.R.flatten)) (P.N.length - 1)
  · rw [f1, hQ]; simp
  · rw [f4]; simp [P.oq]
  · rw [f5, P.oa, if_neg (by simp), if_neg (by decide)]
  · rw [f6, P.on]
    have e : (N1 ++ N2).length = P.N.length - 1 := by simp; omega
    rw [e]
    by_cases h0 : P.N.length - 1 = 0
    · rw [if_pos ⟨rfl, h0⟩, if_neg (by omega)]
    · rw [if_neg (by simp [h0]), if_neg (by decide), if_pos (by omega), if_pos (by omega)]
  · rw [f7, P.oR, if_neg (by simp), if_pos (Or.inr (Or.inr rfl))]
    by_cases hr : P.R.length > 0
    · rw [if_pos hr, if_pos hr, Option.map_some, shiftNat_neg (by omega)]; congr 1; omega
    · rw [if_neg hr, if_neg hr]; rfl
  · rw [f2]; exact P.mc
  · rw [f9]; rfl
  · rw [f10]; rfl
  · rw [f11]; rfl
  · rw [f12]; rfl
  · rw [f13]; rfl
  · rw [f8]; rfl
  · rw [f3]

end Dns

namespace Dns
open Res

/-- **deleting a record of the additional section of a plain object** (`t` = its type: 41 clears the EDNS summary) -/
theorem delete_additional {pp : PP} (P : PlainObj pp) (R1 R2 : List Bytes) (rc : Bytes) (hsplit : P.R = R1 ++ rc :: R2)
    (hrc : 0 < rc.length) (c : Cursor) (t : Nat) (hty : c.rrType pp.packet = .ok t)
    (hoff : c.offset = some (12 + labSum P.qls + 1 + 4 + P.A.flatten.length + P.N.flatten.length + R1.flatten.length))
    (hnext : c.offsetNext = 12 + labSum P.qls + 1 + 4 + P.A.flatten.length + P.N.flatten.length + R1.flatten.length + rc.length) :
    ∃ (pp' : PP) (P' : PlainObj pp'),
      deleteRR pp c = .ok { pp := pp', cur := { c with offsetNext := 12 + labSum P.qls + 1 + 4 + P.A.flatten.length + P.N.flatten.length + R1.flatten.length, offset := none }, result := none } ∧
      P'.A = P.A ∧ P'.N = P.N ∧ P'.R = R1 ++ R2 ∧ P'.qls = P.qls ∧ P'.q4 = P.q4 ∧
      (∀ k, (k + 1 < 10 ∨ 11 < k) → get16 P'.hdr k = get16 P.hdr k) ∧
      pp'.ednsCount = (if t == TYPE_OPT then 0 else pp.ednsCount) ∧ pp'.extRcode = (if t == TYPE_OPT then none else pp.extRcode) ∧
      pp'.ednsVersion = (if t == TYPE_OPT then none else pp.ednsVersion) ∧
      pp'.extFlags = (if t == TYPE_OPT then none else pp.extFlags) ∧ pp'.maxPayload = (if t == TYPE_OPT then 512 else pp.maxPayload) ∧
      pp'.offsetEdns = (if t == TYPE_OPT then none else if optLt c.offset pp.offsetEdns then pp.offsetEdns.map (fun x => shiftNat x (-(Int.ofNat rc.length))) else pp.offsetEdns) ∧
      pp'.cached = none := by
  have hlen := P.len
  have hRl : P.R.length = R1.length + R2.length + 1 := by rw [hsplit]; simp; omega
  have hRf : P.R.flatten.length = R1.flatten.length + rc.length + R2.flatten.length := by rw [hsplit]; simp; omega
  have hR' : (R1 ++ R2).flatten.length = R1.flatten.length + R2.flatten.length := by simp
  generalize hQ : (encLabels P.qls ++ [0]) ++ P.q4 = Q at *
  have hQl : Q.length = labSum P.qls + 1 + 4 := by
    rw [← hQ]; simp only [List.length_append, P.hq4, encLabels_length, List.length_cons, List.length_nil]
  have hpk : pp.packet = (P.hdr ++ Q ++ P.A.flatten ++ P.N.flatten ++ R1.flatten) ++ rc ++ R2.flatten := by
    rw [P.bytes, hsplit, hQ]; simp
  have hprel : (P.hdr ++ Q ++ P.A.flatten ++ P.N.flatten ++ R1.flatten).length =
      12 + labSum P.qls + 1 + 4 + P.A.flatten.length + P.N.flatten.length + R1.flatten.length := by
    simp only [List.length_append, P.hh, hQl]; omega
  have hcut := cut_mid (P.hdr ++ Q ++ P.A.flatten ++ P.N.flatten ++ R1.flatten) rc R2.flatten
  rw [← hpk, hprel] at hcut
  have hcut' : pp.packet.take (12 + labSum P.qls + 1 + 4 + P.A.flatten.length + P.N.flatten.length + R1.flatten.length) ++
      pp.packet.drop (12 + labSum P.qls + 1 + 4 + P.A.flatten.length + P.N.flatten.length + R1.flatten.length + rc.length) =
      P.hdr ++ (Q ++ P.A.flatten ++ P.N.flatten ++ (R1 ++ R2).flatten) := by rw [hcut]; simp
  have hcs : c.currentSection pp = .ok .additional := by
    unfold Cursor.currentSection
    simp only [hoff, P.oq, P.oa, P.on, P.oR, optLt, optGe]
    have hr : P.R.length > 0 := by omega
    simp only [hr, if_true]
    generalize R1.flatten.length = r1
    generalize P.A.flatten.length = af
    generalize P.N.flatten.length = nf
    have h1 : ¬ (12 + labSum P.qls + 1 + 4 + af + nf + r1 < 12) := by omega
    have h2 : ¬ (12 + labSum P.qls + 1 + 4 + af + nf + r1 < 12 + labSum P.qls + 1 + 4 + af + nf) := by omega
    simp [h1, h2]
  have hopt : (if Section.additional == Section.additional then do let t ← c.rrType pp.packet; pure (t == TYPE_OPT) else pure false) =
      Res.ok (t == TYPE_OPT) := by
    simp [hty]
  rw [← hnext] at hcut'
  obtain ⟨hdr', hrun, hh', hg6, hgo⟩ := deleteRR_run pp c _ .additional (t == TYPE_OPT) hoff hcs (by decide) P.mc hopt (by omega) (by omega) hcut' P.hh
    (by simp only [sectionCountOffset]; rw [P.hcr]; omega)
  simp only [sectionCountOffset] at hg6 hgo hrun
  have e1 : c.offsetNext - (12 + labSum P.qls + 1 + 4 + P.A.flatten.length + P.N.flatten.length + R1.flatten.length) = rc.length := by omega
  rw [e1, P.hcr] at hrun
  rw [P.hcr] at hg6
  have hR0 := P.hR
  rw [hsplit] at hR0
  obtain ⟨o4', hR1, _⟩ := pieces_remove hR0
  refine ⟨_, ⟨hdr', P.q4, P.qls, P.A, P.N, R1 ++ R2, P.o2, P.o3, o4', hh', ?_, P.hgq, P.hq4, P.hcl,
    P.hA, P.hN, hR1, ?_, ?_, by rw [hg6]; simp; omega, ?_, ?_, ?_, ?_, ?_, ?_, ?_⟩,
    hrun, rfl, rfl, rfl, rfl, rfl, hgo, ?_, ?_, ?_, ?_, ?_, ?_, ?_⟩
  · rw [hgo 4 (by omega)]; exact P.hqd
  · rw [hgo 6 (by omega)]; exact P.hca
  · rw [hgo 8 (by omega)]; exact P.hcn
  · intro hq; rw [hgo 2 (by omega)] at hq
    exact P.hqr hq
  all_goals obtain ⟨f1, f2, f3, f4, f5, f6, f7, f8, f9, f10, f11, f12, f13⟩ :=
    afterDelete_fields pp c .additional rc.length (t == TYPE_OPT) (hdr' ++ (Q ++ P.A.flatten ++ P.N.flatten ++ (R1 ++ R2).flatten)) (P.R.length - 1)
  · rw [f1, hQ]; simp
  · rw [f4]; simp [P.oq]
  · rw [f5, P.oa, if_neg (by simp), if_neg (by decide)]
  · rw [f6, P.on, if_neg (by simp), if_neg (by simp)]
  · rw [f7, P.oR]
    have e : (R1 ++ R2).length = P.R.length - 1 := by simp; omega
    rw [e]
    by_cases h0 : P.R.length - 1 = 0
    · rw [if_pos ⟨rfl, h0⟩, if_neg (by omega)]
    · rw [if_neg (by simp [h0]), if_neg (by simp), if_pos (by omega), if_pos (by omega)]
  · rw [f2]; exact P.mc
  · rw [f9]
  · rw [f10]
  · rw [f11]
  · rw [f12]
  · rw [f13]
  · rw [f8]
  · rw [f3]

end Dns
