/-
  Lemmas.DeleteRec — `delete` through a cursor on a record of a plain object: the record's bytes go,
  the section's count drops by one, the later sections move up; nothing else changes.
-/
import DnsModel.Lemmas.InsertRec
namespace Dns
open Res

/-- removing a non-OPT piece (or any piece of a section that cannot hold OPT) keeps a run of pieces -/
theorem pieceOK_flags {sec : Section} {rc : Bytes} {ob oa : Bool} (h : PieceOK sec rc ob oa) :
    (ob = false ∧ oa = true ∧ sec = .additional) ∨ (oa = ob ∧ ∀ b, PieceOK sec rc b b) := by
  obtain ⟨p0, r0, hr, hc⟩ := h
  obtain ⟨h1, h2, h3, h4, h5⟩ := hr
  by_cases h41 : get16 p0 r0.ne = 41
  · simp only [h41, if_true] at h5
    exact Or.inl ⟨h5.2.2.1, h5.2.2.2.1, h5.1⟩
  · simp only [h41, if_false] at h5
    refine Or.inr ⟨h5.2, fun b => ⟨p0, r0, ⟨h1, h2, h3, h4, ?_⟩, hc⟩⟩
    simp only [h41, if_false]
    exact ⟨h5.1, rfl⟩

theorem pieces_nonadditional {sec : Section} (hs : sec ≠ .additional) {ps : List Bytes} {ob oe : Bool} (h : Pieces sec ps ob oe) :
    oe = ob ∧ ∀ b, Pieces sec ps b b := by
  induction h with
  | nil o => exact ⟨rfl, fun b => Pieces.nil b⟩
  | cons hp _ ih =>
    rcases pieceOK_flags hp with ⟨_, _, hsec⟩ | ⟨e, hall⟩
    · exact absurd hsec hs
    · subst e
      exact ⟨ih.1, fun b => Pieces.cons (hall b) (ih.2 b)⟩

theorem pieces_remove_nonadditional {sec : Section} (hs : sec ≠ .additional) {ps1 ps2 : List Bytes} {rc : Bytes} {ob oe : Bool}
    (h : Pieces sec (ps1 ++ rc :: ps2) ob oe) : Pieces sec (ps1 ++ ps2) ob oe := by
  obtain ⟨e, hall⟩ := pieces_nonadditional hs h
  subst e
  have hall' : ∀ b, Pieces sec (ps1 ++ ps2) b b := by
    intro b
    have := hall b
    clear h hall
    induction ps1 with
    | nil =>
      cases this with
      | cons _ hrest =>
        rename_i om
        obtain ⟨e2, h2⟩ := pieces_nonadditional hs hrest
        exact h2 b
    | cons x ps1 ih =>
      cases this with
      | cons hp hrest =>
        rename_i om
        rcases pieceOK_flags hp with ⟨_, _, hsec⟩ | ⟨e, hx⟩
        · exact absurd hsec hs
        · obtain ⟨e2, h2⟩ := pieces_nonadditional hs hrest
          have : om = b := e
          subst this
          subst e2
          exact Pieces.cons hp (ih hrest)
  exact hall' ob

end Dns
