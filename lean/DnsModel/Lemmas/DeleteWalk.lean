/-
  Lemmas.DeleteWalk — the cursor protocol on a plain object (void cursor restarts the section, a live
  one advances), an abstract machine for "walk and delete" on lists, and the refinement between them.
-/
import DnsModel.Lemmas.SectionView
import DnsModel.Lemmas.AbsWalk
namespace Dns
open Res

/-- a void cursor restarts from the section start with the current count: first record -/
theorem nextIncl_void_some {pp : PP} {r : RecPos} {ob oa : Bool} (c : Cursor) (hc : c.offset = none) (n : Nat)
    (hi : secInfo pp c.sec = .ok (n + 1, some r.off)) (hr : RRAtPos pp.packet c.sec r ob oa) :
    nextIncludingOpt pp c = .ok (some ⟨c.sec, some r.off, r.next, r.ne, n⟩) := by
  obtain ⟨sec, off, nx, ne, left⟩ := c
  simp only at hc hi hr ⊢
  subst hc
  have hz : (n + 1 == 0) = false := by simp
  unfold nextIncludingOpt
  have hl := fun s => land_spec hr ⟨s, none, r.off, ne, n + 1 - 1⟩ rfl
  simp only at hl
  cases sec with
  | answer | nameServers | additional =>
    simp only [secInfo] at hi
    obtain ⟨m, hm, hp⟩ := bind_eq_ok.1 hi
    simp only [pure_eq, ok.injEq, Prod.mk.injEq] at hp
    obtain ⟨rfl, ho⟩ := hp
    simp only [hm, ho, bind_ok, pure_eq, hz, Bool.false_eq_true, if_false, unwrap]
    rw [hl]
    simp
  | question => simp [secInfo] at hi
  | edns => simp [secInfo] at hi

theorem nextIncl_void_none {pp : PP} (c : Cursor) (hc : c.offset = none) (x : Option Nat)
    (hi : secInfo pp c.sec = .ok (0, x)) : nextIncludingOpt pp c = .ok none := by
  obtain ⟨sec, off, nx, ne, left⟩ := c
  simp only at hc hi ⊢
  subst hc
  unfold nextIncludingOpt
  cases sec with
  | answer | nameServers | additional =>
    simp only [secInfo] at hi
    obtain ⟨m, hm, hp⟩ := bind_eq_ok.1 hi
    simp only [pure_eq, ok.injEq, Prod.mk.injEq] at hp
    obtain ⟨rfl, ho⟩ := hp
    simp [hm]
  | question => simp [secInfo] at hi
  | edns => simp [secInfo] at hi

/-- the cursor stands just before the `j`-th record of section `sec` (void: before the first) -/
def CurAt {pp : PP} (P : PlainObj pp) (sec : Section) (j : Nat) (c : Cursor) : Prop :=
  c.sec = sec ∧ ((c.offset = none ∧ j = 0) ∨
    (∃ o, c.offset = some o ∧ c.offsetNext = P.start sec + ((P.lst sec).take j).flatten.length ∧
      c.rrsLeft = (P.lst sec).length - j ∧ j ≤ (P.lst sec).length))

theorem split_at {α} (xs : List α) (j : Nat) (h : j < xs.length) : xs = xs.take j ++ xs[j] :: xs.drop (j + 1) := by
  rw [List.getElem_cons_drop, List.take_append_drop]

/-- `next` from a cursor standing before record `j`: lands on it -/
theorem next_some {pp : PP} (P : PlainObj pp) (sec : Section) (hs : sec.isRec = true) (j : Nat) (c : Cursor)
    (h : CurAt P sec j c) (hj : j < (P.lst sec).length) :
    ∃ ne ob oa,
      RRAtPos pp.packet sec ⟨P.start sec + ((P.lst sec).take j).flatten.length, ne,
        P.start sec + ((P.lst sec).take j).flatten.length + ((P.lst sec)[j]).length⟩ ob oa ∧
      nextIncludingOpt pp c = .ok (some ⟨sec, some (P.start sec + ((P.lst sec).take j).flatten.length),
        P.start sec + ((P.lst sec).take j).flatten.length + ((P.lst sec)[j]).length, ne, (P.lst sec).length - j - 1⟩) := by
  obtain ⟨ne, ob, oa, hr⟩ := P.rec_at sec hs (split_at (P.lst sec) j hj)
  refine ⟨ne, ob, oa, hr, ?_⟩
  obtain ⟨hsec, hcur⟩ := h
  rcases hcur with ⟨hv, hj0⟩ | ⟨o, ho, hn, hk, _⟩
  · subst hj0
    have hi := P.secInfo sec hs
    have hpos : (P.lst sec).length > 0 := hj
    simp only [hpos, if_true] at hi
    have e : (P.lst sec).length = ((P.lst sec).length - 0 - 1) + 1 := by omega
    rw [e] at hi
    simp only [List.take_zero, List.flatten_nil, List.length_nil, Nat.add_zero] at hr ⊢
    subst hsec
    exact nextIncl_void_some c hv _ hi hr
  · have := nextIncl_live hr c o ho hn ((P.lst sec).length - j - 1) (by omega)
    rw [this, hsec]

/-- `next` past the last record: end of the walk -/
theorem next_none {pp : PP} (P : PlainObj pp) (sec : Section) (hs : sec.isRec = true) (j : Nat) (c : Cursor)
    (h : CurAt P sec j c) (hj : ¬ j < (P.lst sec).length) : nextIncludingOpt pp c = .ok none := by
  obtain ⟨hsec, hcur⟩ := h
  rcases hcur with ⟨hv, hj0⟩ | ⟨o, ho, hn, hk, hle⟩
  · subst hj0
    have hi := P.secInfo sec hs
    have : (P.lst sec).length = 0 := by omega
    rw [this] at hi
    subst hsec
    exact nextIncl_void_none c hv _ hi
  · exact nextIncl_done c o ho (by omega)

/-! ### walk-and-delete: the abstract machine and the walker over the object -/

/-- the bytes under a live cursor -/
def recBytes (pp : PP) (c : Cursor) : Bytes :=
  match c.offset with
  | some o => (pp.packet.drop o).take (c.offsetNext - o)
  | none => []

/-- the walker over the object: `next`, then `delete` where `choose` says so -/
def delWalk (step : PP → Cursor → Res (Option Cursor)) (choose : Nat → Bool) :
    Nat → Nat → PP → Cursor → Res (PP × List (Bytes × Bool))
  | 0, _, _, _ => .diverge
  | f + 1, k, pp, c =>
    match step pp c with
    | .ok none => .ok (pp, [])
    | .ok (some c') =>
      if choose k then
        match deleteRR pp c' with
        | .ok st =>
          if st.result.isSome then .err .internalError
          else (delWalk step choose f (k + 1) st.pp st.cur).bind (fun r => .ok (r.1, (recBytes pp c', true) :: r.2))
        | .err e => .err e
        | .panic => .panic
        | .diverge => .diverge
      else (delWalk step choose f (k + 1) pp c').bind (fun r => .ok (r.1, (recBytes pp c', false) :: r.2))
    | .err e => .err e
    | .panic => .panic
    | .diverge => .diverge

theorem eraseIdx_split {α} (xs : List α) (j : Nat) (h : j < xs.length) : xs.eraseIdx j = xs.take j ++ xs.drop (j + 1) := by
  rw [List.eraseIdx_eq_take_drop_succ]

/-- **refinement**: on a plain object the walker does what the abstract machine does on the list of
the section's records; the other sections, the question and the other header fields stay -/
theorem delWalk_refines (sec : Section) (hs : sec.isRec = true) (step : PP → Cursor → Res (Option Cursor))
    (hstep : ∀ (pp : PP) (P : PlainObj pp) (c : Cursor) (j : Nat), CurAt P sec j c → step pp c = nextIncludingOpt pp c)
    (choose : Nat → Bool) :
    ∀ (fuel k : Nat) (pp : PP) (P : PlainObj pp) (c : Cursor) (j : Nat), CurAt P sec j c →
      ∀ r, absWalk choose fuel k (P.lst sec) j = some r →
        ∃ (pp' : PP) (P' : PlainObj pp'), delWalk step choose fuel k pp c = .ok (pp', r.2) ∧ P'.lst sec = r.1 ∧
          (∀ s, s ≠ sec → P'.lst s = P.lst s) ∧ P'.qls = P.qls ∧ P'.q4 = P.q4 ∧
          (∀ i, (i + 1 < sectionCountOffset sec ∨ sectionCountOffset sec + 1 < i) → get16 P'.hdr i = get16 P.hdr i) := by
  intro fuel
  induction fuel with
  | zero => intro k pp P c j _ r h; simp [absWalk] at h
  | succ f ih =>
    intro k pp P c j hc r h
    unfold absWalk at h
    unfold delWalk
    rw [hstep pp P c j hc]
    by_cases hj : j < (P.lst sec).length
    · simp only [hj, dite_true] at h
      obtain ⟨ne, ob, oa, hr, hnx⟩ := next_some P sec hs j c hc hj
      rw [hnx]
      simp only
      have hsplit := split_at (P.lst sec) j hj
      have hwin := P.window sec hs hsplit
      have hrb : recBytes pp ⟨sec, some (P.start sec + ((P.lst sec).take j).flatten.length),
          P.start sec + ((P.lst sec).take j).flatten.length + ((P.lst sec)[j]).length, ne, (P.lst sec).length - j - 1⟩ = (P.lst sec)[j] := by
        simp only [recBytes]
        rw [Nat.add_sub_cancel_left]
        exact hwin
      rw [hrb]
      by_cases hch : choose k = true
      · simp only [hch, if_true] at h ⊢
        obtain ⟨pp1, P1, hdel, e1, e2, e3, e4, e5, _, _⟩ := P.delete_at sec hs hsplit
          ⟨sec, some (P.start sec + ((P.lst sec).take j).flatten.length),
            P.start sec + ((P.lst sec).take j).flatten.length + ((P.lst sec)[j]).length, ne, (P.lst sec).length - j - 1⟩ hr rfl rfl rfl
        rw [hdel]
        simp only [Option.isSome_none, Bool.false_eq_true, if_false]
        obtain ⟨r', hr', rfl⟩ := Option.map_eq_some_iff.1 h
        have hc1 : CurAt P1 sec 0 ⟨sec, none, P.start sec + ((P.lst sec).take j).flatten.length, ne, (P.lst sec).length - j - 1⟩ :=
          ⟨rfl, Or.inl ⟨rfl, rfl⟩⟩
        rw [eraseIdx_split _ _ hj, ← e1] at hr'
        obtain ⟨pp', P', hw, f1, f2, f3, f4, f5⟩ := ih (k + 1) pp1 P1 _ 0 hc1 r' hr'
        refine ⟨pp', P', ?_, f1, ?_, by rw [f3, e3], by rw [f4, e4], ?_⟩
        · rw [hw]; rfl
        · intro s hs'; rw [f2 s hs', e2 s hs']
        · intro i hi; rw [f5 i hi, e5 i hi]
      · have hch' : choose k = false := by simpa using hch
        simp only [hch', Bool.false_eq_true, if_false] at h ⊢
        obtain ⟨r', hr', rfl⟩ := Option.map_eq_some_iff.1 h
        have hc1 : CurAt P sec (j + 1) ⟨sec, some (P.start sec + ((P.lst sec).take j).flatten.length),
            P.start sec + ((P.lst sec).take j).flatten.length + ((P.lst sec)[j]).length, ne, (P.lst sec).length - j - 1⟩ := by
          refine ⟨rfl, Or.inr ⟨_, rfl, ?_, by simp only; omega, by omega⟩⟩
          simp only
          rw [List.take_succ_eq_append_getElem hj, List.flatten_append, List.length_append]
          simp only [List.flatten_cons, List.flatten_nil, List.append_nil]
          omega
        obtain ⟨pp', P', hw, f1, f2, f3, f4, f5⟩ := ih (k + 1) pp P _ (j + 1) hc1 r' hr'
        refine ⟨pp', P', ?_, f1, f2, f3, f4, f5⟩
        rw [hw]; rfl
    · simp only [hj, dite_false, Option.some.injEq] at h
      rw [next_none P sec hs j c hc hj]
      subst h
      exact ⟨pp, P, rfl, rfl, fun _ _ => rfl, rfl, rfl, fun _ _ => rfl⟩

/-- in the answer and authority sections no record is OPT: the skipping step is the plain step -/
theorem nextSkip_eq_incl {pp : PP} (P : PlainObj pp) (sec : Section) (hs : sec.isRec = true) (hna : sec ≠ .additional)
    (c : Cursor) (j : Nat) (h : CurAt P sec j c) : nextSkippingOpt pp c = nextIncludingOpt pp c := by
  unfold nextSkippingOpt
  by_cases hj : j < (P.lst sec).length
  · obtain ⟨ne, ob, oa, hr, hnx⟩ := next_some P sec hs j c h hj
    rw [hnx]
    simp only [bind_ok]
    have h41 : get16 pp.packet ne ≠ 41 := by
      intro h41
      have := hr.2.2.2.2
      simp only [h41, if_true] at this
      exact hna this.1
    obtain ⟨_, h10, _⟩ := hr.pos_len
    have h10' : ne + 10 ≤ pp.packet.length := hr.2.1
    unfold maybeSkipOpt
    rw [rrType_at (o := P.start sec + ((P.lst sec).take j).flatten.length) rfl (by simpa using h10')]
    have c41 : (get16 pp.packet ne == TYPE_OPT) = false := by simp [TYPE_OPT, h41]
    simp only [bind_ok, c41, Bool.false_eq_true, if_false, pure_eq]
  · rw [next_none P sec hs j c h hj]
    rfl

end Dns
