/-
  Lemmas.RenameName — `copy_with_replaced_name`: read a name of the packet, rename it, write it
  compressed.
-/
import DnsModel.Lemmas.Replace
import DnsModel.Lemmas.CompressRec
namespace Dns
open Res

/-- compressing a given pointer-free name after *any* output of length `n` for which the dictionary is sound -/
theorem compressName_any (ls : List (List UInt8)) (hok : ∀ l ∈ ls, okLabel l) (hw : wireLen ls ≤ 255)
    (hg : ∀ l ∈ ls, goodChars l = true) (dict : SuffixDict) (n : Nat) (X0 : Bytes) (hX0 : X0.length = n)
    (hinv0 : DictInv dict X0) :
    ∃ (dict' : SuffixDict) (em : Bytes),
      (∀ out2 : Bytes, out2.length = n →
        copyCompressedNameWithBaseOffset dict out2 (encLabels ls ++ [0]) 0 out2.length =
          .ok (dict', out2 ++ em, em.length, (encLabels ls ++ [0]).length)) ∧
      em.length ≤ labSum ls + 1 ∧ 0 < em.length ∧
      (∀ X : Bytes, X.length = n → DictInv dict X →
        DictInv dict' (X ++ em) ∧ ∃ ls', lsCi ls' ls ∧ ∀ t : Bytes, ValidName (X ++ em ++ t) n ls' (n + em.length)) := by
  obtain ⟨dict', em, ls0, hrun0, hle, hpos, _, _, _⟩ := compress_name X0 ls hok hw hg dict hinv0
  rw [encLen_eq] at hle
  have hgen : ∀ out2 : Bytes, out2.length = n →
      copyCompressedNameWithBaseOffset dict out2 (encLabels ls ++ [0]) 0 out2.length =
        .ok (dict', out2 ++ em, em.length, (encLabels ls ++ [0]).length) :=
    fun out2 hl => copyName_param hrun0 out2 (by omega)
  refine ⟨dict', em, hgen, hle, hpos, ?_⟩
  intro X hX hinv
  obtain ⟨dX, emX, lsX, hrunX, _, _, hciX, hvalX, hdX⟩ := compress_name X ls hok hw hg dict hinv
  have := hgen X hX
  rw [hrunX] at this
  simp only [ok.injEq, Prod.mk.injEq] at this
  obtain ⟨e1, e2, _, _⟩ := this
  have e2' : emX = em := List.append_cancel_left e2
  subst e1; subst e2'
  refine ⟨hdX, lsX, hciX, ?_⟩
  intro t
  have := hvalX t
  rw [hX] at this; exact this

/-- a well-formed, pointer-free, non-root name given as argument of the renaming -/
structure ArgName (ls : List (List UInt8)) : Prop where
  ne : ls ≠ []
  ok : ∀ l ∈ ls, okLabel l
  good : ∀ l ∈ ls, goodChars l = true
  len : wireLen ls ≤ 255

theorem Renamed.valid {src tgt ls ls' : List (List UInt8)} {sfx : Bool} (h : Renamed src tgt sfx ls ls')
    (hok : ∀ l ∈ ls, okLabel l) (hg : ∀ l ∈ ls, goodChars l = true) (ht : ArgName tgt) :
    (∀ l ∈ ls', okLabel l) ∧ (∀ l ∈ ls', goodChars l = true) := by
  cases h with
  | hit a b _ _ =>
    constructor
    · intro l hl
      rcases List.mem_append.1 hl with h | h
      · exact hok l (by simp [h])
      · exact ht.ok l h
    · intro l hl
      rcases List.mem_append.1 hl with h | h
      · exact hg l (by simp [h])
      · exact ht.good l h
  | miss _ _ => exact ⟨hok, hg⟩

/-- **one name renamed and written**: with `ls'` the renamed labels, either `ls'` fits 255 bytes and
a name equal to it up to case is written (same bytes for every output of that length), or it does
not and the call fails with `InvalidName` -/
theorem copyReplaced_spec {p : Bytes} {off e : Nat} {ls src tgt : List (List UInt8)} (hv : ValidName p off ls e)
    (hs : ArgName src) (ht : ArgName tgt) (sfx : Bool) (dict : SuffixDict) (n : Nat) (X0 : Bytes) (hX0 : X0.length = n)
    (hinv0 : DictInv dict X0) :
    ∃ ls', Renamed src tgt sfx ls ls' ∧
      ((wireLen ls' ≤ 255 ∧ ∃ (dict' : SuffixDict) (em : Bytes),
          (∀ out2 : Bytes, out2.length = n →
            copyWithReplacedName out2 p off dict (encLabels tgt ++ [0]) (encLabels src ++ [0]) sfx = .ok (dict', out2 ++ em)) ∧
          0 < em.length ∧ em.length ≤ labSum ls' + 1 ∧
          (∀ X : Bytes, X.length = n → DictInv dict X →
            DictInv dict' (X ++ em) ∧ ∃ ls'', lsCi ls'' ls' ∧ ∀ t : Bytes, ValidName (X ++ em ++ t) n ls'' (n + em.length))) ∨
       (255 < wireLen ls' ∧ ∀ out2 : Bytes,
          copyWithReplacedName out2 p off dict (encLabels tgt ++ [0]) (encLabels src ++ [0]) sfx = .err .invalidName)) := by
  obtain ⟨hokl, hwl, hgl⟩ := validName_ok hv
  have hcopy := copyUncompressedName_valid hv
  rcases replaceRaw_spec ls src tgt sfx hokl hs.ok ht.ok hs.ne ht.ne with ⟨a, b, hab, hci, hsf, hrep⟩ | ⟨hno, hrep⟩
  · have hren : Renamed src tgt sfx ls (a ++ tgt) := by rw [hab]; exact Renamed.hit a b hci hsf
    refine ⟨a ++ tgt, hren, ?_⟩
    have hwl' : wireLen (a ++ tgt) = labSum a + (labSum tgt + 1) := by rw [wireLen_eq, labSum_append]; omega
    by_cases hbig : labSum a + (labSum tgt + 1) > 255
    · right
      refine ⟨by omega, ?_⟩
      intro out2
      unfold copyWithReplacedName
      simp only [hcopy, bind_ok, hrep, hbig, if_true, bind_err]
    · left
      obtain ⟨hok', hg'⟩ := hren.valid hokl hgl ht
      refine ⟨by omega, ?_⟩
      obtain ⟨dict', em, hgen, hle, hpos, hall⟩ := compressName_any (a ++ tgt) hok' (by omega) hg' dict n X0 hX0 hinv0
      refine ⟨dict', em, ?_, hpos, hle, hall⟩
      intro out2 hl
      unfold copyWithReplacedName
      simp only [hcopy, bind_ok, hrep, hbig, if_false, Option.getD_some, hgen out2 hl, pure_eq]
  · refine ⟨ls, Renamed.miss ls hno, Or.inl ⟨hwl, ?_⟩⟩
    obtain ⟨dict', em, hgen, hle, hpos, hall⟩ := compressName_any ls hokl hwl hgl dict n X0 hX0 hinv0
    refine ⟨dict', em, ?_, hpos, hle, hall⟩
    intro out2 hl
    unfold copyWithReplacedName
    simp only [hcopy, bind_ok, hrep, Option.getD_none, hgen out2 hl, pure_eq]

end Dns
