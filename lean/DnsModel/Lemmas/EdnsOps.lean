/-
  Lemmas.EdnsOps — every mutator keeps the object's EDNS summary equal to the one its additional
  pieces determine (`EdnsOK`), hence equal to what a fresh parse reports (`EdnsOK.matches_parse`).
-/
import DnsModel.Lemmas.EdnsPieces
import DnsModel.Lemmas.SetName
import DnsModel.Lemmas.HeaderSet
namespace Dns
open Res

/-- a piece of the given shape is the OPT pseudo-record exactly when its owner is the root and its type 41 -/
theorem isOptPiece_shape (owner : List (List UInt8)) (f8 rest : Bytes) (hgo : GoodLabels owner) (hf8 : f8.length = 8) :
    isOptPiece ((encLabels owner ++ [0]) ++ f8 ++ rest) = true ↔ owner = [] ∧ get16 f8 0 = 41 := by
  unfold isOptPiece
  have hroot := enc_root_iff owner hgo.1 (f8 ++ rest)
  have e : (encLabels owner ++ [0]) ++ f8 ++ rest = (encLabels owner ++ [0]) ++ (f8 ++ rest) := by simp
  rw [e]
  constructor
  · intro h
    simp only [Bool.and_eq_true, beq_iff_eq] at h
    have ho := hroot.2 h.1
    refine ⟨ho, ?_⟩
    subst ho
    have : get16 (([] : Bytes) ++ [0] ++ (f8 ++ rest)) 1 = get16 f8 0 := by
      have hag := agree_of_append f8 [0] rest 0 8 (by omega)
      have hf : (f8.drop 0).take 8 = f8 := by simp [List.take_of_length_le (Nat.le_of_eq hf8)]
      rw [hf] at hag
      have := hag.get16 (i := 0) (by omega)
      simpa using this
    simp only [encLabels] at h
    rw [← this]; exact h.2
  · rintro ⟨ho, ht⟩
    subst ho
    have : get16 (([] : Bytes) ++ [0] ++ (f8 ++ rest)) 1 = get16 f8 0 := by
      have hag := agree_of_append f8 [0] rest 0 8 (by omega)
      have hf : (f8.drop 0).take 8 = f8 := by simp [List.take_of_length_le (Nat.le_of_eq hf8)]
      rw [hf] at hag
      have := hag.get16 (i := 0) (by omega)
      simpa using this
    simp only [encLabels, Bool.and_eq_true, beq_iff_eq]
    exact ⟨by simp [getB, byteAt], by rw [this]; exact ht⟩

theorem noopt_of_type (owner : List (List UInt8)) (f8 rest : Bytes) (hgo : GoodLabels owner) (hf8 : f8.length = 8) (h41 : get16 f8 0 ≠ 41) :
    isOptPiece ((encLabels owner ++ [0]) ++ f8 ++ rest) = false := by
  cases h : isOptPiece ((encLabels owner ++ [0]) ++ f8 ++ rest) with
  | false => rfl
  | true => exact absurd ((isOptPiece_shape owner f8 rest hgo hf8).1 h).2 h41

/-- a piece that leaves the OPT flag as it found it is not the OPT record -/
theorem noopt_of_pieceOK {sec : Section} {rc : Bytes} {b : Bool} (h : PieceOK sec rc b b) : isOptPiece rc = false := by
  obtain ⟨owner, f8, rd, hrc, hgo, hf8, _, _, h41⟩ := piece_shape h
  by_cases ht : get16 f8 0 = 41
  · obtain ⟨_, h1, h2⟩ := h41 ht
    rw [h1] at h2; cases h2
  · rw [hrc]
    have := noopt_of_type owner f8 (put16 rd.length ++ rd) hgo hf8 ht
    simpa using this

theorem noopt_of_pieces_aux {sec : Section} {R : List Bytes} {ob oe : Bool} (h : Pieces sec R ob oe) :
    oe = ob → ∀ r ∈ R, isOptPiece r = false := by
  induction h with
  | nil => intro _ r hr; simp at hr
  | @cons rc ps ob om oe hp hrest ih =>
    intro he r hr
    rcases pieceOK_flags hp with ⟨hf, ht, _⟩ | ⟨e, _⟩
    · subst hf; subst ht
      have := (pieces_any_flag hrest (Or.inr rfl)).1
      rw [he] at this; cases this
    · subst e
      simp only [List.mem_cons] at hr
      rcases hr with rfl | hr
      · exact noopt_of_pieceOK hp
      · exact ih he r hr

theorem noopt_of_pieces {sec : Section} {R : List Bytes} {b : Bool} (h : Pieces sec R b b) : ∀ r ∈ R, isOptPiece r = false :=
  noopt_of_pieces_aux h rfl

theorem noopt_after_opt {sec : Section} {R : List Bytes} {oe : Bool} (h : Pieces sec R true oe) : ∀ r ∈ R, isOptPiece r = false := by
  obtain ⟨e, hall⟩ := pieces_any_flag h (Or.inr rfl)
  exact noopt_of_pieces (hall true)

theorem moved_congr {i : EdnsInfo} {f g : Nat → Nat} (h : ∀ x, i.start = some x → f x = g x) : i.moved f = i.moved g := by
  unfold EdnsInfo.moved
  congr 1
  cases hs : i.start with
  | none => rfl
  | some x => simp [h x hs]

theorem moved_id {i : EdnsInfo} {f : Nat → Nat} (h : ∀ x, i.start = some x → f x = x) : i.moved f = i := by
  unfold EdnsInfo.moved
  cases hs : i.start with
  | none => cases i; simp_all
  | some x => cases i; simp_all

theorem ednsInfo_moved (pp pp' : PP) (f : Nat → Nat) (h1 : pp'.offsetEdns = pp.offsetEdns.map f) (h2 : pp'.ednsCount = pp.ednsCount)
    (h3 : pp'.extRcode = pp.extRcode) (h4 : pp'.ednsVersion = pp.ednsVersion) (h5 : pp'.extFlags = pp.extFlags)
    (h6 : pp'.maxPayload = pp.maxPayload) : pp'.ednsInfo = pp.ednsInfo.moved f := by
  unfold PP.ednsInfo EdnsInfo.moved
  simp only [h1, h2, h3, h4, h5, h6]

theorem start_additional {pp : PP} (P : PlainObj pp) :
    P.start .additional = 12 + labSum P.qls + 1 + 4 + P.A.flatten.length + P.N.flatten.length := rfl

/-- what decompression / recompute leave: the summary of the new parse -/
theorem ednsOK_rebased {pp0 : PP} {u : Bytes} {v2 : View} (P : PlainObj (pp0.rebased u v2)) (h2 : parse u = .ok v2)
    (e1 : pp0.ednsCount = v2.ednsCount) (e2 : pp0.extRcode = v2.extRcode) (e3 : pp0.ednsVersion = v2.ednsVersion)
    (e4 : pp0.extFlags = v2.extFlags) (e5 : pp0.maxPayload = v2.maxPayload) : EdnsOK P := by
  unfold EdnsOK
  have := P.parse_info (v := v2) h2
  have e : (pp0.rebased u v2).ednsInfo = v2.info := by
    unfold PP.ednsInfo View.info PP.rebased
    simp only [e1, e2, e3, e4, e5]
  rw [e]; exact this

/-- **insert** into the answer or authority section: the additional section moves by the record's length -/
theorem ednsOK_insert_before {pp pp' : PP} (P : PlainObj pp) (P' : PlainObj pp') (h : EdnsOK P) (len : Nat)
    (hR : P'.R = P.R) (hst : P'.start .additional = P.start .additional + len)
    (hf : pp' = { pp with packet := pp'.packet, offsetAnswers := pp'.offsetAnswers, offsetNameservers := pp'.offsetNameservers,
                          offsetAdditional := pp'.offsetAdditional, offsetEdns := pp.offsetEdns.map (· + len) }) : EdnsOK P' := by
  unfold EdnsOK at h ⊢
  have hi : pp'.ednsInfo = pp.ednsInfo.moved (· + len) := by
    rw [hf]; rfl
  rw [hi, hR, hst]
  have := h.shift (P.start .additional + len)
  rw [moved_congr (g := (· + len)) (by intro x _; show x + (P.start .additional + len) - P.start .additional = x + len; omega)] at this
  exact this

/-- **insert** into the additional section (a non-OPT record, at the end) -/
theorem ednsOK_insert_additional {pp pp' : PP} (P : PlainObj pp) (P' : PlainObj pp') (h : EdnsOK P) (rr : Bytes)
    (hn : isOptPiece rr = false) (hR : P'.R = P.R ++ [rr]) (hst : P'.start .additional = P.start .additional)
    (hf : pp' = { pp with packet := pp'.packet, offsetAnswers := pp'.offsetAnswers, offsetNameservers := pp'.offsetNameservers,
                          offsetAdditional := pp'.offsetAdditional }) : EdnsOK P' := by
  unfold EdnsOK at h ⊢
  have hi : pp'.ednsInfo = pp.ednsInfo := by rw [hf]; rfl
  rw [hi, hR, hst]
  exact h.append rr hn

/-- an operation that keeps the additional pieces, their start and the object's summary -/
theorem ednsOK_same {pp pp' : PP} (P : PlainObj pp) (P' : PlainObj pp') (h : EdnsOK P)
    (hR : P'.R = P.R) (hst : P'.start .additional = P.start .additional) (hi : pp'.ednsInfo = pp.ednsInfo) : EdnsOK P' := by
  unfold EdnsOK at h ⊢
  rw [hi, hR, hst]; exact h

theorem shiftNat_neg' (x len : Nat) : shiftNat x (-(Int.ofNat len)) = x - len := by
  unfold shiftNat
  simp only [Int.ofNat_eq_natCast]
  omega

theorem lst_R {pp : PP} (P : PlainObj pp) : P.lst .additional = P.R := rfl

/-- the additional section starts after the record sections before it -/
theorem start_le_additional {pp : PP} (P : PlainObj pp) (sec : Section) (hs : sec.isRec = true) (hna : sec ≠ .additional) :
    P.start sec + (P.lst sec).flatten.length ≤ P.start .additional := by
  cases sec with
  | answer => simp only [PlainObj.start, PlainObj.lst]; omega
  | nameServers => simp only [PlainObj.start, PlainObj.lst]; omega
  | additional => exact absurd rfl hna
  | question => simp [Section.isRec] at hs
  | edns => simp [Section.isRec] at hs

/-- how the additional section's start moves when a record of an earlier section changes its length -/
theorem start_additional_after {pp pp' : PP} (P : PlainObj pp) (P' : PlainObj pp') (sec : Section) (hs : sec.isRec = true)
    (hna : sec ≠ .additional) (hq : P'.qls = P.qls) (hl : ∀ s, s ≠ sec → P'.lst s = P.lst s) :
    P'.start .additional + (P.lst sec).flatten.length = P.start .additional + (P'.lst sec).flatten.length ∧ P'.R = P.R := by
  have hR : P'.R = P.R := hl .additional (Ne.symm hna)
  cases sec with
  | answer =>
    have h2 := hl .nameServers (by decide)
    simp only [PlainObj.lst] at h2 ⊢
    simp only [start_additional, hq, h2]
    exact ⟨by omega, hR⟩
  | nameServers =>
    have h2 := hl .answer (by decide)
    simp only [PlainObj.lst] at h2 ⊢
    simp only [start_additional, hq, h2]
    exact ⟨by omega, hR⟩
  | additional => exact absurd rfl hna
  | question => simp [Section.isRec] at hs
  | edns => simp [Section.isRec] at hs

/-- **a record of section `sec` replaced by one of another length** (set-name; same length: TTL, address):
the summary's position moves exactly as `resize_rr` moves it -/
theorem ednsOK_replace {pp pp' : PP} (P : PlainObj pp) (P' : PlainObj pp') (h : EdnsOK P) (sec : Section) (hs : sec.isRec = true)
    {ps1 ps2 : List Bytes} {rc rc' : Bytes} (hsplit : P.lst sec = ps1 ++ rc :: ps2) (hn : isOptPiece rc = false) (hn' : isOptPiece rc' = false)
    (f1 : P'.lst sec = ps1 ++ rc' :: ps2) (f2 : ∀ s, s ≠ sec → P'.lst s = P.lst s) (f3 : P'.qls = P.qls)
    (hi : pp'.ednsInfo = pp.ednsInfo.moved (fun x => if P.start sec + ps1.flatten.length < x then x + rc'.length - rc.length else x)) :
    EdnsOK P' := by
  unfold EdnsOK at h ⊢
  rw [hi]
  by_cases hadd : sec = .additional
  · subst hadd
    have hst : P'.start .additional = P.start .additional := P.start_congr P' .additional f3 f2
    rw [lst_R] at hsplit f1
    rw [f1, hst]
    rw [hsplit] at h
    exact h.replace hn hn'
  · obtain ⟨hst, hR⟩ := start_additional_after P P' sec hs hadd f3 f2
    rw [hR]
    have hle := start_le_additional P sec hs hadd
    have hfl := mid_flatten ps1 ps2 rc
    have hfl' := mid_flatten ps1 ps2 rc'
    rw [← hsplit] at hfl
    rw [← f1] at hfl'
    have := h.shift (P'.start .additional)
    rw [moved_congr (g := fun x => if P.start sec + ps1.flatten.length < x then x + rc'.length - rc.length else x) ?_] at this
    · exact this
    · intro x hx
      have := h.start_ge x hx
      have hlt : P.start sec + ps1.flatten.length < x := by omega
      simp only [hlt, if_true]
      omega

/-- **a non-OPT record of section `sec` removed** -/
theorem ednsOK_remove {pp pp' : PP} (P : PlainObj pp) (P' : PlainObj pp') (h : EdnsOK P) (sec : Section) (hs : sec.isRec = true)
    {ps1 ps2 : List Bytes} {rc : Bytes} (hsplit : P.lst sec = ps1 ++ rc :: ps2) (hn : isOptPiece rc = false)
    (f1 : P'.lst sec = ps1 ++ ps2) (f2 : ∀ s, s ≠ sec → P'.lst s = P.lst s) (f3 : P'.qls = P.qls)
    (hi : pp'.ednsInfo = pp.ednsInfo.moved (fun x => if P.start sec + ps1.flatten.length < x then x - rc.length else x)) :
    EdnsOK P' := by
  unfold EdnsOK at h ⊢
  rw [hi]
  by_cases hadd : sec = .additional
  · subst hadd
    have hst : P'.start .additional = P.start .additional := P.start_congr P' .additional f3 f2
    rw [lst_R] at hsplit f1
    rw [f1, hst]
    rw [hsplit] at h
    exact h.remove hn
  · obtain ⟨hst, hR⟩ := start_additional_after P P' sec hs hadd f3 f2
    rw [hR]
    have hle := start_le_additional P sec hs hadd
    have hfl := mid_flatten ps1 ps2 rc
    rw [← hsplit] at hfl
    have hfl' : (P'.lst sec).flatten.length = ps1.flatten.length + ps2.flatten.length := by rw [f1]; simp
    have := h.shift (P'.start .additional)
    rw [moved_congr (g := fun x => if P.start sec + ps1.flatten.length < x then x - rc.length else x) ?_] at this
    · exact this
    · intro x hx
      have := h.start_ge x hx
      have hlt : P.start sec + ps1.flatten.length < x := by omega
      simp only [hlt, if_true]
      omega

/-- **the OPT record removed**: no summary is left -/
theorem ednsOK_remove_opt {pp pp' : PP} (P : PlainObj pp) (P' : PlainObj pp')
    {ps1 ps2 : List Bytes} {rc : Bytes} (hsplit : P.R = ps1 ++ rc :: ps2) (ho : isOptPiece rc = true)
    (f1 : P'.R = ps1 ++ ps2) (hi : pp'.ednsInfo = EdnsInfo.none) : EdnsOK P' := by
  unfold EdnsOK
  rw [hi, f1]
  have hR := P.hR
  rw [hsplit, P.o3_false] at hR
  obtain ⟨om, h1, h2⟩ := Pieces.split hR
  cases h2 with
  | @cons _ _ _ om' _ hp hrest =>
    obtain ⟨owner, f8, rd, hrc, hgo, hf8, _, _, h41⟩ := piece_shape hp
    have hshape : isOptPiece ((encLabels owner ++ [0]) ++ f8 ++ (put16 rd.length ++ rd)) = true := by
      have e : (encLabels owner ++ [0]) ++ f8 ++ (put16 rd.length ++ rd) = rc := by rw [hrc]; simp
      rw [e]; exact ho
    obtain ⟨_, ht⟩ := (isOptPiece_shape owner f8 _ hgo hf8).1 hshape
    obtain ⟨_, hom, hom'⟩ := h41 ht
    subst hom; subst hom'
    exact EdnsOf.remove_opt rc (noopt_of_pieces h1) (noopt_after_opt hrest) _

/-- the position field after `resize_rr`-style bookkeeping, as a map over the old position -/
theorem map_if_optLt (oe : Option Nat) (off : Nat) (g : Nat → Nat) :
    (if optLt (some off) oe then oe.map g else oe) = oe.map (fun x => if off < x then g x else x) := by
  cases oe with
  | none => simp [optLt]
  | some x =>
    by_cases h : off < x
    · simp [optLt, h]
    · simp [optLt, h]

/-- whether the record under the cursor is the OPT record, read off the packet -/
theorem isOpt_iff_type {pp : PP} (P : PlainObj pp) (sec : Section) (hs : sec.isRec = true) {ps1 ps2 : List Bytes} {rc : Bytes}
    (hsplit : P.lst sec = ps1 ++ rc :: ps2) {ne : Nat} {ob oa : Bool}
    (hr : RRAtPos pp.packet sec ⟨P.start sec + ps1.flatten.length, ne, P.start sec + ps1.flatten.length + rc.length⟩ ob oa) :
    (isOptPiece rc = true ↔ get16 pp.packet ne = 41) ∧ (get16 pp.packet ne = 41 → sec = .additional) := by
  obtain ⟨owner, f8, rd, pre, post, ob', oa', hpk, hprel, hrc, hgo, hf8, hlt, hnon, hr', hty⟩ := P.shape_at sec hs hsplit
  have hne' : ne = pre.length + labSum owner + 1 := by
    rw [← hprel] at hr
    exact nameEnds_functional hr.1 hr'.1
  have hshape := isOptPiece_shape owner f8 (put16 rd.length ++ rd) hgo hf8
  have e : (encLabels owner ++ [0]) ++ f8 ++ (put16 rd.length ++ rd) = rc := by rw [hrc]; simp
  rw [e] at hshape
  have hbody := hr.2.2.2.2
  simp only at hbody
  refine ⟨⟨fun h => by rw [hne', hty]; exact (hshape.1 h).2, fun h => ?_⟩, fun h => ?_⟩
  · simp only [h, if_true] at hbody
    have h1 : ne = P.start sec + ps1.flatten.length + 1 := hbody.2.1
    rw [hne', ← hprel] at h1
    have : labSum owner = 0 := by omega
    have ho : owner = [] := by
      cases owner with
      | nil => rfl
      | cons l ls => simp [labSum] at this
    rw [hne', hty] at h
    exact hshape.2 ⟨ho, h⟩
  · simp only [h, if_true] at hbody
    exact hbody.1


end Dns
