/-
  Lemmas.ReplaceRec — replacing one record of a plain object by another piece (in-place setters, owner
  rename): the result is the plain object with that record replaced.
-/
import DnsModel.Lemmas.PieceShape
namespace Dns
open Res

theorem split_unique {pre rc post X Y : Bytes} (h : pre ++ rc ++ post = X ++ rc ++ Y) (hl : pre.length = X.length) :
    pre = X ∧ post = Y := by
  rw [List.append_assoc, List.append_assoc] at h
  obtain ⟨h1, h2⟩ := List.append_inj h hl
  exact ⟨h1, (List.append_cancel_left h2)⟩

theorem mid_flatten (ps1 ps2 : List Bytes) (rc : Bytes) : (ps1 ++ rc :: ps2).flatten.length = ps1.flatten.length + rc.length + ps2.flatten.length := by
  simp; omega

/-- **a plain object with one record replaced** -/
theorem PlainObj.replace_at {pp : PP} (P : PlainObj pp) (sec : Section) (hs : sec.isRec = true) {ps1 ps2 : List Bytes} {rc : Bytes}
    (hsplit : P.lst sec = ps1 ++ rc :: ps2) (rc' : Bytes)
    (hps : Pieces sec (ps1 ++ rc' :: ps2) (P.fin sec) (P.fout sec))
    {pre post : Bytes} (hpre : pp.packet = pre ++ rc ++ post) (hprel : pre.length = P.start sec + ps1.flatten.length)
    (pp' : PP) (hpk : pp'.packet = pre ++ rc' ++ post) (hq : pp'.offsetQuestion = pp.offsetQuestion)
    (ha : pp'.offsetAnswers = pp.offsetAnswers)
    (hn : pp'.offsetNameservers = if sec = .answer then pp.offsetNameservers.map (fun x => x + rc'.length - rc.length) else pp.offsetNameservers)
    (hr : pp'.offsetAdditional = if sec = .additional then pp.offsetAdditional else pp.offsetAdditional.map (fun x => x + rc'.length - rc.length))
    (hmc : pp'.maybeCompressed = false) :
    ∃ P' : PlainObj pp', P'.lst sec = ps1 ++ rc' :: ps2 ∧ (∀ s, s ≠ sec → P'.lst s = P.lst s) ∧ P'.qls = P.qls ∧ P'.q4 = P.q4 ∧
      P'.hdr = P.hdr := by
  have hQl : ((encLabels P.qls ++ [0]) ++ P.q4).length = labSum P.qls + 1 + 4 := by
    simp only [List.length_append, P.hq4, encLabels_length, List.length_cons, List.length_nil]
  cases sec with
  | answer =>
    simp only [PlainObj.lst, PlainObj.start, PlainObj.fin, PlainObj.fout] at hsplit hprel hps
    have hb := P.bytes
    rw [hpre, hsplit] at hb
    have hb' : pre ++ rc ++ post = (P.hdr ++ ((encLabels P.qls ++ [0]) ++ P.q4) ++ ps1.flatten) ++ rc ++ (ps2.flatten ++ P.N.flatten ++ P.R.flatten) := by
      rw [hb]; simp
    obtain ⟨e1, e2⟩ := split_unique hb' (by rw [hprel]; simp only [List.length_append, P.hh, hQl]; omega)
    have hAl : P.A.length = ps1.length + ps2.length + 1 := by rw [hsplit]; simp; omega
    have hAf := mid_flatten ps1 ps2 rc
    have hAf' := mid_flatten ps1 ps2 rc'
    rw [← hsplit] at hAf
    refine ⟨⟨P.hdr, P.q4, P.qls, ps1 ++ rc' :: ps2, P.N, P.R, P.o2, P.o3, P.o4, P.hh, P.hqd, P.hgq, P.hq4, P.hcl, hps, P.hN, P.hR,
      by rw [P.hca, hAl]; simp; omega, P.hcn, P.hcr, ?_, ?_, by rw [hq, P.oq], ?_, ?_, ?_, hmc⟩, rfl, ?_, rfl, rfl, rfl⟩
    · intro h
      have := P.hqr h
      rw [hsplit] at this
      simp at this
    · rw [hpk, e1, e2]; simp
    · rw [ha, P.oa]
      have h1 : P.A.length > 0 := by omega
      have h2 : (ps1 ++ rc' :: ps2).length > 0 := by simp; omega
      rw [if_pos h1, if_pos h2]
    · rw [hn, P.on, if_pos rfl]
      by_cases hN : P.N.length > 0
      · rw [if_pos hN, if_pos hN, Option.map_some]; congr 1; omega
      · rw [if_neg hN, if_neg hN]; rfl
    · rw [hr, P.oR, if_neg (by decide)]
      by_cases hR : P.R.length > 0
      · rw [if_pos hR, if_pos hR, Option.map_some]; congr 1; omega
      · rw [if_neg hR, if_neg hR]; rfl
    · intro s hs'
      cases s <;> simp_all [PlainObj.lst]
  | nameServers =>
    simp only [PlainObj.lst, PlainObj.start, PlainObj.fin, PlainObj.fout] at hsplit hprel hps
    have hb := P.bytes
    rw [hpre, hsplit] at hb
    have hb' : pre ++ rc ++ post = (P.hdr ++ ((encLabels P.qls ++ [0]) ++ P.q4) ++ P.A.flatten ++ ps1.flatten) ++ rc ++ (ps2.flatten ++ P.R.flatten) := by
      rw [hb]; simp
    obtain ⟨e1, e2⟩ := split_unique hb' (by rw [hprel]; simp only [List.length_append, P.hh, hQl]; omega)
    have hNl : P.N.length = ps1.length + ps2.length + 1 := by rw [hsplit]; simp; omega
    have hNf := mid_flatten ps1 ps2 rc
    have hNf' := mid_flatten ps1 ps2 rc'
    rw [← hsplit] at hNf
    refine ⟨⟨P.hdr, P.q4, P.qls, P.A, ps1 ++ rc' :: ps2, P.R, P.o2, P.o3, P.o4, P.hh, P.hqd, P.hgq, P.hq4, P.hcl, P.hA, hps, P.hR,
      P.hca, by rw [P.hcn, hNl]; simp; omega, P.hcr, ?_, ?_, by rw [hq, P.oq], by rw [ha, P.oa], ?_, ?_, hmc⟩, rfl, ?_, rfl, rfl, rfl⟩
    · intro h
      have := P.hqr h
      rw [hsplit] at this
      simp at this
    · rw [hpk, e1, e2]; simp
    · rw [hn, P.on, if_neg (by decide)]
      have h1 : P.N.length > 0 := by omega
      have h2 : (ps1 ++ rc' :: ps2).length > 0 := by simp; omega
      rw [if_pos h1, if_pos h2]
    · rw [hr, P.oR, if_neg (by decide)]
      by_cases hR : P.R.length > 0
      · rw [if_pos hR, if_pos hR, Option.map_some]; congr 1; omega
      · rw [if_neg hR, if_neg hR]; rfl
    · intro s hs'
      cases s <;> simp_all [PlainObj.lst]
  | additional =>
    simp only [PlainObj.lst, PlainObj.start, PlainObj.fin, PlainObj.fout] at hsplit hprel hps
    have hb := P.bytes
    rw [hpre, hsplit] at hb
    have hb' : pre ++ rc ++ post = (P.hdr ++ ((encLabels P.qls ++ [0]) ++ P.q4) ++ P.A.flatten ++ P.N.flatten ++ ps1.flatten) ++ rc ++ ps2.flatten := by
      rw [hb]; simp
    obtain ⟨e1, e2⟩ := split_unique hb' (by rw [hprel]; simp only [List.length_append, P.hh, hQl]; omega)
    have hRl : P.R.length = ps1.length + ps2.length + 1 := by rw [hsplit]; simp; omega
    refine ⟨⟨P.hdr, P.q4, P.qls, P.A, P.N, ps1 ++ rc' :: ps2, P.o2, P.o3, P.o4, P.hh, P.hqd, P.hgq, P.hq4, P.hcl, P.hA, P.hN, hps,
      P.hca, P.hcn, by rw [P.hcr, hRl]; simp; omega, P.hqr, ?_, by rw [hq, P.oq], by rw [ha, P.oa], by rw [hn, P.on, if_neg (by decide)], ?_, hmc⟩,
      rfl, ?_, rfl, rfl, rfl⟩
    · rw [hpk, e1, e2]; simp
    · rw [hr, P.oR, if_pos rfl]
      have h1 : P.R.length > 0 := by omega
      have h2 : (ps1 ++ rc' :: ps2).length > 0 := by simp; omega
      rw [if_pos h1, if_pos h2]
    · intro s hs'
      cases s <;> simp_all [PlainObj.lst]
  | question => simp [Section.isRec] at hs
  | edns => simp [Section.isRec] at hs

end Dns
