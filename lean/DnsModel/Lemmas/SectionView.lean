/-
  Lemmas.SectionView — the three record sections of a plain object seen uniformly: where the i-th
  record lies, what the iterators read, and `delete` through a cursor on it.
-/
import DnsModel.Lemmas.DeleteRec
namespace Dns
open Res

/-- the record sections -/
def Section.isRec : Section → Bool
  | .answer | .nameServers | .additional => true
  | _ => false

def PlainObj.lst {pp : PP} (P : PlainObj pp) : Section → List Bytes
  | .answer => P.A
  | .nameServers => P.N
  | .additional => P.R
  | _ => []

def PlainObj.start {pp : PP} (P : PlainObj pp) : Section → Nat
  | .answer => 12 + labSum P.qls + 1 + 4
  | .nameServers => 12 + labSum P.qls + 1 + 4 + P.A.flatten.length
  | .additional => 12 + labSum P.qls + 1 + 4 + P.A.flatten.length + P.N.flatten.length
  | _ => 0

/-- a piece of a run lies in the packet as a record of the policy -/
theorem piece_placed_in {sec : Section} {ps1 ps2 : List Bytes} {rc : Bytes} {ob oe : Bool}
    (h : Pieces sec (ps1 ++ rc :: ps2) ob oe) (pre post : Bytes) :
    ∃ ne ob' oa', RRAtPos (pre ++ (ps1 ++ rc :: ps2).flatten ++ post) sec
      ⟨pre.length + ps1.flatten.length, ne, pre.length + ps1.flatten.length + rc.length⟩ ob' oa' := by
  obtain ⟨om, _, h2⟩ := Pieces.split h
  cases h2 with
  | @cons _ _ _ om' _ hp _ =>
    obtain ⟨p0, r0, hr, hc⟩ := hp
    obtain ⟨ne', hr', _, _⟩ := canon_placed hr hc (pre ++ ps1.flatten) (ps2.flatten ++ post)
    refine ⟨ne', om, om', ?_⟩
    have e : pre ++ (ps1 ++ rc :: ps2).flatten ++ post = pre ++ ps1.flatten ++ rc ++ (ps2.flatten ++ post) := by simp
    rw [e]
    simpa using hr'

theorem RRAtPos.pos_len {p : Bytes} {sec : Section} {r : RecPos} {ob oa : Bool} (h : RRAtPos p sec r ob oa) :
    r.off < r.ne ∧ r.ne + 10 ≤ r.next ∧ r.next ≤ p.length := by
  obtain ⟨⟨ls, hv⟩, h10, hnext, hfit, _⟩ := h
  have := hv.2.1.lt
  exact ⟨this, by omega, hfit⟩

/-- where the record `rc` of section `sec` lies -/
theorem PlainObj.rec_at {pp : PP} (P : PlainObj pp) (sec : Section) (hs : sec.isRec = true) {ps1 ps2 : List Bytes} {rc : Bytes}
    (hsplit : P.lst sec = ps1 ++ rc :: ps2) :
    ∃ ne ob oa, RRAtPos pp.packet sec ⟨P.start sec + ps1.flatten.length, ne, P.start sec + ps1.flatten.length + rc.length⟩ ob oa := by
  have hQl : ((encLabels P.qls ++ [0]) ++ P.q4).length = labSum P.qls + 1 + 4 := by
    simp only [List.length_append, P.hq4, encLabels_length, List.length_cons, List.length_nil]
  cases sec with
  | answer =>
    simp only [PlainObj.lst] at hsplit
    have hA := P.hA
    rw [hsplit] at hA
    obtain ⟨ne, ob, oa, hr⟩ := piece_placed_in hA (P.hdr ++ ((encLabels P.qls ++ [0]) ++ P.q4)) (P.N.flatten ++ P.R.flatten)
    refine ⟨ne, ob, oa, ?_⟩
    have e : pp.packet = P.hdr ++ ((encLabels P.qls ++ [0]) ++ P.q4) ++ (ps1 ++ rc :: ps2).flatten ++ (P.N.flatten ++ P.R.flatten) := by
      rw [P.bytes, hsplit]; simp
    have el : (P.hdr ++ ((encLabels P.qls ++ [0]) ++ P.q4)).length = 12 + labSum P.qls + 1 + 4 := by
      rw [List.length_append, P.hh, hQl]; omega
    rw [e]
    rw [el] at hr
    exact hr
  | nameServers =>
    simp only [PlainObj.lst] at hsplit
    have hN := P.hN
    rw [hsplit] at hN
    obtain ⟨ne, ob, oa, hr⟩ := piece_placed_in hN (P.hdr ++ ((encLabels P.qls ++ [0]) ++ P.q4) ++ P.A.flatten) P.R.flatten
    refine ⟨ne, ob, oa, ?_⟩
    have e : pp.packet = P.hdr ++ ((encLabels P.qls ++ [0]) ++ P.q4) ++ P.A.flatten ++ (ps1 ++ rc :: ps2).flatten ++ P.R.flatten := by
      rw [P.bytes, hsplit]
    have el : (P.hdr ++ ((encLabels P.qls ++ [0]) ++ P.q4) ++ P.A.flatten).length = 12 + labSum P.qls + 1 + 4 + P.A.flatten.length := by
      rw [List.length_append, List.length_append, P.hh, hQl]; omega
    rw [e]
    rw [el] at hr
    exact hr
  | additional =>
    simp only [PlainObj.lst] at hsplit
    have hR := P.hR
    rw [hsplit] at hR
    obtain ⟨ne, ob, oa, hr⟩ := piece_placed_in hR (P.hdr ++ ((encLabels P.qls ++ [0]) ++ P.q4) ++ P.A.flatten ++ P.N.flatten) []
    refine ⟨ne, ob, oa, ?_⟩
    have e : pp.packet = P.hdr ++ ((encLabels P.qls ++ [0]) ++ P.q4) ++ P.A.flatten ++ P.N.flatten ++ (ps1 ++ rc :: ps2).flatten ++ [] := by
      rw [P.bytes, hsplit]; simp
    have el : (P.hdr ++ ((encLabels P.qls ++ [0]) ++ P.q4) ++ P.A.flatten ++ P.N.flatten).length =
        12 + labSum P.qls + 1 + 4 + P.A.flatten.length + P.N.flatten.length := by
      rw [List.length_append, List.length_append, List.length_append, P.hh, hQl]; omega
    rw [e]
    rw [el] at hr
    exact hr
  | question => simp [Section.isRec] at hs
  | edns => simp [Section.isRec] at hs

/-- the packet around section `sec` -/
theorem PlainObj.split_bytes {pp : PP} (P : PlainObj pp) (sec : Section) (hs : sec.isRec = true) :
    ∃ pre post, pp.packet = pre ++ (P.lst sec).flatten ++ post ∧ pre.length = P.start sec := by
  have hQl : ((encLabels P.qls ++ [0]) ++ P.q4).length = labSum P.qls + 1 + 4 := by
    simp only [List.length_append, P.hq4, encLabels_length, List.length_cons, List.length_nil]
  cases sec with
  | answer =>
    refine ⟨P.hdr ++ ((encLabels P.qls ++ [0]) ++ P.q4), P.N.flatten ++ P.R.flatten, ?_, ?_⟩
    · rw [P.bytes]; simp [PlainObj.lst]
    · rw [List.length_append, P.hh, hQl]; simp [PlainObj.start]; omega
  | nameServers =>
    refine ⟨P.hdr ++ ((encLabels P.qls ++ [0]) ++ P.q4) ++ P.A.flatten, P.R.flatten, ?_, ?_⟩
    · rw [P.bytes]; simp [PlainObj.lst]
    · rw [List.length_append, List.length_append, P.hh, hQl]; simp [PlainObj.start]; omega
  | additional =>
    refine ⟨P.hdr ++ ((encLabels P.qls ++ [0]) ++ P.q4) ++ P.A.flatten ++ P.N.flatten, [], ?_, ?_⟩
    · rw [P.bytes]; simp [PlainObj.lst]
    · rw [List.length_append, List.length_append, List.length_append, P.hh, hQl]; simp [PlainObj.start]; omega
  | question => simp [Section.isRec] at hs
  | edns => simp [Section.isRec] at hs

/-- the bytes under a cursor standing on the record `rc` -/
theorem PlainObj.window {pp : PP} (P : PlainObj pp) (sec : Section) (hs : sec.isRec = true) {ps1 ps2 : List Bytes} {rc : Bytes}
    (hsplit : P.lst sec = ps1 ++ rc :: ps2) :
    (pp.packet.drop (P.start sec + ps1.flatten.length)).take rc.length = rc := by
  obtain ⟨pre, post, hb, hl⟩ := P.split_bytes sec hs
  rw [hsplit] at hb
  have e : pp.packet = (pre ++ ps1.flatten) ++ rc ++ (ps2.flatten ++ post) := by rw [hb]; simp
  have := window_eq e
  rw [List.length_append, hl] at this
  exact this

/-! ### the section accessor, numerically -/

theorem currentSection_additional (pp : PP) (c : Cursor) (off x : Nat) (hoff : c.offset = some off)
    (hq : pp.offsetQuestion = some 12) (h12 : 12 ≤ off) (hr : pp.offsetAdditional = some x) (hx : x ≤ off) :
    c.currentSection pp = .ok .additional := by
  unfold Cursor.currentSection
  have a1 : ¬ (off < 12) := by omega
  have a2 : ¬ (off < x) := by omega
  simp [hoff, hq, hr, optLt, optGe, a1, a2]

theorem currentSection_nameServers (pp : PP) (c : Cursor) (off n : Nat) (hoff : c.offset = some off)
    (hq : pp.offsetQuestion = some 12) (h12 : 12 ≤ off) (hn : pp.offsetNameservers = some n) (hno : n ≤ off)
    (hr : ∀ x, pp.offsetAdditional = some x → off < x) :
    c.currentSection pp = .ok .nameServers := by
  unfold Cursor.currentSection
  have a1 : ¬ (off < 12) := by omega
  have a2 : ¬ (off < n) := by omega
  cases hR : pp.offsetAdditional with
  | none => simp [hoff, hq, hn, hR, optLt, optGe, a1, a2]
  | some x =>
    have := hr x hR
    simp [hoff, hq, hn, hR, optLt, optGe, a1, a2, this]

theorem currentSection_answer (pp : PP) (c : Cursor) (off a : Nat) (hoff : c.offset = some off)
    (hq : pp.offsetQuestion = some 12) (h12 : 12 ≤ off) (ha : pp.offsetAnswers = some a) (hao : a ≤ off)
    (hn : ∀ n, pp.offsetNameservers = some n → off < n) (hr : ∀ x, pp.offsetAdditional = some x → off < x) :
    c.currentSection pp = .ok .answer := by
  unfold Cursor.currentSection
  have a1 : ¬ (off < 12) := by omega
  have a2 : ¬ (off < a) := by omega
  cases hR : pp.offsetAdditional with
  | none =>
    cases hN : pp.offsetNameservers with
    | none => simp [hoff, hq, ha, hN, hR, optLt, optGe, a1, a2]
    | some n => have := hn n hN; simp [hoff, hq, ha, hN, hR, optLt, optGe, a1, a2, this]
  | some x =>
    have hx := hr x hR
    cases hN : pp.offsetNameservers with
    | none => simp [hoff, hq, ha, hN, hR, optLt, optGe, a1, a2, hx]
    | some n => have := hn n hN; simp [hoff, hq, ha, hN, hR, optLt, optGe, a1, a2, this, hx]

/-- a cursor standing on a record of section `sec` of a plain object reports `sec` -/
theorem PlainObj.currentSection_at {pp : PP} (P : PlainObj pp) (sec : Section) (hs : sec.isRec = true) {ps1 ps2 : List Bytes} {rc : Bytes}
    (hsplit : P.lst sec = ps1 ++ rc :: ps2) (hrc : 0 < rc.length) (c : Cursor)
    (hoff : c.offset = some (P.start sec + ps1.flatten.length)) : c.currentSection pp = .ok sec := by
  have hfl : (P.lst sec).flatten.length = ps1.flatten.length + rc.length + ps2.flatten.length := by
    rw [hsplit]; simp; omega
  have hpos : (P.lst sec).length > 0 := by rw [hsplit]; simp; omega
  cases sec with
  | answer =>
    simp only [PlainObj.lst, PlainObj.start] at hfl hpos hoff
    refine currentSection_answer pp c _ _ hoff P.oq (by omega) (by rw [P.oa, if_pos hpos]) (by omega) ?_ ?_
    · intro n hn
      rw [P.on] at hn
      split at hn
      · simp only [Option.some.injEq] at hn; omega
      · simp at hn
    · intro x hx
      rw [P.oR] at hx
      split at hx
      · simp only [Option.some.injEq] at hx; omega
      · simp at hx
  | nameServers =>
    simp only [PlainObj.lst, PlainObj.start] at hfl hpos hoff
    refine currentSection_nameServers pp c _ _ hoff P.oq (by omega) (by rw [P.on, if_pos hpos]) (by omega) ?_
    intro x hx
    rw [P.oR] at hx
    split at hx
    · simp only [Option.some.injEq] at hx; omega
    · simp at hx
  | additional =>
    simp only [PlainObj.lst, PlainObj.start] at hfl hpos hoff
    exact currentSection_additional pp c _ _ hoff P.oq (by omega) (by rw [P.oR, if_pos hpos]) (by omega)
  | question => simp [Section.isRec] at hs
  | edns => simp [Section.isRec] at hs

/-- what the iterators read for section `sec` -/
theorem PlainObj.secInfo {pp : PP} (P : PlainObj pp) (sec : Section) (hs : sec.isRec = true) :
    Dns.secInfo pp sec = .ok ((P.lst sec).length, if (P.lst sec).length > 0 then some (P.start sec) else none) := by
  have hl := P.len
  have hpk : pp.packet = P.hdr ++ (((encLabels P.qls ++ [0]) ++ P.q4) ++ P.A.flatten ++ P.N.flatten ++ P.R.flatten) := by
    rw [P.bytes]; simp
  cases sec with
  | answer =>
    simp only [Dns.secInfo, PlainObj.lst, PlainObj.start, ancount]
    rw [be16_of_le' (by omega), hpk, get16_append_left (by rw [P.hh]; omega), P.hca, P.oa]
    rfl
  | nameServers =>
    simp only [Dns.secInfo, PlainObj.lst, PlainObj.start, nscount]
    rw [be16_of_le' (by omega), hpk, get16_append_left (by rw [P.hh]; omega), P.hcn, P.on]
    rfl
  | additional =>
    simp only [Dns.secInfo, PlainObj.lst, PlainObj.start, arcount]
    rw [be16_of_le' (by omega), hpk, get16_append_left (by rw [P.hh]; omega), P.hcr, P.oR]
    rfl
  | question => simp [Section.isRec] at hs
  | edns => simp [Section.isRec] at hs

/-- **`delete` through a cursor standing on the record `rc` of section `sec`**: that record goes, the
other sections, the question and the rest of the header stay; the cursor is left void -/
theorem PlainObj.delete_at {pp : PP} (P : PlainObj pp) (sec : Section) (hs : sec.isRec = true) {ps1 ps2 : List Bytes} {rc : Bytes}
    (hsplit : P.lst sec = ps1 ++ rc :: ps2) (c : Cursor) {ne : Nat} {ob oa : Bool}
    (hr : RRAtPos pp.packet sec ⟨P.start sec + ps1.flatten.length, ne, P.start sec + ps1.flatten.length + rc.length⟩ ob oa)
    (hoff : c.offset = some (P.start sec + ps1.flatten.length))
    (hnext : c.offsetNext = P.start sec + ps1.flatten.length + rc.length) (hne : c.nameEnd = ne) :
    ∃ (pp' : PP) (P' : PlainObj pp'),
      deleteRR pp c = .ok { pp := pp', cur := { c with offsetNext := P.start sec + ps1.flatten.length, offset := none }, result := none } ∧
      P'.lst sec = ps1 ++ ps2 ∧ (∀ s, s ≠ sec → P'.lst s = P.lst s) ∧ P'.qls = P.qls ∧ P'.q4 = P.q4 ∧
      (∀ k, (k + 1 < sectionCountOffset sec ∨ sectionCountOffset sec + 1 < k) → get16 P'.hdr k = get16 P.hdr k) ∧
      (get16 pp.packet ne ≠ 41 → pp'.ednsCount = pp.ednsCount ∧ pp'.extRcode = pp.extRcode ∧ pp'.ednsVersion = pp.ednsVersion ∧
        pp'.extFlags = pp.extFlags ∧ pp'.maxPayload = pp.maxPayload ∧
        pp'.offsetEdns = (if optLt c.offset pp.offsetEdns then pp.offsetEdns.map (fun x => shiftNat x (-(Int.ofNat rc.length))) else pp.offsetEdns)) ∧
      (get16 pp.packet ne = 41 → pp'.ednsCount = 0 ∧ pp'.extRcode = none ∧ pp'.ednsVersion = none ∧
        pp'.extFlags = none ∧ pp'.maxPayload = 512 ∧ pp'.offsetEdns = none) ∧ pp'.cached = none := by
  obtain ⟨h1, h2, h3⟩ := hr.pos_len
  simp only at h1 h2 h3
  have hrc : 0 < rc.length := by omega
  cases sec with
  | answer =>
    simp only [PlainObj.lst, PlainObj.start] at hsplit hoff hnext hr ⊢
    obtain ⟨pp', P', hrun, e1, e2, e3, e4, e5, e6, g1, g2, g3, g4, g5, g6, g7⟩ := delete_answer P ps1 ps2 rc hsplit hrc c hoff hnext
    have h41 : get16 pp.packet ne ≠ 41 := by
      intro h
      have := hr.2.2.2.2
      simp only [h, if_true] at this
      exact absurd this.1 (by decide)
    refine ⟨pp', P', hrun, e1, ?_, e4, e5, e6, fun _ => ⟨g1, g2, g3, g4, g5, g6⟩, fun h => absurd h h41, g7⟩
    intro s hs'
    cases s <;> simp_all [PlainObj.lst]
  | nameServers =>
    simp only [PlainObj.lst, PlainObj.start] at hsplit hoff hnext hr ⊢
    obtain ⟨pp', P', hrun, e1, e2, e3, e4, e5, e6, g1, g2, g3, g4, g5, g6, g7⟩ := delete_authority P ps1 ps2 rc hsplit hrc c hoff hnext
    have h41 : get16 pp.packet ne ≠ 41 := by
      intro h
      have := hr.2.2.2.2
      simp only [h, if_true] at this
      exact absurd this.1 (by decide)
    refine ⟨pp', P', hrun, e2, ?_, e4, e5, e6, fun _ => ⟨g1, g2, g3, g4, g5, g6⟩, fun h => absurd h h41, g7⟩
    intro s hs'
    cases s <;> simp_all [PlainObj.lst]
  | additional =>
    simp only [PlainObj.lst, PlainObj.start] at hsplit hoff hnext hr ⊢
    have hty : c.rrType pp.packet = .ok (get16 pp.packet ne) := by
      rw [← hne]
      exact rrType_at hoff (by rw [hne]; omega)
    obtain ⟨pp', P', hrun, e1, e2, e3, e4, e5, e6, g1, g2, g3, g4, g5, g6, g7⟩ :=
      delete_additional P ps1 ps2 rc hsplit hrc c _ hty hoff hnext
    refine ⟨pp', P', hrun, e3, ?_, e4, e5, e6, ?_, ?_, g7⟩
    · intro s hs'
      cases s <;> simp_all [PlainObj.lst]
    · intro h41
      have : (get16 pp.packet ne == TYPE_OPT) = false := by simp [TYPE_OPT, h41]
      simp only [this, Bool.false_eq_true, if_false] at g1 g2 g3 g4 g5 g6
      exact ⟨g1, g2, g3, g4, g5, g6⟩
    · intro h41
      have : (get16 pp.packet ne == TYPE_OPT) = true := by simp [TYPE_OPT, h41]
      simp only [this, if_true] at g1 g2 g3 g4 g5 g6
      exact ⟨g1, g2, g3, g4, g5, g6⟩
  | question => simp [Section.isRec] at hs
  | edns => simp [Section.isRec] at hs

/-- `delete` through a void cursor: reported, nothing touched -/
theorem delete_void (pp : PP) (c : Cursor) (h : c.offset = none) :
    deleteRR pp c = .ok { pp := pp, cur := c, result := some .voidRecord } := by
  unfold deleteRR
  simp [h]

theorem PlainObj.start_congr {pp pp' : PP} (P : PlainObj pp) (P' : PlainObj pp') (sec : Section) (hq : P'.qls = P.qls)
    (hl : ∀ s, s ≠ sec → P'.lst s = P.lst s) : P'.start sec = P.start sec := by
  cases sec with
  | answer => simp [PlainObj.start, hq]
  | nameServers =>
    have := hl .answer (by decide)
    simp only [PlainObj.lst] at this
    simp [PlainObj.start, hq, this]
  | additional =>
    have h1 := hl .answer (by decide)
    have h2 := hl .nameServers (by decide)
    simp only [PlainObj.lst] at h1 h2
    simp [PlainObj.start, hq, h1, h2]
  | question => rfl
  | edns => rfl

end Dns
