/-
  Lemmas.EdnsWalk — the walk over the EDNS options of an accepted packet, and the section a record
  cursor reports.
-/
import DnsModel.Lemmas.Edns
namespace Dns
open Res

/-- start and end of each of `n` consecutive options from `a` -/
def tilePairs (p : Bytes) : Nat → Nat → List (Nat × Nat)
  | _, 0 => []
  | a, n + 1 => (a, a + 4 + get16 p (a + 2)) :: tilePairs p (a + 4 + get16 p (a + 2)) n

theorem ednsSkipRrFast_eq {p : Bytes} {a : Nat} (h : a + 4 ≤ p.length) :
    ednsSkipRrFast p a = .ok (a + 4 + get16 p (a + 2)) := by
  unfold ednsSkipRrFast
  consts
  rw [(be16_ok_of_le (p := p) (i := a + 2) (by omega)).1]
  rfl

/-- the option walk from a live cursor standing before `n` options that tile `[a, b)` -/
theorem collect_edns_live {pp : PP} {a b n : Nat} (ht : OptionsTile pp.packet a b n) (hb : b ≤ pp.packet.length) :
    ∀ (c : Cursor) (o : Nat), c.offset = some o → c.offsetNext = a → c.rrsLeft = n →
      ∃ cs, collectWalk pp nextEdns (n + 1) c = .ok cs ∧
        cs.map (fun c => (c.offset, c.offsetNext)) = (tilePairs pp.packet a n).map (fun x => (some x.1, x.2)) := by
  induction ht with
  | done a =>
    intro c o ho hn hk
    refine ⟨[], ?_, rfl⟩
    unfold collectWalk nextEdns
    simp [ho, hk]
  | @opt a b n hfit _ ih =>
    intro c o ho hn hk
    have hstep : nextEdns pp c = .ok (some ⟨c.sec, some a, a + 4 + get16 pp.packet (a + 2), a, n⟩) := by
      unfold nextEdns
      simp [ho, hk, hn, ednsSkipRrFast_eq (p := pp.packet) (a := a) (by omega)]
    unfold collectWalk
    rw [hstep]
    simp only
    obtain ⟨cs, h1, h2⟩ := ih hb ⟨c.sec, some a, a + 4 + get16 pp.packet (a + 2), a, n⟩ a rfl rfl rfl
    refine ⟨_ :: cs, by rw [h1]; rfl, ?_⟩
    simp [tilePairs, h2]

/-- **the option walk of an object** whose summary says: `n` options starting at `a` -/
theorem walk_edns {pp : PP} {a b n : Nat} (ht : OptionsTile pp.packet a b n) (hb : b ≤ pp.packet.length)
    (hc : pp.ednsCount = n) (hs : pp.offsetEdns = some a) :
    ∃ cs, collectWalk pp nextEdns (n + 1) (Cursor.new .edns) = .ok cs ∧
      cs.map (fun c => (c.offset, c.offsetNext)) = (tilePairs pp.packet a n).map (fun x => (some x.1, x.2)) := by
  by_cases hz : n = 0
  · subst hz
    refine ⟨[], ?_, rfl⟩
    unfold collectWalk nextEdns
    simp [Cursor.new, hc]
  · have hfresh : nextEdns pp (Cursor.new .edns) = nextEdns pp ⟨.edns, some 0, a, 0, n⟩ := by
      unfold nextEdns
      have : (n == 0) = false := by simp [hz]
      simp [Cursor.new, hc, hs, unwrap, this]
    rw [collect_first_step nextEdns _ _ _ hfresh]
    exact collect_edns_live ht hb ⟨.edns, some 0, a, 0, n⟩ 0 rfl rfl rfl

/-- no OPT: the option walk is empty -/
theorem walk_edns_none {pp : PP} (hc : pp.ednsCount = 0) :
    collectWalk pp nextEdns 1 (Cursor.new .edns) = .ok [] := by
  unfold collectWalk nextEdns
  simp [Cursor.new, hc]

/-- records of a run lie inside it -/
theorem RRsL.bounds {p : Bytes} {sec : Section} {l : List RecPos} {off e : Nat} {ob oe : Bool}
    (h : RRsL p sec l off ob e oe) : off ≤ e ∧ ∀ r ∈ l, off ≤ r.off ∧ r.off < e := by
  induction h with
  | nil => exact ⟨Nat.le_refl _, by intro r hr; simp at hr⟩
  | @cons r l e ob om oe hr _ ih =>
    obtain ⟨⟨ls, hv⟩, _, hnext, _, _⟩ := hr
    have := hv.2.1.lt
    refine ⟨by omega, ?_⟩
    intro r' hr'
    simp at hr'
    rcases hr' with rfl | hr'
    · omega
    · have := ih.2 r' hr'
      omega

/-- every member of a run is a record of the policy -/
theorem RRsL.mem_pos {p : Bytes} {sec : Section} {l : List RecPos} {off e : Nat} {ob oe : Bool}
    (h : RRsL p sec l off ob e oe) : ∀ r ∈ l, ∃ ob' oa', RRAtPos p sec r ob' oa' := by
  induction h with
  | nil => intro r hr; simp at hr
  | cons hr _ ih =>
    intro r' hr'
    simp at hr'
    rcases hr' with rfl | hr'
    · exact ⟨_, _, hr⟩
    · exact ih r' hr'

end Dns
