/-
  Lemmas.Decode — the trusted name readers compute, on a name the validator accepts, exactly the
  labels the declarative relation assigns to it (hub lemma H1' of DESIGN.md):
  `copy_uncompressed_name` yields the pointer-free encoding of the labels and the end of the name
  as written; `raw_name_len_after_decompression` its length; `RRIterator::skip_name` its end.
-/
import DnsModel.Lemmas.Emit
import DnsModel.Iter
namespace Dns
open Res

theorem slice_ok {p : Bytes} {a b : Nat} (h : a ≤ b ∧ b ≤ p.length) : slice p a b = .ok ((p.drop a).take (b - a)) := by
  simp [slice, h]

theorem list_drop_eq_cons {p : Bytes} {i b : Nat} (h : byteAt p i = some b) :
    p.drop i = UInt8.ofNat b :: p.drop (i + 1) := by
  unfold byteAt at h
  cases hp : p[i]? with
  | none => simp [hp] at h
  | some x =>
    simp [hp] at h
    have hi := (List.getElem?_eq_some_iff.1 hp).1
    rw [List.drop_eq_getElem_cons hi]
    have hx : p[i] = x := by
      have := List.getElem?_eq_getElem hi
      rw [this] at hp; simpa using hp
    rw [hx, ← h]
    simp

/-- the bytes of one label as `copy_uncompressed_name` copies them: length byte, then the label -/
theorem slice_label {p : Bytes} {off len : Nat} (hb : byteAt p off = some len) (hfit : off + len + 1 ≤ p.length) :
    slice p off (off + 1 + len) = .ok (UInt8.ofNat len :: lab p off len) := by
  rw [slice_ok ⟨by omega, by omega⟩, list_drop_eq_cons hb]
  have : off + 1 + len - off = len + 1 := by omega
  rw [this]
  simp [lab, List.take_succ_cons]

theorem ptr_mask_eq (hi lo : Nat) (h1 : hi < 256) (h2 : lo < 256) : (hi * 256 + lo) &&& 0x3fff = ptrTarget hi lo := by
  have e : (hi * 256 + lo) &&& 0x3fff = (hi * 256 + lo) % 2 ^ 14 := Nat.and_two_pow_sub_one_eq_mod _ 14
  rw [e]; unfold ptrTarget; omega

theorem be16_of_bytes {p : Bytes} {i a b : Nat} (ha : byteAt p i = some a) (hb : byteAt p (i + 1) = some b) :
    be16 p i = .ok (a * 256 + b) := by
  simp [be16, idx_of_byteAt ha, idx_of_byteAt hb]

theorem isPtr_false_of_le {b : Nat} (h : b ≤ 63) : isPtr b = false := by
  cases hp : isPtr b with
  | false => rfl
  | true => have := (isPtr_iff' b (by omega)).1 hp; omega

/-- copying a run of labels -/
theorem copyLoop_labels {p : Bytes} {bar off stop : Nat} {ls : List (List UInt8)} (hl : Labels p bar off ls stop) :
    ∀ (fuel : Nat) (acc : Bytes) (final : Option Nat), fuel ≥ ls.length →
      copyUncompressedNameLoop p fuel off acc final =
        copyUncompressedNameLoop p (fuel - ls.length) stop (acc ++ encLabels ls) final := by
  induction hl with
  | nil off => intro fuel acc final _; simp [encLabels]
  | @cons off len rest stop h1 h2 h3 h4 h5 _ ih =>
    intro fuel acc final hf
    simp only [List.length_cons] at hf
    cases fuel with
    | zero => omega
    | succ n =>
      have hnz : (len == 0) = false := by simp; omega
      have step : copyUncompressedNameLoop p (n + 1) off acc final =
          copyUncompressedNameLoop p n (off + len + 1) (acc ++ (UInt8.ofNat len :: lab p off len)) final := by
        conv => lhs; unfold copyUncompressedNameLoop
        simp only [idx_of_byteAt h2, bind_ok, isPtr_false_of_le h4, Bool.false_eq_true, if_false,
          slice_label h2 h5, hnz]
        have : off + 1 + len = off + len + 1 := by omega
        rw [this]
      rw [step, ih n _ final (by omega)]
      have e : (encLabels (lab p off len :: rest)) = UInt8.ofNat (lab p off len).length :: (lab p off len ++ encLabels rest) := rfl
      rw [e, lab_length h5]
      have e2 : n + 1 - (lab p off len :: rest).length = n - rest.length := by simp
      rw [e2]
      simp [List.append_assoc]

theorem encLabels_append (a b : List (List UInt8)) : encLabels (a ++ b) = encLabels a ++ encLabels b := by
  induction a with
  | nil => rfl
  | cons l t ih => simp [encLabels, ih]

theorem length_lt_wireLen (ls : List (List UInt8)) : ls.length + 1 ≤ wireLen ls := by
  induction ls with
  | nil => simp [wireLen]
  | cons l t ih => rw [wireLen_cons]; simp; omega

/-- **`copy_uncompressed_name` on a valid name** -/
theorem copyLoop_nameAt {p : Bytes} {bar low off refs e : Nat} {ls : List (List UInt8)}
    (hn : NameAt p bar low off refs ls e) :
    ∀ (fuel : Nat) (acc : Bytes) (final : Option Nat), low ≤ off → fuel > refs + ls.length →
      copyUncompressedNameLoop p fuel off acc final = .ok (acc ++ encLabels ls ++ [0], final.getD e) := by
  induction hn with
  | @root bar low off refs ls stop hl hs hb =>
    intro fuel acc final _ hf
    rw [copyLoop_labels hl fuel acc final (by omega)]
    have : fuel - ls.length = (fuel - ls.length - 1) + 1 := by omega
    rw [this]
    unfold copyUncompressedNameLoop
    have hstop := byteAt_lt_length hb
    have hs0 : slice p stop (stop + 1 + 0) = .ok [0] := by
      have := slice_label (p := p) (off := stop) (len := 0) hb (by omega)
      simpa [lab] using this
    simp [idx_of_byteAt hb, isPtr, hs0]
  | @ptr bar low off refs ls ls' stop hi lo e' hl hs hb hhi hlob ht hnz hr hn ih =>
    intro fuel acc final hlow hf
    simp only [List.length_append] at hf
    rw [copyLoop_labels hl fuel acc final (by omega)]
    have : fuel - ls.length = (fuel - ls.length - 1) + 1 := by omega
    rw [this]
    unfold copyUncompressedNameLoop
    have hhilt := byteAt_lt hb
    have hlolt := byteAt_lt hlob
    have hle := hl.le
    have hp : isPtr hi = true := (isPtr_iff' hi hhilt).2 hhi
    have hassert : (ptrTarget hi lo < stop) = True := by simp; omega
    simp only [idx_of_byteAt hb, bind_ok, hp, if_true, be16_of_bytes hb hlob, ptr_mask_eq hi lo hhilt hlolt,
      assert, hassert, decide_true]
    rw [ih (fuel - ls.length - 1) (acc ++ encLabels ls) (final.or (some (stop + 2))) (Nat.le_refl _) (by omega)]
    cases final <;> simp [encLabels_append, List.append_assoc]

/-- on a name the validator accepts, `copy_uncompressed_name` returns the pointer-free encoding of its
labels and the position after the name as written -/
theorem copyUncompressedName_valid {p : Bytes} {off e : Nat} {ls : List (List UInt8)} (h : ValidName p off ls e) :
    copyUncompressedName p off = .ok (encLabels ls ++ [0], e) := by
  obtain ⟨_, hn, hw, _⟩ := h
  unfold copyUncompressedName
  have hlen := length_lt_wireLen ls
  have := copyLoop_nameAt hn nameFuel [] none (Nat.le_refl _) (by
    have : nameFuel = 273 := rfl
    omega)
  simpa using this

end Dns

namespace Dns
open Res

theorem Labels.length_le {p : Bytes} {bar off stop : Nat} {ls : List (List UInt8)} (h : Labels p bar off ls stop) :
    off + ls.length ≤ stop := by
  induction h with
  | nil => simp
  | cons _ _ h3 _ _ _ ih => simp; omega

/-- `RRIterator::skip_name` over a run of labels that does not touch the end of the packet -/
theorem skipFast_labels {p : Bytes} {bar off stop : Nat} {ls : List (List UInt8)} (hl : Labels p bar off ls stop)
    (hend : stop < p.length) :
    ∀ fuel, fuel ≥ ls.length → skipNameFast p fuel off = skipNameFast p (fuel - ls.length) stop := by
  induction hl with
  | nil off => intro fuel _; simp
  | @cons off len rest stop h1 h2 h3 h4 h5 hrest ih =>
    intro fuel hf
    simp only [List.length_cons] at hf
    cases fuel with
    | zero => omega
    | succ n =>
      have hle := hrest.le
      conv => lhs; unfold skipNameFast
      have hnz : (len == 0) = false := by simp; omega
      have c1 : off ≤ p.length := by omega
      have c2 : 1 ≤ p.length - off := by omega
      have c3 : decide (len < p.length - off - 1) = true := by simp; omega
      simp only [idx_of_byteAt h2, bind_ok, isPtr_false_of_le h4, Bool.false_eq_true, if_false, sub, c1, c2,
        if_true, assert, c3, hnz]
      rw [ih hend n (by omega)]
      simp

/-- on a valid name followed by at least one more byte, `skip_name` returns the end of the name as written -/
theorem skipName_valid {p : Bytes} {bar low off refs e : Nat} {ls : List (List UInt8)}
    (hn : NameAt p bar low off refs ls e) (he : e < p.length) : skipName p off = .ok e := by
  unfold skipName
  cases hn with
  | @root _ _ _ _ ls stop hl hs hb =>
    have hlen := hl.length_le
    rw [skipFast_labels hl (by omega) (p.length + 1) (by omega)]
    have : p.length + 1 - ls.length = (p.length - ls.length) + 1 := by omega
    rw [this]
    unfold skipNameFast
    have c1 : stop ≤ p.length := by omega
    have c2 : 1 ≤ p.length - stop := by omega
    have c3 : 0 < p.length - stop - 1 := by omega
    simp [idx_of_byteAt hb, isPtr, sub, c1, c2, assert, c3]
  | @ptr _ _ _ _ ls ls' stop hi lo e' hl hs hb hhi hlob ht hnz hr hn' =>
    have hlen := hl.length_le
    rw [skipFast_labels hl (by omega) (p.length + 1) (by omega)]
    have : p.length + 1 - ls.length = (p.length - ls.length) + 1 := by omega
    rw [this]
    unfold skipNameFast
    have hp : isPtr hi = true := (isPtr_iff' hi (byteAt_lt hb)).2 hhi
    have c1 : stop ≤ p.length := by omega
    have c3 : 2 < p.length - stop := by omega
    simp [idx_of_byteAt hb, hp, sub, c1, assert, c3]

end Dns

namespace Dns
open Res

/-- dotted presentation of a list of labels appended to `res` (a literal dot inside a label is escaped) -/
def joinText (res : Bytes) (ls : List (List UInt8)) : Bytes :=
  ls.foldl (fun r l => (if r.isEmpty then r else r ++ [46]) ++ escapeLabel l) res

theorem slice_lab {p : Bytes} {off len : Nat} (hfit : off + len + 1 ≤ p.length) :
    slice p (off + 1) (off + 1 + len) = .ok (lab p off len) := by
  rw [slice_ok ⟨by omega, by omega⟩]
  have : off + 1 + len - (off + 1) = len := by omega
  rw [this]; rfl

theorem strLoop_labels {p : Bytes} {bar off stop : Nat} {ls : List (List UInt8)} (hl : Labels p bar off ls stop) :
    ∀ (fuel ind : Nat) (res : Bytes), fuel ≥ ls.length →
      rawNameToStrLoop p fuel off ind res = rawNameToStrLoop p (fuel - ls.length) stop ind (joinText res ls) := by
  induction hl with
  | nil off => intro fuel ind res _; simp [joinText]
  | @cons off len rest stop h1 h2 h3 h4 h5 _ ih =>
    intro fuel ind res hf
    simp only [List.length_cons] at hf
    cases fuel with
    | zero => omega
    | succ n =>
      have hnz : (len == 0) = false := by simp; omega
      have step : rawNameToStrLoop p (n + 1) off ind res =
          rawNameToStrLoop p n (off + len + 1) ind ((if res.isEmpty then res else res ++ [46]) ++ escapeLabel (lab p off len)) := by
        conv => lhs; unfold rawNameToStrLoop
        simp only [idx_of_byteAt h2, bind_ok, hnz, Bool.false_eq_true, if_false, isPtr_false_of_le h4, slice_lab h5]
        have : off + 1 + len = off + len + 1 := by omega
        rw [this]
      rw [step, ih n ind _ (by omega)]
      have e2 : n + 1 - (lab p off len :: rest).length = n - rest.length := by simp
      rw [e2]
      simp [joinText]

/-- **`raw_name_to_str` on a valid name** -/
theorem strLoop_nameAt {p : Bytes} {bar low off refs e : Nat} {ls : List (List UInt8)}
    (hn : NameAt p bar low off refs ls e) :
    ∀ (fuel ind : Nat) (res : Bytes), low ≤ off → refs + ind ≤ 16 → fuel > refs + ls.length →
      rawNameToStrLoop p fuel off ind res = .ok (joinText res ls) := by
  induction hn with
  | @root bar low off refs ls stop hl hs hb =>
    intro fuel ind res _ _ hf
    rw [strLoop_labels hl fuel ind res (by omega)]
    have : fuel - ls.length = (fuel - ls.length - 1) + 1 := by omega
    rw [this]
    unfold rawNameToStrLoop
    simp [idx_of_byteAt hb]
  | @ptr bar low off refs ls ls' stop hi lo e' hl hs hb hhi hlob ht hnz hr hn ih =>
    intro fuel ind res hlow hrefs hf
    simp only [List.length_append] at hf
    rw [strLoop_labels hl fuel ind res (by omega)]
    have : fuel - ls.length = (fuel - ls.length - 1) + 1 := by omega
    rw [this]
    unfold rawNameToStrLoop
    have hhilt := byteAt_lt hb
    have hlolt := byteAt_lt hlob
    have hle := hl.le
    have hp : isPtr hi = true := (isPtr_iff' hi hhilt).2 hhi
    have hnz0 : (hi == 0) = false := by simp; omega
    have c1 : (ptrTarget hi lo == stop) = false := by simp; omega
    have c2 : decide (ind > DNS_MAX_HOSTNAME_INDIRECTIONS) = false := by simp [DNS_MAX_HOSTNAME_INDIRECTIONS]; omega
    simp only [idx_of_byteAt hb, bind_ok, hnz0, Bool.false_eq_true, if_false, hp, if_true,
      be16_of_bytes hb hlob, ptr_mask_eq hi lo hhilt hlolt, c1, c2, Bool.or_self]
    rw [ih (fuel - ls.length - 1) (ind + 1) (joinText res ls) (Nat.le_refl _) (by omega) (by omega)]
    simp [joinText, List.foldl_append]

theorem rawNameToStr_valid {p : Bytes} {off e : Nat} {ls : List (List UInt8)} (h : ValidName p off ls e) :
    rawNameToStr p off = .ok (joinText [] ls) := by
  obtain ⟨_, hn, hw, _⟩ := h
  unfold rawNameToStr
  have hlen := length_lt_wireLen ls
  exact strLoop_nameAt hn (nameFuel + 20) 0 [] (Nat.le_refl _) (by omega) (by
    have : nameFuel = 273 := rfl
    omega)

/-- labels accepted by the validator contain no dot, so nothing is escaped -/
theorem escapeLabel_good {l : List UInt8} (h : goodChars l = true) : escapeLabel l = l := by
  unfold escapeLabel
  unfold goodChars at h
  induction l with
  | nil => rfl
  | cons c t ih =>
    simp only [List.any_cons, Bool.not_or, Bool.and_eq_true, Bool.not_eq_true'] at h
    have hc : (c == 46) = false := by
      cases hcc : (c == 46) with
      | false => rfl
      | true =>
        have hceq : c = 46 := by simpa using hcc
        have := h.1
        rw [hceq] at this
        revert this; decide
    have := ih (by simpa using h.2)
    simp only [List.flatMap_cons, hc, Bool.false_eq_true, if_false]
    rw [this]
    rfl

end Dns
