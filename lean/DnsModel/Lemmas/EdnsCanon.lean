/-
  Lemmas.EdnsCanon — records with the same canonical form carry the same EDNS summary (but for the
  position): decompression keeps option count, extended rcode, version, flags and payload size.
-/
import DnsModel.Lemmas.Assemble
import DnsModel.Theorems.C05
import DnsModel.Lemmas.CiTrans
namespace Dns
open Res

/-- the EDNS summary without the position -/
def EdnsInfo.core (i : EdnsInfo) : Nat × Option Nat × Option Nat × Option Nat × Nat :=
  (i.count, i.extRcode, i.version, i.flags, i.maxPayload)

theorem getB_of_agree {p u : Bytes} {a a' n : Nat} (h : Agree p u a a' n) {i : Nat} (hi : i < n) : getB u (a' + i) = getB p (a + i) := by
  unfold getB; rw [h.byteAt hi]

/-- two OPT records (of `p` and of `u`) with the same canonical form carry the same summary -/
theorem optInfo_of_same_canon {p u : Bytes} {r r' : RecPos} {sec sec' : Section} {ob oa ob' oa' : Bool} {rc : Bytes} {n n' : Nat}
    (hr : RRAtPos p sec r ob oa) (hr' : RRAtPos u sec' r' ob' oa') (hc : RecCanon p r rc) (hc' : RecCanon u r' rc)
    (h41 : get16 p r.ne = 41) (h41' : get16 u r'.ne = 41)
    (ht : OptionsTile p (r.ne + 10) (r.ne + 10 + get16 p (r.ne + 8)) n)
    (ht' : OptionsTile u (r'.ne + 10) (r'.ne + 10 + get16 u (r'.ne + 8)) n') :
    (optInfo u r'.ne n').core = (optInfo p r.ne n).core := by
  obtain ⟨o1, rd1, hv1, hrd1, hx1⟩ := hc
  obtain ⟨o2, rd2, hv2, hrd2, hx2⟩ := hc'
  obtain ⟨_, h10, hnext, hfit, _⟩ := hr
  obtain ⟨_, h10', hnext', hfit', _⟩ := hr'
  have hf8 : ((p.drop r.ne).take 8).length = 8 := length_take_drop (by omega)
  have hf8' : ((u.drop r'.ne).take 8).length = 8 := length_take_drop (by omega)
  obtain ⟨eo, ef, erd⟩ := canon_split (validName_ok hv1).1 (validName_ok hv2).1 hf8 hf8' (by rw [← hx1, ← hx2])
  subst eo; subst erd
  -- the fixed bytes agree
  have hag : Agree p u r.ne r'.ne 8 := by
    intro i hi
    have h1 : ((p.drop r.ne).take 8)[i]? = p[r.ne + i]? := by simp [List.getElem?_take, List.getElem?_drop, hi]
    have h2 : ((u.drop r'.ne).take 8)[i]? = u[r'.ne + i]? := by simp [List.getElem?_take, List.getElem?_drop, hi]
    rw [← h1, ← h2, ef]
  -- the data agree
  unfold RdCanon at hrd1 hrd2
  have c1 : ¬ ((41 : Nat) = 2 ∨ (41 : Nat) = 5 ∨ (41 : Nat) = 12) := by decide
  have c2 : ¬ ((41 : Nat) = 15) := by decide
  have c3 : ¬ ((41 : Nat) = 6) := by decide
  simp only [h41, h41', c1, c2, c3, if_false] at hrd1 hrd2
  have hl1 : ((p.drop (r.ne + 10)).take (get16 p (r.ne + 8))).length = get16 p (r.ne + 8) := length_take_drop (by omega)
  have hl2 : ((u.drop (r'.ne + 10)).take (get16 u (r'.ne + 8))).length = get16 u (r'.ne + 8) := length_take_drop (by omega)
  have hlen : get16 u (r'.ne + 8) = get16 p (r.ne + 8) := by
    have := congrArg List.length hrd1
    rw [hrd2, hl2, hl1] at this
    exact this
  have hagd : Agree p u (r.ne + 10) (r'.ne + 10) (get16 p (r.ne + 8)) := by
    intro i hi
    have h1 : ((p.drop (r.ne + 10)).take (get16 p (r.ne + 8)))[i]? = p[r.ne + 10 + i]? := by
      simp [List.getElem?_take, List.getElem?_drop, hi]
    have h2 : ((u.drop (r'.ne + 10)).take (get16 u (r'.ne + 8)))[i]? = u[r'.ne + 10 + i]? := by
      simp [List.getElem?_take, List.getElem?_drop, hlen, hi]
    rw [← h1, ← h2, ← hrd1, ← hrd2]
  have hn : n' = n := by
    have := ht.translate u (r'.ne + 10) (by simpa using hagd)
    have e : r'.ne + 10 + (r.ne + 10 + get16 p (r.ne + 8) - (r.ne + 10)) = r'.ne + 10 + get16 u (r'.ne + 8) := by omega
    rw [e] at this
    exact ht'.functional this
  subst hn
  unfold optInfo EdnsInfo.core
  simp only [Prod.mk.injEq, Option.some.injEq]
  exact ⟨trivial, getB_of_agree hag (by omega), getB_of_agree hag (by omega), hag.get16 (i := 6) (by omega),
    hag.get16 (i := 2) (by omega)⟩

end Dns

namespace Dns
open Res

theorem firstOpt_canon {p u : Bytes} : ∀ {l l' : List RecPos} {ps : List Bytes}, CanonRun p l ps → CanonRun u l' ps →
    l'.map (fun r => get16 u r.ne) = l.map (fun r => get16 p r.ne) →
    (firstOpt p l = none ∧ firstOpt u l' = none) ∨
    (∃ r r' rc, firstOpt p l = some r ∧ firstOpt u l' = some r' ∧ RecCanon p r rc ∧ RecCanon u r' rc ∧ r ∈ l ∧ r' ∈ l') := by
  intro l l' ps h1
  induction h1 generalizing l' with
  | nil => intro h2 _; cases h2; left; exact ⟨rfl, rfl⟩
  | @cons r l rc ps hrc _ ih =>
    intro h2 hty
    cases h2 with
    | @cons r' l' _ _ hrc' h2' =>
      simp only [List.map_cons, List.cons.injEq] at hty
      obtain ⟨ht, hty'⟩ := hty
      by_cases h41 : get16 p r.ne = 41
      · right
        refine ⟨r, r', rc, by simp [firstOpt, h41], by simp [firstOpt, ht, h41], hrc, hrc', by simp, by simp⟩
      · have h41' : ¬ (get16 u r'.ne = 41) := by rw [ht]; exact h41
        have e1 : firstOpt p (r :: l) = firstOpt p l := by simp [firstOpt, h41]
        have e2 : firstOpt u (r' :: l') = firstOpt u l' := by simp [firstOpt, h41']
        rw [e1, e2]
        rcases ih h2' hty' with h | ⟨a, b, c, g1, g2, g3, g4, g5, g6⟩
        · exact Or.inl h
        · exact Or.inr ⟨a, b, c, g1, g2, g3, g4, by simp [g5], by simp [g6]⟩

/-- **decompression keeps the EDNS summary** (all but the position of the options) -/
theorem edns_preserved {p : Bytes} {v v2 : View} (h : parse p = .ok v) {L : C03.Layout p} (o : C05.Output p L)
    (h2 : parse o.bytes = .ok v2) : v2.info.core = v.info.core := by
  obtain ⟨L0, _, _, _, _, _, _, hinfo⟩ := C03.layout_full h
  obtain ⟨_, _, _, er0⟩ := C05.layout_unique L0 L
  rw [er0] at hinfo
  obtain ⟨_, L', _, _, _, hr', _, _, tlr, _⟩ := C05.output_layout h o
  obtain ⟨L0', _, _, _, _, _, _, hinfo'⟩ := C03.layout_full h2
  obtain ⟨_, _, _, er0'⟩ := C05.layout_unique L0' L'
  rw [er0'] at hinfo'
  rcases firstOpt_canon o.hr hr' tlr with ⟨e1, e2⟩ | ⟨r, r', rc, e1, e2, c1, c2, m1, m2⟩
  · rw [e1] at hinfo
    rw [e2] at hinfo'
    simp only at hinfo hinfo'
    rw [hinfo, hinfo']
  · rw [e1] at hinfo
    rw [e2] at hinfo'
    simp only at hinfo hinfo'
    obtain ⟨n, ht, hi⟩ := hinfo
    obtain ⟨n', ht', hi'⟩ := hinfo'
    obtain ⟨ob, oa, hpos⟩ := RRsL.mem_pos L.hr r m1
    obtain ⟨ob', oa', hpos'⟩ := RRsL.mem_pos L'.hr r' m2
    have h41 : get16 p r.ne = 41 := by
      have := List.find?_some e1; simpa using this
    have h41' : get16 o.bytes r'.ne = 41 := by
      have := List.find?_some e2; simpa using this
    rw [hi, hi']
    exact optInfo_of_same_canon hpos hpos' c1 c2 h41 h41' ht ht'

end Dns
