/-
  Lemmas.Assemble — a packet put together from a header, a question and lists of record pieces
  (each piece the canonical form of some record of the policy) satisfies the acceptance policy, and
  its layout is the pieces in order.
-/
import DnsModel.Lemmas.CanonRun
import DnsModel.Lemmas.Piece
namespace Dns
open Res

/-- `rc` is the canonical form of some record of section `sec` (in some packet), with OPT flags `ob → oa` -/
def PieceOK (sec : Section) (rc : Bytes) (ob oa : Bool) : Prop :=
  ∃ (p0 : Bytes) (r0 : RecPos), RRAtPos p0 sec r0 ob oa ∧ RecCanon p0 r0 rc

/-- a run of pieces, threading the "OPT seen" flag -/
inductive Pieces (sec : Section) : List Bytes → Bool → Bool → Prop
  | nil (o : Bool) : Pieces sec [] o o
  | cons {rc : Bytes} {ps : List Bytes} {ob om oe : Bool} : PieceOK sec rc ob om → Pieces sec ps om oe →
      Pieces sec (rc :: ps) ob oe

theorem pieces_of_run {p : Bytes} {sec : Section} {l : List RecPos} {off e : Nat} {ob oe : Bool}
    (hl : RRsL p sec l off ob e oe) : ∀ ps, CanonRun p l ps → Pieces sec ps ob oe := by
  induction hl with
  | nil off o => intro ps h; cases h; exact Pieces.nil o
  | cons hr _ ih =>
    intro ps h
    cases h with
    | cons hc hrest => exact Pieces.cons ⟨_, _, hr, hc⟩ (ih _ hrest)

/-- pieces laid out one after the other from `pre.length` form a run of the policy -/
theorem pieces_placed {sec : Section} {ps : List Bytes} {ob oe : Bool} (h : Pieces sec ps ob oe) :
    ∀ (pre post : Bytes),
      ∃ l', l'.length = ps.length ∧
        RRsL (pre ++ ps.flatten ++ post) sec l' pre.length ob (pre.length + ps.flatten.length) oe ∧
        CanonRun (pre ++ ps.flatten ++ post) l' ps ∧ l'.map (·.off) = starts pre.length ps ∧
        ∀ r' ∈ l', SelfCanon (pre ++ ps.flatten ++ post) r' := by
  induction h with
  | nil o =>
    intro pre post
    refine ⟨[], rfl, ?_, CanonRun.nil, by simp [starts], by simp⟩
    have e : pre.length + ([] : List Bytes).flatten.length = pre.length := by simp
    rw [e]
    exact RRsL.nil _ _
  | @cons rc ps ob om oe hp _ ih =>
    intro pre post
    obtain ⟨p0, r0, hr, hrc⟩ := hp
    have eu : pre ++ (rc :: ps).flatten ++ post = pre ++ rc ++ (ps.flatten ++ post) := by simp
    have eu' : pre ++ (rc :: ps).flatten ++ post = (pre ++ rc) ++ ps.flatten ++ post := by simp
    obtain ⟨ne', hr', hc', _⟩ := canon_placed hr hrc pre (ps.flatten ++ post)
    obtain ⟨l', hlen, hrl, hcr, hoffs, hself⟩ := ih (pre ++ rc) post
    have hwin := window_eq (u := pre ++ rc ++ (ps.flatten ++ post)) (A := pre) (w := rc) (B := ps.flatten ++ post) rfl
    rw [← eu] at hr' hc' hwin
    rw [← eu'] at hrl hcr hself
    have hl1 : (pre ++ rc).length = pre.length + rc.length := by simp
    rw [hl1] at hrl hoffs
    refine ⟨⟨pre.length, ne', pre.length + rc.length⟩ :: l', by simp [hlen], ?_, CanonRun.cons hc' hcr, ?_, ?_⟩
    · have e2 : pre.length + (rc :: ps).flatten.length = pre.length + rc.length + ps.flatten.length := by simp; omega
      rw [e2]
      exact RRsL.cons hr' hrl
    · simp [starts, hoffs]
    · intro r' hr''
      simp at hr''
      rcases hr'' with rfl | hr''
      · unfold SelfCanon
        simp only
        have e : pre.length + rc.length - pre.length = rc.length := by omega
        rw [e, hwin]
        exact hc'
      · exact hself r' hr''

end Dns

namespace Dns
open Res

/-- **assembly**: header, question, three runs of pieces -/
theorem assemble (hdr q4 : Bytes) (qls : List (List UInt8)) (A N R : List Bytes) (o2 o3 o4 : Bool)
    (hh : hdr.length = 12) (hqd : get16 hdr 4 = 1) (hgq : GoodLabels qls) (hq4 : q4.length = 4) (hcl : get16 q4 2 = 1)
    (hA : Pieces .answer A false o2) (hN : Pieces .nameServers N o2 o3) (hR : Pieces .additional R o3 o4)
    (hca : get16 hdr 6 = A.length) (hcn : get16 hdr 8 = N.length) (hcr : get16 hdr 10 = R.length)
    (hqr : get16 hdr 2 / 32768 % 2 = 0 → A = [] ∧ N = []) :
    let p := hdr ++ ((encLabels qls ++ [0]) ++ q4) ++ A.flatten ++ N.flatten ++ R.flatten
    WF p ∧ ∃ L : C03.Layout p, L.qe = 12 + labSum qls + 1 ∧ ValidName p 12 qls L.qe ∧
      L.e2 = 12 + labSum qls + 1 + 4 + A.flatten.length ∧ L.e3 = 12 + labSum qls + 1 + 4 + A.flatten.length + N.flatten.length ∧
      L.o2 = o2 ∧ L.o3 = o3 ∧ L.o4 = o4 ∧
      CanonRun p L.answers A ∧ CanonRun p L.authority N ∧ CanonRun p L.additional R ∧
      L.answers.map (·.off) = starts (12 + labSum qls + 1 + 4) A ∧
      L.authority.map (·.off) = starts (12 + labSum qls + 1 + 4 + A.flatten.length) N ∧
      L.additional.map (·.off) = starts (12 + labSum qls + 1 + 4 + A.flatten.length + N.flatten.length) R ∧
      (∀ r ∈ L.answers ++ L.authority ++ L.additional, SelfCanon p r) := by
  intro p
  obtain ⟨hok, hw, hg⟩ := hgq
  have hagH : Agree hdr p 0 0 12 := by
    intro i hi
    simp only [p, Nat.zero_add, List.append_assoc]
    rw [List.getElem?_append_left (by omega)]
  have hg16 : ∀ i, i + 2 ≤ 12 → get16 p i = get16 hdr i := by
    intro i hi
    have := hagH.get16 (i := i) hi
    simpa using this
  have hvq : ValidName p 12 qls (12 + labSum qls + 1) := by
    have := validName_at (u := p) (A := hdr) (B := q4 ++ A.flatten ++ N.flatten ++ R.flatten) (by simp [p]) hok hw hg
    rw [hh] at this; exact this
  have hA1 : (hdr ++ (encLabels qls ++ [0])).length = 12 + labSum qls + 1 := by rw [List.length_append, hh, encLen_eq]; omega
  have hagQ : Agree q4 p 0 (12 + labSum qls + 1) 4 := by
    intro i hi
    have e : p = (hdr ++ (encLabels qls ++ [0])) ++ (q4 ++ (A.flatten ++ N.flatten ++ R.flatten)) := by simp [p]
    rw [e, List.getElem?_append_right (by rw [hA1]; omega)]
    have : 12 + labSum qls + 1 + i - (hdr ++ (encLabels qls ++ [0])).length = i := by rw [hA1]; omega
    rw [this, List.getElem?_append_left (by omega)]
    simp
  have hclass : get16 p (12 + labSum qls + 1 + 2) = 1 := by
    have := hagQ.get16 (i := 2) (by omega)
    simp only [Nat.zero_add] at this
    rw [this]; exact hcl
  have hpre1 : (hdr ++ ((encLabels qls ++ [0]) ++ q4)).length = 12 + labSum qls + 1 + 4 := by
    simp only [List.length_append, hh, hq4, encLabels_length, List.length_cons, List.length_nil]; omega
  obtain ⟨la', hla, rla, cla, ola, sla⟩ := pieces_placed hA (hdr ++ ((encLabels qls ++ [0]) ++ q4)) (N.flatten ++ R.flatten)
  have eu1 : hdr ++ ((encLabels qls ++ [0]) ++ q4) ++ A.flatten ++ (N.flatten ++ R.flatten) = p := by simp [p]
  rw [eu1] at rla cla sla
  rw [hpre1] at rla ola
  obtain ⟨ln', hln, rln, cln, oln, sln⟩ := pieces_placed hN (hdr ++ ((encLabels qls ++ [0]) ++ q4) ++ A.flatten) R.flatten
  have eu2 : hdr ++ ((encLabels qls ++ [0]) ++ q4) ++ A.flatten ++ N.flatten ++ R.flatten = p := rfl
  rw [eu2] at rln cln sln
  have hpre2 : (hdr ++ ((encLabels qls ++ [0]) ++ q4) ++ A.flatten).length = 12 + labSum qls + 1 + 4 + A.flatten.length := by
    rw [List.length_append, hpre1]
  rw [hpre2] at rln oln
  obtain ⟨lr', hlr, rlr, clr, olr, slr⟩ := pieces_placed hR (hdr ++ ((encLabels qls ++ [0]) ++ q4) ++ A.flatten ++ N.flatten) []
  have eu3 : hdr ++ ((encLabels qls ++ [0]) ++ q4) ++ A.flatten ++ N.flatten ++ R.flatten ++ [] = p := by simp [p]
  rw [eu3] at rlr clr slr
  have hpre3 : (hdr ++ ((encLabels qls ++ [0]) ++ q4) ++ A.flatten ++ N.flatten).length =
      12 + labSum qls + 1 + 4 + A.flatten.length + N.flatten.length := by rw [List.length_append, hpre2]
  rw [hpre3] at rlr olr
  have hplen : p.length = 12 + labSum qls + 1 + 4 + A.flatten.length + N.flatten.length + R.flatten.length := by
    show (hdr ++ ((encLabels qls ++ [0]) ++ q4) ++ A.flatten ++ N.flatten ++ R.flatten).length = _
    rw [List.length_append, hpre3]
  rw [← hplen] at rlr
  have c6 : la'.length = get16 p 6 := by rw [hla, hg16 6 (by omega), hca]
  have c8 : ln'.length = get16 p 8 := by rw [hln, hg16 8 (by omega), hcn]
  have c10 : lr'.length = get16 p 10 := by rw [hlr, hg16 10 (by omega), hcr]
  constructor
  · refine ⟨by omega, by rw [hg16 4 (by omega)]; exact hqd, 12 + labSum qls + 1, ⟨qls, hvq⟩, by omega, hclass, ?_,
      12 + labSum qls + 1 + 4 + A.flatten.length, o2, 12 + labSum qls + 1 + 4 + A.flatten.length + N.flatten.length, o3, o4,
      ?_, ?_, ?_⟩
    · intro hq
      rw [hg16 2 (by omega)] at hq
      obtain ⟨ha, hn⟩ := hqr hq
      rw [hg16 6 (by omega), hg16 8 (by omega), hca, hcn, ha, hn]
      exact ⟨rfl, rfl⟩
    · rw [← c6]; exact rla.to_RRs
    · rw [← c8]; exact rln.to_RRs
    · rw [← c10]; exact rlr.to_RRs
  · refine ⟨⟨12 + labSum qls + 1, la', ln', lr', _, _, o2, o3, o4, ⟨⟨qls, hvq⟩, by omega⟩, rla, rln, rlr, c6, c8, c10⟩,
      rfl, hvq, rfl, rfl, rfl, rfl, rfl, cla, cln, clr, ola, oln, olr, ?_⟩
    intro r hr
    simp only [List.mem_append] at hr
    rcases hr with (hr | hr) | hr
    · exact sla r hr
    · exact sln r hr
    · exact slr r hr

end Dns
