/-
  Lemmas.RenameRec — renaming one record: either every renamed name fits and the record written is a
  record of the policy whose names are the renamed names up to case and whose other bytes are the
  input's, or some renamed name exceeds 255 bytes and the call fails with `InvalidName`.
-/
import DnsModel.Lemmas.RenameName
namespace Dns
open Res

/-- putting a written record together (owner name, eight fixed bytes, data length, data) -/
theorem record_frame {u : Bytes} {sec : Section} {r : RecPos} {ob oa : Bool} (hr : RRAtPos u sec r ob oa)
    (out cname : Bytes) (owner' : List (List UInt8))
    (hval1 : ∀ t : Bytes, ValidName (out ++ cname ++ t) out.length owner' (out.length + cname.length))
    (hopt : get16 u r.ne = 41 → cname.length = 1)
    (rdem : Bytes) (hlt : rdem.length < 65536) (tl : Bytes)
    (hb : if get16 u r.ne = 41 then
            ∃ n, OptionsTile (out ++ (cname ++ ((u.drop r.ne).take 8 ++ put16 rdem.length ++ rdem)) ++ tl)
              (out.length + cname.length + 10) (out.length + cname.length + 10 + rdem.length) n
          else RDataOK (out ++ (cname ++ ((u.drop r.ne).take 8 ++ put16 rdem.length ++ rdem)) ++ tl) (get16 u r.ne)
              rdem.length (out.length + cname.length + 10)) :
    let B := out ++ (cname ++ ((u.drop r.ne).take 8 ++ put16 rdem.length ++ rdem)) ++ tl
    let r' : RecPos := ⟨out.length, out.length + cname.length,
      out.length + (cname ++ ((u.drop r.ne).take 8 ++ put16 rdem.length ++ rdem)).length⟩
    RRAtPos B sec r' ob oa ∧ get16 B r'.ne = get16 u r.ne ∧ (B.drop r'.ne).take 8 = (u.drop r.ne).take 8 ∧
      get16 B (r'.ne + 8) = rdem.length ∧ ValidName B out.length owner' r'.ne := by
  intro B r'
  obtain ⟨_, h10, hnext, hfit, hbody⟩ := hr
  have hf8 : ((u.drop r.ne).take 8).length = 8 := length_take_drop (by omega)
  have eB1 : B = out ++ cname ++ ((u.drop r.ne).take 8 ++ put16 rdem.length ++ rdem ++ tl) := by simp [B]
  have eB2 : B = (out ++ cname) ++ (u.drop r.ne).take 8 ++ (put16 rdem.length ++ rdem ++ tl) := by simp [B]
  have eB3 : B = (out ++ cname ++ (u.drop r.ne).take 8) ++ put16 rdem.length ++ (rdem ++ tl) := by simp [B]
  have hA1 : (out ++ cname).length = out.length + cname.length := by simp
  have hA2 : (out ++ cname ++ (u.drop r.ne).take 8).length = out.length + cname.length + 8 := by
    rw [List.length_append, hA1, hf8]
  have hvo : ValidName B out.length owner' (out.length + cname.length) := by rw [eB1]; exact hval1 _
  have hag8 : Agree u B r.ne (out.length + cname.length) 8 := by
    have := agree_of_eq (p := u) eB2 (by omega : r.ne + 8 ≤ u.length)
    rw [hA1] at this; exact this
  have hty : get16 B (out.length + cname.length) = get16 u r.ne := by
    have := hag8.get16 (i := 0) (by omega); simpa using this
  have hl' : get16 B (out.length + cname.length + 8) = rdem.length := by
    have := get16_put16_at eB3 hlt
    rw [hA2] at this; exact this
  have hpl : (cname ++ ((u.drop r.ne).take 8 ++ put16 rdem.length ++ rdem)).length = cname.length + 10 + rdem.length := by
    simp only [List.length_append, hf8, put16, List.length_cons, List.length_nil]; omega
  have hBlen : B.length = out.length + cname.length + 10 + rdem.length + tl.length := by
    simp only [B, List.length_append, hf8, put16, List.length_cons, List.length_nil]; omega
  have hwin8 : (B.drop (out.length + cname.length)).take 8 = (u.drop r.ne).take 8 := by
    have := window_eq eB2
    rw [hA1, hf8] at this; exact this
  refine ⟨⟨⟨owner', hvo⟩, by simp only [r']; omega, by simp only [r']; rw [hl', hpl]; omega,
    by simp only [r']; rw [hpl]; omega, ?_⟩, hty, hwin8, hl', hvo⟩
  simp only [r']
  rw [hty, hl']
  by_cases h41 : get16 u r.ne = 41
  · simp only [h41, if_true] at hbody hb ⊢
    obtain ⟨hsec, _, hob, hoa, _⟩ := hbody
    obtain ⟨n, ht⟩ := hb
    have := hopt h41
    refine ⟨hsec, by omega, hob, hoa, n, ?_⟩
    rw [hpl]
    have e : out.length + (cname.length + 10 + rdem.length) = out.length + cname.length + 10 + rdem.length := by omega
    rw [e]; exact ht
  · simp only [h41, if_false] at hbody hb ⊢
    exact ⟨hb, hbody.2⟩

/-! ### what renaming does to a record -/

/-- the data of a record after renaming with `R` (labels before ↦ labels after) -/
def RdRen (R : List (List UInt8) → List (List UInt8) → Prop) (u B : Bytes) (t l rs l' rs' : Nat) : Prop :=
  if t = 2 ∨ t = 5 ∨ t = 12 then
    ∃ ls lsr ls', ValidName u rs ls (rs + l) ∧ R ls lsr ∧ ValidName B rs' ls' (rs' + l') ∧ lsCi ls' lsr
  else if t = 15 then
    (B.drop rs').take 2 = (u.drop rs).take 2 ∧
      ∃ ls lsr ls', ValidName u (rs + 2) ls (rs + l) ∧ R ls lsr ∧ ValidName B (rs' + 2) ls' (rs' + l') ∧ lsCi ls' lsr
  else if t = 6 then
    ∃ l1 l2 l1r l2r l1' l2' e1 e1', ValidName u rs l1 e1 ∧ ValidName u e1 l2 (rs + l - 20) ∧ R l1 l1r ∧ R l2 l2r ∧
      ValidName B rs' l1' e1' ∧ ValidName B e1' l2' (rs' + l' - 20) ∧ lsCi l1' l1r ∧ lsCi l2' l2r ∧
      (B.drop (rs' + l' - 20)).take 20 = (u.drop (rs + l - 20)).take 20
  else l' = l ∧ (B.drop rs').take l = (u.drop rs).take l

/-- record `r'` of `B` is record `r` of `u` with its names renamed by `R` (up to case), everything
else identical -/
def RecRen (R : List (List UInt8) → List (List UInt8) → Prop) (u : Bytes) (r : RecPos) (B : Bytes) (r' : RecPos) : Prop :=
  ∃ owner ownr owner', ValidName u r.off owner r.ne ∧ R owner ownr ∧ ValidName B r'.off owner' r'.ne ∧ lsCi owner' ownr ∧
    (B.drop r'.ne).take 8 = (u.drop r.ne).take 8 ∧
    RdRen R u B (get16 u r.ne) (get16 u (r.ne + 8)) (r.ne + 10) (get16 B (r'.ne + 8)) (r'.ne + 10)

/-- some name of the record grows past 255 bytes under `R` -/
def RecOverflow (R : List (List UInt8) → List (List UInt8) → Prop) (u : Bytes) (r : RecPos) : Prop :=
  ∃ off e ls lsr, r.off ≤ off ∧ off < r.next ∧ ValidName u off ls e ∧ R ls lsr ∧ 255 < wireLen lsr

end Dns

namespace Dns
open Res

theorem Renamed.of_nil {src tgt l' : List (List UInt8)} {sfx : Bool} (h : Renamed src tgt sfx [] l') (hs : src ≠ []) :
    l' = [] := by
  generalize hnil : ([] : List (List UInt8)) = e at h
  cases h with
  | hit a b hci _ =>
    have := List.append_eq_nil_iff.1 hnil.symm
    obtain ⟨_, hb⟩ := this
    subst hb
    cases src with
    | nil => exact absurd rfl hs
    | cons _ _ => simp [lsCi] at hci
  | miss _ _ => rfl

theorem rename_record {pp : PP} {sec : Section} {r : RecPos} {ob oa : Bool} {src tgt : List (List UInt8)}
    (hr : RRAtPos pp.packet sec r ob oa) (c : Cursor) (hc : posOf c = some r) (hs : ArgName src) (ht : ArgName tgt)
    (sfx : Bool) (dict : SuffixDict) (out : Bytes) (hinv : DictInv dict out) :
    (∃ (dict' : SuffixDict) (piece : Bytes),
      renameResponseItem pp (encLabels tgt ++ [0]) (encLabels src ++ [0]) sfx (dict, out) c = .ok (dict', out ++ piece) ∧
      DictInv dict' (out ++ piece) ∧
      ∀ tl : Bytes, ∃ ne', RRAtPos (out ++ piece ++ tl) sec ⟨out.length, ne', out.length + piece.length⟩ ob oa ∧
        get16 (out ++ piece ++ tl) ne' = get16 pp.packet r.ne ∧
        RecRen (Renamed src tgt sfx) pp.packet r (out ++ piece ++ tl) ⟨out.length, ne', out.length + piece.length⟩) ∨
    (renameResponseItem pp (encLabels tgt ++ [0]) (encLabels src ++ [0]) sfx (dict, out) c = .err .invalidName ∧
      RecOverflow (Renamed src tgt sfx) pp.packet r) := by
  obtain ⟨owner, hvo, _, _, hty, _, _, hlen⟩ := C03.accessors hr c hc
  have hoff : c.offset = some r.off ∧ c.nameEnd = r.ne := by
    unfold posOf at hc
    cases ho : c.offset with
    | none => simp [ho] at hc
    | some o =>
      simp [ho] at hc
      have e1 : o = r.off := by have := congrArg RecPos.off hc; simpa using this
      have e2 : c.nameEnd = r.ne := by have := congrArg RecPos.ne hc; simpa using this
      exact ⟨by rw [e1], e2⟩
  have hr' := hr
  obtain ⟨_, h10, hnext, hfit, hbody⟩ := hr'
  have hspan : r.off < r.ne := hvo.2.1.lt
  have hf8 : ((pp.packet.drop r.ne).take 8).length = 8 := length_take_drop (by omega)
  have hh10 : ((pp.packet.drop r.ne).take 10).length = 10 := length_take_drop (by omega)
  have hfit' : r.ne + 10 + get16 pp.packet (r.ne + 8) ≤ pp.packet.length := by omega
  -- the owner name
  obtain ⟨ownr, hreno, hown⟩ := copyReplaced_spec hvo hs ht sfx dict out.length out rfl hinv
  cases hown with
  | inr h =>
    obtain ⟨hbig, herr⟩ := h
    right
    refine ⟨?_, r.off, r.ne, owner, ownr, Nat.le_refl _, by omega, hvo, hreno, hbig⟩
    unfold renameResponseItem
    simp only [hoff.1, unwrap, bind_ok, herr, bind_err]
  | inl h =>
    obtain ⟨hwo, dict1, cname, hgen1, hpos1, hle1, hall1⟩ := h
    obtain ⟨hd1, owner', hcio, hval1⟩ := hall1 out rfl hinv
    have hopt : get16 pp.packet r.ne = 41 → cname.length = 1 := by
      intro h41
      simp only [h41, if_true] at hbody
      have hroot := hbody.2.1
      have : owner = [] := by rw [hroot] at hvo; exact owner_nil hvo
      subst this
      have : ownr = [] := hreno.of_nil hs.ne
      subst this
      simp [labSum] at hle1
      omega
    have hsl10 : slice pp.packet r.ne (r.ne + 10) = .ok ((pp.packet.drop r.ne).take 10) := by
      rw [slice_ok ⟨by omega, by omega⟩]
      have : r.ne + 10 - r.ne = 10 := by omega
      rw [this]
    have hnotsmall : decide (pp.packet.length < r.ne + 10) = false := by simp; omega
    have hO1 : (out ++ cname).length = out.length + cname.length := by simp
    have eB : ∀ X tl : Bytes, out ++ (cname ++ X) ++ tl = (out ++ cname) ++ X ++ tl := by intro X tl; simp
    have hrun1 := hgen1 out rfl
    by_cases hns : get16 pp.packet r.ne = 2 ∨ get16 pp.packet r.ne = 5 ∨ get16 pp.packet r.ne = 12
    · -- NS / CNAME / PTR
      have h41 : get16 pp.packet r.ne ≠ 41 := by omega
      simp only [h41, if_false] at hbody
      obtain ⟨hrd, _⟩ := hbody
      unfold RDataOK at hrd
      simp only [hns, if_true] at hrd
      obtain ⟨hl0, ls, hvn⟩ := hrd
      have hcond : (get16 pp.packet r.ne == TYPE_NS || get16 pp.packet r.ne == TYPE_CNAME ||
          get16 pp.packet r.ne == TYPE_PTR) = true := by
        consts; rcases hns with h | h | h <;> simp [h]
      obtain ⟨lsr, hren, hcase⟩ := copyReplaced_spec hvn hs ht sfx dict1 (out.length + cname.length + 10)
        (out ++ cname ++ ((pp.packet.drop r.ne).take 8 ++ [0, 0])) (by simp [hf8]; omega) (by simpa [List.append_assoc] using hd1.append _)
      cases hcase with
      | inr h =>
        obtain ⟨hbig, herr⟩ := h
        right
        refine ⟨?_, r.ne + 10, _, ls, lsr, by omega, by omega, hvn, hren, hbig⟩
        unfold renameResponseItem
        simp only [hoff.1, hoff.2, unwrap, bind_ok, hrun1, failIf, DNS_RR_HEADER_SIZE, hnotsmall, Bool.false_eq_true,
          if_false, hsl10, hty, hcond, if_true, herr, bind_err]
      | inl h =>
        obtain ⟨hwn, dict2, em, hgen, hpos, hle, hall⟩ := h
        left
        have hemlt : em.length < 65536 := by rw [wireLen_eq] at hwn; omega
        have hXlen : (out ++ cname ++ ((pp.packet.drop r.ne).take 8 ++ put16 em.length)).length = out.length + cname.length + 10 := by
          simp [hf8, put16]; omega
        obtain ⟨hd2, ls', hci, hval⟩ := hall _ hXlen (by simpa [List.append_assoc] using hd1.append _)
        have e1 := hgen (out ++ cname ++ (pp.packet.drop r.ne).take 10) (by simp [hh10]; omega)
        have e2 : sub (out ++ cname ++ (pp.packet.drop r.ne).take 10 ++ em).length (out ++ cname).length = .ok (10 + em.length) := by
          rw [sub_returns_of_le (by simp)]
          congr 1; simp [hh10]; omega
        have e3 : sub (10 + em.length) 10 = .ok em.length := by rw [sub_returns_of_le (by omega)]; congr 1; omega
        have e4 : patch16 (out ++ cname ++ (pp.packet.drop r.ne).take 10 ++ em) ((out ++ cname).length + 8) em.length =
            .ok (out ++ (cname ++ ((pp.packet.drop r.ne).take 8 ++ put16 em.length ++ em))) := by
          rw [patch16_mid (out ++ cname) ((pp.packet.drop r.ne).take 10) em _ (by omega) hemlt]
          have t8 : ((pp.packet.drop r.ne).take 10).take 8 = (pp.packet.drop r.ne).take 8 := by rw [List.take_take]; simp
          have d10 : ((pp.packet.drop r.ne).take 10).drop 10 = [] := by apply List.drop_of_length_le; omega
          rw [t8, d10]; simp
        refine ⟨dict2, cname ++ ((pp.packet.drop r.ne).take 8 ++ put16 em.length ++ em), ?_, by simpa [List.append_assoc] using hd2, ?_⟩
        · unfold renameResponseItem
          simp only [hoff.1, hoff.2, unwrap, bind_ok, hrun1, failIf, DNS_RR_HEADER_SIZE, hnotsmall, Bool.false_eq_true,
            if_false, hsl10, hty, hcond, if_true, e1, e2, e3, DNS_RR_RDLEN_OFFSET, e4, pure_eq]
        · intro tl
          have hv := hval tl
          have hfr := record_frame hr out cname owner' hval1 hopt em hemlt tl (by
            simp only [h41, if_false]
            unfold RDataOK; simp only [hns, if_true]
            rw [eB]
            exact ⟨by omega, ls', by simpa [List.append_assoc] using hv⟩)
          simp only at hfr
          obtain ⟨f1, f2, f3, f4, f5⟩ := hfr
          refine ⟨_, f1, f2, owner, ownr, owner', hvo, hreno, f5, hcio, f3, ?_⟩
          simp only
          rw [f4]
          unfold RdRen; simp only [hns, if_true]
          rw [eB]
          exact ⟨ls, lsr, ls', hvn, hren, by simpa [List.append_assoc] using hv, hci⟩
    have hcond1 : (get16 pp.packet r.ne == TYPE_NS || get16 pp.packet r.ne == TYPE_CNAME ||
        get16 pp.packet r.ne == TYPE_PTR) = false := by
      consts; simp at hns ⊢; exact ⟨⟨hns.1, hns.2.1⟩, hns.2.2⟩
    by_cases hmx : get16 pp.packet r.ne = 15
    · -- MX
      have h41 : get16 pp.packet r.ne ≠ 41 := by omega
      simp only [h41, if_false] at hbody
      obtain ⟨hrd, _⟩ := hbody
      unfold RDataOK at hrd
      simp only [hns, hmx, if_true, if_false] at hrd
      have c1 : ¬ ((15 : Nat) = 2 ∨ (15 : Nat) = 5 ∨ (15 : Nat) = 12) := by decide
      simp only [c1, if_false, if_true] at hrd
      obtain ⟨hl2, ls, hvn⟩ := hrd
      have hcond2 : (get16 pp.packet r.ne == TYPE_MX) = true := by consts; simp [hmx]
      have hp2 : ((pp.packet.drop (r.ne + 10)).take 2).length = 2 := length_take_drop (by omega)
      have hslp : slice pp.packet (r.ne + 10) (r.ne + 10 + 2) = .ok ((pp.packet.drop (r.ne + 10)).take 2) := by
        rw [slice_ok ⟨by omega, by omega⟩]
        have : r.ne + 10 + 2 - (r.ne + 10) = 2 := by omega
        rw [this]
      obtain ⟨lsr, hren, hcase⟩ := copyReplaced_spec hvn hs ht sfx dict1 (out.length + cname.length + 12)
        (out ++ cname ++ ((pp.packet.drop r.ne).take 8 ++ [0, 0] ++ (pp.packet.drop (r.ne + 10)).take 2))
        (by simp [hf8, hp2]; omega) (by simpa [List.append_assoc] using hd1.append _)
      cases hcase with
      | inr h =>
        obtain ⟨hbig, herr⟩ := h
        right
        refine ⟨?_, r.ne + 10 + 2, _, ls, lsr, by omega, by omega, hvn, hren, hbig⟩
        unfold renameResponseItem
        simp only [hoff.1, hoff.2, unwrap, bind_ok, hrun1, failIf, DNS_RR_HEADER_SIZE, hnotsmall, Bool.false_eq_true,
          if_false, hsl10, hty, hcond1, hcond2, if_true, hslp, herr, bind_err]
      | inl h =>
        obtain ⟨hwn, dict2, em, hgen, hpos, hle, hall⟩ := h
        left
        have hemlt : 2 + em.length < 65536 := by rw [wireLen_eq] at hwn; omega
        have hrdl : ((pp.packet.drop (r.ne + 10)).take 2 ++ em).length = 2 + em.length := by rw [List.length_append, hp2]
        have hXlen : (out ++ cname ++ ((pp.packet.drop r.ne).take 8 ++ put16 ((pp.packet.drop (r.ne + 10)).take 2 ++ em).length ++
            (pp.packet.drop (r.ne + 10)).take 2)).length = out.length + cname.length + 12 := by
          simp [hf8, hp2, put16]; omega
        obtain ⟨hd2, ls', hci, hval⟩ := hall _ hXlen (by simpa [List.append_assoc] using hd1.append _)
        have e1 := hgen (out ++ cname ++ (pp.packet.drop r.ne).take 10 ++ (pp.packet.drop (r.ne + 10)).take 2)
          (by simp [hh10, hp2]; omega)
        have e2 : sub (2 + (out ++ cname ++ (pp.packet.drop r.ne).take 10 ++ (pp.packet.drop (r.ne + 10)).take 2 ++ em).length)
            (out ++ cname ++ (pp.packet.drop r.ne).take 10 ++ (pp.packet.drop (r.ne + 10)).take 2).length =
            .ok ((pp.packet.drop (r.ne + 10)).take 2 ++ em).length := by
          rw [sub_returns_of_le (by simp; omega)]
          congr 1; simp [hh10, hp2]; omega
        have e4 : patch16 (out ++ cname ++ (pp.packet.drop r.ne).take 10 ++ (pp.packet.drop (r.ne + 10)).take 2 ++ em)
            ((out ++ cname).length + 8) ((pp.packet.drop (r.ne + 10)).take 2 ++ em).length =
            .ok (out ++ (cname ++ ((pp.packet.drop r.ne).take 8 ++ put16 ((pp.packet.drop (r.ne + 10)).take 2 ++ em).length ++
              ((pp.packet.drop (r.ne + 10)).take 2 ++ em)))) := by
          have assoc : out ++ cname ++ (pp.packet.drop r.ne).take 10 ++ (pp.packet.drop (r.ne + 10)).take 2 ++ em =
              (out ++ cname) ++ (pp.packet.drop r.ne).take 10 ++ ((pp.packet.drop (r.ne + 10)).take 2 ++ em) := by simp
          rw [assoc, patch16_mid (out ++ cname) ((pp.packet.drop r.ne).take 10) _ _ (by omega) (by rw [hrdl]; exact hemlt)]
          have t8 : ((pp.packet.drop r.ne).take 10).take 8 = (pp.packet.drop r.ne).take 8 := by rw [List.take_take]; simp
          have d10 : ((pp.packet.drop r.ne).take 10).drop 10 = [] := by apply List.drop_of_length_le; omega
          rw [t8, d10]; simp
        refine ⟨dict2, cname ++ ((pp.packet.drop r.ne).take 8 ++ put16 ((pp.packet.drop (r.ne + 10)).take 2 ++ em).length ++
          ((pp.packet.drop (r.ne + 10)).take 2 ++ em)), ?_, by simpa [List.append_assoc] using hd2, ?_⟩
        · unfold renameResponseItem
          simp only [hoff.1, hoff.2, unwrap, bind_ok, hrun1, failIf, DNS_RR_HEADER_SIZE, hnotsmall, Bool.false_eq_true,
            if_false, hsl10, hty, hcond1, hcond2, if_true, hslp, e1, e2, DNS_RR_RDLEN_OFFSET, e4, pure_eq]
        · intro tl
          have hv := hval tl
          have eend : out.length + cname.length + 10 + ((pp.packet.drop (r.ne + 10)).take 2 ++ em).length =
              out.length + cname.length + 12 + em.length := by rw [hrdl]; omega
          have hvB : ValidName (out ++ cname ++ ((pp.packet.drop r.ne).take 8 ++
              put16 ((pp.packet.drop (r.ne + 10)).take 2 ++ em).length ++ ((pp.packet.drop (r.ne + 10)).take 2 ++ em)) ++ tl)
              (out.length + cname.length + 10 + 2) ls'
              (out.length + cname.length + 10 + ((pp.packet.drop (r.ne + 10)).take 2 ++ em).length) := by
            rw [eend]
            have e12 : out.length + cname.length + 10 + 2 = out.length + cname.length + 12 := by omega
            rw [e12]
            simpa [List.append_assoc] using hv
          have hfr := record_frame hr out cname owner' hval1 hopt ((pp.packet.drop (r.ne + 10)).take 2 ++ em)
            (by rw [hrdl]; exact hemlt) tl (by
            simp only [h41, if_false]
            unfold RDataOK; simp only [hns, hmx, if_true, if_false]
            rw [eB]
            exact ⟨by rw [hrdl]; omega, ls', hvB⟩)
          simp only at hfr
          obtain ⟨f1, f2, f3, f4, f5⟩ := hfr
          refine ⟨_, f1, f2, owner, ownr, owner', hvo, hreno, f5, hcio, f3, ?_⟩
          simp only
          rw [f4]
          unfold RdRen; simp only [hns, hmx, if_true, if_false]
          rw [eB]
          have hwin : ((out ++ cname ++ ((pp.packet.drop r.ne).take 8 ++ put16 ((pp.packet.drop (r.ne + 10)).take 2 ++ em).length ++
              ((pp.packet.drop (r.ne + 10)).take 2 ++ em)) ++ tl).drop (out.length + cname.length + 10)).take 2 =
              (pp.packet.drop (r.ne + 10)).take 2 := by
            have := window_eq (u := out ++ cname ++ ((pp.packet.drop r.ne).take 8 ++ put16 ((pp.packet.drop (r.ne + 10)).take 2 ++ em).length ++
                ((pp.packet.drop (r.ne + 10)).take 2 ++ em)) ++ tl)
              (A := out ++ cname ++ ((pp.packet.drop r.ne).take 8 ++ put16 ((pp.packet.drop (r.ne + 10)).take 2 ++ em).length))
              (w := (pp.packet.drop (r.ne + 10)).take 2) (B := em ++ tl) (by simp)
            have hA : (out ++ cname ++ ((pp.packet.drop r.ne).take 8 ++ put16 ((pp.packet.drop (r.ne + 10)).take 2 ++ em).length)).length =
                out.length + cname.length + 10 := by
              simp only [List.length_append, hf8, put16, List.length_cons, List.length_nil]
            rw [hA, hp2] at this; exact this
          exact ⟨hwin, ls, lsr, ls', hvn, hren, hvB, hci⟩
    have hcond2 : (get16 pp.packet r.ne == TYPE_MX) = false := by consts; simp [hmx]
    by_cases hsoa : get16 pp.packet r.ne = 6
    · -- SOA
      have h41 : get16 pp.packet r.ne ≠ 41 := by omega
      simp only [h41, if_false] at hbody
      obtain ⟨hrd, _⟩ := hbody
      unfold RDataOK at hrd
      simp only [hns, hmx, hsoa, if_true, if_false] at hrd
      have c1 : ¬ ((6 : Nat) = 2 ∨ (6 : Nat) = 5 ∨ (6 : Nat) = 12) := by decide
      have c2 : ¬ ((6 : Nat) = 15) := by decide
      simp only [c1, c2, if_false, if_true] at hrd
      obtain ⟨hl21, e1, e2, ⟨l1, hv1⟩, ⟨l2, hv2⟩, he2⟩ := hrd
      have hcond3 : (get16 pp.packet r.ne == TYPE_SOA) = true := by consts; simp [hsoa]
      have hg1 : r.ne + 10 < e1 := hv1.2.1.lt
      have hg2 : e1 < e2 := hv2.2.1.lt
      have hsf1 : sliceFrom pp.packet (r.ne + 10) = .ok (pp.packet.drop (r.ne + 10)) := by simp [sliceFrom]; omega
      have hrl1 : rawNameLen (pp.packet.drop (r.ne + 10)) = .ok (e1 - (r.ne + 10)) := rawNameLen_nameAt hv1.2.1 (by omega)
      have hn2 : r.ne + 10 + (e1 - (r.ne + 10)) = e1 := by omega
      have hsf2 : sliceFrom pp.packet e1 = .ok (pp.packet.drop e1) := by simp [sliceFrom]; omega
      have hrl2 : rawNameLen (pp.packet.drop e1) = .ok (e2 - e1) := rawNameLen_nameAt hv2.2.1 (by omega)
      have hn3 : e1 + (e2 - e1) = e2 := by omega
      have hm : ((pp.packet.drop e2).take 20).length = 20 := length_take_drop (by omega)
      have hslm : slice pp.packet e2 (e2 + 20) = .ok ((pp.packet.drop e2).take 20) := by
        rw [slice_ok ⟨by omega, by omega⟩]
        have : e2 + 20 - e2 = 20 := by omega
        rw [this]
      obtain ⟨l1r, hren1, hcase1⟩ := copyReplaced_spec hv1 hs ht sfx dict1 (out.length + cname.length + 10)
        (out ++ cname ++ ((pp.packet.drop r.ne).take 8 ++ [0, 0])) (by simp [hf8]; omega) (by simpa [List.append_assoc] using hd1.append _)
      cases hcase1 with
      | inr h =>
        obtain ⟨hbig, herr⟩ := h
        right
        refine ⟨?_, r.ne + 10, _, l1, l1r, by omega, by omega, hv1, hren1, hbig⟩
        unfold renameResponseItem
        simp only [hoff.1, hoff.2, unwrap, bind_ok, hrun1, failIf, DNS_RR_HEADER_SIZE, hnotsmall, Bool.false_eq_true,
          if_false, hsl10, hty, hcond1, hcond2, hcond3, if_true, hsf1, hrl1, herr, bind_err]
      | inl h =>
        obtain ⟨hw1, dict2, em1, hgen1', hpos1', hle1', hall1'⟩ := h
        have hX0 : (out ++ cname ++ ((pp.packet.drop r.ne).take 8 ++ [0, 0])).length = out.length + cname.length + 10 := by
          simp [hf8]; omega
        obtain ⟨hd20, _⟩ := hall1' _ hX0 (by simpa [List.append_assoc] using hd1.append _)
        obtain ⟨l2r, hren2, hcase2⟩ := copyReplaced_spec hv2 hs ht sfx dict2 (out.length + cname.length + 10 + em1.length)
          (out ++ cname ++ ((pp.packet.drop r.ne).take 8 ++ [0, 0]) ++ em1) (by rw [List.length_append, hX0]) hd20
        have e1' := hgen1' (out ++ cname ++ (pp.packet.drop r.ne).take 10) (by simp [hh10]; omega)
        cases hcase2 with
        | inr h =>
          obtain ⟨hbig, herr⟩ := h
          right
          refine ⟨?_, e1, _, l2, l2r, by omega, by omega, hv2, hren2, hbig⟩
          unfold renameResponseItem
          simp only [hoff.1, hoff.2, unwrap, bind_ok, hrun1, failIf, DNS_RR_HEADER_SIZE, hnotsmall, Bool.false_eq_true,
            if_false, hsl10, hty, hcond1, hcond2, hcond3, if_true, hsf1, hrl1, e1', hn2, hsf2, hrl2, herr, bind_err]
        | inl h =>
          obtain ⟨hw2, dict3, em2, hgen2', hpos2', hle2', hall2'⟩ := h
          left
          have hrdl : (em1 ++ em2 ++ (pp.packet.drop e2).take 20).length = em1.length + em2.length + 20 := by
            simp only [List.length_append, hm]
          have hlt : em1.length + em2.length + 20 < 65536 := by rw [wireLen_eq] at hw1 hw2; omega
          have hX1 : (out ++ cname ++ ((pp.packet.drop r.ne).take 8 ++ put16 (em1 ++ em2 ++ (pp.packet.drop e2).take 20).length)).length =
              out.length + cname.length + 10 := by simp [hf8, put16]; omega
          obtain ⟨hd2, l1', hci1, hval1'⟩ := hall1' _ hX1 (by simpa [List.append_assoc] using hd1.append _)
          have hX2 : (out ++ cname ++ ((pp.packet.drop r.ne).take 8 ++ put16 (em1 ++ em2 ++ (pp.packet.drop e2).take 20).length) ++ em1).length =
              out.length + cname.length + 10 + em1.length := by rw [List.length_append, hX1]
          obtain ⟨hd3, l2', hci2, hval2'⟩ := hall2' _ hX2 hd2
          have e2' := hgen2' (out ++ cname ++ (pp.packet.drop r.ne).take 10 ++ em1) (by simp [hh10]; omega)
          have e3 : sub (out ++ cname ++ (pp.packet.drop r.ne).take 10 ++ em1 ++ em2 ++ (pp.packet.drop e2).take 20).length
              (out ++ cname ++ (pp.packet.drop r.ne).take 10).length =
              .ok (em1 ++ em2 ++ (pp.packet.drop e2).take 20).length := by
            rw [sub_returns_of_le (by simp)]
            congr 1; simp [hh10, hm]; omega
          have e4 : patch16 (out ++ cname ++ (pp.packet.drop r.ne).take 10 ++ em1 ++ em2 ++ (pp.packet.drop e2).take 20)
              ((out ++ cname).length + 8) (em1 ++ em2 ++ (pp.packet.drop e2).take 20).length =
              .ok (out ++ (cname ++ ((pp.packet.drop r.ne).take 8 ++ put16 (em1 ++ em2 ++ (pp.packet.drop e2).take 20).length ++
                (em1 ++ em2 ++ (pp.packet.drop e2).take 20)))) := by
            have assoc : out ++ cname ++ (pp.packet.drop r.ne).take 10 ++ em1 ++ em2 ++ (pp.packet.drop e2).take 20 =
                (out ++ cname) ++ (pp.packet.drop r.ne).take 10 ++ (em1 ++ em2 ++ (pp.packet.drop e2).take 20) := by simp
            rw [assoc, patch16_mid (out ++ cname) ((pp.packet.drop r.ne).take 10) _ _ (by omega) (by rw [hrdl]; exact hlt)]
            have t8 : ((pp.packet.drop r.ne).take 10).take 8 = (pp.packet.drop r.ne).take 8 := by rw [List.take_take]; simp
            have d10 : ((pp.packet.drop r.ne).take 10).drop 10 = [] := by apply List.drop_of_length_le; omega
            rw [t8, d10]; simp
          refine ⟨dict3, cname ++ ((pp.packet.drop r.ne).take 8 ++ put16 (em1 ++ em2 ++ (pp.packet.drop e2).take 20).length ++
            (em1 ++ em2 ++ (pp.packet.drop e2).take 20)), ?_,
            by simpa [List.append_assoc] using hd3.append ((pp.packet.drop e2).take 20), ?_⟩
          · unfold renameResponseItem
            simp only [hoff.1, hoff.2, unwrap, bind_ok, hrun1, failIf, DNS_RR_HEADER_SIZE, hnotsmall, Bool.false_eq_true,
              if_false, hsl10, hty, hcond1, hcond2, hcond3, if_true, hsf1, hrl1, e1', hn2, hsf2, hrl2, e2', hn3, hslm, e3,
              DNS_RR_RDLEN_OFFSET, e4, pure_eq]
          · intro tl
            have v1 := hval1' (em2 ++ (pp.packet.drop e2).take 20 ++ tl)
            have v2 := hval2' ((pp.packet.drop e2).take 20 ++ tl)
            have hv1B : ValidName (out ++ cname ++ ((pp.packet.drop r.ne).take 8 ++
                put16 (em1 ++ em2 ++ (pp.packet.drop e2).take 20).length ++ (em1 ++ em2 ++ (pp.packet.drop e2).take 20)) ++ tl)
                (out.length + cname.length + 10) l1' (out.length + cname.length + 10 + em1.length) := by
              simpa [List.append_assoc] using v1
            have hv2B : ValidName (out ++ cname ++ ((pp.packet.drop r.ne).take 8 ++
                put16 (em1 ++ em2 ++ (pp.packet.drop e2).take 20).length ++ (em1 ++ em2 ++ (pp.packet.drop e2).take 20)) ++ tl)
                (out.length + cname.length + 10 + em1.length) l2' (out.length + cname.length + 10 + em1.length + em2.length) := by
              simpa [List.append_assoc] using v2
            have e20 : out.length + cname.length + 10 + (em1 ++ em2 ++ (pp.packet.drop e2).take 20).length - 20 =
                out.length + cname.length + 10 + em1.length + em2.length := by rw [hrdl]; omega
            have hfr := record_frame hr out cname owner' hval1 hopt (em1 ++ em2 ++ (pp.packet.drop e2).take 20)
              (by rw [hrdl]; exact hlt) tl (by
              simp only [h41, if_false]
              unfold RDataOK; simp only [hns, hmx, hsoa, if_true, if_false]
              rw [eB]
              exact ⟨by rw [hrdl]; omega, _, _, ⟨l1', hv1B⟩, ⟨l2', hv2B⟩, by rw [hrdl]; omega⟩)
            simp only at hfr
            obtain ⟨f1, f2, f3, f4, f5⟩ := hfr
            refine ⟨_, f1, f2, owner, ownr, owner', hvo, hreno, f5, hcio, f3, ?_⟩
            simp only
            rw [f4]
            unfold RdRen; simp only [hns, hmx, hsoa, if_true, if_false]
            rw [eB]
            have hwin : ((out ++ cname ++ ((pp.packet.drop r.ne).take 8 ++
                put16 (em1 ++ em2 ++ (pp.packet.drop e2).take 20).length ++ (em1 ++ em2 ++ (pp.packet.drop e2).take 20)) ++ tl).drop
                  (out.length + cname.length + 10 + em1.length + em2.length)).take 20 = (pp.packet.drop e2).take 20 := by
              have := window_eq (u := out ++ cname ++ ((pp.packet.drop r.ne).take 8 ++
                  put16 (em1 ++ em2 ++ (pp.packet.drop e2).take 20).length ++ (em1 ++ em2 ++ (pp.packet.drop e2).take 20)) ++ tl)
                (A := out ++ cname ++ ((pp.packet.drop r.ne).take 8 ++
                  put16 (em1 ++ em2 ++ (pp.packet.drop e2).take 20).length) ++ em1 ++ em2)
                (w := (pp.packet.drop e2).take 20) (B := tl) (by simp)
              have hA : (out ++ cname ++ ((pp.packet.drop r.ne).take 8 ++
                  put16 (em1 ++ em2 ++ (pp.packet.drop e2).take 20).length) ++ em1 ++ em2).length =
                  out.length + cname.length + 10 + em1.length + em2.length := by
                simp only [List.length_append, hf8, put16, List.length_cons, List.length_nil]
              rw [hA, hm] at this; exact this
            have hmeta : r.ne + 10 + get16 pp.packet (r.ne + 8) - 20 = e2 := by omega
            refine ⟨l1, l2, l1r, l2r, l1', l2', e1, _, hv1, by rw [hmeta]; exact hv2, hren1, hren2, hv1B, ?_, hci1, hci2, ?_⟩
            · rw [e20]; exact hv2B
            · rw [e20, hmeta]; exact hwin
    have hcond3 : (get16 pp.packet r.ne == TYPE_SOA) = false := by consts; simp [hsoa]
    -- every other type: the data is copied
    left
    have hsll : slice pp.packet r.ne (r.ne + 10 + get16 pp.packet (r.ne + 8)) =
        .ok ((pp.packet.drop r.ne).take (10 + get16 pp.packet (r.ne + 8))) := by
      rw [slice_ok ⟨by omega, by omega⟩]
      have : r.ne + 10 + get16 pp.packet (r.ne + 8) - r.ne = 10 + get16 pp.packet (r.ne + 8) := by omega
      rw [this]
    have hrdl : ((pp.packet.drop (r.ne + 10)).take (get16 pp.packet (r.ne + 8))).length = get16 pp.packet (r.ne + 8) :=
      length_take_drop hfit'
    have hd10 : ((pp.packet.drop r.ne).take (10 + get16 pp.packet (r.ne + 8))).drop 10 =
        (pp.packet.drop (r.ne + 10)).take (get16 pp.packet (r.ne + 8)) := by
      rw [List.drop_take, List.drop_drop]; simp
    have hpiece : out ++ cname ++ (pp.packet.drop r.ne).take 10 ++ (pp.packet.drop (r.ne + 10)).take (get16 pp.packet (r.ne + 8)) =
        out ++ (cname ++ ((pp.packet.drop r.ne).take 8 ++
          put16 ((pp.packet.drop (r.ne + 10)).take (get16 pp.packet (r.ne + 8))).length ++
          (pp.packet.drop (r.ne + 10)).take (get16 pp.packet (r.ne + 8)))) := by
      rw [take10_split h10, hrdl]; simp
    refine ⟨dict1, cname ++ ((pp.packet.drop r.ne).take 8 ++
      put16 ((pp.packet.drop (r.ne + 10)).take (get16 pp.packet (r.ne + 8))).length ++
      (pp.packet.drop (r.ne + 10)).take (get16 pp.packet (r.ne + 8))), ?_, by simpa [List.append_assoc] using hd1.append _, ?_⟩
    · unfold renameResponseItem
      simp only [hoff.1, hoff.2, unwrap, bind_ok, hrun1, failIf, DNS_RR_HEADER_SIZE, hnotsmall, Bool.false_eq_true,
        if_false, hsl10, hty, hcond1, hcond2, hcond3, hlen, hsll, pure_eq, hd10, hpiece]
    · intro tl
      have hlt := get16_lt pp.packet (r.ne + 8)
      have hbody' : if get16 pp.packet r.ne = 41 then
            ∃ n, OptionsTile pp.packet (r.ne + 10) (r.ne + 10 + get16 pp.packet (r.ne + 8)) n
          else RDataOK pp.packet (get16 pp.packet r.ne) (get16 pp.packet (r.ne + 8)) (r.ne + 10) := by
        by_cases h41 : get16 pp.packet r.ne = 41
        · simp only [h41, if_true] at hbody ⊢
          obtain ⟨_, _, _, _, n, ht⟩ := hbody
          exact ⟨n, by rw [← hnext]; exact ht⟩
        · simp only [h41, if_false] at hbody ⊢
          exact hbody.1
      have hrdc : RdCanon pp.packet (get16 pp.packet r.ne) (get16 pp.packet (r.ne + 8)) (r.ne + 10)
          ((pp.packet.drop (r.ne + 10)).take (get16 pp.packet (r.ne + 8))) := by
        unfold RdCanon; simp only [hns, hmx, hsoa, if_false]
      have hA : (out ++ (cname ++ ((pp.packet.drop r.ne).take 8 ++
          put16 ((pp.packet.drop (r.ne + 10)).take (get16 pp.packet (r.ne + 8))).length))).length =
          out.length + cname.length + 10 := by
        simp only [List.length_append, hf8, put16, List.length_cons, List.length_nil]; omega
      obtain ⟨_, hb', _⟩ := rdcanon_placed hfit' hlt hbody' hrdc
        (u := out ++ (cname ++ ((pp.packet.drop r.ne).take 8 ++
          put16 ((pp.packet.drop (r.ne + 10)).take (get16 pp.packet (r.ne + 8))).length ++
          (pp.packet.drop (r.ne + 10)).take (get16 pp.packet (r.ne + 8)))) ++ tl)
        (A := out ++ (cname ++ ((pp.packet.drop r.ne).take 8 ++
          put16 ((pp.packet.drop (r.ne + 10)).take (get16 pp.packet (r.ne + 8))).length)))
        (B := tl) (by simp)
      rw [hA] at hb'
      have hfr := record_frame hr out cname owner' hval1 hopt
        ((pp.packet.drop (r.ne + 10)).take (get16 pp.packet (r.ne + 8))) (by rw [hrdl]; exact hlt) tl hb'
      simp only at hfr
      obtain ⟨f1, f2, f3, f4, f5⟩ := hfr
      refine ⟨_, f1, f2, owner, ownr, owner', hvo, hreno, f5, hcio, f3, ?_⟩
      simp only
      rw [f4]
      unfold RdRen; simp only [hns, hmx, hsoa, if_false]
      refine ⟨hrdl, ?_⟩
      have := window_eq (u := out ++ (cname ++ ((pp.packet.drop r.ne).take 8 ++
          put16 ((pp.packet.drop (r.ne + 10)).take (get16 pp.packet (r.ne + 8))).length ++
          (pp.packet.drop (r.ne + 10)).take (get16 pp.packet (r.ne + 8)))) ++ tl)
        (A := out ++ (cname ++ ((pp.packet.drop r.ne).take 8 ++
          put16 ((pp.packet.drop (r.ne + 10)).take (get16 pp.packet (r.ne + 8))).length)))
        (w := (pp.packet.drop (r.ne + 10)).take (get16 pp.packet (r.ne + 8))) (B := tl) (by simp)
      rw [hA, hrdl] at this
      rw [hrdl]
      exact this

end Dns
