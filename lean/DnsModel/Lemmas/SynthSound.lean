/-
  Lemmas.SynthSound — whatever record synthesis returns is a record given from the inside
  (`piece_standalone` applies): owner from the host-name grammar, class IN, data of the type's shape.
-/
import DnsModel.Lemmas.Piece
import DnsModel.Theorems.C14
namespace Dns
open Res

/-! ### `copy_raw_name_from_str` appends -/

theorem rawNameLoop_prefix (name raw : Bytes) : ∀ (l : List UInt8) (i : Nat) (st : NameSt),
    rawNameLoop name l i { st with out := raw ++ st.out } =
      (rawNameLoop name l i st >>= fun s => .ok { s with out := raw ++ s.out }) := by
  intro l
  induction l with
  | nil => intro i st; simp [rawNameLoop]
  | cons c rest ih =>
    intro i st
    unfold rawNameLoop
    split
    · split
      · simp
      · exact ih _ _
    · split
      · have := ih (i + 1) { st with out := st.out ++ [UInt8.ofNat st.labelLen] ++ (name.drop st.labelStart).take (i - st.labelStart), labelLen := 0 }
        simpa [List.append_assoc] using this
      · split
        · simp
        · split
          · simp
          · split
            · have := ih (i + 1) { st with labelStart := i, labelLen := 1 }
              simpa using this
            · have := ih (i + 1) { st with labelLen := st.labelLen + 1 }
              simpa using this

theorem copyRaw_prefix (raw name : Bytes) :
    copyRawNameFromStr raw name none = (copyRawNameFromStr [] name none >>= fun o => .ok (raw ++ o)) := by
  unfold copyRawNameFromStr
  by_cases hl : name.length > 253
  · simp [failIf, hl]
  · simp only [failIf, hl, decide_false, Bool.false_eq_true, if_false, bind_ok, List.length_nil, Nat.sub_zero]
    have h := rawNameLoop_prefix name raw name 0 { out := [] }
    simp only [List.append_nil] at h
    rw [h]
    cases hr : rawNameLoop name name 0 { out := [] } with
    | ok st =>
      simp only [bind_ok]
      have e : ∀ x, raw.length + x - raw.length = x := fun x => by omega
      by_cases hz : (st.labelLen == 0) = true
      · simp only [hz, if_true, List.length_append, List.length_cons, List.length_nil, Nat.add_assoc, e]
        by_cases hb : st.out.length + (0 + 1) > 253
        · simp [hb]
        · simp [hb, List.append_assoc]
      · simp only [hz, Bool.false_eq_true, if_false, List.length_append, List.length_cons, List.length_nil, List.length_drop,
          Nat.add_assoc, e]
        by_cases hb : st.out.length + (0 + 1 + (name.length - st.labelStart + (0 + 1))) > 253
        · simp [hb]
        · simp [hb, List.append_assoc]
    | err e => simp
    | panic => simp
    | diverge => simp

end Dns

namespace Dns
open Res

/-- characters the host-name grammar lets through -/
def hostChar (c : UInt8) : Bool := c == 46 || c == 45 || c == 95 || isAlpha c || isDigit c

theorem hostPred_char (st : HostSt) (c : UInt8) (h : (hostPred st c).2 = true) : hostChar c = true := by
  unfold hostPred at h
  unfold hostChar
  by_cases h46 : (c == 46) = true
  · simp [h46]
  · simp only [h46, Bool.false_and, Bool.false_eq_true, if_false] at h
    split at h
    · simp at h
    · split at h
      · rename_i hc
        simp only [Bool.or_eq_true, Bool.and_eq_true] at hc
        rcases hc with (hc | hc) | hc
        · simp [hc.1]
        · simp [hc.1]
        · simp [hc]
      · split at h
        · rename_i hd; simp [hd]
        · simp at h

theorem hostLoop_chars : ∀ (i : Bytes) (st : HostSt) (acc : Bytes) (st' : HostSt) (name rest : Bytes),
    hostLoop i st acc = (st', name, rest) → (∀ c ∈ acc, hostChar c = true) → ∀ c ∈ name, hostChar c = true := by
  intro i
  induction i with
  | nil =>
    intro st acc st' name rest h hacc
    simp [hostLoop] at h
    obtain ⟨_, rfl, _⟩ := h
    intro c hc
    exact hacc c (by simpa using hc)
  | cons x r ih =>
    intro st acc st' name rest h hacc
    unfold hostLoop at h
    cases hp : hostPred st x with
    | mk s2 ok =>
      rw [hp] at h
      simp only at h
      by_cases hok : ok = true
      · simp only [hok, if_true] at h
        apply ih s2 (x :: acc) st' name rest h
        intro c hc
        simp at hc
        rcases hc with rfl | hc
        · have := hostPred_char st c (by rw [hp]; exact hok)
          exact this
        · exact hacc c hc
      · simp only [hok, Bool.false_eq_true, if_false, Prod.mk.injEq] at h
        obtain ⟨_, rfl, _⟩ := h
        intro c hc
        exact hacc c (by simpa using hc)

theorem hostnameP_chars {i name rest : Bytes} (h : hostnameP i = some (name, rest)) : ∀ c ∈ name, hostChar c = true := by
  unfold hostnameP at h
  cases hl : hostLoop i {} [] with
  | mk st nr =>
    obtain ⟨n, r⟩ := nr
    rw [hl] at h
    simp only at h
    split at h
    · simp at h
    · split at h
      · simp at h
      · simp at h
        obtain ⟨rfl, _⟩ := h
        exact hostLoop_chars i {} [] st n r hl (by simp)

theorem hostChar_good_fin : ∀ b : Fin 256, hostChar (UInt8.ofNat b.val) = true → b.val ≠ 46 → badChar b.val = false := by
  decide +kernel

theorem hostChar_good (c : UInt8) (h : hostChar c = true) (h46 : c ≠ 46) : badChar c.toNat = false := by
  have := hostChar_good_fin ⟨c.toNat, c.toNat_lt⟩ (by simpa using h) (by
    intro e
    apply h46
    have : c = UInt8.ofNat c.toNat := by simp
    rw [this]; simp at e; simp [e])
  simpa using this

theorem goodChars_of_host {l : Bytes} (h : ∀ c ∈ l, hostChar c = true ∧ c ≠ 46) : goodChars l = true := by
  unfold goodChars
  simp only [Bool.not_eq_true', List.any_eq_false]
  intro c hc
  have := hostChar_good c (h c hc).1 (h c hc).2
  simp [this]

theorem mem_dotted {l : Bytes} {done : List Bytes} (h : l ∈ done) : ∀ c ∈ l, c ∈ dotted done := by
  intro c hc
  unfold dotted
  simp only [List.mem_flatMap]
  exact ⟨l, h, by simp [hc]⟩

/-- **a host name of the grammar converts to good labels** -/
theorem hostname_labels {i name rest raw : Bytes} (hp : hostnameP i = some (name, rest))
    (hr : rawNameFromStr name none = .ok raw) : ∃ ls, GoodLabels ls ∧ raw = encLabels ls ++ [0] := by
  have hch := hostnameP_chars hp
  obtain ⟨_, hlen, hcase⟩ := C14.from_text_sound hr
  rcases hcase with ⟨_, rfl⟩ | ⟨done, cur, hname, hd, hc, hraw⟩
  · exact ⟨[], ⟨by simp, by simp [wireLen], by simp⟩, by simp [encLabels]⟩
  · refine ⟨C14.labelsOf done cur, ⟨?_, ?_, ?_⟩, ?_⟩
    · exact fun l hl => C14.okLabel_of_text (C14.labelsOf_text hd hc l hl)
    · have : raw.length = labSum (C14.labelsOf done cur) + 1 := by
        rw [hraw]; by_cases h : cur = [] <;> simp [h, encLabels_length]
      rw [wireLen_eq]; omega
    · intro l hl
      apply goodChars_of_host
      intro c hcl
      have ht := C14.labelsOf_text hd hc l hl
      refine ⟨?_, (ht.2.2 c hcl).1⟩
      apply hch
      rw [hname]
      unfold C14.labelsOf at hl
      by_cases hcur : cur = []
      · simp only [hcur, if_true] at hl
        simp [mem_dotted hl c hcl]
      · simp only [hcur, if_false] at hl
        rcases List.mem_append.1 hl with h | h
        · simp [mem_dotted h c hcl]
        · simp at h; subst h; simp [hcl]
    · rw [hraw]; by_cases h : cur = [] <;> simp [h]

end Dns

namespace Dns
open Res

theorem put32_length (n : Nat) : (put32 n).length = 4 := by simp [put32, put16]

theorem get16_put16_head (v : Nat) (hv : v < 65536) (t : Bytes) : get16 (put16 v ++ t) 0 = v := by
  have := get16_put16_at (u := put16 v ++ t) (A := []) (B := t) (v := v) (by simp) hv
  simpa using this

/-- what `RR::new` returns -/
theorem rrNew_shape {h : RRHeader} {rd rr : Bytes} (hr : rrNew h rd = .ok rr) :
    ∃ raw, rawNameFromStr h.name none = .ok raw ∧ rd.length < 65536 ∧
      rr = raw ++ (put16 h.rrType ++ put16 CLASS_IN ++ put32 h.ttl) ++ put16 rd.length ++ rd := by
  unfold rrNew at hr
  simp only [failIf] at hr
  split at hr
  · simp at hr
  rename_i hlen
  simp only [bind_ok] at hr
  cases hc : copyRawNameFromStr [] h.name none with
  | ok raw =>
    rw [hc] at hr
    simp only [bind_ok, pure_eq, ok.injEq] at hr
    refine ⟨raw, hc, by simp at hlen; omega, ?_⟩
    rw [← hr]; simp [List.append_assoc]
  | err e => rw [hc] at hr; simp at hr
  | panic => rw [hc] at hr; simp at hr
  | diverge => rw [hc] at hr; simp at hr

/-- the header `common` part: the owner is a host name of the grammar and the type is one of the nine -/
theorem commonP_facts {s i : Bytes} {h : RRHeader} (hc : commonP s = some (h, i)) :
    (∃ i0 rest, hostnameP i0 = some (h.name, rest)) ∧
      (h.rrType = 1 ∨ h.rrType = 28 ∨ h.rrType = 2 ∨ h.rrType = 5 ∨ h.rrType = 12 ∨ h.rrType = 16 ∨ h.rrType = 15 ∨
        h.rrType = 6 ∨ h.rrType = 43) := by
  unfold commonP at hc
  simp only [Option.bind_eq_bind, Option.bind_eq_some_iff, Option.pure_def, Option.some.injEq, Prod.mk.injEq] at hc
  obtain ⟨⟨name, i1⟩, hhost, ⟨ttl, i2⟩, _, i3, _, i4, _, i5, _, i6, _, ⟨ts, i7⟩, _, t, hty, i8, _, hh, _⟩ := hc
  subst hh
  refine ⟨⟨_, _, hhost⟩, ?_⟩
  simp only
  unfold rrTypeOfStr at hty
  consts
  repeat (split at hty; (simp at hty; subst hty; simp))
  simp at hty

end Dns

namespace Dns
open Res

theorem v6Groups_length : ∀ (limit idx : Nat) (i : Bytes) (acc : List Nat),
    (v6Groups limit idx i acc).1.length ≤ acc.length + limit := by
  intro limit
  induction limit with
  | zero => intro idx i acc; simp [v6Groups]
  | succ n ih =>
    intro idx i acc
    unfold v6Groups
    simp only
    split
    · rename_i g i' _
      have := ih (idx + 1) i' (g :: acc)
      simp at this ⊢; omega
    · simp

theorem flatten_put16_length (gs : List Nat) : ((gs.map put16).flatten).length = 2 * gs.length := by
  induction gs with
  | nil => rfl
  | cons g gs ih => simp [put16, ih]; omega

theorem ipv6FromStr_length {s b : Bytes} (h : ipv6FromStr s = some b) : b.length = 16 := by
  unfold ipv6FromStr at h
  cases hg : v6Groups 8 0 s [] with
  | mk head i =>
    rw [hg] at h
    simp only at h
    have hhl : head.length ≤ 8 := by have := v6Groups_length 8 0 s []; rw [hg] at this; simpa using this
    by_cases h8 : (head.length == 8) = true
    · simp only [h8, if_true] at h
      split at h
      · simp at h; rw [← h, flatten_put16_length]; simp at h8; omega
      · simp at h
    · simp only [h8, Bool.false_eq_true, if_false] at h
      cases ht1 : tokenP 58 i with
      | none => rw [ht1] at h; simp at h
      | some i1 =>
        rw [ht1] at h
        simp only at h
        cases ht2 : tokenP 58 i1 with
        | none => rw [ht2] at h; simp at h
        | some i2 =>
          rw [ht2] at h
          simp only at h
          cases hg2 : v6Groups (8 - (head.length + 1)) 0 i2 [] with
          | mk tail i3 =>
            rw [hg2] at h
            simp only at h
            have htl : tail.length ≤ 8 - (head.length + 1) := by
              have := v6Groups_length (8 - (head.length + 1)) 0 i2 []; rw [hg2] at this; simpa using this
            split at h
            · simp only [Option.map_some, Option.some.injEq] at h
              rw [← h, flatten_put16_length]
              simp at h8
              simp; omega
            · simp at h

theorem decimalMax_le {max : Nat} {i rest : Bytes} {n : Nat} (h : decimalMax max i = some (n, rest)) : n ≤ max := by
  unfold decimalMax at h
  cases ht : takeWhile1 isDigit i with
  | none => rw [ht] at h; simp at h
  | some x =>
    obtain ⟨ds, r⟩ := x
    rw [ht] at h
    simp only [Option.map_eq_some_iff, Prod.mk.injEq] at h
    obtain ⟨v, hv, rfl, _⟩ := h
    -- invariant of the fold: the accumulator never exceeds max
    have : ∀ (l : Bytes) (a : Option Nat), (∀ x, a = some x → x ≤ max) →
        ∀ y, l.foldl (fun (acc : Option Nat) d =>
          match acc with
          | none => none
          | some a =>
            let m := a * 10
            if m > max then none else
            let s := m + (d.toNat - 48)
            if s > max then none else some s) a = some y → y ≤ max := by
      intro l
      induction l with
      | nil => intro a ha y hy; simp at hy; exact ha y hy
      | cons d l ih =>
        intro a ha y hy
        simp only [List.foldl_cons] at hy
        apply ih _ _ y hy
        intro x hx
        cases a with
        | none => simp at hx
        | some a0 =>
          simp only at hx
          split at hx
          · simp at hx
          · split at hx
            · simp at hx
            · simp at hx; omega
    exact this ds (some 0) (by intro x hx; simp at hx; omega) v hv

end Dns

namespace Dns
open Res

/-- a record given from the inside, of class IN -/
def InRecord (rr : Bytes) : Prop :=
  ∃ owner f8 rd, GoodLabels owner ∧ f8.length = 8 ∧ rd.length < 65536 ∧ get16 f8 0 ≠ 41 ∧ get16 f8 2 = 1 ∧
    RdPlainI (get16 f8 0) rd ∧ rr = (encLabels owner ++ [0]) ++ f8 ++ put16 rd.length ++ rd

theorem f8_facts (t ttl : Nat) (ht : t < 65536) :
    (put16 t ++ put16 CLASS_IN ++ put32 ttl).length = 8 ∧ get16 (put16 t ++ put16 CLASS_IN ++ put32 ttl) 0 = t ∧
      get16 (put16 t ++ put16 CLASS_IN ++ put32 ttl) 2 = 1 := by
  refine ⟨by simp [put16, put32], ?_, ?_⟩
  · rw [List.append_assoc]; exact get16_put16_head t ht _
  · have := get16_put16_at (u := put16 t ++ put16 CLASS_IN ++ put32 ttl) (A := put16 t) (B := put32 ttl) (v := CLASS_IN) rfl
      (by decide)
    simpa [put16] using this

/-- from `RR::new` with a host-name owner and data of the type's shape to `InRecord` -/
theorem inRecord_of_rrNew {h : RRHeader} {rd rr : Bytes} (hr : rrNew h rd = .ok rr)
    (hown : ∃ i0 rest, hostnameP i0 = some (h.name, rest)) (ht : h.rrType < 65536) (h41 : h.rrType ≠ 41)
    (hrd : RdPlainI h.rrType rd) : InRecord rr := by
  obtain ⟨raw, hraw, hlt, hrr⟩ := rrNew_shape hr
  obtain ⟨i0, rest, hp⟩ := hown
  obtain ⟨owner, hgo, hro⟩ := hostname_labels hp hraw
  obtain ⟨f1, f2, f3⟩ := f8_facts h.rrType h.ttl ht
  exact ⟨owner, _, rd, hgo, f1, hlt, by rw [f2]; exact h41, f3, by rw [f2]; exact hrd, by rw [hrr, hro]⟩

theorem rdataP_sound {h : RRHeader} {i : Bytes} {r : Res Bytes} {rr : Bytes} (hp : rdataP h i = some r) (hr : r = .ok rr)
    (hown : ∃ i0 rest, hostnameP i0 = some (h.name, rest)) : InRecord rr := by
  subst hr
  unfold rdataP at hp
  consts
  split at hp
  · -- A
    rename_i ht
    have ht' : h.rrType = 1 := by simpa using ht
    simp only [Option.bind_eq_bind, Option.bind_eq_some_iff, Option.pure_def, Option.some.injEq] at hp
    obtain ⟨⟨ip, i1⟩, hip, _, _, hnew⟩ := hp
    refine inRecord_of_rrNew hnew hown (by omega) (by omega) ?_
    unfold ipv4P at hip
    simp only [Option.bind_eq_bind, Option.bind_eq_some_iff, Option.pure_def, Option.some.injEq, Prod.mk.injEq] at hip
    obtain ⟨_, _, _, _, _, _, _, _, _, _, _, _, _, _, hipeq, _⟩ := hip
    unfold RdPlainI
    simp [ht', ← hipeq]
  split at hp
  · -- AAAA
    rename_i _ ht
    have ht' : h.rrType = 28 := by simpa using ht
    simp only [Option.bind_eq_bind, Option.bind_eq_some_iff, Option.pure_def, Option.some.injEq] at hp
    obtain ⟨⟨ip, i1⟩, hip, _, _, hnew⟩ := hp
    refine inRecord_of_rrNew hnew hown (by omega) (by omega) ?_
    unfold ipv6P at hip
    cases htw : takeWhile1 (fun c => isHexDigit c || c == 58) i with
    | none => rw [htw] at hip; simp at hip
    | some x =>
      rw [htw] at hip
      simp only [Option.map_eq_some_iff, Prod.mk.injEq] at hip
      obtain ⟨a, ha, rfl, _⟩ := hip
      unfold RdPlainI
      simp [ht', ipv6FromStr_length ha]
  split at hp
  · -- NS / CNAME / PTR
    rename_i _ _ ht
    have ht' : h.rrType = 2 ∨ h.rrType = 5 ∨ h.rrType = 12 := by simpa [or_assoc] using ht
    simp only [Option.bind_eq_bind, Option.bind_eq_some_iff, Option.pure_def, Option.some.injEq] at hp
    obtain ⟨⟨n, i1⟩, hn, _, _, hnew⟩ := hp
    unfold buildName at hnew
    cases hraw : rawNameFromStr n none with
    | ok raw =>
      rw [hraw] at hnew
      simp only [bind_ok] at hnew
      obtain ⟨ls, hgl, hls⟩ := hostname_labels hn hraw
      refine inRecord_of_rrNew hnew hown (by omega) (by omega) ?_
      unfold RdPlainI; simp only [ht', if_true]
      exact ⟨ls, hgl, hls⟩
    | err e => rw [hraw] at hnew; simp at hnew
    | panic => rw [hraw] at hnew; simp at hnew
    | diverge => rw [hraw] at hnew; simp at hnew
  split at hp
  · -- TXT
    rename_i _ _ _ ht
    have ht' : h.rrType = 16 := by simpa using ht
    simp only [Option.bind_eq_bind, Option.bind_eq_some_iff, Option.pure_def, Option.some.injEq] at hp
    obtain ⟨⟨t, i1⟩, _, _, _, hnew⟩ := hp
    unfold buildTxt at hnew
    simp only [failIf] at hnew
    split at hnew
    · simp at hnew
    simp only [bind_ok] at hnew
    refine inRecord_of_rrNew hnew hown (by omega) (by omega) ?_
    unfold RdPlainI; simp [ht']
  split at hp
  · -- MX
    rename_i _ _ _ _ ht
    have ht' : h.rrType = 15 := by simpa using ht
    simp only [Option.bind_eq_bind, Option.bind_eq_some_iff, Option.pure_def, Option.some.injEq] at hp
    obtain ⟨⟨pref, i1⟩, _, i2, _, ⟨n, i3⟩, hn, _, _, hnew⟩ := hp
    unfold buildMx at hnew
    rw [copyRaw_prefix] at hnew
    cases hraw : copyRawNameFromStr [] n none with
    | ok raw =>
      rw [hraw] at hnew
      simp only [bind_ok] at hnew
      obtain ⟨ls, hgl, hls⟩ := hostname_labels hn hraw
      refine inRecord_of_rrNew hnew hown (by omega) (by omega) ?_
      unfold RdPlainI
      have c1 : ¬ (h.rrType = 2 ∨ h.rrType = 5 ∨ h.rrType = 12) := by omega
      simp only [c1, ht', if_true, if_false]
      exact ⟨put16 pref, ls, rfl, hgl, by rw [hls]⟩
    | err e => rw [hraw] at hnew; simp at hnew
    | panic => rw [hraw] at hnew; simp at hnew
    | diverge => rw [hraw] at hnew; simp at hnew
  split at hp
  · -- SOA
    rename_i _ _ _ _ _ ht
    have ht' : h.rrType = 6 := by simpa using ht
    simp only [Option.bind_eq_bind, Option.bind_eq_some_iff, Option.pure_def, Option.some.injEq] at hp
    obtain ⟨⟨ns, i1⟩, hns, i2, _, ⟨ct, i3⟩, hct, i4, _, ⟨a, i5⟩, _, ⟨b, i6⟩, _, ⟨c, i7⟩, _, ⟨d, i8⟩, _, ⟨e, i9⟩, _, i10, _, _, _, hnew⟩ := hp
    unfold buildSoa at hnew
    cases hraw1 : copyRawNameFromStr [] ns none with
    | ok raw1 =>
      rw [hraw1] at hnew
      simp only [bind_ok] at hnew
      rw [copyRaw_prefix] at hnew
      cases hraw2 : copyRawNameFromStr [] ct none with
      | ok raw2 =>
        rw [hraw2] at hnew
        simp only [bind_ok] at hnew
        obtain ⟨l1, hg1, hl1⟩ := hostname_labels hns hraw1
        obtain ⟨l2, hg2, hl2⟩ := hostname_labels hct hraw2
        refine inRecord_of_rrNew hnew hown (by omega) (by omega) ?_
        unfold RdPlainI
        have c1 : ¬ (h.rrType = 2 ∨ h.rrType = 5 ∨ h.rrType = 12) := by omega
        have c2 : ¬ (h.rrType = 15) := by omega
        simp only [c1, c2, ht', if_true, if_false]
        exact ⟨l1, l2, ([a, b, c, d, e].map put32).flatten, hg1, hg2, by simp [put32, put16], by rw [hl1, hl2]⟩
      | err e => rw [hraw2] at hnew; simp at hnew
      | panic => rw [hraw2] at hnew; simp at hnew
      | diverge => rw [hraw2] at hnew; simp at hnew
    | err e => rw [hraw1] at hnew; simp at hnew
    | panic => rw [hraw1] at hnew; simp at hnew
    | diverge => rw [hraw1] at hnew; simp at hnew
  split at hp
  · -- DS
    rename_i _ _ _ _ _ _ ht
    have ht' : h.rrType = 43 := by simpa using ht
    simp only [Option.bind_eq_bind, Option.bind_eq_some_iff, Option.pure_def, Option.some.injEq] at hp
    obtain ⟨_, _, _, _, _, _, _, _, _, _, _, _, _, _, _, _, hnew⟩ := hp
    unfold buildDs at hnew
    refine inRecord_of_rrNew hnew hown (by omega) (by omega) ?_
    unfold RdPlainI; simp [ht']
  · simp at hp

/-- **whatever synthesis returns is a well-formed record of class IN** -/
theorem synth_inRecord {s rr : Bytes} (h : synth s = .ok rr) : InRecord rr := by
  unfold synth at h
  cases hc : commonP s with
  | none => rw [hc] at h; simp at h
  | some x =>
    obtain ⟨hd, i⟩ := x
    rw [hc] at h
    simp only at h
    cases hr : rdataP hd i with
    | none => rw [hr] at h; simp at h
    | some r =>
      rw [hr] at h
      simp only at h
      exact rdataP_sound hr h (commonP_facts hc).1

end Dns
