/-
  Lemmas.Bits — bit-level facts about 16-bit words stored big-endian in two bytes.
-/
import DnsModel.Packet
namespace Dns

theorem get16_eq_of_bytes {p : Bytes} {i hi lo : Nat} (h1 : byteAt p i = some hi) (h2 : byteAt p (i + 1) = some lo) :
    get16 p i = hi * 256 + lo := by simp [get16, getB, h1, h2]

/-- bit `j` of a word made of two bytes -/
theorem testBit_word (hi lo j : Nat) (hlo : lo < 256) :
    (hi * 256 + lo).testBit j = if j < 8 then lo.testBit j else hi.testBit (j - 8) := by
  have : hi * 256 + lo = 2 ^ 8 * hi + lo := by omega
  rw [this, Nat.testBit_two_pow_mul_add hi (by simpa using hlo)]

theorem div_mod_eq_of_bits {x y k n : Nat} (h : ∀ i, i < n → x.testBit (i + k) = y.testBit (i + k)) :
    x / 2 ^ k % 2 ^ n = y / 2 ^ k % 2 ^ n := by
  apply Nat.eq_of_testBit_eq
  intro i
  simp only [Nat.testBit_mod_two_pow, Nat.testBit_div_two_pow]
  by_cases hi : i < n
  · simp [hi, h i hi]
  · simp [hi]

theorem mod_eq_of_bits {x y n : Nat} (h : ∀ i, i < n → x.testBit i = y.testBit i) :
    x % 2 ^ n = y % 2 ^ n := by
  have := div_mod_eq_of_bits (k := 0) (n := n) (x := x) (y := y) (by simpa using h)
  simpa using this

theorem and_two_pow_eq (f k : Nat) : f &&& 2 ^ k = if f.testBit k then 2 ^ k else 0 := by
  apply Nat.eq_of_testBit_eq
  intro j
  rw [Nat.testBit_and, Nat.testBit_two_pow]
  by_cases hj : k = j
  · subst hj; cases f.testBit k <;> simp
  · cases hf : f.testBit k <;> simp [hj, Nat.testBit_two_pow]

theorem and_two_pow_beq (f k : Nat) : (f &&& 2 ^ k == 2 ^ k) = f.testBit k := by
  rw [and_two_pow_eq]
  have : 2 ^ k ≠ 0 := Nat.pos_iff_ne_zero.1 (Nat.two_pow_pos k)
  cases f.testBit k <;> simp [this, Ne.symm this]

theorem lt_16_cases {i : Nat} (h : i < 16) :
    i = 0 ∨ i = 1 ∨ i = 2 ∨ i = 3 ∨ i = 4 ∨ i = 5 ∨ i = 6 ∨ i = 7 ∨ i = 8 ∨ i = 9 ∨ i = 10 ∨ i = 11 ∨ i = 12
      ∨ i = 13 ∨ i = 14 ∨ i = 15 := by omega

theorem lt_8_cases {i : Nat} (h : i < 8) : i = 0 ∨ i = 1 ∨ i = 2 ∨ i = 3 ∨ i = 4 ∨ i = 5 ∨ i = 6 ∨ i = 7 := by omega

/-- closes goals of the form `boolean combination of (x.testBit c) and constants = …` for concrete `c` -/
macro "bits_decide" x:term:max y:term:max : tactic =>
  `(tactic| ((try generalize Nat.testBit $x _ = bx); (try generalize Nat.testBit $y _ = by'); decide +revert))

end Dns
