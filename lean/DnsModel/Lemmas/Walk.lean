/-
  Lemmas.Walk — on an accepted packet the section iterators visit exactly the records the policy
  relation describes, in wire order (towards C03).
-/
import DnsModel.Lemmas.Decode
import DnsModel.Lemmas.ParseSpec
namespace Dns
open Res

/-- where a record sits: start, end of the owner name as written, end of the record -/
structure RecPos where
  off : Nat
  ne : Nat
  next : Nat
  deriving Repr, DecidableEq

/-- `RRAt` with the end of the owner name exposed -/
def RRAtPos (p : Bytes) (sec : Section) (r : RecPos) (ob oa : Bool) : Prop :=
  NameEnds p r.off r.ne ∧ r.ne + 10 ≤ p.length ∧
    r.next = r.ne + 10 + get16 p (r.ne + 8) ∧ r.next ≤ p.length ∧
    if get16 p r.ne = 41 then
      sec = .additional ∧ r.ne = r.off + 1 ∧ ob = false ∧ oa = true ∧ ∃ n, OptionsTile p (r.ne + 10) r.next n
    else RDataOK p (get16 p r.ne) (get16 p (r.ne + 8)) (r.ne + 10) ∧ oa = ob

theorem RRAt_iff_pos (p : Bytes) (sec : Section) (off : Nat) (ob : Bool) (next : Nat) (oa : Bool) :
    RRAt p sec off ob next oa ↔ ∃ ne, RRAtPos p sec ⟨off, ne, next⟩ ob oa := by
  unfold RRAt RRAtPos
  constructor
  · rintro ⟨ne, h1, h2, h3, h4, h5⟩; exact ⟨ne, h1, h2, h3, h4, h5⟩
  · rintro ⟨ne, h1, h2, h3, h4, h5⟩; exact ⟨ne, h1, h2, h3, h4, h5⟩

/-- consecutive records with their positions -/
inductive RRsL (p : Bytes) (sec : Section) : List RecPos → Nat → Bool → Nat → Bool → Prop
  | nil (off : Nat) (o : Bool) : RRsL p sec [] off o off o
  | cons {r : RecPos} {l : List RecPos} {e : Nat} {ob om oe : Bool} :
      RRAtPos p sec r ob om → RRsL p sec l r.next om e oe → RRsL p sec (r :: l) r.off ob e oe

theorem RRs_to_list {p : Bytes} {sec : Section} {n off e : Nat} {ob oe : Bool} (h : RRs p sec n off ob e oe) :
    ∃ l, l.length = n ∧ RRsL p sec l off ob e oe := by
  induction h with
  | nil off o => exact ⟨[], rfl, RRsL.nil off o⟩
  | cons hr _ ih =>
    obtain ⟨l, hl, hrl⟩ := ih
    obtain ⟨ne, hpos⟩ := (RRAt_iff_pos _ _ _ _ _ _).1 hr
    exact ⟨⟨_, ne, _⟩ :: l, by simp [hl], RRsL.cons hpos hrl⟩

theorem skipRdata_eq {p : Bytes} {ne : Nat} (h : ne + 10 ≤ p.length) :
    skipRdata p ne = .ok (ne + 10 + get16 p (ne + 8)) := by
  unfold skipRdata
  consts
  rw [(be16_ok_of_le (p := p) (i := ne + 8) (by omega)).1]
  simp [Nat.add_assoc]

/-- landing the cursor on a record of the policy -/
theorem land_spec {p : Bytes} {sec : Section} {r : RecPos} {ob oa : Bool} (hr : RRAtPos p sec r ob oa)
    (c : Cursor) (hc : c.offsetNext = r.off) :
    Cursor.land p c = .ok { c with offset := some r.off, nameEnd := r.ne, offsetNext := r.next } := by
  obtain ⟨⟨ls, hv⟩, h10, hnext, _, _⟩ := hr
  unfold Cursor.land
  simp only [hc, skipName_valid hv.2.1 (by omega : r.ne < p.length), skipRdata_eq h10, bind_ok, pure_eq]
  simp [hnext]

/-- the cursors a walk yields -/
def collectWalk (pp : PP) (step : PP → Cursor → Res (Option Cursor)) : Nat → Cursor → Res (List Cursor)
  | 0, _ => .diverge
  | fuel+1, c =>
    match step pp c with
    | .ok none => .ok []
    | .ok (some c') => (collectWalk pp step fuel c').bind (fun l => .ok (c' :: l))
    | .err e => .err e
    | .panic => .panic
    | .diverge => .diverge

def posOf (c : Cursor) : Option RecPos := c.offset.map (fun o => ⟨o, c.nameEnd, c.offsetNext⟩)

/-- one step of the OPT-including walk from a live cursor standing before the records `r :: l` -/
theorem nextIncl_live {pp : PP} {sec : Section} {r : RecPos} {ob oa : Bool}
    (hr : RRAtPos pp.packet sec r ob oa) (c : Cursor) (o : Nat) (hlive : c.offset = some o)
    (hnext : c.offsetNext = r.off) (k : Nat) (hk : c.rrsLeft = k + 1) :
    nextIncludingOpt pp c = .ok (some { c with rrsLeft := k, offset := some r.off, nameEnd := r.ne, offsetNext := r.next }) := by
  unfold nextIncludingOpt
  simp only [hlive, pure_eq, bind_ok]
  have : (c.rrsLeft == 0) = false := by simp [hk]
  simp only [this, Bool.false_eq_true, if_false]
  have hl := land_spec hr { c with rrsLeft := c.rrsLeft - 1, offset := some o } (by simpa using hnext)
  simp only at hl
  rw [hl]
  simp [hk]

theorem nextIncl_done {pp : PP} (c : Cursor) (o : Nat) (hlive : c.offset = some o) (hk : c.rrsLeft = 0) :
    nextIncludingOpt pp c = .ok none := by
  unfold nextIncludingOpt
  simp [hlive, hk]

/-- the OPT-including walk from a live cursor: exactly the records of the list, in order -/
theorem collect_incl_live {pp : PP} {sec : Section} {l : List RecPos} {off e : Nat} {ob oe : Bool}
    (hl : RRsL pp.packet sec l off ob e oe) :
    ∀ (c : Cursor) (o : Nat) (fuel : Nat), c.offset = some o → c.offsetNext = off → c.rrsLeft = l.length →
      fuel > l.length →
      ∃ cs, collectWalk pp nextIncludingOpt fuel c = .ok cs ∧ cs.map posOf = l.map some ∧
        ∀ c' ∈ cs, c'.sec = c.sec := by
  induction hl with
  | nil off o =>
    intro c o' fuel hlive _ hk hf
    cases fuel with
    | zero => omega
    | succ n =>
      refine ⟨[], ?_, rfl, by simp⟩
      unfold collectWalk
      rw [nextIncl_done c o' hlive (by simpa using hk)]
  | @cons r l e ob om oe hr _ ih =>
    intro c o' fuel hlive hnext hk hf
    simp only [List.length_cons] at hk hf
    cases fuel with
    | zero => omega
    | succ n =>
      unfold collectWalk
      rw [nextIncl_live hr c o' hlive hnext l.length hk]
      simp only
      obtain ⟨cs, h1, h2, h3⟩ := ih { c with rrsLeft := l.length, offset := some r.off, nameEnd := r.ne, offsetNext := r.next }
        r.off n rfl rfl rfl (by omega)
      refine ⟨_ :: cs, by rw [h1]; rfl, by simp [posOf, h2], ?_⟩
      intro c' hc'
      simp at hc'
      rcases hc' with rfl | hc'
      · rfl
      · exact h3 c' hc'

end Dns

namespace Dns
open Res

theorem rrType_at {p : Bytes} {c : Cursor} {o : Nat} (ho : c.offset = some o) (h : c.nameEnd + 10 ≤ p.length) :
    c.rrType p = .ok (get16 p c.nameEnd) := by
  unfold Cursor.rrType
  have h1 : sliceFrom p c.nameEnd = .ok (p.drop c.nameEnd) := by simp [sliceFrom]; omega
  simp only [ho, unwrap, bind_ok, h1]
  consts
  simpa using (be16_ok_of_le (p := p) (i := c.nameEnd) (by omega)).1

/-- records that are not the OPT pseudo-record -/
def nonOpt (p : Bytes) (l : List RecPos) : List RecPos := l.filter (fun r => get16 p r.ne != 41)

/-- after an OPT record has been seen (`ob = true`) no record of the list is OPT -/
theorem RRsL.no_opt_after {p : Bytes} {sec : Section} {l : List RecPos} {off e : Nat} {oe : Bool}
    (h : RRsL p sec l off true e oe) : ∀ r ∈ l, get16 p r.ne ≠ 41 := by
  generalize hob : true = ob at h
  induction h with
  | nil => intro r hr; simp at hr
  | @cons r l e ob om oe hr _ ih =>
    subst hob
    intro r' hr'
    have hne : get16 p r.ne ≠ 41 := by
      intro h41
      have := hr.2.2.2.2
      simp only [h41, if_true] at this
      exact absurd this.2.2.1 (by simp)
    have hom : om = true := by
      have := hr.2.2.2.2
      simp only [hne, if_false] at this
      exact this.2
    simp at hr'
    rcases hr' with rfl | hr'
    · exact hne
    · exact ih (by rw [hom]) r' hr'

theorem RRsL.cons_inv {p : Bytes} {sec : Section} {r : RecPos} {l : List RecPos} {off e : Nat} {ob oe : Bool}
    (h : RRsL p sec (r :: l) off ob e oe) :
    off = r.off ∧ ∃ om, RRAtPos p sec r ob om ∧ RRsL p sec l r.next om e oe := by
  generalize hL : r :: l = L at h
  cases h with
  | nil => simp at hL
  | @cons r' l' e' ob' om oe' hr hrest =>
    simp at hL
    obtain ⟨rfl, rfl⟩ := hL
    exact ⟨rfl, om, hr, hrest⟩

/-- skipping step onto a record that is not OPT -/
theorem nextSkip_nonopt {pp : PP} {sec : Section} {r : RecPos} {ob oa : Bool}
    (hr : RRAtPos pp.packet sec r ob oa) (h41 : get16 pp.packet r.ne ≠ 41) (c : Cursor) (o : Nat)
    (hlive : c.offset = some o) (hnext : c.offsetNext = r.off) (k : Nat) (hk : c.rrsLeft = k + 1) :
    nextSkippingOpt pp c = .ok (some { c with rrsLeft := k, offset := some r.off, nameEnd := r.ne, offsetNext := r.next }) := by
  have h10 : r.ne + 10 ≤ pp.packet.length := hr.2.1
  unfold nextSkippingOpt
  rw [nextIncl_live hr c o hlive hnext k hk]
  simp only [bind_ok]
  unfold maybeSkipOpt
  rw [rrType_at (o := r.off) rfl (by simpa using h10)]
  consts
  have c41 : (get16 pp.packet r.ne == 41) = false := by simp [h41]
  simp only [bind_ok, c41, Bool.false_eq_true, if_false, pure_eq]

/-- skipping step onto an OPT record that is the last of its section: end of the walk -/
theorem nextSkip_opt_last {pp : PP} {sec : Section} {r : RecPos} {ob oa : Bool}
    (hr : RRAtPos pp.packet sec r ob oa) (h41 : get16 pp.packet r.ne = 41) (c : Cursor) (o : Nat)
    (hlive : c.offset = some o) (hnext : c.offsetNext = r.off) (hk : c.rrsLeft = 1) :
    nextSkippingOpt pp c = .ok none := by
  have h10 : r.ne + 10 ≤ pp.packet.length := hr.2.1
  unfold nextSkippingOpt
  rw [nextIncl_live hr c o hlive hnext 0 hk]
  simp only [bind_ok]
  unfold maybeSkipOpt
  rw [rrType_at (o := r.off) rfl (by simpa using h10)]
  consts
  simp [h41]

/-- skipping step onto an OPT record followed by another record: the walk yields that one -/
theorem nextSkip_opt_then {pp : PP} {sec : Section} {r r2 : RecPos} {ob oa ob2 oa2 : Bool}
    (hr : RRAtPos pp.packet sec r ob oa) (h41 : get16 pp.packet r.ne = 41)
    (hr2 : RRAtPos pp.packet sec r2 ob2 oa2) (hne2 : get16 pp.packet r2.ne ≠ 41) (hadj : r.next = r2.off)
    (c : Cursor) (o : Nat) (hlive : c.offset = some o) (hnext : c.offsetNext = r.off) (k : Nat)
    (hk : c.rrsLeft = k + 2) :
    nextSkippingOpt pp c = .ok (some ⟨c.sec, some r2.off, r2.next, r2.ne, k⟩) := by
  have h10 : r.ne + 10 ≤ pp.packet.length := hr.2.1
  have h10' : r2.ne + 10 ≤ pp.packet.length := hr2.2.1
  unfold nextSkippingOpt
  rw [nextIncl_live hr c o hlive hnext (k + 1) hk]
  simp only [bind_ok]
  unfold maybeSkipOpt
  rw [rrType_at (o := r.off) rfl (by simpa using h10)]
  consts
  have c41 : (get16 pp.packet r.ne == 41) = true := by simp [h41]
  have hnz : (k + 1 == 0) = false := by simp
  simp only [bind_ok, c41, if_true, hnz, Bool.false_eq_true, if_false]
  let c1 : Cursor := ⟨c.sec, some r.off, r.next, r.ne, k + 1 - 1⟩
  have hl2 := land_spec hr2 c1 hadj
  simp only [c1] at hl2
  rw [hl2]
  simp only [bind_ok]
  rw [rrType_at (o := r2.off) rfl (by simpa using h10')]
  simp [assert, hne2]

/-- without OPT in the list, the skipping walk is the plain walk -/
theorem collect_skip_noopt {pp : PP} {sec : Section} {l : List RecPos} {off e : Nat} {ob oe : Bool}
    (hl : RRsL pp.packet sec l off ob e oe) (hno : ∀ r ∈ l, get16 pp.packet r.ne ≠ 41) :
    ∀ (c : Cursor) (o : Nat) (fuel : Nat), c.offset = some o → c.offsetNext = off → c.rrsLeft = l.length →
      fuel > l.length →
      ∃ cs, collectWalk pp nextSkippingOpt fuel c = .ok cs ∧ cs.map posOf = l.map some := by
  induction hl with
  | nil off o =>
    intro c o' fuel hlive _ hk hf
    cases fuel with
    | zero => omega
    | succ n =>
      refine ⟨[], ?_, rfl⟩
      have : nextSkippingOpt pp c = .ok none := by
        unfold nextSkippingOpt
        rw [nextIncl_done c o' hlive (by simpa using hk)]
        rfl
      unfold collectWalk
      rw [this]
  | @cons r l e ob om oe hr hrest ih =>
    intro c o' fuel hlive hnext hk hf
    simp only [List.length_cons] at hk hf
    cases fuel with
    | zero => omega
    | succ n =>
      have h41 : get16 pp.packet r.ne ≠ 41 := hno r (by simp)
      unfold collectWalk
      rw [nextSkip_nonopt hr h41 c o' hlive hnext l.length hk]
      simp only
      obtain ⟨cs, h1, h2⟩ := ih (fun r hr => hno r (by simp [hr]))
        { c with rrsLeft := l.length, offset := some r.off, nameEnd := r.ne, offsetNext := r.next }
        r.off n rfl rfl rfl (by omega)
      exact ⟨_ :: cs, by rw [h1]; rfl, by simp [posOf, h2]⟩

theorem nonOpt_eq_self {p : Bytes} {l : List RecPos} (h : ∀ r ∈ l, get16 p r.ne ≠ 41) : nonOpt p l = l := by
  unfold nonOpt
  exact List.filter_eq_self.2 (fun r hr => by simpa using h r hr)

/-- the OPT-skipping walk from a live cursor: the records of the list except OPT, in order -/
theorem collect_skip_live {pp : PP} {sec : Section} {l : List RecPos} {off e : Nat} {ob oe : Bool}
    (hl : RRsL pp.packet sec l off ob e oe) :
    ∀ (c : Cursor) (o : Nat) (fuel : Nat), c.offset = some o → c.offsetNext = off → c.rrsLeft = l.length →
      fuel > l.length →
      ∃ cs, collectWalk pp nextSkippingOpt fuel c = .ok cs ∧ cs.map posOf = (nonOpt pp.packet l).map some := by
  induction hl with
  | nil off o =>
    intro c o' fuel hlive _ hk hf
    cases fuel with
    | zero => omega
    | succ n =>
      refine ⟨[], ?_, rfl⟩
      have : nextSkippingOpt pp c = .ok none := by
        unfold nextSkippingOpt
        rw [nextIncl_done c o' hlive (by simpa using hk)]
        rfl
      unfold collectWalk
      rw [this]
  | @cons r l e ob om oe hr hrest ih =>
    intro c o' fuel hlive hnext hk hf
    simp only [List.length_cons] at hk hf
    cases fuel with
    | zero => omega
    | succ n =>
      by_cases h41 : get16 pp.packet r.ne = 41
      · -- the head is OPT: it is skipped; nothing after it is OPT
        have hom : om = true := by
          have := hr.2.2.2.2
          simp only [h41, if_true] at this
          exact this.2.2.2.1
        have hno := RRsL.no_opt_after (by rw [← hom]; exact hrest)
        cases l with
        | nil =>
          refine ⟨[], ?_, by simp [nonOpt, h41]⟩
          unfold collectWalk
          rw [nextSkip_opt_last hr h41 c o' hlive hnext (by simpa using hk)]
        | cons r2 l2 =>
          obtain ⟨hoff, om2, hr2, hrest2⟩ := hrest.cons_inv
          have hne2 : get16 pp.packet r2.ne ≠ 41 := hno r2 (by simp)
          unfold collectWalk
          rw [nextSkip_opt_then hr h41 hr2 hne2 hoff c o' hlive hnext l2.length (by simpa using hk)]
          simp only
          obtain ⟨cs, h1, h2⟩ := collect_skip_noopt hrest2 (fun r hr => hno r (by simp [hr]))
            ⟨c.sec, some r2.off, r2.next, r2.ne, l2.length⟩ r2.off n rfl rfl rfl (by simp at hf; omega)
          refine ⟨_ :: cs, by rw [h1]; rfl, ?_⟩
          have e1 : nonOpt pp.packet (r :: r2 :: l2) = r2 :: l2 := by
            have : nonOpt pp.packet (r2 :: l2) = r2 :: l2 := nonOpt_eq_self hno
            simp [nonOpt, h41] at this ⊢
            exact this
          rw [e1]
          simp [posOf, h2]
      · unfold collectWalk
        rw [nextSkip_nonopt hr h41 c o' hlive hnext l.length hk]
        simp only
        obtain ⟨cs, h1, h2⟩ := ih { c with rrsLeft := l.length, offset := some r.off, nameEnd := r.ne, offsetNext := r.next }
          r.off n rfl rfl rfl (by omega)
        refine ⟨_ :: cs, by rw [h1]; rfl, ?_⟩
        simp [posOf, h2, nonOpt, h41]

end Dns

namespace Dns
open Res Sector

/-- what an accepted packet looks like, with the section offsets `parse()` reports -/
theorem parse_ok_decomp {p : Bytes} {v : View} (h : parse p = .ok v) :
    12 ≤ p.length ∧ get16 p 4 = 1 ∧ ∃ qe e2 o2 e3 o3 o4,
      NameEnds p 12 qe ∧ qe + 4 ≤ p.length ∧ get16 p (qe + 2) = 1 ∧
      RRs p .answer (get16 p 6) (qe + 4) false e2 o2 ∧
      RRs p .nameServers (get16 p 8) e2 o2 e3 o3 ∧ RRs p .additional (get16 p 10) e3 o3 p.length o4 ∧
      v.offsetQuestion = some 12 ∧
      v.offsetAnswers = (if get16 p 6 > 0 then some (qe + 4) else none) ∧
      v.offsetNameservers = (if get16 p 8 > 0 then some e2 else none) ∧
      v.offsetAdditional = (if get16 p 10 > 0 then some e3 else none) := by
  unfold parse at h
  simp only [failIf] at h
  consts
  split at h
  · simp at h
  rename_i hlen
  simp at hlen
  try simp only [bind_ok] at h
  rw [(be16_ok_of_le (p := p) (i := 2) (by omega)).1, (be16_ok_of_le (p := p) (i := 4) (by omega)).1] at h
  try simp only [bind_ok] at h
  split at h
  · simp at h
  rename_i hq0
  try simp only [bind_ok] at h
  split at h
  · simp at h
  rename_i hq1
  have hqd : get16 p 4 = 1 := by simp at hq0 hq1; omega
  simp only [bind_ok, Sector.setOffset, Sector.new] at h
  split at h
  · simp at h
  rename_i h12
  try simp only [bind_ok] at h
  rw [(be16_ok_of_le (p := p) (i := 6) (by omega)).1, (be16_ok_of_le (p := p) (i := 8) (by omega)).1,
    (be16_ok_of_le (p := p) (i := 10) (by omega)).1] at h
  obtain ⟨s2, hqs, h⟩ := bind_eq_ok.1 h
  obtain ⟨qe, hcc, hq4, hcl, es2⟩ := parseQuestion_ok_iff.1 hqs
  try simp only [bind_ok] at h
  split at h
  · simp at h
  try simp only [bind_ok] at h
  obtain ⟨s3, ha, h⟩ := bind_eq_ok.1 h
  try simp only [bind_ok] at h
  split at h
  · simp at h
  try simp only [bind_ok] at h
  obtain ⟨s4, hn, h⟩ := bind_eq_ok.1 h
  try simp only [bind_ok] at h
  obtain ⟨s5, hr, h⟩ := bind_eq_ok.1 h
  have ra := parseRRs_sound _ ha
  have rn := parseRRs_sound _ hn
  have rr := parseRRs_sound _ hr
  have h2 : s2.offset ≤ p.length := by rw [es2]; simp; omega
  have h3 := ((parseRRs_spec (p := p) .answer _ h2).2 s3 ha).2
  have h4 := ((parseRRs_spec (p := p) .nameServers _ h3).2 s4 hn).2
  have h5 := ((parseRRs_spec (p := p) .additional _ h4).2 s5 hr).2
  rw [remainingLen_eq h5] at h
  try simp only [bind_ok] at h
  split at h
  · simp at h
  rename_i hrem
  have hend : s5.offset = p.length := by simp at hrem; omega
  simp only [pure_eq, bind_ok, ok.injEq] at h
  subst h
  refine ⟨by omega, hqd, qe, s3.offset, s3.ednsEnd.isSome, s4.offset, s4.ednsEnd.isSome, s5.ednsEnd.isSome,
    (nameEnds_iff _ _ _).1 (by simpa using hcc), hq4, hcl, ?_, rn, ?_, rfl, ?_, rfl, rfl⟩
  · have := ra; rw [es2] at this; simpa using this
  · rw [← hend]; exact rr
  · rw [es2]

end Dns

namespace Dns
open Res

/-- count and start of a record section as the iterators read them from the object -/
def secInfo (pp : PP) : Section → Res (Nat × Option Nat)
  | .answer => do let n ← ancount pp.packet; pure (n, pp.offsetAnswers)
  | .nameServers => do let n ← nscount pp.packet; pure (n, pp.offsetNameservers)
  | .additional => do let n ← arcount pp.packet; pure (n, pp.offsetAdditional)
  | _ => .panic

theorem land_indep (p : Bytes) (c c' : Cursor) (h1 : c.sec = c'.sec) (h2 : c.offsetNext = c'.offsetNext)
    (h3 : c.rrsLeft = c'.rrsLeft) : Cursor.land p c = Cursor.land p c' := by
  unfold Cursor.land
  simp only [h1, h2, h3]

/-- a fresh cursor behaves like a live one standing just before the first record of the section -/
theorem nextIncl_fresh {pp : PP} {sec : Section} {n off : Nat} (hi : secInfo pp sec = .ok (n, if n > 0 then some off else none)) :
    nextIncludingOpt pp (Cursor.new sec) = nextIncludingOpt pp ⟨sec, some 0, off, 0, n⟩ := by
  unfold nextIncludingOpt
  simp only [Cursor.new, bind_ok, pure_eq]
  cases sec with
  | answer | nameServers | additional =>
    simp only [secInfo] at hi
    obtain ⟨m, hm, hp⟩ := bind_eq_ok.1 hi
    simp only [pure_eq, ok.injEq, Prod.mk.injEq] at hp
    obtain ⟨rfl, hoff⟩ := hp
    simp only [hm, bind_ok, pure_eq]
    by_cases hz : m = 0
    · subst hz; simp
    · have : (m == 0) = false := by simp [hz]
      have hpos : m > 0 := by omega
      simp only [hpos, if_true] at hoff
      simp only [this, hoff, unwrap, Bool.false_eq_true, if_false, bind_ok, pure_eq]
      congr 1
  | question => simp [secInfo] at hi
  | edns => simp [secInfo] at hi

theorem nextSkip_fresh {pp : PP} {sec : Section} {n off : Nat} (hi : secInfo pp sec = .ok (n, if n > 0 then some off else none)) :
    nextSkippingOpt pp (Cursor.new sec) = nextSkippingOpt pp ⟨sec, some 0, off, 0, n⟩ := by
  unfold nextSkippingOpt
  rw [nextIncl_fresh hi]

theorem collect_first_step {pp : PP} (step : PP → Cursor → Res (Option Cursor)) (c c0 : Cursor) (fuel : Nat)
    (h : step pp c = step pp c0) : collectWalk pp step (fuel + 1) c = collectWalk pp step (fuel + 1) c0 := by
  unfold collectWalk
  rw [h]

/-- **the OPT-including walk** over a section holding the records `l`: exactly `l`, in order -/
theorem walk_incl {pp : PP} {sec : Section} {l : List RecPos} {off e : Nat} {ob oe : Bool}
    (hl : RRsL pp.packet sec l off ob e oe)
    (hi : secInfo pp sec = .ok (l.length, if l.length > 0 then some off else none)) :
    ∃ cs, collectWalk pp nextIncludingOpt (l.length + 1) (Cursor.new sec) = .ok cs ∧ cs.map posOf = l.map some := by
  rw [collect_first_step nextIncludingOpt _ _ _ (nextIncl_fresh hi)]
  obtain ⟨cs, h1, h2, _⟩ := collect_incl_live hl ⟨sec, some 0, off, 0, l.length⟩ 0 (l.length + 1) rfl rfl rfl (by omega)
  exact ⟨cs, h1, h2⟩

/-- **the OPT-skipping walk**: the records of `l` other than OPT, in order, wherever OPT sits -/
theorem walk_skip {pp : PP} {sec : Section} {l : List RecPos} {off e : Nat} {ob oe : Bool}
    (hl : RRsL pp.packet sec l off ob e oe)
    (hi : secInfo pp sec = .ok (l.length, if l.length > 0 then some off else none)) :
    ∃ cs, collectWalk pp nextSkippingOpt (l.length + 1) (Cursor.new sec) = .ok cs ∧
      cs.map posOf = (nonOpt pp.packet l).map some := by
  rw [collect_first_step nextSkippingOpt _ _ _ (nextSkip_fresh hi)]
  exact collect_skip_live hl ⟨sec, some 0, off, 0, l.length⟩ 0 (l.length + 1) rfl rfl rfl (by omega)

end Dns
