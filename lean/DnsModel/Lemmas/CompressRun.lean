/-
  Lemmas.CompressRun — compressing the question and a whole section of a pointer-free packet.
-/
import DnsModel.Lemmas.CompressRec
import DnsModel.Lemmas.CanonRun
import DnsModel.Lemmas.CompressFirst
namespace Dns
open Res

/-- records of `B` are the records of `u`, one by one, up to the case of names -/
inductive RunCi (u B : Bytes) : List RecPos → List RecPos → Prop
  | nil : RunCi u B [] []
  | cons {r r' : RecPos} {l l' : List RecPos} : RecCi u r B r' → RunCi u B l l' → RunCi u B (r :: l) (r' :: l')

theorem RunCi.length {u B : Bytes} {l l' : List RecPos} (h : RunCi u B l l') : l'.length = l.length := by
  induction h with
  | nil => rfl
  | cons _ _ ih => simp [ih]

/-- **one section compressed** -/
theorem fold_compress {pp : PP} {sec : Section} {l : List RecPos} {off e : Nat} {ob oe : Bool}
    (hl : RRsL pp.packet sec l off ob e oe) :
    (∀ r ∈ l, PlainRec pp.packet r) → ∀ (cs : List Cursor), cs.map posOf = l.map some →
      ∀ (dict : SuffixDict) (out : Bytes), DictInv dict out →
      ∃ (dict' : SuffixDict) (em : Bytes),
        foldRes (compressItem pp true) (dict, out) cs = .ok (dict', out ++ em) ∧
        em.length ≤ e - off ∧ DictInv dict' (out ++ em) ∧
        ∀ tl : Bytes, ∃ l', RRsL (out ++ em ++ tl) sec l' out.length ob (out.length + em.length) oe ∧
          RunCi pp.packet (out ++ em ++ tl) l l' ∧
          l'.map (fun r => get16 (out ++ em ++ tl) r.ne) = l.map (fun r => get16 pp.packet r.ne) := by
  induction hl with
  | nil off o =>
    intro _ cs hcs dict out hinv
    simp at hcs
    subst hcs
    refine ⟨dict, [], by simp [foldRes], by simp, by simpa using hinv, ?_⟩
    intro tl
    refine ⟨[], ?_, RunCi.nil, by simp⟩
    have e : out.length + ([] : Bytes).length = out.length := by simp
    rw [e]
    exact RRsL.nil _ _
  | @cons r l e ob om oe hr hrest ih =>
    intro hp cs hcs dict out hinv
    cases cs with
    | nil => simp at hcs
    | cons c cs =>
      simp at hcs
      obtain ⟨hc, hcs⟩ := hcs
      obtain ⟨dict1, piece, hrun, hlen, hd1, hrec⟩ := compress_record hr (hp r (by simp)) c hc dict out hinv
      obtain ⟨dict', em, hfold, hlen', hd', hall⟩ := ih (fun x hx => hp x (by simp [hx])) cs (by simpa using hcs)
        dict1 (out ++ piece) hd1
      obtain ⟨hb1, _⟩ := hrest.bounds
      have hspan : r.off < r.next := by
        obtain ⟨⟨ls, hv⟩, _, hnext, _, _⟩ := hr
        have := hv.2.1.lt; omega
      refine ⟨dict', piece ++ em, ?_, ?_, by simpa [List.append_assoc] using hd', ?_⟩
      · simp only [foldRes, hrun, Res.bind, hfold]
        simp [List.append_assoc]
      · simp only [List.length_append]; omega
      · intro tl
        obtain ⟨l', hrl, hci, hty⟩ := hall tl
        obtain ⟨ne', hr', hty', hci'⟩ := hrec (em ++ tl)
        have eB : out ++ piece ++ em ++ tl = out ++ piece ++ (em ++ tl) := by simp
        have eB' : out ++ (piece ++ em) ++ tl = out ++ piece ++ (em ++ tl) := by simp
        rw [eB] at hrl hci hty
        rw [eB']
        have hl1 : (out ++ piece).length = out.length + piece.length := by simp
        rw [hl1] at hrl
        refine ⟨⟨out.length, ne', out.length + piece.length⟩ :: l', ?_, RunCi.cons hci' hci, ?_⟩
        · have e2 : out.length + (piece ++ em).length = out.length + piece.length + em.length := by simp; omega
          rw [e2]
          exact RRsL.cons hr' hrl
        · rw [List.map_cons, List.map_cons, hty', hty]

/-- **the question compressed**: its name (labels equal up to case) and its four bytes -/
theorem compress_question {pp : PP} {qe : Nat} {ls : List (List UInt8)} (hpl : PlainAt pp.packet 12 ls)
    (hqe : qe = 12 + (labSum ls + 1)) (hq4 : qe + 4 ≤ pp.packet.length) (dict : SuffixDict) (out : Bytes)
    (hinv : DictInv dict out) :
    ∃ (dict' : SuffixDict) (em : Bytes) (ls' : List (List UInt8)),
      compressItem pp false (dict, out) ⟨.question, some 12, qe + 4, qe, 0⟩ =
        .ok (dict', out ++ (em ++ (pp.packet.drop qe).take 4)) ∧
      em.length ≤ labSum ls + 1 ∧ 0 < em.length ∧ lsCi ls' ls ∧
      DictInv dict' (out ++ (em ++ (pp.packet.drop qe).take 4)) ∧
      ∀ tl : Bytes, ValidName (out ++ (em ++ (pp.packet.drop qe).take 4) ++ tl) out.length ls' (out.length + em.length) := by
  obtain ⟨dict', em, ls', hrun, _, hle, hpos, hci, hval, hd⟩ := copyName_packet hpl out dict hinv
  refine ⟨dict', em, ls', ?_, hle, hpos, hci, by simpa [List.append_assoc] using hd.append _, ?_⟩
  · unfold compressItem
    have hsl : sliceFrom pp.packet qe = .ok (pp.packet.drop qe) := by simp [sliceFrom]; omega
    simp only [unwrap, bind_ok, hrun, Bool.false_eq_true, if_false]
    unfold compressRdata
    simp only [hsl, bind_ok]
    consts
    rw [slice_ok ⟨by omega, by omega⟩]
    have e : qe + 4 - qe = 4 := by omega
    rw [e]
    simp [List.append_assoc]
  · intro tl
    have := hval ((pp.packet.drop qe).take 4 ++ tl)
    simpa [List.append_assoc] using this


/-- with the empty dictionary the question name is written byte for byte -/
theorem compress_question_first {pp : PP} {qe : Nat} {ls : List (List UInt8)} (hpl : PlainAt pp.packet 12 ls)
    (hqe : qe = 12 + (labSum ls + 1)) (hq4 : qe + 4 ≤ pp.packet.length) (out : Bytes)
    {dict' : SuffixDict} {em : Bytes}
    (h : compressItem pp false ({}, out) ⟨.question, some 12, qe + 4, qe, 0⟩ =
        .ok (dict', out ++ (em ++ (pp.packet.drop qe).take 4))) : em = encLabels ls ++ [0] := by
  obtain ⟨d1, hfirst⟩ := copyName_first hpl out
  unfold compressItem at h
  have hsl : sliceFrom pp.packet qe = .ok (pp.packet.drop qe) := by simp [sliceFrom]; omega
  simp only [unwrap, bind_ok, hfirst, Bool.false_eq_true, if_false] at h
  unfold compressRdata at h
  simp only [hsl, bind_ok] at h
  consts
  rw [slice_ok ⟨by omega, by omega⟩] at h
  have e : qe + 4 - qe = 4 := by omega
  rw [e] at h
  simp only [bind_ok, pure_eq, ok.injEq, Prod.mk.injEq] at h
  have h2 := h.2
  rw [List.append_assoc] at h2
  have h3 := List.append_cancel_left h2
  exact (List.append_cancel_right h3).symm

end Dns
