/-
  Lemmas.SetField — the in-place setters (`set_rr_ttl`, `set_rr_ip`) through a cursor on a record of a
  plain object: exactly that field of that record changes.
-/
import DnsModel.Lemmas.ReplaceRec
namespace Dns
open Res

/-- overwriting bytes inside the middle part of a packet -/
theorem writeAt_inside (pre post X w Y v : Bytes) (hv : v.length = w.length) :
    writeAt (pre ++ (X ++ w ++ Y) ++ post) (pre.length + X.length) v = .ok (pre ++ (X ++ v ++ Y) ++ post) := by
  have e : pre ++ (X ++ w ++ Y) ++ post = (pre ++ X) ++ w ++ (Y ++ post) := by simp
  have hl : (pre ++ X).length = pre.length + X.length := by simp
  rw [writeAt_ok (by rw [e]; simp; omega), e, ← hl]
  have h1 : ((pre ++ X) ++ w ++ (Y ++ post)).take (pre ++ X).length = pre ++ X := by
    rw [List.append_assoc, List.take_append_length]
  have h2 : ((pre ++ X) ++ w ++ (Y ++ post)).drop ((pre ++ X).length + v.length) = Y ++ post := by
    rw [hv]
    have : (pre ++ X).length + w.length = ((pre ++ X) ++ w).length := by simp only [List.length_append]
    rw [this, List.drop_append_length]
  rw [h1, h2]
  simp

theorem get16_take {l : Bytes} {n i : Nat} (h : i + 2 ≤ n) : get16 (l.take n) i = get16 l i := by
  have hag : Agree l (l.take n) 0 0 n := by
    intro j hj
    simp [List.getElem?_take, hj]
  have := hag.get16 (i := i) h
  simpa using this

theorem put32_length (v : Nat) : (put32 v).length = 4 := rfl

/-- **`set_rr_ttl`** through a cursor on a non-OPT record of a plain object: the four TTL bytes of that
record are replaced, nothing else -/
theorem PlainObj.set_ttl {pp : PP} (P : PlainObj pp) (sec : Section) (hs : sec.isRec = true) {ps1 ps2 : List Bytes} {rc : Bytes}
    (hsplit : P.lst sec = ps1 ++ rc :: ps2) (c : Cursor) {ne : Nat} {ob oa : Bool}
    (hr : RRAtPos pp.packet sec ⟨P.start sec + ps1.flatten.length, ne, P.start sec + ps1.flatten.length + rc.length⟩ ob oa)
    (hoff : c.offset = some (P.start sec + ps1.flatten.length)) (hne : c.nameEnd = ne) (h41 : get16 pp.packet ne ≠ 41) (ttl : Nat) :
    ∃ (owner : List (List UInt8)) (f8 rd : Bytes) (pp' : PP) (P' : PlainObj pp'),
      rc = (encLabels owner ++ [0]) ++ f8 ++ put16 rd.length ++ rd ∧ f8.length = 8 ∧
      setRrTtl pp c ttl = .ok pp' ∧
      P'.lst sec = ps1 ++ ((encLabels owner ++ [0]) ++ (f8.take 4 ++ put32 ttl) ++ put16 rd.length ++ rd) :: ps2 ∧
      (∀ s, s ≠ sec → P'.lst s = P.lst s) ∧ P'.qls = P.qls ∧ P'.q4 = P.q4 ∧ P'.hdr = P.hdr ∧
      pp' = { pp with packet := pp'.packet } ∧ GoodLabels owner ∧ get16 f8 0 ≠ 41 := by
  obtain ⟨owner, f8, rd, pre, post, ob', oa', hpk, hprel, hrc, hgo, hf8, hlt, hnon, hr', hty⟩ := P.shape_at sec hs hsplit
  have hne' : ne = pre.length + labSum owner + 1 := by
    rw [← hprel] at hr
    exact nameEnds_functional hr.1 hr'.1
  rw [hne', hty] at h41
  obtain ⟨hpl, hrep⟩ := hnon h41
  have hf8' : (f8.take 4 ++ put32 ttl).length = 8 := by simp [put32_length, hf8]
  have hty' : get16 (f8.take 4 ++ put32 ttl) 0 = get16 f8 0 := by
    rw [get16_append_left (by simp [hf8]), get16_take (by omega)]
  have hok : ∀ b, PieceOK sec ((encLabels owner ++ [0]) ++ (f8.take 4 ++ put32 ttl) ++ put16 rd.length ++ rd) b b := by
    intro b
    exact piece_of_shape sec owner _ rd hgo hf8' hlt (by rw [hty']; exact h41) (by rw [hty']; exact hpl) b
  have hps := hrep _ hok
  -- the write
  have hsplit8 : f8 = f8.take 4 ++ f8.drop 4 := (List.take_append_drop 4 f8).symm
  have hrc2 : rc = ((encLabels owner ++ [0]) ++ f8.take 4) ++ f8.drop 4 ++ (put16 rd.length ++ rd) := by
    rw [hrc]; conv => lhs; rw [hsplit8]
    simp
  have hw := writeAt_inside pre post ((encLabels owner ++ [0]) ++ f8.take 4) (f8.drop 4) (put16 rd.length ++ rd) (put32 ttl)
    (by simp [put32_length, hf8])
  rw [← hrc2, ← hpk] at hw
  have hXl : ((encLabels owner ++ [0]) ++ f8.take 4).length = labSum owner + 1 + 4 := by
    simp [encLabels_length, hf8]
  rw [hXl] at hw
  have hrun : setRrTtl pp c ttl = .ok { pp with packet := pre ++ ((encLabels owner ++ [0]) ++ f8.take 4 ++ put32 ttl ++ (put16 rd.length ++ rd)) ++ post } := by
    unfold setRrTtl
    have hfit : ne ≤ pp.packet.length := by have := hr.2.1; simp only at this; omega
    have hsl : sliceFrom pp.packet ne = .ok (pp.packet.drop ne) := by simp [sliceFrom, hfit]
    simp only [hoff, unwrap, bind_ok, hne, hsl]
    have hoffs : ne + DNS_RR_TTL_OFFSET = pre.length + (labSum owner + 1 + 4) := by rw [hne']; rfl
    rw [hoffs, hw]
    rfl
  obtain ⟨P', f1, f2, f3, f4, f5⟩ := P.replace_at sec hs hsplit ((encLabels owner ++ [0]) ++ (f8.take 4 ++ put32 ttl) ++ put16 rd.length ++ rd)
    hps hpk hprel { pp with packet := pre ++ ((encLabels owner ++ [0]) ++ f8.take 4 ++ put32 ttl ++ (put16 rd.length ++ rd)) ++ post }
    (by simp) rfl rfl
    (by
      have : ((encLabels owner ++ [0]) ++ (f8.take 4 ++ put32 ttl) ++ put16 rd.length ++ rd).length = rc.length := by
        rw [hrc]; simp [put32_length, hf8]; omega
      rw [this]
      split <;> simp)
    (by
      have : ((encLabels owner ++ [0]) ++ (f8.take 4 ++ put32 ttl) ++ put16 rd.length ++ rd).length = rc.length := by
        rw [hrc]; simp [put32_length, hf8]; omega
      rw [this]
      split <;> simp)
    P.mc
  exact ⟨owner, f8, rd, _, P', hrc, hf8, hrun, f1, f2, f3, f4, f5, rfl, hgo, h41⟩

/-- **`set_rr_ip`** through a cursor on an A / AAAA record of a plain object, with an address of the
record's family: exactly the address bytes of that record are replaced -/
theorem PlainObj.set_ip {pp : PP} (P : PlainObj pp) (sec : Section) (hs : sec.isRec = true) {ps1 ps2 : List Bytes} {rc : Bytes}
    (hsplit : P.lst sec = ps1 ++ rc :: ps2) (c : Cursor) {ne : Nat} {ob oa : Bool}
    (hr : RRAtPos pp.packet sec ⟨P.start sec + ps1.flatten.length, ne, P.start sec + ps1.flatten.length + rc.length⟩ ob oa)
    (hoff : c.offset = some (P.start sec + ps1.flatten.length)) (hne : c.nameEnd = ne) (ip : Bytes)
    (hfam : (get16 pp.packet ne = 1 ∧ ip.length = 4) ∨ (get16 pp.packet ne = 28 ∧ ip.length = 16)) :
    ∃ (owner : List (List UInt8)) (f8 rd : Bytes) (pp' : PP) (P' : PlainObj pp'),
      rc = (encLabels owner ++ [0]) ++ f8 ++ put16 rd.length ++ rd ∧ f8.length = 8 ∧ rd.length = ip.length ∧
      setRrIp pp c ip = .ok (pp', none) ∧
      P'.lst sec = ps1 ++ ((encLabels owner ++ [0]) ++ f8 ++ put16 rd.length ++ ip) :: ps2 ∧
      (∀ s, s ≠ sec → P'.lst s = P.lst s) ∧ P'.qls = P.qls ∧ P'.q4 = P.q4 ∧ P'.hdr = P.hdr ∧
      pp' = { pp with packet := pp'.packet } ∧ GoodLabels owner ∧ get16 f8 0 ≠ 41 := by
  obtain ⟨owner, f8, rd, pre, post, ob', oa', hpk, hprel, hrc, hgo, hf8, hlt, hnon, hr', hty⟩ := P.shape_at sec hs hsplit
  have hne' : ne = pre.length + labSum owner + 1 := by
    rw [← hprel] at hr
    exact nameEnds_functional hr.1 hr'.1
  rw [hne', hty] at hfam
  have h41 : get16 f8 0 ≠ 41 := by rcases hfam with ⟨h, _⟩ | ⟨h, _⟩ <;> omega
  obtain ⟨hpl, hrep⟩ := hnon h41
  have hrdl : rd.length = ip.length := by
    unfold RdPlainI at hpl
    rcases hfam with ⟨h, hl⟩ | ⟨h, hl⟩
    · simp [h] at hpl; omega
    · simp [h] at hpl; omega
  have hpl' : RdPlainI (get16 f8 0) ip := by
    unfold RdPlainI
    rcases hfam with ⟨h, hl⟩ | ⟨h, hl⟩
    · simp [h, hl]
    · simp [h, hl]
  have hok : ∀ b, PieceOK sec ((encLabels owner ++ [0]) ++ f8 ++ put16 rd.length ++ ip) b b := by
    intro b
    have := piece_of_shape sec owner f8 ip hgo hf8 (by omega) h41 hpl' b
    rw [← hrdl] at this
    exact this
  have hps := hrep _ hok
  have hrc2 : rc = ((encLabels owner ++ [0]) ++ f8 ++ put16 rd.length) ++ rd ++ [] := by rw [hrc]; simp
  have hw := writeAt_inside pre post ((encLabels owner ++ [0]) ++ f8 ++ put16 rd.length) rd [] ip hrdl.symm
  rw [← hrc2, ← hpk] at hw
  have hXl : ((encLabels owner ++ [0]) ++ f8 ++ put16 rd.length).length = labSum owner + 1 + 10 := by
    simp [encLabels_length, hf8, put16]
  rw [hXl] at hw
  have hfit : ne + 10 ≤ pp.packet.length := by have := hr.2.1; simpa using this
  have hnext : ne + 10 + rd.length ≤ pp.packet.length := by
    rw [hpk, hrc, hne']
    simp [encLabels_length, hf8, put16]; omega
  have hty2 : c.rrType pp.packet = .ok (get16 f8 0) := by
    have := rrType_at (p := pp.packet) (c := c) hoff (by rw [hne]; exact hfit)
    rw [this, hne, hne', hty]
  have hsl : sliceFrom pp.packet ne = .ok (pp.packet.drop ne) := by simp [sliceFrom]; omega
  have hrun : setRrIp pp c ip = .ok ({ pp with packet := pre ++ ((encLabels owner ++ [0]) ++ f8 ++ put16 rd.length ++ ip ++ []) ++ post }, none) := by
    unfold setRrIp
    have hoffs : ne + DNS_RR_HEADER_SIZE = pre.length + (labSum owner + 1 + 10) := by rw [hne']; rfl
    rcases hfam with ⟨h, hl⟩ | ⟨h, hl⟩
    · have c1 : (get16 f8 0 == TYPE_A) = true := by simp [h, TYPE_A]
      have c2 : (ip.length == 4) = true := by simp [hl]
      have c3 : decide ((pp.packet.drop ne).length ≥ DNS_RR_HEADER_SIZE + 4) = true := by
        simp only [List.length_drop, decide_eq_true_eq]
        have : DNS_RR_HEADER_SIZE = 10 := rfl
        omega
      simp only [hty2, bind_ok, c1, if_true, c2, hne, hsl, assert, c3, hoffs, hw, pure_eq]
    · have c1 : (get16 f8 0 == TYPE_A) = false := by simp [h, TYPE_A]
      have c1' : (get16 f8 0 == TYPE_AAAA) = true := by simp [h, TYPE_AAAA]
      have c2 : (ip.length == 16) = true := by simp [hl]
      have c3 : decide ((pp.packet.drop ne).length ≥ DNS_RR_HEADER_SIZE + 16) = true := by
        simp only [List.length_drop, decide_eq_true_eq]
        have : DNS_RR_HEADER_SIZE = 10 := rfl
        omega
      simp only [hty2, bind_ok, c1, c1', Bool.false_eq_true, if_false, if_true, c2, hne, hsl, assert, c3, hoffs, hw, pure_eq]
  have hlen' : ((encLabels owner ++ [0]) ++ f8 ++ put16 rd.length ++ ip).length = rc.length := by
    rw [hrc]; simp [hrdl]
  obtain ⟨P', f1, f2, f3, f4, f5⟩ := P.replace_at sec hs hsplit ((encLabels owner ++ [0]) ++ f8 ++ put16 rd.length ++ ip)
    hps hpk hprel { pp with packet := pre ++ ((encLabels owner ++ [0]) ++ f8 ++ put16 rd.length ++ ip ++ []) ++ post }
    (by simp) rfl rfl
    (by rw [hlen']; split <;> simp)
    (by rw [hlen']; split <;> simp)
    P.mc
  exact ⟨owner, f8, rd, _, P', hrc, hf8, hrdl, hrun, f1, f2, f3, f4, f5, rfl, hgo, h41⟩

/-- `set_rr_ip` with an address of the wrong family, or on a record that is neither A nor AAAA: an
error, the object unchanged (any object) -/
theorem setRrIp_failure (pp pp' : PP) (c : Cursor) (ip : Bytes) (e : Err) (h : setRrIp pp c ip = .ok (pp', some e)) : pp' = pp := by
  unfold setRrIp at h
  cases ht : c.rrType pp.packet with
  | ok t =>
    rw [ht] at h
    simp only [bind_ok] at h
    split at h
    · split at h
      · cases hs : sliceFrom pp.packet c.nameEnd with
        | ok rd =>
          rw [hs] at h
          simp only [bind_ok, assert] at h
          split at h
          · simp only [bind_ok] at h
            cases hw : writeAt pp.packet (c.nameEnd + DNS_RR_HEADER_SIZE) ip <;> rw [hw] at h <;> simp at h
          · simp at h
        | err e => rw [hs] at h; simp at h
        | panic => rw [hs] at h; simp at h
        | diverge => rw [hs] at h; simp at h
      · simp at h; exact h.1.symm
    · split at h
      · split at h
        · cases hs : sliceFrom pp.packet c.nameEnd with
          | ok rd =>
            rw [hs] at h
            simp only [bind_ok, assert] at h
            split at h
            · simp only [bind_ok] at h
              cases hw : writeAt pp.packet (c.nameEnd + DNS_RR_HEADER_SIZE) ip <;> rw [hw] at h <;> simp at h
            · simp at h
          | err e => rw [hs] at h; simp at h
          | panic => rw [hs] at h; simp at h
          | diverge => rw [hs] at h; simp at h
        · simp at h; exact h.1.symm
      · simp at h; exact h.1.symm
  | err e => rw [ht] at h; simp at h
  | panic => rw [ht] at h; simp at h
  | diverge => rw [ht] at h; simp at h

end Dns
