import DnsModel.Spec.Wire
import DnsModel.Lemmas.NameWalk
namespace Dns


theorem NameAt.prepend {p : Bytes} {bar low off refs len e : Nat} {ls : List (List UInt8)}
    (h1 : off < bar) (h2 : byteAt p off = some len) (h3 : 1 ≤ len) (h4 : len ≤ 63)
    (h5 : off + len + 1 ≤ p.length) (h : NameAt p bar low (off + len + 1) refs ls e) :
    NameAt p bar low off refs (lab p off len :: ls) e := by
  cases h with
  | root hl hs hb => exact NameAt.root (Labels.cons h1 h2 h3 h4 h5 hl) hs hb
  | ptr hl hs hb hhi hlo ht hnz hr hn =>
    have := NameAt.ptr (Labels.cons h1 h2 h3 h4 h5 hl) hs hb hhi hlo ht hnz hr hn
    simpa using this

theorem wireLen_cons (l : List UInt8) (ls : List (List UInt8)) : wireLen (l :: ls) = l.length + 1 + wireLen ls := by
  simp [wireLen]; omega

theorem lab_length {p : Bytes} {off len : Nat} (h : off + len + 1 ≤ p.length) : (lab p off len).length = len := by
  simp [lab]; omega

theorem labelHasBadChar_eq {p : Bytes} {off len : Nat} (h : off + len + 1 ≤ p.length) :
    labelHasBadChar p off len = .ok (!(goodChars (lab p off len))) := by
  unfold labelHasBadChar goodChars lab
  have : ¬ (off + len + 1 > p.length) := by omega
  simp [this]

theorem ccnLoop_sound (p : Bytes) (fuel : Nat) (s : NW) (e : Nat)
    (h : ccnLoop p fuel s = .ok e) :
    ∃ ls e', NameAt p s.barrier s.lowest s.offset s.refs ls e' ∧ s.nameLen + wireLen ls ≤ 255 ∧
      (∀ l ∈ ls, goodChars l = true) ∧ e = s.final.getD e' := by
  induction fuel generalizing s with
  | zero => simp [ccnLoop] at h
  | succ n ih =>
    unfold ccnLoop at h
    consts
    split at h
    · simp at h
    · rename_i hbar
      rcases idx_cases p s.offset with ⟨len, hlen, hblen, hlt⟩ | hp
      · simp only [hlen] at h
        split at h
        · -- pointer
          rename_i hptr
          split at h
          · simp at h
          · rename_i hrefs
            split at h
            · simp at h
            · rcases idx_cases p (s.offset + 1) with ⟨lo, hlo, hblo, hlolt⟩ | hp2
              · simp only [hlo] at h
                rw [ptrTarget_eq len lo hlt hlolt] at h
                split at h
                · simp at h
                · rename_i href
                  rcases idx_cases p (ptrTarget len lo) with ⟨t, ht, hbt, htlt⟩ | hp3
                  · simp only [ht] at h
                    split at h
                    · simp at h
                    · rename_i hroot
                      obtain ⟨ls', e'', hn, hw, hg, he⟩ := ih _ h
                      simp at hn hw he
                      refine ⟨ls', s.offset + 2, ?_, hw, hg, ?_⟩
                      · have hhi : 192 ≤ len := (isPtr_iff' len hlt).1 hptr
                        have hnz : byteAt p (ptrTarget len lo) ≠ some 0 := by
                          rw [hbt]; intro hc
                          have h0 : t = 0 := by simpa using hc
                          subst h0
                          simp [isPtr] at hroot
                        have := NameAt.ptr (Labels.nil (p := p) (bar := s.barrier) s.offset) (by omega) hblen hhi hblo
                          (by omega) hnz (by omega) hn
                        simpa using this
                      · rw [he]
                  · simp [hp3] at h
              · simp [hp2] at h
        · rename_i hptr
          split at h
          · simp at h
          · rename_i h63
            split at h
            · simp at h
            · rename_i hfit
              split at h
              · simp at h
              · rename_i h255
                have hfit' : s.offset + len + 1 ≤ p.length := by omega
                rw [labelHasBadChar_eq hfit'] at h
                cases hg : goodChars (lab p s.offset len) with
                | false => simp [hg] at h
                | true =>
                  simp only [hg] at h
                  simp at h
                  split at h
                  · rename_i hz
                    subst hz
                    simp at h
                    refine ⟨[], s.offset + 1, ?_, ?_, ?_, ?_⟩
                    · exact NameAt.root (Labels.nil s.offset) (by omega) hblen
                    · simp [wireLen]; omega
                    · simp
                    · exact h.symm
                  · rename_i hnz
                    obtain ⟨ls', e', hn, hw, hgs, he⟩ := ih _ h
                    simp at hn hw he
                    refine ⟨lab p s.offset len :: ls', e', ?_, ?_, ?_, he⟩
                    · exact NameAt.prepend (by omega) hblen (by omega) (by omega) hfit' hn
                    · rw [wireLen_cons, lab_length hfit']; omega
                    · intro l hl
                      simp at hl
                      rcases hl with rfl | hl
                      · exact hg
                      · exact hgs l hl
      · simp [hp] at h

theorem checkCompressedName_sound (p : Bytes) (off e : Nat) (h : checkCompressedName p off = .ok e) :
    ∃ ls, ValidName p off ls e := by
  unfold checkCompressedName at h
  split at h
  · simp at h
  · obtain ⟨ls, e', hn, hw, hg, he⟩ := ccnLoop_sound p _ _ e h
    simp at hn hw he
    subst he
    exact ⟨ls, by omega, hn, by omega, hg⟩


end Dns
