/-
  Lemmas.SectorTotal — every step of `parse()` returns (`Ok` or `Err`): no panic, no divergence,
  and the cursor stays inside the packet.
-/
import DnsModel.Sector
import DnsModel.Lemmas.NameComplete
namespace Dns
open Res Sector

/-! ### the pointer-free walker -/

theorem cunLoop_no_panic (p : Bytes) (fuel off nl : Nat) : cunLoop p fuel off nl ≠ .panic := by
  induction fuel generalizing off nl with
  | zero => simp [cunLoop]
  | succ n ih =>
    unfold cunLoop
    split
    · simp
    · rename_i hlt
      obtain ⟨len, hlen, _⟩ := idx_ok_of_lt (p := p) (i := off) (by omega)
      simp only [hlen]
      split
      · simp
      · split
        · simp
        · split
          · simp
          · split
            · simp
            · split
              · simp
              · exact ih _ _

theorem cunLoop_terminates (p : Bytes) (fuel off nl : Nat) (hn : nl ≤ 255) (hf : fuel > 255 - nl) :
    cunLoop p fuel off nl ≠ .diverge := by
  induction fuel generalizing off nl with
  | zero => omega
  | succ n ih =>
    unfold cunLoop
    split
    · simp
    · cases h1 : idx p off with
      | ok len =>
        simp only []
        split
        · simp
        · split
          · simp
          · split
            · simp
            · split
              · simp
              · split
                · simp
                · consts
                  apply ih <;> omega
      | err e => simp
      | panic => simp
      | diverge => exact absurd h1 (idx_ne_diverge p off)

theorem checkUncompressedName_returns (p : Bytes) (off : Nat) : (checkUncompressedName p off).Returns := by
  unfold checkUncompressedName
  split
  · exact returns_err _
  · exact ⟨cunLoop_no_panic _ _ _ _, cunLoop_terminates _ _ _ _ (by omega) (by decide)⟩

theorem checkCompressedName_returns (p : Bytes) (off : Nat) : (checkCompressedName p off).Returns := by
  refine ⟨checkCompressedName_no_panic p off, ?_⟩
  rcases checkCompressedName_total p off with ⟨e, h⟩ | ⟨n, h⟩ <;> simp [h]

/-- the value returned by a successful walk is a position inside or at the end of the packet -/
theorem ccnLoop_ok_le (p : Bytes) (fuel : Nat) (s : NW) (e : Nat)
    (hf : ∀ f, s.final = some f → f ≤ p.length) (h : ccnLoop p fuel s = .ok e) : e ≤ p.length := by
  induction fuel generalizing s with
  | zero => simp [ccnLoop] at h
  | succ n ih =>
    unfold ccnLoop at h
    split at h
    · simp at h
    · rcases idx_cases p s.offset with ⟨len, hlen, hb, _⟩ | hp
      · simp only [hlen] at h
        have hoff := byteAt_lt_length hb
        split at h
        · split at h
          · simp at h
          · split at h
            · simp at h
            · rcases idx_cases p (s.offset + 1) with ⟨lo, hlo, _, _⟩ | hp2
              · simp only [hlo] at h
                split at h
                · simp at h
                · rcases idx_cases p (((len &&& 0x3f) <<< 8) ||| lo) with ⟨t, ht, _, _⟩ | hp3
                  · simp only [ht] at h
                    split at h
                    · simp at h
                    · apply ih _ _ h
                      intro f hfe
                      cases hfin : s.final with
                      | none => simp [hfin] at hfe; omega
                      | some f0 => simp [hfin] at hfe; subst hfe; exact hf _ hfin
                  · simp [hp3] at h
              · simp [hp2] at h
        · split at h
          · simp at h
          · split at h
            · simp at h
            · split at h
              · simp at h
              · cases hbad : labelHasBadChar p s.offset len with
                | ok b =>
                  cases b with
                  | true => simp [hbad] at h
                  | false =>
                    simp only [hbad] at h
                    split at h
                    · cases hfin : s.final with
                      | none => simp [hfin] at h; omega
                      | some f0 => simp [hfin] at h; subst h; exact hf _ hfin
                    · exact ih _ (by simpa using hf) h
                | err e => simp [hbad] at h
                | panic => simp [hbad] at h
                | diverge => simp [hbad] at h
      · simp [hp] at h

theorem checkCompressedName_ok_le {p : Bytes} {off e : Nat} (h : checkCompressedName p off = .ok e) :
    e ≤ p.length := by
  unfold checkCompressedName at h
  split at h
  · simp at h
  · exact ccnLoop_ok_le p _ _ e (by simp) h

theorem NameAt.lt {p : Bytes} {bar low off refs e : Nat} {ls : List (List UInt8)}
    (h : NameAt p bar low off refs ls e) : off < e := by
  cases h with
  | root hl _ _ => have := hl.le; omega
  | ptr hl _ _ _ _ _ _ _ _ => have := hl.le; omega

theorem checkCompressedName_ok_gt {p : Bytes} {off e : Nat} (h : checkCompressedName p off = .ok e) :
    off < e := by
  obtain ⟨ls, _, hn, _, _⟩ := checkCompressedName_sound p off e h
  exact hn.lt

/-! ### cursor primitives -/

/-- the cursor is inside the packet, and so is the end of the EDNS pseudo-section if there is one -/
structure SInv (p : Bytes) (s : Sector) : Prop where
  off : s.offset ≤ p.length

theorem remainingLen_eq {p : Bytes} {s : Sector} (h : s.offset ≤ p.length) :
    remainingLen p s = .ok (p.length - s.offset) := by
  simp [remainingLen, sub, h]

theorem ensureRemainingLen_eq {p : Bytes} {s : Sector} (h : s.offset ≤ p.length) (len : Nat) :
    ensureRemainingLen p s len = if p.length - s.offset < len then .err .packetTooSmall else .ok () := by
  simp [ensureRemainingLen, remainingLen_eq h, failIf]

theorem incrementOffset_eq {p : Bytes} {s : Sector} (h : s.offset ≤ p.length) (n : Nat) :
    incrementOffset p s n =
      if p.length - s.offset < n then .err .packetTooSmall else .ok ({ s with offset := s.offset + n }, s.offset) := by
  simp only [incrementOffset, ensureRemainingLen_eq h]
  split <;> simp

theorem be16Load_eq {p : Bytes} {s : Sector} (h : s.offset ≤ p.length) (k : Nat) :
    be16Load p s k =
      if p.length - s.offset < k + 2 then .err .packetTooSmall else .ok (get16 p (s.offset + k)) := by
  simp only [be16Load, ensureRemainingLen_eq h]
  split
  · simp
  · rename_i hlt
    have := (be16_ok_of_le (p := p) (i := s.offset + k) (by omega)).1
    simp [this]

theorem u8Load_eq {p : Bytes} {s : Sector} (h : s.offset ≤ p.length) (k : Nat) :
    u8Load p s k =
      if p.length - s.offset < k + 1 then .err .packetTooSmall else .ok (getB p (s.offset + k)) := by
  simp only [u8Load, ensureRemainingLen_eq h]
  split
  · simp
  · rename_i hlt
    obtain ⟨b, hb, _⟩ := byteAt_of_lt (p := p) (i := s.offset + k) (by omega)
    simp [idx, getB, hb]

theorem setOffset_returns (p : Bytes) (s : Sector) (o : Nat) : (setOffset p s o).Returns := by
  unfold setOffset; split
  · exact returns_err _
  · exact returns_ok _

theorem setOffset_ok {p : Bytes} {s s' : Sector} {o old : Nat} (h : setOffset p s o = .ok (s', old)) :
    s' = { s with offset := o } ∧ o < p.length ∧ old = s.offset := by
  unfold setOffset at h; split at h
  · simp at h
  · simp at h; exact ⟨h.1.symm, by omega, h.2.symm⟩

theorem incrementOffset_returns {p : Bytes} {s : Sector} (h : s.offset ≤ p.length) (n : Nat) :
    (incrementOffset p s n).Returns := by
  rw [incrementOffset_eq h]; split
  · exact returns_err _
  · exact returns_ok _

theorem incrementOffset_ok {p : Bytes} {s s' : Sector} {n old : Nat} (hs : s.offset ≤ p.length)
    (h : incrementOffset p s n = .ok (s', old)) :
    s' = { s with offset := s.offset + n } ∧ s.offset + n ≤ p.length ∧ old = s.offset := by
  rw [incrementOffset_eq hs] at h; split at h
  · simp at h
  · simp at h; exact ⟨h.1.symm, by omega, h.2.symm⟩

theorem be16Load_returns {p : Bytes} {s : Sector} (h : s.offset ≤ p.length) (k : Nat) :
    (be16Load p s k).Returns := by
  rw [be16Load_eq h]; split
  · exact returns_err _
  · exact returns_ok _

theorem u8Load_returns {p : Bytes} {s : Sector} (h : s.offset ≤ p.length) (k : Nat) :
    (u8Load p s k).Returns := by
  rw [u8Load_eq h]; split
  · exact returns_err _
  · exact returns_ok _

theorem failIf_returns (c : Bool) (e : Err) : (failIf c e).Returns := by
  unfold failIf; split
  · exact returns_err _
  · exact returns_ok _

theorem skipName_returns (p : Bytes) (s : Sector) : (skipName p s).Returns := by
  unfold skipName
  apply bind_returns (checkCompressedName_returns _ _)
  intro off _
  apply bind_returns (setOffset_returns _ _ _)
  intro ⟨s', _⟩ _
  exact returns_ok _

theorem skipName_ok {p : Bytes} {s s' : Sector} (h : skipName p s = .ok s') :
    ∃ off, checkCompressedName p s.offset = .ok off ∧ s' = { s with offset := off } ∧ off < p.length := by
  unfold skipName at h
  obtain ⟨off, h1, h2⟩ := bind_eq_ok.1 h
  obtain ⟨⟨s1, old⟩, h3, h4⟩ := bind_eq_ok.1 h2
  obtain ⟨e1, e2, _⟩ := setOffset_ok h3
  simp at h4
  exact ⟨off, h1, by rw [← h4, e1], e2⟩

/-! ### OPT -/

theorem ednsSkipRr_spec {p : Bytes} {s : Sector} {e : Nat} (he : s.ednsEnd = some e)
    (h1 : s.offset ≤ e) (h2 : e ≤ p.length) :
    (ednsSkipRr p s).Returns ∧
      ∀ s', ednsSkipRr p s = .ok s' →
        s'.ednsEnd = some e ∧ s.offset + 4 ≤ s'.offset ∧ s'.offset ≤ e := by
  unfold ednsSkipRr ednsRrRdlen ednsBe16Load ednsIncrementOffset ednsEnsureRemainingLen ednsRemainingLen
  simp only [he, sub, h1, if_true, bind_ok, failIf]
  consts
  split
  · exact ⟨by simp [returns_err], by intro s' h; simp at h⟩
  · rename_i hlt
    simp only [bind_ok]
    obtain ⟨a, ha, _⟩ := idx_ok_of_lt (p := p) (i := s.offset + 2) (by simp at hlt; omega)
    obtain ⟨b, hb, _⟩ := idx_ok_of_lt (p := p) (i := s.offset + 2 + 1) (by simp at hlt; omega)
    simp only [ha, hb, bind_ok, pure_eq]
    split
    · exact ⟨by simp [returns_err], by intro s' h; simp at h⟩
    · rename_i h3
      refine ⟨by simp [returns_ok], ?_⟩
      intro s' h
      simp at h
      subst h
      simp at h3 hlt ⊢
      first | omega | exact ⟨he, by omega⟩ | (refine ⟨he, ?_, ?_⟩ <;> omega)

theorem optLoop_spec (p : Bytes) (fuel : Nat) (s : Sector) (e : Nat) (he : s.ednsEnd = some e)
    (h1 : s.offset ≤ e) (h2 : e ≤ p.length) (hf : (e - s.offset) / 4 + 1 ≤ fuel) :
    (optLoop p fuel s).Returns ∧ ∀ s', optLoop p fuel s = .ok s' → s'.offset = e ∧ s'.ednsEnd = some e := by
  induction fuel generalizing s with
  | zero => omega
  | succ n ih =>
    unfold optLoop
    simp only [ednsRemainingLen, he, sub, h1, if_true, bind_ok]
    split
    · rename_i hpos
      obtain ⟨hr, hok⟩ := ednsSkipRr_spec he h1 h2
      constructor
      · apply bind_returns hr
        intro s1 hs1
        obtain ⟨g1, g2, g3⟩ := hok s1 hs1
        exact (ih { s1 with ednsCount := s1.ednsCount + 1 } g1 g3 (by simp; omega)).1
      · intro s' h
        obtain ⟨s1, hs1, h'⟩ := bind_eq_ok.1 h
        obtain ⟨g1, g2, g3⟩ := hok s1 hs1
        exact (ih { s1 with ednsCount := s1.ednsCount + 1 } g1 g3 (by simp; omega)).2 s' h'
    · rename_i hz
      refine ⟨returns_ok _, ?_⟩
      intro s' h
      simp at h
      subst h
      exact ⟨by omega, he⟩

theorem parseOpt_spec {p : Bytes} {s : Sector} (h : s.offset ≤ p.length) :
    (parseOpt p s).Returns ∧ ∀ s', parseOpt p s = .ok s' →
      s'.offset = s.offset + 10 + get16 p (s.offset + 8) ∧ s'.offset ≤ p.length := by
  unfold parseOpt
  simp only [u8Load_eq h, be16Load_eq h, incrementOffset_eq h, failIf]
  consts
  split
  · exact ⟨by simp [returns_err], by intro s' h; simp at h⟩
  simp only [bind_ok]
  split
  · exact ⟨by simp [returns_err], by intro s' h; simp at h⟩
  simp only [bind_ok]
  split
  · exact ⟨by simp [returns_err], by intro s' h; simp at h⟩
  simp only [bind_ok]
  split
  · exact ⟨by simp [returns_err], by intro s' h; simp at h⟩
  simp only [bind_ok]
  split
  · exact ⟨by simp [returns_err], by intro s' h; simp at h⟩
  simp only [bind_ok]
  split
  · exact ⟨by simp [returns_err], by intro s' h; simp at h⟩
  rename_i hlt
  simp only [bind_ok]
  have h10 : s.offset + 10 ≤ p.length := by omega
  rw [ensureRemainingLen_eq (by simpa using h10)]
  split
  · exact ⟨by simp [returns_err], by intro s' h; simp at h⟩
  · rename_i hfit
    simp only [bind_ok]
    simp at hfit
    have := optLoop_spec p (get16 p (s.offset + 8) / 4 + 2)
      { offset := s.offset + 10, ednsStart := some (s.offset + 10),
        ednsEnd := some (s.offset + 10 + get16 p (s.offset + 8)), ednsCount := 0,
        extRcode := some (getB p (s.offset + 4)), ednsVersion := some (getB p (s.offset + 5)),
        extFlags := some (get16 p (s.offset + 6)), maxPayload := get16 p (s.offset + 2) }
      (s.offset + 10 + get16 p (s.offset + 8)) rfl (by simp) (by omega) (by simp)
    refine ⟨this.1, ?_⟩
    intro s' hs'
    have := (this.2 s' hs').1
    constructor <;> omega

/-! ### records -/

theorem sub_returns_of_le {a b : Nat} (h : b ≤ a) : sub a b = .ok (a - b) := by simp [sub, h]

/-- generic tail: `failIf c e; incrementOffset …; pure` -/
theorem tail_spec {p : Bytes} {s : Sector} (hs : s.offset ≤ p.length) (c : Bool) (e : Err) (n : Nat) :
    let r : Res Sector := (do failIf c e; let (s, _) ← incrementOffset p s n; pure s)
    r.Returns ∧ ∀ s', r = .ok s' → s'.offset ≤ p.length := by
  intro r
  show (failIf c e >>= fun _ => incrementOffset p s n >>= fun x => pure x.1).Returns ∧ _
  constructor
  · apply bind_returns (failIf_returns _ _)
    intro _ _
    apply bind_returns (incrementOffset_returns hs _)
    intro _ _
    exact returns_ok _
  · intro s' h
    obtain ⟨_, _, h2⟩ := bind_eq_ok.1 h
    obtain ⟨⟨s1, old⟩, h3, h4⟩ := bind_eq_ok.1 h2
    obtain ⟨e1, e2, _⟩ := incrementOffset_ok hs h3
    simp at h4
    subst h4
    rw [e1]; exact e2

/-- post-condition shared by all record parsers: the call returns, and on success the cursor is inside the packet -/
def Post (p : Bytes) (lo : Nat) (x : Res Sector) : Prop :=
  x.Returns ∧ ∀ s', x = .ok s' → lo ≤ s'.offset ∧ s'.offset ≤ p.length

theorem post_err (p : Bytes) (lo : Nat) (e : Err) : Post p lo (.err e) := ⟨returns_err _, by intro s' h; simp at h⟩

theorem Post.mono {p : Bytes} {lo lo' : Nat} {x : Res Sector} (h : Post p lo x) (hl : lo' ≤ lo) : Post p lo' x :=
  ⟨h.1, fun s' hs => ⟨Nat.le_trans hl (h.2 s' hs).1, (h.2 s' hs).2⟩⟩

theorem post_bind {α} {p : Bytes} {lo : Nat} {x : Res α} {f : α → Res Sector}
    (h1 : x.Returns) (h2 : ∀ a, x = .ok a → Post p lo (f a)) : Post p lo (x >>= f) := by
  constructor
  · exact bind_returns h1 (fun a ha => (h2 a ha).1)
  · intro s' h
    obtain ⟨a, ha, hf⟩ := bind_eq_ok.1 h
    exact (h2 a ha).2 s' hf

theorem post_inc {p : Bytes} {s : Sector} (hs : s.offset ≤ p.length) (n : Nat) :
    Post p (s.offset + n) (do let (s, _) ← incrementOffset p s n; pure s) := by
  show Post p (s.offset + n) (incrementOffset p s n >>= fun x => pure x.1)
  apply post_bind (incrementOffset_returns hs n)
  intro ⟨s1, old⟩ h1
  obtain ⟨e1, e2, _⟩ := incrementOffset_ok hs h1
  refine ⟨returns_ok _, ?_⟩
  intro s' h
  simp at h
  subst h
  rw [e1]; exact ⟨Nat.le_refl _, e2⟩

theorem sub_returns (a b : Nat) : (sub a b).Returns ∨ sub a b = .panic := by
  unfold sub; split
  · left; exact returns_ok _
  · right; rfl

/-- rdata consisting of a validated name (by `chk` at `s.offset + pre`) and fixed bytes, as in NS/CNAME/PTR/MX/DNAME -/
theorem post_name_rdata {p : Bytes} {s1 : Sector} (hs : s1.offset ≤ p.length) (c : Bool) (rdlen pre : Nat)
    (chk : Bytes → Nat → Res Nat) (hchk : ∀ o, (chk p o).Returns)
    (hgt : ∀ o e, chk p o = .ok e → o < e) :
    Post p (s1.offset + 10) (do
      failIf c .packetTooSmall
      let (s, _) ← incrementOffset p s1 10
      let fin ← chk p (s.offset + pre)
      let d ← sub fin s.offset
      failIf (d != rdlen) .invalidPacket
      let (s, _) ← incrementOffset p s rdlen
      pure s) := by
  apply post_bind (failIf_returns _ _)
  intro _ _
  apply post_bind (incrementOffset_returns hs _)
  intro ⟨s2, old⟩ h2
  obtain ⟨e1, e2, _⟩ := incrementOffset_ok hs h2
  have hs2 : s2.offset ≤ p.length := by rw [e1]; exact e2
  apply post_bind (hchk _)
  intro fin hfin
  have := hgt _ _ hfin
  simp only
  rw [sub_returns_of_le (by omega : s2.offset ≤ fin)]
  simp only [bind_ok]
  apply post_bind (failIf_returns _ _)
  intro _ _
  have := post_inc (p := p) hs2 rdlen
  have e : s2.offset = s1.offset + 10 := by rw [e1]
  exact this.mono (by omega)

theorem checkUncompressedName_ok_gt {p : Bytes} {off e : Nat} (h : checkUncompressedName p off = .ok e) :
    off < e := by
  unfold checkUncompressedName at h
  split at h
  · simp at h
  · -- one step of the loop already moves forward; generalise over the loop
    have key : ∀ fuel o nl, cunLoop p fuel o nl = .ok e → o < e := by
      intro fuel
      induction fuel with
      | zero => intro o nl h; simp [cunLoop] at h
      | succ n ih =>
        intro o nl h
        unfold cunLoop at h
        split at h
        · simp at h
        · cases h1 : idx p o with
          | ok len =>
            simp only [h1] at h
            split at h
            · simp at h
            · split at h
              · simp at h
              · split at h
                · simp at h
                · split at h
                  · simp at h
                  · split at h
                    · simp at h; omega
                    · have := ih _ _ h; omega
          | err e => simp [h1] at h
          | panic => simp [h1] at h
          | diverge => simp [h1] at h
    exact key _ _ _ h

theorem parseRR_spec {p : Bytes} {s : Sector} (sec : Section) (h : s.offset ≤ p.length) :
    Post p (s.offset + 11) (parseRR p s sec) := by
  unfold parseRR
  have hsn := skipName_returns p s
  cases hsk : skipName p s with
  | err e => exact post_err _ _ _
  | panic => exact absurd hsk hsn.1
  | diverge => exact absurd hsk hsn.2
  | ok s1 =>
    obtain ⟨off, hcc, hs1, hoff⟩ := skipName_ok hsk
    have h1 : s1.offset ≤ p.length := by rw [hs1]; simp; omega
    have hgt : s.offset < s1.offset := by
      rw [hs1]; simp
      exact checkCompressedName_ok_gt hcc
    have hge : s.offset ≤ s1.offset := Nat.le_of_lt hgt
    have hlo : s.offset + 11 ≤ s1.offset + 10 := by omega
    simp only [bind_ok, rrType, rrRdlen, be16Load_eq h1]
    consts
    split
    · exact post_err _ _ _
    simp only [bind_ok]
    split
    · exact post_err _ _ _
    simp only [bind_ok]
    split
    · -- OPT
      simp only [failIf]
      split
      · exact post_err _ _ _
      simp only [bind_ok, sub_returns_of_le hge]
      split
      · exact post_err _ _ _
      simp only [bind_ok]
      have := parseOpt_spec (p := p) (s := s1) h1
      exact ⟨this.1, fun s' hs' => ⟨by have := (this.2 s' hs').1; omega, (this.2 s' hs').2⟩⟩
    split
    · exact (post_name_rdata h1 _ _ 0 checkCompressedName (checkCompressedName_returns p)
        (fun _ _ h => checkCompressedName_ok_gt h)).mono hlo
    split
    · exact (post_name_rdata h1 _ _ 2 checkCompressedName (checkCompressedName_returns p)
        (fun _ _ h => by have := checkCompressedName_ok_gt h; omega)).mono hlo
    split
    · -- SOA
      apply post_bind (failIf_returns _ _)
      intro _ hrd
      apply post_bind (incrementOffset_returns h1 _)
      intro ⟨s2, old⟩ h2
      obtain ⟨e1, e2, _⟩ := incrementOffset_ok h1 h2
      have hs2 : s2.offset ≤ p.length := by rw [e1]; exact e2
      have es2 : s2.offset = s1.offset + 10 := by rw [e1]
      apply post_bind (checkCompressedName_returns _ _)
      intro fin1 hfin1
      apply post_bind (checkCompressedName_returns _ _)
      intro fin2 hfin2
      have g1 : s2.offset < fin1 := checkCompressedName_ok_gt hfin1
      have g2 := checkCompressedName_ok_gt hfin2
      simp only
      rw [sub_returns_of_le (by omega : s2.offset ≤ fin2)]
      simp only [bind_ok]
      have hrd' : 20 ≤ get16 p (s1.offset + 8) := by
        unfold failIf at hrd
        split at hrd
        · simp at hrd
        · rename_i hc; simp at hc; omega
      rw [sub_returns_of_le hrd']
      simp only [bind_ok]
      apply post_bind (failIf_returns _ _)
      intro _ _
      exact (post_inc hs2 _).mono (by omega)
    split
    · exact (post_name_rdata h1 _ _ 0 checkUncompressedName (checkUncompressedName_returns p)
        (fun _ _ h => checkUncompressedName_ok_gt h)).mono hlo
    split
    · apply post_bind (failIf_returns _ _)
      intro _ _
      exact (post_inc h1 _).mono (by omega)
    split
    · apply post_bind (failIf_returns _ _)
      intro _ _
      exact (post_inc h1 _).mono (by omega)
    · exact (post_inc h1 _).mono (by omega)

theorem parseRRs_spec {p : Bytes} (sec : Section) (n : Nat) {s : Sector} (h : s.offset ≤ p.length) :
    Post p (s.offset + 11 * n) (parseRRs p sec n s) := by
  induction n generalizing s with
  | zero => exact ⟨returns_ok _, by intro s' h'; simp [parseRRs] at h'; subst h'; exact ⟨by omega, h⟩⟩
  | succ k ih =>
    unfold parseRRs
    have := parseRR_spec (p := p) (s := s) sec h
    apply post_bind this.1
    intro s1 hs1
    have b := this.2 s1 hs1
    exact (ih b.2).mono (by omega)

theorem be16_returns_of_le {p : Bytes} {i : Nat} (h : i + 2 ≤ p.length) : (be16 p i).Returns := by
  rw [(be16_ok_of_le h).1]; exact returns_ok _

theorem parseQuestion_spec {p : Bytes} {s : Sector} (_h : s.offset ≤ p.length) :
    Post p (s.offset + 5) (parseQuestion p s) := by
  unfold parseQuestion
  apply post_bind (skipName_returns _ _)
  intro s1 hsk
  obtain ⟨off, hcc, hs1, hoff⟩ := skipName_ok hsk
  have h1 : s1.offset ≤ p.length := by rw [hs1]; simp; omega
  unfold ensureInClass rrClass
  apply post_bind
  · apply bind_returns (be16Load_returns h1 _)
    intro _ _
    exact failIf_returns _ _
  intro _ _
  apply post_bind (be16Load_returns h1 _)
  intro _ _
  apply post_bind (failIf_returns _ _)
  intro _ _
  have hgt : s.offset < s1.offset := by
    rw [hs1]; simp
    exact checkCompressedName_ok_gt hcc
  exact (post_inc h1 _).mono (by consts; omega)

/-- C01, first half: `parse` returns `Ok` or `Err` on every byte string. -/
theorem parse_returns (p : Bytes) : (parse p).Returns := by
  unfold parse
  simp only [failIf]
  consts
  split
  · exact returns_err _
  rename_i hlen
  simp at hlen
  simp only [bind_ok]
  apply bind_returns (be16_returns_of_le (by omega))
  intro flags _
  apply bind_returns (be16_returns_of_le (by omega))
  intro qd _
  split
  · exact returns_err _
  simp only [bind_ok]
  split
  · exact returns_err _
  simp only [bind_ok]
  apply bind_returns (setOffset_returns _ _ _)
  intro ⟨s1, old⟩ hso
  obtain ⟨e1, e2, _⟩ := setOffset_ok hso
  have h1 : s1.offset ≤ p.length := by rw [e1]; simp; omega
  have hq := parseQuestion_spec (p := p) (s := s1) h1
  apply bind_returns hq.1
  intro s2 hs2
  have h2 := (hq.2 s2 hs2).2
  apply bind_returns (be16_returns_of_le (by omega))
  intro an _
  split
  · exact returns_err _
  simp only [bind_ok]
  have ha := parseRRs_spec (p := p) .answer an h2
  apply bind_returns ha.1
  intro s3 hs3
  have h3 := (ha.2 s3 hs3).2
  apply bind_returns (be16_returns_of_le (by omega))
  intro ns _
  split
  · exact returns_err _
  simp only [bind_ok]
  have hn := parseRRs_spec (p := p) .nameServers ns h3
  apply bind_returns hn.1
  intro s4 hs4
  have h4 := (hn.2 s4 hs4).2
  apply bind_returns (be16_returns_of_le (by omega))
  intro ar _
  have hr := parseRRs_spec (p := p) .additional ar h4
  apply bind_returns hr.1
  intro s5 hs5
  have h5 := (hr.2 s5 hs5).2
  rw [remainingLen_eq h5]
  simp only [bind_ok]
  split
  · exact returns_err _
  · exact returns_ok _

end Dns
