/-
  Lemmas.FirstTouch — the decompress-first step of `set_raw_name` / `delete` on an object that still has
  its parse-time flag: the object becomes the plain object of the canonical pieces and the cursor is
  carried to the same record.
-/
import DnsModel.Lemmas.SectionView
namespace Dns
open Res

/-- an object as `parse` (or an in-place setter after it) leaves it: bytes accepted, flag still set,
EDNS summary that of the parse -/
structure Fresh (pp : PP) (p : Bytes) (v : View) : Prop where
  hp : parse p = .ok v
  pk : pp.packet = p
  mc : pp.maybeCompressed = true
  e1 : pp.ednsCount = v.ednsCount
  e2 : pp.extRcode = v.extRcode
  e3 : pp.ednsVersion = v.ednsVersion
  e4 : pp.extFlags = v.extFlags
  oq : pp.offsetQuestion = v.offsetQuestion
  oa : pp.offsetAnswers = v.offsetAnswers
  on : pp.offsetNameservers = v.offsetNameservers
  oR : pp.offsetAdditional = v.offsetAdditional

theorem fresh_ofView {p : Bytes} {v : View} (h : parse p = .ok v) : Fresh (PP.ofView p v) p v :=
  ⟨h, rfl, rfl, rfl, rfl, rfl, rfl, rfl, rfl, rfl, rfl⟩

def C03.Layout.recs {p : Bytes} (L : C03.Layout p) : Section → List RecPos
  | .answer => L.answers
  | .nameServers => L.authority
  | .additional => L.additional
  | _ => []

def C05.Output.pieces {p : Bytes} {L : C03.Layout p} (o : C05.Output p L) : Section → List Bytes
  | .answer => o.pa
  | .nameServers => o.pn
  | .additional => o.pr
  | _ => []

/-- `RRIterator::recompute` on a record of the policy -/
theorem recompute_spec {p : Bytes} {sec : Section} {r : RecPos} {ob oa : Bool} (hr : RRAtPos p sec r ob oa)
    (c : Cursor) (hc : c.offset = some r.off) (hq : c.sec ≠ .question) :
    c.recompute p = .ok { c with nameEnd := r.ne, offsetNext := r.next } := by
  obtain ⟨⟨ls, hv⟩, h10, hnext, _, _⟩ := hr
  unfold Cursor.recompute
  have hqq : (c.sec == Section.question) = false := by simpa using hq
  simp only [hc, unwrap, bind_ok, skipName_valid hv.2.1 (by omega : r.ne < p.length), hqq, Bool.false_eq_true, if_false,
    skipRdata_eq h10, pure_eq]
  simp [hnext]

/-- `recompute` on an object that still has its flag: the plain object of the decompressed bytes -/
theorem recompute_fresh' {pp : PP} {p : Bytes} {v : View} (F : Fresh pp p v) {L : C03.Layout p} (o : C05.Output p L) :
    ∃ v2, parse o.bytes = .ok v2 ∧ ({ pp with packet := o.bytes } : PP).recompute = .ok (pp.rebased o.bytes v2, none) ∧
      pp.recompute = .ok (pp.rebased o.bytes v2, none) := by
  obtain ⟨v2, h2⟩ := C02.wf_accepted _ (C05.output_layout F.hp o).1
  have hcore := edns_preserved F.hp o h2
  obtain ⟨L0, o0, hun⟩ := C05.decompress_ok F.hp
  have hob0 : o0.bytes = o.bytes := by
    obtain ⟨eq, ea, en, er⟩ := C05.layout_unique L0 L
    have e1 : o0.qc = o.qc := by have := o0.hq; rw [eq] at this; exact this.functional o.hq
    have e2 : o0.pa = o.pa := by have := o0.ha; rw [ea] at this; exact this.functional o.ha
    have e3 : o0.pn = o.pn := by have := o0.hn; rw [en] at this; exact this.functional o.hn
    have e4 : o0.pr = o.pr := by have := o0.hr; rw [er] at this; exact this.functional o.hr
    unfold C05.Output.bytes
    rw [e1, e2, e3, e4]
  rw [hob0] at hun
  obtain ⟨L2, o2, hun2⟩ := C05.decompress_ok h2
  have hfix := C05.decompress_fixed_point F.hp hun
  rw [hun2] at hfix
  have hob : o2.bytes = o.bytes := by simpa using hfix
  have hv1 : ({ pp with packet := o.bytes } : PP).ednsCount = v2.ednsCount ∧ ({ pp with packet := o.bytes } : PP).extRcode = v2.extRcode ∧
      ({ pp with packet := o.bytes } : PP).ednsVersion = v2.ednsVersion ∧ ({ pp with packet := o.bytes } : PP).extFlags = v2.extFlags := by
    unfold EdnsInfo.core View.info at hcore
    simp only [Prod.mk.injEq] at hcore
    obtain ⟨c1, c2, c3, c4, _⟩ := hcore
    exact ⟨by rw [c1]; exact F.e1, by rw [c2]; exact F.e2, by rw [c3]; exact F.e3, by rw [c4]; exact F.e4⟩
  obtain ⟨v3, h3, hrec⟩ := recompute_fresh h2 ({ pp with packet := o.bytes } : PP) rfl hv1 F.mc o2
  rw [hob] at h3 hrec
  have hv32 : v3 = v2 := by rw [h2] at h3; simpa using h3.symm
  subst hv32
  refine ⟨v3, h2, hrec, ?_⟩
  obtain ⟨v4, h4, hrec4⟩ := recompute_fresh F.hp pp F.pk ⟨F.e1, F.e2, F.e3, F.e4⟩ F.mc o
  have : v4 = v3 := by rw [h2] at h4; simpa using h4.symm
  subst this
  exact hrec4

/-- the cursor carried to the record's new place -/
def Cursor.movedTo (c : Cursor) (off ne nx : Nat) : Cursor := { c with offset := some off, nameEnd := ne, offsetNext := nx }

/-- the ingredients of the decompress-first step -/
theorem touch_parts {pp : PP} {p : Bytes} {v : View} (F : Fresh pp p v) (L : C03.Layout p) (o : C05.Output p L)
    (sec : Section) (hs : sec.isRec = true) {l1 l2 : List RecPos} {r : RecPos} {ps1 ps2 : List Bytes} {pc : Bytes}
    (hl : L.recs sec = l1 ++ r :: l2) (hp : o.pieces sec = ps1 ++ pc :: ps2) (hlen : l1.length = ps1.length)
    (c : Cursor) (hsec : c.sec = sec) :
    ∃ (v2 : View) (P : PlainObj (pp.rebased o.bytes v2)) (ne : Nat) (ob oa : Bool),
      parse o.bytes = .ok v2 ∧ P.lst .answer = o.pa ∧ P.lst .nameServers = o.pn ∧ P.lst .additional = o.pr ∧
      P.hdr = p.take 12 ∧ o.qc = (encLabels P.qls ++ [0]) ++ P.q4 ∧
      RRAtPos o.bytes sec ⟨P.start sec + ps1.flatten.length, ne, P.start sec + ps1.flatten.length + pc.length⟩ ob oa ∧
      uncompressWithPreviousOffset p r.off = .ok (o.bytes, P.start sec + ps1.flatten.length) ∧
      P.start sec + ps1.flatten.length ≤ o.bytes.length ∧
      Cursor.recompute o.bytes { c with offset := some (P.start sec + ps1.flatten.length) } =
        .ok (c.movedTo (P.start sec + ps1.flatten.length) ne (P.start sec + ps1.flatten.length + pc.length)) ∧
      recomputeSections { pp with packet := o.bytes } = .ok (pp.rebased o.bytes v2) := by
  obtain ⟨v2, h2, hrec, _⟩ := recompute_fresh' F o
  obtain ⟨P, eA, eN, eR, eH, eQ⟩ := plainObj_of_output F.hp o h2 pp
  have hlst : P.lst sec = ps1 ++ pc :: ps2 := by
    cases sec <;> simp_all [PlainObj.lst, C05.Output.pieces, Section.isRec]
  obtain ⟨ne, ob, oa, hr⟩ := P.rec_at sec hs hlst
  have hpk : (pp.rebased o.bytes v2).packet = o.bytes := rfl
  rw [hpk] at hr
  refine ⟨v2, P, ne, ob, oa, h2, eA, eN, eR, eH, eQ, hr, ?_, ?_, ?_, ?_⟩
  · obtain ⟨_, _, bA, bN, bR⟩ := C05.boundaries F.hp L o
    have hqcl : o.qc.length = labSum P.qls + 1 + 4 := by
      rw [eQ]; simp only [List.length_append, P.hq4, encLabels_length, List.length_cons, List.length_nil]
    cases sec with
    | answer =>
      simp only [C03.Layout.recs, C05.Output.pieces] at hl hp
      rw [bA l1 r l2 ps1 pc ps2 hl hp hlen]
      simp only [PlainObj.start, hqcl]
      congr 2
    | nameServers =>
      simp only [C03.Layout.recs, C05.Output.pieces] at hl hp
      rw [bN l1 r l2 ps1 pc ps2 hl hp hlen]
      simp only [PlainObj.start, hqcl, eA]
      congr 2
    | additional =>
      simp only [C03.Layout.recs, C05.Output.pieces] at hl hp
      rw [bR l1 r l2 ps1 pc ps2 hl hp hlen]
      simp only [PlainObj.start, hqcl, eA, eN]
      congr 2
    | question => simp [Section.isRec] at hs
    | edns => simp [Section.isRec] at hs
  · have := hr.pos_len
    simp only at this
    omega
  · have hq : c.sec ≠ .question := by
      rw [hsec]; intro h; rw [h] at hs; simp [Section.isRec] at hs
    have := recompute_spec hr { c with offset := some (P.start sec + ps1.flatten.length) } rfl hq
    rw [this]; rfl
  · simp only [recomputeSections, hrec, bind_ok, pure_eq]

/-- **the decompress-first step**: through a cursor standing on record `r` of a record section of an
object that still has its flag, the object becomes the plain object of the canonical pieces and the
cursor stands on the canonical form `pc` of `r` -/
theorem uncompressAt_fresh {pp : PP} {p : Bytes} {v : View} (F : Fresh pp p v) (L : C03.Layout p) (o : C05.Output p L)
    (sec : Section) (hs : sec.isRec = true) {l1 l2 : List RecPos} {r : RecPos} {ps1 ps2 : List Bytes} {pc : Bytes}
    (hl : L.recs sec = l1 ++ r :: l2) (hp : o.pieces sec = ps1 ++ pc :: ps2) (hlen : l1.length = ps1.length)
    (c : Cursor) (hsec : c.sec = sec) (hoff : c.offset = some r.off) :
    ∃ (v2 : View) (P : PlainObj (pp.rebased o.bytes v2)) (ne : Nat) (ob oa : Bool),
      parse o.bytes = .ok v2 ∧ P.lst .answer = o.pa ∧ P.lst .nameServers = o.pn ∧ P.lst .additional = o.pr ∧
      P.hdr = p.take 12 ∧ o.qc = (encLabels P.qls ++ [0]) ++ P.q4 ∧
      RRAtPos o.bytes sec ⟨P.start sec + ps1.flatten.length, ne, P.start sec + ps1.flatten.length + pc.length⟩ ob oa ∧
      uncompressAt pp c = mOk (pp.rebased o.bytes v2) (c.movedTo (P.start sec + ps1.flatten.length) ne (P.start sec + ps1.flatten.length + pc.length)) := by
  obtain ⟨v2, P, ne, ob, oa, h2, eA, eN, eR, eH, eQ, hr, hun, hfit, hrc, hrs⟩ := touch_parts F L o sec hs hl hp hlen c hsec
  refine ⟨v2, P, ne, ob, oa, h2, eA, eN, eR, eH, eQ, hr, ?_⟩
  unfold uncompressAt
  simp only [hoff, F.pk, hun, assert, hfit, decide_true, if_true, bind_ok]
  rw [hrc]
  simp only [bind_ok, hrs, mOk]

/-- **in-place decompression through an iterator** (`DNSIterable::uncompress`): the same result -/
theorem iterUncompress_fresh {pp : PP} {p : Bytes} {v : View} (F : Fresh pp p v) (L : C03.Layout p) (o : C05.Output p L)
    (sec : Section) (hs : sec.isRec = true) {l1 l2 : List RecPos} {r : RecPos} {ps1 ps2 : List Bytes} {pc : Bytes}
    (hl : L.recs sec = l1 ++ r :: l2) (hp : o.pieces sec = ps1 ++ pc :: ps2) (hlen : l1.length = ps1.length)
    (c : Cursor) (hsec : c.sec = sec) (hoff : c.offset = some r.off) :
    ∃ (v2 : View) (P : PlainObj (pp.rebased o.bytes v2)) (ne : Nat),
      parse o.bytes = .ok v2 ∧ P.lst .answer = o.pa ∧ P.lst .nameServers = o.pn ∧ P.lst .additional = o.pr ∧
      iterUncompress pp c = mOk (pp.rebased o.bytes v2) (c.movedTo (P.start sec + ps1.flatten.length) ne (P.start sec + ps1.flatten.length + pc.length)) := by
  obtain ⟨v2, P, ne, ob, oa, h2, eA, eN, eR, eH, eQ, hr, hun, hfit, hrc, hrs⟩ := touch_parts F L o sec hs hl hp hlen c hsec
  refine ⟨v2, P, ne, h2, eA, eN, eR, ?_⟩
  unfold iterUncompress
  have hnot : (!pp.maybeCompressed) = false := by rw [F.mc]; rfl
  rw [hnot]
  simp only [Bool.false_eq_true, if_false, hoff, F.pk, hun, assert, hfit, decide_true, if_true, bind_ok, hrs]
  have : (pp.rebased o.bytes v2).packet = o.bytes := rfl
  rw [this, hrc]
  simp only [bind_ok, mOk]

/-- on an object whose flag is cleared, `uncompress` through an iterator does nothing -/
theorem iterUncompress_plain (pp : PP) (c : Cursor) (h : pp.maybeCompressed = false) :
    iterUncompress pp c = .ok { pp := pp, cur := c, result := none } := by
  unfold iterUncompress
  simp [h]

/-- the section accessor on an object that still has its parse-time view -/
theorem currentSection_fresh {pp : PP} {p : Bytes} {v : View} (F : Fresh pp p v) (L : C03.Layout p)
    (sec : Section) (hs : sec.isRec = true) {r : RecPos} (hr : r ∈ L.recs sec) (c : Cursor) (hoff : c.offset = some r.off) :
    c.currentSection pp = .ok sec := by
  have e : c.currentSection pp = c.currentSection (PP.ofView p v) := by
    unfold Cursor.currentSection
    simp only [PP.ofView, F.oq, F.oa, F.on, F.oR]
    rfl
  rw [e]
  obtain ⟨L0, _, ha, hn, hR⟩ := C03.current_section F.hp
  obtain ⟨_, ea, en, er⟩ := C05.layout_unique L0 L
  cases sec with
  | answer => exact ha r (by rw [ea]; exact hr) c hoff
  | nameServers => exact hn r (by rw [en]; exact hr) c hoff
  | additional => exact hR r (by rw [er]; exact hr) c hoff
  | question => simp [Section.isRec] at hs
  | edns => simp [Section.isRec] at hs

/-- `delete` on an object with its flag set = decompress-first step, then `delete` on the plain object -/
theorem deleteRR_after_touch {pp pp1 : PP} {c c1 : Cursor} {sect : Section} {o o1 : Nat} (hmc : pp.maybeCompressed = true)
    (hoff : c.offset = some o) (hcs : c.currentSection pp = .ok sect)
    (hun : uncompressAt pp c = mOk pp1 c1) (hmc1 : pp1.maybeCompressed = false) (hoff1 : c1.offset = some o1)
    (hcs1 : c1.currentSection pp1 = .ok sect) : deleteRR pp c = deleteRR pp1 c1 := by
  unfold deleteRR
  simp only [hoff, hoff1, Option.isNone_some, Bool.false_eq_true, if_false, hcs, hcs1, hmc, hmc1, if_true, hun, mOk, bind_ok,
    Option.isSome_none]

/-- **first deletion on an object that still has its flag**: through a cursor on record `r` (canonical
form `pc`) of a record section, the object becomes the plain object of the canonical pieces without `pc` -/
theorem delete_fresh {pp : PP} {p : Bytes} {v : View} (F : Fresh pp p v) (L : C03.Layout p) (o : C05.Output p L)
    (sec : Section) (hs : sec.isRec = true) {l1 l2 : List RecPos} {r : RecPos} {ps1 ps2 : List Bytes} {pc : Bytes}
    (hl : L.recs sec = l1 ++ r :: l2) (hp : o.pieces sec = ps1 ++ pc :: ps2) (hlen : l1.length = ps1.length)
    (c : Cursor) (hsec : c.sec = sec) (hoff : c.offset = some r.off) :
    ∃ (pp' : PP) (P' : PlainObj pp') (c' : Cursor),
      deleteRR pp c = .ok { pp := pp', cur := c', result := none } ∧ c'.offset = none ∧ c'.sec = sec ∧
      P'.lst sec = ps1 ++ ps2 ∧ (∀ s, s ≠ sec → P'.lst s = o.pieces s) ∧
      o.qc = (encLabels P'.qls ++ [0]) ++ P'.q4 ∧
      (∀ k, (k + 1 < sectionCountOffset sec ∨ sectionCountOffset sec + 1 < k) → get16 P'.hdr k = get16 (p.take 12) k) := by
  obtain ⟨v2, P, ne, ob, oa, h2, eA, eN, eR, eH, eQ, hr, hun⟩ := uncompressAt_fresh F L o sec hs hl hp hlen c hsec hoff
  have hlst : P.lst sec = ps1 ++ pc :: ps2 := by
    cases sec <;> simp_all [PlainObj.lst, C05.Output.pieces, Section.isRec]
  have hcs := currentSection_fresh F L sec hs (r := r) (by rw [hl]; simp) c hoff
  obtain ⟨pp', P', hdel, f1, f2, f3, f4, f5, _, _⟩ := P.delete_at sec hs hlst
    (c.movedTo (P.start sec + ps1.flatten.length) ne (P.start sec + ps1.flatten.length + pc.length)) hr rfl rfl rfl
  have hcs1 : (c.movedTo (P.start sec + ps1.flatten.length) ne (P.start sec + ps1.flatten.length + pc.length)).currentSection
      (pp.rebased o.bytes v2) = .ok sec := by
    obtain ⟨h1, h2', h3⟩ := hr.pos_len
    simp only at h1 h2' h3
    exact P.currentSection_at sec hs hlst (by omega) _ rfl
  have heq := deleteRR_after_touch F.mc hoff hcs hun P.mc (o1 := P.start sec + ps1.flatten.length) rfl hcs1
  refine ⟨pp', P', _, by rw [heq]; exact hdel, rfl, by simp [Cursor.movedTo, hsec], f1, ?_, by rw [f3, f4]; exact eQ, ?_⟩
  · intro s hs'
    rw [f2 s hs']
    cases s <;> simp_all [PlainObj.lst, C05.Output.pieces]
  · intro k hk
    rw [f5 k hk, eH]

end Dns
