import DnsModel.Lemmas.NameComplete
namespace Dns


/-! Calibration for C06/C07: stability of the declarative name relation under (1) weakening of
barrier / low / refs, (2) appending bytes, and (3) the emission lemma: literal labels followed by a
pointer to an already-emitted name decode to the concatenation. -/

theorem Labels.mono {p : Bytes} {bar bar' off stop : Nat} {ls : List (List UInt8)}
    (h : Labels p bar off ls stop) (hb : bar ≤ bar') : Labels p bar' off ls stop := by
  induction h with
  | nil => exact Labels.nil _
  | cons h1 h2 h3 h4 h5 _ ih => exact Labels.cons (by omega) h2 h3 h4 h5 ih

theorem NameAt.mono {p : Bytes} {bar low off refs e : Nat} {ls : List (List UInt8)}
    (h : NameAt p bar low off refs ls e) :
    ∀ {bar' low' refs' : Nat}, bar ≤ bar' → low ≤ low' → refs ≤ refs' → NameAt p bar' low' off refs' ls e := by
  induction h with
  | root hl hs hb => intro bar' low' refs' h1 h2 h3; exact NameAt.root (hl.mono h1) (by omega) hb
  | ptr hl hs hb hhi hlo ht hnz hr hn ih =>
    intro bar' low' refs' h1 h2 h3
    exact NameAt.ptr (hl.mono h1) (by omega) hb hhi hlo (by omega) hnz (by omega) (ih h2 (Nat.le_refl _) (by omega))

theorem byteAt_append_left {p q : Bytes} {i b : Nat} (h : byteAt p i = some b) : byteAt (p ++ q) i = some b := by
  have hlt := byteAt_lt_length h
  unfold byteAt at *
  rw [List.getElem?_append_left hlt]; exact h

theorem byteAt_append_right {p q : Bytes} {i : Nat} : byteAt (p ++ q) (p.length + i) = byteAt q i := by
  unfold byteAt
  rw [List.getElem?_append_right (by omega)]
  congr 2; omega

theorem byteAt_append_right0 {p q : Bytes} : byteAt (p ++ q) p.length = byteAt q 0 := by
  have := byteAt_append_right (p := p) (q := q) (i := 0)
  simpa using this

theorem byteAt_cons_zero (x : UInt8) (q : Bytes) : byteAt (x :: q) 0 = some x.toNat := by
  unfold byteAt; simp

theorem lab_append_left {p q : Bytes} {off len : Nat} (h : off + len + 1 ≤ p.length) :
    lab (p ++ q) off len = lab p off len := by
  unfold lab
  rw [List.drop_append_of_le_length (by omega), List.take_append_of_le_length (by simp; omega)]

theorem Labels.append {p q : Bytes} {bar off stop : Nat} {ls : List (List UInt8)}
    (h : Labels p bar off ls stop) : Labels (p ++ q) bar off ls stop := by
  induction h with
  | nil => exact Labels.nil _
  | @cons off len rest stop h1 h2 h3 h4 h5 _ ih =>
    have := Labels.cons (p := p ++ q) h1 (byteAt_append_left h2) h3 h4 (by simp; omega) ih
    rwa [lab_append_left h5] at this

theorem byteAt_ne_append_left {p q : Bytes} {i : Nat} (hi : i < p.length) (h : byteAt p i ≠ some 0) :
    byteAt (p ++ q) i ≠ some 0 := by
  unfold byteAt at *
  rwa [List.getElem?_append_left hi]

/-- H3: a name that decodes inside `p` decodes identically inside `p ++ q`. -/
theorem NameAt.append {p q : Bytes} {bar low off refs e : Nat} {ls : List (List UInt8)}
    (h : NameAt p bar low off refs ls e) (hlow : low ≤ p.length) : NameAt (p ++ q) bar low off refs ls e := by
  induction h with
  | root hl hs hb => exact NameAt.root hl.append hs (byteAt_append_left hb)
  | @ptr bar low off refs ls ls' stop hi lo e' hl hs hb hhi hlo ht hnz hr hn ih =>
    exact NameAt.ptr hl.append hs (byteAt_append_left hb) hhi (byteAt_append_left hlo) ht
      (byteAt_ne_append_left (by omega) hnz) hr (ih (by omega))

/-- wire encoding of a list of labels without terminator -/
def encLabels : List (List UInt8) → Bytes
  | [] => []
  | l :: ls => UInt8.ofNat l.length :: l ++ encLabels ls

def okLabel (l : List UInt8) : Prop := 1 ≤ l.length ∧ l.length ≤ 63

theorem encLabels_length (ls : List (List UInt8)) : (encLabels ls).length = labSum ls := by
  induction ls with
  | nil => rfl
  | cons l ls ih => simp [encLabels, labSum_cons, ih]; omega

/-- literal labels written at the end of `out` (followed by anything) are `Labels` there -/
theorem Labels.of_encLabels (out : Bytes) (ls : List (List UInt8)) (tail : Bytes) (bar : Nat)
    (hok : ∀ l ∈ ls, okLabel l) (hbar : out.length + labSum ls ≤ bar) :
    Labels (out ++ encLabels ls ++ tail) bar out.length ls (out.length + labSum ls) := by
  induction ls generalizing out with
  | nil =>
    have : out.length + labSum [] = out.length := by simp [labSum]
    rw [this]; exact Labels.nil _
  | cons l ls ih =>
    have hl := hok l (by simp)
    rw [labSum_cons] at hbar
    have hrec := ih (out ++ (UInt8.ofNat l.length :: l)) (fun x hx => hok x (by simp [hx])) (by simp; omega)
    have e1 : out ++ encLabels (l :: ls) ++ tail = (out ++ (UInt8.ofNat l.length :: l)) ++ encLabels ls ++ tail := by
      simp [encLabels]
    have e2 : (out ++ (UInt8.ofNat l.length :: l)).length = out.length + l.length + 1 := by simp; omega
    rw [e1]
    rw [e2] at hrec
    have hb : byteAt ((out ++ (UInt8.ofNat l.length :: l)) ++ encLabels ls ++ tail) out.length = some l.length := by
      have e3 : ((out ++ (UInt8.ofNat l.length :: l)) ++ encLabels ls ++ tail) = out ++ (UInt8.ofNat l.length :: (l ++ encLabels ls ++ tail)) := by simp
      rw [e3, byteAt_append_right0, byteAt_cons_zero]
      unfold okLabel at hl
      simp; omega
    have hlab : lab ((out ++ (UInt8.ofNat l.length :: l)) ++ encLabels ls ++ tail) out.length l.length = l := by
      unfold lab
      have : ((out ++ (UInt8.ofNat l.length :: l)) ++ encLabels ls ++ tail) = (out ++ [UInt8.ofNat l.length]) ++ (l ++ (encLabels ls ++ tail)) := by simp
      rw [this, List.drop_append_of_le_length (by simp)]
      simp
    have hc := Labels.cons (p := (out ++ (UInt8.ofNat l.length :: l)) ++ encLabels ls ++ tail) (bar := bar)
      (off := out.length) (len := l.length) (rest := ls) (stop := out.length + l.length + 1 + labSum ls)
      (by omega) hb hl.1 hl.2 (by simp; omega) hrec
    rw [hlab] at hc
    rw [labSum_cons]
    have : out.length + (l.length + 1 + labSum ls) = out.length + l.length + 1 + labSum ls := by omega
    rw [this]; exact hc

/-- Emission lemma: `k` literal labels followed by a pointer to offset `o`, where a name `ls'` already
decodes at `o` inside `out` (entry invariant: within extent `[Po, Eo)`, depth `d`), decode to
`ls ++ ls'` under the validator's discipline, with one more indirection. -/
theorem NameAt.emit_ptr (out : Bytes) (ls ls' : List (List UInt8)) (o Po Eo d e' : Nat)
    (hent : NameAt out Eo Po o d ls' e') (hPo : Po ≤ o) (hEo : Eo ≤ out.length) (ho : o < 16384)
    (hnz : byteAt out o ≠ some 0) (holt : o < out.length)
    (hok : ∀ l ∈ ls, okLabel l) :
    let ptr : Bytes := [UInt8.ofNat (0xc0 + o / 256), UInt8.ofNat (o % 256)]
    let out' := out ++ encLabels ls ++ ptr
    NameAt out' out'.length out.length out.length (d + 1) (ls ++ ls') (out.length + labSum ls + 2) := by
  intro ptr out'
  have hlab := Labels.of_encLabels out ls ptr out'.length hok (by simp [out', encLabels_length])
  have hstop : out.length + labSum ls < out'.length := by simp [out', ptr, encLabels_length]
  have e0 : out' = (out ++ encLabels ls) ++ ptr := rfl
  have hlen : (out ++ encLabels ls).length = out.length + labSum ls := by simp [encLabels_length]
  have hhi : byteAt out' (out.length + labSum ls) = some (0xc0 + o / 256) := by
    rw [e0, ← hlen, byteAt_append_right0]
    show byteAt (UInt8.ofNat (0xc0 + o / 256) :: [UInt8.ofNat (o % 256)]) 0 = _
    rw [byteAt_cons_zero]; simp; omega
  have hlo : byteAt out' (out.length + labSum ls + 1) = some (o % 256) := by
    rw [e0, ← hlen, byteAt_append_right]
    unfold byteAt; simp [ptr]
  have htgt : ptrTarget (0xc0 + o / 256) (o % 256) = o := by unfold ptrTarget; omega
  have hsub : NameAt out' out.length o o d ls' e' := by
    have h1 : NameAt out out.length o o d ls' e' := hent.mono hEo hPo (Nat.le_refl _)
    have h2 := h1.append (q := encLabels ls ++ ptr) (by omega)
    simpa [out', List.append_assoc] using h2
  have hnz' : byteAt out' o ≠ some 0 := by
    have := byteAt_ne_append_left (q := encLabels ls ++ ptr) holt hnz
    simpa [out', List.append_assoc] using this
  have := NameAt.ptr (p := out') (bar := out'.length) (low := out.length) (off := out.length) (refs := d + 1)
    hlab hstop hhi (by omega) hlo (by rw [htgt]; exact holt) (by rw [htgt]; exact hnz') (by omega)
    (by rw [htgt]; simpa using hsub)
  exact this


end Dns
