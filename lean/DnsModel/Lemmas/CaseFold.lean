/-
  Lemmas.CaseFold — equality of names up to ASCII case, and what the dictionary's comparison
  `raw_names_eq_ignore_case` establishes about two wire names.
-/
import DnsModel.Compress
import DnsModel.Lemmas.Question
namespace Dns
open Res

/-- labels equal up to ASCII case -/
def lsCi (a b : List (List UInt8)) : Prop := a.map lowerBytes = b.map lowerBytes

theorem lsCi.refl (a : List (List UInt8)) : lsCi a a := rfl
theorem lsCi.symm {a b : List (List UInt8)} (h : lsCi a b) : lsCi b a := Eq.symm h
theorem lsCi.trans {a b c : List (List UInt8)} (h1 : lsCi a b) (h2 : lsCi b c) : lsCi a c := Eq.trans h1 h2

theorem lsCi.append {a b c d : List (List UInt8)} (h1 : lsCi a b) (h2 : lsCi c d) : lsCi (a ++ c) (b ++ d) := by
  unfold lsCi at *; simp [h1, h2]

theorem lowerBytes_length (l : Bytes) : (lowerBytes l).length = l.length := by simp [lowerBytes]

theorem lsCi.labSum {a b : List (List UInt8)} (h : lsCi a b) : labSum a = labSum b := by
  induction a generalizing b with
  | nil => cases b with
    | nil => rfl
    | cons _ _ => simp [lsCi] at h
  | cons x a ih =>
    cases b with
    | nil => simp [lsCi] at h
    | cons y b =>
      simp [lsCi] at h
      have hl : x.length = y.length := by
        have := congrArg List.length h.1
        simpa [lowerBytes_length] using this
      rw [labSum_cons, labSum_cons, hl, ih (by simpa [lsCi] using h.2)]

theorem lsCi.okLabels {a b : List (List UInt8)} (h : lsCi a b) (ha : ∀ l ∈ a, okLabel l) : ∀ l ∈ b, okLabel l := by
  induction a generalizing b with
  | nil => cases b with
    | nil => intro l hl; simp at hl
    | cons _ _ => simp [lsCi] at h
  | cons x a ih =>
    cases b with
    | nil => simp [lsCi] at h
    | cons y b =>
      simp [lsCi] at h
      have hl : x.length = y.length := by
        have := congrArg List.length h.1
        simpa [lowerBytes_length] using this
      intro l hm
      simp at hm
      rcases hm with rfl | hm
      · have := ha x (by simp); unfold okLabel at *; omega
      · exact ih (by simpa [lsCi] using h.2) (fun z hz => ha z (by simp [hz])) l hm

theorem badChar_lower_fin : ∀ b : Fin 256, badChar (toLowerB (UInt8.ofNat b.val)).toNat = badChar b.val := by
  decide +kernel

theorem badChar_lower (c : UInt8) : badChar (toLowerB c).toNat = badChar c.toNat := by
  have := badChar_lower_fin ⟨c.toNat, c.toNat_lt⟩
  simpa using this

theorem goodChars_lower (l : Bytes) : goodChars (lowerBytes l) = goodChars l := by
  unfold goodChars lowerBytes
  induction l with
  | nil => rfl
  | cons c l ih =>
    simp only [List.map_cons, List.any_cons, badChar_lower]
    simp only [Bool.not_or] at ih ⊢
    rw [ih]

theorem lsCi.goodChars {a b : List (List UInt8)} (h : lsCi a b) (ha : ∀ l ∈ a, goodChars l = true) :
    ∀ l ∈ b, goodChars l = true := by
  induction a generalizing b with
  | nil => cases b with
    | nil => intro l hl; simp at hl
    | cons _ _ => simp [lsCi] at h
  | cons x a ih =>
    cases b with
    | nil => simp [lsCi] at h
    | cons y b =>
      simp [lsCi] at h
      intro l hm
      simp at hm
      rcases hm with rfl | hm
      · rw [← goodChars_lower, ← h.1, goodChars_lower]; exact ha x (by simp)
      · exact ih (by simpa [lsCi] using h.2) (fun z hz => ha z (by simp [hz])) l hm

theorem lsCi.wireLen {a b : List (List UInt8)} (h : lsCi a b) : wireLen a = wireLen b := by
  rw [wireLen_eq, wireLen_eq, h.labSum]

end Dns

namespace Dns
open Res

theorem toLowerB_small_fin : ∀ b : Fin 256, b.val ≤ 63 → toLowerB (UInt8.ofNat b.val) = UInt8.ofNat b.val := by
  decide +kernel

theorem toLowerB_le63_fin : ∀ b : Fin 256, (toLowerB (UInt8.ofNat b.val)).toNat ≤ 63 →
    toLowerB (UInt8.ofNat b.val) = UInt8.ofNat b.val := by
  decide +kernel

theorem toLowerB_small (c : UInt8) (h : c.toNat ≤ 63) : toLowerB c = c := by
  have := toLowerB_small_fin ⟨c.toNat, c.toNat_lt⟩ h
  simpa using this

theorem toLowerB_le63 (c : UInt8) (h : (toLowerB c).toNat ≤ 63) : toLowerB c = c := by
  have := toLowerB_le63_fin ⟨c.toNat, c.toNat_lt⟩ (by simpa using h)
  simpa using this

/-- the inner part of the comparison: `k` more bytes of the current label -/
theorem eqLoop_label (x y r1 r2 : Bytes) (hl : x.length = y.length)
    (h : rawNamesEqLoop (x ++ r1) (y ++ r2) x.length = true) :
    lowerBytes x = lowerBytes y ∧ rawNamesEqLoop r1 r2 0 = true := by
  induction x generalizing y with
  | nil =>
    cases y with
    | nil => exact ⟨rfl, by simpa using h⟩
    | cons _ _ => simp at hl
  | cons a x ih =>
    cases y with
    | nil => simp at hl
    | cons b y =>
      simp only [List.cons_append, List.length_cons] at h
      unfold rawNamesEqLoop at h
      have hz : (x.length + 1 == 0) = false := by simp
      simp only [hz, Bool.false_eq_true, if_false, Nat.add_sub_cancel] at h
      split at h
      · simp at h
      · rename_i hab
        simp [eqIgnoreCase] at hab
        obtain ⟨h1, h2⟩ := ih y (by simpa using hl) h
        exact ⟨by simp [lowerBytes, hab] at h1 ⊢; exact h1, h2⟩

/-- **what a successful comparison means**: two wire names whose comparison succeeds have labels
equal up to ASCII case -/
theorem eqLoop_sound (l1 l2 : List (List UInt8)) (t1 t2 : Bytes) (h1 : ∀ l ∈ l1, okLabel l) (h2 : ∀ l ∈ l2, okLabel l)
    (h : rawNamesEqLoop (encLabels l1 ++ 0 :: t1) (encLabels l2 ++ 0 :: t2) 0 = true) : lsCi l1 l2 := by
  induction l1 generalizing l2 with
  | nil =>
    cases l2 with
    | nil => rfl
    | cons y l2 =>
      exfalso
      simp only [encLabels, List.nil_append, List.cons_append] at h
      unfold rawNamesEqLoop at h
      split at h
      · simp at h
      · rename_i hab
        simp [eqIgnoreCase] at hab
        have hy := h2 y (by simp)
        have hs : toLowerB (UInt8.ofNat y.length) = UInt8.ofNat y.length := toLowerB_small _ (by simp; unfold okLabel at hy; omega)
        rw [hs] at hab
        have h0 : toLowerB 0 = 0 := by decide
        rw [h0] at hab
        have := congrArg UInt8.toNat hab
        simp at this
        unfold okLabel at hy
        omega
  | cons x l1 ih =>
    have hx := h1 x (by simp)
    have hsx : toLowerB (UInt8.ofNat x.length) = UInt8.ofNat x.length := toLowerB_small _ (by simp; unfold okLabel at hx; omega)
    cases l2 with
    | nil =>
      exfalso
      simp only [encLabels, List.nil_append, List.cons_append] at h
      unfold rawNamesEqLoop at h
      split at h
      · simp at h
      · rename_i hab
        simp [eqIgnoreCase] at hab
        rw [hsx] at hab
        have h0 : toLowerB 0 = 0 := by decide
        rw [h0] at hab
        have := congrArg UInt8.toNat hab
        simp at this
        unfold okLabel at hx
        omega
    | cons y l2 =>
      have hy := h2 y (by simp)
      have hsy : toLowerB (UInt8.ofNat y.length) = UInt8.ofNat y.length := toLowerB_small _ (by simp; unfold okLabel at hy; omega)
      simp only [encLabels, List.cons_append, List.append_assoc] at h
      unfold rawNamesEqLoop at h
      split at h
      · simp at h
      · rename_i hab
        simp [eqIgnoreCase] at hab
        rw [hsx, hsy] at hab
        have hlen : x.length = y.length := by
          have := congrArg UInt8.toNat hab
          simp at this
          unfold okLabel at hx hy
          omega
        have hnz : (UInt8.ofNat x.length == 0) = false := by
          simp
          intro h0
          have := congrArg UInt8.toNat h0
          simp at this
          unfold okLabel at hx
          omega
        have htn : (UInt8.ofNat x.length).toNat = x.length := by simp; unfold okLabel at hx; omega
        simp only [beq_self_eq_true, if_true, hnz, Bool.false_eq_true, if_false, htn] at h
        obtain ⟨e1, e2⟩ := eqLoop_label x y _ _ hlen h
        have := ih l2 (fun z hz => h1 z (by simp [hz])) (fun z hz => h2 z (by simp [hz])) e2
        unfold lsCi at this ⊢
        simp [e1, this]

end Dns
