/-
  Lemmas.PlainName — `check_uncompressed_name` accepts exactly the pointer-free names of the policy.
-/
import DnsModel.Lemmas.NameComplete
namespace Dns

theorem cunLoop_sound (p : Bytes) (fuel off nl e : Nat) (h : cunLoop p fuel off nl = .ok e) :
    ∃ ls stop, Labels p p.length off ls stop ∧ stop < p.length ∧ byteAt p stop = some 0 ∧ e = stop + 1 ∧
      nl + wireLen ls ≤ 255 := by
  induction fuel generalizing off nl with
  | zero => simp [cunLoop] at h
  | succ n ih =>
    unfold cunLoop at h
    consts
    split at h
    · simp at h
    · rename_i hlt
      rcases idx_cases p off with ⟨len, hlen, hb, hl256⟩ | hp
      · simp only [hlen] at h
        split at h
        · simp at h
        · rename_i hnp
          split at h
          · simp at h
          · rename_i h63
            split at h
            · simp at h
            · rename_i hfit
              split at h
              · simp at h
              · rename_i h255
                split at h
                · rename_i hz
                  subst hz
                  simp at h
                  exact ⟨[], off, Labels.nil off, by omega, hb, by omega, by simp [wireLen]; omega⟩
                · rename_i hnz
                  obtain ⟨ls, stop, hl, hs, hz, he, hw⟩ := ih _ _ h
                  have hfit' : off + len + 1 ≤ p.length := by omega
                  refine ⟨lab p off len :: ls, stop, Labels.cons (by omega) hb (by omega) (by omega) hfit' hl, hs, hz, he, ?_⟩
                  rw [wireLen_cons, lab_length hfit']; omega
      · simp [hp] at h

theorem cunLoop_complete {p : Bytes} {off stop : Nat} {ls : List (List UInt8)} (hl : Labels p p.length off ls stop) :
    ∀ (fuel nl : Nat), stop < p.length → byteAt p stop = some 0 → nl + wireLen ls ≤ 255 → fuel > 255 - nl →
      cunLoop p fuel off nl = .ok (stop + 1) := by
  induction hl with
  | nil off =>
    intro fuel nl hs hz hw hf
    cases fuel with
    | zero => omega
    | succ n =>
      unfold cunLoop
      consts
      have c0 : ¬ (off ≥ p.length) := by omega
      have c2 : ¬ (0 ≥ p.length - off) := by omega
      have c3 : ¬ (nl + 0 + 1 > 255) := by simp [wireLen] at hw; omega
      simp [c0, idx_of_byteAt hz, isPtr, c2, c3]
  | @cons off len rest stop h1 h2 h3 h4 h5 _ ih =>
    intro fuel nl hs hz hw hf
    rw [wireLen_cons, lab_length h5] at hw
    cases fuel with
    | zero => omega
    | succ n =>
      have hlt := byteAt_lt h2
      have := ih n (nl + len + 1) hs hz (by omega) (by omega)
      unfold cunLoop
      consts
      have c0 : ¬ (off ≥ p.length) := by omega
      have hnp : isPtr len = false := by
        cases hp : isPtr len with
        | false => rfl
        | true => have := (isPtr_iff' len hlt).1 hp; omega
      have c1 : ¬ (len > 0x3f) := by omega
      have c2 : ¬ (len ≥ p.length - off) := by omega
      have c3 : ¬ (nl + len + 1 > 255) := by omega
      have c4 : ¬ (len = 0) := by omega
      simp [c0, idx_of_byteAt h2, hnp, c1, c2, c3, c4, this]

theorem checkUncompressedName_ok_iff (p : Bytes) (off e : Nat) :
    checkUncompressedName p off = .ok e ↔ PlainName p off e := by
  unfold checkUncompressedName PlainName
  constructor
  · intro h
    split at h
    · simp at h
    · obtain ⟨ls, stop, hl, hs, hz, he, hw⟩ := cunLoop_sound p _ _ _ _ h
      exact ⟨ls, stop, hl, hs, hz, he, by omega⟩
  · rintro ⟨ls, stop, hl, hs, hz, he, hw⟩
    have hoff : ¬ (off ≥ p.length) := by have := hl.le; omega
    simp only [hoff, if_false]
    subst he
    exact cunLoop_complete hl nameFuel 0 hs hz (by omega) (by decide)

end Dns
