/-
  Lemmas.StepsErasure — forgetting the step counter of the instrumented validator gives back the
  validator: `(parseI p).res = parse p`; and each name walk costs at most its fuel.
-/
import DnsModel.Steps
namespace Dns
open Cnt

namespace Cnt
@[simp] theorem res_bind {α β} (x : Cnt α) (f : α → Cnt β) : (x >>= f).res = (x.res >>= fun a => (f a).res) := by
  show (Cnt.bind x f).res = _
  unfold Cnt.bind
  cases h : x.res <;> simp
@[simp] theorem res_lift {α} (r : Res α) : (lift r).res = r := rfl
@[simp] theorem res_tick : tick.res = .ok () := rfl
@[simp] theorem res_pure {α} (a : α) : (pure a : Cnt α).res = .ok a := rfl
@[simp] theorem steps_lift {α} (r : Res α) : (lift r).steps = 0 := rfl
@[simp] theorem steps_pure {α} (a : α) : (pure a : Cnt α).steps = 0 := rfl
@[simp] theorem steps_tick : tick.steps = 1 := rfl

theorem steps_bind {α β} (x : Cnt α) (f : α → Cnt β) :
    (x >>= f).steps = x.steps + (match x.res with | .ok a => (f a).steps | _ => 0) := by
  show (Cnt.bind x f).steps = _
  unfold Cnt.bind
  cases h : x.res <;> simp

theorem steps_bind_le {α β} (x : Cnt α) (f : α → Cnt β) (n m : Nat)
    (h1 : x.steps ≤ n) (h2 : ∀ a, x.res = .ok a → (f a).steps ≤ m) : (x >>= f).steps ≤ n + m := by
  rw [steps_bind]
  cases h : x.res with
  | ok a => have := h2 a h; simp; omega
  | err e => simp; omega
  | panic => simp; omega
  | diverge => simp; omega
end Cnt

theorem ccnLoopI_res (p : Bytes) (fuel : Nat) (s : NW) : (ccnLoopI p fuel s).res = ccnLoop p fuel s := by
  induction fuel generalizing s with
  | zero => rfl
  | succ n ih =>
    unfold ccnLoopI ccnLoop
    split
    · rfl
    · cases idx p s.offset with
      | ok len =>
        simp only []
        split
        · split
          · rfl
          · split
            · rfl
            · cases idx p (s.offset + 1) with
              | ok lo =>
                simp only []
                split
                · rfl
                · cases idx p (((len &&& 0x3f) <<< 8) ||| lo) with
                  | ok t =>
                    simp only []
                    split
                    · rfl
                    · exact ih _
                  | err e => rfl
                  | panic => rfl
                  | diverge => rfl
              | err e => rfl
              | panic => rfl
              | diverge => rfl
        · split
          · rfl
          · split
            · rfl
            · split
              · rfl
              · cases labelHasBadChar p s.offset len with
                | ok b =>
                  cases b with
                  | true => rfl
                  | false =>
                    simp only []
                    split
                    · rfl
                    · exact ih _
                | err e => rfl
                | panic => rfl
                | diverge => rfl
      | err e => rfl
      | panic => rfl
      | diverge => rfl

theorem ccnLoopI_steps (p : Bytes) (fuel : Nat) (s : NW) : (ccnLoopI p fuel s).steps ≤ fuel := by
  induction fuel generalizing s with
  | zero => simp [ccnLoopI]
  | succ n ih =>
    unfold ccnLoopI
    split
    · simp
    · cases idx p s.offset with
      | ok len =>
        simp only []
        split
        · split
          · simp
          · split
            · simp
            · cases idx p (s.offset + 1) with
              | ok lo =>
                simp only []
                split
                · simp
                · cases idx p (((len &&& 0x3f) <<< 8) ||| lo) with
                  | ok t =>
                    simp only []
                    split
                    · simp
                    · have := ih { s with final := s.final.or (some (s.offset + 2)), offset := ((len &&& 0x3f) <<< 8) ||| lo,
                                          barrier := s.lowest, lowest := ((len &&& 0x3f) <<< 8) ||| lo, refs := s.refs - 1 }
                      simp only at this ⊢
                      omega
                  | err e => simp
                  | panic => simp
                  | diverge => simp
              | err e => simp
              | panic => simp
              | diverge => simp
        · split
          · simp
          · split
            · simp
            · split
              · simp
              · cases labelHasBadChar p s.offset len with
                | ok b =>
                  cases b with
                  | true => simp
                  | false =>
                    simp only []
                    split
                    · simp
                    · have := ih { s with offset := s.offset + len + 1, nameLen := s.nameLen + len + 1 }
                      simp only at this ⊢
                      omega
                | err e => simp
                | panic => simp
                | diverge => simp
      | err e => simp
      | panic => simp
      | diverge => simp

theorem checkCompressedNameI_res (p : Bytes) (off : Nat) : (checkCompressedNameI p off).res = checkCompressedName p off := by
  unfold checkCompressedNameI checkCompressedName
  split
  · rfl
  · exact ccnLoopI_res _ _ _

theorem checkCompressedNameI_steps (p : Bytes) (off : Nat) : (checkCompressedNameI p off).steps ≤ nameFuel := by
  unfold checkCompressedNameI
  split
  · simp
  · exact ccnLoopI_steps _ _ _

theorem cunLoopI_res (p : Bytes) (fuel off nl : Nat) : (cunLoopI p fuel off nl).res = cunLoop p fuel off nl := by
  induction fuel generalizing off nl with
  | zero => rfl
  | succ n ih =>
    unfold cunLoopI cunLoop
    split
    · rfl
    · cases idx p off with
      | ok len =>
        simp only []
        split
        · rfl
        · split
          · rfl
          · split
            · rfl
            · split
              · rfl
              · split
                · rfl
                · exact ih _ _
      | err e => rfl
      | panic => rfl
      | diverge => rfl

theorem cunLoopI_steps (p : Bytes) (fuel off nl : Nat) : (cunLoopI p fuel off nl).steps ≤ fuel := by
  induction fuel generalizing off nl with
  | zero => simp [cunLoopI]
  | succ n ih =>
    unfold cunLoopI
    split
    · simp
    · cases idx p off with
      | ok len =>
        simp only []
        split
        · simp
        · split
          · simp
          · split
            · simp
            · split
              · simp
              · split
                · simp
                · have := ih (off + len + 1) (nl + len + 1)
                  simp only at this ⊢
                  omega
      | err e => simp
      | panic => simp
      | diverge => simp

theorem checkUncompressedNameI_res (p : Bytes) (off : Nat) :
    (checkUncompressedNameI p off).res = checkUncompressedName p off := by
  unfold checkUncompressedNameI checkUncompressedName
  split
  · rfl
  · exact cunLoopI_res _ _ _ _

theorem checkUncompressedNameI_steps (p : Bytes) (off : Nat) : (checkUncompressedNameI p off).steps ≤ nameFuel := by
  unfold checkUncompressedNameI
  split
  · simp
  · exact cunLoopI_steps _ _ _ _

end Dns

namespace Dns
open Cnt Sector

theorem skipNameI_res (p : Bytes) (s : Sector) : (SectorI.skipName p s).res = Sector.skipName p s := by
  simp [SectorI.skipName, Sector.skipName, checkCompressedNameI_res]

theorem parseQuestionI_res (p : Bytes) (s : Sector) : (SectorI.parseQuestion p s).res = Sector.parseQuestion p s := by
  simp [SectorI.parseQuestion, Sector.parseQuestion, skipNameI_res]

theorem ednsSkipRrI_res (p : Bytes) (s : Sector) : (SectorI.ednsSkipRr p s).res = Sector.ednsSkipRr p s := by
  simp [SectorI.ednsSkipRr]

theorem optLoopI_res (p : Bytes) (fuel : Nat) (s : Sector) : (SectorI.optLoop p fuel s).res = Sector.optLoop p fuel s := by
  induction fuel generalizing s with
  | zero => rfl
  | succ n ih =>
    unfold SectorI.optLoop Sector.optLoop
    simp only [res_bind, res_lift]
    congr 1
    funext r
    split
    · simp [res_bind, ednsSkipRrI_res, ih]
    · rfl

theorem parseOptI_res (p : Bytes) (s : Sector) : (SectorI.parseOpt p s).res = Sector.parseOpt p s := by
  simp [SectorI.parseOpt, Sector.parseOpt, optLoopI_res]

theorem parseRRI_res (p : Bytes) (s : Sector) (sec : Section) : (SectorI.parseRR p s sec).res = Sector.parseRR p s sec := by
  unfold SectorI.parseRR SectorI.rrBody Sector.parseRR
  simp only [res_bind, res_tick, res_lift, Res.bind_ok, skipNameI_res]
  congr 1; funext s1
  congr 1; funext t
  congr 1; funext l
  split
  · simp [parseOptI_res]
  split
  · simp [checkCompressedNameI_res]
  split
  · simp [checkCompressedNameI_res]
  split
  · simp [checkCompressedNameI_res]
  split
  · simp [checkUncompressedNameI_res]
  split
  · simp
  split
  · simp
  · simp

theorem parseRRsI_res (p : Bytes) (sec : Section) (n : Nat) (s : Sector) :
    (SectorI.parseRRs p sec n s).res = Sector.parseRRs p sec n s := by
  induction n generalizing s with
  | zero => rfl
  | succ k ih =>
    unfold SectorI.parseRRs Sector.parseRRs
    simp [parseRRI_res, ih]

/-- **erasure**: the instrumented validator computes exactly `parse` -/
theorem parseI_res (p : Bytes) : (parseI p).res = parse p := by
  unfold parseI parse
  simp [parseQuestionI_res, parseRRsI_res]

end Dns
