/-
  Lemmas.InsertRec — `recompute` on a freshly parsed object and `insert_rr` of a well-formed record.
-/
import DnsModel.Lemmas.EdnsCanon
import DnsModel.Lemmas.Header
import DnsModel.Mutate
namespace Dns
open Res

theorem Pieces.append {sec : Section} {ps qs : List Bytes} {ob om oe : Bool} (h1 : Pieces sec ps ob om) (h2 : Pieces sec qs om oe) :
    Pieces sec (ps ++ qs) ob oe := by
  induction h1 with
  | nil o => simpa using h2
  | cons hp _ ih => exact Pieces.cons hp (ih h2)

/-- patching a 16-bit field of the 12-byte header of a packet -/
theorem patch_header {hdr rest : Bytes} (hh : hdr.length = 12) (off x : Nat) (hoff : off + 2 ≤ 12) (hx : x < 65536) :
    ∃ hdr', writeAt (hdr ++ rest) off (put16 x) = .ok (hdr' ++ rest) ∧ hdr'.length = 12 ∧ get16 hdr' off = x ∧
      ∀ k, (k + 1 < off ∨ off + 1 < k) → get16 hdr' k = get16 hdr k := by
  have hl : (put16 x).length = 2 := rfl
  have hw : writeAt hdr off (put16 x) = .ok (hdr.take off ++ put16 x ++ hdr.drop (off + 2)) := by
    have := writeAt_ok (p := hdr) (i := off) (v := put16 x) (by rw [hl]; omega)
    rw [hl] at this; exact this
  refine ⟨hdr.take off ++ put16 x ++ hdr.drop (off + 2), ?_, by simp [hl]; omega, get16_writeAt_put16 hw hx,
    fun k hk => get16_writeAt_other hw hk⟩
  rw [writeAt_ok (by rw [hl]; simp; omega), hl]
  congr 1
  rw [List.take_append_of_le_length (by omega), List.drop_append_of_le_length (by omega)]
  simp

/-- the object after a successful `recompute`: new bytes, section starts and option position from the new parse -/
def PP.rebased (pp : PP) (u : Bytes) (v2 : View) : PP :=
  { pp with packet := u, offsetQuestion := v2.offsetQuestion, offsetAnswers := v2.offsetAnswers,
            offsetNameservers := v2.offsetNameservers, offsetAdditional := v2.offsetAdditional, offsetEdns := v2.offsetEdns,
            maybeCompressed := false, cached := none }

/-- `recompute` on an object that still has its parse-time flag: decompresses, re-parses, keeps the EDNS summary -/
theorem recompute_fresh {p : Bytes} {v : View} (h : parse p = .ok v) (pp : PP) (hpk : pp.packet = p)
    (hv : pp.ednsCount = v.ednsCount ∧ pp.extRcode = v.extRcode ∧ pp.ednsVersion = v.ednsVersion ∧ pp.extFlags = v.extFlags)
    (hmc : pp.maybeCompressed = true) {L : C03.Layout p} (o : C05.Output p L) :
    ∃ v2, parse o.bytes = .ok v2 ∧
      pp.recompute = .ok (pp.rebased o.bytes v2, none) := by
  obtain ⟨v2, h2⟩ := C02.wf_accepted _ (C05.output_layout h o).1
  have hun : uncompress p = .ok o.bytes := by
    obtain ⟨L1, o1, ho1⟩ := C05.decompress_ok h
    have := C05.uncompress_any h 12 L o
    rw [C05.carried_question] at this
    unfold uncompress
    simp only [DNS_HEADER_SIZE, this, bind_ok, pure_eq]
  have hcore := edns_preserved h o h2
  refine ⟨v2, h2, ?_⟩
  unfold PP.recompute
  simp only [hmc, Bool.not_true, Bool.false_eq_true, if_false, hpk, hun, h2]
  unfold EdnsInfo.core View.info at hcore
  simp only [Prod.mk.injEq] at hcore
  obtain ⟨c1, c2, c3, c4, _⟩ := hcore
  rw [c1, c2, c3, c4]
  simp [PP.rebased, hv.1, hv.2.1, hv.2.2.1, hv.2.2.2]

end Dns

namespace Dns
open Res

/-- a pointer-free packet object seen as header, question and three runs of record pieces, with the
section starts the object reports -/
structure PlainObj (pp : PP) where
  hdr : Bytes
  q4 : Bytes
  qls : List (List UInt8)
  A : List Bytes
  N : List Bytes
  R : List Bytes
  o2 : Bool
  o3 : Bool
  o4 : Bool
  hh : hdr.length = 12
  hqd : get16 hdr 4 = 1
  hgq : GoodLabels qls
  hq4 : q4.length = 4
  hcl : get16 q4 2 = 1
  hA : Pieces .answer A false o2
  hN : Pieces .nameServers N o2 o3
  hR : Pieces .additional R o3 o4
  hca : get16 hdr 6 = A.length
  hcn : get16 hdr 8 = N.length
  hcr : get16 hdr 10 = R.length
  hqr : get16 hdr 2 / 32768 % 2 = 0 → A = [] ∧ N = []
  bytes : pp.packet = hdr ++ ((encLabels qls ++ [0]) ++ q4) ++ A.flatten ++ N.flatten ++ R.flatten
  oq : pp.offsetQuestion = some 12
  oa : pp.offsetAnswers = if A.length > 0 then some (12 + labSum qls + 1 + 4) else none
  on : pp.offsetNameservers = if N.length > 0 then some (12 + labSum qls + 1 + 4 + A.flatten.length) else none
  oR : pp.offsetAdditional = if R.length > 0 then some (12 + labSum qls + 1 + 4 + A.flatten.length + N.flatten.length) else none
  mc : pp.maybeCompressed = false

/-- such an object's bytes satisfy the acceptance policy -/
theorem PlainObj.wf {pp : PP} (P : PlainObj pp) : WF pp.packet := by
  rw [P.bytes]
  exact (assemble P.hdr P.q4 P.qls P.A P.N P.R P.o2 P.o3 P.o4 P.hh P.hqd P.hgq P.hq4 P.hcl P.hA P.hN P.hR P.hca P.hcn P.hcr P.hqr).1

theorem PlainObj.len {pp : PP} (P : PlainObj pp) :
    pp.packet.length = 12 + labSum P.qls + 1 + 4 + P.A.flatten.length + P.N.flatten.length + P.R.flatten.length := by
  rw [P.bytes]
  simp only [List.length_append, P.hh, P.hq4, encLabels_length, List.length_cons, List.length_nil]
  omega

end Dns

namespace Dns
open Res

/-- the view `parse` reports for an assembled packet -/
theorem view_of_assembled (hdr q4 : Bytes) (qls : List (List UInt8)) (A N R : List Bytes) (o2 o3 o4 : Bool)
    (hh : hdr.length = 12) (hqd : get16 hdr 4 = 1) (hgq : GoodLabels qls) (hq4 : q4.length = 4) (hcl : get16 q4 2 = 1)
    (hA : Pieces .answer A false o2) (hN : Pieces .nameServers N o2 o3) (hR : Pieces .additional R o3 o4)
    (hca : get16 hdr 6 = A.length) (hcn : get16 hdr 8 = N.length) (hcr : get16 hdr 10 = R.length)
    (hqr : get16 hdr 2 / 32768 % 2 = 0 → A = [] ∧ N = []) {v : View}
    (hp : parse (hdr ++ ((encLabels qls ++ [0]) ++ q4) ++ A.flatten ++ N.flatten ++ R.flatten) = .ok v) :
    v.offsetQuestion = some 12 ∧
    v.offsetAnswers = (if A.length > 0 then some (12 + labSum qls + 1 + 4) else none) ∧
    v.offsetNameservers = (if N.length > 0 then some (12 + labSum qls + 1 + 4 + A.flatten.length) else none) ∧
    v.offsetAdditional = (if R.length > 0 then some (12 + labSum qls + 1 + 4 + A.flatten.length + N.flatten.length) else none) := by
  obtain ⟨_, L, hqe, _, he2, he3, _, _, _, ca, cn, cr, _⟩ :=
    assemble hdr q4 qls A N R o2 o3 o4 hh hqd hgq hq4 hcl hA hN hR hca hcn hcr hqr
  obtain ⟨L0, _, v1, v2, v3, v4, _, _⟩ := C03.layout_full hp
  obtain ⟨eq0, ea0, en0, er0⟩ := C05.layout_unique L0 L
  have e2 : L0.e2 = L.e2 := by
    have := L0.ha; rw [eq0] at this
    exact (this.functional L.ha (by rw [L0.na, L.na])).2
  have e3 : L0.e3 = L.e3 := by
    have := L0.hn; rw [e2] at this
    exact (this.functional L.hn (by rw [L0.nn, L.nn])).2
  rw [ea0, eq0, hqe] at v2
  rw [en0, e2, he2] at v3
  rw [er0, e3, he3] at v4
  rw [← ca.length] at v2
  rw [← cn.length] at v3
  rw [← cr.length] at v4
  exact ⟨v1, v2, v3, v4⟩

end Dns

namespace Dns
open Res

/-- the decompressed object is a plain object whose runs are the canonical pieces of the input's records -/
theorem plainObj_of_output {p : Bytes} {v v2 : View} (h : parse p = .ok v) {L : C03.Layout p} (o : C05.Output p L)
    (h2 : parse o.bytes = .ok v2) (pp0 : PP) :
    ∃ P : PlainObj (pp0.rebased o.bytes v2), P.A = o.pa ∧ P.N = o.pn ∧ P.R = o.pr ∧ P.hdr = p.take 12 ∧
      o.qc = (encLabels P.qls ++ [0]) ++ P.q4 := by
  have hwf := C02.accepted_wf p v h
  obtain ⟨hl, hqd, qeW, hneW, _, hclW, hqr, _⟩ := hwf
  have hqeW : qeW = L.qe := nameEnds_functional hneW L.hq.1
  subst hqeW
  obtain ⟨ls, hv, hqc⟩ := o.hq
  have hH : (p.take 12).length = 12 := by simp; omega
  have hagH : Agree p (p.take 12) 0 0 12 := by
    intro i hi
    simp [List.getElem?_take, hi]
  have hg16 : ∀ i, i + 2 ≤ 12 → get16 (p.take 12) i = get16 p i := by
    intro i hi
    have := hagH.get16 (i := i) hi
    simpa using this
  have hq4 : ((p.drop L.qe).take 4).length = 4 := length_take_drop L.hq.2
  have hcl : get16 ((p.drop L.qe).take 4) 2 = 1 := by
    have hag : Agree p ((p.drop L.qe).take 4) L.qe 0 4 := by
      intro i hi
      simp [List.getElem?_take, List.getElem?_drop, hi]
    have := hag.get16 (i := 2) (by omega)
    simp only [Nat.zero_add] at this
    rw [this]; exact hclW
  have hbytes : o.bytes = p.take 12 ++ ((encLabels ls ++ [0]) ++ (p.drop L.qe).take 4) ++ o.pa.flatten ++ o.pn.flatten ++ o.pr.flatten := by
    unfold C05.Output.bytes; rw [hqc]
  have hA := pieces_of_run L.ha o.pa o.ha
  have hN := pieces_of_run L.hn o.pn o.hn
  have hR := pieces_of_run L.hr o.pr o.hr
  have hca : get16 (p.take 12) 6 = o.pa.length := by rw [hg16 6 (by omega), ← L.na, o.ha.length]
  have hcn : get16 (p.take 12) 8 = o.pn.length := by rw [hg16 8 (by omega), ← L.nn, o.hn.length]
  have hcr : get16 (p.take 12) 10 = o.pr.length := by rw [hg16 10 (by omega), ← L.nr, o.hr.length]
  have hqr' : get16 (p.take 12) 2 / 32768 % 2 = 0 → o.pa = [] ∧ o.pn = [] := by
    intro hq
    rw [hg16 2 (by omega)] at hq
    obtain ⟨h6, h8⟩ := hqr hq
    constructor
    · apply List.length_eq_zero_iff.1; rw [o.ha.length, L.na, h6]
    · apply List.length_eq_zero_iff.1; rw [o.hn.length, L.nn, h8]
  rw [hbytes] at h2
  obtain ⟨w1, w2, w3, w4⟩ := view_of_assembled (p.take 12) ((p.drop L.qe).take 4) ls o.pa o.pn o.pr L.o2 L.o3 L.o4 hH
    (by rw [hg16 4 (by omega)]; exact hqd) (validName_ok hv) hq4 hcl hA hN hR hca hcn hcr hqr' h2
  exact ⟨⟨p.take 12, (p.drop L.qe).take 4, ls, o.pa, o.pn, o.pr, L.o2, L.o3, L.o4, hH, by rw [hg16 4 (by omega)]; exact hqd,
    validName_ok hv, hq4, hcl, hA, hN, hR, hca, hcn, hcr, hqr', by simp [PP.rebased, hbytes], by simp [PP.rebased, w1],
    by simp [PP.rebased, w2], by simp [PP.rebased, w3], by simp [PP.rebased, w4], by simp [PP.rebased]⟩, rfl, rfl, rfl, rfl, hqc⟩

end Dns

namespace Dns
open Res

theorem be16_of_le' {p : Bytes} {i : Nat} (h : i + 2 ≤ p.length) : be16 p i = .ok (get16 p i) := (be16_ok_of_le h).1

theorem get16_append_left {a b : Bytes} {i : Nat} (h : i + 2 ≤ a.length) : get16 (a ++ b) i = get16 a i := by
  have hag : Agree a (a ++ b) 0 0 a.length := by
    intro j hj
    simp only [Nat.zero_add]
    rw [List.getElem?_append_left hj]
  have := hag.get16 (i := i) h
  simpa using this

/-- **insertion into the answer section of a plain object** -/
theorem insert_answer {pp : PP} (P : PlainObj pp) (rr : Bytes) (hpc : PieceOK .answer rr P.o2 P.o2)
    (hsize : pp.packet.length + rr.length ≤ 8192) (hcount : P.A.length < 65535) (hqr : get16 P.hdr 2 / 32768 % 2 = 1) :
    ∃ (pp' : PP) (P' : PlainObj pp'), insertRR pp .answer rr = .ok (pp', none) ∧
      P'.A = P.A ++ [rr] ∧ P'.N = P.N ∧ P'.R = P.R ∧ P'.qls = P.qls ∧ P'.q4 = P.q4 ∧
      (∀ k, (k + 1 < 6 ∨ 6 + 1 < k) → get16 P'.hdr k = get16 P.hdr k) ∧ pp' = { pp with packet := pp'.packet, offsetAnswers := pp'.offsetAnswers, offsetNameservers := pp'.offsetNameservers, offsetAdditional := pp'.offsetAdditional, offsetEdns := pp.offsetEdns.map (· + rr.length) } := by
  have hlen := P.len
  obtain ⟨hdr', hw, hh', hg6, hgo⟩ := patch_header (rest := ((encLabels P.qls ++ [0]) ++ P.q4) ++ P.A.flatten ++ P.N.flatten ++ P.R.flatten)
    P.hh 6 (P.A.length + 1) (by omega) (by omega)
  have hpk : pp.packet = P.hdr ++ (((encLabels P.qls ++ [0]) ++ P.q4) ++ P.A.flatten ++ P.N.flatten ++ P.R.flatten) := by
    rw [P.bytes]; simp
  have hcnt : ancount pp.packet = .ok P.A.length := by
    unfold ancount
    rw [be16_of_le' (by omega), hpk, get16_append_left (by rw [P.hh]; omega), P.hca]
  -- where the record goes
  have hio : insertionOffset { pp with packet := hdr' ++ (((encLabels P.qls ++ [0]) ++ P.q4) ++ P.A.flatten ++ P.N.flatten ++ P.R.flatten) } .answer =
      .ok (12 + labSum P.qls + 1 + 4 + P.A.flatten.length) := by
    unfold insertionOffset
    simp only [P.on, P.oR, pure_eq, ok.injEq]
    have hl' : (hdr' ++ (((encLabels P.qls ++ [0]) ++ P.q4) ++ P.A.flatten ++ P.N.flatten ++ P.R.flatten)).length =
        12 + labSum P.qls + 1 + 4 + P.A.flatten.length + P.N.flatten.length + P.R.flatten.length := by
      simp only [List.length_append, hh', P.hq4, encLabels_length, List.length_cons, List.length_nil]; omega
    by_cases hn : P.N.length > 0
    · simp [hn]
    · have hn0 : P.N = [] := List.length_eq_zero_iff.1 (by omega)
      by_cases hr : P.R.length > 0
      · simp [hn, hr, hn0]
      · have hr0 : P.R = [] := List.length_eq_zero_iff.1 (by omega)
        simp [hn0, hr0, hh', P.hq4, encLabels_length]
        omega
  -- the spliced packet
  have hsplice : (hdr' ++ (((encLabels P.qls ++ [0]) ++ P.q4) ++ P.A.flatten ++ P.N.flatten ++ P.R.flatten)).take
        (12 + labSum P.qls + 1 + 4 + P.A.flatten.length) ++ rr ++
      (hdr' ++ (((encLabels P.qls ++ [0]) ++ P.q4) ++ P.A.flatten ++ P.N.flatten ++ P.R.flatten)).drop
        (12 + labSum P.qls + 1 + 4 + P.A.flatten.length) =
      hdr' ++ ((encLabels P.qls ++ [0]) ++ P.q4) ++ (P.A ++ [rr]).flatten ++ P.N.flatten ++ P.R.flatten := by
    have e : hdr' ++ (((encLabels P.qls ++ [0]) ++ P.q4) ++ P.A.flatten ++ P.N.flatten ++ P.R.flatten) =
        (hdr' ++ ((encLabels P.qls ++ [0]) ++ P.q4) ++ P.A.flatten) ++ (P.N.flatten ++ P.R.flatten) := by simp
    have hl1 : (hdr' ++ ((encLabels P.qls ++ [0]) ++ P.q4) ++ P.A.flatten).length = 12 + labSum P.qls + 1 + 4 + P.A.flatten.length := by
      simp only [List.length_append, hh', P.hq4, encLabels_length, List.length_cons, List.length_nil]; omega
    rw [e, ← hl1, List.take_append_length, List.drop_append_length]
    simp
  have hnq : ¬ (P.A.length ≥ 65535) := by omega
  let pp' : PP := { pp with
    packet := hdr' ++ ((encLabels P.qls ++ [0]) ++ P.q4) ++ (P.A ++ [rr]).flatten ++ P.N.flatten ++ P.R.flatten,
    offsetAnswers := pp.offsetAnswers.or (some (12 + labSum P.qls + 1 + 4 + P.A.flatten.length)),
    offsetNameservers := pp.offsetNameservers.map (· + rr.length),
    offsetAdditional := pp.offsetAdditional.map (· + rr.length),
    offsetEdns := pp.offsetEdns.map (· + rr.length) }
  have hrun : insertRR pp .answer rr = .ok (pp', none) := by
    unfold insertRR
    have hbig : ¬ (pp.packet.length + rr.length > DNS_MAX_UNCOMPRESSED_SIZE) := by
      have : DNS_MAX_UNCOMPRESSED_SIZE = 8192 := rfl
      omega
    simp only [P.mc, Bool.false_eq_true, if_false, pure_eq, bind_ok, Option.isSome_none, hbig]
    unfold rrcountInc
    simp only [sectionCount, hcnt, bind_ok]
    have c1 : ((Section.answer == Section.question) && decide (P.A.length ≥ 1)) = false := by simp
    simp only [c1, Bool.false_eq_true, if_false, hnq, sectionCountOffset]
    rw [hpk, hw]
    simp only [bind_ok, pure_eq, Option.isSome_none, Bool.false_eq_true, if_false, hio]
    have hle : ¬ (12 + labSum P.qls + 1 + 4 + P.A.flatten.length >
        (hdr' ++ (((encLabels P.qls ++ [0]) ++ P.q4) ++ P.A.flatten ++ P.N.flatten ++ P.R.flatten)).length) := by
      simp only [List.length_append, hh', P.hq4, encLabels_length, List.length_cons, List.length_nil]; omega
    simp only [hle, if_false, hsplice]
    rfl
  refine ⟨pp', ⟨hdr', P.q4, P.qls, P.A ++ [rr], P.N, P.R, P.o2, P.o3, P.o4, hh', ?_, P.hgq, P.hq4, P.hcl,
    P.hA.append (Pieces.cons hpc (Pieces.nil _)), P.hN, P.hR, by rw [hg6]; simp, ?_, ?_, ?_, rfl, ?_, ?_, ?_, ?_, P.mc⟩,
    hrun, rfl, rfl, rfl, rfl, rfl, hgo, rfl⟩
  · rw [hgo 4 (by omega)]; exact P.hqd
  · rw [hgo 8 (by omega)]; exact P.hcn
  · rw [hgo 10 (by omega)]; exact P.hcr
  · intro hq; rw [hgo 2 (by omega)] at hq; omega
  · exact P.oq
  · show pp.offsetAnswers.or (some (12 + labSum P.qls + 1 + 4 + P.A.flatten.length)) = _
    rw [P.oa]
    by_cases ha : P.A.length > 0
    · simp [ha]
    · have ha0 : P.A = [] := List.length_eq_zero_iff.1 (by omega)
      simp [ha0]
  · show pp.offsetNameservers.map (· + rr.length) = _
    rw [P.on]
    by_cases hn : P.N.length > 0
    · simp [hn]; omega
    · simp [hn]
  · show pp.offsetAdditional.map (· + rr.length) = _
    rw [P.oR]
    by_cases hr : P.R.length > 0
    · simp [hr]; omega
    · simp [hr]

/-- **insertion into the authority section of a plain object** -/
theorem insert_authority {pp : PP} (P : PlainObj pp) (rr : Bytes) (hpc : PieceOK .nameServers rr P.o3 P.o3)
    (hsize : pp.packet.length + rr.length ≤ 8192) (hcount : P.N.length < 65535) (hqr : get16 P.hdr 2 / 32768 % 2 = 1) :
    ∃ (pp' : PP) (P' : PlainObj pp'), insertRR pp .nameServers rr = .ok (pp', none) ∧
      P'.A = P.A ∧ P'.N = P.N ++ [rr] ∧ P'.R = P.R ∧ P'.qls = P.qls ∧ P'.q4 = P.q4 ∧
      (∀ k, (k + 1 < 8 ∨ 8 + 1 < k) → get16 P'.hdr k = get16 P.hdr k) ∧ pp' = { pp with packet := pp'.packet, offsetAnswers := pp'.offsetAnswers, offsetNameservers := pp'.offsetNameservers, offsetAdditional := pp'.offsetAdditional, offsetEdns := pp.offsetEdns.map (· + rr.length) } := by
  have hlen := P.len
  obtain ⟨hdr', hw, hh', hg8, hgo⟩ := patch_header (rest := ((encLabels P.qls ++ [0]) ++ P.q4) ++ P.A.flatten ++ P.N.flatten ++ P.R.flatten)
    P.hh 8 (P.N.length + 1) (by omega) (by omega)
  have hpk : pp.packet = P.hdr ++ (((encLabels P.qls ++ [0]) ++ P.q4) ++ P.A.flatten ++ P.N.flatten ++ P.R.flatten) := by
    rw [P.bytes]; simp
  have hcnt : nscount pp.packet = .ok P.N.length := by
    unfold nscount
    rw [be16_of_le' (by omega), hpk, get16_append_left (by rw [P.hh]; omega), P.hcn]
  -- where the record goes
  have hio : insertionOffset { pp with packet := hdr' ++ (((encLabels P.qls ++ [0]) ++ P.q4) ++ P.A.flatten ++ P.N.flatten ++ P.R.flatten) } .nameServers =
      .ok (12 + labSum P.qls + 1 + 4 + P.A.flatten.length + P.N.flatten.length) := by
    unfold insertionOffset
    simp only [P.oR, pure_eq, ok.injEq]
    have hl' : (hdr' ++ (((encLabels P.qls ++ [0]) ++ P.q4) ++ P.A.flatten ++ P.N.flatten ++ P.R.flatten)).length =
        12 + labSum P.qls + 1 + 4 + P.A.flatten.length + P.N.flatten.length + P.R.flatten.length := by
      simp only [List.length_append, hh', P.hq4, encLabels_length, List.length_cons, List.length_nil]; omega
    by_cases hr : P.R.length > 0
    · simp [hr]
    · have hr0 : P.R = [] := List.length_eq_zero_iff.1 (by omega)
      simp [hr0, hh', P.hq4, encLabels_length]
      omega
  -- the spliced packet
  have hsplice : (hdr' ++ (((encLabels P.qls ++ [0]) ++ P.q4) ++ P.A.flatten ++ P.N.flatten ++ P.R.flatten)).take
        (12 + labSum P.qls + 1 + 4 + P.A.flatten.length + P.N.flatten.length) ++ rr ++
      (hdr' ++ (((encLabels P.qls ++ [0]) ++ P.q4) ++ P.A.flatten ++ P.N.flatten ++ P.R.flatten)).drop
        (12 + labSum P.qls + 1 + 4 + P.A.flatten.length + P.N.flatten.length) =
      hdr' ++ ((encLabels P.qls ++ [0]) ++ P.q4) ++ P.A.flatten ++ (P.N ++ [rr]).flatten ++ P.R.flatten := by
    have e : hdr' ++ (((encLabels P.qls ++ [0]) ++ P.q4) ++ P.A.flatten ++ P.N.flatten ++ P.R.flatten) =
        (hdr' ++ ((encLabels P.qls ++ [0]) ++ P.q4) ++ P.A.flatten ++ P.N.flatten) ++ P.R.flatten := by simp
    have hl1 : (hdr' ++ ((encLabels P.qls ++ [0]) ++ P.q4) ++ P.A.flatten ++ P.N.flatten).length =
        12 + labSum P.qls + 1 + 4 + P.A.flatten.length + P.N.flatten.length := by
      simp only [List.length_append, hh', P.hq4, encLabels_length, List.length_cons, List.length_nil]; omega
    rw [e, ← hl1, List.take_append_length, List.drop_append_length]
    simp
  have hnq : ¬ (P.N.length ≥ 65535) := by omega
  let pp' : PP := { pp with
    packet := hdr' ++ ((encLabels P.qls ++ [0]) ++ P.q4) ++ P.A.flatten ++ (P.N ++ [rr]).flatten ++ P.R.flatten,
    offsetNameservers := pp.offsetNameservers.or (some (12 + labSum P.qls + 1 + 4 + P.A.flatten.length + P.N.flatten.length)),
    offsetAdditional := pp.offsetAdditional.map (· + rr.length),
    offsetEdns := pp.offsetEdns.map (· + rr.length) }
  have hrun : insertRR pp .nameServers rr = .ok (pp', none) := by
    unfold insertRR
    have hbig : ¬ (pp.packet.length + rr.length > DNS_MAX_UNCOMPRESSED_SIZE) := by
      have : DNS_MAX_UNCOMPRESSED_SIZE = 8192 := rfl
      omega
    simp only [P.mc, Bool.false_eq_true, if_false, pure_eq, bind_ok, Option.isSome_none, hbig]
    unfold rrcountInc
    simp only [sectionCount, hcnt, bind_ok]
    have c1 : ((Section.nameServers == Section.question) && decide (P.N.length ≥ 1)) = false := by simp
    simp only [c1, Bool.false_eq_true, if_false, hnq, sectionCountOffset]
    rw [hpk, hw]
    simp only [bind_ok, pure_eq, Option.isSome_none, Bool.false_eq_true, if_false, hio]
    have hle : ¬ (12 + labSum P.qls + 1 + 4 + P.A.flatten.length + P.N.flatten.length >
        (hdr' ++ (((encLabels P.qls ++ [0]) ++ P.q4) ++ P.A.flatten ++ P.N.flatten ++ P.R.flatten)).length) := by
      simp only [List.length_append, hh', P.hq4, encLabels_length, List.length_cons, List.length_nil]; omega
    simp only [hle, if_false, hsplice]
    rfl
  refine ⟨pp', ⟨hdr', P.q4, P.qls, P.A, P.N ++ [rr], P.R, P.o2, P.o3, P.o4, hh', ?_, P.hgq, P.hq4, P.hcl,
    P.hA, P.hN.append (Pieces.cons hpc (Pieces.nil _)), P.hR, ?_, by rw [hg8]; simp, ?_, ?_, rfl, ?_, ?_, ?_, ?_, P.mc⟩,
    hrun, rfl, rfl, rfl, rfl, rfl, hgo, rfl⟩
  · rw [hgo 4 (by omega)]; exact P.hqd
  · rw [hgo 6 (by omega)]; exact P.hca
  · rw [hgo 10 (by omega)]; exact P.hcr
  · intro hq; rw [hgo 2 (by omega)] at hq; omega
  · exact P.oq
  · exact P.oa
  · show pp.offsetNameservers.or (some (12 + labSum P.qls + 1 + 4 + P.A.flatten.length + P.N.flatten.length)) = _
    rw [P.on]
    by_cases hn : P.N.length > 0
    · simp [hn]
    · have hn0 : P.N = [] := List.length_eq_zero_iff.1 (by omega)
      simp [hn0]
  · show pp.offsetAdditional.map (· + rr.length) = _
    rw [P.oR]
    by_cases hr : P.R.length > 0
    · simp [hr]; omega
    · simp [hr]

end Dns

namespace Dns
open Res

/-- **insertion into the additional section of a plain object** -/
theorem insert_additional {pp : PP} (P : PlainObj pp) (rr : Bytes) (hpc : PieceOK .additional rr P.o4 P.o4)
    (hsize : pp.packet.length + rr.length ≤ 8192) (hcount : P.R.length < 65535) :
    ∃ (pp' : PP) (P' : PlainObj pp'), insertRR pp .additional rr = .ok (pp', none) ∧
      P'.A = P.A ∧ P'.N = P.N ∧ P'.R = P.R ++ [rr] ∧ P'.qls = P.qls ∧ P'.q4 = P.q4 ∧
      (∀ k, (k + 1 < 10 ∨ 10 + 1 < k) → get16 P'.hdr k = get16 P.hdr k) ∧ pp' = { pp with packet := pp'.packet, offsetAnswers := pp'.offsetAnswers, offsetNameservers := pp'.offsetNameservers, offsetAdditional := pp'.offsetAdditional } := by
  have hlen := P.len
  obtain ⟨hdr', hw, hh', hg10, hgo⟩ := patch_header (rest := ((encLabels P.qls ++ [0]) ++ P.q4) ++ P.A.flatten ++ P.N.flatten ++ P.R.flatten)
    P.hh 10 (P.R.length + 1) (by omega) (by omega)
  have hpk : pp.packet = P.hdr ++ (((encLabels P.qls ++ [0]) ++ P.q4) ++ P.A.flatten ++ P.N.flatten ++ P.R.flatten) := by
    rw [P.bytes]; simp
  have hcnt : arcount pp.packet = .ok P.R.length := by
    unfold arcount
    rw [be16_of_le' (by omega), hpk, get16_append_left (by rw [P.hh]; omega), P.hcr]
  have hl' : (hdr' ++ (((encLabels P.qls ++ [0]) ++ P.q4) ++ P.A.flatten ++ P.N.flatten ++ P.R.flatten)).length =
      12 + labSum P.qls + 1 + 4 + P.A.flatten.length + P.N.flatten.length + P.R.flatten.length := by
    simp only [List.length_append, hh', P.hq4, encLabels_length, List.length_cons, List.length_nil]; omega
  have hsplice : (hdr' ++ (((encLabels P.qls ++ [0]) ++ P.q4) ++ P.A.flatten ++ P.N.flatten ++ P.R.flatten)).take
        (hdr' ++ (((encLabels P.qls ++ [0]) ++ P.q4) ++ P.A.flatten ++ P.N.flatten ++ P.R.flatten)).length ++ rr ++
      (hdr' ++ (((encLabels P.qls ++ [0]) ++ P.q4) ++ P.A.flatten ++ P.N.flatten ++ P.R.flatten)).drop
        (hdr' ++ (((encLabels P.qls ++ [0]) ++ P.q4) ++ P.A.flatten ++ P.N.flatten ++ P.R.flatten)).length =
      hdr' ++ ((encLabels P.qls ++ [0]) ++ P.q4) ++ P.A.flatten ++ P.N.flatten ++ (P.R ++ [rr]).flatten := by
    rw [List.take_length, List.drop_length]
    simp
  have hnq : ¬ (P.R.length ≥ 65535) := by omega
  let pp' : PP := { pp with
    packet := hdr' ++ ((encLabels P.qls ++ [0]) ++ P.q4) ++ P.A.flatten ++ P.N.flatten ++ (P.R ++ [rr]).flatten,
    offsetAdditional := pp.offsetAdditional.or (some (hdr' ++ (((encLabels P.qls ++ [0]) ++ P.q4) ++ P.A.flatten ++ P.N.flatten ++ P.R.flatten)).length) }
  have hrun : insertRR pp .additional rr = .ok (pp', none) := by
    unfold insertRR
    have hbig : ¬ (pp.packet.length + rr.length > DNS_MAX_UNCOMPRESSED_SIZE) := by
      have : DNS_MAX_UNCOMPRESSED_SIZE = 8192 := rfl
      omega
    simp only [P.mc, Bool.false_eq_true, if_false, pure_eq, bind_ok, Option.isSome_none, hbig]
    unfold rrcountInc
    simp only [sectionCount, hcnt, bind_ok]
    have c1 : ((Section.additional == Section.question) && decide (P.R.length ≥ 1)) = false := by simp
    simp only [c1, Bool.false_eq_true, if_false, hnq, sectionCountOffset]
    rw [hpk, hw]
    simp only [bind_ok, pure_eq, Option.isSome_none, Bool.false_eq_true, if_false, insertionOffset, Nat.lt_irrefl, gt_iff_lt, hsplice]
    rfl
  refine ⟨pp', ⟨hdr', P.q4, P.qls, P.A, P.N, P.R ++ [rr], P.o2, P.o3, P.o4, hh', ?_, P.hgq, P.hq4, P.hcl,
    P.hA, P.hN, P.hR.append (Pieces.cons hpc (Pieces.nil _)), ?_, ?_, by rw [hg10]; simp, ?_, rfl, P.oq, P.oa, P.on, ?_, P.mc⟩,
    hrun, rfl, rfl, rfl, rfl, rfl, hgo, rfl⟩
  · rw [hgo 4 (by omega)]; exact P.hqd
  · rw [hgo 6 (by omega)]; exact P.hca
  · rw [hgo 8 (by omega)]; exact P.hcn
  · intro hq; rw [hgo 2 (by omega)] at hq; exact P.hqr hq
  · show pp.offsetAdditional.or (some _) = _
    rw [P.oR, hl']
    by_cases hr : P.R.length > 0
    · simp [hr]
    · have hr0 : P.R = [] := List.length_eq_zero_iff.1 (by omega)
      simp [hr0]

end Dns

namespace Dns
open Res

/-- inserting into a freshly parsed object first makes it a plain object (decompress, recompute),
then inserts into that -/
theorem insert_parsed_step {p : Bytes} {v : View} (h : parse p = .ok v) (sect : Section) (rr : Bytes) :
    ∃ (pp2 : PP) (L : C03.Layout p) (o : C05.Output p L) (P : PlainObj pp2),
      P.A = o.pa ∧ P.N = o.pn ∧ P.R = o.pr ∧ P.hdr = p.take 12 ∧ pp2.packet = o.bytes ∧
      insertRR (PP.ofView p v) sect rr = insertRR pp2 sect rr := by
  obtain ⟨L, o, hun⟩ := C05.decompress_ok h
  obtain ⟨v2, h2⟩ := C02.wf_accepted _ (C05.output_layout h o).1
  have hcore := edns_preserved h o h2
  -- the second decompression (inside recompute) returns the same bytes
  obtain ⟨L2, o2, hun2⟩ := C05.decompress_ok h2
  have hfix := C05.decompress_fixed_point h hun
  rw [hun2] at hfix
  have hob : o2.bytes = o.bytes := by simpa using hfix
  let pp1 : PP := { PP.ofView p v with packet := o.bytes }
  have hv1 : pp1.ednsCount = v2.ednsCount ∧ pp1.extRcode = v2.extRcode ∧ pp1.ednsVersion = v2.ednsVersion ∧ pp1.extFlags = v2.extFlags := by
    unfold EdnsInfo.core View.info at hcore
    simp only [Prod.mk.injEq] at hcore
    obtain ⟨c1, c2, c3, c4, _⟩ := hcore
    exact ⟨c1.symm, c2.symm, c3.symm, c4.symm⟩
  obtain ⟨v3, h3, hrec⟩ := recompute_fresh h2 pp1 rfl hv1 rfl o2
  rw [hob] at h3 hrec
  have hv32 : v3 = v2 := by rw [h2] at h3; simpa using h3.symm
  subst hv32
  obtain ⟨P, hA, hN, hR, hH, _⟩ := plainObj_of_output h o h2 pp1
  refine ⟨pp1.rebased o.bytes v3, L, o, P, hA, hN, hR, hH, rfl, ?_⟩
  have hmc2 : (pp1.rebased o.bytes v3).maybeCompressed = false := rfl
  have lhs : insertRR (PP.ofView p v) sect rr = (do
      let (pp, e) ← (pure (pp1.rebased o.bytes v3, none) : Res (PP × Option Err))
      if e.isSome then return (pp, e)
      let rrLen := rr.length
      if pp.packet.length + rrLen > DNS_MAX_UNCOMPRESSED_SIZE then return (pp, some .packetTooLarge)
      let (pp, e) ← rrcountInc pp sect
      if e.isSome then return (pp, e)
      let io ← insertionOffset pp sect
      let packetLen := pp.packet.length
      if io > packetLen then .panic else
      let pp := { pp with packet := pp.packet.take io ++ rr ++ pp.packet.drop io }
      let add (o : Option Nat) : Option Nat := o.map (· + rrLen)
      match sect with
      | .question =>
        pure ({ pp with offsetQuestion := pp.offsetQuestion.or (some io), offsetAnswers := add pp.offsetAnswers,
                        offsetNameservers := add pp.offsetNameservers, offsetAdditional := add pp.offsetAdditional,
                        offsetEdns := add pp.offsetEdns }, none)
      | .answer =>
        pure ({ pp with offsetAnswers := pp.offsetAnswers.or (some io), offsetNameservers := add pp.offsetNameservers,
                        offsetAdditional := add pp.offsetAdditional, offsetEdns := add pp.offsetEdns }, none)
      | .nameServers =>
        pure ({ pp with offsetNameservers := pp.offsetNameservers.or (some io),
                        offsetAdditional := add pp.offsetAdditional, offsetEdns := add pp.offsetEdns }, none)
      | .additional =>
        pure ({ pp with offsetAdditional := pp.offsetAdditional.or (some io) }, none)
      | .edns => .panic) := by
    unfold insertRR
    have hmc0 : (PP.ofView p v).maybeCompressed = true := rfl
    have hp0 : (PP.ofView p v).packet = p := rfl
    simp only [hmc0, if_true, hp0, hun]
    show (do
      let r ← (do let (pp, e) ← pp1.recompute; pure (pp, e))
      _) = _
    rw [hrec]
    rfl
  rw [lhs]
  unfold insertRR
  simp only [hmc2, Bool.false_eq_true, if_false]
  rfl

end Dns
