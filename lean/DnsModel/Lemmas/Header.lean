/-
  Lemmas.Header — stores into a byte buffer and the word-level action of the header setters.
-/
import DnsModel.Lemmas.Bits
namespace Dns

theorem writeAt_ok {p : Bytes} {i : Nat} {v : Bytes} (h : i + v.length ≤ p.length) :
    writeAt p i v = .ok (p.take i ++ v ++ p.drop (i + v.length)) := by simp [writeAt, h]

theorem writeAt_length {p p' : Bytes} {i : Nat} {v : Bytes} (h : writeAt p i v = .ok p') : p'.length = p.length := by
  unfold writeAt at h
  split at h
  · simp at h; subst h; simp; omega
  · simp at h

theorem byteAt_writeAt {p p' : Bytes} {i : Nat} {v : Bytes} (h : writeAt p i v = .ok p') (j : Nat) :
    byteAt p' j = if j < i then byteAt p j else if j < i + v.length then byteAt v (j - i) else byteAt p j := by
  unfold writeAt at h
  split at h
  · rename_i hfit
    simp at h; subst h
    unfold byteAt
    have hmin : min i p.length = i := by omega
    simp only [List.append_assoc, List.getElem?_append, List.length_take, hmin, List.getElem?_take,
      List.getElem?_drop]
    by_cases h1 : j < i
    · simp [h1]
    · simp only [h1, if_false]
      by_cases h2 : j < i + v.length
      · have : j - i < v.length := by omega
        simp [h2, this]
      · have : ¬ (j - i < v.length) := by omega
        simp only [h2, this, if_false]
        first | (congr 2; omega) | congr 2
  · simp at h

theorem byteAt_put16 (v : Nat) : byteAt (put16 v) 0 = some (v / 256 % 256) ∧ byteAt (put16 v) 1 = some (v % 256) := by
  simp [put16, byteAt]

/-- storing a 16-bit word and loading it again -/
theorem get16_writeAt_put16 {p p' : Bytes} {i v : Nat} (h : writeAt p i (put16 v) = .ok p') (hv : v < 65536) :
    get16 p' i = v := by
  have h0 := byteAt_writeAt h i
  have h1 := byteAt_writeAt h (i + 1)
  have hl : (put16 v).length = 2 := rfl
  simp [hl] at h0 h1
  rw [(byteAt_put16 v).1] at h0
  rw [(byteAt_put16 v).2] at h1
  have hlt : ¬ (i + 1 < i) := by omega
  simp only [hlt, if_false] at h1
  rw [get16_eq_of_bytes h0 h1]
  omega

theorem byteAt_writeAt_put16_other {p p' : Bytes} {i v j : Nat} (h : writeAt p i (put16 v) = .ok p')
    (hj : j ≠ i ∧ j ≠ i + 1) : byteAt p' j = byteAt p j := by
  have := byteAt_writeAt h j
  have hl : (put16 v).length = 2 := rfl
  rw [this, hl]
  by_cases h1 : j < i
  · simp [h1]
  · have : ¬ j < i + 2 := by omega
    simp [h1, this]

theorem get16_writeAt_other {p p' : Bytes} {i v k : Nat} (h : writeAt p i (put16 v) = .ok p')
    (hk : k + 1 < i ∨ i + 1 < k) : get16 p' k = get16 p k := by
  unfold get16 getB
  rw [byteAt_writeAt_put16_other h (by omega), byteAt_writeAt_put16_other h (by omega)]

/-! ### the word-level functions computed by the setters -/

def setFlagsW (w a : Nat) : Nat := (w &&& (0x7800 ||| 0x000f)) ||| (((a &&& 0xffff) &&& 0x87ff) &&& 0xfff0)
def setResponseW (w : Nat) (b : Bool) : Nat := if b then w ||| DNS_FLAG_QR else w &&& 0x7fff
def setRcodeB (b rc : Nat) : Nat := (b &&& 0xf0) ||| (rc &&& 0x0f)
def setOpcodeB (b op : Nat) : Nat := (b &&& 0x87) ||| (((op <<< 3) % 256) &&& 0x78)

/-- the flag bits of the 16-bit header word: QR AA TC RD RA Z AD CD -/
def flagBit (i : Nat) : Bool := (0x87f0 : Nat).testBit i

theorem setFlagsW_bits (w a i : Nat) (hi : i < 16) :
    (setFlagsW w a).testBit i = (if flagBit i then a.testBit i else w.testBit i) := by
  rcases lt_16_cases hi with rfl|rfl|rfl|rfl|rfl|rfl|rfl|rfl|rfl|rfl|rfl|rfl|rfl|rfl|rfl|rfl <;>
    (simp only [setFlagsW, flagBit, Nat.testBit_or, Nat.testBit_and]; bits_decide w a)

theorem setFlagsW_lt (w a : Nat) (hw : w < 65536) : setFlagsW w a < 65536 := by
  unfold setFlagsW
  apply Nat.or_lt_two_pow (n := 16)
  · exact Nat.lt_of_le_of_lt Nat.and_le_left hw
  · exact Nat.lt_of_le_of_lt Nat.and_le_right (by decide)

theorem setResponseW_bits (w : Nat) (b : Bool) (i : Nat) (hi : i < 16) :
    (setResponseW w b).testBit i = (if i = 15 then b else w.testBit i) := by
  cases b <;>
  rcases lt_16_cases hi with rfl|rfl|rfl|rfl|rfl|rfl|rfl|rfl|rfl|rfl|rfl|rfl|rfl|rfl|rfl|rfl <;>
    (simp only [setResponseW, DNS_FLAG_QR, Nat.testBit_or, Nat.testBit_and, Bool.false_eq_true, if_false, if_true]
     bits_decide w w)

theorem setResponseW_lt (w : Nat) (b : Bool) (hw : w < 65536) : setResponseW w b < 65536 := by
  unfold setResponseW
  split
  · exact Nat.or_lt_two_pow (n := 16) hw (by decide)
  · exact Nat.lt_of_le_of_lt Nat.and_le_left hw

theorem setRcodeB_bits (b rc i : Nat) (hi : i < 8) :
    (setRcodeB b rc).testBit i = (if i < 4 then rc.testBit i else b.testBit i) := by
  rcases lt_8_cases hi with rfl|rfl|rfl|rfl|rfl|rfl|rfl|rfl <;>
    (simp only [setRcodeB, Nat.testBit_or, Nat.testBit_and]; bits_decide b rc)

theorem setRcodeB_lt (b rc : Nat) (hb : b < 256) : setRcodeB b rc < 256 := by
  unfold setRcodeB
  apply Nat.or_lt_two_pow (n := 8)
  · exact Nat.lt_of_le_of_lt Nat.and_le_left hb
  · exact Nat.lt_of_le_of_lt Nat.and_le_right (by decide)

theorem setOpcodeB_lt (b op : Nat) (hb : b < 256) : setOpcodeB b op < 256 := by
  unfold setOpcodeB
  apply Nat.or_lt_two_pow (n := 8)
  · exact Nat.lt_of_le_of_lt Nat.and_le_left hb
  · exact Nat.lt_of_le_of_lt Nat.and_le_right (by decide)

theorem testBit_shl3_mod (op i : Nat) :
    ((op <<< 3) % 256).testBit i = (decide (i < 8) && (decide (3 ≤ i) && op.testBit (i - 3))) := by
  have : (256 : Nat) = 2 ^ 8 := rfl
  rw [this, Nat.testBit_mod_two_pow, Nat.testBit_shiftLeft]

theorem setOpcodeB_bits (b op i : Nat) (hi : i < 8) :
    (setOpcodeB b op).testBit i = (if 3 ≤ i ∧ i < 7 then op.testBit (i - 3) else b.testBit i) := by
  rcases lt_8_cases hi with rfl|rfl|rfl|rfl|rfl|rfl|rfl|rfl <;>
    (simp only [setOpcodeB, Nat.testBit_or, Nat.testBit_and, testBit_shl3_mod]
     bits_decide b op)

end Dns
