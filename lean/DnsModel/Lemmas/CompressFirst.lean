/-
  Lemmas.CompressFirst — with a dictionary that holds no committed entry (the empty one, at the
  question) the compressor writes the name as it is.
-/
import DnsModel.Lemmas.Plain
namespace Dns
open Res

/-- no entry of the dictionary can be pointed to -/
def NoCommitted (dict : SuffixDict) : Prop :=
  ∀ i e, i < dict.count → dict.suffixes[i]? = some e → e.depth = DEPTH_PENDING

theorem find_none_of_noCommitted {dict : SuffixDict} (h : NoCommitted dict) (s : Bytes) : dict.find s = none := by
  cases hf : dict.find s with
  | none => rfl
  | some cand =>
    obtain ⟨⟨i, hi, hget⟩, hd, _⟩ := find_some hf
    have := h i cand hi hget
    rw [this] at hd
    unfold DEPTH_PENDING at hd
    omega

theorem insert_nohit {dict dict' : SuffixDict} {s : Bytes} {o : Nat} {hit : Option Nat} (h : NoCommitted dict)
    (hidx : dict.index < dict.suffixes.length) (hic : dict.index ≤ dict.count)
    (hr : dict.insert s o = .ok (dict', hit)) : hit = none ∧ NoCommitted dict' := by
  unfold SuffixDict.insert at hr
  simp only [find_none_of_noCommitted h] at hr
  by_cases h1 : o ≥ 16384
  · simp [h1] at hr; exact ⟨hr.2.symm, hr.1 ▸ h⟩
  simp only [h1, if_false] at hr
  by_cases h2 : (decide (s.length ≤ 2) || decide (s.length > MAX_SUFFIX_LEN)) = true
  · simp only [h2, if_true] at hr
    have : (dict, (none : Option Nat)) = (dict', hit) := by simpa using hr
    simp at this
    exact ⟨this.2.symm, this.1 ▸ h⟩
  simp only [h2, Bool.false_eq_true, if_false] at hr
  cases hl : rawNameLen s with
  | ok len =>
    rw [hl] at hr
    simp only [bind_ok, assert] at hr
    by_cases h3 : (len == s.length) = true
    · simp only [h3, if_true, bind_ok] at hr
      cases hsl : slice s 0 len with
      | ok copied =>
        rw [hsl] at hr
        simp only [bind_ok] at hr
        have h4 : decide (dict.index < dict.suffixes.length) = true := by simp [hidx]
        simp only [h4, if_true, bind_ok, pure_eq, ok.injEq, Prod.mk.injEq] at hr
        refine ⟨hr.2.symm, ?_⟩
        rw [← hr.1]
        intro i e hi he
        have hi : i < max (dict.index + 1) dict.count := hi
        have he : (dict.suffixes.set dict.index
            { offset := o, len := s.length, depth := DEPTH_PENDING, suffix := copied })[i]? = some e := he
        by_cases hii : i = dict.index
        · subst hii
          rw [List.getElem?_set_self hidx] at he
          simp at he
          rw [← he]
        · rw [List.getElem?_set_ne (by omega)] at he
          exact h i e (by omega) he
      | err e => rw [hsl] at hr; simp at hr
      | panic => rw [hsl] at hr; simp at hr
      | diverge => rw [hsl] at hr; simp at hr
    · simp [h3] at hr
  | err e => rw [hl] at hr; simp at hr
  | panic => rw [hl] at hr; simp at hr
  | diverge => rw [hl] at hr; simp at hr

/-- with no committed entry the walk writes every label and the root byte -/
theorem loop_literal (out0 : Bytes) (suf : List (List UInt8)) :
    ∀ (pre : List (List UInt8)) (dict : SuffixDict) (out : Bytes) (fuel : Nat),
      (∀ l ∈ pre ++ suf, okLabel l) → labSum (pre ++ suf) < 16384 → fuel > suf.length →
      DictState dict out0 (pre ++ suf) pre.length none → NoCommitted dict →
      ∃ dict', copyCompressedLoop (encLabels (pre ++ suf) ++ [0]) (encLabels (pre ++ suf) ++ [0]).length out0.length
          fuel dict out (labSum pre) = .ok (dict', out ++ encLabels suf ++ [0]) := by
  induction suf with
  | nil =>
    intro pre dict out fuel hok hw hf hd hnc
    cases fuel with
    | zero => omega
    | succ n =>
      have hins := insert_cases hd hok (by simp)
      rw [List.drop_left, List.take_left] at hins
      obtain ⟨dict1, hit, hi, _⟩ := hins
      obtain ⟨hnone, _⟩ := insert_nohit hnc (by have := hd.1; have := hd.2.1; omega) hd.2.2.2.1 hi
      subst hnone
      unfold copyCompressedLoop
      have hnp : isPtr 0 = false := by decide
      simp only [nm_idx_nil, bind_ok, hnp, Bool.false_eq_true, if_false, nm_slice_rest, hi, nm_slice_root,
        beq_self_eq_true, if_true, pure_eq]
      exact ⟨dict1.commit 0, by simp [encLabels]⟩
  | cons x suf ih =>
    intro pre dict out fuel hok hw hf hd hnc
    cases fuel with
    | zero => omega
    | succ n =>
      have hx : okLabel x := hok x (by simp)
      have hins := insert_cases hd hok (by simp)
      rw [List.drop_left, List.take_left] at hins
      obtain ⟨dict1, hit, hi, hcase⟩ := hins
      obtain ⟨hnone, hnc1⟩ := insert_nohit hnc (by have := hd.1; have := hd.2.1; omega) hd.2.2.2.1 hi
      subst hnone
      rcases hcase with ⟨_, hd1⟩ | ⟨o, _, _, _, _, _, hcontra, _⟩
      · unfold copyCompressedLoop
        have hnp : isPtr x.length = false := isPtr_false_of_le hx.2
        have hnz : (x.length == 0) = false := by rw [beq_eq_false_iff_ne]; unfold okLabel at hx; omega
        simp only [nm_idx_cons pre x suf hx, bind_ok, hnp, Bool.false_eq_true, if_false, nm_slice_rest, hi,
          nm_slice_lab, hnz]
        have e1 : pre ++ x :: suf = (pre ++ [x]) ++ suf := by simp
        have e2 : labSum pre + 1 + x.length = labSum (pre ++ [x]) := by
          rw [labSum_append, labSum_cons]; simp [labSum]; omega
        rw [e2]
        have hd1' : DictState dict1 out0 ((pre ++ [x]) ++ suf) (pre ++ [x]).length none := by
          rw [← e1]; simpa using hd1
        obtain ⟨dict', hrun⟩ := ih (pre ++ [x]) dict1 (out ++ (UInt8.ofNat x.length :: x)) n
          (by rw [← e1]; exact hok) (by rw [← e1]; exact hw) (by simp at hf; omega) hd1' hnc1
        rw [← e1] at hrun
        exact ⟨dict', by rw [hrun]; simp [encLabels]⟩
      · simp at hcontra

/-- **the first name** (empty dictionary): written byte for byte -/
theorem copyName_first {p : Bytes} {off : Nat} {ls : List (List UInt8)} (h : PlainAt p off ls) (out0 : Bytes) :
    ∃ dict', copyCompressedName {} out0 p off =
      .ok (dict', out0 ++ (encLabels ls ++ [0]), (encLabels ls ++ [0]).length, off + (labSum ls + 1)) := by
  have hw := h.2.2.1
  have hlsum : labSum ls < 16384 := by rw [wireLen_eq] at hw; omega
  have hlen := length_lt_wireLen ls
  have hnc : NoCommitted {} := by intro i e hi; simp at hi
  obtain ⟨dict', hrun⟩ := loop_literal out0 ls [] {} out0 nameFuel (by simpa using h.2.1) (by simpa using hlsum)
    (by have : nameFuel = 273 := rfl; omega) (by simpa using DictState.empty out0 ls) hnc
  simp only [List.nil_append, labSum, List.map_nil, List.sum_nil] at hrun
  refine ⟨dict', ?_⟩
  unfold copyCompressedName
  rw [h.rawLenAfter]
  simp only [bind_ok, h.slice]
  unfold copyCompressedNameWithBaseOffset
  rw [rawLenAfter_enc ls h.2.1 hw]
  simp only [bind_ok, Nat.zero_add, hrun, pure_eq]
  simp [List.append_assoc]

end Dns
