/-
  Lemmas.CompressName — `copy_compressed_name_with_base_offset` on a pointer-free name: it writes
  some of the leading labels literally and ends with the root byte or with a pointer to an earlier
  name that equals the remaining labels up to case; the name it has written decodes to the input's
  labels up to case, and the dictionary stays sound.
-/
import DnsModel.Lemmas.Dict
namespace Dns
open Res

/-- the two pointer bytes the compressor writes for output offset `o` -/
def ptrBytes (o : Nat) : Bytes := [UInt8.ofNat ((o >>> 8) % 256 ||| 0xc0), UInt8.ofNat (o &&& 0xff)]

theorem or_c0_fin : ∀ q : Fin 64, q.val ||| 0xc0 = 0xc0 + q.val := by decide

theorem ptrBytes_eq (o : Nat) (h : o < 16384) : ptrBytes o = [UInt8.ofNat (0xc0 + o / 256), UInt8.ofNat (o % 256)] := by
  unfold ptrBytes
  have hq : o / 256 < 64 := by omega
  have e1 : (o >>> 8) % 256 = o / 256 := by rw [Nat.shiftRight_eq_div_pow]; simp; omega
  have e2 : o / 256 ||| 0xc0 = 0xc0 + o / 256 := or_c0_fin ⟨o / 256, hq⟩
  have e3 : o &&& 0xff = o % 256 := Nat.and_two_pow_sub_one_eq_mod o 8
  rw [e1, e2, e3]

/-! ### reading the pointer-free name -/

theorem nm_split (pre suf : List (List UInt8)) :
    encLabels (pre ++ suf) ++ [0] = encLabels pre ++ (encLabels suf ++ [0]) := by
  rw [encLabels_append, List.append_assoc]

theorem nm_drop (pre suf : List (List UInt8)) :
    (encLabels (pre ++ suf) ++ [0]).drop (labSum pre) = encLabels suf ++ [0] := by
  rw [nm_split, ← encLabels_length pre, List.drop_append_length]

theorem nm_idx_nil (pre : List (List UInt8)) : idx (encLabels (pre ++ []) ++ [0]) (labSum pre) = .ok 0 := by
  apply idx_of_byteAt
  rw [nm_split, ← encLabels_length pre, byteAt_append_right0]
  rfl

theorem nm_idx_cons (pre : List (List UInt8)) (x : List UInt8) (suf : List (List UInt8)) (hx : okLabel x) :
    idx (encLabels (pre ++ x :: suf) ++ [0]) (labSum pre) = .ok x.length := by
  apply idx_of_byteAt
  rw [nm_split, ← encLabels_length pre, byteAt_append_right0]
  simp only [encLabels, List.cons_append, byteAt_cons_zero]
  unfold okLabel at hx
  simp; omega

theorem nm_slice_rest (pre suf : List (List UInt8)) :
    slice (encLabels (pre ++ suf) ++ [0]) (labSum pre) (encLabels (pre ++ suf) ++ [0]).length = .ok (encLabels suf ++ [0]) := by
  have hl : (encLabels (pre ++ suf) ++ [0]).length = labSum pre + (encLabels suf ++ [0]).length := by
    rw [nm_split, List.length_append, encLabels_length]
  rw [slice_ok ⟨by omega, by omega⟩, nm_drop, hl]
  have : labSum pre + (encLabels suf ++ [0]).length - labSum pre = (encLabels suf ++ [0]).length := by omega
  rw [this, List.take_length]

theorem nm_slice_lab (pre : List (List UInt8)) (x : List UInt8) (suf : List (List UInt8)) :
    slice (encLabels (pre ++ x :: suf) ++ [0]) (labSum pre) (labSum pre + 1 + x.length) = .ok (UInt8.ofNat x.length :: x) := by
  have hl : (encLabels (pre ++ x :: suf) ++ [0]).length = labSum pre + (encLabels (x :: suf) ++ [0]).length := by
    rw [nm_split, List.length_append, encLabels_length]
  have hx : (encLabels (x :: suf) ++ [0]).length ≥ 1 + x.length := by simp [encLabels]; omega
  rw [slice_ok ⟨by omega, by omega⟩, nm_drop]
  have : labSum pre + 1 + x.length - labSum pre = (UInt8.ofNat x.length :: x).length := by simp; omega
  rw [this]
  have e : encLabels (x :: suf) ++ [0] = (UInt8.ofNat x.length :: x) ++ (encLabels suf ++ [0]) := by simp [encLabels]
  rw [e, List.take_append_length]

theorem nm_slice_root (pre : List (List UInt8)) :
    slice (encLabels (pre ++ []) ++ [0]) (labSum pre) (labSum pre + 1 + 0) = .ok [0] := by
  have hl : (encLabels (pre ++ []) ++ [0]).length = labSum pre + 1 := by
    rw [nm_split, List.length_append, encLabels_length]; simp [encLabels]
  rw [slice_ok ⟨by omega, by omega⟩, nm_drop]
  simp [encLabels]

end Dns

namespace Dns
open Res

/-- how the walk over a pointer-free name ends -/
def NameEnd (out0 : Bytes) (rest : List (List UInt8)) (tail : Bytes) (d : Nat) : Prop :=
  (rest = [] ∧ tail = [0] ∧ d = 0) ∨
  (∃ o cls' ePos Po Eo dd, tail = ptrBytes o ∧ d = dd + 1 ∧ dd < 16 ∧ lsCi cls' rest ∧
     NameAt out0 Eo Po o dd cls' ePos ∧ Po ≤ o ∧ Eo ≤ out0.length ∧ o < 16384 ∧ o < out0.length ∧
     byteAt out0 o ≠ some 0 ∧ 2 < labSum rest + 1)

/-- **trace of the label loop** from the boundary after `pre`: the labels `mid` are written
literally, then the name ends (root byte, or pointer standing for `rest`) -/
theorem loop_trace (out0 : Bytes) (suf : List (List UInt8)) :
    ∀ (pre : List (List UInt8)) (dict : SuffixDict) (out : Bytes) (fuel : Nat),
      (∀ l ∈ pre ++ suf, okLabel l) → labSum (pre ++ suf) < 16384 → fuel > suf.length →
      DictState dict out0 (pre ++ suf) pre.length none →
      ∃ (mid rest : List (List UInt8)) (tail : Bytes) (d : Nat) (dict' : SuffixDict), suf = mid ++ rest ∧
        copyCompressedLoop (encLabels (pre ++ suf) ++ [0]) (encLabels (pre ++ suf) ++ [0]).length out0.length
          fuel dict out (labSum pre) = .ok (dict', out ++ encLabels mid ++ tail) ∧
        DictState dict' out0 (pre ++ suf) (pre.length + mid.length) (some d) ∧ d ≤ 16 ∧
        NameEnd out0 rest tail d := by
  induction suf with
  | nil =>
    intro pre dict out fuel hok hw hf hd
    cases fuel with
    | zero => omega
    | succ n =>
      have hins := insert_cases hd hok (by simp)
      rw [List.drop_left, List.take_left] at hins
      obtain ⟨dict1, hit, hi, hcase⟩ := hins
      unfold copyCompressedLoop
      have hnp : isPtr 0 = false := by decide
      simp only [nm_idx_nil, bind_ok, hnp, Bool.false_eq_true, if_false, nm_slice_rest, hi]
      rcases hcase with ⟨rfl, hd1⟩ | ⟨o, cls', ePos, Po, Eo, dd, rfl, h1, h2, h3, h4, h5, h6, h7, h8, rfl, h9⟩
      · simp only [nm_slice_root, bind_ok, beq_self_eq_true, if_true, pure_eq]
        refine ⟨[], [], [0], 0, dict1.commit 0, rfl, by simp [encLabels], ?_, by omega, Or.inl ⟨rfl, rfl, rfl⟩⟩
        have := (hd1.mono (Nat.le_refl _)).commit 0 (by decide)
        obtain ⟨a, b, c, d, e⟩ := this
        refine ⟨a, b, c, d, ?_⟩
        intro i en hi' he
        rcases e i en hi' he with h | ⟨j, hj, hj2, rest⟩
        · exact Or.inl h
        · exact Or.inr ⟨j, by simp at hj2 ⊢; exact hj2, hj2, rest⟩
      · have hlt : decide (labSum pre < 16384) = true := by
          simp; rw [labSum_append] at hw; omega
        simp only [assert, hlt, if_true, bind_ok, pure_eq]
        refine ⟨[], [], ptrBytes o, dd + 1, dict.commit (dd + 1), rfl, by simp [encLabels, ptrBytes], ?_, by omega,
          Or.inr ⟨o, cls', ePos, Po, Eo, dd, rfl, rfl, h8, h1, h2, h3, h4, h5, h6, h7, h9⟩⟩
        have := hd.commit (dd + 1) (by unfold DEPTH_PENDING; omega)
        simpa using this
  | cons x suf ih =>
    intro pre dict out fuel hok hw hf hd
    cases fuel with
    | zero => omega
    | succ n =>
      have hx : okLabel x := hok x (by simp)
      have hins := insert_cases hd hok (by simp)
      rw [List.drop_left, List.take_left] at hins
      obtain ⟨dict1, hit, hi, hcase⟩ := hins
      unfold copyCompressedLoop
      have hnp : isPtr x.length = false := isPtr_false_of_le hx.2
      simp only [nm_idx_cons pre x suf hx, bind_ok, hnp, Bool.false_eq_true, if_false, nm_slice_rest, hi]
      rcases hcase with ⟨rfl, hd1⟩ | ⟨o, cls', ePos, Po, Eo, dd, rfl, h1, h2, h3, h4, h5, h6, h7, h8, rfl, h9⟩
      · have hnz : (x.length == 0) = false := by rw [beq_eq_false_iff_ne]; unfold okLabel at hx; omega
        simp only [nm_slice_lab, bind_ok, hnz, Bool.false_eq_true, if_false]
        have e1 : pre ++ x :: suf = (pre ++ [x]) ++ suf := by simp
        have e2 : labSum pre + 1 + x.length = labSum (pre ++ [x]) := by
          rw [labSum_append, labSum_cons]; simp [labSum]; omega
        rw [e2]
        have hd1' : DictState dict1 out0 ((pre ++ [x]) ++ suf) (pre ++ [x]).length none := by
          rw [← e1]; simpa using hd1
        obtain ⟨mid, rest, tail, d, dict', hs, hrun, hds, hd16, hend⟩ := ih (pre ++ [x]) dict1 (out ++ (UInt8.ofNat x.length :: x)) n
          (by rw [← e1]; exact hok) (by rw [← e1]; exact hw) (by simp at hf; omega) hd1'
        rw [← e1] at hrun hds
        refine ⟨x :: mid, rest, tail, d, dict', by simp [hs], ?_, ?_, hd16, hend⟩
        · rw [hrun]
          simp [encLabels]
        · have : (pre ++ [x]).length + mid.length = pre.length + (x :: mid).length := by simp; omega
          rw [← this]; exact hds
      · have hlt : decide (labSum pre < 16384) = true := by
          simp; rw [labSum_append] at hw; omega
        simp only [assert, hlt, if_true, bind_ok, pure_eq]
        refine ⟨[], x :: suf, ptrBytes o, dd + 1, dict.commit (dd + 1), rfl, by simp [encLabels, ptrBytes], ?_, by omega,
          Or.inr ⟨o, cls', ePos, Po, Eo, dd, rfl, rfl, h8, h1, h2, h3, h4, h5, h6, h7, h9⟩⟩
        have := hd.commit (dd + 1) (by unfold DEPTH_PENDING; omega)
        simpa using this

end Dns

namespace Dns
open Res

theorem rawLenAfter_plain (suf : List (List UInt8)) :
    ∀ (pre : List (List UInt8)) (fuel acc : Nat), (∀ l ∈ pre ++ suf, okLabel l) → fuel > suf.length →
      rawNameLenAfterLoop (encLabels (pre ++ suf) ++ [0]) fuel (labSum pre) acc = .ok (acc + labSum suf + 1) := by
  induction suf with
  | nil =>
    intro pre fuel acc hok hf
    cases fuel with
    | zero => omega
    | succ n =>
      unfold rawNameLenAfterLoop
      have hnp : isPtr 0 = false := by decide
      simp only [nm_idx_nil, bind_ok, hnp, Bool.false_eq_true, if_false, beq_self_eq_true, if_true, pure_eq]
      simp [labSum]
  | cons x suf ih =>
    intro pre fuel acc hok hf
    cases fuel with
    | zero => omega
    | succ n =>
      have hx : okLabel x := hok x (by simp)
      unfold rawNameLenAfterLoop
      have hnp : isPtr x.length = false := isPtr_false_of_le hx.2
      have hnz : (x.length == 0) = false := by rw [beq_eq_false_iff_ne]; unfold okLabel at hx; omega
      simp only [nm_idx_cons pre x suf hx, bind_ok, hnp, Bool.false_eq_true, if_false, hnz]
      have e1 : pre ++ x :: suf = (pre ++ [x]) ++ suf := by simp
      have e2 : labSum pre + 1 + x.length = labSum (pre ++ [x]) := by
        rw [labSum_append, labSum_cons]; simp [labSum]; omega
      rw [e2, e1, ih (pre ++ [x]) n _ (by rw [← e1]; exact hok) (by simp at hf; omega), labSum_cons]
      congr 1; omega

theorem rawLenAfter_enc (ls : List (List UInt8)) (hok : ∀ l ∈ ls, okLabel l) (hw : wireLen ls ≤ 255) :
    rawNameLenAfterDecompression (encLabels ls ++ [0]) 0 = .ok (encLabels ls ++ [0]).length := by
  unfold rawNameLenAfterDecompression
  have hlen := length_lt_wireLen ls
  have := rawLenAfter_plain ls [] nameFuel 0 (by simpa using hok) (by
    have : nameFuel = 273 := rfl
    omega)
  simp only [List.nil_append, labSum, List.map_nil, List.sum_nil] at this
  rw [this, encLen_eq]
  simp [labSum]

theorem enc_take_drop (ls : List (List UInt8)) (j : Nat) :
    encLabels (ls.take j) ++ encLabels (ls.drop j) = encLabels ls := by
  rw [← encLabels_append, List.take_append_drop]

theorem enc_first_byte {x : List UInt8} {l : List (List UInt8)} (A B : Bytes) (hx : okLabel x) :
    byteAt (A ++ encLabels (x :: l) ++ B) A.length ≠ some 0 := by
  rw [List.append_assoc, byteAt_append_right0]
  simp only [encLabels, List.cons_append, byteAt_cons_zero]
  unfold okLabel at hx
  simp; omega

/-- **one name**: the compressor writes at most as many bytes as the name has; what it writes
decodes, in any extension of the output, to the same labels up to case; the dictionary stays sound -/
theorem compress_name (out0 : Bytes) (ls : List (List UInt8)) (hok : ∀ l ∈ ls, okLabel l) (hw : wireLen ls ≤ 255)
    (hg : ∀ l ∈ ls, goodChars l = true) (dict : SuffixDict) (hinv : DictInv dict out0) :
    ∃ (dict' : SuffixDict) (emitted : Bytes) (ls' : List (List UInt8)),
      copyCompressedNameWithBaseOffset dict out0 (encLabels ls ++ [0]) 0 out0.length =
        .ok (dict', out0 ++ emitted, emitted.length, (encLabels ls ++ [0]).length) ∧
      emitted.length ≤ (encLabels ls ++ [0]).length ∧ 0 < emitted.length ∧ lsCi ls' ls ∧
      (∀ t : Bytes, ValidName (out0 ++ emitted ++ t) out0.length ls' (out0.length + emitted.length)) ∧
      DictInv dict' (out0 ++ emitted) := by
  have hlsum : labSum ls < 16384 := by rw [wireLen_eq] at hw; omega
  have hlen := length_lt_wireLen ls
  obtain ⟨mid, rest, tail, d, dict', hs, hrun, hds, hd16, hend⟩ := loop_trace out0 ls [] dict out0 nameFuel
    (by simpa using hok) (by simpa using hlsum) (by have : nameFuel = 273 := rfl; omega) (by simpa using hinv.start ls)
  simp only [List.nil_append, List.length_nil, Nat.zero_add, labSum, List.map_nil, List.sum_nil] at hrun hds
  have hokm : ∀ l ∈ mid, okLabel l := fun l hl => hok l (by rw [hs]; simp [hl])
  -- the entries stored for this name, once the name is complete
  have hrunres : copyCompressedNameWithBaseOffset dict out0 (encLabels ls ++ [0]) 0 out0.length =
      .ok (dict', out0 ++ (encLabels mid ++ tail), (encLabels mid ++ tail).length, (encLabels ls ++ [0]).length) := by
    unfold copyCompressedNameWithBaseOffset
    rw [rawLenAfter_enc ls hok hw]
    simp only [bind_ok, Nat.zero_add, hrun, pure_eq]
    simp [List.append_assoc]
  obtain ⟨ds1, ds2, ds3, ds4, ds5⟩ := hds
  rcases hend with ⟨hrest, htail, hd0⟩ | ⟨o, cls', ePos, Po, Eo, dd, htail, hdd, hdlt, hci, hent, hPo, hEo, ho, holt, hnz, hrl⟩
  · -- the name ends with the root byte
    subst hrest; subst htail; subst hd0
    simp only [List.append_nil] at hs
    subst hs
    refine ⟨dict', encLabels ls ++ [0], ls, hrunres, Nat.le_refl _, by simp, lsCi.refl _, ?_, ds1, ds2, ds3, ds4, ?_⟩
    · intro t
      have := validName_at (u := out0 ++ (encLabels ls ++ [0]) ++ t) (A := out0) (B := t) rfl hok hw hg
      rw [encLen_eq]
      simpa [Nat.add_assoc] using this
    · intro i e hi he
      rcases ds5 i e hi he with ⟨hn, hokE⟩ | ⟨j, hj, hj2, hoff, hsuf, hlt, hdep⟩
      · exact ⟨hn, by simpa [List.append_assoc] using hokE.append (encLabels ls ++ [0])⟩
      · simp only [Option.getD_some] at hdep
        refine ⟨by rw [hdep]; decide, ls.drop j, ls.drop j, out0.length + labSum (ls.take j) + labSum (ls.drop j) + 1,
          e.offset, (out0 ++ (encLabels ls ++ [0])).length, hsuf, fun l hl => hok l (List.mem_of_mem_drop hl), lsCi.refl _,
          ?_, Nat.le_refl _, Nat.le_refl _, hlt, ?_, ?_⟩
        · have hl := Labels.of_encLabels (out0 ++ encLabels (ls.take j)) (ls.drop j) [0]
            (out0 ++ (encLabels ls ++ [0])).length (fun l hl => hok l (List.mem_of_mem_drop hl)) (by
              simp only [List.length_append, encLabels_length, List.length_cons, List.length_nil]
              have := labSum_append (ls.take j) (ls.drop j)
              rw [List.take_append_drop] at this
              omega)
          have eo : out0 ++ encLabels (ls.take j) ++ encLabels (ls.drop j) ++ [0] = out0 ++ (encLabels ls ++ [0]) := by
            rw [List.append_assoc out0, enc_take_drop]; simp
          have el : (out0 ++ encLabels (ls.take j)).length = out0.length + labSum (ls.take j) := by
            simp [encLabels_length]
          rw [eo, el] at hl
          rw [hoff, hdep]
          refine NameAt.root hl ?_ ?_
          · simp only [List.length_append, encLabels_length, List.length_cons, List.length_nil]
            have := labSum_append (ls.take j) (ls.drop j)
            rw [List.take_append_drop] at this
            omega
          · have e2 : out0 ++ (encLabels ls ++ [0]) = (out0 ++ encLabels (ls.take j) ++ encLabels (ls.drop j)) ++ [0] := by
              rw [← eo]
            have e3 : (out0 ++ encLabels (ls.take j) ++ encLabels (ls.drop j)).length =
                out0.length + labSum (ls.take j) + labSum (ls.drop j) := by simp [encLabels_length]; omega
            rw [e2, ← e3, byteAt_append_right0]; rfl
        · rw [hoff]
          simp only [List.length_append, encLabels_length, List.length_cons, List.length_nil]
          have := labSum_append (ls.take j) (ls.drop j)
          rw [List.take_append_drop] at this
          omega
        · rw [hoff]
          have hd : ls.drop j = ls[j] :: ls.drop (j + 1) := List.drop_eq_getElem_cons hj2
          have eo : out0 ++ (encLabels ls ++ [0]) = (out0 ++ encLabels (ls.take j)) ++ encLabels (ls[j] :: ls.drop (j + 1)) ++ [0] := by
            rw [← hd, List.append_assoc out0, enc_take_drop]; simp
          have el : (out0 ++ encLabels (ls.take j)).length = out0.length + labSum (ls.take j) := by
            simp [encLabels_length]
          rw [eo, ← el]
          exact enc_first_byte _ _ (hok _ (List.getElem_mem hj2))
  · -- the name ends with a pointer
    subst htail; subst hdd
    have hptr : ptrBytes o = [UInt8.ofNat (0xc0 + o / 256), UInt8.ofNat (o % 256)] := ptrBytes_eq o ho
    have hci' : lsCi (mid ++ cls') ls := by rw [hs]; exact (lsCi.refl mid).append hci
    have hsum : labSum ls = labSum mid + labSum rest := by rw [hs, labSum_append]
    refine ⟨dict', encLabels mid ++ ptrBytes o, mid ++ cls', hrunres, ?_, by simp [ptrBytes], hci', ?_, ds1, ds2, ds3, ds4, ?_⟩
    · simp only [List.length_append, encLabels_length, ptrBytes, List.length_cons, List.length_nil]
      omega
    · intro t
      have hem := NameAt.emit_ptr out0 mid cls' o Po Eo dd ePos hent hPo hEo ho hnz holt hokm
      simp only at hem
      rw [← hptr] at hem
      have hap := hem.append (q := t) (by simp)
      have hmono := hap.mono (bar' := (out0 ++ encLabels mid ++ ptrBytes o ++ t).length) (low' := out0.length) (refs' := 16)
        (by simp) (Nat.le_refl _) (by omega)
      have eo : out0 ++ (encLabels mid ++ ptrBytes o) ++ t = out0 ++ encLabels mid ++ ptrBytes o ++ t := by simp
      rw [eo]
      have el : out0.length + (encLabels mid ++ ptrBytes o).length = out0.length + labSum mid + 2 := by
        simp [encLabels_length, ptrBytes]; omega
      rw [el]
      refine ⟨by simp [ptrBytes]; omega, hmono, ?_, hci'.symm.goodChars hg⟩
      rw [hci'.wireLen]; exact hw
    · intro i e hi he
      rcases ds5 i e hi he with ⟨hn, hokE⟩ | ⟨j, hj, hj2, hoff, hsuf, hlt, hdep⟩
      · exact ⟨hn, by simpa [List.append_assoc] using hokE.append (encLabels mid ++ ptrBytes o)⟩
      · simp only [Option.getD_some] at hdep
        have hjm : j < mid.length := hj
        have htake : ls.take j = mid.take j := by rw [hs, List.take_append_of_le_length (by omega)]
        have hdrop : ls.drop j = mid.drop j ++ rest := by rw [hs, List.drop_append_of_le_length (by omega)]
        have hokd : ∀ l ∈ mid.drop j, okLabel l := fun l hl => hokm l (List.mem_of_mem_drop hl)
        have hentj : NameAt (out0 ++ encLabels (mid.take j)) Eo Po o dd cls' ePos := hent.append (by omega)
        have hem := NameAt.emit_ptr (out0 ++ encLabels (mid.take j)) (mid.drop j) cls' o Po Eo dd ePos hentj hPo
          (by simp; omega) ho (byteAt_ne_append_left holt hnz) (by simp; omega) hokd
        simp only at hem
        rw [← hptr] at hem
        have eo : out0 ++ encLabels (mid.take j) ++ encLabels (mid.drop j) ++ ptrBytes o = out0 ++ (encLabels mid ++ ptrBytes o) := by
          rw [List.append_assoc out0, enc_take_drop]; simp
        have el : (out0 ++ encLabels (mid.take j)).length = out0.length + labSum (ls.take j) := by
          simp [encLabels_length, htake]
        rw [eo, el] at hem
        refine ⟨by rw [hdep]; unfold DEPTH_PENDING; omega, ls.drop j, mid.drop j ++ cls', _, _, _, hsuf,
          fun l hl => hok l (List.mem_of_mem_drop hl), by rw [hdrop]; exact (lsCi.refl _).append hci,
          by rw [hoff, hdep]; exact hem, by rw [hoff]; exact Nat.le_refl _, Nat.le_refl _, hlt, ?_, ?_⟩
        · rw [hoff]
          simp only [List.length_append, encLabels_length]
          have := labSum_append (mid.take j) (mid.drop j)
          rw [List.take_append_drop] at this
          rw [htake]; simp [ptrBytes]; omega
        · rw [hoff]
          have hd : mid.drop j = mid[j] :: mid.drop (j + 1) := List.drop_eq_getElem_cons hjm
          have eo2 : out0 ++ (encLabels mid ++ ptrBytes o) =
              (out0 ++ encLabels (mid.take j)) ++ encLabels (mid[j] :: mid.drop (j + 1)) ++ ptrBytes o := by
            rw [← hd, ← eo]
          rw [eo2, ← el]
          exact enc_first_byte _ _ (hokm _ (List.getElem_mem hjm))

end Dns
