/-
  Lemmas.ParseSpec — the validator accepts exactly what Spec/Wire.lean calls well-formed:
  options ↔ OptionsTile, parse_rr ↔ RRAt, section loops ↔ RRs, parse ↔ WF.
-/
import DnsModel.Lemmas.PlainName
import DnsModel.Lemmas.SectorTotal
import DnsModel.Lemmas.Bits
namespace Dns
open Res Sector

theorem get16_of_idx {p : Bytes} {i a b : Nat} (ha : idx p i = .ok a) (hb : idx p (i + 1) = .ok b) :
    get16 p i = a * 256 + b := by
  simp [get16, getB, idx_ok_iff.1 ha, idx_ok_iff.1 hb]

/-- `edns_skip_rr` inside an OPT whose data ends at `e` -/
theorem ednsSkipRr_eq {p : Bytes} {s : Sector} {e : Nat} (he : s.ednsEnd = some e)
    (h1 : s.offset ≤ e) (h2 : e ≤ p.length) :
    ednsSkipRr p s =
      if e - s.offset < 4 then .err .packetTooSmall
      else if e - s.offset < 4 + get16 p (s.offset + 2) then .err .packetTooSmall
      else .ok { s with offset := s.offset + (4 + get16 p (s.offset + 2)) } := by
  unfold ednsSkipRr ednsRrRdlen ednsBe16Load ednsIncrementOffset ednsEnsureRemainingLen ednsRemainingLen
  simp only [he, sub, h1, if_true, bind_ok, failIf]
  consts
  by_cases c1 : e - s.offset < 4
  · simp [c1]
  · have c1' : ¬ (e - s.offset < 2 + 2) := by omega
    simp only [c1, c1', decide_false, if_false, bind_ok, Bool.false_eq_true]
    obtain ⟨a, ha, _⟩ := idx_ok_of_lt (p := p) (i := s.offset + 2) (by omega)
    obtain ⟨b, hb, _⟩ := idx_ok_of_lt (p := p) (i := s.offset + 2 + 1) (by omega)
    have hg := get16_of_idx ha hb
    simp only [ha, hb, bind_ok, pure_eq, hg]
    by_cases c2 : e - s.offset < 4 + (a * 256 + b)
    · simp [c2]
    · simp [c2]

theorem optLoop_sound (p : Bytes) (fuel : Nat) (s s' : Sector) (e : Nat) (he : s.ednsEnd = some e)
    (h1 : s.offset ≤ e) (h2 : e ≤ p.length) (h : optLoop p fuel s = .ok s') :
    ∃ n, OptionsTile p s.offset e n ∧ s'.ednsCount = s.ednsCount + n := by
  induction fuel generalizing s with
  | zero => simp [optLoop] at h
  | succ k ih =>
    unfold optLoop at h
    simp only [ednsRemainingLen, he, sub, h1, if_true, bind_ok] at h
    split at h
    · rename_i hpos
      rw [ednsSkipRr_eq he h1 h2] at h
      split at h
      · simp at h
      · split at h
        · simp at h
        · rename_i c1 c2
          simp only [bind_ok] at h
          obtain ⟨n, ht, hc⟩ := ih _ (by simpa using he) (by simp; omega) h
          simp at ht hc
          refine ⟨n + 1, OptionsTile.opt (by omega) (by simpa [Nat.add_assoc] using ht), by omega⟩
    · rename_i hz
      simp at h; subst h
      have : s.offset = e := by omega
      rw [this]
      exact ⟨0, OptionsTile.done e, by simp⟩

theorem optLoop_complete {p : Bytes} {a e n : Nat} (ht : OptionsTile p a e n) :
    ∀ (fuel : Nat) (s : Sector), s.offset = a → s.ednsEnd = some e → e ≤ p.length → (e - a) / 4 + 1 ≤ fuel →
      ∃ s', optLoop p fuel s = .ok s' ∧ s'.offset = e ∧ s'.ednsEnd = some e := by
  induction ht with
  | done a =>
    intro fuel s ho he h2 hf
    cases fuel with
    | zero => omega
    | succ k =>
      unfold optLoop
      have : s.offset ≤ a := by omega
      simp only [ednsRemainingLen, he, sub, this, if_true, bind_ok]
      have : ¬ (a - s.offset > 0) := by omega
      simp only [this, if_false]
      exact ⟨s, rfl, ho, he⟩
  | @opt a b n hfit _ ih =>
    intro fuel s ho he h2 hf
    cases fuel with
    | zero => omega
    | succ k =>
      unfold optLoop
      have h1 : s.offset ≤ b := by omega
      simp only [ednsRemainingLen, he, sub, h1, if_true, bind_ok]
      have hpos : b - s.offset > 0 := by omega
      simp only [hpos, if_true]
      rw [ednsSkipRr_eq he h1 h2]
      have c1 : ¬ (b - s.offset < 4) := by omega
      have c2 : ¬ (b - s.offset < 4 + get16 p (s.offset + 2)) := by rw [ho]; omega
      simp only [c1, c2, if_false, bind_ok]
      apply ih
      · simp [ho]; omega
      · simpa using he
      · exact h2
      · have : 4 + get16 p (a + 2) ≥ 4 := by omega
        omega

/-- the state `parse_opt` hands to the option loop -/
def optState (p : Bytes) (s : Sector) : Sector :=
  { offset := s.offset + 10, ednsStart := some (s.offset + 10),
    ednsEnd := some (s.offset + 10 + get16 p (s.offset + 8)), ednsCount := 0,
    extRcode := some (getB p (s.offset + 4)), ednsVersion := some (getB p (s.offset + 5)),
    extFlags := some (get16 p (s.offset + 6)), maxPayload := get16 p (s.offset + 2) }

/-- `parse_opt` once the ten header bytes are known to be present -/
theorem parseOpt_eq {p : Bytes} {s : Sector} (h10 : s.offset + 10 ≤ p.length) :
    parseOpt p s =
      if s.ednsEnd.isSome then .err .invalidPacket
      else if p.length - (s.offset + 10) < get16 p (s.offset + 8) then .err .packetTooSmall
      else optLoop p (get16 p (s.offset + 8) / 4 + 2) (optState p s) := by
  have h : s.offset ≤ p.length := by omega
  unfold parseOpt
  simp only [u8Load_eq h, be16Load_eq h, incrementOffset_eq h, failIf]
  consts
  have c1 : ¬ (p.length - s.offset < 4 + 1) := by omega
  have c2 : ¬ (p.length - s.offset < 5 + 1) := by omega
  have c3 : ¬ (p.length - s.offset < 2 + 2) := by omega
  have c4 : ¬ (p.length - s.offset < 6 + 2) := by omega
  have c5 : ¬ (p.length - s.offset < 8 + 2) := by omega
  have c6 : ¬ (p.length - s.offset < 10) := by omega
  by_cases hs : s.ednsEnd.isSome = true
  · simp [hs]
  · simp only [hs, c1, c2, c3, c4, c5, c6, if_false, bind_ok, Bool.false_eq_true]
    rw [ensureRemainingLen_eq (by simpa using h10)]
    simp only [optState]
    split <;> simp_all

theorem parseOpt_sound {p : Bytes} {s s' : Sector} (h10 : s.offset + 10 ≤ p.length) (h : parseOpt p s = .ok s') :
    s.ednsEnd.isSome = false ∧ s.offset + 10 + get16 p (s.offset + 8) ≤ p.length ∧
      s'.offset = s.offset + 10 + get16 p (s.offset + 8) ∧ s'.ednsEnd.isSome = true ∧
      ∃ n, OptionsTile p (s.offset + 10) (s.offset + 10 + get16 p (s.offset + 8)) n := by
  rw [parseOpt_eq h10] at h
  split at h
  · simp at h
  · rename_i hs
    split at h
    · simp at h
    · rename_i hfit
      have hfit' : s.offset + 10 + get16 p (s.offset + 8) ≤ p.length := by omega
      have hspec := (optLoop_spec p _ (optState p s) (s.offset + 10 + get16 p (s.offset + 8)) rfl
        (by simp [optState]) hfit' (by simp [optState])).2 s' h
      obtain ⟨n, ht, _⟩ := optLoop_sound p _ (optState p s) s' _ rfl (by simp [optState]) hfit' h
      refine ⟨by simpa using hs, hfit', hspec.1, by simp [hspec.2], n, by simpa [optState] using ht⟩

theorem parseOpt_complete {p : Bytes} {s : Sector} {n : Nat} (h10 : s.offset + 10 ≤ p.length)
    (hs : s.ednsEnd.isSome = false) (hfit : s.offset + 10 + get16 p (s.offset + 8) ≤ p.length)
    (ht : OptionsTile p (s.offset + 10) (s.offset + 10 + get16 p (s.offset + 8)) n) :
    ∃ s', parseOpt p s = .ok s' ∧ s'.offset = s.offset + 10 + get16 p (s.offset + 8) ∧ s'.ednsEnd.isSome = true := by
  rw [parseOpt_eq h10]
  have c : ¬ (p.length - (s.offset + 10) < get16 p (s.offset + 8)) := by omega
  simp only [hs, c, if_false, Bool.false_eq_true]
  obtain ⟨s', h1, h2, h3⟩ := optLoop_complete ht (get16 p (s.offset + 8) / 4 + 2) (optState p s) rfl rfl hfit
    (by have : s.offset + 10 + get16 p (s.offset + 8) - (s.offset + 10) = get16 p (s.offset + 8) := by omega
        rw [this]; omega)
  exact ⟨s', h1, h2, by simp [h3]⟩

/-- rdata made of a name validated by `chk` at `pre` bytes into the data and filling it exactly -/
theorem nameRdata_ok_iff {p : Bytes} {s1 s' : Sector} (hs : s1.offset ≤ p.length) (c : Bool) (l pre : Nat)
    (chk : Bytes → Nat → Res Nat) (hgt : ∀ o e, chk p o = .ok e → o < e) (hle : ∀ o e, chk p o = .ok e → e ≤ p.length) :
    (do
      failIf c .packetTooSmall
      let (s, _) ← incrementOffset p s1 10
      let fin ← chk p (s.offset + pre)
      let d ← sub fin s.offset
      failIf (d != l) .invalidPacket
      let (s, _) ← incrementOffset p s l
      pure s) = .ok s' ↔
    (c = false ∧ s1.offset + 10 ≤ p.length ∧ chk p (s1.offset + 10 + pre) = .ok (s1.offset + 10 + l) ∧
      s' = { s1 with offset := s1.offset + 10 + l }) := by
  simp only [failIf, incrementOffset_eq hs]
  cases c with
  | true => simp
  | false =>
    simp only [Bool.false_eq_true, if_false, bind_ok, true_and]
    by_cases h10 : p.length - s1.offset < 10
    · simp only [h10, if_true, bind_err]
      constructor
      · intro h; simp at h
      · rintro ⟨h, _⟩; omega
    · simp only [h10, if_false, bind_ok]
      have h10' : s1.offset + 10 ≤ p.length := by omega
      cases hc : chk p (s1.offset + 10 + pre) with
      | ok fin =>
        have g1 := hgt _ _ hc
        have g2 := hle _ _ hc
        simp only [bind_ok]
        rw [sub_returns_of_le (by omega : s1.offset + 10 ≤ fin)]
        simp only [bind_ok]
        have hs2 : ({ s1 with offset := s1.offset + 10 } : Sector).offset ≤ p.length := h10'
        rw [incrementOffset_eq hs2]
        by_cases hd : fin - (s1.offset + 10) = l
        · have hfin : fin = s1.offset + 10 + l := by omega
          have c2 : ¬ (p.length - (s1.offset + 10) < l) := by omega
          simp [hd, c2, hfin, h10']
          constructor <;> intro h <;> exact h.symm
        · have : fin ≠ s1.offset + 10 + l := by omega
          simp [hd, this]
      | err e => simp
      | panic => simp
      | diverge => simp

theorem soaRdata_ok_iff {p : Bytes} {s1 s' : Sector} (hs : s1.offset ≤ p.length) (l : Nat) :
    (do
      failIf (decide (l ≤ 1 + 20)) .packetTooSmall
      let (s, _) ← incrementOffset p s1 10
      let fin1 ← checkCompressedName p s.offset
      let fin2 ← checkCompressedName p fin1
      let d ← sub fin2 s.offset
      let e ← sub l 20
      failIf (d != e) .invalidPacket
      let (s, _) ← incrementOffset p s l
      pure s) = .ok s' ↔
    (21 < l ∧ s1.offset + 10 + l ≤ p.length ∧
      (∃ e1, checkCompressedName p (s1.offset + 10) = .ok e1 ∧
        checkCompressedName p e1 = .ok (s1.offset + 10 + l - 20)) ∧
      s' = { s1 with offset := s1.offset + 10 + l }) := by
  simp only [failIf, incrementOffset_eq hs]
  by_cases hl : l ≤ 1 + 20
  · simp only [hl, decide_true, if_true, bind_err]
    constructor
    · intro h; simp at h
    · rintro ⟨h, _⟩; omega
  · simp only [hl, decide_false, Bool.false_eq_true, if_false, bind_ok]
    by_cases h10 : p.length - s1.offset < 10
    · simp only [h10, if_true, bind_err]
      constructor
      · intro h; simp at h
      · rintro ⟨_, h, _⟩; omega
    · simp only [h10, if_false, bind_ok]
      have h10' : s1.offset + 10 ≤ p.length := by omega
      cases hc1 : checkCompressedName p (s1.offset + 10) with
      | ok fin1 =>
        simp only [bind_ok]
        cases hc2 : checkCompressedName p fin1 with
        | ok fin2 =>
          have g1 := checkCompressedName_ok_gt hc1
          have g2 := checkCompressedName_ok_gt hc2
          have g3 := checkCompressedName_ok_le hc2
          simp only [bind_ok]
          rw [sub_returns_of_le (by omega : s1.offset + 10 ≤ fin2), sub_returns_of_le (by omega : 20 ≤ l)]
          simp only [bind_ok]
          have hs2 : ({ s1 with offset := s1.offset + 10 } : Sector).offset ≤ p.length := h10'
          rw [incrementOffset_eq hs2]
          by_cases hd : fin2 - (s1.offset + 10) = l - 20
          · have hfin : fin2 = s1.offset + 10 + l - 20 := by omega
            by_cases c2 : p.length - (s1.offset + 10) < l
            · simp only [hd, bne_self_eq_false, Bool.false_eq_true, if_false, bind_ok, c2, if_true, bind_err]
              constructor
              · intro h; simp at h
              · rintro ⟨_, h, _⟩; omega
            · simp only [hd, bne_self_eq_false, Bool.false_eq_true, if_false, bind_ok, c2, pure_eq]
              constructor
              · intro h
                simp at h
                exact ⟨by omega, by omega, ⟨fin1, rfl, by rw [hfin] at hc2; exact hc2⟩, h.symm⟩
              · rintro ⟨_, _, _, h⟩
                simp [h]
          · have hne : (fin2 - (s1.offset + 10) != l - 20) = true := by simp [hd]
            simp only [hne, if_true, bind_err]
            constructor
            · intro h; simp at h
            · rintro ⟨_, _, ⟨e1, he1, he2⟩, _⟩
              simp at he1; subst he1
              rw [hc2] at he2
              simp at he2
              omega
        | err e =>
          simp only [bind_err]
          constructor
          · intro h; simp at h
          · rintro ⟨_, _, ⟨e1, he1, he2⟩, _⟩
            simp at he1; subst he1; rw [hc2] at he2; simp at he2
        | panic =>
          simp only [bind_panic]
          constructor
          · intro h; simp at h
          · rintro ⟨_, _, ⟨e1, he1, he2⟩, _⟩
            simp at he1; subst he1; rw [hc2] at he2; simp at he2
        | diverge =>
          simp only [bind_diverge]
          constructor
          · intro h; simp at h
          · rintro ⟨_, _, ⟨e1, he1, he2⟩, _⟩
            simp at he1; subst he1; rw [hc2] at he2; simp at he2
      | err e => simp
      | panic => simp
      | diverge => simp

/-- the type-specific part of `parse_rr` (same term as in `Sector.parseRR`) -/
def rrBodyRes (p : Bytes) (s : Sector) (sec : Section) (rrStart rrType rrRdlen : Nat) : Res Sector :=
  if rrType == TYPE_OPT then do
    failIf (sec != .additional) .invalidPacket
    let d ← sub s.offset rrStart
    failIf (d != 1) .invalidPacket
    parseOpt p s
  else if rrType == TYPE_NS || rrType == TYPE_CNAME || rrType == TYPE_PTR then do
    failIf (rrRdlen == 0) .packetTooSmall
    let (s, _) ← incrementOffset p s DNS_RR_HEADER_SIZE
    let fin ← checkCompressedName p s.offset
    let d ← sub fin s.offset
    failIf (d != rrRdlen) .invalidPacket
    let (s, _) ← incrementOffset p s rrRdlen
    pure s
  else if rrType == TYPE_MX then do
    failIf (rrRdlen ≤ 2) .packetTooSmall
    let (s, _) ← incrementOffset p s DNS_RR_HEADER_SIZE
    let fin ← checkCompressedName p (s.offset + 2)
    let d ← sub fin s.offset
    failIf (d != rrRdlen) .invalidPacket
    let (s, _) ← incrementOffset p s rrRdlen
    pure s
  else if rrType == TYPE_SOA then do
    failIf (rrRdlen ≤ 1 + 20) .packetTooSmall
    let (s, _) ← incrementOffset p s DNS_RR_HEADER_SIZE
    let fin1 ← checkCompressedName p s.offset
    let fin2 ← checkCompressedName p fin1
    let d ← sub fin2 s.offset
    let e ← sub rrRdlen 20
    failIf (d != e) .invalidPacket
    let (s, _) ← incrementOffset p s rrRdlen
    pure s
  else if rrType == TYPE_DNAME then do
    failIf (rrRdlen == 0) .packetTooSmall
    let (s, _) ← incrementOffset p s DNS_RR_HEADER_SIZE
    let fin ← checkUncompressedName p s.offset
    let d ← sub fin s.offset
    failIf (d != rrRdlen) .invalidPacket
    let (s, _) ← incrementOffset p s rrRdlen
    pure s
  else if rrType == TYPE_A then do
    failIf (rrRdlen != 4) .invalidPacket
    let (s, _) ← incrementOffset p s (DNS_RR_HEADER_SIZE + rrRdlen)
    pure s
  else if rrType == TYPE_AAAA then do
    failIf (rrRdlen != 16) .invalidPacket
    let (s, _) ← incrementOffset p s (DNS_RR_HEADER_SIZE + rrRdlen)
    pure s
  else do
    let (s, _) ← incrementOffset p s (DNS_RR_HEADER_SIZE + rrRdlen)
    pure s

theorem parseRR_split (p : Bytes) (s : Sector) (sec : Section) :
    parseRR p s sec = (do
      let s1 ← skipName p s
      let t ← rrType p s1
      let l ← rrRdlen p s1
      rrBodyRes p s1 sec s.offset t l) := by
  unfold parseRR rrBodyRes
  rfl

/-- `parse_rr` once the owner name and the ten header bytes are known to be there -/
theorem parseRR_of_name {p : Bytes} {s : Sector} (sec : Section) {ne : Nat}
    (hn : checkCompressedName p s.offset = .ok ne) (h10 : ne + 10 ≤ p.length) :
    parseRR p s sec = rrBodyRes p { s with offset := ne } sec s.offset (get16 p ne) (get16 p (ne + 8)) := by
  rw [parseRR_split]
  have hne : ¬ (ne ≥ p.length) := by omega
  simp only [skipName, hn, bind_ok, setOffset, hne, if_false, rrType, rrRdlen, pure_eq]
  have h1 : ({ s with offset := ne } : Sector).offset ≤ p.length := by simp; omega
  rw [be16Load_eq h1, be16Load_eq h1]
  consts
  have c1 : ¬ (p.length - ne < 0 + 2) := by omega
  have c2 : ¬ (p.length - ne < 8 + 2) := by omega
  simp [c1, c2]

/-- `parse_rr` fails unless the owner name validates and ten bytes follow it -/
theorem parseRR_ok_name {p : Bytes} {s s' : Sector} {sec : Section} (h : parseRR p s sec = .ok s') :
    ∃ ne, checkCompressedName p s.offset = .ok ne ∧ ne + 10 ≤ p.length := by
  rw [parseRR_split] at h
  obtain ⟨s1, hsk, h2⟩ := bind_eq_ok.1 h
  obtain ⟨ne, hcc, hs1, hlt⟩ := skipName_ok hsk
  obtain ⟨t, _, h3⟩ := bind_eq_ok.1 h2
  obtain ⟨l, hl, _⟩ := bind_eq_ok.1 h3
  refine ⟨ne, hcc, ?_⟩
  have h1 : s1.offset ≤ p.length := by rw [hs1]; simp; omega
  unfold rrRdlen at hl
  rw [be16Load_eq h1] at hl
  consts
  split at hl
  · simp at hl
  · rename_i hc
    rw [hs1] at hc; simp at hc; omega

theorem nameEnds_iff (p : Bytes) (off e : Nat) : checkCompressedName p off = .ok e ↔ NameEnds p off e :=
  checkCompressedName_ok_iff p off e

theorem plainName_le {p : Bytes} {off e : Nat} (h : PlainName p off e) : e ≤ p.length := by
  obtain ⟨_, stop, _, hs, _, he, _⟩ := h
  omega

theorem inc_pure_ok_iff {p : Bytes} {s1 s' : Sector} (hs : s1.offset ≤ p.length) (n : Nat) :
    (do let (s, _) ← incrementOffset p s1 n; pure s) = .ok s' ↔
      (s1.offset + n ≤ p.length ∧ s' = { s1 with offset := s1.offset + n }) := by
  rw [incrementOffset_eq hs]
  by_cases c : p.length - s1.offset < n
  · simp only [c, if_true, bind_err]
    constructor
    · intro h; simp at h
    · rintro ⟨h, _⟩; omega
  · simp only [c, if_false, bind_ok, pure_eq]
    constructor
    · intro h; simp at h; exact ⟨by omega, h.symm⟩
    · rintro ⟨_, h⟩; simp [h]

/-- **soundness of `parse_rr`**: an accepted record is a record of the policy -/
theorem parseRR_sound {p : Bytes} {s s' : Sector} {sec : Section}
    (h : parseRR p s sec = .ok s') :
    RRAt p sec s.offset s.ednsEnd.isSome s'.offset s'.ednsEnd.isSome := by
  obtain ⟨ne, hn, h10⟩ := parseRR_ok_name h
  rw [parseRR_of_name sec hn h10] at h
  have hs1 : ({ s with offset := ne } : Sector).offset ≤ p.length := by simp; omega
  have hgt := checkCompressedName_ok_gt hn
  refine ⟨ne, (nameEnds_iff _ _ _).1 hn, h10, ?_⟩
  simp only
  unfold rrBodyRes at h
  consts
  split at h
  · -- OPT
    rename_i ht
    have ht' : get16 p ne = 41 := by simpa using ht
    simp only [failIf] at h
    split at h
    · simp at h
    rename_i hsec
    simp only [bind_ok, sub_returns_of_le (Nat.le_of_lt hgt)] at h
    split at h
    · simp at h
    rename_i hd
    simp only [bind_ok] at h
    obtain ⟨g1, g2, g3, g4, n, g5⟩ := parseOpt_sound (s := { s with offset := ne }) (by simpa using h10) h
    simp at g1 g2 g3 g5 hd hsec
    refine ⟨g3, by omega, ?_⟩
    simp only [ht', if_true]
    exact ⟨hsec, by omega, by simp [g1], g4, n, by rw [g3]; exact g5⟩
  all_goals rename_i hnopt
  all_goals have hnopt' : ¬ (get16 p ne = 41) := by simpa using hnopt
  all_goals simp only [hnopt', if_false]
  all_goals split at h
  · -- NS / CNAME / PTR
    rename_i ht
    have ht' : get16 p ne = 2 ∨ get16 p ne = 5 ∨ get16 p ne = 12 := by simpa [or_assoc] using ht
    obtain ⟨c, _, hc, e⟩ := (nameRdata_ok_iff hs1 _ _ 0 checkCompressedName
      (fun _ _ h => checkCompressedName_ok_gt h) (fun _ _ h => checkCompressedName_ok_le h)).1 h
    simp at c hc
    have hle := checkCompressedName_ok_le hc
    subst e
    refine ⟨rfl, hle, ?_, rfl⟩
    simp only [RDataOK, ht', if_true]
    exact ⟨c, (nameEnds_iff _ _ _).1 hc⟩
  all_goals rename_i hn1
  all_goals have hn1' : ¬ (get16 p ne = 2 ∨ get16 p ne = 5 ∨ get16 p ne = 12) := by simpa [or_assoc] using hn1
  all_goals split at h
  · -- MX
    rename_i ht
    have ht' : get16 p ne = 15 := by simpa using ht
    obtain ⟨c, _, hc, e⟩ := (nameRdata_ok_iff hs1 _ _ 2 checkCompressedName
      (fun _ _ h => by have := checkCompressedName_ok_gt h; omega) (fun _ _ h => checkCompressedName_ok_le h)).1 h
    simp at c hc
    have hle := checkCompressedName_ok_le hc
    subst e
    refine ⟨rfl, hle, ?_, rfl⟩
    simp only [RDataOK, hn1', ht', if_true, if_false]
    exact ⟨by omega, (nameEnds_iff _ _ _).1 hc⟩
  all_goals rename_i hn2
  all_goals have hn2' : ¬ (get16 p ne = 15) := by simpa using hn2
  all_goals split at h
  · -- SOA
    rename_i ht
    have ht' : get16 p ne = 6 := by simpa using ht
    obtain ⟨c, hfit, ⟨e1, he1, he2⟩, e⟩ := (soaRdata_ok_iff hs1 _).1 h
    simp at hfit he1 he2
    subst e
    refine ⟨rfl, hfit, ?_, rfl⟩
    simp only [RDataOK, hn1', hn2', ht', if_true, if_false]
    refine ⟨c, e1, _, (nameEnds_iff _ _ _).1 he1, (nameEnds_iff _ _ _).1 he2, by omega⟩
  all_goals rename_i hn3
  all_goals have hn3' : ¬ (get16 p ne = 6) := by simpa using hn3
  all_goals split at h
  · -- DNAME
    rename_i ht
    have ht' : get16 p ne = 39 := by simpa using ht
    obtain ⟨c, _, hc, e⟩ := (nameRdata_ok_iff hs1 _ _ 0 checkUncompressedName
      (fun _ _ h => checkUncompressedName_ok_gt h)
      (fun _ _ h => plainName_le ((checkUncompressedName_ok_iff _ _ _).1 h))).1 h
    simp at c hc
    have hpl := (checkUncompressedName_ok_iff _ _ _).1 hc
    subst e
    refine ⟨rfl, plainName_le hpl, ?_, rfl⟩
    simp only [RDataOK, hn1', hn2', hn3', ht', if_true, if_false]
    exact ⟨c, hpl⟩
  all_goals rename_i hn4
  all_goals have hn4' : ¬ (get16 p ne = 39) := by simpa using hn4
  all_goals split at h
  · -- A
    rename_i ht
    have ht' : get16 p ne = 1 := by simpa using ht
    simp only [failIf] at h
    split at h
    · simp at h
    rename_i hl
    simp only [bind_ok] at h
    obtain ⟨hfit, e⟩ := (inc_pure_ok_iff hs1 _).1 h
    simp at hl hfit
    subst e
    refine ⟨by simp; omega, by simp; omega, ?_, rfl⟩
    simp only [RDataOK, hn1', hn2', hn3', hn4', ht', if_true, if_false]
    exact hl
  all_goals rename_i hn5
  all_goals have hn5' : ¬ (get16 p ne = 1) := by simpa using hn5
  all_goals split at h
  · -- AAAA
    rename_i ht
    have ht' : get16 p ne = 28 := by simpa using ht
    simp only [failIf] at h
    split at h
    · simp at h
    rename_i hl
    simp only [bind_ok] at h
    obtain ⟨hfit, e⟩ := (inc_pure_ok_iff hs1 _).1 h
    simp at hl hfit
    subst e
    refine ⟨by simp; omega, by simp; omega, ?_, rfl⟩
    simp only [RDataOK, hn1', hn2', hn3', hn4', hn5', ht', if_true, if_false]
    exact hl
  · -- any other type
    rename_i hn6
    have hn6' : ¬ (get16 p ne = 28) := by simpa using hn6
    obtain ⟨hfit, e⟩ := (inc_pure_ok_iff hs1 _).1 h
    simp at hfit
    subst e
    refine ⟨by simp; omega, by simp; omega, ?_, rfl⟩
    simp [RDataOK, hn1', hn2', hn3', hn4', hn5', hn6']

/-- **completeness of `parse_rr`**: a record of the policy is accepted -/
theorem parseRR_complete {p : Bytes} {s : Sector} {sec : Section} {ob oa : Bool} {next : Nat}
    (hr : RRAt p sec s.offset ob next oa) (hob : s.ednsEnd.isSome = ob) :
    ∃ s', parseRR p s sec = .ok s' ∧ s'.offset = next ∧ s'.ednsEnd.isSome = oa := by
  obtain ⟨ne, hne, h10, hnext, hfit, hbody⟩ := hr
  have hn := (nameEnds_iff _ _ _).2 hne
  have hgt := checkCompressedName_ok_gt hn
  rw [parseRR_of_name sec hn h10]
  have hs1 : ({ s with offset := ne } : Sector).offset ≤ p.length := by simp; omega
  try simp only at hnext hfit hbody
  unfold rrBodyRes
  consts
  by_cases ht : get16 p ne = 41
  · simp only [ht, if_true] at hbody
    obtain ⟨hsec, hroot, hb, ha, n, htile⟩ := hbody
    have hb' : s.ednsEnd.isSome = false := by rw [hob]; exact hb
    obtain ⟨s', h1, h2, h3⟩ := parseOpt_complete (s := { s with offset := ne }) (n := n) (by simpa using h10)
      (by simpa using hb') (by simp; omega) (by simpa [hnext] using htile)
    refine ⟨s', ?_, by simp at h2; omega, by rw [h3, ha]⟩
    have c1 : (get16 p ne == 41) = true := by simp [ht]
    have c2 : (sec != Section.additional) = false := by simp [hsec]
    have c3 : (ne - s.offset != 1) = false := by simp; omega
    simp only [c1, if_true, failIf, c2, Bool.false_eq_true, if_false, bind_ok,
      sub_returns_of_le (Nat.le_of_lt hgt), c3]
    exact h1
  · simp only [ht, if_false] at hbody
    obtain ⟨hrd, hoa⟩ := hbody
    have c0 : (get16 p ne == 41) = false := by simp [ht]
    simp only [c0, Bool.false_eq_true, if_false]
    unfold RDataOK at hrd
    by_cases h1 : get16 p ne = 2 ∨ get16 p ne = 5 ∨ get16 p ne = 12
    · simp only [h1, if_true] at hrd
      have c1 : (get16 p ne == 2 || get16 p ne == 5 || get16 p ne == 12) = true := by
        rcases h1 with h | h | h <;> simp [h]
      simp only [c1, if_true]
      refine ⟨{ s with offset := ne + 10 + get16 p (ne + 8) }, ?_, by simp [hnext], by simp [hob, hoa]⟩
      apply (nameRdata_ok_iff hs1 _ _ 0 checkCompressedName
        (fun _ _ h => checkCompressedName_ok_gt h) (fun _ _ h => checkCompressedName_ok_le h)).2
      refine ⟨by simpa using hrd.1, by simpa using h10, by simpa using (nameEnds_iff _ _ _).2 hrd.2, rfl⟩
    · simp only [h1, if_false] at hrd
      have c1 : (get16 p ne == 2 || get16 p ne == 5 || get16 p ne == 12) = false := by
        simp only [not_or] at h1; simp [h1.1, h1.2.1, h1.2.2]
      simp only [c1, Bool.false_eq_true, if_false]
      by_cases h2 : get16 p ne = 15
      · simp only [h2, if_true] at hrd
        have c2 : (get16 p ne == 15) = true := by simp [h2]
        simp only [c2, if_true]
        refine ⟨{ s with offset := ne + 10 + get16 p (ne + 8) }, ?_, by simp [hnext], by simp [hob, hoa]⟩
        apply (nameRdata_ok_iff hs1 _ _ 2 checkCompressedName
          (fun _ _ h => by have := checkCompressedName_ok_gt h; omega) (fun _ _ h => checkCompressedName_ok_le h)).2
        refine ⟨by simp; omega, by simpa using h10, by simpa using (nameEnds_iff _ _ _).2 hrd.2, rfl⟩
      · simp only [h2, if_false] at hrd
        have c2 : (get16 p ne == 15) = false := by simp [h2]
        simp only [c2, Bool.false_eq_true, if_false]
        by_cases h3 : get16 p ne = 6
        · simp only [h3, if_true] at hrd
          obtain ⟨hl, e1, e2, hn1, hn2, he⟩ := hrd
          have c3 : (get16 p ne == 6) = true := by simp [h3]
          simp only [c3, if_true]
          refine ⟨{ s with offset := ne + 10 + get16 p (ne + 8) }, ?_, by simp [hnext], by simp [hob, hoa]⟩
          apply (soaRdata_ok_iff hs1 _).2
          refine ⟨hl, by simp; omega, ⟨e1, by simpa using (nameEnds_iff _ _ _).2 hn1, ?_⟩, rfl⟩
          have : ne + 10 + get16 p (ne + 8) - 20 = e2 := by omega
          simp only [this]
          exact (nameEnds_iff _ _ _).2 hn2
        · simp only [h3, if_false] at hrd
          have c3 : (get16 p ne == 6) = false := by simp [h3]
          simp only [c3, Bool.false_eq_true, if_false]
          by_cases h4 : get16 p ne = 39
          · simp only [h4, if_true] at hrd
            have c4 : (get16 p ne == 39) = true := by simp [h4]
            simp only [c4, if_true]
            refine ⟨{ s with offset := ne + 10 + get16 p (ne + 8) }, ?_, by simp [hnext], by simp [hob, hoa]⟩
            apply (nameRdata_ok_iff hs1 _ _ 0 checkUncompressedName
              (fun _ _ h => checkUncompressedName_ok_gt h)
              (fun _ _ h => plainName_le ((checkUncompressedName_ok_iff _ _ _).1 h))).2
            refine ⟨by simpa using hrd.1, by simpa using h10, by simpa using (checkUncompressedName_ok_iff _ _ _).2 hrd.2, rfl⟩
          · simp only [h4, if_false] at hrd
            have c4 : (get16 p ne == 39) = false := by simp [h4]
            simp only [c4, Bool.false_eq_true, if_false]
            by_cases h5 : get16 p ne = 1
            · simp only [h5, if_true] at hrd
              have c5 : (get16 p ne == 1) = true := by simp [h5]
              have c6 : (get16 p (ne + 8) != 4) = false := by simp [hrd]
              simp only [c5, if_true, failIf, c6, Bool.false_eq_true, if_false, bind_ok]
              refine ⟨{ s with offset := ne + (10 + get16 p (ne + 8)) }, ?_, by simp [hnext]; omega, by simp [hob, hoa]⟩
              exact (inc_pure_ok_iff hs1 _).2 ⟨by simp; omega, rfl⟩
            · simp only [h5, if_false] at hrd
              have c5 : (get16 p ne == 1) = false := by simp [h5]
              simp only [c5, Bool.false_eq_true, if_false]
              by_cases h6 : get16 p ne = 28
              · simp only [h6, if_true] at hrd
                have c6 : (get16 p ne == 28) = true := by simp [h6]
                have c7 : (get16 p (ne + 8) != 16) = false := by simp [hrd]
                simp only [c6, if_true, failIf, c7, Bool.false_eq_true, if_false, bind_ok]
                refine ⟨{ s with offset := ne + (10 + get16 p (ne + 8)) }, ?_, by simp [hnext]; omega, by simp [hob, hoa]⟩
                exact (inc_pure_ok_iff hs1 _).2 ⟨by simp; omega, rfl⟩
              · have c6 : (get16 p ne == 28) = false := by simp [h6]
                simp only [c6, Bool.false_eq_true, if_false]
                refine ⟨{ s with offset := ne + (10 + get16 p (ne + 8)) }, ?_, by simp [hnext]; omega, by simp [hob, hoa]⟩
                exact (inc_pure_ok_iff hs1 _).2 ⟨by simp; omega, rfl⟩

theorem parseRRs_sound {p : Bytes} {sec : Section} (n : Nat) {s s' : Sector}
    (h : parseRRs p sec n s = .ok s') :
    RRs p sec n s.offset s.ednsEnd.isSome s'.offset s'.ednsEnd.isSome := by
  induction n generalizing s with
  | zero => simp [parseRRs] at h; subst h; exact RRs.nil _ _
  | succ k ih =>
    unfold parseRRs at h
    obtain ⟨s1, h1, h2⟩ := bind_eq_ok.1 h
    exact RRs.cons (parseRR_sound h1) (ih h2)

theorem parseRRs_complete {p : Bytes} {sec : Section} {n off e : Nat} {ob oe : Bool}
    (hr : RRs p sec n off ob e oe) :
    ∀ s : Sector, s.offset = off → s.ednsEnd.isSome = ob →
      ∃ s', parseRRs p sec n s = .ok s' ∧ s'.offset = e ∧ s'.ednsEnd.isSome = oe := by
  induction hr with
  | nil off o => intro s ho hb; exact ⟨s, rfl, ho, hb⟩
  | cons hrr _ ih =>
    intro s ho hb
    obtain ⟨s1, h1, h2, h3⟩ := parseRR_complete (s := s) (by rw [ho]; exact hrr) hb
    obtain ⟨s', g1, g2, g3⟩ := ih s1 h2 h3
    exact ⟨s', by unfold parseRRs; simp [h1, g1], g2, g3⟩

/-- the question: a valid name, four more bytes, class IN -/
theorem parseQuestion_ok_iff {p : Bytes} {s s' : Sector} :
    parseQuestion p s = .ok s' ↔
      ∃ qe, checkCompressedName p s.offset = .ok qe ∧ qe + 4 ≤ p.length ∧ get16 p (qe + 2) = 1 ∧
        s' = { s with offset := qe + 4 } := by
  unfold parseQuestion skipName ensureInClass rrClass
  cases hc : checkCompressedName p s.offset with
  | ok qe =>
    simp only [bind_ok, setOffset]
    by_cases hq : qe ≥ p.length
    · simp only [hq, if_true, bind_err]
      constructor
      · intro h; simp at h
      · rintro ⟨qe', h1, h2, _⟩; simp at h1; omega
    · simp only [hq, if_false, bind_ok, pure_eq]
      have h1 : ({ s with offset := qe } : Sector).offset ≤ p.length := by simp; omega
      rw [be16Load_eq h1, incrementOffset_eq h1]
      consts
      simp only [failIf]
      by_cases h4 : p.length - qe < 2 + 2
      · simp only [h4, if_true, bind_err]
        constructor
        · intro h; simp at h
        · rintro ⟨qe', h1, h2, _⟩; simp at h1; omega
      · have h4' : ¬ (p.length - qe < 4) := by omega
        simp only [h4, h4', if_false, bind_ok]
        by_cases hcl : get16 p (qe + 2) = 1
        · simp [hcl]
          constructor
          · intro h; exact ⟨by omega, h.symm⟩
          · rintro ⟨_, h⟩; exact h.symm
        · have : (get16 p (qe + 2) != 1) = true := by simp [hcl]
          simp only [this, if_true, bind_err]
          constructor
          · intro h; simp at h
          · rintro ⟨qe', h1, _, h3, _⟩; simp at h1; subst h1; exact absurd h3 hcl
  | err e => simp
  | panic => simp
  | diverge => simp

theorem isResponse_iff (f : Nat) : (f &&& DNS_FLAG_QR == DNS_FLAG_QR) = decide (f / 32768 % 2 = 1) := by
  have : DNS_FLAG_QR = 2 ^ 15 := rfl
  rw [this, and_two_pow_beq, Nat.testBit_eq_decide_div_mod_eq]

/-- **C02 (hub lemma H1).** `parse` accepts a byte string exactly when it is well-formed under the policy. -/
theorem parse_ok_iff_wf (p : Bytes) : (∃ v, parse p = .ok v) ↔ WF p := by
  unfold parse WF
  simp only [failIf]
  consts
  by_cases hlen : p.length < 12
  · simp only [hlen, decide_true, if_true, bind_err]
    constructor
    · rintro ⟨v, h⟩; simp at h
    · rintro ⟨h, _⟩; omega
  · simp only [hlen, decide_false, Bool.false_eq_true, if_false, bind_ok]
    have hl : 12 ≤ p.length := by omega
    rw [(be16_ok_of_le (p := p) (i := 2) (by omega)).1, (be16_ok_of_le (p := p) (i := 4) (by omega)).1]
    simp only [bind_ok]
    by_cases hq0 : get16 p 4 = 0
    · simp only [hq0, beq_self_eq_true, if_true, bind_err]
      constructor
      · rintro ⟨v, h⟩; simp at h
      · rintro ⟨_, h, _⟩; omega
    · have c0 : (get16 p 4 == 0) = false := by simp [hq0]
      simp only [c0, Bool.false_eq_true, if_false, bind_ok]
      by_cases hq1 : get16 p 4 > 1
      · simp only [hq1, decide_true, if_true, bind_err]
        constructor
        · rintro ⟨v, h⟩; simp at h
        · rintro ⟨_, h, _⟩; omega
      · have hqd : get16 p 4 = 1 := by omega
        simp only [hq1, decide_false, Bool.false_eq_true, if_false, bind_ok, Sector.setOffset, Sector.new]
        by_cases h12 : 12 ≥ p.length
        · simp only [h12, if_true, bind_err]
          constructor
          · rintro ⟨v, h⟩; simp at h
          · rintro ⟨_, _, qe, hne, hq4, _⟩
            have := checkCompressedName_ok_gt ((nameEnds_iff _ _ _).2 hne)
            omega
        · simp only [h12, if_false, bind_ok]
          rw [(be16_ok_of_le (p := p) (i := 6) (by omega)).1, (be16_ok_of_le (p := p) (i := 8) (by omega)).1,
            (be16_ok_of_le (p := p) (i := 10) (by omega)).1]
          constructor
          · rintro ⟨v, h⟩
            obtain ⟨s2, hqs, h⟩ := bind_eq_ok.1 h
            obtain ⟨qe, hcc, hq4, hcl, es2⟩ := parseQuestion_ok_iff.1 hqs
            try simp only [bind_ok] at h
            split at h
            · simp at h
            rename_i hgate1
            try simp only [bind_ok] at h
            obtain ⟨s3, ha, h⟩ := bind_eq_ok.1 h
            try simp only [bind_ok] at h
            split at h
            · simp at h
            rename_i hgate2
            try simp only [bind_ok] at h
            obtain ⟨s4, hn, h⟩ := bind_eq_ok.1 h
            try simp only [bind_ok] at h
            obtain ⟨s5, hr, h⟩ := bind_eq_ok.1 h
            have ra := parseRRs_sound _ ha
            have rn := parseRRs_sound _ hn
            have rr := parseRRs_sound _ hr
            have h2 : s2.offset ≤ p.length := by rw [es2]; simp; omega
            have h3 := ((parseRRs_spec (p := p) .answer _ h2).2 s3 ha).2
            have h4 := ((parseRRs_spec (p := p) .nameServers _ h3).2 s4 hn).2
            have h5 := ((parseRRs_spec (p := p) .additional _ h4).2 s5 hr).2
            rw [remainingLen_eq h5] at h
            try simp only [bind_ok] at h
            split at h
            · simp at h
            rename_i hrem
            have hend : s5.offset = p.length := by simp at hrem; omega
            refine ⟨hl, hqd, qe, (nameEnds_iff _ _ _).1 (by simpa using hcc), hq4, hcl, ?_, ?_⟩
            · intro hqr
              have hnr : (get16 p 2 &&& DNS_FLAG_QR == DNS_FLAG_QR) = false := by
                rw [isResponse_iff]; simp; omega
              have hDNS : (get16 p 2 &&& 32768 == 32768) = false := hnr
              simp only [hDNS, Bool.not_false, Bool.true_and, decide_eq_true_eq] at hgate1 hgate2
              omega
            · refine ⟨s3.offset, s3.ednsEnd.isSome, s4.offset, s4.ednsEnd.isSome, s5.ednsEnd.isSome, ?_, rn, ?_⟩
              · have := ra; rw [es2] at this; simpa using this
              · rw [← hend]; exact rr
          · rintro ⟨_, _, qe, hne, hq4, hcl, hgate, e2, o2, e3, o3, o4, ra, rn, rr⟩
            have hcc := (nameEnds_iff _ _ _).2 hne
            have hqs : parseQuestion p { offset := 12 } = .ok { offset := qe + 4 } :=
              parseQuestion_ok_iff.2 ⟨qe, hcc, hq4, hcl, rfl⟩
            simp only [hqs, bind_ok]
            have g1 : (!(get16 p 2 &&& 32768 == 32768) && decide (get16 p 6 > 0)) = false := by
              have := isResponse_iff (get16 p 2)
              simp only [DNS_FLAG_QR] at this
              rw [this]
              by_cases hq : get16 p 2 / 32768 % 2 = 1
              · simp [hq]
              · have : get16 p 2 / 32768 % 2 = 0 := by omega
                simp [hq, (hgate this).1]
            have g2 : (!(get16 p 2 &&& 32768 == 32768) && decide (get16 p 8 > 0)) = false := by
              have := isResponse_iff (get16 p 2)
              simp only [DNS_FLAG_QR] at this
              rw [this]
              by_cases hq : get16 p 2 / 32768 % 2 = 1
              · simp [hq]
              · have : get16 p 2 / 32768 % 2 = 0 := by omega
                simp [hq, (hgate this).2]
            simp only [g1, g2, Bool.false_eq_true, if_false, bind_ok]
            obtain ⟨s3, ha, ha2, ha3⟩ := parseRRs_complete ra { offset := qe + 4 } rfl rfl
            obtain ⟨s4, hn, hn2, hn3⟩ := parseRRs_complete rn s3 ha2 ha3
            obtain ⟨s5, hr, hr2, hr3⟩ := parseRRs_complete rr s4 hn2 hn3
            simp only [ha, hn, hr, bind_ok]
            rw [remainingLen_eq (by omega)]
            have : ¬ (p.length - s5.offset > 0) := by omega
            simp [this]

end Dns
