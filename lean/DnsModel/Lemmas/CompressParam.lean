/-
  Lemmas.CompressParam — the compressor never reads the output it is appending to: what it appends
  and the dictionary it leaves depend only on the dictionary, the name and the output's length.
  Also: reading a pointer-free name out of a packet.
-/
import DnsModel.Lemmas.CompressName
namespace Dns
open Res

/-- prepend `out` to the bytes a run appended to the empty output -/
def prepend (out : Bytes) (r : SuffixDict × Bytes) : Res (SuffixDict × Bytes) := .ok (r.1, out ++ r.2)

theorem loop_param (p : Bytes) (fin base : Nat) :
    ∀ (fuel : Nat) (dict : SuffixDict) (out : Bytes) (offset : Nat),
      copyCompressedLoop p fin base fuel dict out offset =
        (copyCompressedLoop p fin base fuel dict [] offset >>= prepend out) := by
  intro fuel
  induction fuel with
  | zero => intro dict out offset; simp [copyCompressedLoop]
  | succ n ih =>
    intro dict out offset
    unfold copyCompressedLoop
    cases h1 : idx p offset with
    | ok b =>
      simp only [bind_ok]
      by_cases hp : isPtr b = true
      · simp [hp]
      · simp only [hp, Bool.false_eq_true, if_false]
        cases h2 : slice p offset fin with
        | ok suffix =>
          simp only [bind_ok]
          cases h3 : dict.insert suffix (base + offset) with
          | ok r =>
            obtain ⟨dict1, hit⟩ := r
            simp only [bind_ok]
            cases hit with
            | some o =>
              simp only
              by_cases ha : offset < 16384
              · simp [assert, ha, prepend]
              · simp [assert, ha]
            | none =>
              simp only
              cases h4 : slice p offset (offset + 1 + b) with
              | ok lab =>
                simp only [bind_ok, List.nil_append]
                by_cases hz : (b == 0) = true
                · simp [hz, prepend]
                · simp only [hz, Bool.false_eq_true, if_false]
                  rw [ih dict1 (out ++ lab), ih dict1 lab]
                  cases copyCompressedLoop p fin base n dict1 [] (offset + 1 + b) with
                  | ok r => simp [prepend, List.append_assoc]
                  | err e => simp
                  | panic => simp
                  | diverge => simp
              | err e => simp
              | panic => simp
              | diverge => simp
          | err e => simp
          | panic => simp
          | diverge => simp
        | err e => simp
        | panic => simp
        | diverge => simp
    | err e => simp
    | panic => simp
    | diverge => simp

/-- the result of compressing a name into `out` transfers to any other output of the same length -/
theorem copyName_param {dict dict' : SuffixDict} {out em nm : Bytes} {n f : Nat}
    (h : copyCompressedNameWithBaseOffset dict out nm 0 out.length = .ok (dict', out ++ em, n, f))
    (out2 : Bytes) (hl : out2.length = out.length) :
    copyCompressedNameWithBaseOffset dict out2 nm 0 out2.length = .ok (dict', out2 ++ em, n, f) := by
  unfold copyCompressedNameWithBaseOffset at h ⊢
  rw [hl]
  cases hr : rawNameLenAfterDecompression nm 0 with
  | ok l =>
    rw [hr] at h
    simp only [bind_ok] at h ⊢
    rw [loop_param] at h ⊢
    cases hloop : copyCompressedLoop nm (0 + l) out.length nameFuel dict [] 0 with
    | ok r =>
      rw [hloop] at h
      simp only [bind_ok, prepend, pure_eq, ok.injEq, Prod.mk.injEq] at h ⊢
      obtain ⟨h1, h2, h3, h4⟩ := h
      have : r.2 = em := List.append_cancel_left h2
      refine ⟨h1, by rw [this], ?_, h4⟩
      rw [← h3]; simp [hl]
    | err e => rw [hloop] at h; simp at h
    | panic => rw [hloop] at h; simp at h
    | diverge => rw [hloop] at h; simp at h
  | err e => rw [hr] at h; simp at h
  | panic => rw [hr] at h; simp at h
  | diverge => rw [hr] at h; simp at h

end Dns
