/-
  Lemmas.Question — the question accessors of `ParsedPacket` on an accepted packet, with the cache
  empty and with the cache filled.
-/
import DnsModel.Lemmas.Edns
namespace Dns
open Res

theorem byteAt_drop (p : Bytes) (k i : Nat) : byteAt (p.drop k) i = byteAt p (k + i) := by
  unfold byteAt
  simp [List.getElem?_drop]

/-- `raw_name_len` over a run of literal labels of the slice starting at `base` -/
theorem rawLen_labels {p : Bytes} {bar off stop : Nat} {ls : List (List UInt8)} (hl : Labels p bar off ls stop)
    (base : Nat) (hb : base ≤ off) :
    ∀ fuel, fuel ≥ ls.length →
      rawNameLenLoop (p.drop base) fuel (off - base) = rawNameLenLoop (p.drop base) (fuel - ls.length) (stop - base) := by
  induction hl with
  | nil off => intro fuel _; simp
  | @cons off len rest stop h1 h2 h3 h4 h5 hrest ih =>
    intro fuel hf
    simp only [List.length_cons] at hf
    cases fuel with
    | zero => omega
    | succ n =>
      conv => lhs; unfold rawNameLenLoop
      have hnz : (len == 0) = false := by simp; omega
      have hby : byteAt (p.drop base) (off - base) = some len := by
        rw [byteAt_drop]
        have : base + (off - base) = off := by omega
        rw [this]; exact h2
      simp only [idx_of_byteAt hby, bind_ok, isPtr_false_of_le h4, Bool.false_eq_true, if_false, hnz]
      have e : off - base + len + 1 = off + len + 1 - base := by omega
      rw [e, ih (by omega) n (by omega)]
      simp

/-- `raw_name_len` of the slice starting at a name the validator accepts: the length as written -/
theorem rawNameLen_nameAt {p : Bytes} {bar low off refs e : Nat} {ls : List (List UInt8)}
    (hn : NameAt p bar low off refs ls e) (hoff : off ≤ p.length) : rawNameLen (p.drop off) = .ok (e - off) := by
  unfold rawNameLen
  cases hn with
  | @root _ _ _ _ ls stop hl hs hb =>
    have hlen := hl.length_le
    have hle := hl.le
    have hst : stop < p.length := by
      cases h : byteAt p stop with
      | none => rw [h] at hb; simp at hb
      | some x => unfold byteAt at h; simp at h; obtain ⟨y, hy, _⟩ := h; exact (List.getElem?_eq_some_iff.1 hy).1
    have h0 : (0 : Nat) = off - off := by omega
    rw [h0, rawLen_labels hl off (Nat.le_refl _) _ (by simp; omega)]
    have : (p.drop off).length + 1 - ls.length = ((p.drop off).length - ls.length) + 1 := by simp; omega
    rw [this]
    unfold rawNameLenLoop
    have hby : byteAt (p.drop off) (stop - off) = some 0 := by
      rw [byteAt_drop]
      have : off + (stop - off) = stop := by omega
      rw [this]; exact hb
    simp [idx_of_byteAt hby]
    omega
  | @ptr _ _ _ _ ls ls' stop hi lo e' hl hs hb hhi hlob ht hnz hr hn' =>
    have hlen := hl.length_le
    have hle := hl.le
    have hst : stop < p.length := by
      cases h : byteAt p stop with
      | none => rw [h] at hb; simp at hb
      | some x => unfold byteAt at h; simp at h; obtain ⟨y, hy, _⟩ := h; exact (List.getElem?_eq_some_iff.1 hy).1
    have h0 : (0 : Nat) = off - off := by omega
    rw [h0, rawLen_labels hl off (Nat.le_refl _) _ (by simp; omega)]
    have : (p.drop off).length + 1 - ls.length = ((p.drop off).length - ls.length) + 1 := by simp; omega
    rw [this]
    unfold rawNameLenLoop
    have hby : byteAt (p.drop off) (stop - off) = some hi := by
      rw [byteAt_drop]
      have : off + (stop - off) = stop := by omega
      rw [this]; exact hb
    have hp : isPtr hi = true := (isPtr_iff' hi (byteAt_lt hb)).2 hhi
    have hnz0 : (hi == 0) = false := by simp; omega
    simp only [idx_of_byteAt hby, hp, hnz0, bind_ok, Bool.false_eq_true, if_false, if_true, pure_eq]
    congr 1
    omega

theorem Labels.okLabels {p : Bytes} {bar off stop : Nat} {ls : List (List UInt8)} (h : Labels p bar off ls stop) :
    ∀ l ∈ ls, okLabel l := by
  induction h with
  | nil => intro l hl; simp at hl
  | cons _ _ h3 h4 h5 _ ih =>
    intro l hl
    simp at hl
    rcases hl with rfl | hl
    · unfold okLabel; rw [lab_length h5]; exact ⟨h3, h4⟩
    · exact ih l hl

theorem NameAt.okLabels {p : Bytes} {bar low off refs e : Nat} {ls : List (List UInt8)}
    (h : NameAt p bar low off refs ls e) : ∀ l ∈ ls, okLabel l := by
  induction h with
  | root hl _ _ => exact hl.okLabels
  | ptr hl _ _ _ _ _ _ _ _ ih =>
    intro l hm
    rcases List.mem_append.1 hm with h | h
    · exact hl.okLabels l h
    · exact ih l h

/-- the pointer-free encoding of labels within the limits is a valid name with those labels -/
theorem validName_of_enc {ls : List (List UInt8)} (hok : ∀ l ∈ ls, okLabel l) (hw : wireLen ls ≤ 255)
    (hg : ∀ l ∈ ls, goodChars l = true) : ValidName (encLabels ls ++ [0]) 0 ls (labSum ls + 1) := by
  have hlen : (encLabels ls ++ [0]).length = labSum ls + 1 := by simp [encLabels_length]
  have hl := Labels.of_encLabels [] ls [0] (labSum ls + 1) hok (by simp)
  simp only [List.nil_append, List.length_nil, Nat.zero_add] at hl
  refine ⟨by rw [hlen]; omega, ?_, hw, hg⟩
  rw [hlen]
  refine NameAt.root hl (by omega) ?_
  have : labSum ls = (encLabels ls).length := (encLabels_length ls).symm
  rw [this, byteAt_append_right0]
  rfl

/-- the pointer-free encoding of a valid name is itself a valid name, with the same labels -/
theorem validName_enc {p : Bytes} {off e : Nat} {ls : List (List UInt8)} (h : ValidName p off ls e) :
    ValidName (encLabels ls ++ [0]) 0 ls (labSum ls + 1) :=
  validName_of_enc h.2.1.okLabels h.2.2.1 h.2.2.2

end Dns
