/-
  Lemmas.Dict — the suffix dictionary of `compress()`: what its entries promise about the output
  built so far, and how `find`, `insert` and `commit` keep that promise.
-/
import DnsModel.Lemmas.CaseFold
import DnsModel.Lemmas.Canon
namespace Dns
open Res

/-- a committed entry: a pointer-free name `els`, and a place in the output where, under the
validator's discipline and with exactly `e.depth` indirections, a name decodes to labels equal to
`els` up to case -/
def EntryOK (out : Bytes) (e : Suffix) : Prop :=
  ∃ (els els' : List (List UInt8)) (ePos Po Eo : Nat),
    e.suffix.take e.len = encLabels els ++ [0] ∧ (∀ l ∈ els, okLabel l) ∧ lsCi els' els ∧
    NameAt out Eo Po e.offset e.depth els' ePos ∧ Po ≤ e.offset ∧ Eo ≤ out.length ∧
    e.offset < 16384 ∧ e.offset < out.length ∧ byteAt out e.offset ≠ some 0

theorem EntryOK.append {out : Bytes} {e : Suffix} (h : EntryOK out e) (q : Bytes) : EntryOK (out ++ q) e := by
  obtain ⟨els, els', ePos, Po, Eo, h1, h2, h3, h4, h5, h6, h7, h8, h9⟩ := h
  exact ⟨els, els', ePos, Po, Eo, h1, h2, h3, h4.append (by omega), h5, by simp; omega, h7, by simp; omega,
    byteAt_ne_append_left h8 h9⟩

/-- the dictionary while the name `ls` is being emitted from `out0.length`: every live entry is
either committed and sound for `out0`, or was stored for a label boundary `j < k` of this name and
carries depth `pd` (`none`: still pending) -/
def DictState (dict : SuffixDict) (out0 : Bytes) (ls : List (List UInt8)) (k : Nat) (pd : Option Nat) : Prop :=
  dict.suffixes.length = 32 ∧ dict.index < 32 ∧ dict.count ≤ 32 ∧ dict.index ≤ dict.count ∧
  ∀ i e, i < dict.count → dict.suffixes[i]? = some e →
    (e.depth ≠ DEPTH_PENDING ∧ EntryOK out0 e) ∨
    (∃ j, j < k ∧ j < ls.length ∧ e.offset = out0.length + labSum (ls.take j) ∧
      e.suffix.take e.len = encLabels (ls.drop j) ++ [0] ∧ e.offset < 16384 ∧
      e.depth = pd.getD DEPTH_PENDING)

theorem DictState.mono {dict : SuffixDict} {out0 : Bytes} {ls : List (List UInt8)} {k k' : Nat} {pd : Option Nat}
    (h : DictState dict out0 ls k pd) (hk : k ≤ k') : DictState dict out0 ls k' pd := by
  obtain ⟨h1, h2, h3, h4, h5⟩ := h
  refine ⟨h1, h2, h3, h4, ?_⟩
  intro i e hi he
  rcases h5 i e hi he with h | ⟨j, hj, rest⟩
  · exact Or.inl h
  · exact Or.inr ⟨j, by omega, rest⟩

/-- the empty dictionary -/
theorem DictState.empty (out0 : Bytes) (ls : List (List UInt8)) : DictState {} out0 ls 0 none := by
  refine ⟨by simp, by decide, by decide, by decide, ?_⟩
  intro i e hi
  simp at hi

/-- a dictionary sound for `out` (no pending entries) is a `DictState` for any name started there -/
def DictInv (dict : SuffixDict) (out : Bytes) : Prop :=
  dict.suffixes.length = 32 ∧ dict.index < 32 ∧ dict.count ≤ 32 ∧ dict.index ≤ dict.count ∧
  ∀ i e, i < dict.count → dict.suffixes[i]? = some e → e.depth ≠ DEPTH_PENDING ∧ EntryOK out e

theorem DictInv.start {dict : SuffixDict} {out : Bytes} (h : DictInv dict out) (ls : List (List UInt8)) :
    DictState dict out ls 0 none := by
  obtain ⟨h1, h2, h3, h4, h5⟩ := h
  exact ⟨h1, h2, h3, h4, fun i e hi he => Or.inl (h5 i e hi he)⟩

theorem DictInv.append {dict : SuffixDict} {out : Bytes} (h : DictInv dict out) (q : Bytes) : DictInv dict (out ++ q) := by
  obtain ⟨h1, h2, h3, h4, h5⟩ := h
  exact ⟨h1, h2, h3, h4, fun i e hi he => ⟨(h5 i e hi he).1, (h5 i e hi he).2.append q⟩⟩

/-! ### find -/

theorem find_some {dict : SuffixDict} {suffix : Bytes} {cand : Suffix} (h : dict.find suffix = some cand) :
    (∃ i, i < dict.count ∧ dict.suffixes[i]? = some cand) ∧ cand.depth < 16 ∧
      rawNamesEqIgnoreCase suffix (cand.suffix.take cand.len) = true := by
  unfold SuffixDict.find at h
  have hp := List.find?_some h
  have hm := List.mem_of_find?_eq_some h
  simp only [Bool.and_eq_true, decide_eq_true_eq] at hp
  consts
  refine ⟨?_, hp.1.1, hp.2⟩
  obtain ⟨i, hi, hget⟩ := List.getElem_of_mem hm
  simp at hi
  refine ⟨i, by omega, ?_⟩
  rw [List.getElem_take] at hget
  rw [List.getElem?_eq_getElem (by omega), hget]

/-! ### commit -/

theorem commit_get (d : SuffixDict) (depth : Nat) (i : Nat) :
    (d.commit depth).suffixes[i]? = (d.suffixes[i]?).map (fun s =>
      if i < d.count && s.depth == DEPTH_PENDING then { s with depth := depth } else s) := by
  unfold SuffixDict.commit
  simp [List.getElem?_mapIdx]

theorem DictState.commit {dict : SuffixDict} {out0 : Bytes} {ls : List (List UInt8)} {k : Nat}
    (h : DictState dict out0 ls k none) (d : Nat) (hd : d ≠ DEPTH_PENDING) :
    DictState (dict.commit d) out0 ls k (some d) := by
  obtain ⟨h1, h2, h3, h4, h5⟩ := h
  refine ⟨by simp [SuffixDict.commit, h1], by simpa [SuffixDict.commit] using h2,
    by simpa [SuffixDict.commit] using h3, by simpa [SuffixDict.commit] using h4, ?_⟩
  intro i e hi he
  have hc : (dict.commit d).count = dict.count := rfl
  rw [hc] at hi
  rw [commit_get] at he
  cases hs : dict.suffixes[i]? with
  | none => rw [hs] at he; simp at he
  | some s =>
    rw [hs] at he
    simp only [Option.map_some, Option.some.injEq] at he
    rcases h5 i s hi hs with ⟨hn, hok⟩ | ⟨j, hj1, hj2, ho, hsuf, hlt, hdep⟩
    · have : (s.depth == DEPTH_PENDING) = false := by simp [hn]
      simp only [this, Bool.and_false, Bool.false_eq_true, if_false] at he
      subst he
      exact Or.inl ⟨hn, hok⟩
    · simp only [Option.getD_none] at hdep
      have : (s.depth == DEPTH_PENDING) = true := by simp [hdep]
      simp only [hi, decide_true, this, Bool.and_self, if_true] at he
      subst he
      exact Or.inr ⟨j, hj1, hj2, ho, hsuf, hlt, rfl⟩

end Dns

namespace Dns
open Res

theorem rawNameLen_enc (l : List (List UInt8)) (hok : ∀ x ∈ l, okLabel x) :
    rawNameLen (encLabels l ++ [0]) = .ok (encLabels l ++ [0]).length := by
  have hl := Labels.of_encLabels [] l [0] (labSum l + 1) hok (by simp)
  simp only [List.nil_append, List.length_nil, Nat.zero_add] at hl
  have hn : NameAt (encLabels l ++ [0]) (labSum l + 1) 0 0 0 l (labSum l + 1) := by
    refine NameAt.root hl (by omega) ?_
    have : labSum l = (encLabels l).length := (encLabels_length l).symm
    rw [this, byteAt_append_right0]; rfl
  have := rawNameLen_nameAt hn (by simp)
  simp only [List.drop_zero, Nat.sub_zero] at this
  rw [this, encLen_eq]

/-- what `insert` does while the name `ls` is being emitted: at label boundary `k` either nothing is
found (and the dictionary may have stored this suffix as pending), or an earlier, sound entry equal
up to case is found and all pending entries get its depth plus one -/
theorem insert_cases {dict : SuffixDict} {out0 : Bytes} {ls : List (List UInt8)} {k : Nat}
    (h : DictState dict out0 ls k none) (hok : ∀ l ∈ ls, okLabel l) (hk : k ≤ ls.length) :
    ∃ dict' hit, dict.insert (encLabels (ls.drop k) ++ [0]) (out0.length + labSum (ls.take k)) = .ok (dict', hit) ∧
      ((hit = none ∧ DictState dict' out0 ls (k + 1) none) ∨
       (∃ o cls' ePos Po Eo d, hit = some o ∧ lsCi cls' (ls.drop k) ∧ NameAt out0 Eo Po o d cls' ePos ∧ Po ≤ o ∧
          Eo ≤ out0.length ∧ o < 16384 ∧ o < out0.length ∧ byteAt out0 o ≠ some 0 ∧ d < 16 ∧
          dict' = dict.commit (d + 1) ∧ 2 < labSum (ls.drop k) + 1)) := by
  have hokd : ∀ l ∈ ls.drop k, okLabel l := fun l hl => hok l (List.mem_of_mem_drop hl)
  unfold SuffixDict.insert
  by_cases hoff : out0.length + labSum (ls.take k) ≥ 16384
  · exact ⟨dict, none, by simp [hoff], Or.inl ⟨rfl, h.mono (by omega)⟩⟩
  simp only [hoff, if_false]
  by_cases hlen : (encLabels (ls.drop k) ++ [0]).length ≤ 2 ∨ (encLabels (ls.drop k) ++ [0]).length > MAX_SUFFIX_LEN
  · have : (decide ((encLabels (ls.drop k) ++ [0]).length ≤ 2) || decide ((encLabels (ls.drop k) ++ [0]).length > MAX_SUFFIX_LEN)) = true := by
      simp only [Bool.or_eq_true, decide_eq_true_eq]; exact hlen
    refine ⟨dict, none, ?_, Or.inl ⟨rfl, h.mono (by omega)⟩⟩
    simp only [this, if_true]
    rfl
  have hlen' : (decide ((encLabels (ls.drop k) ++ [0]).length ≤ 2) || decide ((encLabels (ls.drop k) ++ [0]).length > MAX_SUFFIX_LEN)) = false := by
    rw [Bool.eq_false_iff]
    simp only [ne_eq, Bool.or_eq_true, decide_eq_true_eq]; exact hlen
  simp only [hlen', Bool.false_eq_true, if_false]
  obtain ⟨h1, h2, h3, h4, h5⟩ := h
  cases hf : dict.find (encLabels (ls.drop k) ++ [0]) with
  | some cand =>
    obtain ⟨⟨i, hi, hget⟩, hd, heq⟩ := find_some hf
    rcases h5 i cand hi hget with ⟨hn, els, els', ePos, Po, Eo, e1, e2, e3, e4, e5, e6, e7, e8, e9⟩ | ⟨j, _, _, _, _, _, hdep⟩
    · refine ⟨dict.commit (cand.depth + 1), some cand.offset, by simp, Or.inr ⟨cand.offset, els', ePos, Po, Eo, cand.depth, rfl,
        ?_, e4, e5, e6, e7, e8, e9, hd, rfl, ?_⟩⟩
      · rw [e1] at heq
        have := eqLoop_sound (ls.drop k) els [] [] hokd e2 (by simpa [rawNamesEqIgnoreCase] using heq)
        exact e3.trans this.symm
      · simp [encLabels_length] at hlen; omega
    · exfalso
      simp only [Option.getD_none] at hdep
      rw [hdep] at hd
      unfold DEPTH_PENDING at hd
      omega
  | none =>
    simp only
    rw [rawNameLen_enc _ hokd]
    have hsl : slice (encLabels (ls.drop k) ++ [0]) 0 (encLabels (ls.drop k) ++ [0]).length = .ok (encLabels (ls.drop k) ++ [0]) := by
      simp [slice]
      apply List.take_of_length_le; simp
    have hidx : decide (dict.index < dict.suffixes.length) = true := by simp; omega
    simp only [bind_ok, assert, beq_self_eq_true, if_true, hsl, hidx, pure_eq]
    refine ⟨_, none, rfl, Or.inl ⟨rfl, ?_⟩⟩
    have hklt : k < ls.length := by
      apply Classical.byContradiction
      intro hc
      have : ls.drop k = [] := List.drop_of_length_le (by omega)
      rw [this] at hlen
      simp [encLabels] at hlen
    have hM : MAX_SUFFIXES = 32 := rfl
    refine ⟨by simp [h1], ?_, ?_, ?_, ?_⟩
    · show (if (dict.index + 1 == MAX_SUFFIXES) = true then 1 else dict.index + 1) < 32
      by_cases hw : (dict.index + 1 == MAX_SUFFIXES) = true
      · rw [if_pos hw]; omega
      · rw [if_neg hw]; simp [hM] at hw; omega
    · show max (dict.index + 1) dict.count ≤ 32
      omega
    · show (if (dict.index + 1 == MAX_SUFFIXES) = true then 1 else dict.index + 1) ≤ max (dict.index + 1) dict.count
      by_cases hw : (dict.index + 1 == MAX_SUFFIXES) = true
      · rw [if_pos hw]; omega
      · rw [if_neg hw]; omega
    · intro i e hi he
      have hi : i < max (dict.index + 1) dict.count := hi
      have he : (dict.suffixes.set dict.index
          { offset := out0.length + labSum (ls.take k), len := (encLabels (ls.drop k) ++ [0]).length, depth := DEPTH_PENDING,
            suffix := encLabels (ls.drop k) ++ [0] })[i]? = some e := he
      by_cases hii : i = dict.index
      · subst hii
        rw [List.getElem?_set_self (by omega)] at he
        simp at he
        subst he
        exact Or.inr ⟨k, by omega, hklt, rfl, by simp only; apply List.take_of_length_le; simp, by simp only; omega, rfl⟩
      · rw [List.getElem?_set_ne (by omega)] at he
        have hi' : i < dict.count := by omega
        rcases h5 i e hi' he with hc | ⟨j, hj, rest⟩
        · exact Or.inl hc
        · exact Or.inr ⟨j, by omega, rest⟩

end Dns
