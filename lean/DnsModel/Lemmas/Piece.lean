/-
  Lemmas.Piece — record bytes described from the inside (owner labels, eight fixed bytes, data of a
  known shape): placed anywhere they are a record of the policy and their own canonical form.
-/
import DnsModel.Lemmas.CanonRun
namespace Dns
open Res

/-- labels usable in a name: within the limits, no forbidden character -/
def GoodLabels (ls : List (List UInt8)) : Prop :=
  (∀ l ∈ ls, okLabel l) ∧ wireLen ls ≤ 255 ∧ (∀ l ∈ ls, goodChars l = true)

/-- data of a non-OPT record of type `t`, written without pointers -/
def RdPlainI (t : Nat) (rd : Bytes) : Prop :=
  if t = 2 ∨ t = 5 ∨ t = 12 then ∃ ls, GoodLabels ls ∧ rd = encLabels ls ++ [0]
  else if t = 15 then ∃ pref ls, pref.length = 2 ∧ GoodLabels ls ∧ rd = pref ++ (encLabels ls ++ [0])
  else if t = 6 then ∃ l1 l2 m, GoodLabels l1 ∧ GoodLabels l2 ∧ m.length = 20 ∧ rd = (encLabels l1 ++ [0]) ++ (encLabels l2 ++ [0]) ++ m
  else if t = 39 then rd ≠ [] ∧ PlainName rd 0 rd.length
  else if t = 1 then rd.length = 4
  else if t = 28 then rd.length = 16
  else True

theorem rd_placed_intrinsic {t : Nat} {rd : Bytes} (h : RdPlainI t rd) (h41 : t ≠ 41) {u A B : Bytes} (hu : u = A ++ rd ++ B) :
    RDataOK u t rd.length A.length ∧ RdCanon u t rd.length A.length rd := by
  have hwin : (u.drop A.length).take rd.length = rd := window_eq hu
  unfold RdPlainI at h
  unfold RDataOK RdCanon
  by_cases hns : t = 2 ∨ t = 5 ∨ t = 12
  · simp only [hns, if_true] at h ⊢
    obtain ⟨ls, ⟨hok, hw, hg⟩, hrd⟩ := h
    have hlen : rd.length = labSum ls + 1 := by rw [hrd, encLen_eq]
    have hv : ValidName u A.length ls (A.length + labSum ls + 1) := validName_at (by rw [hu, hrd]) hok hw hg
    have e : A.length + rd.length = A.length + labSum ls + 1 := by omega
    rw [e]
    exact ⟨⟨by omega, ls, hv⟩, ls, hv, hrd⟩
  simp only [hns, if_false] at h ⊢
  by_cases hmx : t = 15
  · simp only [hmx, if_true] at h ⊢
    obtain ⟨pref, ls, hp2, ⟨hok, hw, hg⟩, hrd⟩ := h
    have hlen : rd.length = 2 + (labSum ls + 1) := by rw [hrd, List.length_append, hp2, encLen_eq]
    have hv : ValidName u (A ++ pref).length ls ((A ++ pref).length + labSum ls + 1) :=
      validName_at (B := B) (by rw [hu, hrd]; simp) hok hw hg
    rw [List.length_append, hp2] at hv
    have hwin2 : (u.drop A.length).take 2 = pref := by
      have := window_eq (u := u) (A := A) (w := pref) (B := (encLabels ls ++ [0]) ++ B) (by rw [hu, hrd]; simp)
      rw [hp2] at this; exact this
    have e : A.length + rd.length = A.length + 2 + labSum ls + 1 := by omega
    rw [e]
    exact ⟨⟨by omega, ls, hv⟩, ls, hv, by rw [hwin2]; exact hrd⟩
  simp only [hmx, if_false] at h ⊢
  by_cases hsoa : t = 6
  · simp only [hsoa, if_true] at h ⊢
    obtain ⟨l1, l2, m, ⟨hok1, hw1, hg1⟩, ⟨hok2, hw2, hg2⟩, hm, hrd⟩ := h
    have hlen : rd.length = (labSum l1 + 1) + (labSum l2 + 1) + 20 := by
      rw [hrd]; simp only [List.length_append, hm, encLabels_length, List.length_cons, List.length_nil]
    have hv1 : ValidName u A.length l1 (A.length + labSum l1 + 1) :=
      validName_at (B := (encLabels l2 ++ [0]) ++ m ++ B) (by rw [hu, hrd]; simp) hok1 hw1 hg1
    have hv2 : ValidName u (A ++ (encLabels l1 ++ [0])).length l2 ((A ++ (encLabels l1 ++ [0])).length + labSum l2 + 1) :=
      validName_at (B := m ++ B) (by rw [hu, hrd]; simp) hok2 hw2 hg2
    rw [List.length_append, encLen_eq] at hv2
    have hwin20 : (u.drop (A.length + rd.length - 20)).take 20 = m := by
      have := window_eq (u := u) (A := A ++ (encLabels l1 ++ [0]) ++ (encLabels l2 ++ [0])) (w := m) (B := B) (by rw [hu, hrd]; simp)
      rw [hm] at this
      have e : (A ++ (encLabels l1 ++ [0]) ++ (encLabels l2 ++ [0])).length = A.length + rd.length - 20 := by
        simp only [List.length_append, encLabels_length, List.length_cons, List.length_nil]; omega
      rw [e] at this; exact this
    have e2 : A.length + rd.length - 20 = A.length + (labSum l1 + 1) + labSum l2 + 1 := by omega
    rw [wireLen_eq] at hw1 hw2
    refine ⟨⟨by omega, A.length + labSum l1 + 1, A.length + (labSum l1 + 1) + labSum l2 + 1, ⟨l1, hv1⟩,
      ⟨l2, by simpa [Nat.add_assoc] using hv2⟩, by omega⟩,
      l1, l2, A.length + labSum l1 + 1, hv1, by rw [e2]; simpa [Nat.add_assoc] using hv2, by rw [hwin20]; exact hrd⟩
  simp only [hsoa, if_false] at h ⊢
  refine ⟨?_, hwin.symm⟩
  by_cases hdn : t = 39
  · simp only [hdn, if_true] at h ⊢
    refine ⟨by intro h0; exact h.1 (List.length_eq_zero_iff.1 h0), ?_⟩
    have hag : Agree rd u 0 A.length rd.length := by
      intro i hi
      rw [hu, List.append_assoc, List.getElem?_append_right (by omega)]
      have : A.length + i - A.length = i := by omega
      rw [this, List.getElem?_append_left hi]
      simp
    have := h.2.translate (u := u) (a' := A.length) (by simpa using hag)
    simpa using this
  · simp only [hdn, if_false] at h ⊢
    exact h

/-- **a record given from the inside**: owner labels, eight fixed bytes whose first word is the
type (not OPT), data of the right shape -/
theorem piece_standalone (owner : List (List UInt8)) (ho : GoodLabels owner) (f8 rd : Bytes) (hf8 : f8.length = 8)
    (hlt : rd.length < 65536) (h41 : get16 f8 0 ≠ 41) (hrd : RdPlainI (get16 f8 0) rd) (sec : Section) (b : Bool) :
    let rc := (encLabels owner ++ [0]) ++ f8 ++ put16 rd.length ++ rd
    RRAtPos rc sec ⟨0, labSum owner + 1, rc.length⟩ b b ∧ RecCanon rc ⟨0, labSum owner + 1, rc.length⟩ rc ∧
      get16 rc (labSum owner + 1) = get16 f8 0 := by
  intro rc
  obtain ⟨hok, hw, hg⟩ := ho
  have e1 : rc = [] ++ (encLabels owner ++ [0]) ++ (f8 ++ put16 rd.length ++ rd) := by simp [rc]
  have e2 : rc = (encLabels owner ++ [0]) ++ f8 ++ (put16 rd.length ++ rd) := by simp [rc]
  have e3 : rc = ((encLabels owner ++ [0]) ++ f8) ++ put16 rd.length ++ (rd ++ []) := by simp [rc]
  have e4 : rc = ((encLabels owner ++ [0]) ++ f8 ++ put16 rd.length) ++ rd ++ [] := by simp [rc]
  have hA2 : ((encLabels owner ++ [0]) ++ f8).length = labSum owner + 1 + 8 := by rw [List.length_append, encLen_eq, hf8]
  have hA3 : ((encLabels owner ++ [0]) ++ f8 ++ put16 rd.length).length = labSum owner + 1 + 10 := by
    rw [List.length_append, hA2]; simp [put16]
  have hrclen : rc.length = labSum owner + 1 + 10 + rd.length := by rw [e4]; simp only [List.length_append, hA3]; simp
  have hvo : ValidName rc 0 owner (labSum owner + 1) := by
    have := validName_at (u := rc) (A := []) e1 hok hw hg
    simpa using this
  have hwin8 : (rc.drop (labSum owner + 1)).take 8 = f8 := by
    have := window_eq e2
    rw [encLen_eq, hf8] at this; exact this
  have hty : get16 rc (labSum owner + 1) = get16 f8 0 := by
    have hag : Agree f8 rc 0 (labSum owner + 1) 8 := by
      intro i hi
      rw [e2, List.append_assoc, List.getElem?_append_right (by rw [encLen_eq]; omega)]
      have : labSum owner + 1 + i - (encLabels owner ++ [0]).length = i := by rw [encLen_eq]; omega
      rw [this, List.getElem?_append_left (by omega)]
      simp
    have := hag.get16 (i := 0) (by omega)
    simpa using this
  have hl' : get16 rc (labSum owner + 1 + 8) = rd.length := by
    have := get16_put16_at e3 hlt
    rw [hA2] at this; exact this
  obtain ⟨hb1, hb2⟩ := rd_placed_intrinsic hrd h41 e4
  rw [hA3] at hb1 hb2
  refine ⟨⟨⟨owner, hvo⟩, by simp only; omega, by simp only; rw [hl']; omega, by simp only; omega, ?_⟩,
    ⟨owner, rd, hvo, ?_, ?_⟩, hty⟩
  · simp only
    rw [hty, hl']
    simp only [h41, if_false]
    exact ⟨hb1, trivial⟩
  · simp only
    rw [hty, hl']; exact hb2
  · simp only
    rw [hwin8]

end Dns
