/-
  Lemmas.Edns — what the validator remembers about EDNS: the six summary fields are those of the
  single OPT record when there is one, and the defaults otherwise.
-/
import DnsModel.Lemmas.Walk
namespace Dns
open Res Sector

/-- the EDNS part of the parser state / of the object's summary -/
structure EdnsInfo where
  start : Option Nat
  count : Nat
  extRcode : Option Nat
  version : Option Nat
  flags : Option Nat
  maxPayload : Nat
  deriving DecidableEq

def Sector.info (s : Sector) : EdnsInfo :=
  ⟨s.ednsStart, s.ednsCount, s.extRcode, s.ednsVersion, s.extFlags, s.maxPayload⟩

def View.info (v : View) : EdnsInfo :=
  ⟨v.offsetEdns, v.ednsCount, v.extRcode, v.ednsVersion, v.extFlags, v.maxPayload⟩

/-- no OPT seen -/
def EdnsInfo.none : EdnsInfo := ⟨Option.none, 0, Option.none, Option.none, Option.none, 512⟩

/-- what an OPT record whose owner name ends at `ne` and whose data holds `n` options says -/
def optInfo (p : Bytes) (ne n : Nat) : EdnsInfo :=
  ⟨some (ne + 10), n, some (getB p (ne + 4)), some (getB p (ne + 5)), some (get16 p (ne + 6)), get16 p (ne + 2)⟩

theorem OptionsTile.functional {p : Bytes} {a b n m : Nat} (h1 : OptionsTile p a b n) (h2 : OptionsTile p a b m) :
    n = m := by
  induction h1 generalizing m with
  | done a =>
    generalize hb : a = b at h2
    cases h2 with
    | done => rfl
    | opt hfit _ => omega
  | @opt a b n hfit _ ih =>
    cases h2 with
    | done => omega
    | opt _ h2' => rw [ih h2']

theorem optLoop_frame (p : Bytes) (fuel : Nat) (s s' : Sector) (e : Nat) (he : s.ednsEnd = some e)
    (h1 : s.offset ≤ e) (h2 : e ≤ p.length) (h : optLoop p fuel s = .ok s') :
    s' = { s with offset := s'.offset, ednsCount := s'.ednsCount } := by
  induction fuel generalizing s with
  | zero => simp [optLoop] at h
  | succ k ih =>
    unfold optLoop at h
    simp only [ednsRemainingLen, he, sub, h1, if_true, bind_ok] at h
    split at h
    · rw [ednsSkipRr_eq he h1 h2] at h
      split at h
      · simp at h
      · split at h
        · simp at h
        · simp only [bind_ok] at h
          have := ih _ (by simpa using he) (by simp; omega) h
          rw [this]
    · simp at h; subst h; rfl

/-- the type-specific part of `parse_rr` touches only the offset unless the record is an OPT -/
theorem rrBody_nonopt_frame {p : Bytes} {s1 s' : Sector} {sec : Section} {st t l : Nat}
    (hs1 : s1.offset ≤ p.length) (ht : t ≠ 41) (h : rrBodyRes p s1 sec st t l = .ok s') :
    s' = { s1 with offset := s'.offset } := by
  unfold rrBodyRes at h
  consts
  have h41 : (t == 41) = false := by simp [ht]
  simp only [h41, Bool.false_eq_true, if_false] at h
  split at h
  · obtain ⟨_, _, _, e⟩ := (nameRdata_ok_iff hs1 _ _ 0 checkCompressedName
      (fun _ _ h => checkCompressedName_ok_gt h) (fun _ _ h => checkCompressedName_ok_le h)).1 h
    subst e; rfl
  split at h
  · obtain ⟨_, _, _, e⟩ := (nameRdata_ok_iff hs1 _ _ 2 checkCompressedName
      (fun _ _ h => by have := checkCompressedName_ok_gt h; omega) (fun _ _ h => checkCompressedName_ok_le h)).1 h
    subst e; rfl
  split at h
  · obtain ⟨_, _, _, e⟩ := (soaRdata_ok_iff hs1 _).1 h
    subst e; rfl
  split at h
  · obtain ⟨_, _, _, e⟩ := (nameRdata_ok_iff hs1 _ _ 0 checkUncompressedName
      (fun _ _ h => checkUncompressedName_ok_gt h)
      (fun _ _ h => plainName_le ((checkUncompressedName_ok_iff _ _ _).1 h))).1 h
    subst e; rfl
  split at h
  · simp only [failIf] at h
    split at h
    · simp at h
    simp only [bind_ok] at h
    obtain ⟨_, e⟩ := (inc_pure_ok_iff hs1 _).1 h
    subst e; rfl
  split at h
  · simp only [failIf] at h
    split at h
    · simp at h
    simp only [bind_ok] at h
    obtain ⟨_, e⟩ := (inc_pure_ok_iff hs1 _).1 h
    subst e; rfl
  · obtain ⟨_, e⟩ := (inc_pure_ok_iff hs1 _).1 h
    subst e; rfl

/-- **what one record does to the EDNS summary** -/
theorem parseRR_info {p : Bytes} {s s' : Sector} {sec : Section} (h : parseRR p s sec = .ok s') :
    ∃ ne, NameEnds p s.offset ne ∧
      if get16 p ne = 41 then
        ∃ n, OptionsTile p (ne + 10) (ne + 10 + get16 p (ne + 8)) n ∧ s'.info = optInfo p ne n
      else s'.info = s.info := by
  obtain ⟨ne, hn, h10⟩ := parseRR_ok_name h
  rw [parseRR_of_name sec hn h10] at h
  have hs1 : ({ s with offset := ne } : Sector).offset ≤ p.length := by simp; omega
  refine ⟨ne, (nameEnds_iff _ _ _).1 hn, ?_⟩
  by_cases ht : get16 p ne = 41
  · simp only [ht, if_true]
    unfold rrBodyRes at h
    consts
    simp only [ht, beq_self_eq_true, if_true, failIf] at h
    split at h
    · simp at h
    simp only [bind_ok, sub_returns_of_le (Nat.le_of_lt (checkCompressedName_ok_gt hn))] at h
    split at h
    · simp at h
    simp only [bind_ok] at h
    rw [parseOpt_eq (by simpa using h10)] at h
    split at h
    · simp at h
    split at h
    · simp at h
    rename_i hfit
    simp only at hfit
    have hfit' : ne + 10 + get16 p (ne + 8) ≤ p.length := by omega
    obtain ⟨n, htile, hc⟩ := optLoop_sound p _ (optState p { s with offset := ne }) s' _ rfl
      (by simp [optState]) (by simpa using hfit') h
    have hf := optLoop_frame p _ (optState p { s with offset := ne }) s' _ rfl
      (by simp [optState]) (by simpa using hfit') h
    refine ⟨n, by simpa [optState] using htile, ?_⟩
    rw [hf]
    simp [optState] at hc
    simp [Sector.info, optInfo, optState, hc]
  · simp only [ht, if_false]
    have := rrBody_nonopt_frame hs1 ht h
    rw [this]
    simp [Sector.info]

/-- the summary after a run of records starting from summary `i` -/
inductive InfoAfter (p : Bytes) : List RecPos → EdnsInfo → EdnsInfo → Prop
  | nil (i : EdnsInfo) : InfoAfter p [] i i
  | skip {r : RecPos} {l : List RecPos} {i i' : EdnsInfo} : get16 p r.ne ≠ 41 → InfoAfter p l i i' →
      InfoAfter p (r :: l) i i'
  | opt {r : RecPos} {l : List RecPos} {i i' : EdnsInfo} {n : Nat} : get16 p r.ne = 41 →
      OptionsTile p (r.ne + 10) (r.ne + 10 + get16 p (r.ne + 8)) n → InfoAfter p l (optInfo p r.ne n) i' →
      InfoAfter p (r :: l) i i'

theorem nameEnds_functional {p : Bytes} {off a b : Nat} (h1 : NameEnds p off a) (h2 : NameEnds p off b) : a = b := by
  have g1 := (nameEnds_iff _ _ _).2 h1
  have g2 := (nameEnds_iff _ _ _).2 h2
  rw [g1] at g2
  simpa using g2

/-- a section run as a list of positions, together with the summary it leaves -/
theorem parseRRs_list {p : Bytes} {sec : Section} (n : Nat) {s s' : Sector}
    (h : parseRRs p sec n s = .ok s') :
    ∃ l, l.length = n ∧ RRsL p sec l s.offset s.ednsEnd.isSome s'.offset s'.ednsEnd.isSome ∧
      InfoAfter p l s.info s'.info := by
  induction n generalizing s with
  | zero => simp [parseRRs] at h; subst h; exact ⟨[], rfl, RRsL.nil _ _, InfoAfter.nil _⟩
  | succ k ih =>
    unfold parseRRs at h
    obtain ⟨s1, h1, h2⟩ := bind_eq_ok.1 h
    obtain ⟨l, hl, hrl, hinf⟩ := ih h2
    obtain ⟨ne, hne, rest⟩ := parseRR_sound h1
    obtain ⟨ne', hne', hi⟩ := parseRR_info h1
    have e := nameEnds_functional hne' hne
    subst e
    refine ⟨⟨s.offset, ne', s1.offset⟩ :: l, by simp [hl], RRsL.cons ⟨hne, rest⟩ hrl, ?_⟩
    by_cases ht : get16 p ne' = 41
    · simp only [ht, if_true] at hi
      obtain ⟨m, htile, hi⟩ := hi
      rw [hi] at hinf
      exact InfoAfter.opt ht htile hinf
    · simp only [ht, if_false] at hi
      rw [hi] at hinf
      exact InfoAfter.skip ht hinf

theorem InfoAfter.no_opt {p : Bytes} {l : List RecPos} {i i' : EdnsInfo} (h : InfoAfter p l i i')
    (hno : ∀ r ∈ l, get16 p r.ne ≠ 41) : i' = i := by
  induction h with
  | nil => rfl
  | skip _ _ ih => exact ih (fun r hr => hno r (by simp [hr]))
  | opt h41 _ _ _ => exact absurd h41 (hno _ (by simp))

end Dns

namespace Dns
open Res Sector

/-- **what an accepted packet looks like**, with everything `parse()` reports: the section starts
and the EDNS summary, which is the summary the three record runs leave starting from "no OPT" -/
theorem parse_ok_layout {p : Bytes} {v : View} (h : parse p = .ok v) :
    12 ≤ p.length ∧ get16 p 4 = 1 ∧ ∃ qe la ln lr e2 o2 e3 o3 o4 i2 i3,
      NameEnds p 12 qe ∧ qe + 4 ≤ p.length ∧ get16 p (qe + 2) = 1 ∧
      la.length = get16 p 6 ∧ ln.length = get16 p 8 ∧ lr.length = get16 p 10 ∧
      RRsL p .answer la (qe + 4) false e2 o2 ∧
      RRsL p .nameServers ln e2 o2 e3 o3 ∧ RRsL p .additional lr e3 o3 p.length o4 ∧
      InfoAfter p la EdnsInfo.none i2 ∧ InfoAfter p ln i2 i3 ∧ InfoAfter p lr i3 v.info ∧
      v.offsetQuestion = some 12 ∧
      v.offsetAnswers = (if get16 p 6 > 0 then some (qe + 4) else none) ∧
      v.offsetNameservers = (if get16 p 8 > 0 then some e2 else none) ∧
      v.offsetAdditional = (if get16 p 10 > 0 then some e3 else none) := by
  unfold parse at h
  simp only [failIf] at h
  consts
  split at h
  · simp at h
  rename_i hlen
  simp at hlen
  try simp only [bind_ok] at h
  rw [(be16_ok_of_le (p := p) (i := 2) (by omega)).1, (be16_ok_of_le (p := p) (i := 4) (by omega)).1] at h
  try simp only [bind_ok] at h
  split at h
  · simp at h
  rename_i hq0
  try simp only [bind_ok] at h
  split at h
  · simp at h
  rename_i hq1
  have hqd : get16 p 4 = 1 := by simp at hq0 hq1; omega
  simp only [bind_ok, Sector.setOffset, Sector.new] at h
  split at h
  · simp at h
  rename_i h12
  try simp only [bind_ok] at h
  rw [(be16_ok_of_le (p := p) (i := 6) (by omega)).1, (be16_ok_of_le (p := p) (i := 8) (by omega)).1,
    (be16_ok_of_le (p := p) (i := 10) (by omega)).1] at h
  obtain ⟨s2, hqs, h⟩ := bind_eq_ok.1 h
  obtain ⟨qe, hcc, hq4, hcl, es2⟩ := parseQuestion_ok_iff.1 hqs
  try simp only [bind_ok] at h
  split at h
  · simp at h
  try simp only [bind_ok] at h
  obtain ⟨s3, ha, h⟩ := bind_eq_ok.1 h
  try simp only [bind_ok] at h
  split at h
  · simp at h
  try simp only [bind_ok] at h
  obtain ⟨s4, hn, h⟩ := bind_eq_ok.1 h
  try simp only [bind_ok] at h
  obtain ⟨s5, hr, h⟩ := bind_eq_ok.1 h
  obtain ⟨la, hla, ra, ia⟩ := parseRRs_list _ ha
  obtain ⟨ln, hln, rn, inn⟩ := parseRRs_list _ hn
  obtain ⟨lr, hlr, rr, ir⟩ := parseRRs_list _ hr
  have h2 : s2.offset ≤ p.length := by rw [es2]; simp; omega
  have h3 := ((parseRRs_spec (p := p) .answer _ h2).2 s3 ha).2
  have h4 := ((parseRRs_spec (p := p) .nameServers _ h3).2 s4 hn).2
  have h5 := ((parseRRs_spec (p := p) .additional _ h4).2 s5 hr).2
  rw [remainingLen_eq h5] at h
  try simp only [bind_ok] at h
  split at h
  · simp at h
  rename_i hrem
  have hend : s5.offset = p.length := by simp at hrem; omega
  simp only [pure_eq, bind_ok, ok.injEq] at h
  subst h
  refine ⟨by omega, hqd, qe, la, ln, lr, s3.offset, s3.ednsEnd.isSome, s4.offset, s4.ednsEnd.isSome,
    s5.ednsEnd.isSome, s3.info, s4.info,
    (nameEnds_iff _ _ _).1 (by simpa using hcc), hq4, hcl, hla, hln, hlr, ?_, rn, ?_, ?_, inn, ir, rfl, ?_, rfl, rfl⟩
  · have := ra; rw [es2] at this; simpa using this
  · rw [← hend]; exact rr
  · have := ia; rw [es2] at this; exact this
  · rw [es2]

end Dns

namespace Dns

/-- only the additional section can hold an OPT -/
theorem RRsL.no_opt_of_sec {p : Bytes} {sec : Section} {l : List RecPos} {off e : Nat} {ob oe : Bool}
    (h : RRsL p sec l off ob e oe) (hs : sec ≠ .additional) : ∀ r ∈ l, get16 p r.ne ≠ 41 := by
  induction h with
  | nil => intro r hr; simp at hr
  | cons hr _ ih =>
    intro r' hr'
    simp at hr'
    rcases hr' with rfl | hr'
    · intro h41
      have := hr.2.2.2.2
      simp only [h41, if_true] at this
      exact hs this.1
    · exact ih r' hr'

/-- the first OPT of a run, if any -/
def firstOpt (p : Bytes) (l : List RecPos) : Option RecPos := l.find? (fun r => get16 p r.ne == 41)

/-- **the summary a run of records leaves**: that of its OPT record if it has one (there is then
exactly one), the incoming summary otherwise -/
theorem info_of_run {p : Bytes} {sec : Section} {l : List RecPos} {off e : Nat} {ob oe : Bool} {i i' : EdnsInfo}
    (hl : RRsL p sec l off ob e oe) (hi : InfoAfter p l i i') :
    match firstOpt p l with
    | none => i' = i
    | some r => ∃ n, OptionsTile p (r.ne + 10) (r.ne + 10 + get16 p (r.ne + 8)) n ∧ i' = optInfo p r.ne n := by
  induction hi generalizing off ob with
  | nil => simp [firstOpt]
  | @skip r l i i' hne _ ih =>
    obtain ⟨_, om, _, hrest⟩ := hl.cons_inv
    have : firstOpt p (r :: l) = firstOpt p l := by simp [firstOpt, hne]
    rw [this]
    exact ih hrest
  | @opt r l i i' n h41 htile hrest' _ =>
    obtain ⟨_, om, hr, hrest⟩ := hl.cons_inv
    have : firstOpt p (r :: l) = some r := by simp [firstOpt, h41]
    rw [this]
    have hom : om = true := by
      have := hr.2.2.2.2
      simp only [h41, if_true] at this
      exact this.2.2.2.1
    subst hom
    have hno := RRsL.no_opt_after hrest
    exact ⟨n, htile, hrest'.no_opt hno⟩

end Dns
