/-
  Lemmas.SynthComplete — every text of the grammar synthesises to the wire record it stands for.
-/
import DnsModel.Spec.RecordText
namespace Dns
open Res

theorem hostChars_small_fin : ∀ b : Fin 256, (hostFirst (UInt8.ofNat b.val) = true ∨ hostInner (UInt8.ofNat b.val) = true) →
    b.val ≤ 128 := by decide +kernel

theorem hostChars_small (c : UInt8) (h : hostFirst c = true ∨ hostInner c = true) : c.toNat ≤ 128 := by
  have := hostChars_small_fin ⟨c.toNat, c.toNat_lt⟩ (by simpa using h)
  simpa using this

theorem textLabel_of_host {l : Bytes} (h : HostLabel l) : TextLabel l := by
  obtain ⟨c, t, rfl, hc, ht, hlen⟩ := h
  refine ⟨by simp, hlen, ?_⟩
  intro x hx
  simp at hx
  rcases hx with rfl | hx
  · exact ⟨by have := host_not_dot x (Or.inl hc); simpa using this, hostChars_small x (Or.inl hc)⟩
  · exact ⟨by have := host_not_dot x (Or.inr (ht x hx)); simpa using this, hostChars_small x (Or.inr (ht x hx))⟩

theorem hws_not_host (c : UInt8) (h : isHws c = true) : hostChar c = false := by
  unfold isHws at h
  simp at h
  rcases h with rfl | rfl <;> decide

theorem hostStop_blanks1 {b rest : Bytes} (h : Blanks1 b) : HostStop (b ++ rest) := by
  obtain ⟨hne, hb⟩ := h
  cases b with
  | nil => exact absurd rfl hne
  | cons c b => exact Or.inr ⟨c, b ++ rest, rfl, hws_not_host c (hb c (by simp))⟩

/-- a host name of the grammar is read by the parser and converted to its labels -/
theorem hostName_parse {n rest : Bytes} {ls : List (List UInt8)} (h : HostName n ls) (hs : HostStop rest) :
    hostnameP (n ++ rest) = some (n, rest) ∧ rawNameFromStr n none = .ok (encLabels ls ++ [0]) := by
  rcases h with ⟨rfl, rfl⟩ | ⟨done, cur, hn, hd, hc, hne, hnum, hls, hlen⟩
  · exact ⟨hostnameP_dot hs, by simp [C14.fromStr_dot, encLabels]⟩
  · refine ⟨hostnameP_lang ⟨done, cur, hn, hd, hc, hne, hnum⟩ hs, ?_⟩
    have hrun : TextRun cur := by
      rcases hc with rfl | hcl
      · exact ⟨by simp, by simp⟩
      · have := textLabel_of_host hcl; exact ⟨this.2.1, this.2.2⟩
    have := C14.from_text_complete done cur none (fun l hl => textLabel_of_host (hd l hl)) hrun (by
      rw [← hls]
      by_cases hcur : cur = [] <;> simp [hcur, encLabels_length] <;> omega)
    rw [hn, this, ← hls]
    by_cases hcur : cur = [] <;> simp [hcur]

theorem txtWire_eq : ∀ (fuel : Nat) (b : Bytes), txtWire fuel b = chunks255 fuel b := by
  intro fuel
  induction fuel with
  | zero => intro b; simp [txtWire, chunks255]
  | succ n ih =>
    intro b
    cases b with
    | nil => simp [txtWire, chunks255]
    | cons c b => simp only [txtWire, chunks255]; rw [ih]

theorem typeWord_parse {w : Bytes} {t : Nat} (h : TypeWord w t) :
    rrTypeOfStr w = some t ∧ w ≠ [] ∧ (∀ c ∈ w, (isAlpha c || isDigit c) = true) ∧ t < 65536 ∧ t ≠ 41 := by
  have hlower : ∀ (c : UInt8), isAlpha (toLowerB c) = true → isAlpha c = true := by
    have : ∀ b : Fin 256, isAlpha (toLowerB (UInt8.ofNat b.val)) = true → isAlpha (UInt8.ofNat b.val) = true := by decide +kernel
    intro c hc
    have := this ⟨c.toNat, c.toNat_lt⟩ (by simpa using hc)
    simpa using this
  have hchars : ∀ lit : Bytes, lowerBytes w = lit → (∀ c ∈ lit, isAlpha c = true) → lit ≠ [] →
      w ≠ [] ∧ ∀ c ∈ w, (isAlpha c || isDigit c) = true := by
    intro lit hl hlit hne
    constructor
    · intro e; subst e; simp [lowerBytes] at hl; exact hne (by rw [hl])
    · intro c hc
      have : toLowerB c ∈ lowerBytes w := by simp [lowerBytes]; exact ⟨c, hc, rfl⟩
      rw [hl] at this
      simp [hlower c (hlit _ this)]
  unfold TypeWord at h
  unfold rrTypeOfStr eqNoCase
  consts
  rcases h with ⟨hw, rfl⟩ | ⟨hw, rfl⟩ | ⟨hw, rfl⟩ | ⟨hw, rfl⟩ | ⟨hw, rfl⟩ | ⟨hw, rfl⟩ | ⟨hw, rfl⟩ | ⟨hw, rfl⟩ | ⟨hw, rfl⟩
  all_goals (
    obtain ⟨h1, h2⟩ := hchars _ hw (by decide) (by decide)
    refine ⟨?_, h1, h2, by decide, by decide⟩
    rw [hw]
    decide)

end Dns

namespace Dns
open Res

theorem stop_of_head {f : UInt8 → Bool} {x rest : Bytes} (h : ∃ c r, x = c :: r ∧ f c = false) : StopF f (x ++ rest) := by
  obtain ⟨c, r, rfl, hc⟩ := h
  exact stopF_cons hc

theorem digit_not_hws_fin : ∀ b : Fin 256, isDigit (UInt8.ofNat b.val) = true → isHws (UInt8.ofNat b.val) = false := by
  decide +kernel
theorem digit_not_hws (c : UInt8) (h : isDigit c = true) : isHws c = false := by
  have := digit_not_hws_fin ⟨c.toNat, c.toNat_lt⟩ (by simpa using h); simpa using this

theorem hws_not_digit (c : UInt8) (h : isHws c = true) : isDigit c = false := by
  unfold isHws at h; simp at h; rcases h with rfl | rfl <;> decide

theorem hws_not_alnum (c : UInt8) (h : isHws c = true) : (isAlpha c || isDigit c) = false := by
  unfold isHws at h; simp at h; rcases h with rfl | rfl <;> decide

theorem alnum_not_hws_fin : ∀ b : Fin 256, (isAlpha (UInt8.ofNat b.val) || isDigit (UInt8.ofNat b.val)) = true →
    isHws (UInt8.ofNat b.val) = false := by decide +kernel
theorem alnum_not_hws (c : UInt8) (h : (isAlpha c || isDigit c) = true) : isHws c = false := by
  have := alnum_not_hws_fin ⟨c.toNat, c.toNat_lt⟩ (by simpa using h); simpa using this

theorem hostchar_not_hws_fin : ∀ b : Fin 256, hostChar (UInt8.ofNat b.val) = true → isHws (UInt8.ofNat b.val) = false := by
  decide +kernel
theorem hostchar_not_hws (c : UInt8) (h : hostChar c = true) : isHws c = false := by
  have := hostchar_not_hws_fin ⟨c.toNat, c.toNat_lt⟩ (by simpa using h); simpa using this

theorem numeral_head {ds : Bytes} (h : Numeral ds) : ∃ c r, ds = c :: r ∧ isDigit c = true := by
  obtain ⟨hne, hd⟩ := h
  cases ds with
  | nil => exact absurd rfl hne
  | cons c r => exact ⟨c, r, rfl, hd c (by simp)⟩

theorem hostFirst_hostChar_fin : ∀ b : Fin 256, hostFirst (UInt8.ofNat b.val) = true → hostChar (UInt8.ofNat b.val) = true := by
  decide +kernel
theorem hostFirst_hostChar (c : UInt8) (h : hostFirst c = true) : hostChar c = true := by
  have := hostFirst_hostChar_fin ⟨c.toNat, c.toNat_lt⟩ (by simpa using h); simpa using this

theorem hostName_head {n : Bytes} {ls : List (List UInt8)} (h : HostName n ls) : ∃ c r, n = c :: r ∧ hostChar c = true := by
  rcases h with ⟨rfl, _⟩ | ⟨done, cur, hn, hd, hc, hne, _⟩
  · exact ⟨46, [], rfl, by decide⟩
  · cases done with
    | nil =>
      rcases hc with rfl | ⟨c, t, rfl, hcf, _⟩
      · simp [dotted] at hn; exact absurd hn hne
      · exact ⟨c, t, by simp [hn, dotted], hostFirst_hostChar c hcf⟩
    | cons l done =>
      obtain ⟨c, t, rfl, hcf, _⟩ := hd l (by simp)
      exact ⟨c, t ++ [46] ++ dotted done ++ cur, by simp [hn, dotted], hostFirst_hostChar c hcf⟩

theorem blanks1_head {b : Bytes} (h : Blanks1 b) : ∃ c r, b = c :: r ∧ isHws c = true ∧ Blanks r := by
  obtain ⟨hne, hb⟩ := h
  cases b with
  | nil => exact absurd rfl hne
  | cons c r => exact ⟨c, r, rfl, hb c (by simp), fun x hx => hb x (by simp [hx])⟩

/-- **the common part** of a record text is read as the grammar says -/
theorem commonP_lang {b0 owner b1 ttl b2 b3 tw b4 rest : Bytes} {cI cN : UInt8} {ols : List (List UInt8)} {ty : Nat}
    (hb0 : Blanks b0) (hown : HostName owner ols) (hb1 : Blanks1 b1) (httl : Numeral ttl) (hv : decVal ttl ≤ 4294967295)
    (hb2 : Blanks1 b2) (hI : cI = 73 ∨ cI = 105) (hN : cN = 78 ∨ cN = 110) (hb3 : Blanks1 b3) (htw : TypeWord tw ty)
    (hb4 : Blanks1 b4) (hrest : StopF isHws rest) :
    commonP (b0 ++ (owner ++ (b1 ++ (ttl ++ (b2 ++ (cI :: cN :: (b3 ++ (tw ++ (b4 ++ rest))))))))) =
      some ({ name := owner, ttl := decVal ttl, rrType := ty }, rest) := by
  obtain ⟨ht1, ht2, ht3, _, _⟩ := typeWord_parse htw
  obtain ⟨oc, orr, hoc, hoch⟩ := hostName_head hown
  obtain ⟨tc, trr, htc, htcd⟩ := numeral_head httl
  obtain ⟨c2, r2, hc2, hc2h, hr2⟩ := blanks1_head hb2
  have twhead : ∃ c r, tw = c :: r ∧ isHws c = false := by
    cases tw with
    | nil => exact absurd rfl ht2
    | cons c r => exact ⟨c, r, rfl, alnum_not_hws c (ht3 c (by simp))⟩
  unfold commonP
  have s0 : skipWhile isHws (b0 ++ (owner ++ (b1 ++ (ttl ++ (b2 ++ (cI :: cN :: (b3 ++ (tw ++ (b4 ++ rest))))))))) =
      owner ++ (b1 ++ (ttl ++ (b2 ++ (cI :: cN :: (b3 ++ (tw ++ (b4 ++ rest))))))) :=
    skipWhile_lang hb0 (stop_of_head ⟨oc, orr, hoc, hostchar_not_hws oc hoch⟩)
  have s1 := (hostName_parse hown (hostStop_blanks1 (rest := ttl ++ (b2 ++ (cI :: cN :: (b3 ++ (tw ++ (b4 ++ rest)))))) hb1)).1
  have s2 : skipWhile isHws (b1 ++ (ttl ++ (b2 ++ (cI :: cN :: (b3 ++ (tw ++ (b4 ++ rest))))))) =
      ttl ++ (b2 ++ (cI :: cN :: (b3 ++ (tw ++ (b4 ++ rest))))) :=
    skipWhile_lang hb1.2 (stop_of_head ⟨tc, trr, htc, digit_not_hws tc htcd⟩)
  have s3 : decimalMax 4294967295 (ttl ++ (b2 ++ (cI :: cN :: (b3 ++ (tw ++ (b4 ++ rest)))))) =
      some (decVal ttl, b2 ++ (cI :: cN :: (b3 ++ (tw ++ (b4 ++ rest))))) :=
    decimalMax_lang httl.1 httl.2 (stop_of_head ⟨c2, r2, hc2, hws_not_digit c2 hc2h⟩) hv
  have s3b : (match b2 ++ (cI :: cN :: (b3 ++ (tw ++ (b4 ++ rest)))) with
      | c :: r => if isHws c = true then some r else none
      | [] => none) = some (r2 ++ (cI :: cN :: (b3 ++ (tw ++ (b4 ++ rest))))) := by
    rw [hc2]; simp [hc2h]
  have hIh : isHws cI = false := by rcases hI with rfl | rfl <;> decide
  have s4 : skipWhile isHws (r2 ++ (cI :: cN :: (b3 ++ (tw ++ (b4 ++ rest))))) = cI :: cN :: (b3 ++ (tw ++ (b4 ++ rest))) :=
    skipWhile_lang hr2 (stopF_cons hIh)
  have s5 : skipHws1 (b3 ++ (tw ++ (b4 ++ rest))) = some (tw ++ (b4 ++ rest)) :=
    skipHws1_lang hb3.1 hb3.2 (stop_of_head twhead)
  obtain ⟨c4, r4, hc4, hc4h, _⟩ := blanks1_head hb4
  have s6 : takeWhile1 (fun c => isAlpha c || isDigit c) (tw ++ (b4 ++ rest)) = some (tw, b4 ++ rest) :=
    takeWhile1_lang ht2 ht3 (stop_of_head ⟨c4, r4, hc4, hws_not_alnum c4 hc4h⟩)
  have s7 : skipHws1 (b4 ++ rest) = some rest := skipHws1_lang hb4.1 hb4.2 hrest
  have hIc : (cI == 73 || cI == 105) = true := by rcases hI with rfl | rfl <;> decide
  have hNc : (cN == 78 || cN == 110) = true := by rcases hN with rfl | rfl <;> decide
  simp only [s0, Option.bind_eq_bind, s1, Option.bind_some, s2, s3]
  rw [hc2]
  simp only [List.cons_append, hc2h, if_true, Option.bind_some, s4, hIc, hNc, s5, s6, ht1, s7, Option.pure_def]

end Dns

namespace Dns
open Res

theorem rrNew_ok {h : RRHeader} {rd raw : Bytes} (hraw : rawNameFromStr h.name none = .ok raw) (hlen : rd.length ≤ 65535) :
    rrNew h rd = .ok (raw ++ (put16 h.rrType ++ put16 1 ++ put32 h.ttl) ++ put16 rd.length ++ rd) := by
  unfold rrNew
  have : ¬ (rd.length > 65535) := by omega
  unfold rawNameFromStr at hraw
  simp [failIf, this, hraw, CLASS_IN, List.append_assoc]

theorem blanks_stop {f : UInt8 → Bool} {b : Bytes} (hb : Blanks b) (hf : ∀ c, isHws c = true → f c = false) : StopF f b := by
  intro c r e
  subst e
  exact hf c (hb c (by simp))

theorem endP_blanks {b : Bytes} (hb : Blanks b) : endP b = some () := by
  unfold endP eofP
  have := skipWhile_lang (f := isHws) (a := b) (rest := []) hb (stopF_nil _)
  simp only [List.append_nil] at this
  simp [this]

theorem hostStop_blanks {b : Bytes} (hb : Blanks b) : HostStop b := by
  cases b with
  | nil => exact Or.inl rfl
  | cons c r => exact Or.inr ⟨c, r, rfl, hws_not_host c (hb c (by simp))⟩

theorem hws_not_hexcolon (c : UInt8) (h : isHws c = true) : (isHexDigit c || c == 58) = false := by
  unfold isHws at h; simp at h; rcases h with rfl | rfl <;> decide

theorem hws_not_hex (c : UInt8) (h : isHws c = true) : isHexDigit c = false := by
  unfold isHws at h; simp at h; rcases h with rfl | rfl <;> decide

theorem ws_not_digit_fin : ∀ b : Fin 256, isWs (UInt8.ofNat b.val) = true → isDigit (UInt8.ofNat b.val) = false := by
  decide +kernel
theorem ws_not_digit (c : UInt8) (h : isWs c = true) : isDigit c = false := by
  have := ws_not_digit_fin ⟨c.toNat, c.toNat_lt⟩ (by simpa using h); simpa using this
theorem digit_not_ws (c : UInt8) (h : isDigit c = true) : isWs c = false := by
  cases hw : isWs c with
  | false => rfl
  | true => have := ws_not_digit c hw; rw [h] at this; exact absurd this (by decide)

theorem spaces1_head {b : Bytes} (h : Spaces1 b) : ∃ c r, b = c :: r ∧ isWs c = true := by
  obtain ⟨hne, hb⟩ := h
  cases b with
  | nil => exact absurd rfl hne
  | cons c r => exact ⟨c, r, rfl, hb c (by simp)⟩

/-- the data part is read as the grammar says, and the builder produces the wire record -/
theorem rdataP_lang {h : RRHeader} {rdt rd b5 raw : Bytes} (hr : RDataText h.rrType rdt rd) (hb5 : Blanks b5)
    (hraw : rawNameFromStr h.name none = .ok raw) (hlen : rd.length ≤ 65535) :
    rdataP h (rdt ++ b5) = some (.ok (raw ++ (put16 h.rrType ++ put16 1 ++ put32 h.ttl) ++ put16 rd.length ++ rd)) := by
  have hend := endP_blanks hb5
  unfold rdataP
  consts
  generalize hty : h.rrType = ty at hr
  cases hr with
  | a d0 d1 d2 d3 n0 n1 n2 n3 v0 v1 v2 v3 =>
    have e : (d0 ++ 46 :: (d1 ++ 46 :: (d2 ++ 46 :: d3))) ++ b5 = d0 ++ 46 :: (d1 ++ 46 :: (d2 ++ 46 :: (d3 ++ b5))) := by simp
    rw [e]
    simp only [beq_self_eq_true, if_true, Option.bind_eq_bind,
      ipv4P_lang n0 n1 n2 n3 v0 v1 v2 v3 (blanks_stop hb5 hws_not_digit), Option.bind_some, hend, Option.pure_def]
    rw [rrNew_ok hraw hlen, hty]
  | aaaa s gs hv =>
    have c1 : ((28 : Nat) == 1) = false := by decide
    simp only [c1, Bool.false_eq_true, if_false, beq_self_eq_true, if_true, Option.bind_eq_bind,
      ipv6P_lang hv (blanks_stop hb5 hws_not_hexcolon), Option.bind_some, hend, Option.pure_def]
    rw [rrNew_ok hraw hlen, hty]
  | name t n ls ht hn =>
    obtain ⟨hp, hrn⟩ := hostName_parse hn (hostStop_blanks hb5)
    have c1 : (ty == 1) = false := by rcases ht with h | h | h <;> simp [h]
    have c2 : (ty == 28) = false := by rcases ht with h | h | h <;> simp [h]
    have c3 : (ty == 2 || ty == 5 || ty == 12) = true := by rcases ht with h | h | h <;> simp [h]
    simp only [c1, c2, c3, Bool.false_eq_true, if_false, if_true, Option.bind_eq_bind, hp, Option.bind_some, hend, Option.pure_def]
    unfold buildName
    rw [hrn]
    simp only [bind_ok]
    rw [rrNew_ok hraw hlen, hty]
  | txt body vs hq hne hl =>
    have e : (34 :: (body ++ [34])) ++ b5 = 34 :: (body ++ 34 :: b5) := by simp
    rw [e]
    have c1 : ((16 : Nat) == 1) = false := by decide
    have c2 : ((16 : Nat) == 28) = false := by decide
    have c3 : ((16 : Nat) == 2 || (16 : Nat) == 5 || (16 : Nat) == 12) = false := by decide
    simp only [c1, c2, c3, Bool.false_eq_true, if_false, beq_self_eq_true, if_true, Option.bind_eq_bind,
      quotedP_lang hq hne, Option.bind_some, hend, Option.pure_def]
    unfold buildTxt
    consts
    have : ¬ (vs.length > (4096 - 12 - 1 - 10) / 256 * 255) := by omega
    simp only [failIf, this, decide_false, Bool.false_eq_true, if_false, bind_ok]
    rw [← txtWire_eq, rrNew_ok hraw hlen, hty]
  | mx p b n ls hp hpv hb hn =>
    obtain ⟨nc, nr, hnc, hnch⟩ := hostName_head hn
    obtain ⟨bc, br, hbc, hbch, _⟩ := blanks1_head hb
    obtain ⟨hpn, hrn⟩ := hostName_parse hn (hostStop_blanks hb5)
    have e : (p ++ (b ++ n)) ++ b5 = p ++ (b ++ (n ++ b5)) := by simp
    rw [e]
    have c1 : ((15 : Nat) == 1) = false := by decide
    have c2 : ((15 : Nat) == 28) = false := by decide
    have c3 : ((15 : Nat) == 2 || (15 : Nat) == 5 || (15 : Nat) == 12) = false := by decide
    have c4 : ((15 : Nat) == 16) = false := by decide
    have s1 : decimalMax 65535 (p ++ (b ++ (n ++ b5))) = some (decVal p, b ++ (n ++ b5)) :=
      decimalMax_lang hp.1 hp.2 (stop_of_head ⟨bc, br, hbc, hws_not_digit bc hbch⟩) hpv
    have s2 : skipHws1 (b ++ (n ++ b5)) = some (n ++ b5) :=
      skipHws1_lang hb.1 hb.2 (stop_of_head ⟨nc, nr, hnc, hostchar_not_hws nc hnch⟩)
    simp only [c1, c2, c3, c4, Bool.false_eq_true, if_false, beq_self_eq_true, if_true, Option.bind_eq_bind, s1, s2, hpn,
      Option.bind_some, hend, Option.pure_def]
    unfold buildMx
    rw [copyRaw_prefix]
    unfold rawNameFromStr at hrn
    rw [hrn]
    simp only [bind_ok]
    rw [rrNew_ok hraw hlen, hty]
  | ds tag b1 alg b2 dt b3 hex dg htag htv hb1 halg hav hb2 hdt hdv hb3 hhex hne =>
    obtain ⟨c1', r1', e1', h1'⟩ := blanks1_head hb1
    obtain ⟨c2', r2', e2', h2'⟩ := blanks1_head hb2
    obtain ⟨c3', r3', e3', h3'⟩ := blanks1_head hb3
    obtain ⟨ac, ar, hac, hacd⟩ := numeral_head halg
    obtain ⟨dc, dr, hdc, hdcd⟩ := numeral_head hdt
    have hexhead : ∃ c r, hex = c :: r ∧ isHws c = false := by
      cases hex with
      | nil => exact absurd rfl hne
      | cons c r =>
        refine ⟨c, r, rfl, ?_⟩
        have := hhex.digits c (by simp)
        cases hw : isHws c with
        | false => rfl
        | true => have := hws_not_hex c hw; simp_all
    have e : (tag ++ (b1 ++ (alg ++ (b2 ++ (dt ++ (b3 ++ hex)))))) ++ b5 = tag ++ (b1 ++ (alg ++ (b2 ++ (dt ++ (b3 ++ (hex ++ b5)))))) := by
      simp
    rw [e]
    have k1 : ((43 : Nat) == 1) = false := by decide
    have k2 : ((43 : Nat) == 28) = false := by decide
    have k3 : ((43 : Nat) == 2 || (43 : Nat) == 5 || (43 : Nat) == 12) = false := by decide
    have k4 : ((43 : Nat) == 16) = false := by decide
    have k5 : ((43 : Nat) == 15) = false := by decide
    have k6 : ((43 : Nat) == 6) = false := by decide
    have s1 : decimalMax 65535 (tag ++ (b1 ++ (alg ++ (b2 ++ (dt ++ (b3 ++ (hex ++ b5))))))) =
        some (decVal tag, b1 ++ (alg ++ (b2 ++ (dt ++ (b3 ++ (hex ++ b5)))))) :=
      decimalMax_lang htag.1 htag.2 (stop_of_head ⟨c1', r1', e1', hws_not_digit c1' h1'.1⟩) htv
    have s2 : skipHws1 (b1 ++ (alg ++ (b2 ++ (dt ++ (b3 ++ (hex ++ b5)))))) = some (alg ++ (b2 ++ (dt ++ (b3 ++ (hex ++ b5))))) :=
      skipHws1_lang hb1.1 hb1.2 (stop_of_head ⟨ac, ar, hac, digit_not_hws ac hacd⟩)
    have s3 : decimalMax 255 (alg ++ (b2 ++ (dt ++ (b3 ++ (hex ++ b5))))) = some (decVal alg, b2 ++ (dt ++ (b3 ++ (hex ++ b5)))) :=
      decimalMax_lang halg.1 halg.2 (stop_of_head ⟨c2', r2', e2', hws_not_digit c2' h2'.1⟩) hav
    have s4 : skipHws1 (b2 ++ (dt ++ (b3 ++ (hex ++ b5)))) = some (dt ++ (b3 ++ (hex ++ b5))) :=
      skipHws1_lang hb2.1 hb2.2 (stop_of_head ⟨dc, dr, hdc, digit_not_hws dc hdcd⟩)
    have s5 : decimalMax 255 (dt ++ (b3 ++ (hex ++ b5))) = some (decVal dt, b3 ++ (hex ++ b5)) :=
      decimalMax_lang hdt.1 hdt.2 (stop_of_head ⟨c3', r3', e3', hws_not_digit c3' h3'.1⟩) hdv
    have s6 : skipHws1 (b3 ++ (hex ++ b5)) = some (hex ++ b5) := skipHws1_lang hb3.1 hb3.2 (stop_of_head hexhead)
    have s7 : hexStringP (hex ++ b5) = some (dg, b5) := hexStringP_lang hhex hne (blanks_stop hb5 hws_not_hex)
    simp only [k1, k2, k3, k4, k5, k6, Bool.false_eq_true, if_false, beq_self_eq_true, if_true, Option.bind_eq_bind,
      s1, s2, s3, s4, s5, s6, s7, Option.bind_some, hend, Option.pure_def]
    unfold buildDs
    rw [rrNew_ok hraw hlen, hty]
  | soa ns b1 ct b2 w0 n1 w1 n2 w2 n3 w3 n4 w4 n5 w5 l1 l2 hns hb1 hct hb2 hw0 hn1 hw1 hn2 hw2 hn3 hw3 hn4 hw4 hn5 hw5
      v1 v2 v3 v4 v5 =>
    obtain ⟨cc, cr, hcc, hcch⟩ := hostName_head hct
    obtain ⟨hpns, hrns⟩ := hostName_parse hns (hostStop_blanks1 (rest := ct ++ (b2 ++ 40 :: (w0 ++ (n1 ++ (w1 ++ (n2 ++ (w2 ++ (n3 ++ (w3 ++ (n4 ++ (w4 ++ (n5 ++ (w5 ++ 41 :: b5))))))))))))) hb1)
    have hstop40 : HostStop (b2 ++ 40 :: (w0 ++ (n1 ++ (w1 ++ (n2 ++ (w2 ++ (n3 ++ (w3 ++ (n4 ++ (w4 ++ (n5 ++ (w5 ++ 41 :: b5)))))))))))) := by
      cases b2 with
      | nil => exact Or.inr ⟨40, _, rfl, by decide⟩
      | cons c r => exact Or.inr ⟨c, _, rfl, hws_not_host c (hb2 c (by simp))⟩
    obtain ⟨hpct, hrct⟩ := hostName_parse hct hstop40
    have e : (ns ++ (b1 ++ (ct ++ (b2 ++ 40 :: (w0 ++ (n1 ++ (w1 ++ (n2 ++ (w2 ++ (n3 ++ (w3 ++ (n4 ++ (w4 ++ (n5 ++ (w5 ++ [41]))))))))))))))) ++ b5 =
        ns ++ (b1 ++ (ct ++ (b2 ++ 40 :: (w0 ++ (n1 ++ (w1 ++ (n2 ++ (w2 ++ (n3 ++ (w3 ++ (n4 ++ (w4 ++ (n5 ++ (w5 ++ 41 :: b5)))))))))))))) := by
      simp
    rw [e]
    have k1 : ((6 : Nat) == 1) = false := by decide
    have k2 : ((6 : Nat) == 28) = false := by decide
    have k3 : ((6 : Nat) == 2 || (6 : Nat) == 5 || (6 : Nat) == 12) = false := by decide
    have k4 : ((6 : Nat) == 16) = false := by decide
    have k5 : ((6 : Nat) == 15) = false := by decide
    -- the pieces, from left to right
    have s1 : skipHws1 (b1 ++ (ct ++ (b2 ++ 40 :: (w0 ++ (n1 ++ (w1 ++ (n2 ++ (w2 ++ (n3 ++ (w3 ++ (n4 ++ (w4 ++ (n5 ++ (w5 ++ 41 :: b5))))))))))))) ) =
        some (ct ++ (b2 ++ 40 :: (w0 ++ (n1 ++ (w1 ++ (n2 ++ (w2 ++ (n3 ++ (w3 ++ (n4 ++ (w4 ++ (n5 ++ (w5 ++ 41 :: b5))))))))))))) :=
      skipHws1_lang hb1.1 hb1.2 (stop_of_head ⟨cc, cr, hcc, hostchar_not_hws cc hcch⟩)
    have s2 : skipWhile isHws (b2 ++ 40 :: (w0 ++ (n1 ++ (w1 ++ (n2 ++ (w2 ++ (n3 ++ (w3 ++ (n4 ++ (w4 ++ (n5 ++ (w5 ++ 41 :: b5)))))))))))) =
        40 :: (w0 ++ (n1 ++ (w1 ++ (n2 ++ (w2 ++ (n3 ++ (w3 ++ (n4 ++ (w4 ++ (n5 ++ (w5 ++ 41 :: b5))))))))))) :=
      skipWhile_lang hb2 (stopF_cons (by decide))
    have numstop : ∀ (w x : Bytes), Spaces1 w → StopF isDigit (w ++ x) := by
      intro w x hw
      obtain ⟨c, r, hc, hcw⟩ := spaces1_head hw
      exact stop_of_head ⟨c, r, hc, ws_not_digit c hcw⟩
    have wsstop : ∀ (n x : Bytes), Numeral n → StopF isWs (n ++ x) := by
      intro n x hn
      obtain ⟨c, r, hc, hcd⟩ := numeral_head hn
      exact stop_of_head ⟨c, r, hc, digit_not_ws c hcd⟩
    have a0 : skipWhile isWs (w0 ++ (n1 ++ (w1 ++ (n2 ++ (w2 ++ (n3 ++ (w3 ++ (n4 ++ (w4 ++ (n5 ++ (w5 ++ 41 :: b5))))))))))) =
        n1 ++ (w1 ++ (n2 ++ (w2 ++ (n3 ++ (w3 ++ (n4 ++ (w4 ++ (n5 ++ (w5 ++ 41 :: b5))))))))) := skipWhile_lang hw0 (wsstop _ _ hn1)
    have a1 : decimalMax 4294967295 (n1 ++ (w1 ++ (n2 ++ (w2 ++ (n3 ++ (w3 ++ (n4 ++ (w4 ++ (n5 ++ (w5 ++ 41 :: b5)))))))))) =
        some (decVal n1, w1 ++ (n2 ++ (w2 ++ (n3 ++ (w3 ++ (n4 ++ (w4 ++ (n5 ++ (w5 ++ 41 :: b5))))))))) :=
      decimalMax_lang hn1.1 hn1.2 (numstop _ _ hw1) v1
    have a2 : skipWhile isWs (w1 ++ (n2 ++ (w2 ++ (n3 ++ (w3 ++ (n4 ++ (w4 ++ (n5 ++ (w5 ++ 41 :: b5))))))))) =
        n2 ++ (w2 ++ (n3 ++ (w3 ++ (n4 ++ (w4 ++ (n5 ++ (w5 ++ 41 :: b5))))))) := skipWhile_lang hw1.2 (wsstop _ _ hn2)
    have a3 : decimalMax 4294967295 (n2 ++ (w2 ++ (n3 ++ (w3 ++ (n4 ++ (w4 ++ (n5 ++ (w5 ++ 41 :: b5)))))))) =
        some (decVal n2, w2 ++ (n3 ++ (w3 ++ (n4 ++ (w4 ++ (n5 ++ (w5 ++ 41 :: b5))))))) :=
      decimalMax_lang hn2.1 hn2.2 (numstop _ _ hw2) v2
    have a4 : skipWhile isWs (w2 ++ (n3 ++ (w3 ++ (n4 ++ (w4 ++ (n5 ++ (w5 ++ 41 :: b5))))))) =
        n3 ++ (w3 ++ (n4 ++ (w4 ++ (n5 ++ (w5 ++ 41 :: b5))))) := skipWhile_lang hw2.2 (wsstop _ _ hn3)
    have a5 : decimalMax 4294967295 (n3 ++ (w3 ++ (n4 ++ (w4 ++ (n5 ++ (w5 ++ 41 :: b5)))))) =
        some (decVal n3, w3 ++ (n4 ++ (w4 ++ (n5 ++ (w5 ++ 41 :: b5))))) :=
      decimalMax_lang hn3.1 hn3.2 (numstop _ _ hw3) v3
    have a6 : skipWhile isWs (w3 ++ (n4 ++ (w4 ++ (n5 ++ (w5 ++ 41 :: b5))))) =
        n4 ++ (w4 ++ (n5 ++ (w5 ++ 41 :: b5))) := skipWhile_lang hw3.2 (wsstop _ _ hn4)
    have a7 : decimalMax 4294967295 (n4 ++ (w4 ++ (n5 ++ (w5 ++ 41 :: b5)))) =
        some (decVal n4, w4 ++ (n5 ++ (w5 ++ 41 :: b5))) := decimalMax_lang hn4.1 hn4.2 (numstop _ _ hw4) v4
    have a8 : skipWhile isWs (w4 ++ (n5 ++ (w5 ++ 41 :: b5))) = n5 ++ (w5 ++ 41 :: b5) :=
      skipWhile_lang hw4.2 (wsstop _ _ hn5)
    have stop41 : StopF isDigit (w5 ++ 41 :: b5) := by
      cases w5 with
      | nil => exact stopF_cons (by decide)
      | cons c r => exact stopF_cons (ws_not_digit c (hw5 c (by simp)))
    have a9 : decimalMax 4294967295 (n5 ++ (w5 ++ 41 :: b5)) = some (decVal n5, w5 ++ 41 :: b5) :=
      decimalMax_lang hn5.1 hn5.2 stop41 v5
    have a10 : skipWhile isWs (w5 ++ 41 :: b5) = 41 :: b5 := skipWhile_lang hw5 (stopF_cons (by decide))
    simp only [k1, k2, k3, k4, k5, Bool.false_eq_true, if_false, beq_self_eq_true, if_true, Option.bind_eq_bind, hpns,
      Option.bind_some, s1, hpct, s2, tokenP_cons, a0, a1, a2, a3, a4, a5, a6, a7, a8, a9, a10, hend, Option.pure_def]
    unfold buildSoa
    unfold rawNameFromStr at hrns hrct
    rw [hrns]
    simp only [bind_ok]
    rw [copyRaw_prefix, hrct]
    simp only [bind_ok]
    have erd : encLabels l1 ++ [0] ++ (encLabels l2 ++ [0]) ++ (List.map put32 [decVal n1, decVal n2, decVal n3, decVal n4, decVal n5]).flatten =
        encLabels l1 ++ [0] ++ (encLabels l2 ++ [0]) ++
          (put32 (decVal n1) ++ put32 (decVal n2) ++ put32 (decVal n3) ++ put32 (decVal n4) ++ put32 (decVal n5)) := by
      simp
    rw [erd, rrNew_ok hraw hlen, hty]

end Dns

namespace Dns
open Res

theorem hexcolon_not_hws (c : UInt8) (h : (isHexDigit c || c == 58) = true) : isHws c = false := by
  cases hw : isHws c with
  | false => rfl
  | true => have := hws_not_hexcolon c hw; rw [h] at this; exact absurd this (by decide)

theorem rdata_head {ty : Nat} {rdt rd : Bytes} (h : RDataText ty rdt rd) : ∃ c r, rdt = c :: r ∧ isHws c = false := by
  cases h with
  | a d0 d1 d2 d3 n0 _ _ _ _ _ _ _ =>
    obtain ⟨c, r, hc, hd⟩ := numeral_head n0
    exact ⟨c, r ++ 46 :: (d1 ++ 46 :: (d2 ++ 46 :: d3)), by simp [hc], digit_not_hws c hd⟩
  | aaaa s gs hv =>
    obtain ⟨hne, hch⟩ := v6Text_chars hv
    cases hrdt : rdt with
    | nil => exact absurd hrdt hne
    | cons c r => exact ⟨c, r, rfl, hexcolon_not_hws c (hch c (by simp [hrdt]))⟩
  | name t n ls _ hn =>
    obtain ⟨c, r, hc, hh⟩ := hostName_head hn
    exact ⟨c, r, hc, hostchar_not_hws c hh⟩
  | txt body vs _ _ _ => exact ⟨34, body ++ [34], rfl, by decide⟩
  | mx p b n ls hp _ _ _ =>
    obtain ⟨c, r, hc, hd⟩ := numeral_head hp
    exact ⟨c, r ++ (b ++ n), by simp [hc], digit_not_hws c hd⟩
  | soa ns b1 ct b2 w0 n1 w1 n2 w2 n3 w3 n4 w4 n5 w5 l1 l2 hns _ _ _ _ _ _ _ _ _ _ _ _ _ _ _ _ _ _ _ =>
    obtain ⟨c, r, hc, hh⟩ := hostName_head hns
    exact ⟨c, _, by rw [hc]; rfl, hostchar_not_hws c hh⟩
  | ds tag b1 alg b2 dt b3 hex dg htag _ _ _ _ _ _ _ _ _ _ =>
    obtain ⟨c, r, hc, hd⟩ := numeral_head htag
    exact ⟨c, _, by rw [hc]; rfl, digit_not_hws c hd⟩

/-- **every text of the grammar synthesises to the wire record it stands for** -/
theorem synth_complete {t rr : Bytes} (h : RecordText t rr) : synth t = .ok rr := by
  obtain ⟨b0, owner, b1, ttl, b2, cI, cN, b3, tw, b4, rdt, b5, rd, ols, ty, ht, hb0, hown, hb1, httl, hv, hb2, hI, hN, hb3,
    htw, hb4, hrd, hb5, hlen, hrr⟩ := h
  have hcommon := commonP_lang (rest := rdt ++ b5) hb0 hown hb1 httl hv hb2 hI hN hb3 htw hb4 (stop_of_head (rdata_head hrd))
  have hraw := (hostName_parse hown (hostStop_blanks (b := []) (by intro c hc; simp at hc))).2
  unfold synth
  rw [ht, hcommon]
  simp only
  rw [rdataP_lang (h := { name := owner, ttl := decVal ttl, rrType := ty }) hrd hb5 hraw hlen]
  simp only
  rw [hrr]

end Dns
