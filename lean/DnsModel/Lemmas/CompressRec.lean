/-
  Lemmas.CompressRec — compressing one record of a pointer-free packet.
-/
import DnsModel.Lemmas.Plain
namespace Dns
open Res

/-- compressing the pointer-free name at `off` after *any* output of length `n` for which the
dictionary is sound: the bytes appended and the new dictionary are the same for all of them -/
theorem copyName_any {p : Bytes} {off : Nat} {ls : List (List UInt8)} (h : PlainAt p off ls) (dict : SuffixDict)
    (n : Nat) (X0 : Bytes) (hX0 : X0.length = n) (hinv0 : DictInv dict X0) :
    ∃ (dict' : SuffixDict) (em : Bytes),
      (∀ out2 : Bytes, out2.length = n →
        copyCompressedName dict out2 p off = .ok (dict', out2 ++ em, em.length, off + (labSum ls + 1))) ∧
      em.length ≤ labSum ls + 1 ∧ 0 < em.length ∧
      (∀ X : Bytes, X.length = n → DictInv dict X →
        DictInv dict' (X ++ em) ∧ ∃ ls', lsCi ls' ls ∧ ∀ t : Bytes, ValidName (X ++ em ++ t) n ls' (n + em.length)) := by
  obtain ⟨dict', em, ls0, hrun0, hgen0, hle, hpos, _, _, _⟩ := copyName_packet h X0 dict hinv0
  refine ⟨dict', em, fun out2 hl => hgen0 out2 (by omega), hle, hpos, ?_⟩
  intro X hX hinv
  obtain ⟨dX, emX, lsX, hrunX, _, _, _, hciX, hvalX, hdX⟩ := copyName_packet h X dict hinv
  have := hgen0 X (by omega)
  rw [hrunX] at this
  simp only [ok.injEq, Prod.mk.injEq] at this
  obtain ⟨e1, e2, _, _⟩ := this
  have e2' : emX = em := List.append_cancel_left e2
  subst e1; subst e2'
  refine ⟨hdX, lsX, hciX, ?_⟩
  intro t
  have := hvalX t
  rw [hX] at this; exact this

/-! ### pointer-free records -/

/-- the data of a record of type `t` is written without pointers -/
def PlainRd (u : Bytes) (t l rs : Nat) : Prop :=
  if t = 2 ∨ t = 5 ∨ t = 12 then ∃ ls, PlainAt u rs ls ∧ l = labSum ls + 1
  else if t = 15 then ∃ ls, PlainAt u (rs + 2) ls ∧ l = 2 + (labSum ls + 1)
  else if t = 6 then ∃ l1 l2, PlainAt u rs l1 ∧ PlainAt u (rs + (labSum l1 + 1)) l2 ∧
      l = (labSum l1 + 1) + (labSum l2 + 1) + 20
  else True

/-- the record at `r` is written without pointers -/
def PlainRec (u : Bytes) (r : RecPos) : Prop :=
  ∃ owner, PlainAt u r.off owner ∧ r.ne = r.off + (labSum owner + 1) ∧
    PlainRd u (get16 u r.ne) (get16 u (r.ne + 8)) (r.ne + 10)

/-! ### equality of records up to the case of names -/

def RdCi (u B : Bytes) (t l rs l' rs' : Nat) : Prop :=
  if t = 2 ∨ t = 5 ∨ t = 12 then
    ∃ ls ls', ValidName u rs ls (rs + l) ∧ ValidName B rs' ls' (rs' + l') ∧ lsCi ls' ls
  else if t = 15 then
    (B.drop rs').take 2 = (u.drop rs).take 2 ∧
      ∃ ls ls', ValidName u (rs + 2) ls (rs + l) ∧ ValidName B (rs' + 2) ls' (rs' + l') ∧ lsCi ls' ls
  else if t = 6 then
    ∃ l1 l2 l1' l2' e1 e1', ValidName u rs l1 e1 ∧ ValidName u e1 l2 (rs + l - 20) ∧
      ValidName B rs' l1' e1' ∧ ValidName B e1' l2' (rs' + l' - 20) ∧ lsCi l1' l1 ∧ lsCi l2' l2 ∧
      (B.drop (rs' + l' - 20)).take 20 = (u.drop (rs + l - 20)).take 20
  else l' = l ∧ (B.drop rs').take l = (u.drop rs).take l

/-- record `r'` of `B` is record `r` of `u` up to the case of names: owner and data names have labels
equal up to case, the eight fixed bytes and all other data are identical -/
def RecCi (u : Bytes) (r : RecPos) (B : Bytes) (r' : RecPos) : Prop :=
  ∃ owner owner', ValidName u r.off owner r.ne ∧ ValidName B r'.off owner' r'.ne ∧ lsCi owner' owner ∧
    (B.drop r'.ne).take 8 = (u.drop r.ne).take 8 ∧
    RdCi u B (get16 u r.ne) (get16 u (r.ne + 8)) (r.ne + 10) (get16 B (r'.ne + 8)) (r'.ne + 10)

end Dns

namespace Dns
open Res

theorem take10_split {u : Bytes} {ne : Nat} (h : ne + 10 ≤ u.length) :
    (u.drop ne).take 10 = (u.drop ne).take 8 ++ put16 (get16 u (ne + 8)) := by
  have e : (10 : Nat) = 8 + 2 := rfl
  rw [e, take_split, List.drop_drop, put16_get16 (by omega)]

/-- data of what the compressor writes for a record: NS / CNAME / PTR -/
theorem compressRdata_ns {u : Bytes} {ne l : Nat} {ls : List (List UInt8)} (h10 : ne + 10 ≤ u.length)
    (hp : PlainAt u (ne + 10) ls) (hl : l = labSum ls + 1) (t : Nat) (ht : t = 2 ∨ t = 5 ∨ t = 12)
    (dict1 : SuffixDict) (O1 : Bytes) (hinv : DictInv dict1 O1) :
    ∃ (dict' : SuffixDict) (em : Bytes) (ls' : List (List UInt8)),
      compressRdata dict1 O1 u ne (some t) (some l) =
        .ok (dict', O1 ++ ((u.drop ne).take 8 ++ put16 em.length ++ em)) ∧
      em.length ≤ l ∧ 0 < em.length ∧ lsCi ls' ls ∧
      DictInv dict' (O1 ++ ((u.drop ne).take 8 ++ put16 em.length ++ em)) ∧
      ∀ tl : Bytes, ValidName (O1 ++ ((u.drop ne).take 8 ++ put16 em.length ++ em) ++ tl) (O1.length + 10) ls'
        (O1.length + 10 + em.length) := by
  have hf8 : ((u.drop ne).take 8).length = 8 := length_take_drop (by omega)
  have hh10 : ((u.drop ne).take 10).length = 10 := length_take_drop (by omega)
  obtain ⟨dict', em, hgen, hle, hpos, hall⟩ := copyName_any hp dict1 (O1.length + 10)
    (O1 ++ ((u.drop ne).take 8 ++ [0, 0])) (by simp [hf8]) (hinv.append _)
  have hX : (O1 ++ ((u.drop ne).take 8 ++ put16 em.length)).length = O1.length + 10 := by simp [hf8, put16]
  obtain ⟨hd', ls', hci, hval⟩ := hall (O1 ++ ((u.drop ne).take 8 ++ put16 em.length)) hX (hinv.append _)
  have hemlt : em.length < 65536 := by
    have := hp.2.2.1; rw [wireLen_eq] at this; omega
  refine ⟨dict', em, ls', ?_, by omega, hpos, hci, by simpa [List.append_assoc] using hd', ?_⟩
  · unfold compressRdata
    have hsl : sliceFrom u ne = .ok (u.drop ne) := by simp [sliceFrom]; omega
    have hcond : (t == TYPE_NS || t == TYPE_CNAME || t == TYPE_PTR) = true := by
      consts; rcases ht with h | h | h <;> simp [h]
    simp only [hsl, bind_ok, hcond, if_true]
    consts
    rw [slice_ok ⟨by omega, by omega⟩]
    have e : ne + 10 - ne = 10 := by omega
    simp only [bind_ok, e]
    rw [hgen (O1 ++ (u.drop ne).take 10) (by simp [hh10])]
    simp only [bind_ok]
    rw [patch16_mid O1 ((u.drop ne).take 10) em _ (by omega) hemlt]
    have t8 : ((u.drop ne).take 10).take 8 = (u.drop ne).take 8 := by rw [List.take_take]; simp
    have d10 : ((u.drop ne).take 10).drop 10 = [] := by apply List.drop_of_length_le; omega
    rw [t8, d10]
    simp
  · intro tl
    have := hval tl
    simpa [List.append_assoc] using this

/-- MX -/
theorem compressRdata_mx {u : Bytes} {ne l : Nat} {ls : List (List UInt8)} (h12 : ne + 12 ≤ u.length)
    (hp : PlainAt u (ne + 10 + 2) ls) (hl : l = 2 + (labSum ls + 1))
    (dict1 : SuffixDict) (O1 : Bytes) (hinv : DictInv dict1 O1) :
    ∃ (dict' : SuffixDict) (em : Bytes) (ls' : List (List UInt8)),
      compressRdata dict1 O1 u ne (some 15) (some l) =
        .ok (dict', O1 ++ ((u.drop ne).take 8 ++ put16 (2 + em.length) ++ ((u.drop (ne + 10)).take 2 ++ em))) ∧
      2 + em.length ≤ l ∧ 0 < em.length ∧ lsCi ls' ls ∧
      DictInv dict' (O1 ++ ((u.drop ne).take 8 ++ put16 (2 + em.length) ++ ((u.drop (ne + 10)).take 2 ++ em))) ∧
      ∀ tl : Bytes, ValidName (O1 ++ ((u.drop ne).take 8 ++ put16 (2 + em.length) ++ ((u.drop (ne + 10)).take 2 ++ em)) ++ tl)
        (O1.length + 10 + 2) ls' (O1.length + 10 + 2 + em.length) := by
  have hf8 : ((u.drop ne).take 8).length = 8 := length_take_drop (by omega)
  have hp2 : ((u.drop (ne + 10)).take 2).length = 2 := length_take_drop (by omega)
  have hh12 : ((u.drop ne).take (10 + 2)).length = 12 := length_take_drop (by omega)
  obtain ⟨dict', em, hgen, hle, hpos, hall⟩ := copyName_any hp dict1 (O1.length + 12)
    (O1 ++ ((u.drop ne).take 8 ++ [0, 0] ++ (u.drop (ne + 10)).take 2)) (by simp [hf8, hp2]) (hinv.append _)
  have hX : (O1 ++ ((u.drop ne).take 8 ++ put16 (2 + em.length) ++ (u.drop (ne + 10)).take 2)).length = O1.length + 12 := by
    simp [hf8, hp2, put16]
  obtain ⟨hd', ls', hci, hval⟩ := hall _ hX (hinv.append _)
  have hemlt : 2 + em.length < 65536 := by
    have := hp.2.2.1; rw [wireLen_eq] at this; omega
  refine ⟨dict', em, ls', ?_, by omega, hpos, hci, by simpa [List.append_assoc] using hd', ?_⟩
  · unfold compressRdata
    have hsl : sliceFrom u ne = .ok (u.drop ne) := by simp [sliceFrom]; omega
    have hc1 : ((15 : Nat) == TYPE_NS || (15 : Nat) == TYPE_CNAME || (15 : Nat) == TYPE_PTR) = false := by decide
    have hc2 : ((15 : Nat) == TYPE_MX) = true := by decide
    simp only [hsl, bind_ok, hc1, hc2, Bool.false_eq_true, if_false, if_true]
    consts
    rw [slice_ok ⟨by omega, by omega⟩]
    have e : ne + 10 + 2 - ne = 10 + 2 := by omega
    simp only [bind_ok, e]
    rw [hgen (O1 ++ (u.drop ne).take (10 + 2)) (by simp [hh12])]
    simp only [bind_ok]
    rw [patch16_mid O1 ((u.drop ne).take (10 + 2)) em _ (by omega) hemlt]
    have t8 : ((u.drop ne).take (10 + 2)).take 8 = (u.drop ne).take 8 := by rw [List.take_take]; simp
    have d10 : ((u.drop ne).take (10 + 2)).drop 10 = (u.drop (ne + 10)).take 2 := by rw [List.drop_take, List.drop_drop]
    rw [t8, d10]
    simp
  · intro tl
    have := hval tl
    have e : O1.length + 12 = O1.length + 10 + 2 := by omega
    rw [e] at this
    simpa [List.append_assoc] using this

end Dns

namespace Dns
open Res

/-- SOA -/
theorem compressRdata_soa {u : Bytes} {ne l : Nat} {l1 l2 : List (List UInt8)} (h10 : ne + 10 ≤ u.length)
    (hp1 : PlainAt u (ne + 10) l1) (hp2 : PlainAt u (ne + 10 + (labSum l1 + 1)) l2)
    (hl : l = (labSum l1 + 1) + (labSum l2 + 1) + 20) (hfit : ne + 10 + l ≤ u.length)
    (dict1 : SuffixDict) (O1 : Bytes) (hinv : DictInv dict1 O1) :
    ∃ (dict' : SuffixDict) (em1 em2 : Bytes) (l1' l2' : List (List UInt8)),
      let soaMeta := (u.drop (ne + 10 + l - 20)).take 20
      let rd := em1 ++ em2 ++ soaMeta
      compressRdata dict1 O1 u ne (some 6) (some l) = .ok (dict', O1 ++ ((u.drop ne).take 8 ++ put16 rd.length ++ rd)) ∧
      em1.length ≤ labSum l1 + 1 ∧ em2.length ≤ labSum l2 + 1 ∧ 0 < em1.length ∧ 0 < em2.length ∧
      lsCi l1' l1 ∧ lsCi l2' l2 ∧
      DictInv dict' (O1 ++ ((u.drop ne).take 8 ++ put16 rd.length ++ rd)) ∧
      ∀ tl : Bytes,
        ValidName (O1 ++ ((u.drop ne).take 8 ++ put16 rd.length ++ rd) ++ tl) (O1.length + 10) l1' (O1.length + 10 + em1.length) ∧
        ValidName (O1 ++ ((u.drop ne).take 8 ++ put16 rd.length ++ rd) ++ tl) (O1.length + 10 + em1.length) l2'
          (O1.length + 10 + em1.length + em2.length) := by
  have hf8 : ((u.drop ne).take 8).length = 8 := length_take_drop (by omega)
  have hh10 : ((u.drop ne).take 10).length = 10 := length_take_drop (by omega)
  have hm : ((u.drop (ne + 10 + l - 20)).take 20).length = 20 := length_take_drop (by omega)
  -- first name, then second name, for any 10-byte header
  obtain ⟨dict2, em1, hgen1, hle1, hpos1, hall1⟩ := copyName_any hp1 dict1 (O1.length + 10)
    (O1 ++ ((u.drop ne).take 8 ++ [0, 0])) (by simp [hf8]) (hinv.append _)
  have hX0 : (O1 ++ ((u.drop ne).take 8 ++ [0, 0])).length = O1.length + 10 := by simp [hf8]
  obtain ⟨hd20, _⟩ := hall1 _ hX0 (hinv.append _)
  obtain ⟨dict3, em2, hgen2, hle2, hpos2, hall2⟩ := copyName_any hp2 dict2 (O1.length + 10 + em1.length)
    (O1 ++ ((u.drop ne).take 8 ++ [0, 0]) ++ em1) (by simp [hf8]; omega) hd20
  refine ⟨dict3, em1, em2, ?_⟩
  have hrdlen : (em1 ++ em2 ++ (u.drop (ne + 10 + l - 20)).take 20).length = em1.length + em2.length + 20 := by
    simp only [List.length_append, hm]
  have hw1 := hp1.2.2.1
  have hw2 := hp2.2.2.1
  rw [wireLen_eq] at hw1 hw2
  have hlt : em1.length + em2.length + 20 < 65536 := by omega
  have hX1 : (O1 ++ ((u.drop ne).take 8 ++ put16 (em1.length + em2.length + 20))).length = O1.length + 10 := by
    simp [hf8, put16]
  obtain ⟨hd2, l1', hci1, hval1⟩ := hall1 _ hX1 (hinv.append _)
  have hX2 : (O1 ++ ((u.drop ne).take 8 ++ put16 (em1.length + em2.length + 20)) ++ em1).length = O1.length + 10 + em1.length := by
    rw [List.length_append, hX1]
  obtain ⟨hd3, l2', hci2, hval2⟩ := hall2 _ hX2 hd2
  refine ⟨l1', l2', ?_, hle1, hle2, hpos1, hpos2, hci1, hci2, ?_, ?_⟩
  · unfold compressRdata
    have hsl : sliceFrom u ne = .ok (u.drop ne) := by simp [sliceFrom]; omega
    have hc1 : ((6 : Nat) == TYPE_NS || (6 : Nat) == TYPE_CNAME || (6 : Nat) == TYPE_PTR) = false := by decide
    have hc2 : ((6 : Nat) == TYPE_MX) = false := by decide
    have hc3 : ((6 : Nat) == TYPE_SOA) = true := by decide
    simp only [hsl, bind_ok, hc1, hc2, hc3, Bool.false_eq_true, if_false, if_true]
    consts
    rw [slice_ok ⟨by omega, by omega⟩]
    have e : ne + 10 - ne = 10 := by omega
    simp only [bind_ok, e]
    rw [hgen1 (O1 ++ (u.drop ne).take 10) (by simp [hh10])]
    simp only [bind_ok]
    rw [hgen2 (O1 ++ (u.drop ne).take 10 ++ em1) (by simp [hh10]; omega)]
    simp only [bind_ok]
    have ef2 : ne + 10 + (labSum l1 + 1) + (labSum l2 + 1) = ne + 10 + l - 20 := by omega
    rw [ef2, slice_ok ⟨by omega, by omega⟩]
    have e20 : ne + 10 + l - 20 + 20 - (ne + 10 + l - 20) = 20 := by omega
    simp only [bind_ok, e20]
    have assoc : O1 ++ (u.drop ne).take 10 ++ em1 ++ em2 ++ (u.drop (ne + 10 + l - 20)).take 20 =
        O1 ++ (u.drop ne).take 10 ++ (em1 ++ em2 ++ (u.drop (ne + 10 + l - 20)).take 20) := by simp
    rw [assoc, patch16_mid O1 ((u.drop ne).take 10) _ _ (by omega) hlt]
    have t8 : ((u.drop ne).take 10).take 8 = (u.drop ne).take 8 := by rw [List.take_take]; simp
    have d10 : ((u.drop ne).take 10).drop 10 = [] := by apply List.drop_of_length_le; omega
    rw [t8, d10, hrdlen]
    simp
  · rw [hrdlen]
    have := hd3.append ((u.drop (ne + 10 + l - 20)).take 20)
    simpa [List.append_assoc] using this
  · intro tl
    rw [hrdlen]
    have v1 := hval1 (em2 ++ (u.drop (ne + 10 + l - 20)).take 20 ++ tl)
    have v2 := hval2 ((u.drop (ne + 10 + l - 20)).take 20 ++ tl)
    exact ⟨by simpa [List.append_assoc] using v1, by simpa [List.append_assoc] using v2⟩

/-- all other types (OPT included): the data is copied as it is -/
theorem compressRdata_verbatim {u : Bytes} {ne l t : Nat} (hfit : ne + 10 + l ≤ u.length) (hl : l = get16 u (ne + 8))
    (h1 : ¬ (t = 2 ∨ t = 5 ∨ t = 12)) (h2 : t ≠ 15) (h3 : t ≠ 6) (dict1 : SuffixDict) (O1 : Bytes) :
    compressRdata dict1 O1 u ne (some t) (some l) =
      .ok (dict1, O1 ++ ((u.drop ne).take 8 ++ put16 ((u.drop (ne + 10)).take l).length ++ (u.drop (ne + 10)).take l)) := by
  unfold compressRdata
  have hsl : sliceFrom u ne = .ok (u.drop ne) := by simp [sliceFrom]; omega
  have hc1 : (t == TYPE_NS || t == TYPE_CNAME || t == TYPE_PTR) = false := by
    consts; simp at h1 ⊢; exact ⟨⟨h1.1, h1.2.1⟩, h1.2.2⟩
  have hc2 : (t == TYPE_MX) = false := by consts; simp [h2]
  have hc3 : (t == TYPE_SOA) = false := by consts; simp [h3]
  simp only [hsl, bind_ok, hc1, hc2, hc3, Bool.false_eq_true, if_false, unwrap]
  consts
  rw [slice_ok ⟨by omega, by omega⟩]
  simp only [bind_ok, pure_eq]
  congr 2
  have e : ne + 10 + l - ne = 8 + (2 + l) := by omega
  rw [e, take_split, take_split, List.drop_drop, List.drop_drop, length_take_drop hfit]
  have : (u.drop (ne + 8)).take 2 = put16 (get16 u (ne + 8)) := put16_get16 (by omega)
  rw [this, ← hl]
  have e2 : ne + 8 + 2 = ne + 10 := by omega
  rw [e2]
  simp

end Dns

namespace Dns
open Res

/-- putting the pieces of a compressed record together: owner name, the eight fixed bytes, the new
data length, the data -/
theorem record_assemble {u : Bytes} {sec : Section} {r : RecPos} {ob oa : Bool} (hr : RRAtPos u sec r ob oa)
    {owner owner' : List (List UInt8)} (hpo : PlainAt u r.off owner) (hne : r.ne = r.off + (labSum owner + 1))
    (out cname : Bytes) (hci1 : lsCi owner' owner) (hlen1 : cname.length ≤ labSum owner + 1) (hpos1 : 0 < cname.length)
    (hval1 : ∀ t : Bytes, ValidName (out ++ cname ++ t) out.length owner' (out.length + cname.length))
    (rdem : Bytes) (hlt : rdem.length < 65536) (tl : Bytes)
    (hb : (if get16 u r.ne = 41 then
            ∃ n, OptionsTile (out ++ (cname ++ ((u.drop r.ne).take 8 ++ put16 rdem.length ++ rdem)) ++ tl)
              (out.length + cname.length + 10) (out.length + cname.length + 10 + rdem.length) n
          else RDataOK (out ++ (cname ++ ((u.drop r.ne).take 8 ++ put16 rdem.length ++ rdem)) ++ tl) (get16 u r.ne)
              rdem.length (out.length + cname.length + 10)) ∧
        RdCi u (out ++ (cname ++ ((u.drop r.ne).take 8 ++ put16 rdem.length ++ rdem)) ++ tl) (get16 u r.ne)
          (get16 u (r.ne + 8)) (r.ne + 10) rdem.length (out.length + cname.length + 10)) :
    let B := out ++ (cname ++ ((u.drop r.ne).take 8 ++ put16 rdem.length ++ rdem)) ++ tl
    let r' : RecPos := ⟨out.length, out.length + cname.length,
      out.length + (cname ++ ((u.drop r.ne).take 8 ++ put16 rdem.length ++ rdem)).length⟩
    RRAtPos B sec r' ob oa ∧ get16 B r'.ne = get16 u r.ne ∧ RecCi u r B r' := by
  intro B r'
  obtain ⟨_, h10, hnext, hfit, hbody⟩ := hr
  have hf8 : ((u.drop r.ne).take 8).length = 8 := length_take_drop (by omega)
  have eB1 : B = out ++ cname ++ ((u.drop r.ne).take 8 ++ put16 rdem.length ++ rdem ++ tl) := by simp [B]
  have eB2 : B = (out ++ cname) ++ (u.drop r.ne).take 8 ++ (put16 rdem.length ++ rdem ++ tl) := by simp [B]
  have eB3 : B = (out ++ cname ++ (u.drop r.ne).take 8) ++ put16 rdem.length ++ (rdem ++ tl) := by simp [B]
  have hA1 : (out ++ cname).length = out.length + cname.length := by simp
  have hA2 : (out ++ cname ++ (u.drop r.ne).take 8).length = out.length + cname.length + 8 := by
    rw [List.length_append, hA1, hf8]
  have hvo : ValidName B out.length owner' (out.length + cname.length) := by rw [eB1]; exact hval1 _
  have hag8 : Agree u B r.ne (out.length + cname.length) 8 := by
    have := agree_of_eq (p := u) eB2 (by omega : r.ne + 8 ≤ u.length)
    rw [hA1] at this; exact this
  have hty : get16 B (out.length + cname.length) = get16 u r.ne := by
    have := hag8.get16 (i := 0) (by omega); simpa using this
  have hl' : get16 B (out.length + cname.length + 8) = rdem.length := by
    have := get16_put16_at eB3 hlt
    rw [hA2] at this; exact this
  have hBlen : B.length = out.length + cname.length + 10 + rdem.length + tl.length := by
    simp only [B, List.length_append, hf8, put16, List.length_cons, List.length_nil]; omega
  have hpl : (cname ++ ((u.drop r.ne).take 8 ++ put16 rdem.length ++ rdem)).length = cname.length + 10 + rdem.length := by
    simp only [List.length_append, hf8, put16, List.length_cons, List.length_nil]; omega
  have hwin8 : (B.drop (out.length + cname.length)).take 8 = (u.drop r.ne).take 8 := by
    have := window_eq eB2
    rw [hA1, hf8] at this; exact this
  have hvu : ValidName u r.off owner r.ne := by rw [hne]; have := hpo.valid; simpa [Nat.add_assoc] using this
  refine ⟨⟨⟨owner', hvo⟩, by simp only [r']; omega, by simp only [r']; rw [hl', hpl]; omega,
    by simp only [r']; rw [hpl]; omega, ?_⟩, hty, ⟨owner, owner', hvu, hvo, hci1, hwin8, ?_⟩⟩
  · simp only [r']
    rw [hty, hl']
    by_cases h41 : get16 u r.ne = 41
    · simp only [h41, if_true] at hbody hb ⊢
      obtain ⟨hsec, hroot, hob, hoa, _⟩ := hbody
      have hown : owner = [] := by
        have := hvu; rw [hroot] at this; exact owner_nil this
      subst hown
      simp [labSum] at hlen1
      obtain ⟨⟨n, ht⟩, _⟩ := hb
      refine ⟨hsec, by omega, hob, hoa, n, ?_⟩
      rw [hpl]
      have e : out.length + (cname.length + 10 + rdem.length) = out.length + cname.length + 10 + rdem.length := by omega
      rw [e]; exact ht
    · simp only [h41, if_false] at hbody hb ⊢
      exact ⟨hb.1, hbody.2⟩
  · simp only [r']
    rw [hl']
    exact hb.2

end Dns

namespace Dns
open Res

/-- **one record compressed**: never longer, a record of the policy in every extension of the
output, equal to the input record up to the case of names; the dictionary stays sound -/
theorem compress_record {pp : PP} {sec : Section} {r : RecPos} {ob oa : Bool}
    (hr : RRAtPos pp.packet sec r ob oa) (hp : PlainRec pp.packet r) (c : Cursor) (hc : posOf c = some r)
    (dict : SuffixDict) (out : Bytes) (hinv : DictInv dict out) :
    ∃ (dict' : SuffixDict) (piece : Bytes),
      compressItem pp true (dict, out) c = .ok (dict', out ++ piece) ∧
      piece.length ≤ r.next - r.off ∧ DictInv dict' (out ++ piece) ∧
      ∀ tl : Bytes, ∃ ne', RRAtPos (out ++ piece ++ tl) sec ⟨out.length, ne', out.length + piece.length⟩ ob oa ∧
        get16 (out ++ piece ++ tl) ne' = get16 pp.packet r.ne ∧
        RecCi pp.packet r (out ++ piece ++ tl) ⟨out.length, ne', out.length + piece.length⟩ := by
  obtain ⟨owner, hpo, hne, hprd⟩ := hp
  obtain ⟨_, _, _, _, hty, _, _, hlen⟩ := C03.accessors hr c hc
  have hoff : c.offset = some r.off ∧ c.nameEnd = r.ne := by
    unfold posOf at hc
    cases ho : c.offset with
    | none => simp [ho] at hc
    | some o =>
      simp [ho] at hc
      have e1 : o = r.off := by have := congrArg RecPos.off hc; simpa using this
      have e2 : c.nameEnd = r.ne := by have := congrArg RecPos.ne hc; simpa using this
      exact ⟨by rw [e1], e2⟩
  have hr' := hr
  obtain ⟨_, h10, hnext, hfit, hbody⟩ := hr'
  obtain ⟨dict1, cname, owner', run1, _, hle1, hpos1, hci1, hval1, hd1⟩ := copyName_packet hpo out dict hinv
  have hf8 : ((pp.packet.drop r.ne).take 8).length = 8 := length_take_drop (by omega)
  have hfit' : r.ne + 10 + get16 pp.packet (r.ne + 8) ≤ pp.packet.length := by omega
  have hstart : compressItem pp true (dict, out) c =
      compressRdata dict1 (out ++ cname) pp.packet r.ne (some (get16 pp.packet r.ne)) (some (get16 pp.packet (r.ne + 8))) := by
    unfold compressItem
    simp only [hoff.1, hoff.2, unwrap, bind_ok, run1, hty, hlen, if_true]
  have hspan : r.next - r.off = (labSum owner + 1) + 10 + get16 pp.packet (r.ne + 8) := by omega
  have eB : ∀ X tl : Bytes, out ++ (cname ++ X) ++ tl = (out ++ cname) ++ X ++ tl := by intro X tl; simp
  have hO1 : (out ++ cname).length = out.length + cname.length := by simp
  rw [hstart]
  by_cases hns : get16 pp.packet r.ne = 2 ∨ get16 pp.packet r.ne = 5 ∨ get16 pp.packet r.ne = 12
  · unfold PlainRd at hprd
    simp only [hns, if_true] at hprd
    obtain ⟨ls, hpl, hl⟩ := hprd
    obtain ⟨dict', em, ls', hrun, hle, hpos, hci, hd', hval⟩ :=
      compressRdata_ns h10 hpl hl _ hns dict1 (out ++ cname) hd1
    have hw := hpl.2.2.1; rw [wireLen_eq] at hw
    refine ⟨dict', cname ++ ((pp.packet.drop r.ne).take 8 ++ put16 em.length ++ em), by rw [hrun]; simp, ?_,
      by simpa [List.append_assoc] using hd', ?_⟩
    · simp only [List.length_append, hf8, put16, List.length_cons, List.length_nil]; omega
    · intro tl
      have h41 : get16 pp.packet r.ne ≠ 41 := by omega
      have := record_assemble hr hpo hne out cname hci1 hle1 hpos1 hval1 em (by omega) tl (by
        rw [eB]
        have hv := hval tl
        rw [hO1] at hv
        simp only [h41, if_false]
        refine ⟨?_, ?_⟩
        · unfold RDataOK; simp only [hns, if_true]; exact ⟨by omega, ls', hv⟩
        · unfold RdCi; simp only [hns, if_true]
          refine ⟨ls, ls', ?_, hv, hci⟩
          have := hpl.valid; rw [hl]; simpa [Nat.add_assoc] using this)
      exact ⟨_, this⟩
  by_cases hmx : get16 pp.packet r.ne = 15
  · unfold PlainRd at hprd
    simp only [hns, hmx, if_true, if_false] at hprd
    have c1 : ¬ ((15 : Nat) = 2 ∨ (15 : Nat) = 5 ∨ (15 : Nat) = 12) := by decide
    simp only [c1, if_false, if_true] at hprd
    obtain ⟨ls, hpl, hl⟩ := hprd
    have h12 : r.ne + 12 ≤ pp.packet.length := by omega
    obtain ⟨dict', em, ls', hrun, hle, hpos, hci, hd', hval⟩ :=
      compressRdata_mx h12 hpl hl dict1 (out ++ cname) hd1
    have hw := hpl.2.2.1; rw [wireLen_eq] at hw
    have hp2 : ((pp.packet.drop (r.ne + 10)).take 2).length = 2 := length_take_drop (by omega)
    have hrdl : ((pp.packet.drop (r.ne + 10)).take 2 ++ em).length = 2 + em.length := by rw [List.length_append, hp2]
    rw [← hrdl] at hrun hd' hval
    have hrun' := hrun
    rw [← hmx] at hrun'
    rw [hrun']
    refine ⟨dict', cname ++ ((pp.packet.drop r.ne).take 8 ++ put16 ((pp.packet.drop (r.ne + 10)).take 2 ++ em).length ++
      ((pp.packet.drop (r.ne + 10)).take 2 ++ em)), by simp, ?_, by simpa [List.append_assoc] using hd', ?_⟩
    · simp only [List.length_append, hf8, hp2, put16, List.length_cons, List.length_nil]; omega
    · intro tl
      have h41 : get16 pp.packet r.ne ≠ 41 := by omega
      have := record_assemble hr hpo hne out cname hci1 hle1 hpos1 hval1 ((pp.packet.drop (r.ne + 10)).take 2 ++ em)
        (by rw [hrdl]; omega) tl (by
        rw [eB]
        have hv := hval tl
        rw [hO1] at hv
        simp only [h41, if_false]
        have hwin : ((out ++ cname ++ ((pp.packet.drop r.ne).take 8 ++ put16 ((pp.packet.drop (r.ne + 10)).take 2 ++ em).length ++
            ((pp.packet.drop (r.ne + 10)).take 2 ++ em)) ++ tl).drop (out.length + cname.length + 10)).take 2 =
            (pp.packet.drop (r.ne + 10)).take 2 := by
          have := window_eq (u := out ++ cname ++ ((pp.packet.drop r.ne).take 8 ++ put16 ((pp.packet.drop (r.ne + 10)).take 2 ++ em).length ++
              ((pp.packet.drop (r.ne + 10)).take 2 ++ em)) ++ tl)
            (A := out ++ cname ++ ((pp.packet.drop r.ne).take 8 ++ put16 ((pp.packet.drop (r.ne + 10)).take 2 ++ em).length))
            (w := (pp.packet.drop (r.ne + 10)).take 2) (B := em ++ tl) (by simp)
          have hA : (out ++ cname ++ ((pp.packet.drop r.ne).take 8 ++ put16 ((pp.packet.drop (r.ne + 10)).take 2 ++ em).length)).length =
              out.length + cname.length + 10 := by
            simp only [List.length_append, hf8, put16, List.length_cons, List.length_nil]
          rw [hA, hp2] at this; exact this
        have eend : out.length + cname.length + 10 + ((pp.packet.drop (r.ne + 10)).take 2 ++ em).length =
            out.length + cname.length + 10 + 2 + em.length := by rw [hrdl]; omega
        refine ⟨?_, ?_⟩
        · unfold RDataOK; simp only [hns, hmx, if_true, if_false]
          exact ⟨by rw [hrdl]; omega, ls', by rw [eend]; exact hv⟩
        · unfold RdCi; simp only [hns, hmx, if_true, if_false]
          refine ⟨hwin, ls, ls', ?_, by rw [eend]; exact hv, hci⟩
          have := hpl.valid; rw [hl]
          have e : r.ne + 10 + 2 + labSum ls + 1 = r.ne + 10 + (2 + (labSum ls + 1)) := by omega
          rw [e] at this; exact this)
      exact ⟨_, this⟩
  by_cases hsoa : get16 pp.packet r.ne = 6
  · unfold PlainRd at hprd
    simp only [hns, hmx, hsoa, if_true, if_false] at hprd
    have c1 : ¬ ((6 : Nat) = 2 ∨ (6 : Nat) = 5 ∨ (6 : Nat) = 12) := by decide
    have c2 : ¬ ((6 : Nat) = 15) := by decide
    simp only [c1, c2, if_false, if_true] at hprd
    obtain ⟨l1, l2, hp1, hp2, hl⟩ := hprd
    obtain ⟨dict', em1, em2, l1', l2', hall⟩ := compressRdata_soa h10 hp1 hp2 hl hfit' dict1 (out ++ cname) hd1
    simp only at hall
    obtain ⟨hrun, hle1', hle2', hpos1', hpos2', hci1', hci2', hd', hval⟩ := hall
    have hw1 := hp1.2.2.1; rw [wireLen_eq] at hw1
    have hw2 := hp2.2.2.1; rw [wireLen_eq] at hw2
    have hm : ((pp.packet.drop (r.ne + 10 + get16 pp.packet (r.ne + 8) - 20)).take 20).length = 20 :=
      length_take_drop (by omega)
    have hrdl : (em1 ++ em2 ++ (pp.packet.drop (r.ne + 10 + get16 pp.packet (r.ne + 8) - 20)).take 20).length =
        em1.length + em2.length + 20 := by simp only [List.length_append, hm]
    have hrun' := hrun
    rw [← hsoa] at hrun'
    rw [hrun']
    refine ⟨dict', cname ++ ((pp.packet.drop r.ne).take 8 ++
      put16 (em1 ++ em2 ++ (pp.packet.drop (r.ne + 10 + get16 pp.packet (r.ne + 8) - 20)).take 20).length ++
      (em1 ++ em2 ++ (pp.packet.drop (r.ne + 10 + get16 pp.packet (r.ne + 8) - 20)).take 20)), by simp, ?_,
      by simpa [List.append_assoc] using hd', ?_⟩
    · simp only [List.length_append, hf8, hm, put16, List.length_cons, List.length_nil]; omega
    · intro tl
      have h41 : get16 pp.packet r.ne ≠ 41 := by omega
      have := record_assemble hr hpo hne out cname hci1 hle1 hpos1 hval1
        (em1 ++ em2 ++ (pp.packet.drop (r.ne + 10 + get16 pp.packet (r.ne + 8) - 20)).take 20) (by rw [hrdl]; omega) tl (by
        rw [eB]
        obtain ⟨hv1, hv2⟩ := hval tl
        rw [hO1] at hv1 hv2
        simp only [h41, if_false]
        have hwin : ((out ++ cname ++ ((pp.packet.drop r.ne).take 8 ++
            put16 (em1 ++ em2 ++ (pp.packet.drop (r.ne + 10 + get16 pp.packet (r.ne + 8) - 20)).take 20).length ++
            (em1 ++ em2 ++ (pp.packet.drop (r.ne + 10 + get16 pp.packet (r.ne + 8) - 20)).take 20)) ++ tl).drop
              (out.length + cname.length + 10 + em1.length + em2.length)).take 20 =
            (pp.packet.drop (r.ne + 10 + get16 pp.packet (r.ne + 8) - 20)).take 20 := by
          have := window_eq (u := out ++ cname ++ ((pp.packet.drop r.ne).take 8 ++
              put16 (em1 ++ em2 ++ (pp.packet.drop (r.ne + 10 + get16 pp.packet (r.ne + 8) - 20)).take 20).length ++
              (em1 ++ em2 ++ (pp.packet.drop (r.ne + 10 + get16 pp.packet (r.ne + 8) - 20)).take 20)) ++ tl)
            (A := out ++ cname ++ ((pp.packet.drop r.ne).take 8 ++
              put16 (em1 ++ em2 ++ (pp.packet.drop (r.ne + 10 + get16 pp.packet (r.ne + 8) - 20)).take 20).length) ++ em1 ++ em2)
            (w := (pp.packet.drop (r.ne + 10 + get16 pp.packet (r.ne + 8) - 20)).take 20) (B := tl) (by simp)
          have hA : (out ++ cname ++ ((pp.packet.drop r.ne).take 8 ++
              put16 (em1 ++ em2 ++ (pp.packet.drop (r.ne + 10 + get16 pp.packet (r.ne + 8) - 20)).take 20).length) ++ em1 ++ em2).length =
              out.length + cname.length + 10 + em1.length + em2.length := by
            simp only [List.length_append, hf8, put16, List.length_cons, List.length_nil]
          rw [hA, hm] at this; exact this
        have e20 : out.length + cname.length + 10 +
            (em1 ++ em2 ++ (pp.packet.drop (r.ne + 10 + get16 pp.packet (r.ne + 8) - 20)).take 20).length - 20 =
            out.length + cname.length + 10 + em1.length + em2.length := by rw [hrdl]; omega
        refine ⟨?_, ?_⟩
        · unfold RDataOK; simp only [hns, hmx, hsoa, if_true, if_false]
          exact ⟨by rw [hrdl]; omega, _, _, ⟨l1', hv1⟩, ⟨l2', hv2⟩, by rw [hrdl]; omega⟩
        · unfold RdCi; simp only [hns, hmx, hsoa, if_true, if_false]
          refine ⟨l1, l2, l1', l2', r.ne + 10 + (labSum l1 + 1), _, ?_, ?_, hv1, ?_, hci1', hci2', ?_⟩
          · have := hp1.valid; simpa [Nat.add_assoc] using this
          · have := hp2.valid
            have e : r.ne + 10 + (labSum l1 + 1) + labSum l2 + 1 = r.ne + 10 + get16 pp.packet (r.ne + 8) - 20 := by omega
            rw [e] at this; exact this
          · rw [e20]; exact hv2
          · rw [e20]; exact hwin)
      exact ⟨_, this⟩
  · -- all other types: verbatim
    have hv := compressRdata_verbatim (u := pp.packet) (ne := r.ne) (l := get16 pp.packet (r.ne + 8)) (t := get16 pp.packet r.ne)
      hfit' rfl hns hmx hsoa dict1 (out ++ cname)
    have hrdl : ((pp.packet.drop (r.ne + 10)).take (get16 pp.packet (r.ne + 8))).length = get16 pp.packet (r.ne + 8) :=
      length_take_drop hfit'
    rw [hv]
    refine ⟨dict1, cname ++ ((pp.packet.drop r.ne).take 8 ++
      put16 ((pp.packet.drop (r.ne + 10)).take (get16 pp.packet (r.ne + 8))).length ++
      (pp.packet.drop (r.ne + 10)).take (get16 pp.packet (r.ne + 8))), by simp, ?_,
      by simpa [List.append_assoc] using hd1.append _, ?_⟩
    · simp only [List.length_append, hf8, hrdl, put16, List.length_cons, List.length_nil]; omega
    · intro tl
      have hlt := get16_lt pp.packet (r.ne + 8)
      have := record_assemble hr hpo hne out cname hci1 hle1 hpos1 hval1
        ((pp.packet.drop (r.ne + 10)).take (get16 pp.packet (r.ne + 8))) (by rw [hrdl]; exact hlt) tl (by
        have hbody' : if get16 pp.packet r.ne = 41 then
              ∃ n, OptionsTile pp.packet (r.ne + 10) (r.ne + 10 + get16 pp.packet (r.ne + 8)) n
            else RDataOK pp.packet (get16 pp.packet r.ne) (get16 pp.packet (r.ne + 8)) (r.ne + 10) := by
          by_cases h41 : get16 pp.packet r.ne = 41
          · simp only [h41, if_true] at hbody ⊢
            obtain ⟨_, _, _, _, n, ht⟩ := hbody
            exact ⟨n, by rw [← hnext]; exact ht⟩
          · simp only [h41, if_false] at hbody ⊢
            exact hbody.1
        have hrdc : RdCanon pp.packet (get16 pp.packet r.ne) (get16 pp.packet (r.ne + 8)) (r.ne + 10)
            ((pp.packet.drop (r.ne + 10)).take (get16 pp.packet (r.ne + 8))) := by
          unfold RdCanon; simp only [hns, hmx, hsoa, if_false]
        have hA : (out ++ (cname ++ ((pp.packet.drop r.ne).take 8 ++
            put16 ((pp.packet.drop (r.ne + 10)).take (get16 pp.packet (r.ne + 8))).length))).length =
            out.length + cname.length + 10 := by
          simp only [List.length_append, hf8, put16, List.length_cons, List.length_nil]; omega
        obtain ⟨_, hb', _⟩ := rdcanon_placed hfit' hlt hbody' hrdc
          (u := out ++ (cname ++ ((pp.packet.drop r.ne).take 8 ++
            put16 ((pp.packet.drop (r.ne + 10)).take (get16 pp.packet (r.ne + 8))).length ++
            (pp.packet.drop (r.ne + 10)).take (get16 pp.packet (r.ne + 8)))) ++ tl)
          (A := out ++ (cname ++ ((pp.packet.drop r.ne).take 8 ++
            put16 ((pp.packet.drop (r.ne + 10)).take (get16 pp.packet (r.ne + 8))).length)))
          (B := tl) (by simp)
        rw [hA] at hb'
        refine ⟨hb', ?_⟩
        unfold RdCi; simp only [hns, hmx, hsoa, if_false]
        refine ⟨hrdl, ?_⟩
        have := window_eq (u := out ++ (cname ++ ((pp.packet.drop r.ne).take 8 ++
            put16 ((pp.packet.drop (r.ne + 10)).take (get16 pp.packet (r.ne + 8))).length ++
            (pp.packet.drop (r.ne + 10)).take (get16 pp.packet (r.ne + 8)))) ++ tl)
          (A := out ++ (cname ++ ((pp.packet.drop r.ne).take 8 ++
            put16 ((pp.packet.drop (r.ne + 10)).take (get16 pp.packet (r.ne + 8))).length)))
          (w := (pp.packet.drop (r.ne + 10)).take (get16 pp.packet (r.ne + 8))) (B := tl) (by simp)
        rw [hA, hrdl] at this
        rw [hrdl]
        exact this)
      exact ⟨_, this⟩

end Dns
