/-
  Lemmas.CanonRun — runs of canonical records: placed one after the other they form a section of
  the policy; layouts and canonical forms are determined by the bytes; where a reference offset lands.
-/
import DnsModel.Lemmas.Canon
namespace Dns
open Res

/-- start of each piece when the pieces are laid out from `base` -/
def starts : Nat → List Bytes → List Nat
  | _, [] => []
  | b, pc :: ps => b :: starts (b + pc.length) ps

/-- the bytes of the record are their own canonical form: every name in it is written out in full -/
def SelfCanon (u : Bytes) (r : RecPos) : Prop := RecCanon u r ((u.drop r.off).take (r.next - r.off))

/-- canonical pieces laid out one after the other from `pre.length` form a run of the policy, with
the same record types, each piece being its own canonical form -/
theorem canonRun_placed {p : Bytes} {sec : Section} {l : List RecPos} {off e : Nat} {ob oe : Bool}
    (hl : RRsL p sec l off ob e oe) :
    ∀ (ps : List Bytes), CanonRun p l ps → ∀ (pre post : Bytes),
      ∃ l', l'.length = l.length ∧
        RRsL (pre ++ ps.flatten ++ post) sec l' pre.length ob (pre.length + ps.flatten.length) oe ∧
        CanonRun (pre ++ ps.flatten ++ post) l' ps ∧
        l'.map (fun r => get16 (pre ++ ps.flatten ++ post) r.ne) = l.map (fun r => get16 p r.ne) ∧
        l'.map (·.off) = starts pre.length ps ∧
        ∀ r' ∈ l', SelfCanon (pre ++ ps.flatten ++ post) r' := by
  induction hl with
  | nil off o =>
    intro ps hps pre post
    cases hps
    refine ⟨[], rfl, ?_, CanonRun.nil, by simp, by simp [starts], by simp⟩
    have e : pre.length + ([] : List Bytes).flatten.length = pre.length := by simp
    rw [e]
    exact RRsL.nil _ _
  | @cons r l e ob om oe hr _ ih =>
    intro ps hps pre post
    cases hps with
    | @cons _ _ rc ps hrc hps =>
      have eu : pre ++ (rc :: ps).flatten ++ post = pre ++ rc ++ (ps.flatten ++ post) := by simp
      have eu' : pre ++ (rc :: ps).flatten ++ post = (pre ++ rc) ++ ps.flatten ++ post := by simp
      obtain ⟨ne', hr', hc', hty⟩ := canon_placed hr hrc pre (ps.flatten ++ post)
      obtain ⟨l', hlen, hrl, hcr, htys, hoffs, hself⟩ := ih ps hps (pre ++ rc) post
      have hwin := window_eq (u := pre ++ rc ++ (ps.flatten ++ post)) (A := pre) (w := rc) (B := ps.flatten ++ post) rfl
      rw [← eu] at hr' hc' hty hwin
      rw [← eu'] at hrl hcr htys hself
      have hl1 : (pre ++ rc).length = pre.length + rc.length := by simp
      rw [hl1] at hrl hoffs
      refine ⟨⟨pre.length, ne', pre.length + rc.length⟩ :: l', by simp [hlen], ?_, CanonRun.cons hc' hcr, ?_, ?_, ?_⟩
      · have e2 : pre.length + (rc :: ps).flatten.length = pre.length + rc.length + ps.flatten.length := by simp; omega
        rw [e2]
        exact RRsL.cons hr' hrl
      · rw [List.map_cons, List.map_cons, hty, htys]
      · simp [starts, hoffs]
      · intro r' hr''
        simp at hr''
        rcases hr'' with rfl | hr''
        · unfold SelfCanon
          simp only
          have e : pre.length + rc.length - pre.length = rc.length := by omega
          rw [e, hwin]
          exact hc'
        · exact hself r' hr''

/-! ### determinism -/

theorem RRsL.functional {p : Bytes} {sec sec' : Section} {l l' : List RecPos} {off e e' : Nat} {ob oe ob' oe' : Bool}
    (h : RRsL p sec l off ob e oe) (h' : RRsL p sec' l' off ob' e' oe') (hlen : l.length = l'.length) :
    l = l' ∧ e = e' := by
  induction h generalizing l' ob' with
  | nil off o =>
    cases l' with
    | nil => cases h'; exact ⟨rfl, rfl⟩
    | cons _ _ => simp at hlen
  | @cons r l e ob om oe hr _ ih =>
    cases l' with
    | nil => simp at hlen
    | cons r' l' =>
      obtain ⟨hoff, om', hr', hrest'⟩ := h'.cons_inv
      have hne : r.ne = r'.ne := nameEnds_functional hr.1 (by rw [hoff]; exact hr'.1)
      have hnext : r.next = r'.next := by rw [hr.2.2.1, hr'.2.2.1, hne]
      have hr_eq : r = r' := by
        cases r; cases r'; simp at hoff hne hnext ⊢; exact ⟨hoff, hne, hnext⟩
      subst hr_eq
      obtain ⟨h1, h2⟩ := ih hrest' (by simpa using hlen)
      exact ⟨by rw [h1], h2⟩

theorem RdCanon.functional {p : Bytes} {t l rs : Nat} {rd rd' : Bytes} (h : RdCanon p t l rs rd) (h' : RdCanon p t l rs rd') :
    rd = rd' := by
  unfold RdCanon at h h'
  by_cases hns : t = 2 ∨ t = 5 ∨ t = 12
  · simp only [hns, if_true] at h h'
    obtain ⟨ls, hv, rfl⟩ := h
    obtain ⟨ls', hv', rfl⟩ := h'
    rw [(validName_functional hv hv').1]
  simp only [hns, if_false] at h h'
  by_cases hmx : t = 15
  · simp only [hmx, if_true] at h h'
    obtain ⟨ls, hv, rfl⟩ := h
    obtain ⟨ls', hv', rfl⟩ := h'
    rw [(validName_functional hv hv').1]
  simp only [hmx, if_false] at h h'
  by_cases hsoa : t = 6
  · simp only [hsoa, if_true] at h h'
    obtain ⟨l1, l2, e1, hv1, hv2, rfl⟩ := h
    obtain ⟨l1', l2', e1', hv1', hv2', rfl⟩ := h'
    obtain ⟨a, b⟩ := validName_functional hv1 hv1'
    subst a; subst b
    rw [(validName_functional hv2 hv2').1]
  simp only [hsoa, if_false] at h h'
  rw [h, h']

theorem RecCanon.functional {p : Bytes} {r : RecPos} {a b : Bytes} (h : RecCanon p r a) (h' : RecCanon p r b) : a = b := by
  obtain ⟨o, rd, hv, hrd, rfl⟩ := h
  obtain ⟨o', rd', hv', hrd', rfl⟩ := h'
  rw [(validName_functional hv hv').1, hrd.functional hrd']

theorem CanonRun.functional {p : Bytes} {l : List RecPos} {ps ps' : List Bytes} (h : CanonRun p l ps) (h' : CanonRun p l ps') :
    ps = ps' := by
  induction h generalizing ps' with
  | nil => cases h'; rfl
  | cons hr _ ih =>
    cases h' with
    | cons hr' hrest' => rw [hr.functional hr', ih hrest']

theorem CanonRun.length {p : Bytes} {l : List RecPos} {ps : List Bytes} (h : CanonRun p l ps) : ps.length = l.length := by
  induction h with
  | nil => rfl
  | cons _ _ ih => simp [ih]

theorem QCanon.functional {p : Bytes} {qe : Nat} {a b : Bytes} (h : QCanon p qe a) (h' : QCanon p qe b) : a = b := by
  obtain ⟨ls, hv, rfl⟩ := h
  obtain ⟨ls', hv', rfl⟩ := h'
  rw [(validName_functional hv hv').1]

/-! ### where the reference offset lands -/

theorem carry_miss (ref : Nat) : ∀ (l : List RecPos) (ps : List Bytes) (base : Nat) (prev : Option Nat),
    (∀ r ∈ l, r.off ≠ ref) → carry ref l ps base prev = prev := by
  intro l
  induction l with
  | nil => intro ps base prev _; cases ps <;> rfl
  | cons r l ih =>
    intro ps base prev h
    cases ps with
    | nil => rfl
    | cons pc ps =>
      simp only [carry]
      have : ¬ (ref = r.off) := fun e => h r (by simp) e.symm
      simp only [this, if_false]
      exact ih ps _ prev (fun x hx => h x (by simp [hx]))

theorem carry_hit (l1 : List RecPos) (r : RecPos) (l2 : List RecPos) (ps1 : List Bytes) (pc : Bytes) (ps2 : List Bytes)
    (base : Nat) (prev : Option Nat) (h1 : l1.length = ps1.length) (h2 : ∀ r' ∈ l2, r'.off ≠ r.off) :
    carry r.off (l1 ++ r :: l2) (ps1 ++ pc :: ps2) base prev = some (base + ps1.flatten.length) := by
  induction l1 generalizing ps1 base prev with
  | nil =>
    cases ps1 with
    | nil =>
      simp only [List.nil_append, carry, if_true]
      rw [carry_miss _ _ _ _ _ h2]
      simp
    | cons _ _ => simp at h1
  | cons x l1 ih =>
    cases ps1 with
    | nil => simp at h1
    | cons y ps1 =>
      simp only [List.cons_append, carry]
      rw [ih ps1 _ _ (by simpa using h1)]
      simp; omega

theorem starts_at (base : Nat) (ps1 : List Bytes) (pc : Bytes) (ps2 : List Bytes) :
    (starts base (ps1 ++ pc :: ps2))[ps1.length]? = some (base + ps1.flatten.length) := by
  induction ps1 generalizing base with
  | nil => simp [starts]
  | cons y ps1 ih =>
    simp only [List.cons_append, starts, List.length_cons, List.getElem?_cons_succ]
    rw [ih]
    simp; omega

theorem RRsL.split {p : Bytes} {sec : Section} {l1 l2 : List RecPos} {off e : Nat} {ob oe : Bool}
    (h : RRsL p sec (l1 ++ l2) off ob e oe) : ∃ mid om, RRsL p sec l1 off ob mid om ∧ RRsL p sec l2 mid om e oe := by
  induction l1 generalizing off ob with
  | nil => exact ⟨off, ob, RRsL.nil _ _, h⟩
  | cons r l1 ih =>
    obtain ⟨hoff, om, hr, hrest⟩ := h.cons_inv
    obtain ⟨mid, om', h1, h2⟩ := ih hrest
    subst hoff
    exact ⟨mid, om', RRsL.cons hr h1, h2⟩

/-- later records of a run start after an earlier one -/
theorem RRsL.later_ne {p : Bytes} {sec : Section} {l1 l2 : List RecPos} {r : RecPos} {off e : Nat} {ob oe : Bool}
    (h : RRsL p sec (l1 ++ r :: l2) off ob e oe) : ∀ r' ∈ l2, r'.off ≠ r.off := by
  obtain ⟨mid, om, _, h2⟩ := h.split
  obtain ⟨_, om', hr, hrest⟩ := h2.cons_inv
  obtain ⟨_, hb⟩ := hrest.bounds
  obtain ⟨⟨ls, hv⟩, _, hnext, _, _⟩ := hr
  have := hv.2.1.lt
  intro r' hr'
  have := (hb r' hr').1
  omega

theorem RRsL.to_RRs {p : Bytes} {sec : Section} {l : List RecPos} {off e : Nat} {ob oe : Bool}
    (h : RRsL p sec l off ob e oe) : RRs p sec l.length off ob e oe := by
  induction h with
  | nil => exact RRs.nil _ _
  | cons hr _ ih => exact RRs.cons ((RRAt_iff_pos _ _ _ _ _ _).2 ⟨_, hr⟩) ih

end Dns
