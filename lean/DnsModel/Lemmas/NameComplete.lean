import DnsModel.Lemmas.NameSound
namespace Dns


def labSum (ls : List (List UInt8)) : Nat := (ls.map (fun l => l.length + 1)).sum

theorem wireLen_eq (ls : List (List UInt8)) : wireLen ls = labSum ls + 1 := rfl
theorem labSum_cons (l : List UInt8) (ls : List (List UInt8)) : labSum (l :: ls) = l.length + 1 + labSum ls := by
  simp [labSum]
theorem labSum_append (a b : List (List UInt8)) : labSum (a ++ b) = labSum a + labSum b := by
  simp [labSum]

theorem Labels.le {p : Bytes} {bar off stop : Nat} {ls : List (List UInt8)} (h : Labels p bar off ls stop) : off ≤ stop := by
  induction h with
  | nil => exact Nat.le_refl _
  | cons _ _ _ _ _ _ ih => omega

theorem ccnLoop_labels {p : Bytes} {bar off stop : Nat} {ls : List (List UInt8)} (hl : Labels p bar off ls stop) :
    ∀ (s : NW) (fuel : Nat), s.offset = off → s.barrier = bar →
      (∀ l ∈ ls, goodChars l = true) →
      s.nameLen + labSum ls + 1 ≤ 255 →
      fuel > s.refs + (255 - s.nameLen) →
      ∃ fuel', fuel' > s.refs + (255 - (s.nameLen + labSum ls)) ∧
        ccnLoop p fuel s = ccnLoop p fuel' { s with offset := stop, nameLen := s.nameLen + labSum ls } := by
  induction hl with
  | nil off =>
    intro s fuel ho hb _ _ hf
    refine ⟨fuel, by simpa [labSum] using hf, ?_⟩
    subst ho
    simp [labSum]
  | @cons off len rest stop h1 h2 h3 h4 h5 hrest ih =>
    intro s fuel ho hb hg hw hf
    rw [labSum_cons, lab_length h5] at hw
    cases fuel with
    | zero => omega
    | succ n =>
      have hlt := byteAt_lt h2
      obtain ⟨fuel', hf', heq⟩ := ih { s with offset := off + len + 1, nameLen := s.nameLen + len + 1 } n rfl hb
        (fun l hl => hg l (by simp [hl])) (by simp; omega) (by simp; omega)
      refine ⟨fuel', ?_, ?_⟩
      · rw [labSum_cons, lab_length h5]
        have hf'' : fuel' > s.refs + (255 - (s.nameLen + len + 1 + labSum rest)) := hf'
        omega
      · have harith : s.nameLen + (len + 1 + labSum rest) = s.nameLen + len + 1 + labSum rest := by omega
        rw [labSum_cons, lab_length h5, harith]
        rw [← heq]
        conv => lhs; unfold ccnLoop
        subst ho
        have hnb : ¬ (s.offset ≥ s.barrier) := by omega
        have hnp : isPtr len = false := by
          cases hp : isPtr len with
          | false => rfl
          | true => have := (isPtr_iff' len hlt).1 hp; omega
        have hgood : goodChars (lab p s.offset len) = true := hg _ (by simp)
        simp only [hnb, if_false, idx_of_byteAt h2, hnp, labelHasBadChar_eq h5, hgood]
        have c1 : ¬ (len > 0x3f) := by omega
        have c2 : ¬ (len ≥ p.length - s.offset) := by omega
        have c3 : ¬ (s.nameLen + len + 1 > 255) := by omega
        have c4 : ¬ (len = 0) := by omega
        simp [c1, c2, c3, c4]

theorem ccnLoop_complete {p : Bytes} {bar low off refs e' : Nat} {ls : List (List UInt8)}
    (hn : NameAt p bar low off refs ls e') :
    ∀ (s : NW) (fuel : Nat), s.offset = off → s.barrier = bar → s.lowest = low → s.refs = refs →
      s.lowest ≤ s.offset →
      (∀ l ∈ ls, goodChars l = true) → s.nameLen + wireLen ls ≤ 255 →
      fuel > s.refs + (255 - s.nameLen) →
      ccnLoop p fuel s = .ok (s.final.getD e') := by
  induction hn with
  | @root bar low off refs ls stop hl hs hb =>
    intro s fuel ho hbar hlow hrefs hlo hg hw hf
    rw [wireLen_eq] at hw
    obtain ⟨fuel', hf', heq⟩ := ccnLoop_labels hl s fuel ho hbar hg (by omega) hf
    rw [heq]
    cases fuel' with
    | zero => omega
    | succ n =>
      unfold ccnLoop
      have hnb : ¬ (stop ≥ s.barrier) := by omega
      have hstop := byteAt_lt_length hb
      have hbc : labelHasBadChar p stop 0 = .ok false := by
        rw [labelHasBadChar_eq (by omega)]; simp [lab, goodChars]
      have c2 : ¬ (0 ≥ p.length - stop) := by omega
      have c3 : ¬ (s.nameLen + labSum ls + 0 + 1 > 255) := by omega
      simp [hnb, idx_of_byteAt hb, isPtr, c2, c3, hbc]
  | @ptr bar low off refs ls ls' stop hi lo e'' hl hs hb hhi hlob ht hnz hr hn ih =>
    intro s fuel ho hbar hlow hrefs hlo hg hw hf
    rw [wireLen_eq, labSum_append] at hw
    obtain ⟨fuel', hf', heq⟩ := ccnLoop_labels hl s fuel ho hbar (fun l h => hg l (by simp [h])) (by omega) hf
    rw [heq]
    cases fuel' with
    | zero => omega
    | succ n =>
      have hhilt := byteAt_lt hb
      have hlolt := byteAt_lt hlob
      have hle := hl.le
      have hstop1 := byteAt_lt_length hlob
      have htl : ptrTarget hi lo < p.length := by omega
      obtain ⟨t, htk, htb, htlt⟩ : ∃ t, idx p (ptrTarget hi lo) = .ok t ∧ byteAt p (ptrTarget hi lo) = some t ∧ t < 256 := by
        rcases idx_cases p (ptrTarget hi lo) with h | h
        · exact h
        · exfalso; unfold idx at h; cases hb' : byteAt p (ptrTarget hi lo) with
          | none =>
            unfold byteAt at hb'
            simp [List.getElem?_eq_getElem htl] at hb'
          | some b => simp [hb'] at h
      have ht0 : t ≠ 0 := by intro h0; subst h0; exact hnz htb
      have := ih { s with offset := ptrTarget hi lo, nameLen := s.nameLen + labSum ls, barrier := s.lowest,
                          lowest := ptrTarget hi lo, refs := s.refs - 1,
                          final := s.final.or (some (stop + 2)) } n rfl (by simp [hlow]) rfl (by simp [hrefs])
        (by simp) (fun l h => hg l (by simp [h])) (by simp [wireLen_eq]; omega) (by simp at hf' ⊢; omega)
      unfold ccnLoop
      have hnb : ¬ (stop ≥ s.barrier) := by omega
      have hp : isPtr hi = true := (isPtr_iff' hi hhilt).2 hhi
      have c1 : ¬ (s.refs = 0) := by omega
      have c2 : ¬ (2 > p.length - stop) := by omega
      have c3 : ¬ (ptrTarget hi lo = stop ∨ ptrTarget hi lo ≥ s.lowest) := by omega
      have c4 : (!(isPtr t) && decide (t < 1)) = false := by
        have : ¬ (t < 1) := by omega
        simp [this]
      simp only [hnb, if_false, idx_of_byteAt hb, hp, if_true, c1, c2, idx_of_byteAt hlob,
        ptrTarget_eq hi lo hhilt hlolt, c3, htk, c4]
      simp at this ⊢
      rw [this]

theorem checkCompressedName_complete (p : Bytes) (off e : Nat) (ls : List (List UInt8))
    (h : ValidName p off ls e) : checkCompressedName p off = .ok e := by
  obtain ⟨h1, h2, h3, h4⟩ := h
  unfold checkCompressedName
  have : ¬ (off ≥ p.length) := by omega
  simp only [this, if_false]
  have := ccnLoop_complete h2 { offset := off, nameLen := 0, barrier := p.length, lowest := off, final := none, refs := 16 }
    273 rfl rfl rfl rfl (by simp) h4 (by simpa using h3) (by simp)
  exact this

theorem checkCompressedName_ok_iff (p : Bytes) (off e : Nat) :
    checkCompressedName p off = .ok e ↔ ∃ ls, ValidName p off ls e :=
  ⟨checkCompressedName_sound p off e, fun ⟨ls, h⟩ => checkCompressedName_complete p off e ls h⟩


end Dns
