/-
  Lemmas.PieceShape — what a record piece looks like from the inside: literal owner name, eight fixed
  bytes, data length, pointer-free data of the right shape — and back (`piece_standalone`).
-/
import DnsModel.Lemmas.SectionView
namespace Dns
open Res

/-- canonical data of a non-OPT record is pointer-free data of its type -/
theorem rdPlainI_of_canon {p : Bytes} {t l rs : Nat} {rd : Bytes} (hfit : rs + l ≤ p.length) (hl : l < 65536) (h41 : t ≠ 41)
    (hbody : RDataOK p t l rs) (hrd : RdCanon p t l rs rd) : rd.length < 65536 ∧ RdPlainI t rd := by
  have hb : (if t = 41 then ∃ n, OptionsTile p rs (rs + l) n else RDataOK p t l rs) := by simp only [h41, if_false]; exact hbody
  obtain ⟨hlt, hok, hcan⟩ := rdcanon_placed (A := []) (B := []) (u := rd) hfit hl hb hrd (by simp)
  simp only [h41, if_false, List.length_nil] at hok
  simp only [List.length_nil] at hcan
  refine ⟨hlt, ?_⟩
  unfold RdPlainI
  unfold RDataOK at hok
  unfold RdCanon at hcan
  by_cases hns : t = 2 ∨ t = 5 ∨ t = 12
  · simp only [hns, if_true] at hcan ⊢
    obtain ⟨ls, hv, he⟩ := hcan
    exact ⟨ls, validName_ok hv, he⟩
  · simp only [hns, if_false] at hcan hok ⊢
    by_cases h15 : t = 15
    · simp only [h15, if_true] at hcan hok ⊢
      obtain ⟨ls, hv, he⟩ := hcan
      refine ⟨(rd.drop 0).take 2, ls, ?_, validName_ok hv, he⟩
      simp only [List.drop_zero, List.length_take]
      omega
    · simp only [h15, if_false] at hcan hok ⊢
      by_cases h6 : t = 6
      · simp only [h6, if_true] at hcan hok ⊢
        obtain ⟨l1, l2, e1, hv1, hv2, he⟩ := hcan
        refine ⟨l1, l2, (rd.drop (0 + rd.length - 20)).take 20, validName_ok hv1, validName_ok hv2, ?_, he⟩
        simp only [List.length_take, List.length_drop]
        omega
      · simp only [h6, if_false] at hcan hok ⊢
        by_cases h39 : t = 39
        · simp only [h39, if_true] at hok ⊢
          refine ⟨?_, ?_⟩
          · intro h; rw [h] at hok; simp at hok
          · simpa using hok.2
        · simp only [h39, if_false] at hok ⊢
          exact hok

/-- **the shape of a piece** -/
theorem piece_shape {sec : Section} {rc : Bytes} {ob oa : Bool} (h : PieceOK sec rc ob oa) :
    ∃ (owner : List (List UInt8)) (f8 rd : Bytes),
      rc = (encLabels owner ++ [0]) ++ f8 ++ put16 rd.length ++ rd ∧ GoodLabels owner ∧ f8.length = 8 ∧ rd.length < 65536 ∧
      (get16 f8 0 ≠ 41 → RdPlainI (get16 f8 0) rd ∧ oa = ob) ∧
      (get16 f8 0 = 41 → owner = [] ∧ ob = false ∧ oa = true) := by
  obtain ⟨p0, r0, hr, hc⟩ := h
  obtain ⟨owner, rd, hvo, hrd, hrc⟩ := hc
  obtain ⟨hne, h10, hnext, hfit, hbody⟩ := hr
  have hf8 : ((p0.drop r0.ne).take 8).length = 8 := length_take_drop (by omega)
  have hty : get16 ((p0.drop r0.ne).take 8) 0 = get16 p0 r0.ne := by
    have hag : Agree p0 ((p0.drop r0.ne).take 8) r0.ne 0 8 := by
      intro i hi
      simp [List.getElem?_take, List.getElem?_drop, hi]
    have := hag.get16 (i := 0) (by omega)
    simpa using this
  have hl : get16 p0 (r0.ne + 8) < 65536 := get16_lt _ _
  by_cases h41 : get16 p0 r0.ne = 41
  · simp only [h41, if_true] at hbody
    obtain ⟨_, hne1, hob, hoa, n, htile⟩ := hbody
    have hb : (if get16 p0 r0.ne = 41 then ∃ n, OptionsTile p0 (r0.ne + 10) (r0.ne + 10 + get16 p0 (r0.ne + 8)) n
        else RDataOK p0 (get16 p0 r0.ne) (get16 p0 (r0.ne + 8)) (r0.ne + 10)) := by
      simp only [h41, if_true]; rw [← hnext]; exact ⟨n, htile⟩
    obtain ⟨hlt, _, _⟩ := rdcanon_placed (A := []) (B := []) (u := rd) (by omega) hl hb hrd (by simp)
    refine ⟨owner, _, rd, hrc, validName_ok hvo, hf8, hlt, ?_, ?_⟩
    · intro hne41
      rw [hty] at hne41
      exact absurd h41 hne41
    · intro _
      have : owner = [] := by
        rw [hne1] at hvo
        exact owner_nil hvo
      exact ⟨this, hob, hoa⟩
  · simp only [h41, if_false] at hbody
    obtain ⟨hlt, hpl⟩ := rdPlainI_of_canon (by omega) hl h41 hbody.1 hrd
    refine ⟨owner, _, rd, hrc, validName_ok hvo, hf8, hlt, ?_, ?_⟩
    · intro _
      rw [hty]
      exact ⟨hpl, hbody.2⟩
    · intro h
      rw [hty] at h
      exact absurd h h41

/-- a non-OPT piece of that shape fits under any flag -/
theorem piece_of_shape (sec : Section) (owner : List (List UInt8)) (f8 rd : Bytes) (ho : GoodLabels owner) (hf8 : f8.length = 8)
    (hlt : rd.length < 65536) (h41 : get16 f8 0 ≠ 41) (hrd : RdPlainI (get16 f8 0) rd) (b : Bool) :
    PieceOK sec ((encLabels owner ++ [0]) ++ f8 ++ put16 rd.length ++ rd) b b := by
  obtain ⟨h1, h2, _⟩ := piece_standalone owner ho f8 rd hf8 hlt h41 hrd sec b
  exact ⟨_, _, h1, h2⟩

def PlainObj.fin {pp : PP} (P : PlainObj pp) : Section → Bool
  | .nameServers => P.o2
  | .additional => P.o3
  | _ => false

def PlainObj.fout {pp : PP} (P : PlainObj pp) : Section → Bool
  | .answer => P.o2
  | .nameServers => P.o3
  | .additional => P.o4
  | _ => false

theorem PlainObj.pieces {pp : PP} (P : PlainObj pp) (sec : Section) (hs : sec.isRec = true) :
    Pieces sec (P.lst sec) (P.fin sec) (P.fout sec) := by
  cases sec with
  | answer => exact P.hA
  | nameServers => exact P.hN
  | additional => exact P.hR
  | question => simp [Section.isRec] at hs
  | edns => simp [Section.isRec] at hs

/-- the shape of one piece of a run, and the right to replace it by any other non-OPT piece -/
theorem pieces_shape_split {sec : Section} {ps1 ps2 : List Bytes} {rc : Bytes} {ob oe : Bool}
    (h : Pieces sec (ps1 ++ rc :: ps2) ob oe) :
    ∃ (owner : List (List UInt8)) (f8 rd : Bytes),
      rc = (encLabels owner ++ [0]) ++ f8 ++ put16 rd.length ++ rd ∧ GoodLabels owner ∧ f8.length = 8 ∧ rd.length < 65536 ∧
      (get16 f8 0 ≠ 41 → RdPlainI (get16 f8 0) rd ∧
        ∀ rc', (∀ b, PieceOK sec rc' b b) → Pieces sec (ps1 ++ rc' :: ps2) ob oe) := by
  obtain ⟨om, h1, h2⟩ := Pieces.split h
  cases h2 with
  | @cons _ _ _ om' _ hp hrest =>
    obtain ⟨owner, f8, rd, hrc, hgo, hf8, hlt, hnon, _⟩ := piece_shape hp
    refine ⟨owner, f8, rd, hrc, hgo, hf8, hlt, ?_⟩
    intro h41
    obtain ⟨hpl, hflag⟩ := hnon h41
    subst hflag
    exact ⟨hpl, fun rc' hok => h1.append (Pieces.cons (hok _) hrest)⟩

/-- **the record under a cursor, from the inside**: the packet around it, its shape, where its owner
name ends, and its type -/
theorem PlainObj.shape_at {pp : PP} (P : PlainObj pp) (sec : Section) (hs : sec.isRec = true) {ps1 ps2 : List Bytes} {rc : Bytes}
    (hsplit : P.lst sec = ps1 ++ rc :: ps2) :
    ∃ (owner : List (List UInt8)) (f8 rd pre post : Bytes) (ob oa : Bool),
      pp.packet = pre ++ rc ++ post ∧ pre.length = P.start sec + ps1.flatten.length ∧
      rc = (encLabels owner ++ [0]) ++ f8 ++ put16 rd.length ++ rd ∧ GoodLabels owner ∧ f8.length = 8 ∧ rd.length < 65536 ∧
      (get16 f8 0 ≠ 41 → RdPlainI (get16 f8 0) rd ∧
        ∀ rc', (∀ b, PieceOK sec rc' b b) → Pieces sec (ps1 ++ rc' :: ps2) (P.fin sec) (P.fout sec)) ∧
      RRAtPos pp.packet sec ⟨pre.length, pre.length + labSum owner + 1, pre.length + rc.length⟩ ob oa ∧
      get16 pp.packet (pre.length + labSum owner + 1) = get16 f8 0 := by
  have hps := P.pieces sec hs
  rw [hsplit] at hps
  obtain ⟨owner, f8, rd, hrc, hgo, hf8, hlt, hnon⟩ := pieces_shape_split hps
  obtain ⟨pre0, post0, hb, hl⟩ := P.split_bytes sec hs
  rw [hsplit] at hb
  have e : pp.packet = (pre0 ++ ps1.flatten) ++ rc ++ (ps2.flatten ++ post0) := by rw [hb]; simp
  have el : (pre0 ++ ps1.flatten).length = P.start sec + ps1.flatten.length := by rw [List.length_append, hl]
  obtain ⟨ne, ob, oa, hr⟩ := P.rec_at sec hs hsplit
  -- the owner is written out at the record's start: its end is where the policy says
  have e2 : pp.packet = (pre0 ++ ps1.flatten) ++ (encLabels owner ++ [0]) ++ (f8 ++ put16 rd.length ++ rd ++ (ps2.flatten ++ post0)) := by
    rw [e, hrc]; simp
  have hv := validName_at e2 hgo.1 hgo.2.1 hgo.2.2
  have hne : ne = (pre0 ++ ps1.flatten).length + labSum owner + 1 := by
    rw [← el] at hr
    exact nameEnds_functional hr.1 ⟨owner, hv⟩
  have e3 : pp.packet = ((pre0 ++ ps1.flatten) ++ (encLabels owner ++ [0])) ++ f8 ++ (put16 rd.length ++ rd ++ (ps2.flatten ++ post0)) := by
    rw [e2]; simp
  have hty : get16 pp.packet ((pre0 ++ ps1.flatten).length + labSum owner + 1) = get16 f8 0 := by
    have hag := agree_of_append f8 ((pre0 ++ ps1.flatten) ++ (encLabels owner ++ [0])) (put16 rd.length ++ rd ++ (ps2.flatten ++ post0)) 0 8 (by omega)
    have hf : (f8.drop 0).take 8 = f8 := by simp [List.take_of_length_le (Nat.le_of_eq hf8)]
    rw [hf, ← e3] at hag
    have := hag.get16 (i := 0) (by omega)
    simp only [Nat.add_zero] at this
    rw [← this]
    congr 1
    simp [encLabels_length]; omega
  refine ⟨owner, f8, rd, pre0 ++ ps1.flatten, ps2.flatten ++ post0, ob, oa, e, el, hrc, hgo, hf8, hlt, hnon, ?_, hty⟩
  rw [← hne, el]
  exact hr

/-- where the owner name of the record under a cursor ends, from the record's shape -/
theorem PlainObj.ne_of_shape {pp : PP} (P : PlainObj pp) (sec : Section) (hs : sec.isRec = true) {ps1 ps2 : List Bytes} {rc : Bytes}
    (hsplit : P.lst sec = ps1 ++ rc :: ps2) (owner : List (List UInt8)) (rest : Bytes) (hrc : rc = (encLabels owner ++ [0]) ++ rest)
    (hgo : GoodLabels owner) {ne nx : Nat} {ob oa : Bool}
    (hr : RRAtPos pp.packet sec ⟨P.start sec + ps1.flatten.length, ne, nx⟩ ob oa) :
    ne = P.start sec + ps1.flatten.length + labSum owner + 1 := by
  obtain ⟨pre0, post0, hb, hl⟩ := P.split_bytes sec hs
  rw [hsplit] at hb
  have e2 : pp.packet = (pre0 ++ ps1.flatten) ++ (encLabels owner ++ [0]) ++ (rest ++ (ps2.flatten ++ post0)) := by
    rw [hb, hrc]; simp
  have hv := validName_at e2 hgo.1 hgo.2.1 hgo.2.2
  have el : (pre0 ++ ps1.flatten).length = P.start sec + ps1.flatten.length := by rw [List.length_append, hl]
  rw [el] at hv
  exact nameEnds_functional hr.1 ⟨owner, hv⟩

end Dns
