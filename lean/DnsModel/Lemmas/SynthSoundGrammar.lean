/-
  Lemmas.SynthSoundGrammar — converse of completeness: whatever synthesises is a text of the grammar
  and the result is the wire record that text stands for. Hence a text outside the grammar yields an error.
-/
import DnsModel.Lemmas.TokensInv
namespace Dns
open Res

theorem endP_inv {i : Bytes} (h : endP i = some ()) : Blanks i := by
  unfold endP eofP at h
  obtain ⟨a, ha, hall, _⟩ := skipWhile_inv isHws i
  split at h
  · rename_i he
    have : skipWhile isHws i = [] := by simpa using he
    rw [this] at ha
    simp at ha
    rw [ha]; exact hall
  · simp at h

/-- after an accepted host name the text does not go on with a digit -/
theorem hostnameP_rest_not_digit {t name r : Bytes} {c : UInt8} (h : hostnameP t = some (name, c :: r)) : isDigit c = false := by
  unfold hostnameP at h
  cases hl : hostLoop t {} [] with
  | mk st nr =>
    obtain ⟨n, rr⟩ := nr
    rw [hl] at h
    simp only at h
    split at h
    · simp at h
    split at h
    · simp at h
    rename_i hbad
    simp at h
    obtain ⟨rfl, rfl⟩ := h
    obtain ⟨a, st1, _, _, hrun, _, h5⟩ := hostLoop_inv t {} [] st n (c :: r) hl
    obtain ⟨hf, hse⟩ := h5 c r rfl
    simp only [Bool.or_eq_true, not_or] at hbad
    have hfe : st.formatErr = false := by simpa using hbad.1
    cases hd : isDigit c with
    | false => rfl
    | true =>
      exfalso
      have h46 : (c == 46) = false := by
        cases h46 : (c == 46) with
        | false => rfl
        | true => have : c = 46 := by simpa using h46
                  subst this; simp [isDigit] at hd
      have hal : isAlpha c = false := by
        revert hd; unfold isAlpha isDigit; simp; omega
      have h95 : (c == 95) = false := by
        cases h : (c == 95) with
        | false => rfl
        | true => have : c = 95 := by simpa using h
                  subst this; simp [isDigit] at hd
      have h45 : (c == 45) = false := by
        cases h : (c == 45) with
        | false => rfl
        | true => have : c = 45 := by simpa using h
                  subst this; simp [isDigit] at hd
      unfold hostPred at hf hse
      simp only [h46, Bool.false_and, Bool.false_eq_true, if_false, h45, hal, hd, Bool.or_true, Bool.and_true, h95,
        Bool.or_false, Bool.or_self] at hf hse
      split at hf
      · rename_i h62
        simp only [h62, if_true] at hse
        rw [hse] at hfe
        simp at hfe
      · simp at hf

theorem blanks1_of {a rest : Bytes} (hall : ∀ c ∈ a, isHws c = true) (hne : a ≠ []) : Blanks1 a := ⟨hne, hall⟩

/-- the common part, converse -/
theorem commonP_inv {t i : Bytes} {h : RRHeader} (hc : commonP t = some (h, i)) :
    ∃ (b0 b1 ttl b2 : Bytes) (cI cN : UInt8) (b3 tw b4 : Bytes),
      t = b0 ++ (h.name ++ (b1 ++ (ttl ++ (b2 ++ (cI :: cN :: (b3 ++ (tw ++ (b4 ++ i)))))))) ∧
      Blanks b0 ∧ (∃ x r, hostnameP x = some (h.name, r)) ∧ Blanks1 b1 ∧ Numeral ttl ∧ h.ttl = decVal ttl ∧
      decVal ttl ≤ 4294967295 ∧ Blanks1 b2 ∧ (cI = 73 ∨ cI = 105) ∧ (cN = 78 ∨ cN = 110) ∧ Blanks1 b3 ∧
      TypeWord tw h.rrType ∧ Blanks1 b4 := by
  unfold commonP at hc
  simp only [Option.bind_eq_bind, Option.bind_eq_some_iff, Option.pure_def, Option.some.injEq, Prod.mk.injEq] at hc
  obtain ⟨⟨name, i1⟩, hhost, ⟨ttl, i2⟩, httl, i3, hb2, i4, hI, i5, hN, i6, hb3, ⟨ts, i7⟩, htw, ty, hty, i8, hb4, hh, hi⟩ := hc
  subst hh; subst hi
  simp only at hhost httl hb2 hI hN hb3 htw hty hb4 ⊢
  obtain ⟨b0, e0, hb0, _⟩ := skipWhile_inv isHws t
  -- owner
  have hown := hhost
  have eo : skipWhile isHws t = name ++ i1 := by
    unfold hostnameP at hhost
    cases hl : hostLoop (skipWhile isHws t) {} [] with
    | mk st nr =>
      obtain ⟨n, r⟩ := nr
      rw [hl] at hhost
      simp only at hhost
      split at hhost
      · simp at hhost
      split at hhost
      · simp at hhost
      simp at hhost
      obtain ⟨rfl, rfl⟩ := hhost
      obtain ⟨a, _, h1, h2, _⟩ := hostLoop_inv _ {} [] st n r hl
      simp at h2; rw [h1, h2]
  obtain ⟨b1, e1, hb1, _⟩ := skipWhile_inv isHws i1
  obtain ⟨ds, e2, hnum, _, hv, hle⟩ := decimalMax_inv httl
  -- b1 is not empty: a digit cannot follow the owner directly
  have hb1ne : b1 ≠ [] := by
    intro e
    subst e
    simp only [List.nil_append] at e1
    obtain ⟨c, r, hcr, hcd⟩ := numeral_head hnum
    have hi1 : i1 = c :: (r ++ i2) := by rw [e1, e2, hcr]; simp
    rw [hi1] at hown
    have := hostnameP_rest_not_digit hown
    rw [hcd] at this; exact absurd this (by decide)
  -- the blank after the ttl
  cases i2 with
  | nil => simp at hb2
  | cons c2 r2 =>
    simp only at hb2
    split at hb2
    · rename_i hc2
      simp at hb2
      subst hb2
      obtain ⟨b2', e3, hb2', _⟩ := skipWhile_inv isHws r2
      cases hsk : skipWhile isHws r2 with
      | nil => rw [hsk] at hI; simp at hI
      | cons cI r4 =>
        rw [hsk] at hI e3
        simp only at hI
        split at hI
        · rename_i hcI
          simp at hI
          subst hI
          cases r4 with
          | nil => simp at hN
          | cons cN r5 =>
            simp only at hN
            split at hN
            · rename_i hcN
              simp at hN
              subst hN
              obtain ⟨b3, e4, hb3', _⟩ := skipHws1_inv hb3
              obtain ⟨e5, htne, htall, _⟩ := takeWhile1_inv htw
              obtain ⟨b4, e6, hb4', _⟩ := skipHws1_inv hb4
              refine ⟨b0, b1, ds, c2 :: b2', cI, cN, b3, ts, b4, ?_, hb0, ⟨_, _, hown⟩, ⟨hb1ne, hb1⟩, hnum, hv, by omega,
                ⟨by simp, ?_⟩, by simpa using hcI, by simpa using hcN, hb3', typeWord_inv hty, hb4'⟩
              · rw [e0, eo, e1, e2, e3, e4, e5, e6]; simp
              · intro x hx
                simp at hx
                rcases hx with rfl | hx
                · exact hc2
                · exact hb2' x hx
            · simp at hN
        · simp at hI
    · simp at hb2

end Dns

namespace Dns
open Res

theorem buildName_inv {h : RRHeader} {n rr : Bytes} (hb : buildName h n = .ok rr) :
    ∃ raw, rawNameFromStr n none = .ok raw ∧ rrNew h raw = .ok rr := by
  unfold buildName at hb
  cases hr : rawNameFromStr n none with
  | ok raw => rw [hr] at hb; exact ⟨raw, rfl, by simpa using hb⟩
  | err e => rw [hr] at hb; simp at hb
  | panic => rw [hr] at hb; simp at hb
  | diverge => rw [hr] at hb; simp at hb

/-- the data part, converse -/
theorem rdataP_inv {h : RRHeader} {i : Bytes} {r : Res Bytes} {rr : Bytes} (hp : rdataP h i = some r) (hr : r = .ok rr) :
    ∃ rdt rd b5, i = rdt ++ b5 ∧ Blanks b5 ∧ RDataText h.rrType rdt rd ∧ rrNew h rd = .ok rr := by
  subst hr
  unfold rdataP at hp
  consts
  split at hp
  · rename_i ht
    have ht' : h.rrType = 1 := by simpa using ht
    simp only [Option.bind_eq_bind, Option.bind_eq_some_iff, Option.pure_def, Option.some.injEq] at hp
    obtain ⟨⟨ip, i1⟩, hip, _, hend, hnew⟩ := hp
    obtain ⟨d0, d1, d2, d3, e, hrd⟩ := ipv4P_inv hip
    exact ⟨_, ip, i1, e, endP_inv hend, by rw [ht']; exact hrd, hnew⟩
  split at hp
  · rename_i _ ht
    have ht' : h.rrType = 28 := by simpa using ht
    simp only [Option.bind_eq_bind, Option.bind_eq_some_iff, Option.pure_def, Option.some.injEq] at hp
    obtain ⟨⟨ip, i1⟩, hip, _, hend, hnew⟩ := hp
    obtain ⟨s, e, hrd⟩ := ipv6P_inv hip
    exact ⟨s, ip, i1, e, endP_inv hend, by rw [ht']; exact hrd, hnew⟩
  split at hp
  · rename_i _ _ ht
    have ht' : h.rrType = 2 ∨ h.rrType = 5 ∨ h.rrType = 12 := by simpa [or_assoc] using ht
    simp only [Option.bind_eq_bind, Option.bind_eq_some_iff, Option.pure_def, Option.some.injEq] at hp
    obtain ⟨⟨n, i1⟩, hn, _, hend, hnew⟩ := hp
    obtain ⟨raw, hraw, hnew'⟩ := buildName_inv hnew
    obtain ⟨e, ls, hhn, hls⟩ := hostname_inv hn hraw
    exact ⟨n, raw, i1, e, endP_inv hend, by rw [hls]; exact RDataText.name _ n ls ht' hhn, hnew'⟩
  split at hp
  · rename_i _ _ _ ht
    have ht' : h.rrType = 16 := by simpa using ht
    simp only [Option.bind_eq_bind, Option.bind_eq_some_iff, Option.pure_def, Option.some.injEq] at hp
    obtain ⟨⟨vs, i1⟩, hq, _, hend, hnew⟩ := hp
    obtain ⟨body, e, hqt, hne⟩ := quotedP_inv hq
    unfold buildTxt at hnew
    simp only [failIf] at hnew
    split at hnew
    · simp at hnew
    rename_i hlen
    simp only [bind_ok] at hnew
    have hl : vs.length ≤ 3825 := by simp at hlen; omega
    refine ⟨_, txtWire (vs.length + 1) vs, i1, e, endP_inv hend, by rw [ht']; exact RDataText.txt body vs hqt hne hl, ?_⟩
    rw [txtWire_eq]; exact hnew
  split at hp
  · rename_i _ _ _ _ ht
    have ht' : h.rrType = 15 := by simpa using ht
    simp only [Option.bind_eq_bind, Option.bind_eq_some_iff, Option.pure_def, Option.some.injEq] at hp
    obtain ⟨⟨pref, i1⟩, hpref, i2, hb, ⟨n, i3⟩, hn, _, hend, hnew⟩ := hp
    obtain ⟨p, e1, hpn, _, hpv, hple⟩ := decimalMax_inv hpref
    obtain ⟨b, e2, hbb, _⟩ := skipHws1_inv hb
    unfold buildMx at hnew
    rw [copyRaw_prefix] at hnew
    cases hraw : copyRawNameFromStr [] n none with
    | ok raw =>
      rw [hraw] at hnew
      simp only [bind_ok] at hnew
      obtain ⟨e3, ls, hhn, hls⟩ := hostname_inv hn hraw
      simp only at e1 e2 e3 hpv hple
      refine ⟨p ++ (b ++ n), put16 (decVal p) ++ (encLabels ls ++ [0]), i3, by rw [e1, e2, e3]; simp, endP_inv hend,
        by rw [ht']; exact RDataText.mx p b n ls hpn (by omega) hbb hhn, ?_⟩
      rw [← hpv, ← hls]; exact hnew
    | err e => rw [hraw] at hnew; simp at hnew
    | panic => rw [hraw] at hnew; simp at hnew
    | diverge => rw [hraw] at hnew; simp at hnew
  split at hp
  · rename_i _ _ _ _ _ ht
    have ht' : h.rrType = 6 := by simpa using ht
    simp only [Option.bind_eq_bind, Option.bind_eq_some_iff, Option.pure_def, Option.some.injEq] at hp
    obtain ⟨⟨ns, i1⟩, hns, i2, hb1, ⟨ct, i3⟩, hct, i4, h40, ⟨a, i5⟩, ha, ⟨b, i6⟩, hbn, ⟨c, i7⟩, hcn, ⟨d, i8⟩, hdn, ⟨e, i9⟩, hen, i10, h41,
      _, hend, hnew⟩ := hp
    simp only at hns hb1 hct h40 ha hbn hcn hdn hen h41 hend hnew
    obtain ⟨b1, e1, hbb1, _⟩ := skipHws1_inv hb1
    obtain ⟨b2, e2, hbb2, _⟩ := skipWhile_inv isHws i3
    have q40 := tokenP_inv h40
    obtain ⟨w0, f0, hw0, _⟩ := skipWhile_inv isWs i4
    obtain ⟨n1, g1, hn1, s1, v1, l1⟩ := decimalMax_inv ha
    obtain ⟨w1, f1, hw1, _⟩ := skipWhile_inv isWs i5
    obtain ⟨n2, g2, hn2, s2, v2, l2⟩ := decimalMax_inv hbn
    obtain ⟨w2, f2, hw2, _⟩ := skipWhile_inv isWs i6
    obtain ⟨n3, g3, hn3, s3, v3, l3⟩ := decimalMax_inv hcn
    obtain ⟨w3, f3, hw3, _⟩ := skipWhile_inv isWs i7
    obtain ⟨n4, g4, hn4, s4, v4, l4⟩ := decimalMax_inv hdn
    obtain ⟨w4, f4, hw4, _⟩ := skipWhile_inv isWs i8
    obtain ⟨n5, g5, hn5, _, v5, l5⟩ := decimalMax_inv hen
    obtain ⟨w5, f5, hw5, _⟩ := skipWhile_inv isWs i9
    have q41 := tokenP_inv h41
    -- separators between numbers are not empty: a digit cannot follow a number directly
    have sep : ∀ (i w x n y : Bytes), StopF isDigit i → i = w ++ x → x = n ++ y → Numeral n → w ≠ [] := by
      intro i w x n y hs hi hx hn hw
      subst hw
      obtain ⟨c, r, hc, hd⟩ := numeral_head hn
      rw [hx, hc] at hi
      have := hs c (r ++ y) (by simpa using hi)
      rw [hd] at this; exact absurd this (by decide)
    have hw1' : Spaces1 w1 := ⟨sep _ _ _ _ _ s1 f1 g2 hn2, hw1⟩
    have hw2' : Spaces1 w2 := ⟨sep _ _ _ _ _ s2 f2 g3 hn3, hw2⟩
    have hw3' : Spaces1 w3 := ⟨sep _ _ _ _ _ s3 f3 g4 hn4, hw3⟩
    have hw4' : Spaces1 w4 := ⟨sep _ _ _ _ _ s4 f4 g5 hn5, hw4⟩
    unfold buildSoa at hnew
    cases hraw1 : copyRawNameFromStr [] ns none with
    | ok raw1 =>
      rw [hraw1] at hnew
      simp only [bind_ok] at hnew
      rw [copyRaw_prefix] at hnew
      cases hraw2 : copyRawNameFromStr [] ct none with
      | ok raw2 =>
        rw [hraw2] at hnew
        simp only [bind_ok] at hnew
        obtain ⟨en, l1', hhn1, hl1⟩ := hostname_inv hns hraw1
        obtain ⟨ec, l2', hhn2, hl2⟩ := hostname_inv hct hraw2
        refine ⟨ns ++ (b1 ++ (ct ++ (b2 ++ 40 :: (w0 ++ (n1 ++ (w1 ++ (n2 ++ (w2 ++ (n3 ++ (w3 ++ (n4 ++ (w4 ++ (n5 ++ (w5 ++ [41])))))))))))))),
          _, i10, ?_, endP_inv hend, by
            rw [ht']
            exact RDataText.soa ns b1 ct b2 w0 n1 w1 n2 w2 n3 w3 n4 w4 n5 w5 l1' l2' hhn1 hbb1 hhn2 hbb2 hw0 hn1 hw1' hn2 hw2' hn3
              hw3' hn4 hw4' hn5 hw5 (by omega) (by omega) (by omega) (by omega) (by omega), ?_⟩
        · rw [en, e1, ec, e2, q40, f0, g1, f1, g2, f2, g3, f3, g4, f4, g5, f5, q41]; simp
        · have erd : encLabels l1' ++ [0] ++ (encLabels l2' ++ [0]) ++
              (put32 (decVal n1) ++ put32 (decVal n2) ++ put32 (decVal n3) ++ put32 (decVal n4) ++ put32 (decVal n5)) =
              raw1 ++ raw2 ++ (List.map put32 [a, b, c, d, e]).flatten := by
            rw [hl1, hl2, v1, v2, v3, v4, v5]; simp
          rw [erd]; exact hnew
      | err e' => rw [hraw2] at hnew; simp at hnew
      | panic => rw [hraw2] at hnew; simp at hnew
      | diverge => rw [hraw2] at hnew; simp at hnew
    | err e' => rw [hraw1] at hnew; simp at hnew
    | panic => rw [hraw1] at hnew; simp at hnew
    | diverge => rw [hraw1] at hnew; simp at hnew
  split at hp
  · rename_i _ _ _ _ _ _ ht
    have ht' : h.rrType = 43 := by simpa using ht
    simp only [Option.bind_eq_bind, Option.bind_eq_some_iff, Option.pure_def, Option.some.injEq] at hp
    obtain ⟨⟨tag, i1⟩, htag, i2, hb1, ⟨alg, i3⟩, halg, i4, hb2, ⟨dt, i5⟩, hdt, i6, hb3, ⟨dg, i7⟩, hdg, _, hend, hnew⟩ := hp
    simp only at htag hb1 halg hb2 hdt hb3 hdg hend hnew
    obtain ⟨tg, e1, htn, _, tv, tl⟩ := decimalMax_inv htag
    obtain ⟨b1, e2, hbb1, _⟩ := skipHws1_inv hb1
    obtain ⟨al, e3, han, _, av, al'⟩ := decimalMax_inv halg
    obtain ⟨b2, e4, hbb2, _⟩ := skipHws1_inv hb2
    obtain ⟨dtt, e5, hdn, _, dv, dl⟩ := decimalMax_inv hdt
    obtain ⟨b3, e6, hbb3, _⟩ := skipHws1_inv hb3
    obtain ⟨hex, e7, hht, hne⟩ := hexStringP_inv hdg
    unfold buildDs at hnew
    refine ⟨tg ++ (b1 ++ (al ++ (b2 ++ (dtt ++ (b3 ++ hex))))), _, i7, by rw [e1, e2, e3, e4, e5, e6, e7]; simp, endP_inv hend,
      by rw [ht']; exact RDataText.ds tg b1 al b2 dtt b3 hex dg htn (by omega) hbb1 han (by omega) hbb2 hdn (by omega) hbb3 hht hne, ?_⟩
    rw [← tv, ← av, ← dv]; exact hnew
  · simp at hp

end Dns

namespace Dns
open Res

/-- **whatever synthesises is a text of the grammar, and the result is its wire record** -/
theorem synth_grammar {t rr : Bytes} (h : synth t = .ok rr) : RecordText t rr := by
  unfold synth at h
  cases hc : commonP t with
  | none => rw [hc] at h; simp at h
  | some x =>
    obtain ⟨hd, i⟩ := x
    rw [hc] at h
    simp only at h
    cases hr : rdataP hd i with
    | none => rw [hr] at h; simp at h
    | some r =>
      rw [hr] at h
      simp only at h
      obtain ⟨b0, b1, ttl, b2, cI, cN, b3, tw, b4, ht, hb0, ⟨x, rx, hown⟩, hb1, httl, hv, hle, hb2, hI, hN, hb3, htw, hb4⟩ :=
        commonP_inv hc
      obtain ⟨rdt, rd, b5, hi, hb5, hrd, hnew⟩ := rdataP_inv hr h
      obtain ⟨raw, hraw, hlen, hrr⟩ := rrNew_shape hnew
      obtain ⟨_, ols, hhn, hls⟩ := hostname_inv hown hraw
      refine ⟨b0, hd.name, b1, ttl, b2, cI, cN, b3, tw, b4, rdt, b5, rd, ols, hd.rrType, by rw [ht, hi], hb0, hhn, hb1, httl, hle,
        hb2, hI, hN, hb3, htw, hb4, hrd, hb5, by omega, ?_⟩
      rw [hrr, hls, hv]

/-- the grammar and the synthesiser agree exactly -/
theorem synth_iff_grammar (t rr : Bytes) : synth t = .ok rr ↔ RecordText t rr :=
  ⟨synth_grammar, synth_complete⟩

end Dns
