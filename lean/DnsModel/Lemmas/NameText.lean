/-
  Lemmas.NameText — `copy_raw_name_from_str`: the index-based loop is a left-to-right scan that
  cuts the text at dots; what the scan accepts and what it returns.
-/
import DnsModel.Synth
import DnsModel.Lemmas.Emit
namespace Dns
open Res

/-- the scan, with the pending label held as a list: `none` is `InvalidName` -/
def scan : List UInt8 → Bytes → Bytes → Option (Bytes × Bytes)
  | [], cur, out => some (out, cur)
  | c :: rest, cur, out =>
    if c = 46 then
      if cur = [] then none else scan rest [] (out ++ UInt8.ofNat cur.length :: cur)
    else if cur.length ≥ 62 then none
    else if c.toNat > 128 then none
    else scan rest (cur ++ [c]) out

/-- relation between the loop state and the scan state after the prefix `pre` of `name` -/
structure ScanInv (pre : Bytes) (st : NameSt) (cur : Bytes) : Prop where
  len : st.labelLen = cur.length
  pos : cur ≠ [] → st.labelStart + cur.length = pre.length ∧ pre.drop st.labelStart = cur

theorem rawNameLoop_scan (name : Bytes) (hname : name ≠ [46]) :
    ∀ (rest pre : Bytes) (st : NameSt) (cur : Bytes), name = pre ++ rest → ScanInv pre st cur →
      match scan rest cur st.out with
      | none => rawNameLoop name rest pre.length st = .err .invalidName
      | some (o, cur') => ∃ st', rawNameLoop name rest pre.length st = .ok st' ∧ st'.out = o ∧
          st'.labelLen = cur'.length ∧ (cur' ≠ [] → name.drop st'.labelStart = cur') := by
  intro rest
  induction rest with
  | nil =>
    intro pre st cur hn hinv
    simp only [scan, rawNameLoop]
    refine ⟨st, rfl, rfl, hinv.len, ?_⟩
    intro hc
    have := (hinv.pos hc).2
    simp at hn
    rw [hn]; exact this
  | cons c rest ih =>
    intro pre st cur hn hinv
    have hn' : name = (pre ++ [c]) ++ rest := by simp [hn]
    have hlen' : (pre ++ [c]).length = pre.length + 1 := by simp
    unfold scan rawNameLoop
    by_cases hc : c = 46
    · subst hc
      by_cases hcur : cur = []
      · subst hcur
        have hl0 : st.labelLen = 0 := by simpa using hinv.len
        have hne : (name.length != 1) = true := by
          simp
          intro h1
          apply hname
          have : pre = [] ∧ rest = [] := by
            have : (pre ++ (46 : UInt8) :: rest).length = 1 := by rw [← hn]; exact h1
            simp at this
            have h2 : pre.length = 0 ∧ rest.length = 0 := by omega
            exact ⟨List.length_eq_zero_iff.1 h2.1, List.length_eq_zero_iff.1 h2.2⟩
          rw [hn, this.1, this.2]; rfl
        simp [hl0, hne]
      · have hl : st.labelLen = cur.length := hinv.len
        have hpos := hinv.pos hcur
        have hlz : (st.labelLen == 0) = false := by
          have : cur.length ≠ 0 := by intro h; exact hcur (List.length_eq_zero_iff.1 h)
          simp [hl, this]
        simp only [beq_self_eq_true, hlz, Bool.and_false, Bool.false_eq_true, if_false, Bool.true_and, if_true, hcur]
        have hslice : (name.drop st.labelStart).take (pre.length - st.labelStart) = cur := by
          rw [hn, List.drop_append_of_le_length (by omega), hpos.2]
          have : pre.length - st.labelStart = cur.length := by omega
          rw [this]; simp
        rw [hslice, hl]
        have := ih (pre ++ [46]) { st with out := st.out ++ [UInt8.ofNat cur.length] ++ cur, labelLen := 0 } [] hn'
          ⟨rfl, by intro h; exact absurd rfl h⟩
        rw [hlen'] at this
        have e : st.out ++ [UInt8.ofNat cur.length] ++ cur = st.out ++ UInt8.ofNat cur.length :: cur := by simp
        simp only [e] at this
        simp only [e]
        exact this
    · have hc' : (c == 46) = false := by simp [hc]
      simp only [hc, hc', Bool.false_and, Bool.false_eq_true, if_false]
      rw [hinv.len]
      by_cases h62 : cur.length ≥ 62
      · have : cur.length ≥ 63 - 1 := by omega
        simp [h62, this]
      · have h62' : ¬ (cur.length ≥ 63 - 1) := by omega
        simp only [h62, h62', if_false]
        by_cases h128 : c.toNat > 128
        · simp [h128]
        · simp only [h128, if_false]
          by_cases hcur : cur = []
          · subst hcur
            simp only [List.length_nil, beq_self_eq_true, if_true, List.nil_append]
            have := ih (pre ++ [c]) { st with labelStart := pre.length, labelLen := 1 } [c] hn'
              ⟨rfl, by intro _; simp⟩
            rw [hlen'] at this
            exact this
          · have hz : (cur.length == 0) = false := by
              have : cur.length ≠ 0 := by intro h; exact hcur (List.length_eq_zero_iff.1 h)
              simp [this]
            simp only [hz, Bool.false_eq_true, if_false]
            have hpos := hinv.pos hcur
            have := ih (pre ++ [c]) { st with labelLen := cur.length + 1 } (cur ++ [c]) hn'
              ⟨by simp, by
                intro _
                refine ⟨by simp; omega, ?_⟩
                simp only
                rw [List.drop_append_of_le_length (by omega), hpos.2]⟩
            rw [hlen'] at this
            exact this

/-! ### what the scan accepts -/

/-- a label of the text form: non-empty, at most 62 bytes, no dot, no byte above 128 -/
def TextLabel (l : Bytes) : Prop := l ≠ [] ∧ l.length ≤ 62 ∧ ∀ c ∈ l, c ≠ 46 ∧ c.toNat ≤ 128

/-- a pending label: like a label but possibly empty -/
def TextRun (l : Bytes) : Prop := l.length ≤ 62 ∧ ∀ c ∈ l, c ≠ 46 ∧ c.toNat ≤ 128

/-- labels each followed by a dot -/
def dotted (done : List Bytes) : Bytes := done.flatMap (· ++ [46])

theorem scan_run (l rest cur out : Bytes) (h : TextRun (cur ++ l)) :
    scan (l ++ rest) cur out = scan rest (cur ++ l) out := by
  induction l generalizing cur with
  | nil => simp
  | cons c l ih =>
    have hc := h.2 c (by simp)
    have hl : cur.length < 62 := by have := h.1; simp at this; omega
    simp only [List.cons_append, scan]
    have h1 : ¬ (cur.length ≥ 62) := by omega
    have h2 : ¬ (c.toNat > 128) := by omega
    simp only [hc.1, if_false, h1, h2]
    have : cur ++ c :: l = (cur ++ [c]) ++ l := by simp
    rw [this] at h ⊢
    exact ih (cur ++ [c]) h

/-- **acceptance**: labels each followed by a dot, then a pending run -/
theorem scan_dotted (done : List Bytes) (cur out : Bytes) (hd : ∀ l ∈ done, TextLabel l) (hc : TextRun cur) :
    scan (dotted done ++ cur) [] out = some (out ++ encLabels done, cur) := by
  induction done generalizing out with
  | nil =>
    have := scan_run cur [] [] out (by simpa using hc)
    simp only [List.append_nil, List.nil_append] at this
    simp [dotted, this, scan, encLabels]
  | cons l done ih =>
    have hl := hd l (by simp)
    have e : dotted (l :: done) ++ cur = l ++ (46 :: (dotted done ++ cur)) := by simp [dotted]
    rw [e, scan_run l _ [] out (by simpa [TextRun] using ⟨hl.2.1, hl.2.2⟩)]
    simp only [List.nil_append, scan, if_true, hl.1, if_false]
    rw [ih _ (fun x hx => hd x (by simp [hx]))]
    simp [encLabels]

/-- **soundness**: whatever the scan accepts is labels each followed by a dot, then a pending run -/
theorem scan_sound (rest cur out o cur' : Bytes) (hc : TextRun cur) (h : scan rest cur out = some (o, cur')) :
    ∃ done, cur ++ rest = dotted done ++ cur' ∧ (∀ l ∈ done, TextLabel l) ∧ TextRun cur' ∧ o = out ++ encLabels done := by
  induction rest generalizing cur out with
  | nil =>
    simp [scan] at h
    obtain ⟨rfl, rfl⟩ := h
    exact ⟨[], by simp [dotted], by simp, hc, by simp [encLabels]⟩
  | cons c rest ih =>
    unfold scan at h
    by_cases h46 : c = 46
    · subst h46
      simp only [if_true] at h
      by_cases hcur : cur = []
      · simp [hcur] at h
      · simp only [hcur, if_false] at h
        obtain ⟨done, h1, h2, h3, h4⟩ := ih [] _ ⟨by simp, by simp⟩ h
        refine ⟨cur :: done, ?_, ?_, h3, ?_⟩
        · simp only [List.nil_append] at h1
          simp [dotted, h1]
        · intro l hl
          simp at hl
          rcases hl with rfl | hl
          · exact ⟨hcur, hc.1, hc.2⟩
          · exact h2 l hl
        · simp [h4, encLabels]
    · simp only [h46, if_false] at h
      by_cases h62 : cur.length ≥ 62
      · simp [h62] at h
      · simp only [h62, if_false] at h
        by_cases h128 : c.toNat > 128
        · simp [h128] at h
        · simp only [h128, if_false] at h
          obtain ⟨done, h1, h2, h3, h4⟩ := ih (cur ++ [c]) out ⟨by simp; omega, by
            intro x hx
            simp at hx
            rcases hx with hx | rfl
            · exact hc.2 x hx
            · exact ⟨h46, by omega⟩⟩ h
          exact ⟨done, by simpa using h1, h2, h3, h4⟩

theorem scan_append (a r cur out : Bytes) :
    scan (a ++ r) cur out = match scan a cur out with
      | none => none
      | some (o, c') => scan r c' o := by
  induction a generalizing cur out with
  | nil => simp [scan]
  | cons c a ih =>
    simp only [List.cons_append, scan]
    split
    · split
      · rfl
      · exact ih _ _
    · split
      · rfl
      · split
        · rfl
        · exact ih _ _

/-- an empty label anywhere is rejected -/
theorem scan_reject_empty (a b cur out : Bytes) : scan (a ++ 46 :: 46 :: b) cur out = none := by
  rw [scan_append]
  cases scan a cur out with
  | none => rfl
  | some x =>
    obtain ⟨o, c'⟩ := x
    simp only [scan, if_true]
    by_cases h : c' = [] <;> simp [h]

theorem scan_cur_le (a cur out o c' : Bytes) (hc : cur.length ≤ 62) (h : scan a cur out = some (o, c')) :
    c'.length ≤ 62 := by
  induction a generalizing cur out with
  | nil => simp [scan] at h; rw [← h.2]; exact hc
  | cons c a ih =>
    unfold scan at h
    split at h
    · split at h
      · simp at h
      · exact ih _ _ (by simp) h
    · split at h
      · simp at h
      · split at h
        · simp at h
        · exact ih _ _ (by simp; omega) h

/-- a dot-free run of 63 bytes anywhere is rejected -/
theorem scan_reject_long (a l b cur out : Bytes) (hcur : cur.length ≤ 62) (hl : l.length ≥ 63) (hd : ∀ c ∈ l, c ≠ 46) :
    scan (a ++ l ++ b) cur out = none := by
  rw [List.append_assoc, scan_append]
  cases hs : scan a cur out with
  | none => rfl
  | some x =>
    obtain ⟨o, c'⟩ := x
    have hc' := scan_cur_le a cur out o c' hcur hs
    simp only
    suffices ∀ (l : Bytes) (c' : Bytes), c'.length ≤ 62 → c'.length + l.length ≥ 63 → (∀ c ∈ l, c ≠ 46) →
        scan (l ++ b) c' o = none from this l c' hc' (by omega) hd
    intro l
    induction l with
    | nil => intro c' h1 h2 _; simp at h2; omega
    | cons c l ih =>
      intro c' h1 h hd
      simp only [List.cons_append, scan]
      have := hd c (by simp)
      simp only [this, if_false]
      by_cases h62 : c'.length ≥ 62
      · simp [h62]
      · simp only [h62, if_false]
        split
        · rfl
        · exact ih _ (by simp; omega) (by simp at h ⊢; omega) (fun x hx => hd x (by simp [hx]))

end Dns
