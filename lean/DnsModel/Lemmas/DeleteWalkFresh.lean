/-
  Lemmas.DeleteWalkFresh — the walk-and-delete run started on an object that still has its parse-time
  flag (compressed or not): until the first deletion the object is untouched and the cursor walks the
  parsed packet's records; the first deletion decompresses (FirstTouch) and the run continues on the
  plain object (DeleteWalk).
-/
import DnsModel.Lemmas.DeleteWalk
import DnsModel.Lemmas.FirstTouch
namespace Dns
open Res

/-- where the `j`-th record of a run starts (the end of the run past the last one) -/
def posOfIdx (l : List RecPos) (e : Nat) (j : Nat) : Nat := if h : j < l.length then l[j].off else e

/-- every record of a run is a record of the policy, and ends where the next one starts -/
theorem RRsL.at_idx {p : Bytes} {sec : Section} {l : List RecPos} {off e : Nat} {ob oe : Bool} (h : RRsL p sec l off ob e oe) :
    posOfIdx l e 0 = off ∧ ∀ j (hj : j < l.length), ∃ ob' oa', RRAtPos p sec l[j] ob' oa' ∧ l[j].next = posOfIdx l e (j + 1) := by
  induction h with
  | nil off o => exact ⟨by simp [posOfIdx], fun j hj => by simp at hj⟩
  | @cons r l e ob om oe hr hrest ih =>
    refine ⟨by simp [posOfIdx], ?_⟩
    intro j hj
    cases j with
    | zero =>
      refine ⟨ob, om, hr, ?_⟩
      have := ih.1
      simp only [posOfIdx, List.length_cons, List.getElem_cons_zero] at this ⊢
      by_cases hl : 0 < l.length
      · simp only [hl, dite_true] at this
        simp [hl, this]
      · simp only [hl, dite_false] at this
        simp [hl, this]
    | succ j =>
      obtain ⟨ob', oa', h1, h2⟩ := ih.2 j (by simpa using hj)
      refine ⟨ob', oa', by simpa using h1, ?_⟩
      simp only [List.getElem_cons_succ]
      rw [h2]
      simp only [posOfIdx, List.length_cons, Nat.add_lt_add_iff_right, List.getElem_cons_succ]

/-- the cursor stands just before the `j`-th record of the run `l` of the parsed packet -/
def CurAtFresh (l : List RecPos) (e : Nat) (sec : Section) (j : Nat) (c : Cursor) : Prop :=
  c.sec = sec ∧ ((c.offset = none ∧ j = 0) ∨
    (∃ o, c.offset = some o ∧ c.offsetNext = posOfIdx l e j ∧ c.rrsLeft = l.length - j ∧ j ≤ l.length))

def C03.Layout.startOf {p : Bytes} (L : C03.Layout p) : Section → Nat
  | .answer => L.qe + 4
  | .nameServers => L.e2
  | .additional => L.e3
  | _ => 0

def C03.Layout.endOf {p : Bytes} (L : C03.Layout p) : Section → Nat
  | .answer => L.e2
  | .nameServers => L.e3
  | .additional => p.length
  | _ => 0

theorem C03.Layout.run {p : Bytes} (L : C03.Layout p) (sec : Section) (hs : sec.isRec = true) :
    ∃ ob oe, RRsL p sec (L.recs sec) (L.startOf sec) ob (L.endOf sec) oe := by
  cases sec with
  | answer => exact ⟨_, _, L.ha⟩
  | nameServers => exact ⟨_, _, L.hn⟩
  | additional => exact ⟨_, _, L.hr⟩
  | question => simp [Section.isRec] at hs
  | edns => simp [Section.isRec] at hs

theorem C05.Output.canon {p : Bytes} {L : C03.Layout p} (o : C05.Output p L) (sec : Section) (hs : sec.isRec = true) :
    CanonRun p (L.recs sec) (o.pieces sec) := by
  cases sec with
  | answer => exact o.ha
  | nameServers => exact o.hn
  | additional => exact o.hr
  | question => simp [Section.isRec] at hs
  | edns => simp [Section.isRec] at hs

/-- what the iterators read for section `sec` of an object that still has its parse-time view -/
theorem fresh_secInfo {pp : PP} {p : Bytes} {v : View} (F : Fresh pp p v) (L : C03.Layout p) (sec : Section) (hs : sec.isRec = true) :
    secInfo pp sec = .ok ((L.recs sec).length, if (L.recs sec).length > 0 then some (L.startOf sec) else none) := by
  obtain ⟨L0, hl, v1, v2, v3, v4, _, _⟩ := C03.layout_full F.hp
  obtain ⟨eq, ea, en, er⟩ := C05.layout_unique L0 L
  have e2 : L0.e2 = L.e2 := by
    have := L0.ha; rw [eq, ea] at this
    exact (this.functional L.ha rfl).2
  have e3 : L0.e3 = L.e3 := by
    have := L0.hn; rw [e2, en] at this
    exact (this.functional L.hn rfl).2
  cases sec with
  | answer =>
    simp only [secInfo, C03.Layout.recs, C03.Layout.startOf, ancount, F.pk]
    rw [be16_of_le' (by omega), F.oa, v2, ea, eq, ← L.na]
    rfl
  | nameServers =>
    simp only [secInfo, C03.Layout.recs, C03.Layout.startOf, nscount, F.pk]
    rw [be16_of_le' (by omega), F.on, v3, en, e2, ← L.nn]
    rfl
  | additional =>
    simp only [secInfo, C03.Layout.recs, C03.Layout.startOf, arcount, F.pk]
    rw [be16_of_le' (by omega), F.oR, v4, er, e3, ← L.nr]
    rfl
  | question => simp [Section.isRec] at hs
  | edns => simp [Section.isRec] at hs

/-- `next` on the parsed object from a cursor standing before record `j` -/
theorem fresh_next_some {pp : PP} {p : Bytes} {v : View} (F : Fresh pp p v) (L : C03.Layout p) (sec : Section) (hs : sec.isRec = true)
    (j : Nat) (c : Cursor) (h : CurAtFresh (L.recs sec) (L.endOf sec) sec j c) (hj : j < (L.recs sec).length) :
    nextIncludingOpt pp c = .ok (some ⟨sec, some (L.recs sec)[j].off, (L.recs sec)[j].next, (L.recs sec)[j].ne, (L.recs sec).length - j - 1⟩) ∧
    CurAtFresh (L.recs sec) (L.endOf sec) sec (j + 1)
      ⟨sec, some (L.recs sec)[j].off, (L.recs sec)[j].next, (L.recs sec)[j].ne, (L.recs sec).length - j - 1⟩ ∧
    ∃ ob oa, RRAtPos p sec (L.recs sec)[j] ob oa := by
  obtain ⟨ob, oe, hrun⟩ := L.run sec hs
  obtain ⟨h0, hall⟩ := hrun.at_idx
  obtain ⟨ob', oa', hr, hnx⟩ := hall j hj
  have hr' : RRAtPos pp.packet sec (L.recs sec)[j] ob' oa' := by rw [F.pk]; exact hr
  obtain ⟨hsec, hcur⟩ := h
  refine ⟨?_, ⟨rfl, Or.inr ⟨_, rfl, hnx, by simp only; omega, by omega⟩⟩, ob', oa', hr⟩
  rcases hcur with ⟨hv, hj0⟩ | ⟨o, ho, hn, hk, _⟩
  · subst hj0
    have hi := fresh_secInfo F L sec hs
    have hpos : (L.recs sec).length > 0 := hj
    simp only [hpos, if_true] at hi
    have e : (L.recs sec).length = ((L.recs sec).length - 0 - 1) + 1 := by omega
    rw [e] at hi
    have hoff0 : (L.recs sec)[0].off = L.startOf sec := by
      rw [← h0]; simp [posOfIdx, hpos]
    rw [← hoff0] at hi
    subst hsec
    exact nextIncl_void_some c hv _ hi hr'
  · have hn' : c.offsetNext = (L.recs sec)[j].off := by rw [hn]; simp [posOfIdx, hj]
    have := nextIncl_live hr' c o ho hn' ((L.recs sec).length - j - 1) (by omega)
    rw [this, hsec]

theorem fresh_next_none {pp : PP} {p : Bytes} {v : View} (F : Fresh pp p v) (L : C03.Layout p) (sec : Section) (hs : sec.isRec = true)
    (j : Nat) (c : Cursor) (h : CurAtFresh (L.recs sec) (L.endOf sec) sec j c) (hj : ¬ j < (L.recs sec).length) :
    nextIncludingOpt pp c = .ok none := by
  obtain ⟨hsec, hcur⟩ := h
  rcases hcur with ⟨hv, hj0⟩ | ⟨o, ho, hn, hk, hle⟩
  · subst hj0
    have hi := fresh_secInfo F L sec hs
    have : (L.recs sec).length = 0 := by omega
    rw [this] at hi
    subst hsec
    exact nextIncl_void_none c hv _ hi
  · exact nextIncl_done c o ho (by omega)

/-- on the parsed object the OPT-skipping step is the plain step in the answer and authority sections -/
theorem fresh_step_eq {pp : PP} {p : Bytes} {v : View} (F : Fresh pp p v) (L : C03.Layout p) (sec : Section) (hs : sec.isRec = true)
    (step : PP → Cursor → Res (Option Cursor))
    (hstep : step = nextIncludingOpt ∨ (step = nextSkippingOpt ∧ sec ≠ .additional))
    (j : Nat) (c : Cursor) (h : CurAtFresh (L.recs sec) (L.endOf sec) sec j c) : step pp c = nextIncludingOpt pp c := by
  rcases hstep with rfl | ⟨rfl, hna⟩
  · rfl
  · unfold nextSkippingOpt
    by_cases hj : j < (L.recs sec).length
    · obtain ⟨hnx, _, ob, oa, hr⟩ := fresh_next_some F L sec hs j c h hj
      rw [hnx]
      simp only [bind_ok]
      obtain ⟨ob0, oe0, hrun⟩ := L.run sec hs
      have h41 : get16 p (L.recs sec)[j].ne ≠ 41 := hrun.no_opt_of_sec hna _ (List.getElem_mem hj)
      have h10 : (L.recs sec)[j].ne + 10 ≤ p.length := hr.2.1
      unfold maybeSkipOpt
      rw [rrType_at (o := (L.recs sec)[j].off) rfl (by rw [F.pk]; simpa using h10)]
      have c41 : (get16 pp.packet (L.recs sec)[j].ne == TYPE_OPT) = false := by rw [F.pk]; simp [TYPE_OPT, h41]
      simp only [bind_ok, c41, Bool.false_eq_true, if_false, pure_eq]
    · rw [fresh_next_none F L sec hs j c h hj]
      rfl

/-- **refinement, started on a parsed object**: until the first deletion nothing changes; the first
deletion decompresses and removes exactly the record under the cursor; from there the plain
refinement applies.  What is left is what the abstract machine leaves of the canonical pieces. -/
theorem delWalk_fresh_refines {pp : PP} {p : Bytes} {v : View} (F : Fresh pp p v) (L : C03.Layout p) (o : C05.Output p L)
    (sec : Section) (hs : sec.isRec = true) (step : PP → Cursor → Res (Option Cursor))
    (hstep : step = nextIncludingOpt ∨ (step = nextSkippingOpt ∧ sec ≠ .additional)) (choose : Nat → Bool) :
    ∀ (fuel k : Nat) (c : Cursor) (j : Nat), CurAtFresh (L.recs sec) (L.endOf sec) sec j c →
      ∀ r, absWalk choose fuel k (o.pieces sec) j = some r →
        ∃ (pp' : PP) (log : List (Bytes × Bool)), delWalk step choose fuel k pp c = .ok (pp', log) ∧
          log.map (·.2) = r.2.map (·.2) ∧
          ((pp' = pp ∧ r.1 = o.pieces sec ∧ ∀ e ∈ r.2, e.2 = false) ∨
           (∃ P' : PlainObj pp', P'.lst sec = r.1 ∧ (∀ s, s ≠ sec → P'.lst s = o.pieces s) ∧
              o.qc = (encLabels P'.qls ++ [0]) ++ P'.q4 ∧
              (∀ i, (i + 1 < sectionCountOffset sec ∨ sectionCountOffset sec + 1 < i) → get16 P'.hdr i = get16 (p.take 12) i))) := by
  have hlen : (o.pieces sec).length = (L.recs sec).length := (o.canon sec hs).length
  have hstep' : ∀ (pp : PP) (P : PlainObj pp) (c : Cursor) (j : Nat), CurAt P sec j c → step pp c = nextIncludingOpt pp c := by
    intro pp P c j h
    rcases hstep with rfl | ⟨rfl, hna⟩
    · rfl
    · exact nextSkip_eq_incl P sec hs hna c j h
  intro fuel
  induction fuel with
  | zero => intro k c j _ r h; simp [absWalk] at h
  | succ f ih =>
    intro k c j hc r h
    unfold absWalk at h
    unfold delWalk
    rw [fresh_step_eq F L sec hs step hstep j c hc]
    by_cases hj : j < (o.pieces sec).length
    · have hj' : j < (L.recs sec).length := by omega
      simp only [hj, dite_true] at h
      obtain ⟨hnx, hcnext, ob, oa, hr⟩ := fresh_next_some F L sec hs j c hc hj'
      rw [hnx]
      simp only
      by_cases hch : choose k = true
      · simp only [hch, if_true] at h ⊢
        obtain ⟨r', hr', rfl⟩ := Option.map_eq_some_iff.1 h
        obtain ⟨pp1, P1, c1, hdel, hvoid, hsec1, e1, e2, e3, e4⟩ := delete_fresh F L o sec hs
          (split_at (L.recs sec) j hj') (split_at (o.pieces sec) j hj) (by simp; omega)
          ⟨sec, some (L.recs sec)[j].off, (L.recs sec)[j].next, (L.recs sec)[j].ne, (L.recs sec).length - j - 1⟩ rfl rfl
        rw [hdel]
        simp only [Option.isSome_none, Bool.false_eq_true, if_false]
        have hc1 : CurAt P1 sec 0 c1 := ⟨hsec1, Or.inl ⟨hvoid, rfl⟩⟩
        rw [eraseIdx_split _ _ hj, ← e1] at hr'
        obtain ⟨pp', P', hw, f1, f2, f3, f4, f5⟩ := delWalk_refines sec hs step hstep' choose f (k + 1) pp1 P1 c1 0 hc1 r' hr'
        refine ⟨pp', _, by rw [hw]; rfl, by simp, Or.inr ⟨P', f1, ?_, by rw [f3, f4]; exact e3, ?_⟩⟩
        · intro s hs'; rw [f2 s hs', e2 s hs']
        · intro i hi; rw [f5 i hi, e4 i hi]
      · have hch' : choose k = false := by simpa using hch
        simp only [hch', Bool.false_eq_true, if_false] at h ⊢
        obtain ⟨r', hr', rfl⟩ := Option.map_eq_some_iff.1 h
        obtain ⟨pp', log, hw, hl, hres⟩ := ih (k + 1) _ (j + 1) hcnext r' hr'
        refine ⟨pp', _, by rw [hw]; rfl, by simp [hl], ?_⟩
        rcases hres with ⟨h1, h2, h3⟩ | h
        · exact Or.inl ⟨h1, h2, fun e he => by
            simp only [List.mem_cons] at he
            rcases he with rfl | he
            · rfl
            · exact h3 e he⟩
        · exact Or.inr h
    · have hj' : ¬ j < (L.recs sec).length := by omega
      simp only [hj, dite_false, Option.some.injEq] at h
      rw [fresh_next_none F L sec hs j c hc hj']
      subst h
      exact ⟨pp, [], rfl, rfl, Or.inl ⟨rfl, rfl, by simp⟩⟩

end Dns
