/-
  Lemmas.Replace — `Renamer::replace_raw` on pointer-free wire names: it replaces a suffix (or the
  whole name) that equals the source up to case, on a label boundary, and nothing else.
-/
import DnsModel.Renamer
import DnsModel.Lemmas.Plain
namespace Dns
open Res

/-- where the first loop of `replace_raw` stops: the first label boundary equal to `offset`, else the root -/
def findPos (offset : Nat) : List (List UInt8) → Nat → Nat
  | [], pos => pos
  | x :: suf, pos => if pos = offset then pos else findPos offset suf (pos + x.length + 1)

theorem findLoop_spec (offset : Nat) (suf : List (List UInt8)) :
    ∀ (pre : List (List UInt8)) (fuel : Nat), (∀ l ∈ pre ++ suf, okLabel l) → fuel > suf.length →
      replaceFindLoop (encLabels (pre ++ suf) ++ [0]) offset fuel (labSum pre) = .ok (findPos offset suf (labSum pre)) := by
  induction suf with
  | nil =>
    intro pre fuel hok hf
    cases fuel with
    | zero => omega
    | succ n =>
      unfold replaceFindLoop
      simp only [nm_idx_nil, bind_ok, beq_self_eq_true, if_true, pure_eq, findPos]
  | cons x suf ih =>
    intro pre fuel hok hf
    cases fuel with
    | zero => omega
    | succ n =>
      have hx : okLabel x := hok x (by simp)
      unfold replaceFindLoop
      have hnz : (x.length == 0) = false := by rw [beq_eq_false_iff_ne]; unfold okLabel at hx; omega
      simp only [nm_idx_cons pre x suf hx, bind_ok, hnz, Bool.false_eq_true, if_false, findPos]
      by_cases ho : labSum pre = offset
      · simp [ho]
      · have : (labSum pre == offset) = false := by simp [ho]
        simp only [this, Bool.false_eq_true, if_false, ho]
        have e1 : pre ++ x :: suf = (pre ++ [x]) ++ suf := by simp
        have e2 : labSum pre + x.length + 1 = labSum (pre ++ [x]) := by
          rw [labSum_append, labSum_cons]; simp [labSum]; omega
        rw [e2, e1]
        exact ih (pre ++ [x]) n (by rw [← e1]; exact hok) (by simp at hf; omega)

/-- `findPos` when `offset` is the boundary after `a` -/
theorem findPos_hit (a b : List (List UInt8)) (hb : b ≠ []) (base : Nat) :
    findPos (base + labSum a) (a ++ b) base = base + labSum a := by
  induction a generalizing base with
  | nil =>
    cases b with
    | nil => exact absurd rfl hb
    | cons y b => simp [findPos, labSum]
  | cons x a ih =>
    simp only [List.cons_append, findPos]
    have : ¬ (base = base + labSum (x :: a)) := by rw [labSum_cons]; omega
    simp only [this, if_false]
    have e : base + labSum (x :: a) = (base + x.length + 1) + labSum a := by rw [labSum_cons]; omega
    rw [e]
    exact ih (base + x.length + 1)

/-- `findPos` stops at a boundary or at the root -/
theorem findPos_cases (offset : Nat) (ls : List (List UInt8)) (base : Nat) :
    (findPos offset ls base = base + labSum ls ∧ ∀ a b, ls = a ++ b → b ≠ [] → base + labSum a ≠ offset) ∨
    (∃ a b, ls = a ++ b ∧ b ≠ [] ∧ base + labSum a = offset ∧ findPos offset ls base = offset) := by
  induction ls generalizing base with
  | nil =>
    left
    refine ⟨by simp [findPos, labSum], ?_⟩
    intro a b h hb
    have := List.append_eq_nil_iff.1 h.symm
    exact absurd this.2 hb
  | cons x ls ih =>
    by_cases hbo : base = offset
    · right
      exact ⟨[], x :: ls, rfl, by simp, by simp [labSum, hbo], by simp [findPos, hbo]⟩
    · simp only [findPos, hbo, if_false]
      rcases ih (base + x.length + 1) with ⟨h1, h2⟩ | ⟨a, b, h1, h2, h3, h4⟩
      · left
        refine ⟨by rw [h1, labSum_cons]; omega, ?_⟩
        intro a b hab hb
        cases a with
        | nil => simpa [labSum] using hbo
        | cons y a =>
          simp at hab
          obtain ⟨rfl, hab⟩ := hab
          have := h2 a b hab hb
          rw [labSum_cons]; omega
      · right
        refine ⟨x :: a, b, by simp [h1], h2, by rw [labSum_cons]; omega, h4⟩

end Dns

namespace Dns
open Res

theorem ofNat_toNat (c : UInt8) : UInt8.ofNat c.toNat = c := by simp

/-- the inner comparison: `xs` in the name against `ys` in the source, byte by byte, ignoring case -/
theorem labelEq_spec (name source : Bytes) (i offset : Nat) (hoi : offset ≤ i) :
    ∀ (xs ys : Bytes) (j : Nat), xs.length = ys.length →
      (name.drop (i + j)).take xs.length = xs → (source.drop (i + j - offset)).take ys.length = ys →
      labelEqLoop name source i offset xs.length j = .ok (decide (lowerBytes xs = lowerBytes ys)) := by
  intro xs
  induction xs with
  | nil =>
    intro ys j hl _ _
    cases ys with
    | nil => simp [labelEqLoop]
    | cons _ _ => simp at hl
  | cons a xs ih =>
    intro ys j hl hx hy
    cases ys with
    | nil => simp at hl
    | cons b ys =>
      simp only [List.length_cons] at hl hx hy ⊢
      unfold labelEqLoop
      have ha : idx name (i + j) = .ok a.toNat := by
        apply idx_of_byteAt
        have := window_byteAt hx (i := 0) (by omega)
        simpa [byteAt] using this
      have hb : idx source (i + j - offset) = .ok b.toNat := by
        apply idx_of_byteAt
        have := window_byteAt hy (i := 0) (by omega)
        simpa [byteAt] using this
      have hsub : sub (i + j) offset = .ok (i + j - offset) := by simp [sub]; omega
      simp only [ha, hsub, hb, bind_ok, ofNat_toNat]
      have hx' : (name.drop (i + (j + 1))).take xs.length = xs := by
        have := congrArg (List.drop 1) hx
        rw [List.drop_take, List.drop_drop] at this
        simpa [Nat.add_assoc] using this
      have hy' : (source.drop (i + (j + 1) - offset)).take ys.length = ys := by
        have := congrArg (List.drop 1) hy
        rw [List.drop_take, List.drop_drop] at this
        have e : i + j - offset + 1 = i + (j + 1) - offset := by omega
        rw [e] at this
        simpa using this
      by_cases hab : eqIgnoreCase a b = true
      · simp only [hab, if_true]
        rw [ih ys (j + 1) (by omega) hx' hy']
        simp only [eqIgnoreCase, beq_iff_eq] at hab
        congr 1
        apply decide_eq_decide.2
        simp [lowerBytes, hab]
      · simp only [hab, Bool.false_eq_true, if_false, pure_eq]
        simp only [eqIgnoreCase, beq_iff_eq] at hab
        simp [lowerBytes, hab]

/-- the label-by-label comparison of the second loop -/
def cmpLs : List (List UInt8) → List (List UInt8) → Bool
  | [], _ => true
  | _ :: _, [] => false
  | x :: suf, y :: srem =>
    if x.length != y.length then false else if lowerBytes x != lowerBytes y then false else cmpLs suf srem

theorem nm_label_window (pre : List (List UInt8)) (x : List UInt8) (suf : List (List UInt8)) :
    ((encLabels (pre ++ x :: suf) ++ [0]).drop (labSum pre + 1 + 0)).take x.length = x := by
  have := nm_drop pre (x :: suf)
  have e : (encLabels (pre ++ x :: suf) ++ [0]).drop (labSum pre + 1 + 0) =
      ((encLabels (pre ++ x :: suf) ++ [0]).drop (labSum pre)).drop 1 := by rw [List.drop_drop]
  rw [e, this]
  simp [encLabels]

theorem cmpLoop_spec (offset : Nat) (suf : List (List UInt8)) :
    ∀ (pre spre srem : List (List UInt8)) (fuel : Nat), (∀ l ∈ pre ++ suf, okLabel l) → (∀ l ∈ spre ++ srem, okLabel l) →
      fuel > suf.length → labSum pre = offset + labSum spre →
      replaceCmpLoop (encLabels (pre ++ suf) ++ [0]) (encLabels (spre ++ srem) ++ [0]) offset fuel (labSum pre) =
        .ok (cmpLs suf srem) := by
  induction suf with
  | nil =>
    intro pre spre srem fuel _ _ hf _
    cases fuel with
    | zero => omega
    | succ n =>
      unfold replaceCmpLoop
      simp only [nm_idx_nil, bind_ok, beq_self_eq_true, if_true, pure_eq, cmpLs]
  | cons x suf ih =>
    intro pre spre srem fuel hok hoks hf hoff
    cases fuel with
    | zero => omega
    | succ n =>
      have hx : okLabel x := hok x (by simp)
      unfold replaceCmpLoop
      have hnz : (x.length == 0) = false := by rw [beq_eq_false_iff_ne]; unfold okLabel at hx; omega
      have hle : offset ≤ labSum pre := by omega
      have hsub : sub (labSum pre) offset = .ok (labSum spre) := by simp [sub, hle]; omega
      simp only [nm_idx_cons pre x suf hx, bind_ok, hnz, Bool.false_eq_true, if_false, hsub]
      cases srem with
      | nil =>
        simp only [nm_idx_nil, bind_ok, cmpLs]
        have : (x.length != 0) = true := by rw [bne_iff_ne]; unfold okLabel at hx; omega
        simp [this]
      | cons y srem =>
        have hy : okLabel y := hoks y (by simp)
        simp only [nm_idx_cons spre y srem hy, bind_ok, cmpLs]
        by_cases hl : x.length = y.length
        · have hne : (x.length != y.length) = false := by simp [hl]
          simp only [hne, Bool.false_eq_true, if_false]
          have hlab := labelEq_spec (encLabels (pre ++ x :: suf) ++ [0]) (encLabels (spre ++ y :: srem) ++ [0])
            (labSum pre + 1) offset (by omega) x y 0 hl (nm_label_window pre x suf) (by
              have := nm_label_window spre y srem
              have e : labSum pre + 1 + 0 - offset = labSum spre + 1 + 0 := by omega
              rw [e]; exact this)
          rw [hlab]
          simp only [bind_ok]
          by_cases hlow : lowerBytes x = lowerBytes y
          · have hd : (lowerBytes x != lowerBytes y) = false := by simp [hlow]
            simp only [hlow, decide_true, Bool.not_true, Bool.false_eq_true, if_false, bne_self_eq_false]
            have e1 : pre ++ x :: suf = (pre ++ [x]) ++ suf := by simp
            have e1s : spre ++ y :: srem = (spre ++ [y]) ++ srem := by simp
            have e2 : labSum pre + 1 + x.length = labSum (pre ++ [x]) := by
              rw [labSum_append, labSum_cons]; simp [labSum]; omega
            rw [e2, e1, e1s]
            exact ih (pre ++ [x]) (spre ++ [y]) srem n (by rw [← e1]; exact hok) (by rw [← e1s]; exact hoks)
              (by simp at hf; omega) (by
                have h2 : labSum (spre ++ [y]) = labSum spre + y.length + 1 := by
                  rw [labSum_append, labSum_cons]; simp [labSum]; omega
                omega)
          · have hd : (lowerBytes x != lowerBytes y) = true := by simp [hlow]
            simp [hlow, hd]
        · have hne : (x.length != y.length) = true := by simp [hl]
          simp [hne]

end Dns

namespace Dns
open Res

theorem cmpLs_of_lsCi {b src : List (List UInt8)} (h : lsCi b src) : cmpLs b src = true := by
  induction b generalizing src with
  | nil => simp [cmpLs]
  | cons x b ih =>
    cases src with
    | nil => simp [lsCi] at h
    | cons y src =>
      simp [lsCi] at h
      have hl : x.length = y.length := by
        have := congrArg List.length h.1
        simpa [lowerBytes_length] using this
      simp only [cmpLs, hl, bne_self_eq_false, Bool.false_eq_true, if_false, h.1]
      exact ih (by simpa [lsCi] using h.2)

theorem labSum_pos {x : List UInt8} {l : List (List UInt8)} : 0 < labSum (x :: l) := by rw [labSum_cons]; omega

theorem cmpLs_sound {b src : List (List UInt8)} (h : cmpLs b src = true) (hs : labSum b = labSum src) : lsCi b src := by
  induction b generalizing src with
  | nil =>
    cases src with
    | nil => rfl
    | cons y src => have := @labSum_pos y src; simp [labSum] at hs; omega
  | cons x b ih =>
    cases src with
    | nil => simp [cmpLs] at h
    | cons y src =>
      simp only [cmpLs] at h
      by_cases hl : x.length = y.length
      · simp only [hl, bne_self_eq_false, Bool.false_eq_true, if_false] at h
        by_cases hlow : lowerBytes x = lowerBytes y
        · simp only [hlow, bne_self_eq_false, Bool.false_eq_true, if_false] at h
          rw [labSum_cons, labSum_cons] at hs
          have := ih h (by omega)
          unfold lsCi at this ⊢
          simp [hlow, this]
        · have : (lowerBytes x != lowerBytes y) = true := by simp [hlow]
          simp [this] at h
      · have : (x.length != y.length) = true := by simp [hl]
        simp [this] at h

/-- what renaming does to the labels of one name -/
inductive Renamed (src tgt : List (List UInt8)) (sfx : Bool) : List (List UInt8) → List (List UInt8) → Prop
  | hit (a b : List (List UInt8)) : lsCi b src → (sfx = false → a = []) → Renamed src tgt sfx (a ++ b) (a ++ tgt)
  | miss (ls : List (List UInt8)) : (¬ ∃ a b, ls = a ++ b ∧ lsCi b src ∧ (sfx = false → a = [])) → Renamed src tgt sfx ls ls

theorem labSum_eq_zero {a : List (List UInt8)} (h : labSum a = 0) : a = [] := by
  cases a with
  | nil => rfl
  | cons x a => have := @labSum_pos x a; omega

theorem take_enc (a b : List (List UInt8)) (t : Bytes) : (encLabels (a ++ b) ++ t).take (labSum a) = encLabels a := by
  rw [encLabels_append, List.append_assoc, ← encLabels_length a, List.take_append_length]

/-- **`replace_raw` on pointer-free names**: a hit (the name, or in suffix mode a suffix of it on a
label boundary, equals the source up to case) gives the name with that part replaced by the target,
or `InvalidName` when the result would exceed 255 bytes; anything else gives "unchanged" -/
theorem replaceRaw_spec (ls src tgt : List (List UInt8)) (sfx : Bool) (hok : ∀ l ∈ ls, okLabel l)
    (hoks : ∀ l ∈ src, okLabel l) (hokt : ∀ l ∈ tgt, okLabel l) (hsrc : src ≠ []) (htgt : tgt ≠ []) :
    (∃ a b, ls = a ++ b ∧ lsCi b src ∧ (sfx = false → a = []) ∧
      replaceRaw (encLabels ls ++ [0]) (encLabels tgt ++ [0]) (encLabels src ++ [0]) sfx =
        if labSum a + (labSum tgt + 1) > 255 then .err .invalidName else .ok (some (encLabels (a ++ tgt) ++ [0]))) ∨
    ((¬ ∃ a b, ls = a ++ b ∧ lsCi b src ∧ (sfx = false → a = [])) ∧
      replaceRaw (encLabels ls ++ [0]) (encLabels tgt ++ [0]) (encLabels src ++ [0]) sfx = .ok none) := by
  obtain ⟨sy, srest, hsy⟩ : ∃ y r, src = y :: r := by cases src with
    | nil => exact absurd rfl hsrc
    | cons y r => exact ⟨y, r, rfl⟩
  obtain ⟨ty, trest, hty⟩ : ∃ y r, tgt = y :: r := by cases tgt with
    | nil => exact absurd rfl htgt
    | cons y r => exact ⟨y, r, rfl⟩
  have hs0 : idx (encLabels src ++ [0]) 0 = .ok sy.length := by
    have := nm_idx_cons [] sy srest (hoks sy (by simp [hsy]))
    simpa [hsy, labSum] using this
  have ht0 : idx (encLabels tgt ++ [0]) 0 = .ok ty.length := by
    have := nm_idx_cons [] ty trest (hokt ty (by simp [hty]))
    simpa [hty, labSum] using this
  have hsyn : (sy.length == 0) = false := by
    have := hoks sy (by simp [hsy]); rw [beq_eq_false_iff_ne]; unfold okLabel at this; omega
  have htyn : (ty.length == 0) = false := by
    have := hokt ty (by simp [hty]); rw [beq_eq_false_iff_ne]; unfold okLabel at this; omega
  have hfind := findLoop_spec ((labSum ls + 1) - (labSum src + 1)) ls [] (labSum ls + 1 + 1) (by simpa using hok)
    (by have := length_lt_wireLen ls; rw [wireLen_eq] at this; omega)
  have hl0 : labSum ([] : List (List UInt8)) = 0 := rfl
  simp only [List.nil_append, hl0] at hfind
  -- common unfolding
  have hunf : replaceRaw (encLabels ls ++ [0]) (encLabels tgt ++ [0]) (encLabels src ++ [0]) sfx =
      (if labSum ls + 1 < labSum src + 1 || (sfx == false && labSum ls + 1 != labSum src + 1) then .ok none
       else do
        let i := findPos (labSum ls + 1 - (labSum src + 1)) ls 0
        if i ≥ labSum ls + 1 then .ok none else
        let b ← idx (encLabels ls ++ [0]) i
        if b == 0 && labSum ls + 1 > 0 then .ok none else do
        failIf (i != labSum ls + 1 - (labSum src + 1)) .invalidName
        let all ← replaceCmpLoop (encLabels ls ++ [0]) (encLabels src ++ [0]) (labSum ls + 1 - (labSum src + 1)) (labSum ls + 1 + 1) i
        if !all then .ok none else do
        failIf (labSum ls + 1 - (labSum src + 1) + (labSum tgt + 1) > DNS_MAX_HOSTNAME_LEN) .invalidName
        pure (some ((encLabels ls ++ [0]).take (labSum ls + 1 - (labSum src + 1)) ++ (encLabels tgt ++ [0])))) := by
    unfold replaceRaw
    simp only [encLen_eq]
    split
    · rfl
    · have c1 : (decide (labSum src + 1 ≤ 0) || decide (labSum tgt + 1 ≤ 0)) = false := by simp
      simp only [failIf, c1, Bool.false_eq_true, if_false, bind_ok, hs0, ht0, hsyn, htyn, Bool.or_self, hfind, pure_eq]
  by_cases hmatch : ∃ a b, ls = a ++ b ∧ lsCi b src ∧ (sfx = false → a = [])
  · left
    obtain ⟨a, b, hab, hci, hsf⟩ := hmatch
    refine ⟨a, b, hab, hci, hsf, ?_⟩
    have hbs : labSum b = labSum src := hci.labSum
    have hls : labSum ls = labSum a + labSum b := by rw [hab, labSum_append]
    have hoff : labSum ls + 1 - (labSum src + 1) = labSum a := by omega
    have hbne : b ≠ [] := by
      intro hb; subst hb
      rw [hsy] at hci
      simp [lsCi] at hci
    have hfp : findPos (labSum a) ls 0 = labSum a := by
      have := findPos_hit a b hbne 0
      simpa [hab] using this
    obtain ⟨bx, brest, hbx⟩ : ∃ y r, b = y :: r := by cases b with
      | nil => exact absurd rfl hbne
      | cons y r => exact ⟨y, r, rfl⟩
    have hbxok : okLabel bx := hok bx (by rw [hab, hbx]; simp)
    have hidx : idx (encLabels ls ++ [0]) (labSum a) = .ok bx.length := by
      have := nm_idx_cons a bx brest hbxok
      rw [hab, hbx]; exact this
    have hbxn : (bx.length == 0) = false := by rw [beq_eq_false_iff_ne]; unfold okLabel at hbxok; omega
    have hfuel : labSum ls + 1 + 1 > b.length := by
      have h1 := length_lt_wireLen ls
      rw [wireLen_eq] at h1
      have h2 : b.length ≤ ls.length := by rw [hab]; simp
      omega
    have hcmp := cmpLoop_spec (labSum a) b a [] src (labSum ls + 1 + 1) (by rw [← hab]; exact hok) (by simpa using hoks)
      hfuel (by simp [labSum])
    simp only [List.nil_append] at hcmp
    rw [← hab] at hcmp
    rw [hunf, hoff, hfp]
    have c0 : (decide (labSum ls + 1 < labSum src + 1) || (sfx == false && labSum ls + 1 != labSum src + 1)) = false := by
      cases sfx with
      | true => simp; omega
      | false =>
        have := hsf rfl; subst this
        rw [hl0] at hls
        simp; omega
    have c1 : ¬ (labSum a ≥ labSum ls + 1) := by omega
    simp only [c0, Bool.false_eq_true, if_false, c1, hidx, bind_ok, hbxn, Bool.false_and, failIf, bne_self_eq_false,
      hcmp, cmpLs_of_lsCi hci, Bool.not_true]
    consts
    by_cases hbig : labSum a + (labSum tgt + 1) > 255
    · simp [hbig]
    · simp only [hbig, decide_false, Bool.false_eq_true, if_false, bind_ok, pure_eq]
      have : (encLabels ls ++ [0]).take (labSum a) = encLabels a := by rw [hab]; exact take_enc a b [0]
      rw [this, encLabels_append]
      simp
  · right
    refine ⟨hmatch, ?_⟩
    rw [hunf]
    by_cases c0 : (decide (labSum ls + 1 < labSum src + 1) || (sfx == false && labSum ls + 1 != labSum src + 1)) = true
    · rw [if_pos c0]
    · simp only [c0, Bool.false_eq_true, if_false]
      have hge : labSum src + 1 ≤ labSum ls + 1 := by simp at c0; omega
      rcases findPos_cases (labSum ls + 1 - (labSum src + 1)) ls 0 with ⟨hroot, _⟩ | ⟨a, b, hab, hbne, hoff, hfp⟩
      · -- the loop ran into the root
        simp only [Nat.zero_add] at hroot
        rw [hroot]
        have c1 : ¬ (labSum ls ≥ labSum ls + 1) := by omega
        have hidx : idx (encLabels ls ++ [0]) (labSum ls) = .ok 0 := by
          have := nm_idx_nil ls; simpa using this
        simp [c1, hidx]
      · simp only [Nat.zero_add] at hoff
        rw [hfp, ← hoff]
        have hls : labSum ls = labSum a + labSum b := by rw [hab, labSum_append]
        obtain ⟨bx, brest, hbx⟩ : ∃ y r, b = y :: r := by cases b with
          | nil => exact absurd rfl hbne
          | cons y r => exact ⟨y, r, rfl⟩
        have hbxok : okLabel bx := hok bx (by rw [hab, hbx]; simp)
        have hidx : idx (encLabels ls ++ [0]) (labSum a) = .ok bx.length := by
          have := nm_idx_cons a bx brest hbxok
          rw [hab, hbx]; exact this
        have hbxn : (bx.length == 0) = false := by rw [beq_eq_false_iff_ne]; unfold okLabel at hbxok; omega
        have hfuel : labSum ls + 1 + 1 > b.length := by
          have h1 := length_lt_wireLen ls
          rw [wireLen_eq] at h1
          have h2 : b.length ≤ ls.length := by rw [hab]; simp
          omega
        have hcmp := cmpLoop_spec (labSum a) b a [] src (labSum ls + 1 + 1) (by rw [← hab]; exact hok) (by simpa using hoks)
          hfuel (by simp [labSum])
        simp only [List.nil_append] at hcmp
        rw [← hab] at hcmp
        have c1 : ¬ (labSum a ≥ labSum ls + 1) := by omega
        simp only [c1, if_false, hidx, bind_ok, hbxn, Bool.false_and, Bool.false_eq_true, failIf, bne_self_eq_false, hcmp]
        have hcf : cmpLs b src = false := by
          cases hc : cmpLs b src with
          | false => rfl
          | true =>
            exfalso
            apply hmatch
            refine ⟨a, b, hab, cmpLs_sound hc (by omega), ?_⟩
            intro hs
            subst hs
            simp at c0
            have : labSum a = 0 := by omega
            exact labSum_eq_zero this
        simp [hcf]

end Dns
