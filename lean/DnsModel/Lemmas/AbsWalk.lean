/-
  Lemmas.AbsWalk — "walk a list and delete some of what is yielded; a deletion restarts the walk":
  the abstract machine the cursor protocol refines, and its properties (pure list reasoning).
-/
namespace Dns

/-- abstract: yield the elements of a list in order; `choose k` decides whether the `k`-th yielded
element is deleted; after a deletion the walk restarts from the front of what is left.
Result: what is left and the log of yields (element, deleted?) -/
def absWalk {α} (choose : Nat → Bool) : Nat → Nat → List α → Nat → Option (List α × List (α × Bool))
  | 0, _, _, _ => none
  | f + 1, k, xs, j =>
    if h : j < xs.length then
      if choose k then (absWalk choose f (k + 1) (xs.eraseIdx j) 0).map (fun r => (r.1, (xs[j], true) :: r.2))
      else (absWalk choose f (k + 1) xs (j + 1)).map (fun r => (r.1, (xs[j], false) :: r.2))
    else some (xs, [])

/-- the walk ends: enough fuel is `(n+1)² + n + 1` for a list of `n` elements -/
theorem absWalk_terminates {α} (choose : Nat → Bool) :
    ∀ (fuel k : Nat) (xs : List α) (j : Nat), (xs.length + 1) * (xs.length + 1) + (xs.length - j) < fuel →
      (absWalk choose fuel k xs j).isSome = true := by
  intro fuel
  induction fuel with
  | zero => intro k xs j h; omega
  | succ f ih =>
    intro k xs j h
    unfold absWalk
    by_cases hj : j < xs.length
    · simp only [hj, dite_true]
      by_cases hc : choose k = true
      · simp only [hc, if_true, Option.isSome_map]
        apply ih
        rw [List.length_eraseIdx_of_lt hj]
        have h1 : xs.length - 1 + 1 = xs.length := by omega
        rw [h1]
        have : xs.length * xs.length + (xs.length - 1 - 0) < (xs.length + 1) * (xs.length + 1) := by
          rw [Nat.add_mul, Nat.mul_add]; omega
        omega
      · simp only [hc, Bool.false_eq_true, if_false, Option.isSome_map]
        apply ih
        omega
    · simp [hj]

/-- what is left is a sublist of the start (order kept), everything yielded was there -/
theorem absWalk_sublist {α} (choose : Nat → Bool) :
    ∀ (fuel k : Nat) (xs : List α) (j : Nat) r, absWalk choose fuel k xs j = some r →
      r.1.Sublist xs ∧ ∀ e ∈ r.2, e.1 ∈ xs := by
  intro fuel
  induction fuel with
  | zero => intro k xs j r h; simp [absWalk] at h
  | succ f ih =>
    intro k xs j r h
    unfold absWalk at h
    by_cases hj : j < xs.length
    · simp only [hj, dite_true] at h
      by_cases hc : choose k = true
      · simp only [hc, if_true] at h
        obtain ⟨r', hr', rfl⟩ := Option.map_eq_some_iff.1 h
        obtain ⟨h1, h2⟩ := ih _ _ _ _ hr'
        refine ⟨h1.trans (List.eraseIdx_sublist _ _), ?_⟩
        intro e he
        simp only [List.mem_cons] at he
        rcases he with rfl | he
        · exact List.getElem_mem hj
        · exact (List.eraseIdx_sublist _ _).subset (h2 e he)
      · simp only [hc, Bool.false_eq_true, if_false] at h
        obtain ⟨r', hr', rfl⟩ := Option.map_eq_some_iff.1 h
        obtain ⟨h1, h2⟩ := ih _ _ _ _ hr'
        refine ⟨h1, ?_⟩
        intro e he
        simp only [List.mem_cons] at he
        rcases he with rfl | he
        · exact List.getElem_mem hj
        · exact h2 e he
    · simp only [hj, dite_false, Option.some.injEq] at h
      subst h
      exact ⟨List.Sublist.refl _, by simp⟩

/-- the deleted elements together with what is left are the start, as multisets -/
theorem absWalk_perm {α} (choose : Nat → Bool) :
    ∀ (fuel k : Nat) (xs : List α) (j : Nat) r, absWalk choose fuel k xs j = some r →
      (((r.2.filter (·.2)).map (·.1)) ++ r.1).Perm xs := by
  intro fuel
  induction fuel with
  | zero => intro k xs j r h; simp [absWalk] at h
  | succ f ih =>
    intro k xs j r h
    unfold absWalk at h
    by_cases hj : j < xs.length
    · simp only [hj, dite_true] at h
      by_cases hc : choose k = true
      · simp only [hc, if_true] at h
        obtain ⟨r', hr', rfl⟩ := Option.map_eq_some_iff.1 h
        have := ih _ _ _ _ hr'
        simp only [List.filter_cons_of_pos, List.map_cons, List.cons_append]
        have h2 : (xs[j] :: xs.eraseIdx j).Perm xs := by
          have e : xs = xs.take j ++ xs[j] :: xs.drop (j + 1) := by
            rw [List.getElem_cons_drop, List.take_append_drop]
          have e2 : xs.eraseIdx j = xs.take j ++ xs.drop (j + 1) := List.eraseIdx_eq_take_drop_succ _ _
          rw [e2]
          conv => rhs; rw [e]
          exact List.perm_middle.symm
        exact (List.Perm.cons _ this).trans h2
      · simp only [hc, Bool.false_eq_true, if_false] at h
        obtain ⟨r', hr', rfl⟩ := Option.map_eq_some_iff.1 h
        have := ih _ _ _ _ hr'
        simpa using this
    · simp only [hj, dite_false, Option.some.injEq] at h
      subst h
      simp

/-- every survivor at or after the cursor is yielded (and kept) -/
theorem absWalk_yields_survivors {α} (choose : Nat → Bool) :
    ∀ (fuel k : Nat) (xs : List α) (j : Nat) r, absWalk choose fuel k xs j = some r →
      ∀ a ∈ r.1, a ∈ xs.take j ∨ (a, false) ∈ r.2 := by
  intro fuel
  induction fuel with
  | zero => intro k xs j r h; simp [absWalk] at h
  | succ f ih =>
    intro k xs j r h
    unfold absWalk at h
    by_cases hj : j < xs.length
    · simp only [hj, dite_true] at h
      by_cases hc : choose k = true
      · simp only [hc, if_true] at h
        obtain ⟨r', hr', rfl⟩ := Option.map_eq_some_iff.1 h
        intro a ha
        rcases ih _ _ _ _ hr' a ha with h0 | h1
        · simp at h0
        · exact Or.inr (List.mem_cons_of_mem _ h1)
      · simp only [hc, Bool.false_eq_true, if_false] at h
        obtain ⟨r', hr', rfl⟩ := Option.map_eq_some_iff.1 h
        intro a ha
        rcases ih _ _ _ _ hr' a ha with h0 | h1
        · rw [List.take_succ_eq_append_getElem hj, List.mem_append] at h0
          rcases h0 with h0 | h0
          · exact Or.inl h0
          · simp only [List.mem_singleton] at h0
            subst h0
            exact Or.inr (List.mem_cons_self)
        · exact Or.inr (List.mem_cons_of_mem _ h1)
    · simp only [hj, dite_false, Option.some.injEq] at h
      subst h
      intro a ha
      left
      rw [List.take_of_length_le (by omega)]
      exact ha

/-- with distinct elements: once deleted, never yielded again and not among what is left -/
theorem absWalk_deleted_gone {α} (choose : Nat → Bool) :
    ∀ (fuel k : Nat) (xs : List α) (j : Nat) r, xs.Nodup → absWalk choose fuel k xs j = some r →
      ∀ (l1 l2 : List (α × Bool)) (a : α), r.2 = l1 ++ (a, true) :: l2 → a ∉ l2.map (·.1) ∧ a ∉ r.1 := by
  intro fuel
  induction fuel with
  | zero => intro k xs j r _ h; simp [absWalk] at h
  | succ f ih =>
    intro k xs j r hnd h
    unfold absWalk at h
    by_cases hj : j < xs.length
    · simp only [hj, dite_true] at h
      by_cases hc : choose k = true
      · simp only [hc, if_true] at h
        obtain ⟨r', hr', rfl⟩ := Option.map_eq_some_iff.1 h
        intro l1 l2 a hl
        have hnd' : (xs.eraseIdx j).Nodup := hnd.sublist (List.eraseIdx_sublist _ _)
        cases l1 with
        | nil =>
          simp only [List.nil_append, List.cons.injEq, Prod.mk.injEq, and_true] at hl
          obtain ⟨rfl, rfl⟩ := hl
          obtain ⟨hs1, hs2⟩ := absWalk_sublist choose _ _ _ _ _ hr'
          have hnot : xs[j] ∉ xs.eraseIdx j := by
            intro hmem
            have e : xs = xs.take j ++ xs[j] :: xs.drop (j + 1) := by
              rw [List.getElem_cons_drop, List.take_append_drop]
            rw [List.eraseIdx_eq_take_drop_succ] at hmem
            rw [e] at hnd
            have := hnd.perm List.perm_middle
            exact (List.nodup_cons.1 this).1 hmem
          constructor
          · intro hm
            obtain ⟨e, he, hea⟩ := List.mem_map.1 hm
            exact hnot (hea ▸ hs2 e he)
          · intro hm
            exact hnot (hs1.subset hm)
        | cons x l1 =>
          simp only [List.cons_append, List.cons.injEq] at hl
          exact ih _ _ _ _ hnd' hr' l1 l2 a hl.2
      · simp only [hc, Bool.false_eq_true, if_false] at h
        obtain ⟨r', hr', rfl⟩ := Option.map_eq_some_iff.1 h
        intro l1 l2 a hl
        cases l1 with
        | nil => simp at hl
        | cons x l1 =>
          simp only [List.cons_append, List.cons.injEq] at hl
          exact ih _ _ _ _ hnd hr' l1 l2 a hl.2
    · simp only [hj, dite_false, Option.some.injEq] at h
      subst h
      intro l1 l2 a hl
      simp at hl

theorem map_eraseIdx' {α β} (g : α → β) (xs : List α) (j : Nat) : (xs.eraseIdx j).map g = (xs.map g).eraseIdx j := by
  rw [List.eraseIdx_eq_take_drop_succ, List.eraseIdx_eq_take_drop_succ, List.map_append, List.map_take, List.map_drop]

/-- the walk over a mapped list is the mapped walk (the machine never looks at the elements) -/
theorem absWalk_map {α β} (g : α → β) (choose : Nat → Bool) :
    ∀ (fuel k : Nat) (xs : List α) (j : Nat),
      absWalk choose fuel k (xs.map g) j = (absWalk choose fuel k xs j).map (fun r => (r.1.map g, r.2.map (fun e => (g e.1, e.2)))) := by
  intro fuel
  induction fuel with
  | zero => intro k xs j; simp [absWalk]
  | succ f ih =>
    intro k xs j
    unfold absWalk
    by_cases hj : j < xs.length
    · have hj' : j < (xs.map g).length := by simpa using hj
      simp only [hj, hj', dite_true]
      by_cases hc : choose k = true
      · simp only [hc, if_true]
        rw [← map_eraseIdx', ih]
        simp [Option.map_map, Function.comp_def]
      · simp only [hc, Bool.false_eq_true, if_false]
        rw [ih]
        simp [Option.map_map, Function.comp_def]
    · have hj' : ¬ j < (xs.map g).length := by simpa using hj
      simp [hj]

end Dns
