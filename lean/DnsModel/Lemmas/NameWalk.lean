/-
  Lemmas.NameWalk — the compressed-name walker never panics and never runs out of fuel.
-/
import DnsModel.Name
namespace Dns
/-- invariant that makes every read in the loop safe -/
def NW.Inv (p : Bytes) (s : NW) : Prop := s.barrier ≤ p.length ∧ s.lowest ≤ p.length

theorem ccnLoop_no_panic (p : Bytes) (fuel : Nat) (s : NW) (h : s.Inv p) : ccnLoop p fuel s ≠ .panic := by
  induction fuel generalizing s with
  | zero => simp [ccnLoop]
  | succ n ih =>
    unfold ccnLoop
    obtain ⟨hb, hl⟩ := h
    split
    · simp
    · rename_i hlt
      have hoff : s.offset < p.length := by omega
      obtain ⟨len, hlen, _⟩ := idx_ok_of_lt hoff
      simp only [hlen]
      split
      · split
        · simp
        · split
          · simp
          · rename_i h2
            have : s.offset + 1 < p.length := by omega
            obtain ⟨lo, hlo, _⟩ := idx_ok_of_lt this
            simp only [hlo]
            split
            · simp
            · rename_i href
              have hr : (((len &&& 0x3f) <<< 8) ||| lo) < p.length := by omega
              obtain ⟨t, ht, _⟩ := idx_ok_of_lt hr
              simp only [ht]
              split
              · simp
              · apply ih
                exact ⟨by simp; omega, by simp; omega⟩
      · split
        · simp
        · split
          · simp
          · split
            · simp
            · rename_i hge _
              have hfit : s.offset + len + 1 ≤ p.length := by omega
              have : labelHasBadChar p s.offset len = .ok (((p.drop (s.offset+1)).take len).any (fun c => badChar c.toNat)) := by
                unfold labelHasBadChar; simp; omega
              rw [this]
              split
              · simp
              · split
                · simp
                · apply ih; exact ⟨hb, hl⟩
              all_goals simp_all

theorem checkCompressedName_no_panic (p : Bytes) (off : Nat) : checkCompressedName p off ≠ .panic := by
  unfold checkCompressedName
  split
  · simp
  · apply ccnLoop_no_panic; constructor <;> simp <;> omega



theorem ccnLoop_terminates (p : Bytes) (fuel : Nat) (s : NW)
    (hn : s.nameLen ≤ 255) (hf : fuel > s.refs + (255 - s.nameLen)) : ccnLoop p fuel s ≠ .diverge := by
  induction fuel generalizing s with
  | zero => omega
  | succ n ih =>
    unfold ccnLoop
    split
    · simp
    · cases h1 : idx p s.offset with
      | ok len =>
        simp only []
        split
        · split
          · simp
          · split
            · simp
            · cases h2 : idx p (s.offset + 1) with
              | ok lo =>
                simp only []
                split
                · simp
                · cases h3 : idx p (((len &&& 0x3f) <<< 8) ||| lo) with
                  | ok t =>
                    simp only []
                    split
                    · simp
                    · apply ih <;> simp <;> omega
                  | err e => simp
                  | panic => simp
                  | diverge => simp [idx] at h3; split at h3 <;> simp at h3
              | err e => simp
              | panic => simp
              | diverge => simp [idx] at h2; split at h2 <;> simp at h2
        · split
          · simp
          · split
            · simp
            · split
              · simp
              · cases h4 : labelHasBadChar p s.offset len with
                | ok b =>
                  cases b with
                  | true => simp
                  | false =>
                    simp only []
                    split
                    · simp
                    · consts
                      apply ih <;> simp <;> omega
                | err e => simp
                | panic => simp
                | diverge => simp [labelHasBadChar] at h4; split at h4 <;> simp at h4
      | err e => simp
      | panic => simp
      | diverge => simp [idx] at h1; split at h1 <;> simp at h1

theorem checkCompressedName_total (p : Bytes) (off : Nat) :
    (∃ e, checkCompressedName p off = .err e) ∨ (∃ n, checkCompressedName p off = .ok n) := by
  have h1 := checkCompressedName_no_panic p off
  have h2 : checkCompressedName p off ≠ .diverge := by
    unfold checkCompressedName; split
    · simp
    · apply ccnLoop_terminates <;> simp [nameFuel]
  cases h : checkCompressedName p off <;> simp_all


end Dns
