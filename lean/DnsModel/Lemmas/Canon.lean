/-
  Lemmas.Canon — copying bytes keeps what the policy says about them: labels, pointer-free names and
  EDNS options read the same in a buffer that holds the same bytes elsewhere; the canonical form of a
  record is a record of the policy wherever it is placed.
-/
import DnsModel.Lemmas.Uncompress
import DnsModel.Lemmas.Question
namespace Dns
open Res

/-- `u` holds at `a'` the `n` bytes `p` holds at `a` -/
def Agree (p u : Bytes) (a a' n : Nat) : Prop := ∀ i, i < n → u[a' + i]? = p[a + i]?

theorem Agree.byteAt {p u : Bytes} {a a' n : Nat} (h : Agree p u a a' n) {i : Nat} (hi : i < n) :
    byteAt u (a' + i) = byteAt p (a + i) := by
  unfold Dns.byteAt
  rw [h i hi]

theorem Agree.get16 {p u : Bytes} {a a' n : Nat} (h : Agree p u a a' n) {i : Nat} (hi : i + 2 ≤ n) :
    get16 u (a' + i) = get16 p (a + i) := by
  unfold Dns.get16 getB
  rw [h.byteAt (by omega : i < n)]
  have := h.byteAt (by omega : i + 1 < n)
  rw [← Nat.add_assoc, ← Nat.add_assoc] at this
  rw [this]

theorem Agree.shift {p u : Bytes} {a a' n : Nat} (h : Agree p u a a' n) (k : Nat) (hk : k ≤ n) :
    Agree p u (a + k) (a' + k) (n - k) := by
  intro i hi
  have := h (k + i) (by omega)
  rw [Nat.add_assoc, Nat.add_assoc]
  exact this

theorem Agree.mono {p u : Bytes} {a a' n m : Nat} (h : Agree p u a a' n) (hm : m ≤ n) : Agree p u a a' m :=
  fun i hi => h i (by omega)

theorem Agree.lab {p u : Bytes} {a a' n : Nat} (h : Agree p u a a' n) {len : Nat} (hl : len + 1 ≤ n) :
    lab u a' len = lab p a len := by
  unfold Dns.lab
  apply List.ext_getElem?
  intro i
  simp only [List.getElem?_take, List.getElem?_drop]
  by_cases hi : i < len
  · simp only [hi, if_true]
    have := h (1 + i) (by omega)
    rw [← Nat.add_assoc, ← Nat.add_assoc] at this
    exact this
  · simp [hi]

theorem agree_of_append (p pre post : Bytes) (a n : Nat) (h : a + n ≤ p.length) :
    Agree p (pre ++ (p.drop a).take n ++ post) a pre.length n := by
  intro i hi
  rw [List.append_assoc, List.getElem?_append_right (by omega)]
  have : pre.length + i - pre.length = i := by omega
  rw [this, List.getElem?_append_left (by simp; omega), List.getElem?_take, List.getElem?_drop]
  simp [hi]

theorem Agree.length_le {p u : Bytes} {a a' n : Nat} (h : Agree p u a a' n) (hp : a + n ≤ p.length) (hn : 0 < n) :
    a' + n ≤ u.length := by
  have := h (n - 1) (by omega)
  have hlt : a + (n - 1) < p.length := by omega
  rw [List.getElem?_eq_getElem hlt] at this
  have := (List.getElem?_eq_some_iff.1 this).1
  omega

/-- a run of literal labels reads the same where the same bytes are -/
theorem Labels.translate {p : Bytes} {bar a stop : Nat} {ls : List (List UInt8)} (hl : Labels p bar a ls stop) :
    ∀ (u : Bytes) (a' bar' : Nat), Agree p u a a' (stop - a) → a' + (stop - a) ≤ bar' → a' + (stop - a) ≤ u.length →
      Labels u bar' a' ls (a' + (stop - a)) := by
  induction hl with
  | nil off => intro u a' bar' _ _ _; simp; exact Labels.nil _
  | @cons off len rest stop h1 h2 h3 h4 h5 hrest ih =>
    intro u a' bar' hag hbar hu
    have hle := hrest.le
    have hb : byteAt u a' = some len := by
      have := hag.byteAt (i := 0) (by omega)
      simpa [h2] using this
    have hlab : lab u a' len = lab p off len := (hag.mono (by omega : len + 1 ≤ stop - off)).lab (Nat.le_refl _)
    have hrec := ih u (a' + len + 1) bar' (by
      have := hag.shift (len + 1) (by omega)
      have e : stop - off - (len + 1) = stop - (off + len + 1) := by omega
      rw [e] at this
      simpa [Nat.add_assoc] using this) (by omega) (by omega)
    have e : a' + len + 1 + (stop - (off + len + 1)) = a' + (stop - off) := by omega
    rw [e] at hrec
    have := Labels.cons (p := u) (bar := bar') (off := a') (len := len) (rest := rest) (stop := a' + (stop - off))
      (by omega) hb h3 h4 (by omega) hrec
    rw [hlab] at this
    exact this

/-- a pointer-free name reads the same where the same bytes are -/
theorem PlainName.translate {p u : Bytes} {a e a' : Nat} (h : PlainName p a e) (hag : Agree p u a a' (e - a))
    : PlainName u a' (a' + (e - a)) := by
  obtain ⟨ls, stop, hl, hs, hb, he, hw⟩ := h
  have hle := hl.le
  subst he
  have hu : a' + (stop + 1 - a) ≤ u.length := hag.length_le (by omega) (by omega)
  refine ⟨ls, a' + (stop - a), hl.translate u a' u.length (hag.mono (by omega)) (by omega) (by omega), by omega, ?_, by omega, hw⟩
  have := hag.byteAt (i := stop - a) (by omega)
  have e : a + (stop - a) = stop := by omega
  rw [e, hb] at this
  exact this

/-- EDNS options tile the same where the same bytes are -/
theorem OptionsTile.translate {p : Bytes} {a b n : Nat} (h : OptionsTile p a b n) :
    ∀ (u : Bytes) (a' : Nat), Agree p u a a' (b - a) → OptionsTile u a' (a' + (b - a)) n := by
  induction h with
  | done a => intro u a' _; simp; exact OptionsTile.done _
  | @opt a b n hfit hrest ih =>
    intro u a' hag
    have hg : get16 u (a' + 2) = get16 p (a + 2) := hag.get16 (by omega)
    have hrec := ih u (a' + 4 + get16 p (a + 2)) (by
      have := hag.shift (4 + get16 p (a + 2)) (by omega)
      have e : b - a - (4 + get16 p (a + 2)) = b - (a + 4 + get16 p (a + 2)) := by omega
      rw [e] at this
      simpa [Nat.add_assoc] using this)
    have e : a' + 4 + get16 p (a + 2) + (b - (a + 4 + get16 p (a + 2))) = a' + (b - a) := by omega
    rw [e] at hrec
    refine OptionsTile.opt (by rw [hg]; omega) ?_
    rw [hg]; exact hrec

end Dns

namespace Dns
open Res

theorem window_eq {u A w B : Bytes} (h : u = A ++ w ++ B) : (u.drop A.length).take w.length = w := by
  subst h
  rw [List.append_assoc, List.drop_append_length, List.take_append_length]

theorem agree_of_eq {p u A B : Bytes} {a n : Nat} (h : u = A ++ (p.drop a).take n ++ B) (hfit : a + n ≤ p.length) :
    Agree p u a A.length n := by
  subst h; exact agree_of_append p A B a n hfit

theorem get16_put16_at {u A B : Bytes} {v : Nat} (h : u = A ++ put16 v ++ B) (hv : v < 65536) :
    get16 u A.length = v := by
  subst h
  have h0 : byteAt (A ++ put16 v ++ B) A.length = some (v / 256 % 256) := by
    rw [List.append_assoc, byteAt_append_right0]
    simp [put16, byteAt]
  have h1 : byteAt (A ++ put16 v ++ B) (A.length + 1) = some (v % 256) := by
    rw [List.append_assoc, byteAt_append_right]
    simp [put16, byteAt]
  rw [get16_eq_of_bytes h0 h1]
  omega

/-- the pointer-free encoding of labels within the limits, placed anywhere, is a valid name there -/
theorem validName_at {u A B : Bytes} {ls : List (List UInt8)} (h : u = A ++ (encLabels ls ++ [0]) ++ B)
    (hok : ∀ l ∈ ls, okLabel l) (hw : wireLen ls ≤ 255) (hg : ∀ l ∈ ls, goodChars l = true) :
    ValidName u A.length ls (A.length + labSum ls + 1) := by
  have hlen : u.length = A.length + labSum ls + 1 + B.length := by
    subst h; simp [encLabels_length]; omega
  have e : u = A ++ encLabels ls ++ ([0] ++ B) := by subst h; simp
  have hl := Labels.of_encLabels A ls ([0] ++ B) u.length hok (by omega)
  rw [← e] at hl
  refine ⟨by omega, NameAt.root hl (by omega) ?_, hw, hg⟩
  have e2 : u = (A ++ encLabels ls) ++ ((0 : UInt8) :: B) := by subst h; simp
  have hl2 : (A ++ encLabels ls).length = A.length + labSum ls := by simp [encLabels_length]
  rw [e2, ← hl2, byteAt_append_right0, byteAt_cons_zero]
  rfl

theorem encLabels_inj {a b : List (List UInt8)} (ha : ∀ l ∈ a, okLabel l) (hb : ∀ l ∈ b, okLabel l)
    (ta tb : Bytes) (h : encLabels a ++ 0 :: ta = encLabels b ++ 0 :: tb) : a = b := by
  induction a generalizing b with
  | nil =>
    cases b with
    | nil => rfl
    | cons l b =>
      simp [encLabels] at h
      have := (hb l (by simp)).1
      have hlt := (hb l (by simp)).2
      have h0 := h.1
      have : (UInt8.ofNat l.length).toNat = l.length := by simp; omega
      rw [← h0] at this
      simp at this
      omega
  | cons l a ih =>
    cases b with
    | nil =>
      simp [encLabels] at h
      have := (ha l (by simp)).1
      have hlt := (ha l (by simp)).2
      have h0 := h.1
      have : (UInt8.ofNat l.length).toNat = l.length := by simp; omega
      rw [h0] at this
      simp at this
      omega
    | cons l' b =>
      simp only [encLabels, List.cons_append, List.cons.injEq, List.append_assoc] at h
      have h1 := (ha l (by simp))
      have h2 := (hb l' (by simp))
      have hlen : l.length = l'.length := by
        have := congrArg UInt8.toNat h.1
        simp at this
        have a1 := h1.2; have a2 := h2.2
        omega
      have := List.append_inj h.2 hlen
      rw [this.1, ih (fun x hx => ha x (by simp [hx])) (fun x hx => hb x (by simp [hx])) this.2]

/-- the labels of a name are determined by the bytes -/
theorem validName_functional {p : Bytes} {off e e' : Nat} {ls ls' : List (List UInt8)}
    (h1 : ValidName p off ls e) (h2 : ValidName p off ls' e') : ls = ls' ∧ e = e' := by
  have g1 := copyUncompressedName_valid h1
  have g2 := copyUncompressedName_valid h2
  rw [g1] at g2
  simp at g2
  refine ⟨?_, g2.2⟩
  have := g2.1
  exact encLabels_inj h1.2.1.okLabels h2.2.1.okLabels [] [] (by simpa using this)

end Dns

namespace Dns
open Res

theorem validName_ok {p : Bytes} {off e : Nat} {ls : List (List UInt8)} (h : ValidName p off ls e) :
    (∀ l ∈ ls, okLabel l) ∧ wireLen ls ≤ 255 ∧ (∀ l ∈ ls, goodChars l = true) :=
  ⟨h.2.1.okLabels, h.2.2.1, h.2.2.2⟩

theorem encLen_eq (ls : List (List UInt8)) : (encLabels ls ++ [0]).length = labSum ls + 1 := by
  simp [encLabels_length]

/-- **canonical data placed anywhere** is data of the policy for the same type, and is its own canonical form -/
theorem rdcanon_placed {p : Bytes} {t l rs : Nat} {rd : Bytes} (hfit : rs + l ≤ p.length) (hl : l < 65536)
    (hbody : if t = 41 then ∃ n, OptionsTile p rs (rs + l) n else RDataOK p t l rs)
    (hrd : RdCanon p t l rs rd) {u A B : Bytes} (hu : u = A ++ rd ++ B) :
    rd.length < 65536 ∧
      (if t = 41 then ∃ n, OptionsTile u A.length (A.length + rd.length) n else RDataOK u t rd.length A.length) ∧
      RdCanon u t rd.length A.length rd := by
  have hwin : (u.drop A.length).take rd.length = rd := window_eq hu
  unfold RdCanon at hrd ⊢
  by_cases h41 : t = 41
  · subst h41
    simp only [if_true] at hbody ⊢
    have c1 : ¬ ((41 : Nat) = 2 ∨ (41 : Nat) = 5 ∨ (41 : Nat) = 12) := by decide
    have c2 : ¬ ((41 : Nat) = 15) := by decide
    have c3 : ¬ ((41 : Nat) = 6) := by decide
    simp only [c1, c2, c3, if_false] at hrd ⊢
    obtain ⟨n, htile⟩ := hbody
    have hlen : rd.length = l := by rw [hrd]; exact length_take_drop hfit
    refine ⟨by omega, ⟨n, ?_⟩, hwin.symm⟩
    have hag : Agree p u rs A.length l := agree_of_eq (by rw [hu, hrd]) hfit
    have := htile.translate u A.length (by simpa using hag)
    simpa [hlen] using this
  simp only [h41, if_false] at hbody ⊢
  unfold RDataOK at hbody ⊢
  by_cases hns : t = 2 ∨ t = 5 ∨ t = 12
  · simp only [hns, if_true] at hbody hrd ⊢
    obtain ⟨ls, hv, hrd⟩ := hrd
    obtain ⟨hok, hw, hg⟩ := validName_ok hv
    have hlen : rd.length = labSum ls + 1 := by rw [hrd, encLen_eq]
    have hv' : ValidName u A.length ls (A.length + labSum ls + 1) := validName_at (by rw [hu, hrd]) hok hw hg
    rw [wireLen_eq] at hw
    refine ⟨by omega, ⟨by omega, ls, by rw [hlen]; simpa [Nat.add_assoc] using hv'⟩, ls, by rw [hlen]; simpa [Nat.add_assoc] using hv', hrd⟩
  simp only [hns, if_false] at hbody hrd ⊢
  by_cases hmx : t = 15
  · simp only [hmx, if_true] at hbody hrd ⊢
    obtain ⟨ls, hv, hrd⟩ := hrd
    obtain ⟨hok, hw, hg⟩ := validName_ok hv
    have hp2 : ((p.drop rs).take 2).length = 2 := length_take_drop (by omega)
    have hlen : rd.length = 2 + (labSum ls + 1) := by rw [hrd, List.length_append, hp2, encLen_eq]
    have hv' : ValidName u (A ++ (p.drop rs).take 2).length ls ((A ++ (p.drop rs).take 2).length + labSum ls + 1) :=
      validName_at (B := B) (by rw [hu, hrd]; simp) hok hw hg
    rw [List.length_append, hp2] at hv'
    rw [wireLen_eq] at hw
    have hwin2 : (u.drop A.length).take 2 = (p.drop rs).take 2 := by
      have := window_eq (u := u) (A := A) (w := (p.drop rs).take 2) (B := (encLabels ls ++ [0]) ++ B) (by rw [hu, hrd]; simp)
      rw [hp2] at this; exact this
    have e : A.length + rd.length = A.length + 2 + labSum ls + 1 := by omega
    refine ⟨by omega, ⟨by omega, ls, by rw [e]; exact hv'⟩, ls, by rw [e]; exact hv', by rw [hwin2]; exact hrd⟩
  simp only [hmx, if_false] at hbody hrd ⊢
  by_cases hsoa : t = 6
  · simp only [hsoa, if_true] at hbody hrd ⊢
    obtain ⟨l1, l2, e1, hv1, hv2, hrd⟩ := hrd
    obtain ⟨hok1, hw1, hg1⟩ := validName_ok hv1
    obtain ⟨hok2, hw2, hg2⟩ := validName_ok hv2
    obtain ⟨hl21, _⟩ := hbody
    have hm : ((p.drop (rs + l - 20)).take 20).length = 20 := length_take_drop (by omega)
    have hlen : rd.length = (labSum l1 + 1) + (labSum l2 + 1) + 20 := by
      rw [hrd]; simp only [List.length_append, hm, encLabels_length, List.length_cons, List.length_nil]
    have hv1' : ValidName u A.length l1 (A.length + labSum l1 + 1) :=
      validName_at (B := (encLabels l2 ++ [0]) ++ (p.drop (rs + l - 20)).take 20 ++ B) (by rw [hu, hrd]; simp) hok1 hw1 hg1
    have hv2' : ValidName u (A ++ (encLabels l1 ++ [0])).length l2 ((A ++ (encLabels l1 ++ [0])).length + labSum l2 + 1) :=
      validName_at (B := (p.drop (rs + l - 20)).take 20 ++ B) (by rw [hu, hrd]; simp) hok2 hw2 hg2
    rw [List.length_append, encLen_eq] at hv2'
    rw [wireLen_eq] at hw1 hw2
    have hwin20 : (u.drop (A.length + rd.length - 20)).take 20 = (p.drop (rs + l - 20)).take 20 := by
      have := window_eq (u := u) (A := A ++ (encLabels l1 ++ [0]) ++ (encLabels l2 ++ [0]))
        (w := (p.drop (rs + l - 20)).take 20) (B := B) (by rw [hu, hrd]; simp)
      rw [hm] at this
      have e : (A ++ (encLabels l1 ++ [0]) ++ (encLabels l2 ++ [0])).length = A.length + rd.length - 20 := by
        simp only [List.length_append, encLabels_length, List.length_cons, List.length_nil]; omega
      rw [e] at this; exact this
    have e2 : A.length + rd.length - 20 = A.length + (labSum l1 + 1) + labSum l2 + 1 := by omega
    refine ⟨by omega, ⟨by omega, A.length + labSum l1 + 1, A.length + (labSum l1 + 1) + labSum l2 + 1, ⟨l1, hv1'⟩,
      ⟨l2, by simpa [Nat.add_assoc] using hv2'⟩, by omega⟩,
      l1, l2, A.length + labSum l1 + 1, hv1', by rw [e2]; simpa [Nat.add_assoc] using hv2', by rw [hwin20]; exact hrd⟩
  simp only [hsoa, if_false] at hbody hrd ⊢
  have hlen : rd.length = l := by rw [hrd]; exact length_take_drop hfit
  have hag : Agree p u rs A.length l := agree_of_eq (by rw [hu, hrd]) hfit
  refine ⟨by omega, ?_, hwin.symm⟩
  rw [hlen]
  by_cases hdn : t = 39
  · simp only [hdn, if_true] at hbody ⊢
    refine ⟨hbody.1, ?_⟩
    have := hbody.2.translate (u := u) (a' := A.length) (by simpa using hag)
    simpa using this
  · simpa [hdn] using hbody

end Dns

namespace Dns
open Res

theorem labels_nil_of_stop {p : Bytes} {bar off stop : Nat} {ls : List (List UInt8)} (h : Labels p bar off ls stop)
    (hs : stop = off) : ls = [] := by
  cases h with
  | nil => rfl
  | cons _ _ h3 _ _ hrest => have := hrest.le; omega

theorem owner_nil {p : Bytes} {off : Nat} {ls : List (List UInt8)} (h : ValidName p off ls (off + 1)) : ls = [] := by
  obtain ⟨_, hn, _, _⟩ := h
  generalize he : off + 1 = e at hn
  cases hn with
  | @root _ _ _ _ ls stop hl _ _ =>
    have := hl.le
    exact labels_nil_of_stop hl (by omega)
  | ptr hl _ _ _ _ _ _ _ _ => have := hl.le; omega

/-- **the canonical form of a record, placed anywhere, is a record of the policy** for the same
section and OPT flags, has the same type, and is its own canonical form -/
theorem canon_placed {p : Bytes} {sec : Section} {r : RecPos} {ob oa : Bool} (hr : RRAtPos p sec r ob oa)
    {rc : Bytes} (hc : RecCanon p r rc) (pre post : Bytes) :
    ∃ ne', RRAtPos (pre ++ rc ++ post) sec ⟨pre.length, ne', pre.length + rc.length⟩ ob oa ∧
      RecCanon (pre ++ rc ++ post) ⟨pre.length, ne', pre.length + rc.length⟩ rc ∧
      get16 (pre ++ rc ++ post) ne' = get16 p r.ne := by
  obtain ⟨owner, rd, hvo, hrd, hrc⟩ := hc
  obtain ⟨hne, h10, hnext, hfit, hbody⟩ := hr
  have hf8 : ((p.drop r.ne).take 8).length = 8 := length_take_drop (by omega)
  generalize hu : pre ++ rc ++ post = u
  have eu1 : u = pre ++ (encLabels owner ++ [0]) ++ ((p.drop r.ne).take 8 ++ put16 rd.length ++ rd ++ post) := by
    rw [← hu, hrc]; simp
  have eu2 : u = (pre ++ (encLabels owner ++ [0])) ++ (p.drop r.ne).take 8 ++ (put16 rd.length ++ rd ++ post) := by
    rw [← hu, hrc]; simp
  have eu3 : u = (pre ++ (encLabels owner ++ [0]) ++ (p.drop r.ne).take 8) ++ put16 rd.length ++ (rd ++ post) := by
    rw [← hu, hrc]; simp
  have eu4 : u = (pre ++ (encLabels owner ++ [0]) ++ (p.drop r.ne).take 8 ++ put16 rd.length) ++ rd ++ post := by
    rw [← hu, hrc]; simp
  have hA1 : (pre ++ (encLabels owner ++ [0])).length = pre.length + labSum owner + 1 := by
    rw [List.length_append, encLen_eq]; omega
  have hA2 : (pre ++ (encLabels owner ++ [0]) ++ (p.drop r.ne).take 8).length = pre.length + labSum owner + 1 + 8 := by
    rw [List.length_append, hA1, hf8]
  have hA3 : (pre ++ (encLabels owner ++ [0]) ++ (p.drop r.ne).take 8 ++ put16 rd.length).length =
      pre.length + labSum owner + 1 + 10 := by
    rw [List.length_append, hA2]; simp [put16]
  have hfit' : r.ne + 10 + get16 p (r.ne + 8) ≤ p.length := by omega
  have hbody' : if get16 p r.ne = 41 then ∃ n, OptionsTile p (r.ne + 10) (r.ne + 10 + get16 p (r.ne + 8)) n
      else RDataOK p (get16 p r.ne) (get16 p (r.ne + 8)) (r.ne + 10) := by
    by_cases h41 : get16 p r.ne = 41
    · simp only [h41, if_true] at hbody ⊢
      obtain ⟨_, _, _, _, n, ht⟩ := hbody
      exact ⟨n, by rw [← hnext]; exact ht⟩
    · simp only [h41, if_false] at hbody ⊢
      exact hbody.1
  obtain ⟨hlt, hb', hrd'⟩ := rdcanon_placed hfit' (get16_lt p _) hbody' hrd eu4
  rw [hA3] at hb' hrd'
  obtain ⟨hok, hw, hg⟩ := validName_ok hvo
  have hvo' : ValidName u pre.length owner (pre.length + labSum owner + 1) := validName_at eu1 hok hw hg
  have hag8 : Agree p u r.ne (pre.length + labSum owner + 1) 8 := by
    have := agree_of_eq (p := p) eu2 (by omega : r.ne + 8 ≤ p.length)
    rw [hA1] at this; exact this
  have hty : get16 u (pre.length + labSum owner + 1) = get16 p r.ne := by
    have := hag8.get16 (i := 0) (by omega)
    simpa using this
  have hl' : get16 u (pre.length + labSum owner + 1 + 8) = rd.length := by
    have := get16_put16_at eu3 hlt
    rw [hA2] at this; exact this
  have hulen : u.length = pre.length + labSum owner + 1 + 10 + rd.length + post.length := by
    rw [eu4, List.length_append, List.length_append, hA3]
  have hrclen : rc.length = labSum owner + 1 + 10 + rd.length := by
    rw [hrc]; simp only [List.length_append, encLabels_length, hf8, List.length_cons, List.length_nil, put16]
  have hwin8 : (u.drop (pre.length + labSum owner + 1)).take 8 = (p.drop r.ne).take 8 := by
    have := window_eq eu2
    rw [hA1, hf8] at this; exact this
  refine ⟨pre.length + labSum owner + 1, ⟨⟨owner, hvo'⟩, by simp only; omega, by simp only; rw [hl']; omega,
    by simp only; omega, ?_⟩, ⟨owner, rd, hvo', ?_, ?_⟩, hty⟩
  · simp only
    rw [hty, hl']
    by_cases h41 : get16 p r.ne = 41
    · simp only [h41, if_true] at hbody hb' ⊢
      obtain ⟨hsec, hroot, hob, hoa, _⟩ := hbody
      have : owner = [] := by rw [hroot] at hvo; exact owner_nil hvo
      subst this
      obtain ⟨n, ht⟩ := hb'
      refine ⟨hsec, by simp [labSum], hob, hoa, n, ?_⟩
      have e : pre.length + rc.length = pre.length + labSum [] + 1 + 10 + rd.length := by rw [hrclen]; omega
      rw [e]; exact ht
    · simp only [h41, if_false] at hbody hb' ⊢
      exact ⟨hb', hbody.2⟩
  · simp only
    rw [hty, hl']
    exact hrd'
  · simp only
    rw [hwin8, hrc]

end Dns
