/-
  Lemmas.RenameRun — renaming the question and a whole section.
-/
import DnsModel.Lemmas.RenameRec
import DnsModel.Lemmas.CompressRun
namespace Dns
open Res

/-- records of `B` are the records of `u`, one by one, with their names renamed by `R` -/
inductive RunRen (R : List (List UInt8) → List (List UInt8) → Prop) (u B : Bytes) : List RecPos → List RecPos → Prop
  | nil : RunRen R u B [] []
  | cons {r r' : RecPos} {l l' : List RecPos} : RecRen R u r B r' → RunRen R u B l l' → RunRen R u B (r :: l) (r' :: l')

theorem RunRen.length {R : List (List UInt8) → List (List UInt8) → Prop} {u B : Bytes} {l l' : List RecPos}
    (h : RunRen R u B l l') : l'.length = l.length := by
  induction h with
  | nil => rfl
  | cons _ _ ih => simp [ih]

/-- **one section renamed**: all records written, or `InvalidName` because some name overflows -/
theorem fold_rename {pp : PP} {sec : Section} {l : List RecPos} {off e : Nat} {ob oe : Bool} {src tgt : List (List UInt8)}
    (hs : ArgName src) (ht : ArgName tgt) (sfx : Bool) (hl : RRsL pp.packet sec l off ob e oe) :
    ∀ (cs : List Cursor), cs.map posOf = l.map some → ∀ (dict : SuffixDict) (out : Bytes), DictInv dict out →
      (∃ (dict' : SuffixDict) (em : Bytes),
        foldRes (renameResponseItem pp (encLabels tgt ++ [0]) (encLabels src ++ [0]) sfx) (dict, out) cs = .ok (dict', out ++ em) ∧
        DictInv dict' (out ++ em) ∧
        ∀ tl : Bytes, ∃ l', RRsL (out ++ em ++ tl) sec l' out.length ob (out.length + em.length) oe ∧
          RunRen (Renamed src tgt sfx) pp.packet (out ++ em ++ tl) l l' ∧
          l'.map (fun r => get16 (out ++ em ++ tl) r.ne) = l.map (fun r => get16 pp.packet r.ne)) ∨
      (foldRes (renameResponseItem pp (encLabels tgt ++ [0]) (encLabels src ++ [0]) sfx) (dict, out) cs = .err .invalidName ∧
        ∃ r ∈ l, RecOverflow (Renamed src tgt sfx) pp.packet r) := by
  induction hl with
  | nil off o =>
    intro cs hcs dict out hinv
    simp at hcs
    subst hcs
    left
    refine ⟨dict, [], by simp [foldRes], by simpa using hinv, ?_⟩
    intro tl
    refine ⟨[], ?_, RunRen.nil, by simp⟩
    have e : out.length + ([] : Bytes).length = out.length := by simp
    rw [e]
    exact RRsL.nil _ _
  | @cons r l e ob om oe hr hrest ih =>
    intro cs hcs dict out hinv
    cases cs with
    | nil => simp at hcs
    | cons c cs =>
      simp at hcs
      obtain ⟨hc, hcs⟩ := hcs
      rcases rename_record hr c hc hs ht sfx dict out hinv with ⟨dict1, piece, hrun, hd1, hrec⟩ | ⟨herr, hov⟩
      · rcases ih cs (by simpa using hcs) dict1 (out ++ piece) hd1 with ⟨dict', em, hfold, hd', hall⟩ | ⟨herr, r', hr', hov⟩
        · left
          refine ⟨dict', piece ++ em, ?_, by simpa [List.append_assoc] using hd', ?_⟩
          · simp only [foldRes, hrun, Res.bind, hfold]
            simp [List.append_assoc]
          · intro tl
            obtain ⟨l', hrl, hci, hty⟩ := hall tl
            obtain ⟨ne', hr', hty', hci'⟩ := hrec (em ++ tl)
            have eB : out ++ piece ++ em ++ tl = out ++ piece ++ (em ++ tl) := by simp
            have eB' : out ++ (piece ++ em) ++ tl = out ++ piece ++ (em ++ tl) := by simp
            rw [eB] at hrl hci hty
            rw [eB']
            have hl1 : (out ++ piece).length = out.length + piece.length := by simp
            rw [hl1] at hrl
            refine ⟨⟨out.length, ne', out.length + piece.length⟩ :: l', ?_, RunRen.cons hci' hci, ?_⟩
            · have e2 : out.length + (piece ++ em).length = out.length + piece.length + em.length := by simp; omega
              rw [e2]
              exact RRsL.cons hr' hrl
            · rw [List.map_cons, List.map_cons, hty', hty]
        · right
          refine ⟨?_, r', by simp [hr'], hov⟩
          simp only [foldRes, hrun, Res.bind, herr]
      · right
        refine ⟨?_, r, by simp, hov⟩
        simp only [foldRes, herr, Res.bind]

/-- **the question renamed** -/
theorem rename_question {pp : PP} {qe : Nat} {ls src tgt : List (List UInt8)} (hv : ValidName pp.packet 12 ls qe)
    (hq4 : qe + 4 ≤ pp.packet.length) (hs : ArgName src) (ht : ArgName tgt) (sfx : Bool) (dict : SuffixDict) (out : Bytes)
    (hinv : DictInv dict out) :
    ∃ lsr, Renamed src tgt sfx ls lsr ∧
    ((∃ (dict' : SuffixDict) (em : Bytes) (ls' : List (List UInt8)),
      renameQuestionItem pp (encLabels tgt ++ [0]) (encLabels src ++ [0]) sfx (dict, out) ⟨.question, some 12, qe + 4, qe, 0⟩ =
        .ok (dict', out ++ (em ++ (pp.packet.drop qe).take 4)) ∧
      0 < em.length ∧ lsCi ls' lsr ∧ DictInv dict' (out ++ (em ++ (pp.packet.drop qe).take 4)) ∧
      ∀ tl : Bytes, ValidName (out ++ (em ++ (pp.packet.drop qe).take 4) ++ tl) out.length ls' (out.length + em.length)) ∨
    (renameQuestionItem pp (encLabels tgt ++ [0]) (encLabels src ++ [0]) sfx (dict, out) ⟨.question, some 12, qe + 4, qe, 0⟩ =
        .err .invalidName ∧ 255 < wireLen lsr)) := by
  obtain ⟨lsr, hren, hcase⟩ := copyReplaced_spec hv hs ht sfx dict out.length out rfl hinv
  refine ⟨lsr, hren, ?_⟩
  cases hcase with
  | inr h =>
    obtain ⟨hbig, herr⟩ := h
    right
    refine ⟨?_, hbig⟩
    unfold renameQuestionItem
    simp only [unwrap, bind_ok, herr, bind_err]
  | inl h =>
    obtain ⟨_, dict', em, hgen, hpos, _, hall⟩ := h
    obtain ⟨hd, ls', hci, hval⟩ := hall out rfl hinv
    left
    refine ⟨dict', em, ls', ?_, hpos, hci, by simpa [List.append_assoc] using hd.append _, ?_⟩
    · unfold renameQuestionItem
      have hns : decide (pp.packet.length < qe + 4) = false := by simp; omega
      simp only [unwrap, bind_ok, hgen out rfl, failIf, DNS_RR_QUESTION_HEADER_SIZE, hns, Bool.false_eq_true, if_false]
      rw [slice_ok ⟨by omega, by omega⟩]
      have e : qe + 4 - qe = 4 := by omega
      rw [e]
      simp [List.append_assoc]
    · intro tl
      have := hval ((pp.packet.drop qe).take 4 ++ tl)
      simpa [List.append_assoc] using this

end Dns
