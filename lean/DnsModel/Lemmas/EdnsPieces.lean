/-
  Lemmas.EdnsPieces — the EDNS summary as a function of the additional section's pieces and its start:
  `EdnsOf R s i`.  The summary `parse` reports for an assembled packet is the one its pieces determine.
-/
import DnsModel.Lemmas.PieceShape
import DnsModel.Theorems.C05
namespace Dns
open Res

/-- a piece is the OPT pseudo-record: root owner, type 41 -/
def isOptPiece (rc : Bytes) : Bool := getB rc 0 == 0 && get16 rc 1 == 41

/-- the summary an OPT piece lying at `s` carries (`n` options) -/
def pieceInfo (rc : Bytes) (s n : Nat) : EdnsInfo :=
  ⟨some (s + 11), n, some (getB rc 5), some (getB rc 6), some (get16 rc 7), get16 rc 3⟩

/-- the summary of a run of pieces starting at `s`: that of its first OPT piece, if any -/
inductive EdnsOf : List Bytes → Nat → EdnsInfo → Prop
  | nil (s : Nat) : EdnsOf [] s EdnsInfo.none
  | skip {rc : Bytes} {R : List Bytes} {s : Nat} {i : EdnsInfo} : isOptPiece rc = false → EdnsOf R (s + rc.length) i → EdnsOf (rc :: R) s i
  | opt {rc : Bytes} {R : List Bytes} {s n : Nat} : isOptPiece rc = true → OptionsTile rc 11 rc.length n →
      EdnsOf (rc :: R) s (pieceInfo rc s n)

theorem EdnsOf.functional {R : List Bytes} {s : Nat} {i j : EdnsInfo} (h1 : EdnsOf R s i) (h2 : EdnsOf R s j) : i = j := by
  induction h1 with
  | nil s => cases h2; rfl
  | skip hn _ ih =>
    cases h2 with
    | skip _ h => exact ih h
    | opt ho _ => rw [hn] at ho; cases ho
  | opt ho ht =>
    cases h2 with
    | skip hn _ => rw [ho] at hn; cases hn
    | opt _ ht' => rw [ht.functional ht']

theorem enc_root_iff (owner : List (List UInt8)) (hok : ∀ l ∈ owner, okLabel l) (rest : Bytes) :
    (owner = [] ↔ getB ((encLabels owner ++ [0]) ++ rest) 0 = 0) := by
  cases owner with
  | nil => simp [encLabels, getB, byteAt]
  | cons l ls =>
    have hl := hok l (by simp)
    simp only [reduceCtorEq, false_iff]
    simp only [encLabels, getB, byteAt, List.cons_append, List.getElem?_cons_zero, Option.map_some, Option.getD_some]
    have : (UInt8.ofNat l.length).toNat = l.length := by
      simp only [UInt8.toNat_ofNat']
      have := hl.2
      omega
    rw [this]
    have := hl.1
    omega

/-- a self-canonical record of a packet: the window it occupies, where its owner ends, and whether the
owner is the root -/
theorem selfcanon_facts {p : Bytes} {sec : Section} {r : RecPos} {ob oa : Bool} (hr : RRAtPos p sec r ob oa) (hs : SelfCanon p r) :
    ((p.drop r.off).take (r.next - r.off)).length = r.next - r.off ∧
    Agree p ((p.drop r.off).take (r.next - r.off)) r.off 0 (r.next - r.off) ∧
    (r.ne = r.off + 1 ↔ getB p r.off = 0) := by
  obtain ⟨h1, h2, h3⟩ := hr.pos_len
  have hlen : ((p.drop r.off).take (r.next - r.off)).length = r.next - r.off := length_take_drop (by omega)
  have hag : Agree p ((p.drop r.off).take (r.next - r.off)) r.off 0 (r.next - r.off) := by
    intro i hi
    simp [List.getElem?_take, List.getElem?_drop, hi]
  refine ⟨hlen, hag, ?_⟩
  obtain ⟨owner, rd, hvo, hrd, hrc⟩ := hs
  have hgo := validName_ok hvo
  have hsplit : p = p.take r.off ++ (encLabels owner ++ [0]) ++ (((p.drop r.ne).take 8 ++ put16 rd.length ++ rd) ++ p.drop r.next) := by
    have e : p = p.take r.off ++ ((p.drop r.off).take (r.next - r.off)) ++ p.drop r.next := by
      have e2 : p.drop r.next = (p.drop r.off).drop (r.next - r.off) := by rw [List.drop_drop]; congr 1; omega
      rw [e2, List.append_assoc, List.take_append_drop, List.take_append_drop]
    conv => lhs; rw [e, hrc]
    simp
  have hv := validName_at hsplit hgo.1 hgo.2.1 hgo.2.2
  have htl : (p.take r.off).length = r.off := by simp; omega
  rw [htl] at hv
  have hne : r.ne = r.off + labSum owner + 1 := (validName_functional hvo hv).2
  have hb : getB p r.off = getB ((encLabels owner ++ [0]) ++ (((p.drop r.ne).take 8 ++ put16 rd.length ++ rd) ++ p.drop r.next)) 0 := by
    conv => lhs; rw [hsplit]
    unfold getB byteAt
    rw [List.append_assoc, List.getElem?_append_right (by rw [htl]; exact Nat.le_refl _), htl]
    simp
  rw [hb, ← enc_root_iff owner hgo.1 _]
  constructor
  · intro h
    have : labSum owner = 0 := by omega
    cases owner with
    | nil => rfl
    | cons l ls => simp [labSum] at this
  · intro h; rw [hne, h]; simp [labSum]

theorem getB_window {p w : Bytes} {a n : Nat} (h : Agree p w a 0 n) {i : Nat} (hi : i < n) : getB w i = getB p (a + i) := by
  have := getB_of_agree h hi
  simpa using this

theorem get16_window {p w : Bytes} {a n : Nat} (h : Agree p w a 0 n) {i : Nat} (hi : i + 2 ≤ n) : get16 w i = get16 p (a + i) := by
  have := h.get16 (i := i) hi
  simpa using this

/-- **the summary of a run of self-canonical records is the one its pieces determine** -/
theorem ednsOf_of_run {p : Bytes} : ∀ {l : List RecPos} {R : List Bytes} {off e : Nat} {ob oe : Bool},
    RRsL p .additional l off ob e oe → CanonRun p l R → (∀ r ∈ l, SelfCanon p r) → ∀ (i : EdnsInfo),
    (match firstOpt p l with
      | none => i = EdnsInfo.none
      | some r => ∃ n, OptionsTile p (r.ne + 10) (r.ne + 10 + get16 p (r.ne + 8)) n ∧ i = optInfo p r.ne n) →
    EdnsOf R off i := by
  intro l
  induction l with
  | nil =>
    intro R off e ob oe _ hc _ i hi
    cases hc
    simp only [firstOpt, List.find?_nil] at hi
    subst hi
    exact EdnsOf.nil _
  | cons r l ih =>
    intro R off e ob oe hl hc hself i hi
    obtain ⟨hoff, om, hr, hrest⟩ := hl.cons_inv
    subst hoff
    cases hc with
    | @cons _ _ rc ps hcr hcrest =>
      have hsr := hself r (by simp)
      have hrc : rc = (p.drop r.off).take (r.next - r.off) := hcr.functional hsr
      obtain ⟨hlen, hag, hroot⟩ := selfcanon_facts hr hsr
      rw [← hrc] at hlen hag
      obtain ⟨h1, h2, h3⟩ := hr.pos_len
      have hnext : r.next = r.off + rc.length := by omega
      by_cases h41 : get16 p r.ne = 41
      · -- the OPT record
        have hfo : firstOpt p (r :: l) = some r := by simp [firstOpt, h41]
        rw [hfo] at hi
        obtain ⟨n, ht, rfl⟩ := hi
        have hb := hr.2.2.2.2
        simp only [h41, if_true] at hb
        obtain ⟨_, hne, _, _, _⟩ := hb
        have hz : getB p r.off = 0 := hroot.1 hne
        have hopt : isOptPiece rc = true := by
          unfold isOptPiece
          rw [getB_window hag (i := 0) (by omega), get16_window hag (i := 1) (by omega), Nat.add_zero, hz, ← hne, h41]
          rfl
        have hnx : r.ne + 10 + get16 p (r.ne + 8) = r.next := hr.2.2.1.symm
        rw [hnx] at ht
        have ht' : OptionsTile rc 11 rc.length n := by
          have hagt : Agree p rc (r.ne + 10) 11 (r.next - (r.ne + 10)) := by
            have := hag.shift 11 (by omega)
            have e1 : r.off + 11 = r.ne + 10 := by omega
            have e2 : r.next - r.off - 11 = r.next - (r.ne + 10) := by omega
            rw [e1, e2] at this
            simpa using this
          have := ht.translate rc 11 hagt
          have e : 11 + (r.next - (r.ne + 10)) = rc.length := by omega
          rw [e] at this
          exact this
        have hinfo : optInfo p r.ne n = pieceInfo rc r.off n := by
          unfold optInfo pieceInfo
          rw [getB_window hag (i := 5) (by omega), getB_window hag (i := 6) (by omega), get16_window hag (i := 7) (by omega),
            get16_window hag (i := 3) (by omega), hne]
        rw [hinfo]
        exact EdnsOf.opt hopt ht'
      · -- not OPT
        have hfo : firstOpt p (r :: l) = firstOpt p l := by simp [firstOpt, h41]
        rw [hfo] at hi
        have hnopt : isOptPiece rc = false := by
          unfold isOptPiece
          rw [getB_window hag (i := 0) (by omega), get16_window hag (i := 1) (by omega), Nat.add_zero]
          by_cases hz : getB p r.off = 0
          · have hne := hroot.2 hz
            rw [← hne]
            simp [h41]
          · simp [hz]
        have := ih hrest hcrest (fun r' hr' => hself r' (by simp [hr'])) i hi
        rw [hnext] at this
        exact EdnsOf.skip hnopt this

/-- the EDNS summary an object holds -/
def PP.ednsInfo (pp : PP) : EdnsInfo := ⟨pp.offsetEdns, pp.ednsCount, pp.extRcode, pp.ednsVersion, pp.extFlags, pp.maxPayload⟩

/-- **what `parse` reports about EDNS for a plain object's bytes is what the additional pieces determine** -/
theorem PlainObj.parse_info {pp : PP} (P : PlainObj pp) {v : View} (hv : parse pp.packet = .ok v) :
    EdnsOf P.R (P.start .additional) v.info := by
  rw [P.bytes] at hv
  obtain ⟨_, L, _, _, _, he3, _, _, _, _, _, cr, _, _, _, hself⟩ :=
    assemble P.hdr P.q4 P.qls P.A P.N P.R P.o2 P.o3 P.o4 P.hh P.hqd P.hgq P.hq4 P.hcl P.hA P.hN P.hR P.hca P.hcn P.hcr P.hqr
  obtain ⟨L0, _, _, _, _, _, _, hinfo⟩ := C03.layout_full hv
  obtain ⟨_, _, _, er0⟩ := C05.layout_unique L0 L
  rw [er0] at hinfo
  have := ednsOf_of_run L.hr cr (fun r hr => hself r (by simp [hr])) v.info hinfo
  rw [he3] at this
  exact this

/-- the object's EDNS summary is the one its pieces determine -/
def EdnsOK {pp : PP} (P : PlainObj pp) : Prop := EdnsOf P.R (P.start .additional) pp.ednsInfo

/-- **then it is the one a fresh parse reports** -/
theorem EdnsOK.matches_parse {pp : PP} {P : PlainObj pp} (h : EdnsOK P) {v : View} (hv : parse pp.packet = .ok v) :
    pp.offsetEdns = v.offsetEdns ∧ pp.ednsCount = v.ednsCount ∧ pp.extRcode = v.extRcode ∧ pp.ednsVersion = v.ednsVersion ∧
    pp.extFlags = v.extFlags ∧ pp.maxPayload = v.maxPayload := by
  have := h.functional (P.parse_info hv)
  unfold PP.ednsInfo View.info at this
  simp only [EdnsInfo.mk.injEq] at this
  exact this

/-! ### how the summary moves when the run of pieces is edited -/

/-- the summary with its position moved: by `d` forward when `fwd`, backward otherwise -/
def EdnsInfo.moved (i : EdnsInfo) (f : Nat → Nat) : EdnsInfo := { i with start := i.start.map f }

/-- the whole run moves -/
theorem EdnsOf.shift {R : List Bytes} {s : Nat} {i : EdnsInfo} (h : EdnsOf R s i) (s' : Nat) :
    EdnsOf R s' (i.moved (fun x => x + s' - s)) := by
  induction h generalizing s' with
  | nil s => exact EdnsOf.nil _
  | @skip rc R s i hn _ ih =>
    have := ih (s' + rc.length)
    have e : (fun x => x + (s' + rc.length) - (s + rc.length)) = (fun x => x + s' - s) := by
      funext x; omega
    rw [e] at this
    exact EdnsOf.skip hn this
  | @opt rc R s n ho ht =>
    have : (pieceInfo rc s n).moved (fun x => x + s' - s) = pieceInfo rc s' n := by
      unfold pieceInfo EdnsInfo.moved
      simp only [Option.map_some, EdnsInfo.mk.injEq, Option.some.injEq, and_true]
      omega
    rw [this]
    exact EdnsOf.opt ho ht

/-- the position, when there is one, lies inside the run, at least 11 bytes after the run's start -/
theorem EdnsOf.start_ge {R : List Bytes} {s : Nat} {i : EdnsInfo} (h : EdnsOf R s i) : ∀ x, i.start = some x → s + 11 ≤ x := by
  induction h with
  | nil s => intro x hx; simp [EdnsInfo.none] at hx
  | skip _ _ ih => intro x hx; have := ih x hx; omega
  | opt _ _ => intro x hx; simp [pieceInfo] at hx; omega

/-- an OPT piece is at least 11 bytes long -/
theorem optionsTile_le {p : Bytes} {a b n : Nat} (ht : OptionsTile p a b n) : a ≤ b := by
  induction ht with
  | done => exact Nat.le_refl _
  | opt h _ ih => omega

theorem optPiece_len {rc : Bytes} {n : Nat} (ht : OptionsTile rc 11 rc.length n) : 11 ≤ rc.length := optionsTile_le ht

/-- no OPT in a run: no summary -/
theorem EdnsOf.none_of_noopt {R : List Bytes} (h : ∀ rc ∈ R, isOptPiece rc = false) (s : Nat) : EdnsOf R s EdnsInfo.none := by
  induction R generalizing s with
  | nil => exact EdnsOf.nil _
  | cons rc R ih => exact EdnsOf.skip (h rc (by simp)) (ih (fun r hr => h r (by simp [hr])) _)

/-- a non-OPT piece appended at the end changes nothing -/
theorem EdnsOf.append {R : List Bytes} {s : Nat} {i : EdnsInfo} (h : EdnsOf R s i) (rr : Bytes) (hn : isOptPiece rr = false) :
    EdnsOf (R ++ [rr]) s i := by
  induction h with
  | nil s => exact EdnsOf.skip hn (EdnsOf.nil _)
  | skip hn' _ ih => exact EdnsOf.skip hn' ih
  | opt ho ht => exact EdnsOf.opt ho ht

/-- **replacing a non-OPT piece by a non-OPT piece**: a position after it moves by the difference of the
lengths, nothing else changes -/
theorem EdnsOf.replace {R1 R2 : List Bytes} {rc rc' : Bytes} {s : Nat} {i : EdnsInfo}
    (h : EdnsOf (R1 ++ rc :: R2) s i) (hn : isOptPiece rc = false) (hn' : isOptPiece rc' = false) :
    EdnsOf (R1 ++ rc' :: R2) s
      (i.moved (fun x => if s + R1.flatten.length < x then x + rc'.length - rc.length else x)) := by
  induction R1 generalizing s with
  | nil =>
    cases h with
    | skip _ hrest =>
      have hs := hrest.shift (s + rc'.length)
      refine EdnsOf.skip hn' ?_
      have e : i.moved (fun x => x + (s + rc'.length) - (s + rc.length)) =
          i.moved (fun x => if s + ([] : List Bytes).flatten.length < x then x + rc'.length - rc.length else x) := by
        unfold EdnsInfo.moved
        congr 1
        cases hst : i.start with
        | none => rfl
        | some x =>
          have := hrest.start_ge x hst
          simp only [Option.map_some, List.flatten_nil, List.length_nil, Nat.add_zero]
          have hlt : s < x := by omega
          simp only [hlt, if_true]
          congr 1
          omega
      rw [← e]
      exact hs
    | opt ho _ => rw [hn] at ho; cases ho
  | cons y R1 ih =>
    cases h with
    | skip hy hrest =>
      have := ih hrest
      refine EdnsOf.skip hy ?_
      have e : (fun x => if s + y.length + R1.flatten.length < x then x + rc'.length - rc.length else x) =
          (fun x => if s + (y :: R1).flatten.length < x then x + rc'.length - rc.length else x) := by
        funext x
        simp only [List.flatten_cons, List.length_append]
        have : s + y.length + R1.flatten.length = s + (y.length + R1.flatten.length) := by omega
        rw [this]
      rw [e] at this
      exact this
    | @opt _ _ _ n ho ht =>
      have hl := optPiece_len ht
      have e : (pieceInfo y s n).moved (fun x => if s + (y :: R1).flatten.length < x then x + rc'.length - rc.length else x) = pieceInfo y s n := by
        unfold pieceInfo EdnsInfo.moved
        simp only [Option.map_some, List.flatten_cons, List.length_append]
        have : ¬ (s + (y.length + R1.flatten.length) < s + 11) := by omega
        rw [if_neg this]
      rw [e]
      exact EdnsOf.opt ho ht

/-- **removing a non-OPT piece**: a position after it moves back by its length -/
theorem EdnsOf.remove {R1 R2 : List Bytes} {rc : Bytes} {s : Nat} {i : EdnsInfo}
    (h : EdnsOf (R1 ++ rc :: R2) s i) (hn : isOptPiece rc = false) :
    EdnsOf (R1 ++ R2) s (i.moved (fun x => if s + R1.flatten.length < x then x - rc.length else x)) := by
  induction R1 generalizing s with
  | nil =>
    cases h with
    | skip _ hrest =>
      have hs := hrest.shift s
      have e : i.moved (fun x => x + s - (s + rc.length)) =
          i.moved (fun x => if s + ([] : List Bytes).flatten.length < x then x - rc.length else x) := by
        unfold EdnsInfo.moved
        congr 1
        cases hst : i.start with
        | none => rfl
        | some x =>
          have := hrest.start_ge x hst
          simp only [Option.map_some, List.flatten_nil, List.length_nil, Nat.add_zero]
          have hlt : s < x := by omega
          simp only [hlt, if_true]
          congr 1
          omega
      rw [← e]
      exact hs
    | opt ho _ => rw [hn] at ho; cases ho
  | cons y R1 ih =>
    cases h with
    | skip hy hrest =>
      have := ih hrest
      refine EdnsOf.skip hy ?_
      have e : (fun x => if s + y.length + R1.flatten.length < x then x - rc.length else x) =
          (fun x => if s + (y :: R1).flatten.length < x then x - rc.length else x) := by
        funext x
        simp only [List.flatten_cons, List.length_append]
        have : s + y.length + R1.flatten.length = s + (y.length + R1.flatten.length) := by omega
        rw [this]
      rw [e] at this
      exact this
    | @opt _ _ _ n ho ht =>
      have hl := optPiece_len ht
      have e : (pieceInfo y s n).moved (fun x => if s + (y :: R1).flatten.length < x then x - rc.length else x) = pieceInfo y s n := by
        unfold pieceInfo EdnsInfo.moved
        simp only [Option.map_some, List.flatten_cons, List.length_append]
        have : ¬ (s + (y.length + R1.flatten.length) < s + 11) := by omega
        rw [if_neg this]
      rw [e]
      exact EdnsOf.opt ho ht

/-- **removing the OPT piece** of a run that holds no other: no summary is left -/
theorem EdnsOf.remove_opt {R1 R2 : List Bytes} (rc : Bytes) (h1 : ∀ r ∈ R1, isOptPiece r = false) (h2 : ∀ r ∈ R2, isOptPiece r = false) (s : Nat) :
    EdnsOf (R1 ++ R2) s EdnsInfo.none := by
  apply EdnsOf.none_of_noopt
  intro r hr
  simp only [List.mem_append] at hr
  rcases hr with hr | hr
  · exact h1 r hr
  · exact h2 r hr

end Dns
