/-
  Lemmas.HeaderSet — a header setter (bytes 0–3 only) on a plain object leaves the plain object with
  the new header, provided the response bit still allows the records that are there.
-/
import DnsModel.Lemmas.InsertRec
import DnsModel.Theorems.C12
namespace Dns
open Res

theorem getElem?_of_byteAt {p p' : Bytes} {j : Nat} (h : byteAt p' j = byteAt p j) : p'[j]? = p[j]? := by
  unfold byteAt at h
  cases h1 : p'[j]? with
  | none =>
    cases h2 : p[j]? with
    | none => rfl
    | some b => rw [h1, h2] at h; simp at h
  | some a =>
    cases h2 : p[j]? with
    | none => rw [h1, h2] at h; simp at h
    | some b =>
      rw [h1, h2] at h
      simp only [Option.map_some, Option.some.injEq] at h
      rw [UInt8.toNat_inj.1 h]

theorem drop_eq_of_sameExcept {p p' : Bytes} {lo hi k : Nat} (h : C12.sameExcept p p' lo hi) (hk : hi ≤ k) : p'.drop k = p.drop k := by
  apply List.ext_getElem?
  intro i
  rw [List.getElem?_drop, List.getElem?_drop]
  exact getElem?_of_byteAt (h.2 (k + i) (Or.inr (by omega)))

theorem get16_eq_of_sameExcept {p p' : Bytes} {lo hi i : Nat} (h : C12.sameExcept p p' lo hi) (hi' : hi ≤ i ∨ i + 2 ≤ lo) :
    get16 p' i = get16 p i := by
  unfold get16 getB
  rw [h.2 i (by omega), h.2 (i + 1) (by omega)]

/-- **a header setter on a plain object** -/
theorem PlainObj.header_set {pp : PP} (P : PlainObj pp) (p' : Bytes) (hs : C12.sameExcept pp.packet p' 0 4)
    (hqr : get16 p' 2 / 32768 % 2 = 0 → P.A = [] ∧ P.N = []) :
    ∃ P' : PlainObj { pp with packet := p' }, P'.A = P.A ∧ P'.N = P.N ∧ P'.R = P.R ∧ P'.qls = P.qls ∧ P'.q4 = P.q4 ∧
      P'.hdr = p'.take 12 := by
  have hl := P.len
  have hlen' : p'.length = pp.packet.length := hs.1
  have hd : p'.drop 12 = pp.packet.drop 12 := drop_eq_of_sameExcept hs (by omega)
  have hH : (p'.take 12).length = 12 := by simp; omega
  have hg : ∀ i, 4 ≤ i → i + 2 ≤ 12 → get16 (p'.take 12) i = get16 P.hdr i := by
    intro i h4 h12
    have e1 : get16 (p'.take 12) i = get16 p' i := by
      have hag : Agree p' (p'.take 12) 0 0 12 := by
        intro j hj; simp [List.getElem?_take, hj]
      have := hag.get16 (i := i) h12
      simpa using this
    rw [e1, get16_eq_of_sameExcept hs (Or.inl h4), P.bytes]
    simp only [List.append_assoc]
    rw [get16_append_left (by rw [P.hh]; omega)]
  have hg2 : get16 (p'.take 12) 2 = get16 p' 2 := by
    have hag : Agree p' (p'.take 12) 0 0 12 := by
      intro j hj; simp [List.getElem?_take, hj]
    have := hag.get16 (i := 2) (by omega)
    simpa using this
  have hdrop : pp.packet.drop 12 = ((encLabels P.qls ++ [0]) ++ P.q4) ++ P.A.flatten ++ P.N.flatten ++ P.R.flatten := by
    rw [P.bytes]
    simp only [List.append_assoc]
    rw [List.drop_append_of_le_length (by rw [P.hh]; omega), List.drop_of_length_le (by rw [P.hh]; omega)]
    simp
  refine ⟨⟨p'.take 12, P.q4, P.qls, P.A, P.N, P.R, P.o2, P.o3, P.o4, hH, by rw [hg 4 (by omega) (by omega)]; exact P.hqd, P.hgq, P.hq4, P.hcl,
    P.hA, P.hN, P.hR, by rw [hg 6 (by omega) (by omega)]; exact P.hca, by rw [hg 8 (by omega) (by omega)]; exact P.hcn,
    by rw [hg 10 (by omega) (by omega)]; exact P.hcr, by rw [hg2]; exact hqr, ?_, P.oq, P.oa, P.on, P.oR, P.mc⟩, rfl, rfl, rfl, rfl, rfl, rfl⟩
  show p' = _
  conv => lhs; rw [← List.take_append_drop 12 p']
  rw [hd, hdrop]
  simp

end Dns
