/-
  Lemmas.DeleteWalkSkip — the OPT-skipping walk (`next()`) over the additional section of a plain object
  that may hold an OPT record: the walker sees the records other than OPT; walk-and-delete refines the
  abstract machine on that visible list; the OPT record is never touched.
-/
import DnsModel.Lemmas.DeleteWalk
import DnsModel.Lemmas.EdnsOps
namespace Dns
open Res

/-- the records the OPT-skipping walk sees -/
def vis (R : List Bytes) : List Bytes := R.filter (fun rc => !isOptPiece rc)

theorem vis_append (R1 R2 : List Bytes) : vis (R1 ++ R2) = vis R1 ++ vis R2 := by simp [vis]

theorem vis_mid_visible (R1 R2 : List Bytes) (rc : Bytes) (h : isOptPiece rc = false) :
    vis (R1 ++ rc :: R2) = vis R1 ++ rc :: vis R2 := by simp [vis, h]

theorem vis_mid_opt (R1 R2 : List Bytes) (rc : Bytes) (h : isOptPiece rc = true) :
    vis (R1 ++ rc :: R2) = vis R1 ++ vis R2 := by simp [vis, h]

theorem eraseIdx_mid {α} (xs zs : List α) (y : α) : (xs ++ y :: zs).eraseIdx xs.length = xs ++ zs := by
  induction xs with
  | nil => rfl
  | cons x xs ih => simp [ih]

theorem getElem_mid {α} (xs zs : List α) (y : α) (h : xs.length < (xs ++ y :: zs).length) : (xs ++ y :: zs)[xs.length] = y := by
  simp

/-- at most one OPT: around an OPT piece of the additional section every other piece is visible -/
theorem others_visible {pp : PP} (P : PlainObj pp) {R1 R2 : List Bytes} {rc : Bytes} (hsplit : P.R = R1 ++ rc :: R2)
    (ho : isOptPiece rc = true) : (∀ r ∈ R1, isOptPiece r = false) ∧ (∀ r ∈ R2, isOptPiece r = false) := by
  have hR := P.hR
  rw [hsplit, P.o3_false] at hR
  obtain ⟨om, h1, h2⟩ := Pieces.split hR
  cases h2 with
  | @cons _ _ _ om' _ hp hrest =>
    obtain ⟨owner, f8, rd, hrc, hgo, hf8, _, _, h41⟩ := piece_shape hp
    have hshape : isOptPiece ((encLabels owner ++ [0]) ++ f8 ++ (put16 rd.length ++ rd)) = true := by
      have e : (encLabels owner ++ [0]) ++ f8 ++ (put16 rd.length ++ rd) = rc := by rw [hrc]; simp
      rw [e]; exact ho
    obtain ⟨_, ht⟩ := (isOptPiece_shape owner f8 _ hgo hf8).1 hshape
    obtain ⟨_, hom, hom'⟩ := h41 ht
    subst hom; subst hom'
    exact ⟨noopt_of_pieces h1, noopt_after_opt hrest⟩

theorem vis_all {R : List Bytes} (h : ∀ r ∈ R, isOptPiece r = false) : vis R = R := by
  unfold vis
  apply List.filter_eq_self.2
  intro r hr
  simp [h r hr]

/-- the skipping step from a cursor standing before record `j` of the additional section -/
theorem nextSkip_at {pp : PP} (P : PlainObj pp) (j : Nat) (c : Cursor) (h : CurAt P .additional j c) :
    -- past the end
    ((¬ j < (P.lst .additional).length) → nextSkippingOpt pp c = .ok none) ∧
    -- a visible record: lands on it
    (∀ (hj : j < (P.lst .additional).length), isOptPiece (P.lst .additional)[j] = false →
      ∃ ne ob oa, RRAtPos pp.packet .additional ⟨P.start .additional + ((P.lst .additional).take j).flatten.length, ne,
          P.start .additional + ((P.lst .additional).take j).flatten.length + ((P.lst .additional)[j]).length⟩ ob oa ∧
        nextSkippingOpt pp c = .ok (some ⟨.additional, some (P.start .additional + ((P.lst .additional).take j).flatten.length),
          P.start .additional + ((P.lst .additional).take j).flatten.length + ((P.lst .additional)[j]).length, ne, (P.lst .additional).length - j - 1⟩)) ∧
    -- the OPT record, last of the section: end of the walk
    (∀ (hj : j < (P.lst .additional).length), isOptPiece (P.lst .additional)[j] = true → ¬ j + 1 < (P.lst .additional).length → nextSkippingOpt pp c = .ok none) ∧
    -- the OPT record followed by another: lands on that one
    (∀ (hj : j < (P.lst .additional).length), isOptPiece (P.lst .additional)[j] = true → ∀ (hj1 : j + 1 < (P.lst .additional).length),
      ∃ ne ob oa, RRAtPos pp.packet .additional ⟨P.start .additional + ((P.lst .additional).take (j + 1)).flatten.length, ne,
          P.start .additional + ((P.lst .additional).take (j + 1)).flatten.length + ((P.lst .additional)[j + 1]).length⟩ ob oa ∧
        nextSkippingOpt pp c = .ok (some ⟨.additional, some (P.start .additional + ((P.lst .additional).take (j + 1)).flatten.length),
          P.start .additional + ((P.lst .additional).take (j + 1)).flatten.length + ((P.lst .additional)[j + 1]).length, ne, (P.lst .additional).length - j - 2⟩)) := by
  have hs : Section.additional.isRec = true := rfl
  refine ⟨?_, ?_, ?_, ?_⟩
  · intro hj
    unfold nextSkippingOpt
    rw [next_none P .additional hs j c h hj]
    rfl
  · intro hj hvis
    obtain ⟨ne, ob, oa, hr, hnx⟩ := next_some P .additional hs j c h hj
    refine ⟨ne, ob, oa, hr, ?_⟩
    have h41 : get16 pp.packet ne ≠ 41 := by
      intro h41
      have := ((isOpt_iff_type P .additional hs (split_at (P.lst .additional) j hj) hr).1).2 h41
      rw [hvis] at this; cases this
    have h10 : ne + 10 ≤ pp.packet.length := hr.2.1
    unfold nextSkippingOpt
    rw [hnx]
    simp only [bind_ok]
    unfold maybeSkipOpt
    rw [rrType_at (o := P.start .additional + ((P.lst .additional).take j).flatten.length) rfl (by simpa using h10)]
    have c41 : (get16 pp.packet ne == TYPE_OPT) = false := by simp [TYPE_OPT, h41]
    simp only [bind_ok, c41, Bool.false_eq_true, if_false, pure_eq]
  · intro hj hopt hlast
    obtain ⟨ne, ob, oa, hr, hnx⟩ := next_some P .additional hs j c h hj
    have h41 : get16 pp.packet ne = 41 := ((isOpt_iff_type P .additional hs (split_at (P.lst .additional) j hj) hr).1).1 hopt
    have h10 : ne + 10 ≤ pp.packet.length := hr.2.1
    unfold nextSkippingOpt
    rw [hnx]
    simp only [bind_ok]
    unfold maybeSkipOpt
    rw [rrType_at (o := P.start .additional + ((P.lst .additional).take j).flatten.length) rfl (by simpa using h10)]
    have c41 : (get16 pp.packet ne == TYPE_OPT) = true := by simp [TYPE_OPT, h41]
    have hz : (P.lst .additional).length - j - 1 = 0 := by omega
    simp only [bind_ok, c41, if_true, hz, beq_self_eq_true, pure_eq]
  · intro hj hopt hj1
    obtain ⟨ne, ob, oa, hr, hnx⟩ := next_some P .additional hs j c h hj
    have h41 : get16 pp.packet ne = 41 := ((isOpt_iff_type P .additional hs (split_at (P.lst .additional) j hj) hr).1).1 hopt
    have h10 : ne + 10 ≤ pp.packet.length := hr.2.1
    obtain ⟨ne2, ob2, oa2, hr2⟩ := P.rec_at .additional hs (split_at (P.lst .additional) (j + 1) hj1)
    have hvis2 : isOptPiece (P.lst .additional)[j + 1] = false := by
      have := (others_visible P (split_at (P.lst .additional) j hj) hopt).2
      apply this
      have e : ((P.lst .additional).drop (j + 1))[0]'(by simp; omega) = (P.lst .additional)[j + 1] := by simp
      rw [← e]
      exact List.getElem_mem _
    have h41' : get16 pp.packet ne2 ≠ 41 := by
      intro h
      have := ((isOpt_iff_type P .additional hs (split_at (P.lst .additional) (j + 1) hj1) hr2).1).2 h
      rw [hvis2] at this; cases this
    have h10' : ne2 + 10 ≤ pp.packet.length := hr2.2.1
    refine ⟨ne2, ob2, oa2, hr2, ?_⟩
    unfold nextSkippingOpt
    rw [hnx]
    simp only [bind_ok]
    unfold maybeSkipOpt
    rw [rrType_at (o := P.start .additional + ((P.lst .additional).take j).flatten.length) rfl (by simpa using h10)]
    have c41 : (get16 pp.packet ne == TYPE_OPT) = true := by simp [TYPE_OPT, h41]
    have hnz : ((P.lst .additional).length - j - 1 == 0) = false := by
      have : (P.lst .additional).length - j - 1 ≠ 0 := by omega
      simpa using this
    simp only [bind_ok, c41, if_true, hnz, Bool.false_eq_true, if_false]
    have hadj : P.start .additional + ((P.lst .additional).take j).flatten.length + ((P.lst .additional)[j]).length =
        P.start .additional + ((P.lst .additional).take (j + 1)).flatten.length := by
      rw [List.take_succ_eq_append_getElem hj, List.flatten_append, List.length_append]
      simp only [List.flatten_cons, List.flatten_nil, List.append_nil]
      omega
    have hl2 := land_spec hr2 ⟨.additional, some (P.start .additional + ((P.lst .additional).take j).flatten.length),
      P.start .additional + ((P.lst .additional).take j).flatten.length + ((P.lst .additional)[j]).length, ne, (P.lst .additional).length - j - 1 - 1⟩ hadj
    simp only at hl2
    rw [hl2]
    simp only [bind_ok]
    rw [rrType_at (o := P.start .additional + ((P.lst .additional).take (j + 1)).flatten.length) rfl (by simpa using h10')]
    have c41' : (get16 pp.packet ne2 != TYPE_OPT) = true := by simp [TYPE_OPT, h41']
    simp only [bind_ok, assert, c41', if_true, pure_eq]
    congr 3

theorem filter_opt_remove (R1 R2 : List Bytes) (rc : Bytes) (h : isOptPiece rc = false) :
    (R1 ++ R2).filter isOptPiece = (R1 ++ rc :: R2).filter isOptPiece := by simp [h]

/-- **refinement for the OPT-skipping walk over the additional section**: the walker does on the object
what the abstract machine does on the visible records; the OPT record, if any, is left alone -/
theorem delWalkSkip_refines (choose : Nat → Bool) :
    ∀ (fuel k : Nat) (pp : PP) (P : PlainObj pp) (c : Cursor) (j : Nat), CurAt P .additional j c →
      ∀ r, absWalk choose fuel k (vis (P.lst .additional)) (vis ((P.lst .additional).take j)).length = some r →
        ∃ (pp' : PP) (P' : PlainObj pp'), delWalk nextSkippingOpt choose fuel k pp c = .ok (pp', r.2) ∧
          vis (P'.lst .additional) = r.1 ∧
          (P'.lst .additional).filter isOptPiece = (P.lst .additional).filter isOptPiece ∧
          (∀ s, s ≠ .additional → P'.lst s = P.lst s) ∧ P'.qls = P.qls ∧ P'.q4 = P.q4 ∧
          (∀ i, (i + 1 < 10 ∨ 11 < i) → get16 P'.hdr i = get16 P.hdr i) := by
  have hs : Section.additional.isRec = true := rfl
  intro fuel
  induction fuel with
  | zero => intro k pp P c j _ r h; simp [absWalk] at h
  | succ f ih =>
    intro k pp P c j hc r h
    obtain ⟨hend, hvisible, hoptlast, hoptthen⟩ := nextSkip_at P j c hc
    -- the shared continuation once the walker has landed on the visible record `m`
    have tail : ∀ (m : Nat) (hm : m < (P.lst .additional).length), isOptPiece (P.lst .additional)[m] = false →
        (vis ((P.lst .additional).take m)).length = (vis ((P.lst .additional).take j)).length →
        ∀ (ne : Nat) (ob oa : Bool),
          RRAtPos pp.packet .additional ⟨P.start .additional + ((P.lst .additional).take m).flatten.length, ne,
            P.start .additional + ((P.lst .additional).take m).flatten.length + ((P.lst .additional)[m]).length⟩ ob oa →
          nextSkippingOpt pp c = .ok (some ⟨.additional, some (P.start .additional + ((P.lst .additional).take m).flatten.length),
            P.start .additional + ((P.lst .additional).take m).flatten.length + ((P.lst .additional)[m]).length, ne,
            (P.lst .additional).length - m - 1⟩) →
          ∃ (pp' : PP) (P' : PlainObj pp'), delWalk nextSkippingOpt choose (f + 1) k pp c = .ok (pp', r.2) ∧
            vis (P'.lst .additional) = r.1 ∧
            (P'.lst .additional).filter isOptPiece = (P.lst .additional).filter isOptPiece ∧
            (∀ s, s ≠ .additional → P'.lst s = P.lst s) ∧ P'.qls = P.qls ∧ P'.q4 = P.q4 ∧
            (∀ i, (i + 1 < 10 ∨ 11 < i) → get16 P'.hdr i = get16 P.hdr i) := by
      intro m hm hvm hidx ne ob oa hr hnx
      have hsplit := split_at (P.lst .additional) m hm
      have hv : vis (P.lst .additional) = vis ((P.lst .additional).take m) ++ (P.lst .additional)[m] :: vis ((P.lst .additional).drop (m + 1)) := by
        conv => lhs; rw [hsplit]
        exact vis_mid_visible _ _ _ hvm
      unfold absWalk at h
      rw [← hidx, hv] at h
      have hlt : (vis ((P.lst .additional).take m)).length <
          (vis ((P.lst .additional).take m) ++ (P.lst .additional)[m] :: vis ((P.lst .additional).drop (m + 1))).length := by simp
      simp only [hlt, dite_true, getElem_mid, eraseIdx_mid] at h
      unfold delWalk
      rw [hnx]
      simp only
      have hwin := P.window .additional hs hsplit
      have hrb : recBytes pp ⟨.additional, some (P.start .additional + ((P.lst .additional).take m).flatten.length),
          P.start .additional + ((P.lst .additional).take m).flatten.length + ((P.lst .additional)[m]).length, ne,
          (P.lst .additional).length - m - 1⟩ = (P.lst .additional)[m] := by
        simp only [recBytes]
        rw [Nat.add_sub_cancel_left]
        exact hwin
      rw [hrb]
      by_cases hch : choose k = true
      · simp only [hch, if_true] at h ⊢
        obtain ⟨pp1, P1, hdel, e1, e2, e3, e4, e5, _, _⟩ := P.delete_at .additional hs hsplit
          ⟨.additional, some (P.start .additional + ((P.lst .additional).take m).flatten.length),
            P.start .additional + ((P.lst .additional).take m).flatten.length + ((P.lst .additional)[m]).length, ne,
            (P.lst .additional).length - m - 1⟩ hr rfl rfl rfl
        rw [hdel]
        simp only [Option.isSome_none, Bool.false_eq_true, if_false]
        obtain ⟨r', hr', rfl⟩ := Option.map_eq_some_iff.1 h
        have hc1 : CurAt P1 .additional 0 ⟨.additional, none, P.start .additional + ((P.lst .additional).take m).flatten.length, ne,
            (P.lst .additional).length - m - 1⟩ := ⟨rfl, Or.inl ⟨rfl, rfl⟩⟩
        have hv1 : vis (P1.lst .additional) = vis ((P.lst .additional).take m) ++ vis ((P.lst .additional).drop (m + 1)) := by
          rw [e1]; exact vis_append _ _
        rw [← hv1] at hr'
        have h0 : (vis ((P1.lst .additional).take 0)).length = 0 := by simp [vis]
        rw [← h0] at hr'
        obtain ⟨pp', P', hw, f1, f2, f3, f4, f5, f6⟩ := ih (k + 1) pp1 P1 _ 0 hc1 r' hr'
        refine ⟨pp', P', by rw [hw]; rfl, f1, ?_, ?_, by rw [f4, e3], by rw [f5, e4], ?_⟩
        · rw [f2, e1]
          conv => rhs; rw [hsplit]
          exact filter_opt_remove _ _ _ hvm
        · intro s hs'; rw [f3 s hs', e2 s hs']
        · intro i hi; rw [f6 i hi]; exact e5 i (by simpa [sectionCountOffset] using hi)
      · have hch' : choose k = false := by simpa using hch
        simp only [hch', Bool.false_eq_true, if_false] at h ⊢
        obtain ⟨r', hr', rfl⟩ := Option.map_eq_some_iff.1 h
        have hc1 : CurAt P .additional (m + 1) ⟨.additional, some (P.start .additional + ((P.lst .additional).take m).flatten.length),
            P.start .additional + ((P.lst .additional).take m).flatten.length + ((P.lst .additional)[m]).length, ne,
            (P.lst .additional).length - m - 1⟩ := by
          refine ⟨rfl, Or.inr ⟨_, rfl, ?_, by simp only; omega, by omega⟩⟩
          simp only
          rw [List.take_succ_eq_append_getElem hm, List.flatten_append, List.length_append]
          simp only [List.flatten_cons, List.flatten_nil, List.append_nil]
          omega
        have hidx' : (vis ((P.lst .additional).take (m + 1))).length = (vis ((P.lst .additional).take m)).length + 1 := by
          rw [List.take_succ_eq_append_getElem hm, vis_append]
          simp [vis, hvm]
        rw [← hv, ← hidx'] at hr'
        obtain ⟨pp', P', hw, f1, f2, f3, f4, f5, f6⟩ := ih (k + 1) pp P _ (m + 1) hc1 r' hr'
        exact ⟨pp', P', by rw [hw]; rfl, f1, f2, f3, f4, f5, f6⟩
    by_cases hj : j < (P.lst .additional).length
    · by_cases hopt : isOptPiece (P.lst .additional)[j] = true
      · by_cases hj1 : j + 1 < (P.lst .additional).length
        · obtain ⟨ne, ob, oa, hr, hnx⟩ := hoptthen hj hopt hj1
          have hvis2 : isOptPiece (P.lst .additional)[j + 1] = false := by
            have := (others_visible P (split_at (P.lst .additional) j hj) hopt).2
            apply this
            have e : ((P.lst .additional).drop (j + 1))[0]'(by simp; omega) = (P.lst .additional)[j + 1] := by simp
            rw [← e]
            exact List.getElem_mem _
          refine tail (j + 1) hj1 hvis2 ?_ ne ob oa hr hnx
          rw [List.take_succ_eq_append_getElem hj, vis_append]
          simp [vis, hopt]
        · -- OPT is the last record: the walk ends, and so does the machine
          have hv : vis (P.lst .additional) = vis ((P.lst .additional).take j) := by
            conv => lhs; rw [split_at (P.lst .additional) j hj]
            rw [vis_mid_opt _ _ _ hopt]
            have : (P.lst .additional).drop (j + 1) = [] := List.drop_eq_nil_of_le (by omega)
            rw [this]; simp [vis]
          unfold absWalk at h
          rw [hv] at h
          simp only [Nat.lt_irrefl, dite_false, Option.some.injEq] at h
          unfold delWalk
          rw [hoptlast hj hopt hj1]
          subst h
          exact ⟨pp, P, rfl, hv, rfl, fun _ _ => rfl, rfl, rfl, fun _ _ => rfl⟩
      · have hvm : isOptPiece (P.lst .additional)[j] = false := by simpa using hopt
        obtain ⟨ne, ob, oa, hr, hnx⟩ := hvisible hj hvm
        exact tail j hj hvm rfl ne ob oa hr hnx
    · have hv : (P.lst .additional).take j = P.lst .additional := List.take_of_length_le (by omega)
      unfold absWalk at h
      rw [hv] at h
      simp only [Nat.lt_irrefl, dite_false, Option.some.injEq] at h
      unfold delWalk
      rw [hend hj]
      subst h
      exact ⟨pp, P, rfl, rfl, rfl, fun _ _ => rfl, rfl, rfl, fun _ _ => rfl⟩

end Dns
